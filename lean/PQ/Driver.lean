import PQ.Model.Ops
import PQ.Model.Crash
import PQ.Model.CrashCb
/-!
# Line-protocol driver (mirror mode)

Reads a trace written by the Rust harness, one operation per line:

    <op> <args…> => <result tokens> | <snapshot tokens>

re-executes every operation on the model (`P := Pr`, integers ordered by `Pr.rank`), prints the model's own `<result> | <snapshot>` in
the same canonical format and compares the two strings.  A `case <id> <pq|dpq>` line starts a fresh queue.
Output: one `DIFF` line per mismatching line (at most one per case: the rest of a diverged case is skipped),
then a `SUMMARY` line.  No imports outside the model: links natively.
-/
namespace PQ.Driver
open PQ

/-- The driver's priority type: an integer ordered by `rank`.  Below `tagBase` the rank is the value itself; from `tagBase`
on the three low bits are a tag that takes no part in the order (the harness's `Pri` has exactly this `Ord`/`Eq`): two
priorities can compare equal and still be distinguishable.  `rank` is monotone, so `<` is a strict weak order — an
instance of the total preorders the theorems quantify over. -/
structure Pr where
  v : Int
  deriving DecidableEq, Inhabited

def tagBase : Int := 1099511627776   -- 2^40

def Pr.rank (p : Pr) : Int := if p.v < tagBase then p.v else tagBase + (p.v - tagBase) / 8

instance : LT Pr := ⟨fun a b => a.rank < b.rank⟩
instance : DecidableLT Pr := fun a b => inferInstanceAs (Decidable (a.rank < b.rank))
instance : ToString Pr := ⟨fun p => toString p.v⟩

/-- forget the tag: equality of normalised priorities is the harness's `PartialEq for Pri` -/
def Pr.norm (p : Pr) : Pr := ⟨p.rank⟩

abbrev Entry := Item × Pr

structure St where
  kind : Kind
  s : Store Pr

instance : Inhabited St := ⟨⟨.pq, Store.empty⟩⟩

/-! ## token parser -/
abbrev Pm := StateT (List String) (Except String)

def tok : Pm String := do
  match (← get) with
  | [] => throw "unexpected end of line"
  | t :: ts => set ts; pure t

def nat : Pm Nat := do
  let t ← tok
  match t.toNat? with
  | some n => pure n
  | none => throw s!"expected a natural number, got {t}"

def int : Pm Pr := do
  let t ← tok
  match t.toInt? with
  | some n => pure ⟨n⟩
  | none => throw s!"expected an integer, got {t}"

def flag : Pm Bool := do
  let n ← nat
  pure (n != 0)

def entry : Pm Entry := do
  let k ← nat; let pl ← nat; let p ← int
  pure (⟨k, pl⟩, p)

def rep (n : Nat) (p : Pm α) : Pm (Array α) := do
  let mut acc := #[]
  for _ in [0:n] do
    acc := acc.push (← p)
  pure acc

def entries : Pm (Array Entry) := do
  let n ← nat
  rep n entry

def optNat : Pm (Option Nat) := do
  let t ← tok
  if t == "none" then pure none
  else match t.toNat? with
    | some n => pure (some n)
    | none => throw s!"expected none or a number, got {t}"

def kindP : Pm Kind := do
  let t ← tok
  if t == "pq" then pure .pq else if t == "dpq" then pure .dpq else throw s!"bad kind {t}"

/-- a client call: a primitive call, or `nth(k)` / `nth_back(k)`, which std's default methods implement as
`k` discarded advances (stopping at the first `None`) followed by one more advance -/
inductive XCall where
  | prim (c : ICall)
  | nth (back : Bool) (k : Nat)
  /-- `last()`: advance from the front until `None`, report the last element seen; consumes the iterator -/
  | last
  /-- `count()`: advance from the front until `None`, report how many elements were seen; consumes the iterator -/
  | count

def xcall : Pm XCall := do
  let t ← tok
  match t with
  | "f" => pure (.prim .next)
  | "b" => pure (.prim .nextBack)
  | "l" => pure (.prim .len)
  | "h" => pure (.prim .sizeHint)
  | "z" => pure .last
  | "c" => pure .count
  | _ =>
    if t.startsWith "n" then
      match (t.drop 1).toString.toNat? with
      | some k => pure (.nth false k)
      | none => throw s!"bad iterator call {t}"
    else if t.startsWith "m" then
      match (t.drop 1).toString.toNat? with
      | some k => pure (.nth true k)
      | none => throw s!"bad iterator call {t}"
    else throw s!"bad iterator call {t}"

/-- run an extended call on a machine given by its primitive step function -/
def xstep {σ : Type} (step : σ → ICall → R (σ × IOut)) (st : σ) : XCall → R (σ × IOut)
  | .prim c => step st c
  | .nth back k => do
    let adv := if back then ICall.nextBack else ICall.next
    let mut st := st
    for _ in [0:k] do
      let (st', o) ← step st adv
      st := st'
      match o with
      | .slot (some _) => pure ()
      | _ => return (st, .slot none)
    step st adv
  | .last | .count => .error .fuel   -- handled by `xdrain` (they consume the machine)

/-- `last()` / `count()` on a machine: run `next` until it answers `none` (fuel = an upper bound on the remaining length) -/
def xdrain {σ : Type} (step : σ → ICall → R (σ × IOut)) (fuel : Nat) (st : σ) : R (σ × Option Nat × Nat) := do
  let mut st := st
  let mut lastSlot : Option Nat := none
  let mut n := 0
  for _ in [0:fuel + 1] do
    let (st', o) ← step st .next
    st := st'
    match o with
    | .slot (some i) => lastSlot := some i; n := n + 1
    | _ => return (st, lastSlot, n)
  pure (st, lastSlot, n)

/-! ## canonical printing -/
def showOptP : Option Pr → String
  | none => "none"
  | some p => s!"some {p}"

def showE (e : Entry) : String := s!"{e.1.key} {e.1.payload} {e.2}"

def showOptE : Option Entry → String
  | none => "none"
  | some e => s!"some {showE e}"

def showNats (a : Array Nat) : String :=
  a.foldl (fun acc x => acc ++ " " ++ toString x) (toString a.size)

/-- what the public peeks report in this state -/
def showPeeks (kind : Kind) (s : Store Pr) : String :=
  match kind with
  | .pq => showOptE (MaxQ.peek s)
  | .dpq =>
    match DQ.peekMin s, DQ.peekMax s with
    | .ok a, .ok (_, b) => showOptE a ++ " " ++ showOptE b
    | _, _ => "panic"

def showSnap (kind : Kind) (s : Store Pr) (dt : Nat) : String :=
  let m := s.map.foldl (fun acc e => acc ++ " " ++ showE e) s!"m {s.map.size}"
  s!"{m} h {showNats s.heap} q {showNats s.qp} s {s.size} pk {showPeeks kind s} t {dt}"

def showFault : Fault → String
  | .oob _ => "fault oob"
  | .indexPanic _ => "fault index"
  | .unwrapNone _ => "fault unwrap"
  | .arith _ => "fault arith"
  | .capacity => "fault capacity"
  | .fuel => "fault fuel"
  | .userPanic => "fault user"

def showFaultSite : Fault → String
  | .oob n => s!"oob@{n}"
  | .indexPanic n => s!"index@{n}"
  | .unwrapNone n => s!"unwrap@{n}"
  | .arith n => s!"arith@{n}"
  | .capacity => "capacity"
  | .fuel => "fuel"
  | .userPanic => "user"

def showKeys (l : List Entry) : String :=
  l.foldl (fun acc e => acc ++ s!" {e.1.key} {e.1.payload}") (toString l.length)

def showOut (m : IMap Pr) : IOut → String
  | .slot none => "s none"
  | .slot (some i) => match m[i]? with
    | some e => s!"s some {showE e}"
    | none => s!"s bad {i}"
  | .len n => s!"l {n}"
  | .hint lo none => s!"h {lo} none"
  | .hint lo (some hi) => s!"h {lo} {hi}"
  | .unsupported => "u"

/-! ## snapshot parsing (for `load`) -/
def snapP : Pm (Store Pr) := do
  let t ← tok; if t != "m" then throw "snapshot: expected m"
  let map ← entries
  let t ← tok; if t != "h" then throw "snapshot: expected h"
  let hn ← nat; let heap ← rep hn nat
  let t ← tok; if t != "q" then throw "snapshot: expected q"
  let qn ← nat; let qp ← rep qn nat
  let t ← tok; if t != "s" then throw "snapshot: expected s"
  let size ← nat
  pure { map := map, heap := heap, qp := qp, size := size }

/-! ## closures as data -/
structure PredRow where
  key : Nat
  keep : Bool
  prio : Option Pr
  payload : Option Nat

def predRow : Pm PredRow := do
  let key ← nat; let keep ← flag
  let wp ← flag; let p ← int
  let wpl ← flag; let pl ← nat
  pure ⟨key, keep, if wp then some p else none, if wpl then some pl else none⟩

def predOf (rows : Array PredRow) : Item → Pr → Bool × Item × Pr := fun it p =>
  match rows.find? (fun r => r.key == it.key) with
  | some r =>
    (r.keep, (match r.payload with | some pl => { it with payload := pl } | none => it),
      (match r.prio with | some q => q | none => p))
  | none => (true, it, p)

def writeP : Pm (IMWrite Pr) := do
  let wp ← flag; let p ← int
  let wpl ← flag; let pl ← nat
  pure ⟨if wp then some p else none, if wpl then some pl else none⟩

/-- amounts for which `reserve` deterministically reports a capacity overflow (see DESIGN.md, C17) -/
def capBad (n : Nat) : Bool := n ≥ 2 ^ 61

/-! ## execution -/

/-- result of one operation: new state, canonical result string -/
abbrev Res := Except Fault (St × String)

def kOp (st : St) (fpq : Store Pr → R (Store Pr × String)) (fdpq : Store Pr → R (Store Pr × String)) : Res := do
  let (s, out) ← match st.kind with
    | .pq => fpq st.s
    | .dpq => fdpq st.s
  pure ({ st with s := s }, out)

def buildOther (kind : Kind) (xs : Array Entry) : R (Store Pr) :=
  match kind with
  | .pq => MaxQ.pushAll xs.toList Store.empty
  | .dpq => DQ.pushAll xs.toList Store.empty

/-- run an `iter_mut` program on the map.  Programs made of primitive calls only go through the model's own
`iterMutRun` (the function the theorems are about); programs containing `nth`/`nth_back`/`last`/`count` are desugared call by
call.  Returns the rewritten store, the outputs, and whether the guard was consumed inside the program (`last`/`count`). -/
def runIterMut (kind : Kind) (prog : Array (XCall × IMWrite Pr)) (s : Store Pr) : R (Store Pr × String × Bool) := do
  let n := s.map.size
  let prims := prog.toList.filterMap fun (c, w) => match c with | .prim c => some (c, w) | _ => none
  if prims.length == prog.size then
    -- outputs are shown against the map as it was when each call was made: replay the writes alongside
    let (outs, m) ← iterMutRun kind n prims PIterMut.new (DIterMut.new n) s.map
    let mut map := s.map
    let mut out := ""
    for (o, (_, w)) in outs.zip prims do
      out := out ++ " " ++ showOut map o
      match o with
      | .slot (some i) => map := IMap.applyWrite map i w
      | _ => pure ()
    pure ({ s with map := m }, out, false)
  else
    let mut map := s.map
    let mut out := ""
    let mut pit := PIterMut.new
    let mut dit := DIterMut.new n
    let mut gone := false
    for (c, w) in prog do
      if gone then
        out := out ++ " gone"
      else
        match c with
        | .last | .count =>
          let (lastSlot, cnt) ← match kind with
            | .pq => do
              let (_, l, k) ← xdrain (fun it c => pure (PIterMut.step n it c)) n pit
              pure (l, k)
            | .dpq => do
              let (_, l, k) ← xdrain (DIterMut.step n) n dit
              pure (l, k)
          gone := true
          match c with
          | .last => out := out ++ " " ++ showOut map (.slot lastSlot)
          | _ => out := out ++ s!" l {cnt}"
        | _ =>
          let o ← match kind with
            | .pq => do
              let (it', o) ← xstep (fun it c => pure (PIterMut.step n it c)) pit c
              pit := it'
              pure o
            | .dpq => do
              let (it', o) ← xstep (DIterMut.step n) dit c
              dit := it'
              pure o
          out := out ++ " " ++ showOut map o
          match o with
          | .slot (some i) => map := IMap.applyWrite map i w
          | _ => pure ()
    pure ({ s with map := map }, out, gone)

/-- the `late` mode of the harness: the references are collected, the guard is dropped (heap rebuilt on the UNCHANGED
priorities), and only then the writes are performed — what `iter_mut().collect::<Vec<_>>()` followed by writes does -/
def runIterMutLate (kind : Kind) (prog : Array (XCall × IMWrite Pr)) (s : Store Pr) : R (Store Pr × String) := do
  let prims := prog.toList.filterMap fun (c, w) => match c with | .prim c => some (c, w) | _ => none
  if prims.length == prog.size then
    -- the model's own definition (`Ops.iterMutLate`); outputs are shown against the unwritten map
    let (s', outs) ← iterMutLate kind s prims
    let out := outs.foldl (fun acc o => acc ++ " " ++ showOut s.map o) ""
    return (s', out)
  let nowrite : IMWrite Pr := ⟨none, none⟩
  let (_, out, _) ← runIterMut kind (prog.map fun (c, _) => (c, nowrite)) s
  let s1 ← match kind with | .pq => MaxQ.heapBuild s | .dpq => DQ.heapBuild s
  -- now the writes, in yield order, with nobody rebuilding afterwards
  let n := s.map.size
  let mut map := s1.map
  let mut pit := PIterMut.new
  let mut dit := DIterMut.new n
  for (c, w) in prog do
    let o ← match kind with
      | .pq => do
        let (it', o) ← xstep (fun it c => pure (PIterMut.step n it c)) pit c
        pit := it'
        pure o
      | .dpq => do
        let (it', o) ← xstep (DIterMut.step n) dit c
        dit := it'
        pure o
    match o with
    | .slot (some i) => map := IMap.applyWrite map i w
    | _ => pure ()
  pure ({ s1 with map := map }, out)

def runCursor (m : IMap Pr) (calls : Array XCall) : String := Id.run do
  let mut c := Cursor.new m.size
  let mut out := ""
  let mut gone := false
  for x in calls do
    if gone then
      out := out ++ " gone"
    else
      match x with
      | .last | .count =>
        match xdrain (fun c k => pure (Cursor.step c k)) m.size c with
        | .ok (_, l, k) =>
          gone := true
          out := out ++ (match x with | .last => " " ++ showOut m (.slot l) | _ => s!" l {k}")
        | .error _ => out := out ++ " fault"
      | _ =>
        match xstep (fun c k => pure (Cursor.step c k)) c x with
        | .ok (c', o) =>
          c := c'
          out := out ++ " " ++ showOut m o
        | .error _ => out := out ++ " fault"
  pure out

/-- the sorted iterators as machines over the (consumed copy of the) store; outputs are printed directly -/
inductive SOut where
  | item (e : Option Entry)
  | len (n : Nat)
  | hint (lo : Nat) (hi : Option Nat)
  | unsupported

def sortedStep (kind : Kind) (s : Store Pr) : ICall → R (Store Pr × SOut)
  | .next => do
    let (s', r) ← (match kind with | .pq => MaxQ.pop s | .dpq => DQ.popMin s)
    pure (s', .item r)
  | .nextBack =>
    match kind with
    | .pq => pure (s, .unsupported)
    | .dpq => do
      let (s', r) ← DQ.popMax s
      pure (s', .item r)
  | .len => pure (s, match kind with | .pq => .unsupported | .dpq => .len s.size)
  | .sizeHint => pure (s, match kind with | .pq => .hint 0 none | .dpq => .hint s.size (some s.size))

def runSorted (kind : Kind) (calls : Array XCall) (s : Store Pr) : R (String × Nat) := do
  let mut s := s
  let t0 := s.ticks
  let mut out := ""
  let mut gone := false
  for c in calls do
    if gone then
      out := out ++ " gone"
      continue
    let o ← match c with
      | .last | .count => do
        -- pop from the front until empty
        let mut lastE : Option Entry := none
        let mut cnt := 0
        for _ in [0:s.size + 1] do
          let (s', o) ← sortedStep kind s .next
          s := s'
          match o with
          | .item (some e) => lastE := some e; cnt := cnt + 1
          | _ => break
        gone := true
        pure (match c with | .last => SOut.item lastE | _ => SOut.len cnt)
      | .prim c => do
        let (s', o) ← sortedStep kind s c
        s := s'
        pure o
      | .nth back k => do
        let adv := if back then ICall.nextBack else ICall.next
        let mut stop := false
        for _ in [0:k] do
          if !stop then
            let (s', o) ← sortedStep kind s adv
            s := s'
            match o with
            | .item (some _) => pure ()
            | _ => stop := true
        if stop then pure (SOut.item none)
        else do
          let (s', o) ← sortedStep kind s adv
          s := s'
          pure o
    out := out ++ (match o with
      | .item e => " s " ++ showOptE e
      | .len n => s!" l {n}"
      | .hint lo none => s!" h {lo} none"
      | .hint lo (some hi) => s!" h {lo} {hi}"
      | .unsupported => " u")
  pure (out, s.ticks - t0)

def exec (st : St) (op : String) : Pm Res := do
  let s := st.s
  match op with
  | "push" =>
    let e ← entry
    pure <| kOp st (fun s => do let (s, r) ← MaxQ.push s e.1 e.2; pure (s, showOptP r))
                   (fun s => do let (s, r) ← DQ.push s e.1 e.2; pure (s, showOptP r))
  | "push_increase" =>
    let e ← entry
    pure <| kOp st (fun s => do let (s, r) ← MaxQ.pushIncrease s e.1 e.2; pure (s, showOptP r))
                   (fun s => do let (s, r) ← DQ.pushIncrease s e.1 e.2; pure (s, showOptP r))
  | "push_decrease" =>
    let e ← entry
    pure <| kOp st (fun s => do let (s, r) ← MaxQ.pushDecrease s e.1 e.2; pure (s, showOptP r))
                   (fun s => do let (s, r) ← DQ.pushDecrease s e.1 e.2; pure (s, showOptP r))
  | "change_priority" =>
    let k ← nat; let p ← int
    pure <| kOp st (fun s => do let (s, r) ← MaxQ.changePriority s k p; pure (s, showOptP r))
                   (fun s => do let (s, r) ← DQ.changePriority s k p; pure (s, showOptP r))
  | "change_priority_by" =>
    let k ← nat; let p ← int
    pure <| kOp st (fun s => do let (s, r) ← MaxQ.changePriorityBy s k (fun _ => p); pure (s, toString r))
                   (fun s => do let (s, r) ← DQ.changePriorityBy s k (fun _ => p); pure (s, toString r))
  | "get_priority" =>
    let k ← nat
    pure <| .ok (st, showOptP (s.getPriority k))
  | "get" =>
    let k ← nat
    pure <| .ok (st, showOptE (s.get k))
  | "get_mut" =>
    let k ← nat; let pl ← nat
    let (s', r) := s.getMutWrite k (fun it => { it with payload := pl })
    pure <| .ok ({ st with s := s' }, showOptE r)
  | "remove" =>
    let k ← nat
    pure <| kOp st (fun s => do let (s, r) ← MaxQ.remove s k; pure (s, showOptE r))
                   (fun s => do let (s, r) ← DQ.remove s k; pure (s, showOptE r))
  | "peek" => pure <| .ok (st, showOptE (MaxQ.peek s))
  | "peek_min" => pure <| do let r ← DQ.peekMin s; pure (st, showOptE r)
  | "peek_max" => pure <| do let (s, r) ← DQ.peekMax s; pure ({ st with s := s }, showOptE r)
  | "peek_mut" =>
    let pl ← nat
    pure <| do let (s, r) ← MaxQ.peekMutWrite s (fun it => { it with payload := pl }); pure ({ st with s := s }, showOptE r)
  | "peek_min_mut" =>
    let pl ← nat
    pure <| do let (s, r) ← DQ.peekMinMutWrite s (fun it => { it with payload := pl }); pure ({ st with s := s }, showOptE r)
  | "peek_max_mut" =>
    let pl ← nat
    pure <| do let (s, r) ← DQ.peekMaxMutWrite s (fun it => { it with payload := pl }); pure ({ st with s := s }, showOptE r)
  | "pop" => pure <| do let (s, r) ← MaxQ.pop s; pure ({ st with s := s }, showOptE r)
  | "pop_min" => pure <| do let (s, r) ← DQ.popMin s; pure ({ st with s := s }, showOptE r)
  | "pop_max" => pure <| do let (s, r) ← DQ.popMax s; pure ({ st with s := s }, showOptE r)
  | "pop_if" | "pop_min_if" | "pop_max_if" =>
    let w ← writeP; let ret ← flag
    let f : Item → Pr → Bool × Item × Pr := fun it p =>
      (ret, (match w.payload with | some pl => { it with payload := pl } | none => it),
        (match w.prio with | some q => q | none => p))
    pure <| do
      -- the element the predicate is shown: computed independently of the pop itself
      let (seen, s1) ← match op with
        | "pop_if" => pure (MaxQ.peek s, s)
        | "pop_min_if" => do let r ← DQ.peekMin s; pure (r, s)
        | _ => do let (s1, r) ← DQ.peekMax s; pure (r, s1)
      -- `peek_max` inside the judge costs one comparison that the real `pop_max_if` also performs once;
      -- run the operation itself from the original store
      let _ := s1
      let (s', r) ← match op with
        | "pop_if" => MaxQ.popIf s f
        | "pop_min_if" => DQ.popMinIf s f
        | _ => DQ.popMaxIf s f
      pure ({ st with s := s' }, s!"seen {showOptE seen} ret {showOptE r}")
  | "retain_mut" | "retain" =>
    let n ← nat; let rows ← rep n predRow
    -- `retain` hands out shared references: the rows' writes are ignored
    let rows := if op == "retain" then rows.map (fun r => { r with prio := none, payload := none }) else rows
    let f := predOf rows
    let log := s.map.foldl (fun acc e => acc ++ s!" {e.1.key}") s!"{s.map.size}"
    pure <| kOp st (fun s => do let s ← MaxQ.retainMut s f; pure (s, log))
                   (fun s => do let s ← DQ.retainMut s f; pure (s, log))
  | "iter_mut" =>
    let mode ← tok
    let n ← nat
    let prog ← rep n (do let c ← xcall; let w ← writeP; pure (c, w))
    pure <| do
      if mode == "late" then
        let (s, out) ← runIterMutLate st.kind prog s
        pure ({ st with s := s }, out)
      else
        let (s, out, gone) ← runIterMut st.kind prog s
        -- `last()` / `count()` consume the guard, whose Drop rebuilds, whatever the mode says
        let s ← if mode == "drop" || gone then (match st.kind with | .pq => MaxQ.heapBuild s | .dpq => DQ.heapBuild s) else pure s
        pure ({ st with s := s }, out)
  | "extend" =>
    let lo ← nat; let _hi ← optNat; let xs ← entries
    pure <| kOp st (fun s => do let s ← MaxQ.extend s lo xs; pure (s, "unit"))
                   (fun s => do let s ← DQ.extend s lo xs; pure (s, "unit"))
  | "from_iter" =>
    let _lo ← nat; let _hi ← optNat; let xs ← entries
    pure <| kOp st (fun _ => do let s ← MaxQ.fromIter xs; pure (s, "unit"))
                   (fun _ => do let s ← DQ.fromIter xs; pure (s, "unit"))
  | "from_vec" =>
    let xs ← entries
    pure <| kOp st (fun _ => do let s ← MaxQ.fromVec xs; pure (s, "unit"))
                   (fun _ => do let s ← DQ.fromVec xs; pure (s, "unit"))
  | "append" =>
    let _cap ← nat    -- the other queue's initial capacity: not part of the modelled state
    let xs ← entries
    pure <| do
      let o ← buildOther st.kind xs
      -- comparisons spent building `other` are outside the measured window: only those of `heap_build` count
      let t0 := s.ticks
      let (s', o') ← match st.kind with
        | .pq => MaxQ.append { s with ticks := 0 } { o with ticks := 0 }
        | .dpq => DQ.append { s with ticks := 0 } { o with ticks := 0 }
      pure ({ st with s := { s' with ticks := s'.ticks + t0 } },
        s!"olen {o'.size} omap {o'.map.size} oh {o'.heap.size} oq {o'.qp.size}")
  | "convert" =>
    pure <| do
      match st.kind with
      | .pq => let s ← DQ.ofStore s; pure ({ kind := .dpq, s := s }, "unit")
      | .dpq => let s ← MaxQ.ofStore s; pure ({ kind := .pq, s := s }, "unit")
  | "serde_rt" =>
    let k ← kindP
    pure <| do
      let t0 := s.ticks
      let s' ← match k with
        | .pq => MaxQ.deserialize (P := Pr) s.map
        | .dpq => DQ.deserialize (P := Pr) s.map
      pure ({ kind := k, s := { s' with ticks := s'.ticks + t0 } }, "ok")
  | "deser" =>
    let xs ← entries
    pure <| do
      let t0 := s.ticks
      let s' ← match st.kind with
        | .pq => MaxQ.deserialize xs
        | .dpq => DQ.deserialize xs
      pure ({ st with s := { s' with ticks := s'.ticks + t0 } }, "ok")
  | "clear" => pure <| .ok ({ st with s := s.clear }, "unit")
  | "drain" =>
    let _mode ← tok
    let n ← nat; let calls ← rep n xcall
    let (es, s') := s.drain
    pure <| .ok ({ st with s := s' }, runCursor es calls)
  | "iter" | "into_iter" =>
    let n ← nat; let calls ← rep n xcall
    pure <| .ok (st, runCursor s.map calls)
  | "into_vec" => pure <| .ok (st, showKeys s.map.toList)
  | "into_sorted_vec" =>
    pure <| do
      let l ← MaxQ.intoSortedVec s
      -- ticks spent on the consumed copy
      pure ({ st with s := s }, showKeys l)
  | "into_asc_vec" => pure <| do let l ← DQ.intoAscendingSortedVec s; pure (st, showKeys l)
  | "into_desc_vec" => pure <| do let l ← DQ.intoDescendingSortedVec s; pure (st, showKeys l)
  | "into_sorted_iter" =>
    let n ← nat; let calls ← rep n xcall
    pure <| do
      let (out, _) ← runSorted st.kind calls s
      pure (st, out)
  | "len" => pure <| .ok (st, toString s.size)
  | "is_empty" => pure <| .ok (st, toString s.isEmpty)
  | "reserve" | "reserve_exact" =>
    let n ← nat
    pure <| if capBad n then .error .capacity else .ok (st, "capok")
  | "try_reserve" | "try_reserve_exact" =>
    let n ← nat
    pure <| .ok (st, if capBad n then "err" else "capok")
  | "try_reserve_oom" =>
    let _exact ← nat; let _n ← nat
    pure <| .ok (st, "capok")     -- or "err": see Main.lean
  | "shrink_to_fit" => pure <| .ok (st, "capok")
  | "capacity" => pure <| .ok (st, "capok")
  | "eq" =>
    let xs ← entries
    pure <| do
      let o ← buildOther st.kind xs
      -- the priority type's `==` looks at the rank only: compare the rank-normalised maps
      let nm (x : Store Pr) : Store Pr := { x with map := x.map.map (fun e => (e.1, e.2.norm)) }
      pure ({ st with s := s.tick o.ticks }, toString (Store.eqv (nm s) (nm o)))
  | "fresh" =>
    let _ctor ← nat; let _cap ← nat
    -- every public constructor gives the empty queue of the model (`Q.new`); capacity is not part of the modelled state
    pure <| .ok ({ st with s := Store.empty }, "capok")
  | "dbg" =>
    -- `Debug` lists, in heap order, the slot index and the entry stored there (an `unwrap` on `get_index`)
    pure <| do
      let l ← s.debugEntries
      pure (st, l.foldl (fun acc x => acc ++ s!" {x.1} {showE (x.2.1, x.2.2)}") (toString l.length))
  | "deser_unit" =>
    pure <| do
      let s' ← match st.kind with
        | .pq => MaxQ.deserialize (P := Pr) #[]
        | .dpq => DQ.deserialize (P := Pr) #[]
      pure ({ st with s := { s' with ticks := s'.ticks + s.ticks } }, "ok")
  | "deser_hint" =>
    -- the announced length is not part of the modelled state (the pre-allocation is capped: fix F8)
    let _hint ← nat; let xs ← entries
    pure <| do
      let t0 := s.ticks
      let s' ← match st.kind with
        | .pq => MaxQ.deserialize xs
        | .dpq => DQ.deserialize xs
      pure ({ st with s := { s' with ticks := s'.ticks + t0 } }, "ok")
  | "deser_bad" =>
    let _v ← nat; let _xs ← entries
    -- an ill-formed / ill-typed input is an error; the queue it was to replace is untouched
    pure <| .ok (st, "err")
  | "ser_fail" =>
    let _k ← nat
    pure <| .ok (st, "err")
  | "clone_swap" => pure <| .ok (st, "unit")
  | "clone_from" =>
    -- `dst.clone_from(&q)`; the queue under test becomes `dst`, which must now be indistinguishable from `q`
    let _keep ← nat; let _xs ← entries
    pure <| .ok (st, "unit")
  | "clone_check" => pure <| .ok (st, "true")
  | "load" =>
    let k ← kindP
    let s' ← snapP
    pure <| .ok ({ kind := k, s := s' }, "ok")
  | _ => throw s!"unknown op {op}"

/-- white-box state without peeks and counter (what the harness can read after an injected fault) -/
def showCore (s : Store Pr) : String :=
  let m := s.map.foldl (fun acc e => acc ++ " " ++ showE e) s!"m {s.map.size}"
  s!"{m} h {showNats s.heap} q {showNats s.qp} s {s.size}"

def kindName : Kind → String
  | .pq => "pq"
  | .dpq => "dpq"

/-- C10 mirror: run `op` on the crash model with the `k`-th comparison of the operation panicking; returns the model's
post-unwinding state (`none` = the fuse did not fire). -/
def execCrash (st : St) (k : Nat) (op : String) : Pm (Except String (Option (Kind × Store Pr))) := do
  -- the ghost counter is zeroed so that `fuse = k` is the k-th comparison of this operation whichever store ends
  -- up as the receiver (`append` may swap)
  let s : Store Pr := { st.s with ticks := 0 }
  let pq := st.kind == .pq
  let fin {α : Type} (r : Crash.CR Pr α) : Except String (Option (Kind × Store Pr)) :=
    match r with
    | .ok _ => .ok none
    | .error (.crashed s') => .ok (some (st.kind, s'))
    | .error .crashedNew => .ok (some (st.kind, st.s))
    | .error (.fault f) => .error s!"model fault {showFaultSite f} inside a fused operation"
  match op with
  | "push" =>
    let e ← entry
    pure <| if pq then fin (Crash.MaxQ.pushF k s e.1 e.2) else fin (Crash.DQ.pushF k s e.1 e.2)
  | "push_increase" =>
    let e ← entry
    pure <| if pq then fin (Crash.MaxQ.pushIncreaseF k s e.1 e.2) else fin (Crash.DQ.pushIncreaseF k s e.1 e.2)
  | "push_decrease" =>
    let e ← entry
    pure <| if pq then fin (Crash.MaxQ.pushDecreaseF k s e.1 e.2) else fin (Crash.DQ.pushDecreaseF k s e.1 e.2)
  | "change_priority" =>
    let key ← nat; let p ← int
    pure <| if pq then fin (Crash.MaxQ.changePriorityF k s key p) else fin (Crash.DQ.changePriorityF k s key p)
  | "change_priority_by" =>
    let key ← nat; let p ← int
    pure <| if pq then fin (Crash.MaxQ.changePriorityByF k s key (fun _ => p)) else fin (Crash.DQ.changePriorityByF k s key (fun _ => p))
  | "remove" =>
    let key ← nat
    pure <| if pq then fin (Crash.MaxQ.removeF k s key) else fin (Crash.DQ.removeF k s key)
  | "pop" => pure <| fin (Crash.MaxQ.popF k s)
  | "pop_min" => pure <| fin (Crash.DQ.popMinF k s)
  | "pop_max" => pure <| fin (Crash.DQ.popMaxF k s)
  | "peek_max" => pure <| fin (Crash.DQ.peekMaxF k s)
  | "pop_if" | "pop_min_if" | "pop_max_if" =>
    let w ← writeP; let ret ← flag
    let f : Item → Pr → Bool × Item × Pr := fun it p =>
      (ret, (match w.payload with | some pl => { it with payload := pl } | none => it),
        (match w.prio with | some q => q | none => p))
    pure <| match op with
      | "pop_if" => fin (Crash.MaxQ.popIfF k s f)
      | "pop_min_if" => fin (Crash.DQ.popMinIfF k s f)
      | _ => fin (Crash.DQ.popMaxIfF k s f)
  | "retain_mut" =>
    let n ← nat; let rows ← rep n predRow
    let f := predOf rows
    pure <| if pq then fin (Crash.MaxQ.retainMutF k s f) else fin (Crash.DQ.retainMutF k s f)
  | "iter_mut" =>
    let _mode ← tok
    let n ← nat
    let prog ← rep n (do let c ← xcall; let w ← writeP; pure (c, w))
    let prims := prog.toList.filterMap fun (c, w) => match c with | .prim c => some (c, w) | _ => none
    if prims.length != prog.size then throw "crash mirror: iter_mut programs with nth are not supported"
    pure <| if pq then fin (Crash.MaxQ.iterMutDropF k s prims) else fin (Crash.DQ.iterMutDropF k s prims)
  | "extend" =>
    let lo ← nat; let _hi ← optNat; let xs ← entries
    pure <| if pq then fin (Crash.MaxQ.extendF k s lo xs) else fin (Crash.DQ.extendF k s lo xs)
  | "from_vec" =>
    let xs ← entries
    pure <| if pq then fin (Crash.MaxQ.fromVecF (P := Pr) k xs) else fin (Crash.DQ.fromVecF (P := Pr) k xs)
  | "from_iter" =>
    let _lo ← nat; let _hi ← optNat; let xs ← entries
    pure <| if pq then fin (Crash.MaxQ.fromIterF (P := Pr) k xs) else fin (Crash.DQ.fromIterF (P := Pr) k xs)
  | "append" =>
    let _cap ← nat
    let xs ← entries
    pure <| match buildOther st.kind xs with
      | .error f => .error s!"model fault {showFaultSite f} while building the other queue"
      | .ok o =>
        let o0 : Store Pr := { o with ticks := 0 }
        if pq then fin (Crash.MaxQ.appendF k s o0) else fin (Crash.DQ.appendF k s o0)
  | _ => throw s!"crash mirror: unsupported operation {op}"

/-- C10 mirror, callback fuses: run `op` on the callback crash model (`Model/CrashCb.lean`) with the `k`-th user callback
(setter / predicate / source-iterator `next`) of the operation panicking on entry; `none` = the operation performs fewer
callbacks. -/
def execCrashCb (st : St) (k : Nat) (op : String) : Pm (Except String (Option (Kind × Store Pr))) := do
  let q : Q Pr := { kind := st.kind, s := st.s }
  let fin (r : Crash.CRQ Pr (Q Pr × Out Pr)) : Except String (Option (Kind × Store Pr)) :=
    match r with
    | .ok _ => .ok none
    | .error (.crashed q') => .ok (some (q'.kind, q'.s))
    | .error .crashedNew => .ok (some (st.kind, st.s))
    | .error (.fault f) => .error s!"model fault {showFaultSite f} inside an operation with a panicking callback"
  match op with
  | "change_priority_by" =>
    let key ← nat; let p ← int
    pure <| fin (Crash.stepCb k q (.changePriorityBy key (fun _ => p)))
  | "pop_if" | "pop_min_if" | "pop_max_if" =>
    let w ← writeP; let ret ← flag
    let f : Item → Pr → Bool × Item × Pr := fun it p =>
      (ret, (match w.payload with | some pl => { it with payload := pl } | none => it),
        (match w.prio with | some q => q | none => p))
    pure <| fin (Crash.stepCb k q (if op == "pop_max_if" then .popBackIf f else .popFrontIf f))
  | "extend" =>
    let lo ← nat; let _hi ← optNat; let xs ← entries
    pure <| fin (Crash.stepCb k q (.extend lo xs))
  | "from_iter" =>
    let _lo ← nat; let _hi ← optNat; let xs ← entries
    pure <| fin (Crash.stepCb k q (.fromIter xs))
  | _ => throw s!"callback crash mirror: unsupported operation {op}"

/-- ops whose comparisons are performed on a consumed copy: the harness counts them, the model's state does not change -/
def copyOpTicks (st : St) (op : String) (args : List String) : Nat :=
  let s := st.s
  match op with
  | "into_sorted_vec" =>
    match (do let mut s := s; let t0 := s.ticks
              for _ in [0:s.size + 1] do
                let (s', _) ← MaxQ.pop s
                s := s'
              pure (s.ticks - t0) : R Nat) with
    | .ok n => n | .error _ => 0
  | "into_asc_vec" =>
    match (do let mut s := s; let t0 := s.ticks
              for _ in [0:s.size + 1] do
                let (s', _) ← DQ.popMin s
                s := s'
              pure (s.ticks - t0) : R Nat) with
    | .ok n => n | .error _ => 0
  | "into_desc_vec" =>
    match (do let mut s := s; let t0 := s.ticks
              for _ in [0:s.size + 1] do
                let (s', _) ← DQ.popMax s
                s := s'
              pure (s.ticks - t0) : R Nat) with
    | .ok n => n | .error _ => 0
  | "into_sorted_iter" =>
    match ((rep (args.length - 1) xcall).run (args.drop 1)) with
    | .ok (calls, _) =>
      (match runSorted st.kind calls s with
       | .ok (_, n) => n | .error _ => 0)
    | .error _ => 0
  | "eq" | "append" => 0
  | _ => 0

/-- execute one trace line; returns the new state and the model's canonical output string -/
def runLine (st : St) (lhs : List String) : Except String (St × String) :=
  match lhs with
  | [] => .error "empty line"
  | "ref" :: rest => runLine st rest    -- `(&q).into_iter()` / `(&mut q).into_iter()`: the same iterators
  | op :: args =>
    if (op.startsWith "!cmp" || op.startsWith "!cb") && (match args with | inner :: _ => !inner.startsWith "!" | [] => false) then
      let isCb := op.startsWith "!cb"
      match (op.drop (if isCb then 3 else 4)).toString.toNat?, args with
      | some k, inner :: rest =>
        match ((if isCb then execCrashCb st k inner else execCrash st k inner)).run rest with
        | .error e => .error e
        | .ok (r, left) =>
          if !left.isEmpty then .error s!"trailing tokens after {inner}: {left}"
          else match r with
            | .error e => .error e
            | .ok none => runLine st (inner :: rest)   -- the fuse does not fire: the operation runs to completion
            -- the queue survives the caught panic: later lines of the case operate on the model's post-unwinding state
            | .ok (some (k', s')) => .ok ({ st with kind := k', s := s' }, s!"fault user | {kindName k'} {showCore s'}")
      | _, _ => .error s!"bad crash line {op}"
    else
      match (exec st op).run args with
      | .error e => .error e
      | .ok (res, rest) =>
        if !rest.isEmpty then .error s!"trailing tokens after {op}: {rest}"
        else
          match res with
          | .error f => .ok (st, showFault f ++ " | -" ++ " @" ++ showFaultSite f)
          | .ok (st', out) =>
            let dt := (st'.s.ticks - st.s.ticks) + copyOpTicks st op args
            -- `load`, `from_*`, `deser` replace the store: their tick delta is the new store's own count
            let dt := match op with
              | "load" => 0
              | "from_iter" | "from_vec" => st'.s.ticks
              | _ => dt
            .ok (st', out ++ " | " ++ showSnap st'.kind st'.s dt)

end PQ.Driver
