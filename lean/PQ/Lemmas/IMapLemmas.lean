import PQ.Lemmas.Defs
/-!
# Library about the insertion-ordered map model `IMap P = Array (Item × P)`

Everything is stated with `getElem?` (`m[i]? = some e`).  Sections:
`find?`, `getFull`/`contains`/`lookup`, `NoDupKeys`, then one section per mutator
(`setPrio`, `setItem`, `setIfInBounds`, `push`, `insertFull`, `swapRemoveIndex`, `swapRemoveFull`, `retain`).
-/
namespace PQ.IMap
variable {P : Type}

/-! ## `find?` -/

/-- `find?` returns the first slot holding the key. -/
theorem find?_eq_some_iff {m : IMap P} {k i : Nat} :
    find? m k = some i ↔
      (∃ e : Item × P, m[i]? = some e ∧ e.1.key = k) ∧
        ∀ (j : Nat), j < i → ∀ e : Item × P, m[j]? = some e → e.1.key ≠ k := by
  unfold find?
  rw [Array.findIdx?_eq_some_iff_getElem]
  constructor
  · rintro ⟨h, hp, hlt⟩
    refine ⟨⟨m[i], by simp [h], by simpa using hp⟩, ?_⟩
    intro j hj e he
    obtain ⟨hjs, rfl⟩ := Array.getElem?_eq_some_iff.1 he
    simpa using hlt j hj
  · rintro ⟨⟨e, he, hk⟩, hlt⟩
    obtain ⟨h, rfl⟩ := Array.getElem?_eq_some_iff.1 he
    refine ⟨h, by simpa using hk, ?_⟩
    intro j hj
    have hjs : j < m.size := by omega
    simpa using hlt j hj m[j] (by simp [hjs])

theorem find?_eq_none_iff {m : IMap P} {k : Nat} :
    find? m k = none ↔ ∀ (i : Nat) (e : Item × P), m[i]? = some e → e.1.key ≠ k := by
  unfold find?
  rw [Array.findIdx?_eq_none_iff]
  constructor
  · intro h i e he
    have := h e (Array.mem_iff_getElem?.2 ⟨i, he⟩)
    simpa using this
  · intro h e he
    obtain ⟨i, hi⟩ := Array.mem_iff_getElem?.1 he
    simpa using h i e hi

theorem find?_lt_size {m : IMap P} {k i : Nat} (h : find? m k = some i) : i < m.size := by
  obtain ⟨⟨e, he, _⟩, _⟩ := find?_eq_some_iff.1 h
  exact (Array.getElem?_eq_some_iff.1 he).1

/-- the entry in the slot returned by `find?` -/
theorem find?_getElem? {m : IMap P} {k i : Nat} (h : find? m k = some i) :
    ∃ e : Item × P, m[i]? = some e ∧ e.1.key = k := (find?_eq_some_iff.1 h).1

theorem find?_isSome_iff {m : IMap P} {k : Nat} :
    (find? m k).isSome = true ↔ ∃ (i : Nat) (e : Item × P), m[i]? = some e ∧ e.1.key = k := by
  constructor
  · intro h
    obtain ⟨i, hi⟩ := Option.isSome_iff_exists.1 h
    exact ⟨i, find?_getElem? hi⟩
  · rintro ⟨i, e, he, hk⟩
    cases hf : find? m k with
    | some j => rfl
    | none => exact absurd hk (find?_eq_none_iff.1 hf i e he)

/-- list form of `find?` (useful for evaluation: `Array.findIdx?` is defined by well-founded recursion and
does not reduce under plain `decide`; use this rewrite or `decide +kernel`) -/
theorem find?_eq_toList (m : IMap P) (k : Nat) :
    find? m k = m.toList.findIdx? (fun e => e.1.key == k) := by
  unfold find?
  cases m with
  | mk l => exact List.findIdx?_toArray _ l

/-- under `NoDupKeys` the slot of a key is *the* slot with that key -/
theorem find?_eq_some_iff_of_noDup {m : IMap P} (hm : NoDupKeys m) {k i : Nat} :
    find? m k = some i ↔ ∃ e : Item × P, m[i]? = some e ∧ e.1.key = k := by
  rw [find?_eq_some_iff]
  constructor
  · exact fun h => h.1
  · rintro ⟨e, he, hk⟩
    refine ⟨⟨e, he, hk⟩, ?_⟩
    intro j hj e' he' hk'
    have := hm i j e e' he he' (hk.trans hk'.symm)
    omega

/-- `find?` only looks at the sequence of keys. -/
theorem find?_congr_keys {m m' : IMap P}
    (h : ∀ j : Nat, (m'[j]?).map (fun e : Item × P => e.1.key) = (m[j]?).map (fun e : Item × P => e.1.key)) (k : Nat) :
    find? m' k = find? m k := by
  have key : ∀ (a b : IMap P), (∀ j : Nat, (a[j]?).map (fun e : Item × P => e.1.key) = (b[j]?).map (fun e : Item × P => e.1.key)) →
      ∀ i, find? a k = some i → find? b k = some i := by
    intro a b hab i hi
    obtain ⟨⟨e, he, hk⟩, hlt⟩ := find?_eq_some_iff.1 hi
    rw [find?_eq_some_iff]
    constructor
    · have := hab i
      rw [he] at this
      cases hb : b[i]? with
      | none => simp [hb] at this
      | some e' =>
        rw [hb] at this
        refine ⟨e', rfl, ?_⟩
        simp at this
        omega
    · intro j hj e' he'
      have := hab j
      rw [he'] at this
      cases ha : a[j]? with
      | none => simp [ha] at this
      | some e'' =>
        rw [ha] at this
        simp at this
        have := hlt j hj e'' ha
        omega
  cases h1 : find? m k with
  | some i => exact key m m' (fun j => (h j).symm) i h1
  | none =>
    cases h2 : find? m' k with
    | none => rfl
    | some i => rw [key m' m h i h2] at h1; cases h1

/-! ## `NoDupKeys` -/

theorem NoDupKeys.empty : NoDupKeys (#[] : IMap P) := by
  intro i j a b ha; simp at ha

/-- list form: the keys are pairwise distinct -/
theorem noDupKeys_iff_pairwise {m : IMap P} :
    NoDupKeys m ↔ m.toList.Pairwise (fun a b => a.1.key ≠ b.1.key) := by
  rw [List.pairwise_iff_getElem]
  constructor
  · intro h i j hi hj hij heq
    have := h i j m.toList[i] m.toList[j] (by rw [← Array.getElem?_toList]; exact List.getElem?_eq_getElem hi)
      (by rw [← Array.getElem?_toList]; exact List.getElem?_eq_getElem hj) heq
    omega
  · intro h i j a b ha hb hab
    rw [← Array.getElem?_toList] at ha hb
    obtain ⟨hi, rfl⟩ := List.getElem?_eq_some_iff.1 ha
    obtain ⟨hj, rfl⟩ := List.getElem?_eq_some_iff.1 hb
    rcases Nat.lt_trichotomy i j with hij | hij | hij
    · exact absurd hab (h i j hi hj hij)
    · exact hij
    · exact absurd hab.symm (h j i hj hi hij)

/-- list form: the list of keys has no duplicates -/
theorem noDupKeys_iff_nodup {m : IMap P} :
    NoDupKeys m ↔ (m.toList.map (·.1.key)).Nodup := by
  rw [noDupKeys_iff_pairwise, List.Nodup, List.pairwise_map]

/-- a map with the same size and the same keys slot by slot has the same `NoDupKeys` status -/
theorem NoDupKeys.congr_keys {m m' : IMap P} (hm : NoDupKeys m)
    (h : ∀ j : Nat, (m'[j]?).map (fun e : Item × P => e.1.key) = (m[j]?).map (fun e : Item × P => e.1.key)) : NoDupKeys m' := by
  intro i j a b ha hb hab
  have hi := h i
  have hj := h j
  rw [ha] at hi
  rw [hb] at hj
  cases hai : m[i]? with
  | none => simp [hai] at hi
  | some a' =>
    cases hbj : m[j]? with
    | none => simp [hbj] at hj
    | some b' =>
      rw [hai] at hi; rw [hbj] at hj
      simp at hi hj
      exact hm i j a' b' hai hbj (by omega)

/-! ## `getFull`, `contains`, `lookup` -/

theorem getFull_eq (m : IMap P) (k : Nat) :
    getFull m k = (find? m k).bind fun i => (m[i]?).map fun e => (i, e.1, e.2) := by
  unfold getFull
  cases find? m k with
  | none => rfl
  | some i =>
    simp only [Option.bind_some]
    split <;> simp [*]

theorem getFull_eq_some_iff {m : IMap P} {k i : Nat} {it : Item} {p : P} :
    getFull m k = some (i, it, p) ↔ find? m k = some i ∧ m[i]? = some (it, p) := by
  rw [getFull_eq]
  cases hf : find? m k with
  | none => simp
  | some j =>
    cases hj : m[j]? with
    | none =>
      simp only [Option.bind_some, hj, Option.map_none, reduceCtorEq, Option.some.injEq, false_iff, not_and]
      rintro rfl; simp [hj]
    | some e =>
      simp only [Option.bind_some, hj, Option.map_some, Option.some.injEq, Prod.mk.injEq]
      constructor
      · rintro ⟨rfl, rfl, rfl⟩; simp [hj]
      · rintro ⟨rfl, h⟩; rw [hj] at h; cases h; simp

theorem getFull_eq_none_iff {m : IMap P} {k : Nat} : getFull m k = none ↔ find? m k = none := by
  rw [getFull_eq]
  cases hf : find? m k with
  | none => simp
  | some j =>
    obtain ⟨e, he, _⟩ := find?_getElem? hf
    simp [he]

theorem contains_eq (m : IMap P) (k : Nat) : contains m k = (find? m k).isSome := rfl

theorem contains_eq_true_iff {m : IMap P} {k : Nat} :
    contains m k = true ↔ ∃ (i : Nat) (e : Item × P), m[i]? = some e ∧ e.1.key = k := find?_isSome_iff

theorem contains_eq_false_iff {m : IMap P} {k : Nat} :
    contains m k = false ↔ ∀ (i : Nat) (e : Item × P), m[i]? = some e → e.1.key ≠ k := by
  rw [contains_eq, ← find?_eq_none_iff]; cases find? m k <;> simp

/-- `lookup` is the entry in the slot that `find?` returns -/
theorem lookup_eq_find? (m : IMap P) (k : Nat) :
    lookup m k = (find? m k).bind fun i => m[i]? := by
  cases hf : find? m k with
  | none =>
    simp only [Option.bind_none]
    unfold lookup
    rw [List.find?_eq_none]
    intro x hx
    obtain ⟨i, hi⟩ := Array.mem_iff_getElem?.1 (Array.mem_toList_iff.1 hx)
    simpa using find?_eq_none_iff.1 hf i x hi
  | some i =>
    obtain ⟨⟨e, he, hk⟩, hlt⟩ := find?_eq_some_iff.1 hf
    simp only [Option.bind_some, he]
    unfold lookup
    rw [List.find?_eq_some_iff_getElem]
    obtain ⟨hi, rfl⟩ := Array.getElem?_eq_some_iff.1 he
    refine ⟨by simpa using hk, i, by simpa using hi, by simp, ?_⟩
    intro j hj
    have hjs : j < m.size := by omega
    simpa using hlt j hj m[j] (by simp [hjs])

theorem lookup_eq_some_iff_find? {m : IMap P} {k : Nat} {e : Item × P} :
    lookup m k = some e ↔ ∃ i, find? m k = some i ∧ m[i]? = some e := by
  rw [lookup_eq_find?]; cases find? m k <;> simp

theorem lookup_eq_none_iff {m : IMap P} {k : Nat} :
    lookup m k = none ↔ ∀ (i : Nat) (e : Item × P), m[i]? = some e → e.1.key ≠ k := by
  rw [← find?_eq_none_iff, lookup_eq_find?]
  cases hf : find? m k with
  | none => simp
  | some j =>
    obtain ⟨e, he, _⟩ := find?_getElem? hf
    simp [he]

theorem lookup_eq_none_iff_find? {m : IMap P} {k : Nat} : lookup m k = none ↔ find? m k = none := by
  rw [lookup_eq_none_iff, find?_eq_none_iff]

/-- what `lookup` returns is stored and has the requested key (no `NoDupKeys` needed) -/
theorem lookup_some {m : IMap P} {k : Nat} {e : Item × P} (h : lookup m k = some e) :
    (∃ i : Nat, m[i]? = some e) ∧ e.1.key = k := by
  obtain ⟨i, hf, he⟩ := lookup_eq_some_iff_find?.1 h
  obtain ⟨e', he', hk⟩ := find?_getElem? hf
  rw [he] at he'; cases he'
  exact ⟨⟨i, he⟩, hk⟩

theorem lookup_key {m : IMap P} {k : Nat} {e : Item × P} (h : lookup m k = some e) : e.1.key = k :=
  (lookup_some h).2

theorem lookup_eq_some_iff {m : IMap P} (hm : NoDupKeys m) {k : Nat} {e : Item × P} :
    lookup m k = some e ↔ ∃ i : Nat, m[i]? = some e ∧ e.1.key = k := by
  rw [lookup_eq_some_iff_find?]
  constructor
  · rintro ⟨i, hf, he⟩
    obtain ⟨e', he', hk⟩ := find?_getElem? hf
    rw [he] at he'; cases he'
    exact ⟨i, he, hk⟩
  · rintro ⟨i, he, hk⟩
    exact ⟨i, (find?_eq_some_iff_of_noDup hm).2 ⟨e, he, hk⟩, he⟩

/-- a stored entry is what `lookup` finds for its key -/
theorem lookup_of_getElem? {m : IMap P} (hm : NoDupKeys m) {i : Nat} {e : Item × P}
    (he : m[i]? = some e) : lookup m e.1.key = some e :=
  (lookup_eq_some_iff hm).2 ⟨i, he, rfl⟩

theorem lookup_isSome_eq_contains (m : IMap P) (k : Nat) : (lookup m k).isSome = contains m k := by
  rw [contains_eq]
  cases hf : find? m k with
  | none => rw [lookup_eq_none_iff_find?.2 hf]; rfl
  | some i =>
    cases hl : lookup m k with
    | some e => rfl
    | none => rw [lookup_eq_none_iff_find?.1 hl] at hf; cases hf

theorem getFull_map_eq_lookup (m : IMap P) (k : Nat) :
    (getFull m k).map (fun r => (r.2.1, r.2.2)) = lookup m k := by
  rw [getFull_eq, lookup_eq_find?]
  cases find? m k with
  | none => rfl
  | some i =>
    simp only [Option.bind_some, Option.map_map]
    cases h : m[i]? <;> simp

theorem getFull_eq_some_iff_lookup {m : IMap P} {k i : Nat} {it : Item} {p : P} :
    getFull m k = some (i, it, p) ↔ find? m k = some i ∧ lookup m k = some (it, p) := by
  rw [getFull_eq_some_iff, lookup_eq_find?]
  constructor
  · rintro ⟨h1, h2⟩; simp [h1, h2]
  · rintro ⟨h1, h2⟩; rw [h1] at h2; exact ⟨h1, by simpa using h2⟩

/-- two maps with `NoDupKeys` have the same `lookup` when they hold the same set of entries -/
theorem lookup_congr_of_mem {m m' : IMap P} (hm : NoDupKeys m) (hm' : NoDupKeys m')
    (h : ∀ e : Item × P, (∃ i : Nat, m[i]? = some e) ↔ (∃ i : Nat, m'[i]? = some e)) (k : Nat) :
    lookup m k = lookup m' k := by
  apply Option.ext
  intro e
  rw [lookup_eq_some_iff hm, lookup_eq_some_iff hm']
  constructor
  · rintro ⟨i, he, hk⟩; obtain ⟨j, hj⟩ := (h e).1 ⟨i, he⟩; exact ⟨j, hj, hk⟩
  · rintro ⟨i, he, hk⟩; obtain ⟨j, hj⟩ := (h e).2 ⟨i, he⟩; exact ⟨j, hj, hk⟩

/-! ## `Array.setIfInBounds` replacing an entry by one with the same key -/

/-- replacing slot `i` by an entry with the same key leaves the key sequence unchanged -/
theorem keys_setIfInBounds {m : IMap P} {i : Nat} {e e' : Item × P} (he : m[i]? = some e)
    (hk : e'.1.key = e.1.key) (j : Nat) :
    ((m.setIfInBounds i e')[j]?).map (fun x : Item × P => x.1.key) = (m[j]?).map (fun x : Item × P => x.1.key) := by
  rw [Array.getElem?_setIfInBounds]
  have hi := (Array.getElem?_eq_some_iff.1 he).1
  by_cases hij : i = j
  · subst hij; rw [if_pos rfl, if_pos hi, he]; simp [hk]
  · rw [if_neg hij]

theorem find?_setIfInBounds {m : IMap P} {i : Nat} {e e' : Item × P} (he : m[i]? = some e)
    (hk : e'.1.key = e.1.key) (k : Nat) : find? (m.setIfInBounds i e') k = find? m k :=
  find?_congr_keys (keys_setIfInBounds he hk) k

theorem NoDupKeys.setIfInBounds {m : IMap P} (hm : NoDupKeys m) {i : Nat} {e e' : Item × P}
    (he : m[i]? = some e) (hk : e'.1.key = e.1.key) : NoDupKeys (m.setIfInBounds i e') :=
  hm.congr_keys (keys_setIfInBounds he hk)

/-- no `NoDupKeys` needed: the overwritten slot is seen by `lookup` iff it is the first slot of the key -/
theorem lookup_setIfInBounds' {m : IMap P} {i : Nat} {e e' : Item × P} (he : m[i]? = some e)
    (hk : e'.1.key = e.1.key) (k : Nat) :
    lookup (m.setIfInBounds i e') k = if find? m k = some i then some e' else lookup m k := by
  rw [lookup_eq_find?, find?_setIfInBounds he hk, lookup_eq_find?]
  have hi := (Array.getElem?_eq_some_iff.1 he).1
  cases hf : find? m k with
  | none => simp
  | some j =>
    simp only [Option.bind_some, Array.getElem?_setIfInBounds, Option.some.injEq]
    by_cases hij : i = j
    · subst hij; simp [hi]
    · have : ¬ j = i := fun h => hij h.symm
      simp [hij, this]

theorem lookup_setIfInBounds {m : IMap P} (hm : NoDupKeys m) {i : Nat} {e e' : Item × P}
    (he : m[i]? = some e) (hk : e'.1.key = e.1.key) (k : Nat) :
    lookup (m.setIfInBounds i e') k = if k = e.1.key then some e' else lookup m k := by
  rw [lookup_setIfInBounds' he hk]
  have : find? m k = some i ↔ k = e.1.key := by
    rw [find?_eq_some_iff_of_noDup hm]
    constructor
    · rintro ⟨x, hx, hxk⟩; rw [he] at hx; cases hx; exact hxk.symm
    · intro h; exact ⟨e, he, h.symm⟩
  simp only [this]

/-! ## `setPrio` -/

theorem setPrio_of_getElem? {m : IMap P} {i : Nat} {e : Item × P} (he : m[i]? = some e) (p : P) :
    setPrio m i p = m.setIfInBounds i (e.1, p) := by
  unfold setPrio; rw [he]

theorem setPrio_of_le {m : IMap P} {i : Nat} (h : m.size ≤ i) (p : P) : setPrio m i p = m := by
  unfold setPrio; rw [Array.getElem?_eq_none h]

@[simp] theorem size_setPrio (m : IMap P) (i : Nat) (p : P) : (setPrio m i p).size = m.size := by
  unfold setPrio; split <;> simp

theorem getElem?_setPrio (m : IMap P) (i j : Nat) (p : P) :
    (setPrio m i p)[j]? = if i = j then (m[j]?).map (fun e => (e.1, p)) else m[j]? := by
  cases h : m[i]? with
  | none =>
    rw [setPrio_of_le (Array.getElem?_eq_none_iff.1 h)]
    split
    · subst_vars; simp [h]
    · rfl
  | some e =>
    rw [setPrio_of_getElem? h, Array.getElem?_setIfInBounds]
    have hi := (Array.getElem?_eq_some_iff.1 h).1
    by_cases hij : i = j
    · subst hij; rw [if_pos rfl, if_pos hi, if_pos rfl, h]; rfl
    · rw [if_neg hij, if_neg hij]

@[simp] theorem getElem?_setPrio_self (m : IMap P) (i : Nat) (p : P) :
    (setPrio m i p)[i]? = (m[i]?).map (fun e => (e.1, p)) := by
  simp [getElem?_setPrio]

theorem getElem?_setPrio_ne (m : IMap P) {i j : Nat} (h : i ≠ j) (p : P) :
    (setPrio m i p)[j]? = m[j]? := by
  simp [getElem?_setPrio, h]

theorem keys_setPrio (m : IMap P) (i : Nat) (p : P) (j : Nat) :
    ((setPrio m i p)[j]?).map (fun x : Item × P => x.1.key) = (m[j]?).map (fun x : Item × P => x.1.key) := by
  rw [getElem?_setPrio]; split
  · cases m[j]? <;> rfl
  · rfl

@[simp] theorem find?_setPrio (m : IMap P) (i : Nat) (p : P) (k : Nat) :
    find? (setPrio m i p) k = find? m k := find?_congr_keys (keys_setPrio m i p) k

@[simp] theorem contains_setPrio (m : IMap P) (i : Nat) (p : P) (k : Nat) :
    contains (setPrio m i p) k = contains m k := by simp [contains_eq]

theorem NoDupKeys.setPrio {m : IMap P} (hm : NoDupKeys m) (i : Nat) (p : P) : NoDupKeys (setPrio m i p) :=
  hm.congr_keys (keys_setPrio m i p)

theorem lookup_setPrio {m : IMap P} (hm : NoDupKeys m) {i : Nat} {e : Item × P} (he : m[i]? = some e)
    (p : P) (k : Nat) :
    lookup (setPrio m i p) k = if k = e.1.key then some (e.1, p) else lookup m k := by
  rw [setPrio_of_getElem? he, lookup_setIfInBounds hm he (e' := (e.1, p)) rfl]

/-! ## `setItem` -/

theorem setItem_of_getElem? {m : IMap P} {i : Nat} {e : Item × P} (he : m[i]? = some e) (it : Item) :
    setItem m i it = m.setIfInBounds i (it, e.2) := by
  unfold setItem; rw [he]

theorem setItem_of_le {m : IMap P} {i : Nat} (h : m.size ≤ i) (it : Item) : setItem m i it = m := by
  unfold setItem; rw [Array.getElem?_eq_none h]

@[simp] theorem size_setItem (m : IMap P) (i : Nat) (it : Item) : (setItem m i it).size = m.size := by
  unfold setItem; split <;> simp

theorem getElem?_setItem (m : IMap P) (i j : Nat) (it : Item) :
    (setItem m i it)[j]? = if i = j then (m[j]?).map (fun e => (it, e.2)) else m[j]? := by
  cases h : m[i]? with
  | none =>
    rw [setItem_of_le (Array.getElem?_eq_none_iff.1 h)]
    split
    · subst_vars; simp [h]
    · rfl
  | some e =>
    rw [setItem_of_getElem? h, Array.getElem?_setIfInBounds]
    have hi := (Array.getElem?_eq_some_iff.1 h).1
    by_cases hij : i = j
    · subst hij; rw [if_pos rfl, if_pos hi, if_pos rfl, h]; rfl
    · rw [if_neg hij, if_neg hij]

@[simp] theorem getElem?_setItem_self (m : IMap P) (i : Nat) (it : Item) :
    (setItem m i it)[i]? = (m[i]?).map (fun e => (it, e.2)) := by
  simp [getElem?_setItem]

theorem getElem?_setItem_ne (m : IMap P) {i j : Nat} (h : i ≠ j) (it : Item) :
    (setItem m i it)[j]? = m[j]? := by
  simp [getElem?_setItem, h]

/-- `setItem` with an item of the same key as the stored one keeps the key sequence -/
theorem keys_setItem {m : IMap P} {i : Nat} {it : Item}
    (hk : ∀ e : Item × P, m[i]? = some e → it.key = e.1.key) (j : Nat) :
    ((setItem m i it)[j]?).map (fun x : Item × P => x.1.key) = (m[j]?).map (fun x : Item × P => x.1.key) := by
  rw [getElem?_setItem]
  by_cases hij : i = j
  · subst hij
    rw [if_pos rfl]
    cases h : m[i]? with
    | none => rfl
    | some e => simp [hk e h]
  · rw [if_neg hij]

theorem find?_setItem {m : IMap P} {i : Nat} {it : Item}
    (hk : ∀ e : Item × P, m[i]? = some e → it.key = e.1.key) (k : Nat) :
    find? (setItem m i it) k = find? m k := find?_congr_keys (keys_setItem hk) k

theorem NoDupKeys.setItem {m : IMap P} (hm : NoDupKeys m) {i : Nat} {it : Item}
    (hk : ∀ e : Item × P, m[i]? = some e → it.key = e.1.key) : NoDupKeys (setItem m i it) :=
  hm.congr_keys (keys_setItem hk)

theorem lookup_setItem {m : IMap P} (hm : NoDupKeys m) {i : Nat} {e : Item × P} (he : m[i]? = some e)
    {it : Item} (hk : it.key = e.1.key) (k : Nat) :
    lookup (setItem m i it) k = if k = e.1.key then some (it, e.2) else lookup m k := by
  rw [setItem_of_getElem? he, lookup_setIfInBounds hm he hk]

/-! ## `push` of a fresh key -/

theorem find?_push (m : IMap P) (e : Item × P) (k : Nat) :
    find? (m.push e) k = (find? m k).or (if e.1.key = k then some m.size else none) := by
  unfold find?
  rw [Array.findIdx?_push]
  simp

theorem NoDupKeys.push {m : IMap P} (hm : NoDupKeys m) {e : Item × P} (he : find? m e.1.key = none) :
    NoDupKeys (m.push e) := by
  have hnone := find?_eq_none_iff.1 he
  intro i j a b ha hb hab
  rw [Array.getElem?_push] at ha hb
  split at ha <;> split at hb
  · omega
  · cases ha; exact absurd hab.symm (hnone j b hb)
  · cases hb; exact absurd hab (hnone i a ha)
  · exact hm i j a b ha hb hab

/-- no freshness needed -/
theorem lookup_push' (m : IMap P) (e : Item × P) (k : Nat) :
    lookup (m.push e) k = (lookup m k).or (if e.1.key = k then some e else none) := by
  unfold lookup
  rw [Array.toList_push, List.find?_append]
  congr 1
  by_cases h : e.1.key = k <;> simp [h]

theorem lookup_push {m : IMap P} {e : Item × P} (he : find? m e.1.key = none) (k : Nat) :
    lookup (m.push e) k = if k = e.1.key then some e else lookup m k := by
  rw [lookup_push']
  by_cases h : k = e.1.key
  · subst h; simp [lookup_eq_none_iff_find?.2 he]
  · have : ¬ e.1.key = k := fun h' => h h'.symm
    simp [h, this]

/-! ## `insertFull` -/

theorem insertFull_of_find?_some {m : IMap P} {it : Item} {i : Nat} {e : Item × P}
    (hf : find? m it.key = some i) (he : m[i]? = some e) (p : P) :
    insertFull m it p = (m.setIfInBounds i (e.1, p), i, some e.2) := by
  unfold insertFull; rw [hf]; simp only; rw [he]

theorem insertFull_of_find?_none {m : IMap P} {it : Item} (hf : find? m it.key = none) (p : P) :
    insertFull m it p = (m.push (it, p), m.size, none) := by
  unfold insertFull; rw [hf]

/-- case analysis on `insertFull` (the "unreachable" branch of the definition is indeed unreachable) -/
theorem insertFull_cases (m : IMap P) (it : Item) (p : P) :
    (∃ i e, find? m it.key = some i ∧ m[i]? = some e ∧ e.1.key = it.key ∧
        insertFull m it p = (m.setIfInBounds i (e.1, p), i, some e.2)) ∨
    (find? m it.key = none ∧ insertFull m it p = (m.push (it, p), m.size, none)) := by
  cases hf : find? m it.key with
  | none => exact .inr ⟨rfl, insertFull_of_find?_none hf p⟩
  | some i =>
    obtain ⟨e, he, hk⟩ := find?_getElem? hf
    exact .inl ⟨i, e, rfl, he, hk, insertFull_of_find?_some hf he p⟩

/-- the returned old priority is the one previously stored for the key -/
theorem insertFull_old (m : IMap P) (it : Item) (p : P) :
    (insertFull m it p).2.2 = (lookup m it.key).map (·.2) := by
  rcases insertFull_cases m it p with ⟨i, e, hf, he, hk, h⟩ | ⟨hf, h⟩
  · rw [h, lookup_eq_find?, hf]; simp [he]
  · rw [h, lookup_eq_none_iff_find?.2 hf]; rfl

/-- the returned slot is the slot of the key afterwards -/
theorem insertFull_slot (m : IMap P) (it : Item) (p : P) :
    find? (insertFull m it p).1 it.key = some (insertFull m it p).2.1 := by
  rcases insertFull_cases m it p with ⟨i, e, hf, he, hk, h⟩ | ⟨hf, h⟩
  · rw [h]; simp only; rw [find?_setIfInBounds he (e' := (e.1, p)) rfl, hf]
  · rw [h]; simp only; rw [find?_push, hf]; simp

/-- the returned slot was the slot of the key before, or the fresh last slot -/
theorem insertFull_slot_eq (m : IMap P) (it : Item) (p : P) :
    (insertFull m it p).2.1 = (find? m it.key).getD m.size := by
  rcases insertFull_cases m it p with ⟨i, e, hf, he, hk, h⟩ | ⟨hf, h⟩
  · rw [h, hf]; rfl
  · rw [h, hf]; rfl

/-- the entry in the returned slot afterwards: the *stored* item (if the key was present) with the new priority -/
theorem insertFull_getElem?_slot (m : IMap P) (it : Item) (p : P) :
    (insertFull m it p).1[(insertFull m it p).2.1]? =
      some (((lookup m it.key).map (·.1)).getD it, p) := by
  rcases insertFull_cases m it p with ⟨i, e, hf, he, hk, h⟩ | ⟨hf, h⟩
  · have hi := (Array.getElem?_eq_some_iff.1 he).1
    rw [h, lookup_eq_find?, hf]
    simp only [Array.getElem?_setIfInBounds, if_pos hi, if_true, Option.bind_some, he, Option.map_some,
      Option.getD_some]
  · rw [h, lookup_eq_none_iff_find?.2 hf]; simp

/-- all other slots are untouched -/
theorem insertFull_getElem?_ne (m : IMap P) (it : Item) (p : P) {j : Nat}
    (hj : j ≠ (insertFull m it p).2.1) : (insertFull m it p).1[j]? = m[j]? := by
  rcases insertFull_cases m it p with ⟨i, e, hf, he, hk, h⟩ | ⟨hf, h⟩
  · rw [h] at hj ⊢; simp only at hj ⊢
    rw [Array.getElem?_setIfInBounds, if_neg (fun h' => hj h'.symm)]
  · rw [h] at hj ⊢; simp only at hj ⊢
    rw [Array.getElem?_push, if_neg hj]

theorem size_insertFull (m : IMap P) (it : Item) (p : P) :
    (insertFull m it p).1.size = if contains m it.key then m.size else m.size + 1 := by
  rcases insertFull_cases m it p with ⟨i, e, hf, he, hk, h⟩ | ⟨hf, h⟩
  · rw [h, contains_eq, hf]; simp
  · rw [h, contains_eq, hf]; simp

theorem size_insertFull_of_contains {m : IMap P} {it : Item} (h : contains m it.key = true) (p : P) :
    (insertFull m it p).1.size = m.size := by rw [size_insertFull, if_pos h]

theorem size_insertFull_of_not_contains {m : IMap P} {it : Item} (h : contains m it.key = false) (p : P) :
    (insertFull m it p).1.size = m.size + 1 := by rw [size_insertFull, h]; rfl

/-- the size grows by one iff the key was absent (it never shrinks, never grows by more) -/
theorem size_insertFull_eq_succ_iff (m : IMap P) (it : Item) (p : P) :
    (insertFull m it p).1.size = m.size + 1 ↔ contains m it.key = false := by
  rw [size_insertFull]; cases contains m it.key <;> simp

theorem NoDupKeys.insertFull {m : IMap P} (hm : NoDupKeys m) (it : Item) (p : P) :
    NoDupKeys (insertFull m it p).1 := by
  rcases insertFull_cases m it p with ⟨i, e, hf, he, hk, h⟩ | ⟨hf, h⟩
  · rw [h]; exact hm.setIfInBounds he (e' := (e.1, p)) rfl
  · rw [h]; exact hm.push hf

/-- `lookup` after `insertFull` (no `NoDupKeys` needed): the key maps to the stored item (or `it` when
absent) with the new priority; other keys are unchanged. -/
theorem lookup_insertFull (m : IMap P) (it : Item) (p : P) (k : Nat) :
    lookup (insertFull m it p).1 k =
      if k = it.key then some (((lookup m it.key).map (·.1)).getD it, p) else lookup m k := by
  rcases insertFull_cases m it p with ⟨i, e, hf, he, hk, h⟩ | ⟨hf, h⟩
  · rw [h]; simp only
    rw [lookup_setIfInBounds' he (e' := (e.1, p)) rfl]
    by_cases hkk : k = it.key
    · subst hkk
      rw [if_pos hf, if_pos rfl, lookup_eq_find?, hf]; simp [he]
    · rw [if_neg hkk, if_neg]
      intro hf'
      obtain ⟨e', he', hk'⟩ := find?_getElem? hf'
      rw [he] at he'; cases he'
      exact hkk (hk'.symm.trans hk)
  · rw [h]; simp only
    rw [lookup_push hf, lookup_eq_none_iff_find?.2 hf]; rfl

theorem contains_insertFull (m : IMap P) (it : Item) (p : P) (k : Nat) :
    contains (insertFull m it p).1 k = (k == it.key || contains m k) := by
  rw [← lookup_isSome_eq_contains, lookup_insertFull, ← lookup_isSome_eq_contains]
  by_cases h : k = it.key <;> simp [h]

/-! ## `swapRemoveIndex` -/

theorem swapRemoveIndex_of_lt {m : IMap P} {i : Nat} (h : i < m.size) :
    ∃ e l : Item × P, m[i]? = some e ∧ m[m.size - 1]? = some l ∧
      swapRemoveIndex m i = some (e, (m.setIfInBounds i l).pop) := by
  have h1 : m.size - 1 < m.size := by omega
  refine ⟨m[i], m[m.size - 1], Array.getElem?_eq_getElem h, Array.getElem?_eq_getElem h1, ?_⟩
  unfold swapRemoveIndex
  rw [Array.back?_eq_getElem?, Array.getElem?_eq_getElem h, Array.getElem?_eq_getElem h1]

theorem swapRemoveIndex_eq_none_iff {m : IMap P} {i : Nat} : swapRemoveIndex m i = none ↔ m.size ≤ i := by
  constructor
  · intro h
    apply Nat.le_of_not_lt
    intro hlt
    obtain ⟨e, l, _, _, h'⟩ := swapRemoveIndex_of_lt hlt
    rw [h] at h'; cases h'
  · intro h
    unfold swapRemoveIndex
    rw [Array.getElem?_eq_none h]

theorem swapRemoveIndex_isSome_iff {m : IMap P} {i : Nat} : (swapRemoveIndex m i).isSome = true ↔ i < m.size := by
  rw [← Nat.not_le, ← swapRemoveIndex_eq_none_iff]
  cases swapRemoveIndex m i <;> simp

/-- full description of a successful `swapRemoveIndex` -/
theorem swapRemoveIndex_eq_some {m m' : IMap P} {i : Nat} {e : Item × P}
    (h : swapRemoveIndex m i = some (e, m')) :
    i < m.size ∧ m[i]? = some e ∧ m'.size = m.size - 1 ∧
      ∀ j : Nat, m'[j]? = if j < m.size - 1 then (if j = i then m[m.size - 1]? else m[j]?) else none := by
  have hi : i < m.size := by
    apply Nat.lt_of_not_le
    intro hle
    rw [swapRemoveIndex_eq_none_iff.2 hle] at h; cases h
  obtain ⟨e', l, he', hl, h'⟩ := swapRemoveIndex_of_lt hi
  rw [h] at h'
  simp only [Option.some.injEq, Prod.mk.injEq] at h'
  obtain ⟨rfl, rfl⟩ := h'
  refine ⟨hi, he', by simp, ?_⟩
  intro j
  rw [Array.getElem?_pop, Array.size_setIfInBounds, Array.getElem?_setIfInBounds]
  by_cases hj : j < m.size - 1
  · rw [if_pos hj, if_pos hj]
    by_cases hji : j = i
    · subst hji; rw [if_pos rfl, if_pos rfl, if_pos hi, hl]
    · rw [if_neg hji, if_neg (fun h => hji h.symm)]
  · rw [if_neg hj, if_neg hj]

theorem swapRemoveIndex_lt {m m' : IMap P} {i : Nat} {e : Item × P}
    (h : swapRemoveIndex m i = some (e, m')) : i < m.size := (swapRemoveIndex_eq_some h).1

/-- the removed entry is the one that was in slot `i` -/
theorem swapRemoveIndex_fst {m m' : IMap P} {i : Nat} {e : Item × P}
    (h : swapRemoveIndex m i = some (e, m')) : m[i]? = some e := (swapRemoveIndex_eq_some h).2.1

theorem size_swapRemoveIndex {m m' : IMap P} {i : Nat} {e : Item × P}
    (h : swapRemoveIndex m i = some (e, m')) : m'.size = m.size - 1 := (swapRemoveIndex_eq_some h).2.2.1

theorem getElem?_swapRemoveIndex {m m' : IMap P} {i : Nat} {e : Item × P}
    (h : swapRemoveIndex m i = some (e, m')) (j : Nat) :
    m'[j]? = if j < m.size - 1 then (if j = i then m[m.size - 1]? else m[j]?) else none :=
  (swapRemoveIndex_eq_some h).2.2.2 j

/-- the former last entry moves into slot `i` (when `i` was not the last slot) -/
theorem getElem?_swapRemoveIndex_self {m m' : IMap P} {i : Nat} {e : Item × P}
    (h : swapRemoveIndex m i = some (e, m')) (hi : i < m.size - 1) : m'[i]? = m[m.size - 1]? := by
  rw [getElem?_swapRemoveIndex h, if_pos hi, if_pos rfl]

theorem getElem?_swapRemoveIndex_ne {m m' : IMap P} {i : Nat} {e : Item × P}
    (h : swapRemoveIndex m i = some (e, m')) {j : Nat} (hj : j < m.size - 1) (hji : j ≠ i) : m'[j]? = m[j]? := by
  rw [getElem?_swapRemoveIndex h, if_pos hj, if_neg hji]

/-- the entries afterwards are exactly the entries of the other slots -/
theorem mem_swapRemoveIndex_iff {m m' : IMap P} {i : Nat} {e : Item × P}
    (h : swapRemoveIndex m i = some (e, m')) (x : Item × P) :
    (∃ j : Nat, m'[j]? = some x) ↔ ∃ j : Nat, j ≠ i ∧ m[j]? = some x := by
  obtain ⟨hi, he, hs, hg⟩ := swapRemoveIndex_eq_some h
  constructor
  · rintro ⟨j, hj⟩
    rw [hg] at hj
    by_cases hjs : j < m.size - 1
    · rw [if_pos hjs] at hj
      by_cases hji : j = i
      · rw [if_pos hji] at hj; exact ⟨m.size - 1, by omega, hj⟩
      · rw [if_neg hji] at hj; exact ⟨j, hji, hj⟩
    · rw [if_neg hjs] at hj; cases hj
  · rintro ⟨j, hji, hj⟩
    have hjs := (Array.getElem?_eq_some_iff.1 hj).1
    by_cases hjl : j = m.size - 1
    · refine ⟨i, ?_⟩
      rw [hg, if_pos (by omega), if_pos rfl, ← hjl, hj]
    · refine ⟨j, ?_⟩
      rw [hg, if_pos (by omega), if_neg hji, hj]

theorem NoDupKeys.swapRemoveIndex {m m' : IMap P} (hm : NoDupKeys m) {i : Nat} {e : Item × P}
    (h : swapRemoveIndex m i = some (e, m')) : NoDupKeys m' := by
  obtain ⟨hi, he, hs, hg⟩ := swapRemoveIndex_eq_some h
  intro a b x y ha hb hxy
  have hal := (Array.getElem?_eq_some_iff.1 ha).1
  have hbl := (Array.getElem?_eq_some_iff.1 hb).1
  rw [hg, if_pos (by omega)] at ha hb
  by_cases hai : a = i <;> by_cases hbi : b = i
  · omega
  · rw [if_pos hai] at ha; rw [if_neg hbi] at hb
    have := hm _ _ x y ha hb hxy; omega
  · rw [if_neg hai] at ha; rw [if_pos hbi] at hb
    have := hm _ _ x y ha hb hxy; omega
  · rw [if_neg hai] at ha; rw [if_neg hbi] at hb
    exact hm _ _ x y ha hb hxy

/-- the removed key is gone, every other key is unchanged -/
theorem lookup_swapRemoveIndex {m m' : IMap P} (hm : NoDupKeys m) {i : Nat} {e : Item × P}
    (h : swapRemoveIndex m i = some (e, m')) (k : Nat) :
    lookup m' k = if k = e.1.key then none else lookup m k := by
  have hm' := hm.swapRemoveIndex h
  have he := swapRemoveIndex_fst h
  by_cases hk : k = e.1.key
  · rw [if_pos hk, lookup_eq_none_iff]
    intro j x hx hxk
    obtain ⟨j', hj'i, hj'⟩ := (mem_swapRemoveIndex_iff h x).1 ⟨j, hx⟩
    exact hj'i (hm j' i x e hj' he (hxk.trans hk))
  · rw [if_neg hk]
    apply Option.ext
    intro x
    rw [lookup_eq_some_iff hm', lookup_eq_some_iff hm]
    constructor
    · rintro ⟨j, hj, hxk⟩
      obtain ⟨j', _, hj'⟩ := (mem_swapRemoveIndex_iff h x).1 ⟨j, hj⟩
      exact ⟨j', hj', hxk⟩
    · rintro ⟨j, hj, hxk⟩
      have hji : j ≠ i := by
        rintro rfl
        rw [he] at hj; cases hj
        exact hk hxk.symm
      obtain ⟨j', hj'⟩ := (mem_swapRemoveIndex_iff h x).2 ⟨j, hji, hj⟩
      exact ⟨j', hj', hxk⟩

theorem contains_swapRemoveIndex {m m' : IMap P} (hm : NoDupKeys m) {i : Nat} {e : Item × P}
    (h : swapRemoveIndex m i = some (e, m')) (k : Nat) :
    contains m' k = (k != e.1.key && contains m k) := by
  rw [← lookup_isSome_eq_contains, lookup_swapRemoveIndex hm h, ← lookup_isSome_eq_contains]
  by_cases hk : k = e.1.key <;> simp [hk]

/-! ## `swapRemoveFull` -/

theorem swapRemoveFull_eq (m : IMap P) (k : Nat) :
    swapRemoveFull m k = (find? m k).bind fun i => (swapRemoveIndex m i).map fun r => (i, r.1, r.2) := by
  unfold swapRemoveFull
  cases find? m k with
  | none => rfl
  | some i =>
    simp only [Option.bind_some]
    split <;> simp [*]

theorem swapRemoveFull_eq_none_iff {m : IMap P} {k : Nat} : swapRemoveFull m k = none ↔ find? m k = none := by
  rw [swapRemoveFull_eq]
  cases hf : find? m k with
  | none => simp
  | some i =>
    have := swapRemoveIndex_isSome_iff.2 (find?_lt_size hf)
    obtain ⟨r, hr⟩ := Option.isSome_iff_exists.1 this
    simp [hr]

theorem swapRemoveFull_eq_some_iff {m m' : IMap P} {k i : Nat} {e : Item × P} :
    swapRemoveFull m k = some (i, e, m') ↔ find? m k = some i ∧ swapRemoveIndex m i = some (e, m') := by
  rw [swapRemoveFull_eq]
  cases hf : find? m k with
  | none => simp
  | some j =>
    simp only [Option.bind_some, Option.map_eq_some_iff, Prod.mk.injEq, Option.some.injEq]
    constructor
    · rintro ⟨⟨e', m''⟩, hr, rfl, rfl, rfl⟩; exact ⟨rfl, hr⟩
    · rintro ⟨rfl, hr⟩; exact ⟨(e, m'), hr, rfl, rfl, rfl⟩

/-- a successful `swapRemoveFull` removes an entry with the requested key -/
theorem swapRemoveFull_key {m m' : IMap P} {k i : Nat} {e : Item × P}
    (h : swapRemoveFull m k = some (i, e, m')) : e.1.key = k := by
  obtain ⟨hf, hr⟩ := swapRemoveFull_eq_some_iff.1 h
  obtain ⟨e', he', hk⟩ := find?_getElem? hf
  rw [swapRemoveIndex_fst hr] at he'; cases he'; exact hk

theorem swapRemoveFull_isSome (m : IMap P) (k : Nat) : (swapRemoveFull m k).isSome = contains m k := by
  rw [contains_eq]
  cases hf : find? m k with
  | none => rw [swapRemoveFull_eq_none_iff.2 hf]; rfl
  | some i =>
    cases hs : swapRemoveFull m k with
    | some r => rfl
    | none => rw [swapRemoveFull_eq_none_iff.1 hs] at hf; cases hf

theorem lookup_swapRemoveFull {m m' : IMap P} (hm : NoDupKeys m) {k i : Nat} {e : Item × P}
    (h : swapRemoveFull m k = some (i, e, m')) (k' : Nat) :
    lookup m' k' = if k' = k then none else lookup m k' := by
  rw [← swapRemoveFull_key h]
  exact lookup_swapRemoveIndex hm (swapRemoveFull_eq_some_iff.1 h).2 k'

/-! ## `retain` -/

/-- the per-entry action of `retain` -/
def retainStep (f : Item → P → Bool × Item × P) (e : Item × P) : Option (Item × P) :=
  let r := f e.1 e.2
  if r.1 then some (r.2.1, r.2.2) else none

/-- `retain` keeps, in the same relative order, the images of the entries the closure accepts -/
theorem toList_retain (m : IMap P) (f : Item → P → Bool × Item × P) :
    (retain m f).toList =
      m.toList.filterMap (fun e => let r := f e.1 e.2; if r.1 then some (r.2.1, r.2.2) else none) := by
  have key : ∀ (l : List (Item × P)) (acc : IMap P),
      (l.foldl (fun acc e => let r := f e.1 e.2; if r.1 then acc.push (r.2.1, r.2.2) else acc) acc).toList =
        acc.toList ++ l.filterMap (fun e => let r := f e.1 e.2; if r.1 then some (r.2.1, r.2.2) else none) := by
    intro l
    induction l with
    | nil => intro acc; simp
    | cons x xs ih =>
      intro acc
      rw [List.foldl_cons, ih]
      by_cases hx : (f x.1 x.2).1 = true
      · simp [hx]
      · simp [hx]
  unfold retain
  rw [← Array.foldl_toList, key]
  simp

theorem toList_retain' (m : IMap P) (f : Item → P → Bool × Item × P) :
    (retain m f).toList = m.toList.filterMap (retainStep f) := toList_retain m f

theorem mem_retain_iff {m : IMap P} {f : Item → P → Bool × Item × P} {x : Item × P} :
    (∃ j : Nat, (retain m f)[j]? = some x) ↔
      ∃ (i : Nat) (e : Item × P), m[i]? = some e ∧ (f e.1 e.2).1 = true ∧ x = ((f e.1 e.2).2.1, (f e.1 e.2).2.2) := by
  rw [← Array.mem_iff_getElem?, ← Array.mem_toList_iff, toList_retain', List.mem_filterMap]
  constructor
  · rintro ⟨e, he, hx⟩
    obtain ⟨i, hi⟩ := Array.mem_iff_getElem?.1 (Array.mem_toList_iff.1 he)
    unfold retainStep at hx
    simp only at hx
    split at hx
    · rename_i hr; cases hx; exact ⟨i, e, hi, hr, rfl⟩
    · cases hx
  · rintro ⟨i, e, hi, hr, rfl⟩
    refine ⟨e, Array.mem_toList_iff.2 (Array.mem_iff_getElem?.2 ⟨i, hi⟩), ?_⟩
    unfold retainStep
    simp [hr]

theorem size_retain_le (m : IMap P) (f : Item → P → Bool × Item × P) : (retain m f).size ≤ m.size := by
  rw [← Array.length_toList, toList_retain', ← Array.length_toList]
  exact List.length_filterMap_le _ _

theorem NoDupKeys.retain {m : IMap P} (hm : NoDupKeys m) {f : Item → P → Bool × Item × P}
    (hf : ∀ it p, (f it p).2.1.key = it.key) : NoDupKeys (retain m f) := by
  rw [noDupKeys_iff_pairwise] at hm ⊢
  rw [toList_retain']
  refine hm.filterMap _ ?_
  intro a a' haa' b hb b' hb'
  unfold retainStep at hb hb'
  simp only at hb hb'
  split at hb
  · split at hb'
    · cases hb; cases hb'
      simp only [hf]
      exact haa'
    · cases hb'
  · cases hb

/-- `lookup` after a key-preserving `retain` -/
theorem lookup_retain {m : IMap P} (hm : NoDupKeys m) {f : Item → P → Bool × Item × P}
    (hf : ∀ it p, (f it p).2.1.key = it.key) (k : Nat) :
    lookup (retain m f) k = (lookup m k).bind (retainStep f) := by
  apply Option.ext
  intro x
  rw [lookup_eq_some_iff (hm.retain hf), Option.bind_eq_some_iff]
  constructor
  · rintro ⟨j, hj, hk⟩
    obtain ⟨i, e, he, hr, rfl⟩ := mem_retain_iff.1 ⟨j, hj⟩
    refine ⟨e, (lookup_eq_some_iff hm).2 ⟨i, he, ?_⟩, ?_⟩
    · rw [← hk]; exact (hf _ _).symm
    · unfold retainStep; simp [hr]
  · rintro ⟨e, he, hx⟩
    obtain ⟨i, hi, hk⟩ := (lookup_eq_some_iff hm).1 he
    unfold retainStep at hx
    simp only at hx
    split at hx
    · rename_i hr
      cases hx
      obtain ⟨j, hj⟩ := mem_retain_iff.2 ⟨i, e, hi, hr, rfl⟩
      exact ⟨j, hj, by simp only [hf]; exact hk⟩
    · cases hx

/-! ## Decidability of `NoDupKeys` and sanity examples (the hypotheses used above are satisfiable) -/

instance (m : IMap P) : Decidable (NoDupKeys m) := decidable_of_iff _ noDupKeys_iff_nodup.symm

section Examples
-- `find?` is `Array.findIdx?` (well-founded recursion): plain `decide` gets stuck on it, the kernel does not.
private def ex3 : IMap Nat := #[(⟨1, 10⟩, 5), (⟨2, 20⟩, 7), (⟨3, 30⟩, 6)]

example : NoDupKeys ex3 := by decide
example : ¬ NoDupKeys (ex3.push (⟨2, 0⟩, 9)) := by decide
example : find? ex3 2 = some 1 ∧ find? ex3 4 = none := by decide +kernel
example : lookup ex3 2 = some (⟨2, 20⟩, 7) := by decide
example : lookup (setPrio ex3 1 99) 2 = some (⟨2, 20⟩, 99) := by decide
example : insertFull ex3 ⟨2, 0⟩ 9 = (#[(⟨1, 10⟩, 5), (⟨2, 20⟩, 9), (⟨3, 30⟩, 6)], 1, some 7) := by decide +kernel
example : insertFull ex3 ⟨4, 0⟩ 9 = (ex3.push (⟨4, 0⟩, 9), 3, none) := by decide +kernel
example : swapRemoveIndex ex3 0 = some ((⟨1, 10⟩, 5), #[(⟨3, 30⟩, 6), (⟨2, 20⟩, 7)]) := by decide
example : swapRemoveIndex ex3 3 = none := by decide
example : swapRemoveFull ex3 2 = some (1, (⟨2, 20⟩, 7), #[(⟨1, 10⟩, 5), (⟨3, 30⟩, 6)]) := by decide +kernel
example : retain ex3 (fun it p => (p != 7, it, p + 1)) = #[(⟨1, 10⟩, 6), (⟨3, 30⟩, 7)] := by decide
end Examples

end PQ.IMap
