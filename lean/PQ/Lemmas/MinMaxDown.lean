import PQ.Lemmas.MinMaxDefs
import PQ.Lemmas.MinMaxDown1
import PQ.Lemmas.MinMaxDown2
/-!
# Min-max heap: trickle-down (`heapify`, T1 in `MinMaxDown2`), Floyd construction (`heapBuild`, T2) and the position
of the extremes (`findMin`/`findMax`/`peekMin`/`peekMax`, T3)
-/
set_option linter.unusedSimpArgs false
set_option linter.unusedSectionVars false
namespace PQ
open Arith
variable {P : Type} [LT P] [DecidableLT P] [LE P] [Std.IsLinearPreorder P] [Std.LawfulOrderLT P]

namespace DQ
open Store

/-! ## T2: Floyd's construction -/

theorem anc_left_le {a d : Nat} (h : Anc a d) : left a ≤ d := by
  rcases h.cases_top with rfl | rfl | h | h
  · omega
  · have := left_lt_right a; omega
  · have := h.lt; omega
  · have := h.lt; have := left_lt_right a; omega

theorem heapBuildLoop_spec : ∀ (k : Nat) (s : Store P), s.WF → k < s.size → s.MinMaxFrom (k + 1) →
    ∃ s', heapBuildLoop s k = .ok s' ∧ s'.WF ∧ s'.map = s.map ∧ s'.size = s.size ∧ s'.MinMaxFrom 0 := by
  intro k
  induction k with
  | zero =>
    intro s h hk hfrom
    obtain ⟨s', hrun, hwf, hmap, hsize, hfrom', _⟩ := heapify_spec (lo := 0) (i := 0) h hk (Nat.le_refl _)
      (fun a d had hd _ ha => hfrom a d had hd (by omega))
    exact ⟨s', hrun, hwf, hmap, hsize, hfrom'⟩
  | succ k ih =>
    intro s h hk hfrom
    obtain ⟨s1, hrun, hwf, hmap, hsize, hfrom', _⟩ := heapify_spec (lo := k + 1) (i := k + 1) h hk (Nat.le_refl _)
      (fun a d had hd hlo ha => hfrom a d had hd (by omega))
    obtain ⟨s', hrun', hwf', hmap', hsize', hfrom''⟩ := ih s1 hwf (by omega) hfrom'
    refine ⟨s', ?_, hwf', by rw [hmap', hmap], by rw [hsize', hsize], hfrom''⟩
    simp [heapBuildLoop, hrun, hrun', bind, Except.bind]

/-- **T2: `heap_build` (Floyd) establishes the min-max order** on any well-formed store, without fault, keeping the map
and the size. -/
theorem heapBuild_spec {s : Store P} (h : s.WF) :
    ∃ s', heapBuild s = .ok s' ∧ s'.WF ∧ s'.map = s.map ∧ s'.size = s.size ∧ s'.MinMaxHeap := by
  by_cases h0 : s.size = 0
  · refine ⟨s, by simp [heapBuild, h0, pure, Except.pure], h, rfl, rfl, ?_⟩
    intro a d _ hd; omega
  · have htop : parent s.size < s.size := parent_lt (by omega)
    have hfrom : s.MinMaxFrom (parent s.size + 1) := by
      intro a d had hd hlo
      have h1 : s.size < left a := lt_left_of_parent_lt (by omega)
      have h2 := anc_left_le had
      omega
    obtain ⟨s', hrun, hwf, hmap, hsize, hfrom'⟩ := heapBuildLoop_spec (parent s.size) s h htop hfrom
    refine ⟨s', ?_, hwf, hmap, hsize, (minMaxHeap_iff_from s').mpr hfrom'⟩
    simp [heapBuild, h0, parentC, hrun, bind, Except.bind]

/-! ## T3: where the extremes are -/

/-- every stored entry sits at some heap position -/
theorem mem_pos {s : Store P} (h : s.WF) {e : Item × P} (he : s.Mem e) :
    ∃ p, p < s.size ∧ s.entryAt p = some e := by
  obtain ⟨j, hj⟩ := he
  have hjn : j < s.size := by have := lt_size_of_getElem? hj; rw [h.map_size] at this; exact this
  obtain ⟨p, hp1, hp2⟩ := h.qp_heap j hjn
  exact ⟨p, TWF.qp_lt h hp1, by simp [Store.entryAt, hp2, hj]⟩

theorem mem_of_entryAt {s : Store P} {p : Nat} {e : Item × P} (he : s.entryAt p = some e) : s.Mem e := by
  unfold Store.entryAt at he
  split at he
  · exact ⟨_, he⟩
  · cases he

theorem pr_of_entryAt {s : Store P} {p : Nat} {e : Item × P} (he : s.entryAt p = some e) : s.pr p = some e.2 := by
  rw [pr_eq_entryAt, he]; rfl

theorem isMin_of_pos {s : Store P} (h : s.WF) {p : Nat} {e : Item × P} (he : s.entryAt p = some e)
    (hall : ∀ q y, q < s.size → s.pr q = some y → ¬ y < e.2) : s.IsMin e := by
  refine ⟨mem_of_entryAt he, ?_⟩
  intro e' he'
  obtain ⟨q, hq, hqe⟩ := mem_pos h he'
  exact hall q e'.2 hq (pr_of_entryAt hqe)

theorem isMax_of_pos {s : Store P} (h : s.WF) {p : Nat} {e : Item × P} (he : s.entryAt p = some e)
    (hall : ∀ q y, q < s.size → s.pr q = some y → ¬ e.2 < y) : s.IsMax e := by
  refine ⟨mem_of_entryAt he, ?_⟩
  intro e' he'
  obtain ⟨q, hq, hqe⟩ := mem_pos h he'
  exact hall q e'.2 hq (pr_of_entryAt hqe)

/-- in a min-max heap the root holds a minimum -/
theorem root_isMin {s : Store P} (h : s.WF) (hm : s.MinMaxHeap) (hn : 0 < s.size) :
    ∃ e, s.entryAt 0 = some e ∧ s.IsMin e := by
  obtain ⟨e, he⟩ := TWF.entryAt_some h hn
  refine ⟨e, he, isMin_of_pos h he ?_⟩
  intro q y hq hy
  by_cases hq0 : q = 0
  · subst hq0
    rw [pr_of_entryAt he] at hy; cases hy; grind
  · have := hm 0 q (Anc.zero (by omega)) hq e.2 y (pr_of_entryAt he) hy
    simpa using this

theorem findMin_spec {s : Store P} (hn : 0 < s.size) : findMin s = some 0 := by
  have : s.size ≠ 0 := by omega
  simp [findMin, this]

theorem findMin_empty {s : Store P} (h0 : s.size = 0) : findMin s = none := by
  simp [findMin, h0]

theorem findMax_empty {s : Store P} (h0 : s.size = 0) : findMax s = .ok (s, none) := by
  simp [findMax, h0, pure, Except.pure]

/-- in a min-max heap every position is dominated by position 1 or position 2 (size ≥ 3) -/
theorem dominated_by_top {s : Store P} (hm : s.MinMaxHeap) (hn : 3 ≤ s.size) {x1 x2 : P}
    (h1 : s.pr 1 = some x1) (h2 : s.pr 2 = some x2) :
    ∀ q y, q < s.size → s.pr q = some y → ¬ x1 < y ∨ ¬ x2 < y := by
  intro q y hq hy
  have l0 : left 0 = 1 := rfl
  have r0 : right 0 = 2 := rfl
  have a01 : Anc 0 1 := Anc.zero (by omega)
  by_cases hq0 : q = 0
  · subst hq0
    have := hm 0 1 a01 (by omega) y x1 hy h1
    left; simpa using this
  · rcases (Anc.zero (Nat.pos_of_ne_zero hq0)).cases_top with e | e | e | e
    · rw [l0] at e; subst e; rw [h1] at hy; cases hy; left; grind
    · rw [r0] at e; subst e; rw [h2] at hy; cases hy; right; grind
    · rw [l0] at e
      have := hm 1 q e hq x1 y h1 hy
      left; simpa using this
    · rw [r0] at e
      have := hm 2 q e hq x2 y h2 hy
      right; simpa using this

/-- **`find_max`**: in a min-max heap it returns, after at most one comparison, a position holding a maximum -/
theorem findMax_spec {s : Store P} (h : s.WF) (hm : s.MinMaxHeap) (hn : 0 < s.size) :
    ∃ k p e, findMax s = .ok (s.tick k, some p) ∧ k ≤ 1 ∧ p < s.size ∧ s.entryAt p = some e ∧ s.IsMax e := by
  by_cases hs1 : s.size = 1
  · obtain ⟨e, he⟩ := TWF.entryAt_some h hn
    refine ⟨0, 0, e, by simp [findMax, hs1, pure, Except.pure, tick_zero], by omega, hn, he, isMax_of_pos h he ?_⟩
    intro q y hq hy
    have : q = 0 := by omega
    subst this
    rw [pr_of_entryAt he] at hy; cases hy; grind
  · by_cases hs2 : s.size = 2
    · obtain ⟨e, he⟩ := TWF.entryAt_some h (show 1 < s.size by omega)
      refine ⟨0, 1, e, by simp [findMax, hs2, pure, Except.pure, tick_zero], by omega, by omega, he,
        isMax_of_pos h he ?_⟩
      intro q y hq hy
      by_cases hq0 : q = 0
      · subst hq0
        have := hm 0 1 (Anc.zero (by omega)) (by omega) y e.2 hy (pr_of_entryAt he)
        simpa using this
      · have : q = 1 := by omega
        subst this
        rw [pr_of_entryAt he] at hy; cases hy; grind
    · have hn3 : 3 ≤ s.size := by omega
      obtain ⟨n, hsz⟩ : ∃ n, s.size = n + 3 := ⟨s.size - 3, by omega⟩
      obtain ⟨e1, he1⟩ := TWF.entryAt_some h (show 1 < s.size by omega)
      obtain ⟨e2, he2⟩ := TWF.entryAt_some h (show 2 < s.size by omega)
      have hp1 := pr_of_entryAt he1
      have hp2 := pr_of_entryAt he2
      have hdom := dominated_by_top hm hn3 hp1 hp2
      have hrun : findMax s = .ok (s.tick 1, some (if e2.2 < e1.2 then 1 else 2)) := by
        simp [findMax, hsz, prioAt_eq_ok_iff.mpr hp1, prioAt_eq_ok_iff.mpr hp2, bind, Except.bind, pure, Except.pure,
          Store.tick]
      by_cases hlt : e2.2 < e1.2
      · refine ⟨1, 1, e1, by simpa [hlt] using hrun, by omega, by omega, he1, isMax_of_pos h he1 ?_⟩
        intro q y hq hy
        rcases hdom q y hq hy with hd | hd
        · exact hd
        · grind
      · refine ⟨1, 2, e2, by simpa [hlt] using hrun, by omega, by omega, he2, isMax_of_pos h he2 ?_⟩
        intro q y hq hy
        rcases hdom q y hq hy with hd | hd
        · grind
        · exact hd

/-! ### `peek_min` / `peek_max` -/

theorem dq_entryAt_ok {s : Store P} {p site : Nat} {e : Item × P} (he : s.entryAt p = some e) :
    DQ.entryAt s p site = .ok (some e) := by
  unfold Store.entryAt at he
  split at he
  · rename_i i hi
    simp [DQ.entryAt, getU, hi, IMap.getIndex, he, bind, Except.bind, pure, Except.pure]
  · cases he

theorem peekMin_spec {s : Store P} (h : s.WF) (hm : s.MinMaxHeap) (hn : 0 < s.size) :
    ∃ e, peekMin s = .ok (some e) ∧ s.IsMin e := by
  obtain ⟨e, he, hmin⟩ := root_isMin h hm hn
  refine ⟨e, ?_, hmin⟩
  simp [peekMin, findMin_spec hn, dq_entryAt_ok he]

theorem peekMin_empty {s : Store P} (h0 : s.size = 0) : peekMin s = .ok none := by
  simp [peekMin, findMin_empty h0, pure, Except.pure]

theorem peekMax_spec {s : Store P} (h : s.WF) (hm : s.MinMaxHeap) (hn : 0 < s.size) :
    ∃ k e, peekMax s = .ok (s.tick k, some e) ∧ k ≤ 1 ∧ s.IsMax e := by
  obtain ⟨k, p, e, hrun, hk, _, he, hmax⟩ := findMax_spec h hm hn
  refine ⟨k, e, ?_, hk, hmax⟩
  have he' : (s.tick k).entryAt p = some e := he
  simp [peekMax, hrun, dq_entryAt_ok he', bind, Except.bind, pure, Except.pure]

theorem peekMax_empty {s : Store P} (h0 : s.size = 0) : peekMax s = .ok (s, none) := by
  simp [peekMax, findMax_empty h0, bind, Except.bind, pure, Except.pure]

/-! ## Non-vacuity: a concrete 7-element store whose root violates the order -/

/-- priorities by position: `[99, 50, 60, 10, 20, 30, 40]` (identity tables): positions 1 and 2 (max level) dominate
their children, the root (min level) is out of place -/
def ex7 : Store Nat :=
  { map := #[(⟨0, 0⟩, 99), (⟨1, 0⟩, 50), (⟨2, 0⟩, 60), (⟨3, 0⟩, 10), (⟨4, 0⟩, 20), (⟨5, 0⟩, 30), (⟨6, 0⟩, 40)],
    heap := #[0, 1, 2, 3, 4, 5, 6], qp := #[0, 1, 2, 3, 4, 5, 6], size := 7 }

theorem ex7_WF : ex7.WF := by
  have hh : ∀ p, p < 7 → ex7.heap[p]? = some p := by decide
  have hk : ∀ i, i < 7 → ∀ j, j < 7 → (ex7.map[i]?).map (·.1.key) = (ex7.map[j]?).map (·.1.key) → i = j := by decide
  refine ⟨rfl, rfl, rfl, fun p hp => ⟨p, hh p hp, hh p hp⟩, fun p hp => ⟨p, hh p hp, hh p hp⟩, ?_⟩
  intro i j a b hi hj hab
  have hi' : i < 7 := lt_size_of_getElem? hi
  have hj' : j < 7 := lt_size_of_getElem? hj
  exact hk i hi' j hj' (by rw [hi, hj]; simp [hab])

/-- the hypotheses of `heapify_spec` (T1) hold for `ex7` at `i = 0`, `lo = 0`, although `ex7` is not a min-max heap -/
theorem ex7_pre : ∀ a d, Anc a d → d < ex7.size → 0 ≤ a → a ≠ 0 → ex7.Rel a d := by
  intro a d had hd _ ha
  have hd7 : d < 7 := hd
  have hpa : a = parent d := by
    rcases had.cases_child with h | h
    · exact h
    · exfalso
      have h2 : parent (parent d) = 0 := by simp only [parent]; omega
      rcases h.cases_child with h' | h'
      · omega
      · rw [h2] at h'; exact not_anc_zero a h'
  have hcases : (a = 1 ∧ d = 3) ∨ (a = 1 ∧ d = 4) ∨ (a = 2 ∧ d = 5) ∨ (a = 2 ∧ d = 6) := by
    simp only [parent] at hpa; omega
  rcases hcases with ⟨rfl, rfl⟩ | ⟨rfl, rfl⟩ | ⟨rfl, rfl⟩ | ⟨rfl, rfl⟩ <;>
  · intro x y hx hy
    have hx' : x ∈ ex7.pr _ := hx
    have hy' : y ∈ ex7.pr _ := hy
    revert hx' hy'
    simp [ex7, Store.pr]
    intro h1 h2; subst h1; subst h2; decide

example : ∃ (s : Store Nat) (lo i : Nat), s.WF ∧ i < s.size ∧ lo ≤ i ∧
    (∀ a d, Anc a d → d < s.size → lo ≤ a → a ≠ i → s.Rel a d) ∧ ¬ s.MinMaxHeap :=
  ⟨ex7, 0, 0, ex7_WF, by decide, Nat.le_refl _, ex7_pre, fun hm => by
    have := hm 0 3 (Anc.zero (by decide)) (by decide) 99 10 (by decide) (by decide)
    revert this; decide⟩

/-- and the model really moves the minimum to the root and the maximum to position 1 or 2 -/
example : (heapify ex7 0).toOption.map (fun s => (s.pr 0, s.pr 3, s.pr 1)) = some (some 10, some 50, some 99) := by
  decide

/-- non-vacuity of T2: `heapBuild` on a well-formed store in arbitrary order -/
example : ∃ s', heapBuild ex7 = .ok s' ∧ s'.WF ∧ s'.size = 7 ∧ s'.MinMaxHeap := by
  obtain ⟨s', h1, h2, _, h3, h4⟩ := heapBuild_spec ex7_WF
  exact ⟨s', h1, h2, h3, h4⟩

example : (heapBuild ex7).toOption.map (fun s => (s.pr 0, s.size)) = some (some 10, 7) := by decide

/-- non-vacuity of T3 -/
example : ∃ s : Store Nat, s.WF ∧ s.MinMaxHeap ∧ 3 ≤ s.size := by
  obtain ⟨s', _, h2, _, h3, h4⟩ := heapBuild_spec ex7_WF
  exact ⟨s', h2, h4, by rw [h3]; decide⟩

/-- on the heap built from `ex7`, `find_max` points at the priority 99 and `peek_min` returns the entry with priority 10 -/
example : ((heapBuild ex7).toOption.bind fun s => (findMax s).toOption.bind fun r => r.2.map s.pr)
    = some (some 99) := by decide

example : ((heapBuild ex7).toOption.bind fun s => (peekMin s).toOption.map fun r => r.map (·.2))
    = some (some 10) := by decide

end DQ
end PQ
