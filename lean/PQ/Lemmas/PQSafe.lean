import PQ.Lemmas.Spec
/-!
# `PriorityQueue`: every operation is fault-free on a store that is only well-formed (`WF`)

Nothing in this file assumes the heap order.  That is what property C04 needs: after a leaked `iter_mut` guard
the store is well-formed but no longer heap-ordered, and every unchecked access must still be in range.

Part 1: the sifting procedures (`pickLargest`, `heapify`, `bubble_up`, `up_heapify`, `heap_build`).
Part 2: every public operation returns `.ok`, keeps `WF`, and has the abstract effect (`Store.abs`) stated here.

`heapify i` is only ever called with `i < size` (or `size ≤ 1`, where it returns at once): `pop`/`pop_if` call it at
`0` with `size ≥ 1`, `up_heapify` at the final position of `bubble_up` (`pos ≤ i < size`), `heap_build` at
`0 ..= parent size` (`< size`).  `heapify_oob` shows the precondition is needed: with `1 < size ≤ i` the model
reports the out-of-bounds fault of site 105.
-/
set_option linter.unusedSimpArgs false
set_option linter.unusedSectionVars false
set_option linter.unusedVariables false
namespace PQ
open Arith

/-! ## Decidability of `MaxHeap` and `MaxQ.Inv` (for concrete examples; needs only `<` decidable) -/
section Decide
variable {P : Type} [LT P] [DecidableLT P]

/-- Boolean check of the parent/child edge ending at position `p` -/
def Store.edgeOk (s : Store P) (p : Nat) : Bool :=
  match s.pr (parent p), s.pr p with
  | some a, some b => !decide (a < b)
  | _, _ => true

theorem Store.maxHeap_iff_edgeOk {s : Store P} : s.MaxHeap ↔ ∀ p, p < s.size → 0 < p → s.edgeOk p = true := by
  unfold Store.MaxHeap Store.edgeOk
  constructor
  · intro h p hps hp
    cases ha : s.pr (parent p) with
    | none => rfl
    | some a =>
      cases hb : s.pr p with
      | none => rfl
      | some b => simpa using h p hp hps a b ha hb
  · intro h p hp hps a b ha hb
    have := h p hps hp
    rw [ha, hb] at this
    simpa using this

instance Store.decidableMaxHeap (s : Store P) : Decidable s.MaxHeap := decidable_of_iff _ Store.maxHeap_iff_edgeOk.symm
instance MaxQ.decidableInv (s : Store P) : Decidable (MaxQ.Inv s) := inferInstanceAs (Decidable (s.WF ∧ s.MaxHeap))

end Decide

variable {P : Type} [LT P] [DecidableLT P] [LE P] [Std.IsLinearPreorder P] [Std.LawfulOrderLT P]

namespace Store

theorem WF.of_TWF_size {s : Store P} {n : Nat} (h : s.TWF n) (hn : s.size = n) : s.WF := by
  unfold Store.WF; rw [hn]; exact h

/-- `TWF` only reads the three tables -/
theorem TWF.congr {s t : Store P} {n : Nat} (h : s.TWF n) (hm : t.map = s.map) (hh : t.heap = s.heap)
    (hq : t.qp = s.qp) : t.TWF n :=
  ⟨by rw [hm]; exact h.map_size, by rw [hh]; exact h.heap_size, by rw [hq]; exact h.qp_size,
    by rw [hh, hq]; exact h.heap_qp, by rw [hh, hq]; exact h.qp_heap, by rw [hm]; exact h.nodup⟩

theorem pr_congr {s t : Store P} (hm : t.map = s.map) (hh : t.heap = s.heap) (p : Nat) : t.pr p = s.pr p := by
  unfold pr; rw [hm, hh]

theorem entryAt_congr {s t : Store P} (hm : t.map = s.map) (hh : t.heap = s.heap) (p : Nat) :
    t.entryAt p = s.entryAt p := by
  unfold entryAt; rw [hm, hh]

theorem prioAt_oob {s : Store P} {i : Nat} (h : s.WF) (hi : s.size ≤ i) : s.prioAt i = .error (.oob 105) := by
  have : s.heap[i]? = none := Array.getElem?_eq_none (by rw [h.heap_size]; exact hi)
  simp [prioAt, getU, this, bind, Except.bind]

end Store

namespace MaxQ
open Store

/-! ## Part 1: the sifting procedures -/

/-- `pickLargest` never faults on a well-formed store; it only ticks the ghost counter and answers a position
among `i` and its children that is in range -/
theorem pickLargest_safe {s : Store P} {i : Nat} (h : s.WF) (hi : i < s.size) :
    ∃ k L, pickLargest s i = .ok (s.tick k, L) ∧ k ≤ 2 ∧ L < s.size ∧ (L = i ∨ L = left i ∨ L = right i) := by
  obtain ⟨k, L, h1, h2, h3, h4, _⟩ := pickLargest_spec h hi
  exact ⟨k, L, h1, h2, h3, h4⟩

theorem heapifyLoop_safe (fuel : Nat) : ∀ (s : Store P) (i : Nat), s.WF → i < s.size → s.size - i ≤ fuel →
    ∃ s', heapifyLoop fuel s i = .ok s' ∧ s'.WF ∧ s'.map = s.map ∧ s'.size = s.size := by
  induction fuel with
  | zero => intro s i _ hi hf; omega
  | succ fuel ih =>
    intro s i h hi hf
    obtain ⟨k, L, hpick, _, hL, hLc⟩ := pickLargest_safe h hi
    by_cases hLi : L = i
    · subst hLi
      refine ⟨s.tick k, ?_, tick_TWF.mpr h, rfl, rfl⟩
      simp [heapifyLoop, hpick, bind, Except.bind, pure, Except.pure]
    · have hLi' : i < L := by rcases hLc with h1 | h1 | h1 <;> (try simp only [left, right] at h1) <;> omega
      obtain ⟨s1, hswap, h1wf, h1map, h1size, _, _⟩ := swap_spec h hi hL
      have h1wf' : s1.WF := WF.of_TWF_size h1wf h1size
      obtain ⟨s', hrun, hwf', hmap', hsize'⟩ :=
        ih (s1.tick k) L (tick_TWF.mpr h1wf') (by simpa [h1size] using hL) (by simp [h1size]; omega)
      refine ⟨s', ?_, hwf', by rw [hmap']; simpa using h1map, by rw [hsize']; simpa using h1size⟩
      have hswap' : (s.tick k).swap i L = .ok (s1.tick k) := by rw [swap_tick, hswap]
      simp [heapifyLoop, hpick, bind, Except.bind, pure, Except.pure, hLi, hswap', hrun]

/-- **`heapify(i)`** on a well-formed store, `i` in range: no fault, `WF` kept, map and size untouched -/
theorem heapify_safe {s : Store P} {i : Nat} (h : s.WF) (hi : i < s.size) :
    ∃ s', heapify s i = .ok s' ∧ s'.WF ∧ s'.map = s.map ∧ s'.size = s.size := by
  unfold heapify
  by_cases h1 : s.size ≤ 1
  · exact ⟨s, by simp [h1]; rfl, h, rfl, rfl⟩
  · simp only [h1, if_false]
    exact heapifyLoop_safe s.size s i h hi (by omega)

/-- with at most one element `heapify` returns at once, whatever the index -/
theorem heapify_small {s : Store P} (i : Nat) (h1 : s.size ≤ 1) : heapify s i = .ok s := by
  unfold heapify; simp [h1]; rfl

/-- the precondition `i < size` of `heapify_safe` is necessary: beyond the end (and with more than one element)
the first `get_priority_from_position` reads out of bounds -/
theorem heapify_oob {s : Store P} {i : Nat} (h : s.WF) (h1 : 1 < s.size) (hi : s.size ≤ i) :
    heapify s i = .error (.oob 105) := by
  unfold heapify
  have : ¬ s.size ≤ 1 := by omega
  simp only [this, if_false]
  obtain ⟨n, hn⟩ : ∃ n, s.size = n + 1 := ⟨s.size - 1, by omega⟩
  rw [hn]
  simp [heapifyLoop, pickLargest, prioAt_oob h hi, bind, Except.bind]

theorem bubbleUpLoop_tables (v : P) (n idx : Nat) (fuel : Nat) : ∀ (s : Store P) (hole : Nat),
    s.HoleTWF n hole idx → hole + 1 ≤ fuel →
    ∃ s' pos, bubbleUpLoop fuel s hole v = .ok (s', pos) ∧ s'.HoleTWF n pos idx ∧ s'.map = s.map ∧
      s'.size = s.size ∧ pos ≤ hole := by
  induction fuel with
  | zero => intro s hole _ hf; omega
  | succ fuel ih =>
    intro s hole h hf
    by_cases h0 : hole > 0
    · have hppn : parent hole < n := by have := h.hole_lt; simp only [parent]; omega
      have hppne : parent hole ≠ hole := by simp only [parent]; omega
      obtain ⟨pi, x, hpi, hx, hxp⟩ := h.prioAt_ok hppn hppne
      by_cases hlt : x < v
      · have hstep := (h.tick (k := 1)).step hppn hppne (by simpa using hpi)
        have hpiN : pi < s.qp.size := by
          obtain ⟨_, _, h2, h3⟩ := h.heap_qp _ hppn hppne
          rw [hpi] at h2; cases h2; exact lt_size_of_getElem? h3
        have hholeN : hole < s.heap.size := by rw [h.heap_size]; exact h.hole_lt
        obtain ⟨s1, hs1⟩ : ∃ s1 : Store P, s1 = { s.tick with heap := (s.tick).heap.setIfInBounds hole pi, qp := (s.tick).qp.setIfInBounds pi hole } := ⟨_, rfl⟩
        rw [← hs1] at hstep
        have hpl : parent hole < hole := by simp only [parent]; omega
        obtain ⟨s', pos, hrun, hh', hm', hsz', hle⟩ := ih s1 (parent hole) hstep (by omega)
        refine ⟨s', pos, ?_, hh', by rw [hm', hs1]; rfl, by rw [hsz', hs1]; rfl, by omega⟩
        simp [bubbleUpLoop, h0, hx, hlt, getU_ok hpi, setU_ok pi hholeN, setU_ok hole hpiN, bind, Except.bind, pure, Except.pure]
        rw [hs1] at hrun; exact hrun
      · refine ⟨s.tick, hole, ?_, h.tick, rfl, rfl, Nat.le_refl _⟩
        simp [bubbleUpLoop, h0, hx, hlt, bind, Except.bind, pure, Except.pure]
    · refine ⟨s, hole, ?_, h, rfl, rfl, Nat.le_refl _⟩
      simp [bubbleUpLoop, h0]; rfl

/-- **`bubble_up(i, idx)`** on tables of length `n` that are well-formed, `heap[i] = idx`: no fault, the tables
stay well-formed, map and size untouched (no order hypothesis) -/
theorem bubbleUp_tables {s : Store P} {n i idx : Nat} (h : s.TWF n) (hi : s.heap[i]? = some idx) :
    ∃ s' pos, bubbleUp s i idx = .ok (s', pos) ∧ s'.TWF n ∧ s'.map = s.map ∧ s'.size = s.size ∧ pos ≤ i := by
  have hidx : idx < n := h.heap_lt hi
  obtain ⟨e, he⟩ := h.map_some hidx
  obtain ⟨s1, pos, hrun, hh1, hm1, hsz1, hle⟩ :=
    bubbleUpLoop_tables e.2 n idx (i + 1) s i (h.toHole hi) (Nat.le_refl _)
  have hposN : pos < s1.heap.size := by rw [hh1.heap_size]; exact hh1.hole_lt
  have hidxN : idx < s1.qp.size := by rw [hh1.qp_size]; exact hidx
  refine ⟨{ s1 with heap := s1.heap.setIfInBounds pos idx, qp := s1.qp.setIfInBounds idx pos }, pos, ?_, hh1.fill, hm1, hsz1, hle⟩
  simp [bubbleUp, IMap.getIndex, unwrapO, he, hrun, setU_ok idx hposN, setU_ok pos hidxN, bind, Except.bind, pure, Except.pure]

/-- **`up_heapify(i)`**, `i` in range, no order hypothesis -/
theorem upHeapify_safe {s : Store P} {i : Nat} (h : s.WF) (hi : i < s.size) :
    ∃ s', upHeapify s i = .ok s' ∧ s'.WF ∧ s'.map = s.map ∧ s'.size = s.size := by
  obtain ⟨idx, hidx, _⟩ := TWF.heap_some h hi
  obtain ⟨s1, pos, hb, h1, hm1, hsz1, hle⟩ := bubbleUp_tables h hidx
  have h1wf : s1.WF := WF.of_TWF_size h1 hsz1
  obtain ⟨s', hh, hwf, hm, hsz⟩ := heapify_safe h1wf (i := pos) (by rw [hsz1]; omega)
  refine ⟨s', ?_, hwf, by rw [hm, hm1], by rw [hsz, hsz1]⟩
  simp [upHeapify, getU_ok hidx, hb, hh, bind, Except.bind]

/-- **`heap_build`** on any well-formed store (this is `heapBuild_spec` without its order conclusion) -/
theorem heapBuild_safe {s : Store P} (h : s.WF) :
    ∃ s', heapBuild s = .ok s' ∧ s'.WF ∧ s'.map = s.map ∧ s'.size = s.size := by
  obtain ⟨s', h1, h2, h3, h4, _⟩ := heapBuild_spec h
  exact ⟨s', h1, h2, h3, h4⟩


/-! ## Part 2: the public operations -/

/-! ### `peek`, `peek_mut` -/

theorem peek_eq_entryAt (s : Store P) : peek s = s.entryAt 0 := rfl

/-- **`peek`** (pure): `None` exactly on the empty queue, otherwise the entry at heap position `0`, which is stored -/
theorem peek_safe {s : Store P} (h : s.WF) :
    (s.size = 0 → peek s = none) ∧
    (0 < s.size → ∃ e, peek s = some e ∧ s.entryAt 0 = some e ∧ s.Mem e ∧ s.abs e.1.key = some e) := by
  constructor
  · intro h0
    have : s.heap[0]? = none := Array.getElem?_eq_none (by rw [h.heap_size, h0]; exact Nat.le_refl _)
    simp [peek, this]
  · intro hpos
    obtain ⟨e, he⟩ := TWF.entryAt_some h hpos
    exact ⟨e, he, he, entryAt_mem he, (mem_iff_lookup h).1 (entryAt_mem he)⟩

/-- **`peek_mut`** with a key-preserving write to the item: the entry `peek` shows is returned, its item is
rewritten, nothing else changes (tables, size and even the ghost counter are the same) -/
theorem peekMutWrite_safe {s : Store P} (h : s.WF) (w : Item → Item) (hw : ∀ it, (w it).key = it.key) :
    (s.size = 0 → peekMutWrite s w = .ok (s, none)) ∧
    (0 < s.size → ∃ s' e, peekMutWrite s w = .ok (s', some e) ∧ peek s = some e ∧ s'.WF ∧ s'.size = s.size ∧
      s'.heap = s.heap ∧ s'.qp = s.qp ∧ s'.ticks = s.ticks ∧
      (∀ q, s'.entryAt q = if q = 0 then some (w e.1, e.2) else s.entryAt q) ∧
      s'.abs = absSet s.abs e.1.key (w e.1, e.2)) := by
  constructor
  · intro h0; simp [peekMutWrite, h0]; rfl
  · intro hpos
    obtain ⟨i, hh, hil⟩ := h.heap_some hpos
    obtain ⟨e, he⟩ := h.map_some hil
    obtain ⟨h1, h2, h3⟩ := setEntry_spec (e' := (w e.1, e.2)) h hh he (hw _)
    refine ⟨s.setEntry i (w e.1, e.2), e, ?_, by simp [peek, hh, IMap.getIndex, he], h1, rfl, rfl, rfl, rfl, h2, funext h3⟩
    have hne : s.size ≠ 0 := by omega
    simp [peekMutWrite, hne, getU_ok hh, IMap.getIndex, he, IMap.setItem_of_getElem? he, bind, Except.bind, pure,
      Except.pure]
    rfl

/-! ### `pop`, `pop_if` -/

theorem pop_zero {s : Store P} (h0 : s.size = 0) : pop s = .ok (s, none) := by
  unfold pop; rw [h0]; rfl

theorem pop_one {s : Store P} (h1 : s.size = 1) : pop s = s.swapRemove 0 := by
  unfold pop; rw [h1]; rfl

theorem pop_many {s : Store P} (h2 : 2 ≤ s.size) :
    pop s = (do let (s, r) ← s.swapRemove 0; let s ← heapify s 0; pure (s, r)) := by
  obtain ⟨n, hn⟩ : ∃ n, s.size = n + 2 := ⟨s.size - 2, by omega⟩
  unfold pop; rw [hn]; rfl

/-- **`pop`**: on the empty queue nothing happens; otherwise the entry `peek` shows is returned and exactly its key
disappears -/
theorem pop_safe {s : Store P} (h : s.WF) :
    (s.size = 0 → pop s = .ok (s, none)) ∧
    (0 < s.size → ∃ s' e, pop s = .ok (s', some e) ∧ peek s = some e ∧ s'.WF ∧
      s'.abs = absRemove s.abs e.1.key ∧ s'.size = s.size - 1) := by
  refine ⟨pop_zero, fun hpos => ?_⟩
  obtain ⟨s1, e, hsr, hent, h1wf, h1sz, _, _, hlk⟩ := swapRemove_spec h hpos
  by_cases h1 : s.size = 1
  · exact ⟨s1, e, by rw [pop_one h1]; exact hsr, hent, h1wf, funext hlk, h1sz⟩
  · obtain ⟨s', hh, hwf, hm, hsz⟩ := heapify_safe h1wf (i := 0) (by omega)
    refine ⟨s', e, ?_, hent, hwf, ?_, by omega⟩
    · rw [pop_many (by omega)]; simp [hsr, hh, bind, Except.bind, pure, Except.pure]
    · funext k; show IMap.lookup s'.map k = _; rw [hm]; exact hlk k

theorem popIf_zero {s : Store P} (f : Item → P → Bool × Item × P) (h0 : s.size = 0) : popIf s f = .ok (s, none) := by
  unfold popIf; rw [h0]; rfl

theorem popIf_one {s : Store P} (f : Item → P → Bool × Item × P) (h1 : s.size = 1) :
    popIf s f = s.swapRemoveIf 0 f := by
  unfold popIf; rw [h1]; rfl

theorem popIf_many {s : Store P} (f : Item → P → Bool × Item × P) (h2 : 2 ≤ s.size) :
    popIf s f = (do let (s, r) ← s.swapRemoveIf 0 f; let s ← heapify s 0; pure (s, r)) := by
  obtain ⟨n, hn⟩ : ∃ n, s.size = n + 2 := ⟨s.size - 2, by omega⟩
  unfold popIf; rw [hn]; rfl

/-- **`pop_if`** with a key-preserving predicate: the predicate sees exactly the entry `peek` shows (and may rewrite
it); if it says *yes* the rewritten entry is returned and its key disappears, otherwise the rewritten entry stays -/
theorem popIf_safe {s : Store P} (h : s.WF) (f : Item → P → Bool × Item × P)
    (hf : ∀ it p, (f it p).2.1.key = it.key) :
    (s.size = 0 → popIf s f = .ok (s, none)) ∧
    (0 < s.size → ∃ e, peek s = some e ∧
      ((f e.1 e.2).1 = true → ∃ s', popIf s f = .ok (s', some ((f e.1 e.2).2.1, (f e.1 e.2).2.2)) ∧ s'.WF ∧
          s'.abs = absRemove s.abs e.1.key ∧ s'.size = s.size - 1) ∧
      ((f e.1 e.2).1 = false → ∃ s', popIf s f = .ok (s', none) ∧ s'.WF ∧
          s'.abs = absSet s.abs e.1.key ((f e.1 e.2).2.1, (f e.1 e.2).2.2) ∧ s'.size = s.size)) := by
  refine ⟨popIf_zero f, fun hpos => ?_⟩
  obtain ⟨e, hent, htrue, hfalse⟩ := swapRemoveIf_spec f h hpos hf
  refine ⟨e, hent, fun hr => ?_, fun hr => ?_⟩
  · obtain ⟨s1, hsr, h1wf, h1sz, _, _, hlk⟩ := htrue hr
    by_cases h1 : s.size = 1
    · exact ⟨s1, by rw [popIf_one f h1]; exact hsr, h1wf, funext hlk, h1sz⟩
    · obtain ⟨s', hh, hwf, hm, hsz⟩ := heapify_safe h1wf (i := 0) (by omega)
      refine ⟨s', ?_, hwf, ?_, by omega⟩
      · rw [popIf_many f (by omega)]; simp [hsr, hh, bind, Except.bind, pure, Except.pure]
      · funext k; show IMap.lookup s'.map k = _; rw [hm]; exact hlk k
  · obtain ⟨s1, hsr, h1wf, h1sz, _, _, _, _, hlk⟩ := hfalse hr
    by_cases h1 : s.size = 1
    · exact ⟨s1, by rw [popIf_one f h1]; exact hsr, h1wf, funext hlk, h1sz⟩
    · obtain ⟨s', hh, hwf, hm, hsz⟩ := heapify_safe h1wf (i := 0) (by omega)
      refine ⟨s', ?_, hwf, ?_, by omega⟩
      · rw [popIf_many f (by omega)]; simp [hsr, hh, bind, Except.bind, pure, Except.pure]
      · funext k; show IMap.lookup s'.map k = _; rw [hm]; exact hlk k

/-! ### `push` -/

/-- evaluation of `push` for a stored key: the priority in the slot is overwritten, then `up_heapify` at its position -/
theorem push_eval_present {s : Store P} {it : Item} {p : P} {i pos : Nat} {e : Item × P}
    (hf : IMap.find? s.map it.key = some i) (he : s.map[i]? = some e) (hq : s.qp[i]? = some pos) :
    push s it p = (do let s' ← upHeapify (s.setEntry i (e.1, p)) pos; pure (s', some e.2)) := by
  unfold push
  rw [IMap.insertFull_of_find?_some hf he p]
  simp only [getU_ok hq, bind, Except.bind, pure, Except.pure]
  rfl

/-- the store on which `push` of a new key runs its sift-up: entry, heap position and slot appended, `size` not yet
bumped -/
def pushPre (s : Store P) (it : Item) (p : P) : Store P :=
  { s with map := s.map.push (it, p), qp := s.qp.push s.size, heap := s.heap.push s.size }

/-- evaluation of `push` for a new key -/
theorem push_eval_absent {s : Store P} {it : Item} {p : P} (hf : IMap.find? s.map it.key = none) :
    push s it p =
      (do let (s', _) ← bubbleUp (pushPre s it p) s.size s.size; pure ({ s' with size := s'.size + 1 }, none)) := by
  unfold push
  rw [IMap.insertFull_of_find?_none hf p]
  rfl

theorem pushPre_TWF {s : Store P} (h : s.WF) {it : Item} {p : P} (hf : IMap.find? s.map it.key = none) :
    (pushPre s it p).TWF (s.size + 1) :=
  TWF.congr (s := pushTail s (it, p)) (wf_pushTail h (e := (it, p)) hf) rfl rfl rfl

theorem pushPre_heap_last {s : Store P} (h : s.WF) (it : Item) (p : P) :
    (pushPre s it p).heap[s.size]? = some s.size := heap_pushTail_last h (it, p)

theorem pushPre_entryAt {s : Store P} (h : s.WF) (it : Item) (p : P) (q : Nat) :
    (pushPre s it p).entryAt q = if q = s.size then some (it, p) else s.entryAt q :=
  entryAt_pushTail h (it, p) q

theorem abs_isSome_iff_find? (s : Store P) (k : Nat) : (s.abs k).isSome = (IMap.find? s.map k).isSome := by
  show (IMap.lookup s.map k).isSome = _
  rw [IMap.lookup_isSome_eq_contains, IMap.contains_eq]

/-- **`push`** (no order hypothesis): no fault, `WF` kept, the old priority is returned, a stored item keeps its
stored value and gets the new priority, a new item is added -/
theorem push_safe {s : Store P} (h : s.WF) (it : Item) (p : P) :
    ∃ s', push s it p = .ok (s', (s.abs it.key).map (·.2)) ∧ s'.WF ∧ s'.abs = absPush s.abs it p ∧
      s'.size = if (s.abs it.key).isSome then s.size else s.size + 1 := by
  have hold := IMap.insertFull_old s.map it p
  have habs : ∀ k, IMap.lookup (IMap.insertFull s.map it p).1 k = absPush s.abs it p k :=
    IMap.lookup_insertFull s.map it p
  rcases IMap.insertFull_cases s.map it p with ⟨i, e, hf, he, hk, hins⟩ | ⟨hf, hins⟩
  · have hil : i < s.size := by have := lt_size_of_getElem? he; rw [h.map_size] at this; exact this
    obtain ⟨pos, hq, hpl⟩ := h.qp_some hil
    have h1 : (s.setEntry i (e.1, p)).WF := setEntry_TWF h he rfl
    obtain ⟨s', hu, hwf, hm, hsz⟩ := upHeapify_safe h1 (i := pos) hpl
    rw [hins] at hold habs
    refine ⟨s', ?_, hwf, ?_, ?_⟩
    · rw [push_eval_present hf he hq, hu, ← hold]; rfl
    · funext k; show IMap.lookup s'.map k = _; rw [hm]; exact habs k
    · rw [abs_isSome_iff_find?, hf, hsz]; rfl
  · obtain ⟨s3, pos, hb, h3, hm3, hsz3, _⟩ := bubbleUp_tables (pushPre_TWF h hf) (pushPre_heap_last h it p)
    rw [hins] at hold habs
    refine ⟨{ s3 with size := s3.size + 1 }, ?_, ?_, ?_, ?_⟩
    · rw [push_eval_absent hf, hb, ← hold]; rfl
    · exact WF.of_TWF_size (TWF.congr h3 rfl rfl rfl) (by show s3.size + 1 = _; rw [hsz3]; rfl)
    · funext k; show IMap.lookup s3.map k = _; rw [hm3]; exact habs k
    · rw [abs_isSome_iff_find?, hf]; show s3.size + 1 = _; rw [hsz3]; rfl

/-! ### `push_increase`, `push_decrease` -/

theorem pushIncrease_eq (s : Store P) (it : Item) (p : P) :
    pushIncrease s it p =
      match s.abs it.key with
      | none => push s it p
      | some e => if e.2 < p then push s.tick it p else .ok (s.tick, some p) := by
  unfold pushIncrease
  rw [getPriority_eq_lookup]
  show _ = (match IMap.lookup s.map it.key with
    | none => push s it p
    | some e => _)
  cases IMap.lookup s.map it.key <;> rfl

theorem pushDecrease_eq (s : Store P) (it : Item) (p : P) :
    pushDecrease s it p =
      match s.abs it.key with
      | none => push s it p
      | some e => if p < e.2 then push s.tick it p else .ok (s.tick, some p) := by
  unfold pushDecrease
  rw [getPriority_eq_lookup]
  show _ = (match IMap.lookup s.map it.key with
    | none => push s it p
    | some e => _)
  cases IMap.lookup s.map it.key <;> rfl

/-- **`push_increase`**: a new item is pushed (`None`); a stored item with a strictly smaller priority is updated
(old priority returned); otherwise the state is unchanged up to the ghost counter and the OFFERED priority is
returned -/
theorem pushIncrease_safe {s : Store P} (h : s.WF) (it : Item) (p : P) :
    (s.abs it.key = none → ∃ s', pushIncrease s it p = .ok (s', none) ∧ s'.WF ∧ s'.abs = absPush s.abs it p ∧
        s'.size = s.size + 1) ∧
    (∀ e, s.abs it.key = some e → e.2 < p → ∃ s', pushIncrease s it p = .ok (s', some e.2) ∧ s'.WF ∧
        s'.abs = absPush s.abs it p ∧ s'.size = s.size) ∧
    (∀ e, s.abs it.key = some e → ¬ e.2 < p → pushIncrease s it p = .ok (s.tick, some p)) := by
  refine ⟨fun ha => ?_, fun e ha hlt => ?_, fun e ha hlt => ?_⟩
  · obtain ⟨s', h1, h2, h3, h4⟩ := push_safe h it p
    rw [ha] at h1 h4
    exact ⟨s', by rw [pushIncrease_eq, ha]; exact h1, h2, h3, h4⟩
  · obtain ⟨s', h1, h2, h3, h4⟩ := push_safe (tick_TWF.mpr h : (s.tick).WF) it p
    have ha' : (s.tick).abs it.key = some e := ha
    rw [ha'] at h1 h4
    exact ⟨s', by rw [pushIncrease_eq, ha]; simp only [hlt, if_true]; exact h1, h2, h3, h4⟩
  · rw [pushIncrease_eq, ha]; simp only [hlt, if_false]

/-- **`push_decrease`**: mirror image of `push_increase` -/
theorem pushDecrease_safe {s : Store P} (h : s.WF) (it : Item) (p : P) :
    (s.abs it.key = none → ∃ s', pushDecrease s it p = .ok (s', none) ∧ s'.WF ∧ s'.abs = absPush s.abs it p ∧
        s'.size = s.size + 1) ∧
    (∀ e, s.abs it.key = some e → p < e.2 → ∃ s', pushDecrease s it p = .ok (s', some e.2) ∧ s'.WF ∧
        s'.abs = absPush s.abs it p ∧ s'.size = s.size) ∧
    (∀ e, s.abs it.key = some e → ¬ p < e.2 → pushDecrease s it p = .ok (s.tick, some p)) := by
  refine ⟨fun ha => ?_, fun e ha hlt => ?_, fun e ha hlt => ?_⟩
  · obtain ⟨s', h1, h2, h3, h4⟩ := push_safe h it p
    rw [ha] at h1 h4
    exact ⟨s', by rw [pushDecrease_eq, ha]; exact h1, h2, h3, h4⟩
  · obtain ⟨s', h1, h2, h3, h4⟩ := push_safe (tick_TWF.mpr h : (s.tick).WF) it p
    have ha' : (s.tick).abs it.key = some e := ha
    rw [ha'] at h1 h4
    exact ⟨s', by rw [pushDecrease_eq, ha]; simp only [hlt, if_true]; exact h1, h2, h3, h4⟩
  · rw [pushDecrease_eq, ha]; simp only [hlt, if_false]

/-! ### `change_priority`, `change_priority_by`, `remove` -/

theorem changePriority_eval_some {s s1 : Store P} {k pos : Nat} {p old : P}
    (h : s.changePriority k p = .ok (s1, some (old, pos))) :
    changePriority s k p = (do let s' ← upHeapify s1 pos; pure (s', some old)) := by
  unfold changePriority; rw [h]; rfl

theorem changePriority_absent {s : Store P} {k : Nat} (ha : s.abs k = none) (p : P) :
    changePriority s k p = .ok (s, none) := by
  unfold changePriority; rw [changePriority_spec_none ha]; rfl

/-- **`change_priority`** -/
theorem changePriority_safe {s : Store P} (h : s.WF) (k : Nat) (p : P) :
    (s.abs k = none → changePriority s k p = .ok (s, none)) ∧
    (∀ e, s.abs k = some e → ∃ s', changePriority s k p = .ok (s', some e.2) ∧ s'.WF ∧
      s'.abs = absSet s.abs k (e.1, p) ∧ s'.size = s.size) := by
  refine ⟨fun ha => changePriority_absent ha p, fun e ha => ?_⟩
  obtain ⟨s1, pos, hcp, hpl, _, h1, hsz1, _, _, _, _, hlk⟩ := changePriority_spec_some h ha p
  obtain ⟨s', hu, hwf, hm, hsz⟩ := upHeapify_safe h1 (i := pos) (by rw [hsz1]; exact hpl)
  refine ⟨s', by rw [changePriority_eval_some hcp, hu]; rfl, hwf, ?_, by rw [hsz, hsz1]⟩
  funext k'; show IMap.lookup s'.map k' = _; rw [hm]; exact hlk k'

theorem changePriorityBy_eval_some {s s1 : Store P} {k pos : Nat} {g : P → P}
    (h : s.changePriorityBy k g = .ok (s1, some pos)) :
    changePriorityBy s k g = (do let s' ← upHeapify s1 pos; pure (s', true)) := by
  unfold changePriorityBy; rw [h]; rfl

theorem changePriorityBy_absent {s : Store P} {k : Nat} (ha : s.abs k = none) (g : P → P) :
    changePriorityBy s k g = .ok (s, false) := by
  unfold changePriorityBy; rw [changePriorityBy_spec_none ha]; rfl

/-- **`change_priority_by`** -/
theorem changePriorityBy_safe {s : Store P} (h : s.WF) (k : Nat) (g : P → P) :
    (s.abs k = none → changePriorityBy s k g = .ok (s, false)) ∧
    (∀ e, s.abs k = some e → ∃ s', changePriorityBy s k g = .ok (s', true) ∧ s'.WF ∧
      s'.abs = absSet s.abs k (e.1, g e.2) ∧ s'.size = s.size) := by
  refine ⟨fun ha => changePriorityBy_absent ha g, fun e ha => ?_⟩
  obtain ⟨s1, pos, hcp, hpl, _, h1, hsz1, _, _, _, _, hlk⟩ := changePriorityBy_spec_some h ha g
  obtain ⟨s', hu, hwf, hm, hsz⟩ := upHeapify_safe h1 (i := pos) (by rw [hsz1]; exact hpl)
  refine ⟨s', by rw [changePriorityBy_eval_some hcp, hu]; rfl, hwf, ?_, by rw [hsz, hsz1]⟩
  funext k'; show IMap.lookup s'.map k' = _; rw [hm]; exact hlk k'

theorem remove_eval_some {s s1 : Store P} {k pos : Nat} {it : Item} {p : P}
    (h : s.remove k = .ok (s1, some (it, p, pos))) :
    remove s k =
      if pos < s1.size then (do let s' ← upHeapify s1 pos; pure (s', some (it, p))) else .ok (s1, some (it, p)) := by
  unfold remove; rw [h]; rfl

theorem remove_absent {s : Store P} {k : Nat} (ha : s.abs k = none) : remove s k = .ok (s, none) := by
  unfold remove; rw [remove_spec_none ha]; rfl

/-- **`remove`** -/
theorem remove_safe {s : Store P} (h : s.WF) (k : Nat) :
    (s.abs k = none → remove s k = .ok (s, none)) ∧
    (∀ e, s.abs k = some e → ∃ s', remove s k = .ok (s', some e) ∧ s'.WF ∧ s'.abs = absRemove s.abs k ∧
      s'.size = s.size - 1) := by
  refine ⟨remove_absent, fun e ha => ?_⟩
  obtain ⟨s1, pos, hr, hpl, _, h1, hsz1, _, _, hlk⟩ := remove_spec_some h ha
  rw [remove_eval_some hr]
  by_cases hp : pos < s1.size
  · obtain ⟨s', hu, hwf, hm, hsz⟩ := upHeapify_safe h1 (i := pos) hp
    refine ⟨s', by rw [if_pos hp, hu]; rfl, hwf, ?_, by rw [hsz, hsz1]⟩
    funext k'; show IMap.lookup s'.map k' = _; rw [hm]; exact hlk k'
  · exact ⟨s1, by rw [if_neg hp], h1, funext hlk, hsz1⟩

/-! ### the bulk operations: everything that ends in `heap_build` -/

/-- **`retain_mut`** / `retain` with a key-preserving closure: each stored entry is passed through the closure -/
theorem retainMut_safe {s : Store P} (h : s.WF) (f : Item → P → Bool × Item × P)
    (hf : ∀ it p, (f it p).2.1.key = it.key) :
    ∃ s', retainMut s f = .ok s' ∧ s'.WF ∧ (∀ k, s'.abs k = (s.abs k).bind (IMap.retainStep f)) ∧
      s'.map = s.map.retain f := by
  obtain ⟨s', h1, h2, h3, h4⟩ := heapBuild_safe (wf_retainMut h hf)
  refine ⟨s', h1, h2, fun k => ?_, by rw [h3, retainMut_map]⟩
  show IMap.lookup s'.map k = _
  rw [h3]; exact lookup_retainMut h hf k

theorem append_eval (s o : Store P) :
    append s o = (do let s' ← heapBuild (Store.append s o).1; pure (s', (Store.append s o).2)) := rfl

/-- **`append`**: the union (on a clash the entry of the larger queue stays); the donor is left empty -/
theorem append_safe {s o : Store P} (hs : s.WF) (ho : o.WF) :
    ∃ s' o', append s o = .ok (s', o') ∧ s'.WF ∧ o'.WF ∧ o'.map = #[] ∧ o'.heap = #[] ∧ o'.qp = #[] ∧ o'.size = 0 ∧
      ∀ k, s'.abs k = if o.size > s.size then (o.abs k).or (s.abs k) else (s.abs k).or (o.abs k) := by
  obtain ⟨s', h1, h2, h3, h4⟩ := heapBuild_safe (wf_append_fst hs ho)
  obtain ⟨t1, t2, t3, t4, _⟩ := append_snd_tables hs ho
  refine ⟨s', (Store.append s o).2, by rw [append_eval, h1]; rfl, h2, wf_append_snd hs ho, t1, t2, t3, t4, fun k => ?_⟩
  show IMap.lookup s'.map k = _
  rw [h3]; exact lookup_append' hs ho k

/-- **`From<Vec>`**, for EVERY vector: the FIRST pair of each key is kept -/
theorem fromVec_safe (v : Array (Item × P)) :
    ∃ s', fromVec v = .ok s' ∧ s'.WF ∧ ∀ k, s'.abs k = v.toList.find? (fun e => e.1.key == k) := by
  obtain ⟨s', h1, h2, h3, h4⟩ := heapBuild_safe (wf_fromVec v)
  refine ⟨s', h1, h2, fun k => ?_⟩
  show IMap.lookup s'.map k = _
  rw [h3]; exact lookup_fromVec v k

/-- **`FromIterator`**, for EVERY sequence and every `size_hint` lower bound below the capacity limit: the LAST pair of
each key is kept (with its own item) -/
theorem fromIter_safe (lo : Nat) (xs : Array (Item × P)) (hlo : lo < capLimit) :
    ∃ s', fromIter lo xs = .ok s' ∧ s'.WF ∧ ∀ k, s'.abs k = xs.toList.reverse.find? (fun e => e.1.key == k) := by
  obtain ⟨s', h1, h2, h3, h4⟩ := heapBuild_safe (wf_fromIter xs)
  refine ⟨s', by rw [fromIter_of_lt xs hlo]; exact h1, h2, fun k => ?_⟩
  show IMap.lookup s'.map k = _
  rw [h3]; exact lookup_fromIter xs k

/-- **`From<DoublePriorityQueue>`**: any well-formed store is accepted, the map is taken over as it is -/
theorem ofStore_safe {s : Store P} (h : s.WF) :
    ∃ s', ofStore s = .ok s' ∧ s'.WF ∧ s'.map = s.map ∧ s'.size = s.size := heapBuild_safe h

/-- **`Deserialize`**, total: for EVERY announced length `hint` and EVERY pair sequence (repeated items included) — each
key gets the item of its FIRST pair and the priority of its LAST pair -/
theorem deserialize_safe (hint : Option Nat) (xs : Array (Item × P)) :
    ∃ s', deserialize hint xs = .ok s' ∧ s'.WF ∧ s'.abs = xs.foldl Store.absStep (fun _ => none) ∧
      ∀ k, s'.abs k =
        match xs.toList.reverse.find? (fun e => e.1.key == k) with
        | none => none
        | some b => some (((xs.toList.find? (fun e => e.1.key == k)).map (·.1)).getD b.1, b.2) := by
  obtain ⟨s', h1, h2, h3, h4⟩ := heapBuild_safe (wf_visitSeq xs)
  refine ⟨s', by rw [deserialize_eq]; exact h1, h2, ?_, fun k => ?_⟩
  · show IMap.lookup s'.map = _
    rw [h3]; exact lookup_visitSeq_fold xs
  · show IMap.lookup s'.map k = _
    rw [h3]; exact lookup_visitSeq xs k

/-! ### `extend` -/

/-- the abstract effect of `push` is the abstract `extend` step -/
theorem absPush_eq_absStep (f : Nat → Option (Item × P)) (e : Item × P) : absPush f e.1 e.2 = Store.absStep f e := by
  funext k
  unfold absPush Store.absStep
  by_cases hk : k = e.1.key
  · subst hk; rfl
  · rw [if_neg hk, if_neg hk]

/-- the per-element strategy of `extend` -/
theorem pushAll_safe (l : List (Item × P)) : ∀ {s : Store P}, s.WF →
    ∃ s', pushAll l s = .ok s' ∧ s'.WF ∧ s'.abs = l.foldl Store.absStep s.abs := by
  induction l with
  | nil => intro s h; exact ⟨s, rfl, h, rfl⟩
  | cons e l ih =>
    intro s h
    obtain ⟨s1, h1, h1wf, h1abs, _⟩ := push_safe h e.1 e.2
    obtain ⟨s', h2, h2wf, h2abs⟩ := ih h1wf
    refine ⟨s', ?_, h2wf, ?_⟩
    · simp [pushAll, h1, h2, bind, Except.bind]
    · rw [h2abs, h1abs, absPush_eq_absStep, List.foldl_cons]

theorem extend_eval_rebuild {s : Store P} {lo : Nat} (xs : Array (Item × P)) (hlo : lo < capLimit)
    (hr : (if lo ≠ 0 then betterToRebuild s.size lo else false) = true) :
    extend s lo xs = heapBuild (s.extend xs) := by
  rw [extend_of_lt xs hlo]; simp only [hr, if_true]

theorem extend_eval_pushAll {s : Store P} {lo : Nat} (xs : Array (Item × P)) (hlo : lo < capLimit)
    (hr : (if lo ≠ 0 then betterToRebuild s.size lo else false) = false) :
    extend s lo xs = pushAll xs.toList s := by
  rw [extend_of_lt xs hlo]; simp [hr]

/-- **`Extend::extend`**, for EVERY `size_hint` lower bound `lo` below the capacity limit (in particular every LEGAL one:
`lo ≤ xs.size < capLimit`): both strategies (rebuild, or push one by one) give the same contents, item payloads included -/
theorem extend_safe {s : Store P} (h : s.WF) (lo : Nat) (xs : Array (Item × P)) (hlo : lo < capLimit) :
    ∃ s', extend s lo xs = .ok s' ∧ s'.WF ∧ s'.abs = xs.foldl Store.absStep s.abs := by
  cases hr : (if lo ≠ 0 then betterToRebuild s.size lo else false) with
  | true =>
    obtain ⟨s', h1, h2, h3, _⟩ := heapBuild_safe (wf_extend h xs)
    refine ⟨s', by rw [extend_eval_rebuild xs hlo hr]; exact h1, h2, ?_⟩
    show IMap.lookup s'.map = _
    rw [h3]; exact lookup_extend s xs
  | false =>
    obtain ⟨s', h1, h2, h3⟩ := pushAll_safe xs.toList h
    exact ⟨s', by rw [extend_eval_pushAll xs hlo hr]; exact h1, h2, by rw [h3, Array.foldl_toList]⟩

/-! ### `into_sorted_vec` / `into_sorted_iter`: pop until empty -/

/-- membership after the key `k0` has been removed -/
theorem mem_of_abs_remove {s s' : Store P} (h : s.WF) (h' : s'.WF) {k0 : Nat} (habs : s'.abs = absRemove s.abs k0)
    (e : Item × P) : s'.Mem e ↔ e.1.key ≠ k0 ∧ s.Mem e := by
  rw [mem_iff_lookup h', mem_iff_lookup h]
  have : IMap.lookup s'.map e.1.key = absRemove s.abs k0 e.1.key := congrFun habs e.1.key
  rw [this]; unfold absRemove
  by_cases hk : e.1.key = k0 <;> simp [hk]

theorem size_zero_not_mem {s : Store P} (h : s.WF) (h0 : s.size = 0) (e : Item × P) : ¬ s.Mem e := by
  rintro ⟨i, hi⟩
  have := lt_size_of_getElem? hi
  rw [h.map_size, h0] at this; omega

theorem drainSorted_nil {s : Store P} (fuel : Nat) (h0 : s.size = 0) : drainSorted (fuel + 1) s = .ok [] := by
  simp [drainSorted, pop_zero h0, bind, Except.bind, pure, Except.pure]

theorem drainSorted_cons {s s' : Store P} {e : Item × P} {fuel : Nat} {rest : List (Item × P)}
    (hp : pop s = .ok (s', some e)) (hr : drainSorted fuel s' = .ok rest) :
    drainSorted (fuel + 1) s = .ok (e :: rest) := by
  simp [drainSorted, hp, hr, bind, Except.bind, pure, Except.pure]

/-- popping until empty never faults with fuel `size + 1`; it yields every stored entry exactly once -/
theorem drainSorted_safe (fuel : Nat) : ∀ (s : Store P), s.WF → s.size + 1 ≤ fuel →
    ∃ l, drainSorted fuel s = .ok l ∧ l.length = s.size ∧ (∀ e, e ∈ l ↔ s.Mem e) ∧ (l.map (·.1.key)).Nodup := by
  induction fuel with
  | zero => intro s _ hf; omega
  | succ fuel ih =>
    intro s h hf
    by_cases h0 : s.size = 0
    · refine ⟨[], drainSorted_nil fuel h0, by simp [h0], fun e => ?_, by simp⟩
      simp [size_zero_not_mem h h0 e]
    · have hpos : 0 < s.size := by omega
      obtain ⟨s', e0, hpop, hpeek, hwf', habs, hsz⟩ := (pop_safe h).2 hpos
      obtain ⟨e0', hp', _, hmem0, _⟩ := (peek_safe h).2 hpos
      rw [hpeek] at hp'; cases hp'
      obtain ⟨rest, hrest, hlen, hmem, hnd⟩ := ih s' hwf' (by omega)
      have hm' := mem_of_abs_remove h hwf' habs
      refine ⟨e0 :: rest, drainSorted_cons hpop hrest, by simp [hlen, hsz]; omega, fun e => ?_, ?_⟩
      · rw [List.mem_cons, hmem, hm']
        constructor
        · rintro (rfl | ⟨_, hm⟩)
          · exact hmem0
          · exact hm
        · intro hm
          by_cases hk : e.1.key = e0.1.key
          · left
            have h1 := (mem_iff_lookup h).1 hm
            have h2 := (mem_iff_lookup h).1 hmem0
            rw [hk, h2] at h1; exact (Option.some.inj h1).symm
          · exact .inr ⟨hk, hm⟩
      · rw [List.map_cons, List.nodup_cons]
        refine ⟨fun hin => ?_, hnd⟩
        obtain ⟨e, he, hk⟩ := List.mem_map.1 hin
        exact ((hm' e).1 ((hmem e).1 he)).1 hk

/-- **`into_sorted_vec`** (no order hypothesis): never faults, yields every stored entry exactly once -/
theorem intoSortedVec_safe {s : Store P} (h : s.WF) :
    ∃ l, intoSortedVec s = .ok l ∧ l.length = s.size ∧ (∀ e, e ∈ l ↔ s.Mem e) ∧ (l.map (·.1.key)).Nodup :=
  drainSorted_safe (s.size + 1) s h (Nat.le_refl _)

/-! ## Non-vacuity: a store that is well-formed but NOT heap-ordered, and the operations on it -/
section Examples

/-- five entries; the root (position 0 → slot 1) holds the SMALLEST priority: well-formed, not a heap -/
private def exW : Store Nat :=
  { map := #[(⟨1, 10⟩, 5), (⟨2, 20⟩, 0), (⟨3, 30⟩, 7), (⟨4, 40⟩, 1), (⟨5, 50⟩, 3)],
    heap := #[1, 0, 2, 3, 4], qp := #[1, 0, 2, 3, 4], size := 5 }

private def exO : Store Nat :=
  { map := #[(⟨1, 11⟩, 8), (⟨9, 90⟩, 2)], heap := #[1, 0], qp := #[1, 0], size := 2 }

/-- result is `.ok`, the store is well-formed, has the given size, and the returned value is `x` -/
private def okWF {α : Type} (r : R (Store Nat × α)) (size : Nat) (x : α) : Prop :=
  match r with
  | .ok (s', y) => s'.WF ∧ s'.size = size ∧ y = x
  | .error _ => False

private instance {α : Type} [DecidableEq α] (r : R (Store Nat × α)) (size : Nat) (x : α) :
    Decidable (okWF r size x) := by
  unfold okWF; split <;> infer_instance

private def okWF1 (r : R (Store Nat)) (size : Nat) : Prop :=
  match r with
  | .ok s' => s'.WF ∧ s'.size = size
  | .error _ => False

private instance (r : R (Store Nat)) (size : Nat) : Decidable (okWF1 r size) := by
  unfold okWF1; split <;> infer_instance

private def okR {α : Type} (r : R α) (q : α → Prop) : Prop :=
  match r with
  | .ok x => q x
  | .error _ => False

private instance {α : Type} (r : R α) (q : α → Prop) [DecidablePred q] : Decidable (okR r q) := by
  unfold okR; split <;> infer_instance

private def isErr {α : Type} (r : R α) (f : Fault) : Prop :=
  match r with
  | .ok _ => False
  | .error g => g = f

private instance {α : Type} (r : R α) (f : Fault) : Decidable (isErr r f) := by
  unfold isErr; split <;> infer_instance

-- key-preserving callbacks
private def fYes : Item → Nat → Bool × Item × Nat := fun it p => (true, ⟨it.key, 99⟩, p + 1)
private def fNo : Item → Nat → Bool × Item × Nat := fun it p => (false, ⟨it.key, 99⟩, p + 100)
private def fDrop : Item → Nat → Bool × Item × Nat := fun it p => (p != 7, ⟨it.key, it.payload + 1⟩, 10 - p)
example : ∀ it p, (fYes it p).2.1.key = it.key := fun _ _ => rfl
example : ∀ it p, (fNo it p).2.1.key = it.key := fun _ _ => rfl
example : ∀ it p, (fDrop it p).2.1.key = it.key := fun _ _ => rfl
example : ∀ it : Item, ((fun it => ⟨it.key, 7⟩ : Item → Item) it).key = it.key := fun _ => rfl

-- the hypotheses of every `*_safe` theorem: `WF` without the order
example : exW.WF ∧ ¬ exW.MaxHeap ∧ 0 < exW.size := by decide
example : exO.WF := by decide
-- `pickLargest_safe` / `heapify_safe` / `upHeapify_safe` / `heapBuild_safe`
example : okWF (pickLargest exW 0) 5 2 := by decide +kernel
example : okWF1 (heapify exW 0) 5 := by decide +kernel
example : okWF1 (upHeapify exW 3) 5 := by decide +kernel
example : okWF1 (heapBuild exW) 5 := by decide +kernel
-- `heapify_oob`: the precondition `i < size` matters
example : exW.WF ∧ 1 < exW.size ∧ exW.size ≤ 7 := by decide
example : isErr (heapify exW 7) (.oob 105) := by decide +kernel
-- `bubbleUp_tables`: `heap[4] = 4`
example : exW.TWF 5 ∧ exW.heap[4]? = some 4 := by decide
example : okWF (bubbleUp exW 4 4) 5 4 := by decide +kernel
-- `peek_safe`, `peekMutWrite_safe`: the root entry, although it is not a maximum
example : peek exW = some (⟨2, 20⟩, 0) := by decide +kernel
example : okWF (peekMutWrite exW (fun it => ⟨it.key, 7⟩)) 5 (some (⟨2, 20⟩, 0)) := by decide +kernel
-- `pop_safe`, `popIf_safe`
example : okWF (pop exW) 4 (some (⟨2, 20⟩, 0)) := by decide +kernel
example : okWF (popIf exW fYes) 4 (some (⟨2, 99⟩, 1)) := by decide +kernel
example : okWF (popIf exW fNo) 5 none := by decide +kernel
-- `push_safe`: new key, stored key
example : okWF (push exW ⟨6, 60⟩ 8) 6 none := by decide +kernel
example : okWF (push exW ⟨4, 0⟩ 8) 5 (some 1) := by decide +kernel
-- `pushIncrease_safe` / `pushDecrease_safe`: all three cases
example : exW.abs 6 = none ∧ exW.abs 4 = some (⟨4, 40⟩, 1) := by decide +kernel
example : okWF (pushIncrease exW ⟨6, 60⟩ 8) 6 none := by decide +kernel
example : okWF (pushIncrease exW ⟨4, 0⟩ 8) 5 (some 1) := by decide +kernel
example : okWF (pushIncrease exW ⟨4, 0⟩ 1) 5 (some 1) := by decide +kernel
example : okWF (pushDecrease exW ⟨4, 0⟩ 0) 5 (some 1) := by decide +kernel
example : okWF (pushDecrease exW ⟨4, 0⟩ 8) 5 (some 8) := by decide +kernel
-- `changePriority_safe`, `changePriorityBy_safe`, `remove_safe`: stored and absent key
example : okWF (changePriority exW 4 100) 5 (some 1) := by decide +kernel
example : okWF (changePriority exW 6 100) 5 none := by decide +kernel
example : okWF (changePriorityBy exW 4 (· + 50)) 5 true := by decide +kernel
example : okWF (changePriorityBy exW 6 (· + 50)) 5 false := by decide +kernel
example : okWF (remove exW 1) 4 (some (⟨1, 10⟩, 5)) := by decide +kernel
example : okWF (remove exW 5) 4 (some (⟨5, 50⟩, 3)) := by decide +kernel
example : okWF (remove exW 6) 5 none := by decide +kernel
-- bulk operations
example : okWF1 (retainMut exW fDrop) 4 := by decide +kernel
example : okR (append exW exO) (fun r => r.1.WF ∧ r.1.size = 6 ∧ r.2.WF ∧ r.2.size = 0 ∧
    r.1.abs 1 = some (⟨1, 10⟩, 5) ∧ r.1.abs 9 = some (⟨9, 90⟩, 2)) := by decide +kernel
example : okWF1 (fromVec #[(⟨1, 0⟩, 5), (⟨1, 9⟩, 7), (⟨2, 0⟩, 1)]) 2 := by decide +kernel
example : okWF1 (fromIter 3 #[(⟨1, 0⟩, 5), (⟨1, 9⟩, 7), (⟨2, 0⟩, 1)]) 2 := by decide +kernel
example : okWF1 (deserialize (some (2 ^ 64 - 1)) #[(⟨1, 0⟩, 5), (⟨1, 9⟩, 7), (⟨2, 0⟩, 1)]) 2 := by decide +kernel
example : okWF1 (ofStore exW) 5 := by decide +kernel
example : okWF1 (pushAll [(⟨4, 0⟩, 9), (⟨7, 0⟩, 2)] exW) 6 := by decide +kernel
example : okWF1 (extend exW 0 #[(⟨4, 0⟩, 9), (⟨7, 0⟩, 2)]) 6 := by decide +kernel
-- `into_sorted_vec` on the unordered store: no fault, every entry once (but of course not sorted)
example : okR (intoSortedVec exW) (fun l => l.length = 5 ∧ l.map (·.1.key) = [2, 3, 1, 5, 4]) := by decide +kernel

end Examples

end MaxQ
end PQ
