import PQ.Props.C02
import PQ.Lemmas.StatefulLemmas
/-!
# C02, history forms for `pop_min_if` / `pop_max_if` / `peek_min_mut` / `peek_max_mut` (names carry the prefix `pih_`)

`C01_next_after_history` states for a `PriorityQueue`, after any history: the next `pop` / `pop_if f` / `peek_mut` address
exactly what `peek` reports.  `C02_next_after_history` has that for `pop_min` / `pop_max` only.  This file adds the missing
operations for the `DoublePriorityQueue`: after EVERY leak-free history of legal operations — from any queue satisfying its
invariant, in particular from `new()` of either kind — that ends in a `DoublePriorityQueue`,

* `pop_min_if f` / `pop_max_if f` apply their predicate to exactly the entry `peek_min` / `peek_max` reports (a stored
  minimum / maximum): the answer is what `f` makes of THAT entry (`Some` of the possibly rewritten entry if `f` says yes,
  `None` if it says no or if the queue is empty — then `f` is not called), and the contents change accordingly;
* `peek_min_mut` / `peek_max_mut` hand out exactly that entry; a key-preserving write changes only its item;
* the invariant continues to hold in every case;
* (`pih_calls_after_history`) for predicates WITH state (`FnMut`): the predicate is called exactly once, on that entry, and
  never on an empty queue.
-/
namespace PQ
variable {P : Type} [LT P] [DecidableLT P] [LE P] [Std.IsLinearPreorder P] [Std.LawfulOrderLT P]

/-- what `pop_*_if f` answers when the corresponding peek reports `r` -/
def pih_answer (f : Item → P → Bool × Item × P) (r : Option (Item × P)) : Option (Item × P) :=
  r.bind fun e => if (f e.1 e.2).1 = true then some ((f e.1 e.2).2.1, (f e.1 e.2).2.2) else none

/-- the contents after `pop_*_if f` when the corresponding peek reports `r` -/
def pih_absPopIf (f : Item → P → Bool × Item × P) (r : Option (Item × P)) (a : Nat → Option (Item × P)) :
    Nat → Option (Item × P) :=
  match r with
  | none => a
  | some e => if (f e.1 e.2).1 = true then absRemove a e.1.key else absSet a e.1.key ((f e.1 e.2).2.1, (f e.1 e.2).2.2)

/-- the contents after a write `w` through `peek_*_mut` when the corresponding peek reports `r` -/
def pih_absPeekMut (w : Item → Item) (r : Option (Item × P)) (a : Nat → Option (Item × P)) : Nat → Option (Item × P) :=
  match r with
  | none => a
  | some e => absSet a e.1.key (w e.1, e.2)

/-- **C02 for one state**: on a `DoublePriorityQueue` satisfying its invariant the two peeks report `rmin` / `rmax`
(`None` exactly on the empty queue, otherwise a stored minimum / maximum), and the four operations below address exactly
these entries -/
theorem pih_next {s : Store P} (h : DQ.Inv s) :
    ∃ rmin rmax k, DQ.peekMin s = .ok rmin ∧ DQ.peekMax s = .ok (s.tick k, rmax) ∧ k ≤ 1 ∧
      (rmin = none ↔ s.size = 0) ∧ (rmax = none ↔ s.size = 0) ∧
      (∀ e, rmin = some e → s.IsMin e) ∧ (∀ e, rmax = some e → s.IsMax e) ∧
      (∀ f : Item → P → Bool × Item × P, (∀ it p, (f it p).2.1.key = it.key) →
        ∃ s', DQ.popMinIf s f = .ok (s', pih_answer f rmin) ∧ DQ.Inv s' ∧ s'.abs = pih_absPopIf f rmin s.abs) ∧
      (∀ f : Item → P → Bool × Item × P, (∀ it p, (f it p).2.1.key = it.key) →
        ∃ s', DQ.popMaxIf s f = .ok (s', pih_answer f rmax) ∧ DQ.Inv s' ∧ s'.abs = pih_absPopIf f rmax s.abs) ∧
      (∀ w : Item → Item, (∀ it, (w it).key = it.key) →
        ∃ s', DQ.peekMinMutWrite s w = .ok (s', rmin) ∧ DQ.Inv s' ∧ s'.size = s.size ∧
          s'.abs = pih_absPeekMut w rmin s.abs) ∧
      (∀ w : Item → Item, (∀ it, (w it).key = it.key) →
        ∃ s', DQ.peekMaxMutWrite s w = .ok (s', rmax) ∧ DQ.Inv s' ∧ s'.size = s.size ∧
          s'.abs = pih_absPeekMut w rmax s.abs) := by
  rcases Nat.eq_zero_or_pos s.size with hz | hn
  · refine ⟨none, none, 0, DQ.peekMin_empty hz, DQ.peekMax_empty hz, Nat.zero_le _,
      ⟨fun _ => hz, fun _ => rfl⟩, ⟨fun _ => hz, fun _ => rfl⟩, fun e he => (by cases he), fun e he => (by cases he),
      fun f hf => ?_, fun f hf => ?_, fun w hw => ?_, fun w hw => ?_⟩
    · exact ⟨s, ((C02_popMinIf_sees_peekMin h f hf).1 hz).2, h, rfl⟩
    · exact ⟨s, ((C02_popMaxIf_sees_peekMax h f hf).1 hz).2, h, rfl⟩
    · obtain ⟨s', r, hrun, hpk, hinv, hsz, hnone, _⟩ := C02_peekMinMut_eq h w hw
      rw [DQ.peekMin_empty hz] at hpk; cases hpk
      exact ⟨s', hrun, hinv, hsz, by rw [hnone rfl]; rfl⟩
    · obtain ⟨s', r, k, hrun, hpk, _, hinv, hsz, hnone, _⟩ := C02_peekMaxMut_eq h w hw
      rw [DQ.peekMax_empty hz] at hpk
      simp only [Except.ok.injEq, Prod.mk.injEq] at hpk
      obtain ⟨_, rfl⟩ := hpk
      exact ⟨s', hrun, hinv, hsz, by rw [hnone rfl]; rfl⟩
  · obtain ⟨emin, hpmin, hmin⟩ := (DQ.peekMin_inv h).2 hn
    obtain ⟨k, emax, hpmax, hk, hmax⟩ := (DQ.peekMax_inv h).2 hn
    refine ⟨some emin, some emax, k, hpmin, hpmax, hk, ⟨fun hc => (by cases hc), fun hc => (by omega)⟩,
      ⟨fun hc => (by cases hc), fun hc => (by omega)⟩, fun e he => (by cases he; exact hmin),
      fun e he => (by cases he; exact hmax), fun f hf => ?_, fun f hf => ?_, fun w hw => ?_, fun w hw => ?_⟩
    · obtain ⟨e, hpk, _, s', hrun, hinv, habs, _⟩ := (C02_popMinIf_sees_peekMin h f hf).2 hn
      rw [hpmin] at hpk; cases hpk
      exact ⟨s', hrun, hinv, habs⟩
    · obtain ⟨k', e, hpk, _, _, s', hrun, hinv, habs, _⟩ := (C02_popMaxIf_sees_peekMax h f hf).2 hn
      rw [hpmax] at hpk
      simp only [Except.ok.injEq, Prod.mk.injEq, Option.some.injEq] at hpk
      obtain ⟨_, rfl⟩ := hpk
      exact ⟨s', hrun, hinv, habs⟩
    · obtain ⟨s', r, hrun, hpk, hinv, hsz, _, hsome⟩ := C02_peekMinMut_eq h w hw
      rw [hpmin] at hpk; cases hpk
      exact ⟨s', hrun, hinv, hsz, (hsome emin rfl).2⟩
    · obtain ⟨s', r, k', hrun, hpk, _, hinv, hsz, _, hsome⟩ := C02_peekMaxMut_eq h w hw
      rw [hpmax] at hpk
      simp only [Except.ok.injEq, Prod.mk.injEq] at hpk
      obtain ⟨_, rfl⟩ := hpk
      exact ⟨s', hrun, hinv, hsz, (hsome emax rfl).2⟩

/-- **C02, history form for the conditional pops and the `peek_*_mut`.**  After any history of legal operations without a
leaked `iter_mut` guard, started from a queue of either kind satisfying its invariant and ending in a `DoublePriorityQueue`
`q'`: `peek_min` / `peek_max` report `rmin` / `rmax` (stored minimum / maximum; `None` iff empty), and as the NEXT operation

* `pop_min_if f` answers what `f` makes of `rmin` (`pih_answer`: `None` on the empty queue — `f` not consulted —, `Some` of
  the possibly rewritten entry if `f` accepts it, `None` if `f` refuses it), the contents become `pih_absPopIf f rmin` of the
  old contents (exactly that key removed, respectively exactly that entry rewritten);
* `pop_max_if f` likewise with `rmax`;
* `peek_min_mut` / `peek_max_mut` hand out `rmin` / `rmax`, and a write `w` to the item changes exactly that entry;

the invariant holds afterwards in each case. -/
theorem pih_next_after_history (ops : List (Op P)) {q : Q P} (hq : QInv q) (hl : ∀ op ∈ ops, op.Legal)
    (hn : ∀ op ∈ ops, op.isLeak = false) :
    ∃ q' outs, run q ops = .ok (q', outs) ∧
      (q'.kind = .dpq →
        ∃ rmin rmax k, DQ.peekMin q'.s = .ok rmin ∧ DQ.peekMax q'.s = .ok (q'.s.tick k, rmax) ∧ k ≤ 1 ∧
          (rmin = none ↔ q'.s.size = 0) ∧ (rmax = none ↔ q'.s.size = 0) ∧
          (∀ e, rmin = some e → q'.s.IsMin e) ∧ (∀ e, rmax = some e → q'.s.IsMax e) ∧
          (∀ f : Item → P → Bool × Item × P, (∀ it p, (f it p).2.1.key = it.key) →
            ∃ q'', step q' (.popFrontIf f) = .ok (q'', .entry (pih_answer f rmin)) ∧ QInv q'' ∧ q''.kind = .dpq ∧
              q''.s.abs = pih_absPopIf f rmin q'.s.abs) ∧
          (∀ f : Item → P → Bool × Item × P, (∀ it p, (f it p).2.1.key = it.key) →
            ∃ q'', step q' (.popBackIf f) = .ok (q'', .entry (pih_answer f rmax)) ∧ QInv q'' ∧ q''.kind = .dpq ∧
              q''.s.abs = pih_absPopIf f rmax q'.s.abs) ∧
          (∀ w : Item → Item, (∀ it, (w it).key = it.key) →
            ∃ q'', step q' (.peekFrontMut w) = .ok (q'', .entry rmin) ∧ QInv q'' ∧ q''.kind = .dpq ∧
              q''.s.abs = pih_absPeekMut w rmin q'.s.abs) ∧
          (∀ w : Item → Item, (∀ it, (w it).key = it.key) →
            ∃ q'', step q' (.peekBackMut w) = .ok (q'', .entry rmax) ∧ QInv q'' ∧ q''.kind = .dpq ∧
              q''.s.abs = pih_absPeekMut w rmax q'.s.abs)) := by
  obtain ⟨q', outs, hrun, _, _, hd⟩ := C02_reach ops hq hl hn
  refine ⟨q', outs, hrun, fun hk => ?_⟩
  have h := hd hk
  obtain ⟨k, s⟩ := q'
  cases hk
  obtain ⟨rmin, rmax, k, h1, h2, h3, h4, h5, h6, h7, hminIf, hmaxIf, hminMut, hmaxMut⟩ := pih_next h
  refine ⟨rmin, rmax, k, h1, h2, h3, h4, h5, h6, h7, fun f hf => ?_, fun f hf => ?_, fun w hw => ?_, fun w hw => ?_⟩
  · obtain ⟨s', he, hinv, habs⟩ := hminIf f hf
    simp only [step, he, bind, Except.bind, pure, Except.pure]
    exact ⟨_, rfl, hinv, rfl, habs⟩
  · obtain ⟨s', he, hinv, habs⟩ := hmaxIf f hf
    simp only [step, he, bind, Except.bind, pure, Except.pure]
    exact ⟨_, rfl, hinv, rfl, habs⟩
  · obtain ⟨s', he, hinv, _, habs⟩ := hminMut w hw
    simp only [step, he, bind, Except.bind, pure, Except.pure]
    exact ⟨_, rfl, hinv, rfl, habs⟩
  · obtain ⟨s', he, hinv, _, habs⟩ := hmaxMut w hw
    simp only [step, he, bind, Except.bind, pure, Except.pure]
    exact ⟨_, rfl, hinv, rfl, habs⟩

/-- **… in particular after every leak-free legal history from `new()`** of either kind (a history may convert between
the kinds; the statement speaks about those ending in a `DoublePriorityQueue`) -/
theorem pih_next_after_history_new (ops : List (Op P)) (kind : Kind) (hl : ∀ op ∈ ops, op.Legal)
    (hn : ∀ op ∈ ops, op.isLeak = false) :
    ∃ q' outs, run (Q.new kind) ops = .ok (q', outs) ∧
      (q'.kind = .dpq →
        ∃ rmin rmax k, DQ.peekMin q'.s = .ok rmin ∧ DQ.peekMax q'.s = .ok (q'.s.tick k, rmax) ∧ k ≤ 1 ∧
          (rmin = none ↔ q'.s.size = 0) ∧ (rmax = none ↔ q'.s.size = 0) ∧
          (∀ e, rmin = some e → q'.s.IsMin e) ∧ (∀ e, rmax = some e → q'.s.IsMax e) ∧
          (∀ f : Item → P → Bool × Item × P, (∀ it p, (f it p).2.1.key = it.key) →
            ∃ q'', step q' (.popFrontIf f) = .ok (q'', .entry (pih_answer f rmin)) ∧ QInv q'' ∧ q''.kind = .dpq ∧
              q''.s.abs = pih_absPopIf f rmin q'.s.abs) ∧
          (∀ f : Item → P → Bool × Item × P, (∀ it p, (f it p).2.1.key = it.key) →
            ∃ q'', step q' (.popBackIf f) = .ok (q'', .entry (pih_answer f rmax)) ∧ QInv q'' ∧ q''.kind = .dpq ∧
              q''.s.abs = pih_absPopIf f rmax q'.s.abs) ∧
          (∀ w : Item → Item, (∀ it, (w it).key = it.key) →
            ∃ q'', step q' (.peekFrontMut w) = .ok (q'', .entry rmin) ∧ QInv q'' ∧ q''.kind = .dpq ∧
              q''.s.abs = pih_absPeekMut w rmin q'.s.abs) ∧
          (∀ w : Item → Item, (∀ it, (w it).key = it.key) →
            ∃ q'', step q' (.peekBackMut w) = .ok (q'', .entry rmax) ∧ QInv q'' ∧ q''.kind = .dpq ∧
              q''.s.abs = pih_absPeekMut w rmax q'.s.abs)) :=
  pih_next_after_history ops (hist_new_inv kind) hl hn

/-- **the predicate is consulted exactly once, on the peeked entry** (`FnMut` predicates, modelled with an explicit
state): after any such history ending in a `DoublePriorityQueue` `q'`, whenever `pop_min_if` / `pop_max_if` with a stateful
predicate `f` started in state `st` returns, the predicate's final state is `st` itself if the queue was empty (never
called) and otherwise the state after ONE call, on the entry `peek_min` / `peek_max` reports -/
theorem pih_calls_after_history {σ : Type} (ops : List (Op P)) {q : Q P} (hq : QInv q) (hl : ∀ op ∈ ops, op.Legal)
    (hn : ∀ op ∈ ops, op.isLeak = false) :
    ∃ q' outs, run q ops = .ok (q', outs) ∧
      (q'.kind = .dpq →
        ∃ rmin rmax k, DQ.peekMin q'.s = .ok rmin ∧ DQ.peekMax q'.s = .ok (q'.s.tick k, rmax) ∧
          (∀ (f : PredS σ P) st st' s' o, DQ.popMinIfS q'.s f st = .ok (st', s', o) →
            st' = (match rmin with | none => st | some e => (f st e.1 e.2).1)) ∧
          (∀ (f : PredS σ P) st st' s' o, DQ.popMaxIfS q'.s f st = .ok (st', s', o) →
            st' = (match rmax with | none => st | some e => (f st e.1 e.2).1))) := by
  obtain ⟨q', outs, hrun, hd⟩ := pih_next_after_history ops hq hl hn
  refine ⟨q', outs, hrun, fun hk => ?_⟩
  obtain ⟨rmin, rmax, k, h1, h2, _, h4, h5, _⟩ := hd hk
  refine ⟨rmin, rmax, k, h1, h2, fun f st st' s' o hr => ?_, fun f st st' s' o hr => ?_⟩
  · obtain ⟨c0, c1⟩ := DQ.popMinIfS_calls hr
    rcases Nat.eq_zero_or_pos q'.s.size with hz | hpos
    · rw [h4.2 hz]; exact (c0 hz).1
    · obtain ⟨e, hpk, hst⟩ := c1 hpos
      rw [h1] at hpk; cases hpk
      exact hst
  · obtain ⟨c0, c1⟩ := DQ.popMaxIfS_calls hr
    rcases Nat.eq_zero_or_pos q'.s.size with hz | hpos
    · rw [h5.2 hz]; exact (c0 hz).1
    · obtain ⟨s1, e, hpk, hst⟩ := c1 hpos
      rw [h2] at hpk
      simp only [Except.ok.injEq, Prod.mk.injEq] at hpk
      rw [hpk.2]
      exact hst

/-! ## Non-vacuity: a concrete history (ties, a removal, a rebuild, an extraction, two conversions) -/
section Examples

private def exOps : List (Op Nat) :=
  [.push ⟨1, 0⟩ 7, .push ⟨2, 0⟩ 7, .push ⟨3, 0⟩ 2, .push ⟨4, 5⟩ 2, .changePriority 3 9, .pushDecrease ⟨1, 0⟩ 3,
   .remove 2, .push ⟨5, 0⟩ 9, .push ⟨6, 0⟩ 4, .push ⟨7, 0⟩ 5, .retainMut (fun it p => (p != 4, it, p)), .popBack,
   .iterMut false [(.nextBack, ⟨none, some 1⟩), (.next, ⟨some 8, none⟩)], .convert, .convert]

/-- accepts, and marks what it saw (payload + 100, priority + 1000) -/
private def fYes : Item → Nat → Bool × Item × Nat := fun it p => (true, ⟨it.key, it.payload + 100⟩, p + 1000)
/-- refuses, and marks what it saw -/
private def fNo : Item → Nat → Bool × Item × Nat := fun it p => (false, ⟨it.key, it.payload + 100⟩, p + 1000)

example : (∀ op ∈ exOps, op.Legal) ∧ (∀ op ∈ exOps, op.isLeak = false) := by
  constructor <;> intro op h <;> simp only [exOps, List.mem_cons, List.not_mem_nil, or_false] at h <;>
    rcases h with h | h | h | h | h | h | h | h | h | h | h | h | h | h | h <;> subst h <;>
    first | exact trivial | rfl | (intro _; rfl) | (intro _ _; rfl)

example : (∀ it p, (fYes it p).2.1.key = it.key) ∧ (∀ it p, (fNo it p).2.1.key = it.key) := ⟨fun _ _ => rfl, fun _ _ => rfl⟩

/-- the history ends in a four-element `DoublePriorityQueue`; the peeks report key 4 (priority 2) and key 5 (priority 9);
`pop_min_if` / `pop_max_if` show exactly these to an accepting predicate (the marks prove which entry it saw) and return
them; a refusing predicate gets `None` and the marked entry stays; `peek_*_mut` hand out the same entries -/
example : hist_okR (run (Q.new .dpq) exOps) (fun r => r.1.kind = .dpq ∧ r.1.s.size = 4 ∧
    (DQ.peekMin r.1.s).toOption = some (some (⟨4, 5⟩, 2)) ∧
    (DQ.peekMax r.1.s).toOption.map (·.2) = some (some (⟨5, 1⟩, 9))) := by decide +kernel
example : hist_okR (run (Q.new .dpq) exOps) (fun r =>
    hist_okR (step r.1 (.popFrontIf fYes)) (fun r' => hist_outEntry r'.2 = some (some (⟨4, 105⟩, 1002)) ∧ r'.1.s.size = 3) ∧
    hist_okR (step r.1 (.popBackIf fYes)) (fun r' => hist_outEntry r'.2 = some (some (⟨5, 101⟩, 1009)) ∧ r'.1.s.size = 3)) := by
  decide +kernel
example : hist_okR (run (Q.new .dpq) exOps) (fun r =>
    hist_okR (step r.1 (.popFrontIf fNo)) (fun r' => hist_outEntry r'.2 = some none ∧ r'.1.s.size = 4 ∧
      r'.1.s.abs 4 = some (⟨4, 105⟩, 1002))) := by decide +kernel
example : hist_okR (run (Q.new .dpq) exOps) (fun r =>
    hist_okR (step r.1 (.popBackIf fNo)) (fun r' => hist_outEntry r'.2 = some none ∧ r'.1.s.size = 4 ∧
      r'.1.s.abs 5 = some (⟨5, 101⟩, 1009))) := by decide +kernel
example : hist_okR (run (Q.new .dpq) exOps) (fun r =>
    hist_okR (step r.1 (.peekFrontMut fun it => ⟨it.key, 77⟩)) (fun r' => hist_outEntry r'.2 = some (some (⟨4, 5⟩, 2)) ∧
      r'.1.s.abs 4 = some (⟨4, 77⟩, 2))) := by decide +kernel
example : hist_okR (run (Q.new .dpq) exOps) (fun r =>
    hist_okR (step r.1 (.peekBackMut fun it => ⟨it.key, 78⟩)) (fun r' => hist_outEntry r'.2 = some (some (⟨5, 1⟩, 9)) ∧
      r'.1.s.abs 5 = some (⟨5, 78⟩, 9))) := by decide +kernel

/-- a predicate that logs every call (`FnMut`): after the history its log holds exactly the peeked entry, once -/
private def fLog : PredS (List (Item × Nat)) Nat := fun log it p => (log ++ [(it, p)], (p < 5, it, p))

example : hist_okR (run (Q.new .dpq) exOps) (fun r =>
    hist_okR (DQ.popMinIfS r.1.s fLog []) (fun r' => r'.1 = [(⟨4, 5⟩, 2)] ∧ r'.2.2 = some (⟨4, 5⟩, 2)) ∧
    hist_okR (DQ.popMaxIfS r.1.s fLog []) (fun r' => r'.1 = [(⟨5, 1⟩, 9)] ∧ r'.2.2 = none)) := by decide +kernel

/-- on the empty queue reached by a history the predicate is not consulted -/
example : hist_okR (run (Q.new .dpq) [.push ⟨1, 0⟩ 7, .popFront]) (fun r => r.1.s.size = 0 ∧
    hist_okR (step r.1 (.popFrontIf fYes)) (fun r' => hist_outEntry r'.2 = some none) ∧
    hist_okR (step r.1 (.popBackIf fYes)) (fun r' => hist_outEntry r'.2 = some none)) := by decide +kernel

end Examples

end PQ

#print axioms PQ.pih_next
#print axioms PQ.pih_next_after_history
#print axioms PQ.pih_next_after_history_new
#print axioms PQ.pih_calls_after_history
