import PQ.Lemmas.Contents
/-!
# The stored item value, at full strength: a state-dependent "does not rewrite the item of `k`"

`cont_preservesItem k op` (file `Contents.lean`) is a property of the operation alone and therefore forbids more
histories than property C12 does:

* for `iter_mut` it demands a program without ANY payload write, although a payload write through a reference yielded
  for ANOTHER element does not touch the item stored for `k` (and a priority write to `k` itself does not either);
* for `append(other)` it demands that `other` does not hold `k`, although the receiver's entry — item included — is kept
  on a clash unless `other` is strictly longer (only then are the two stores swapped and `other`'s item wins).

Which slot holds `k` and whether `other` is longer than the receiver are facts about the STATE: the relaxed predicate
`c12m_preservesItem k q op` depends on the current queue `q`.

* `c12m_iterOuts q prog` — what the calls of the program return on `q` (the iterator machine never reads the entries);
  `c12m_iterMutKeeps k q prog` — every write of the program that goes through a reference yielded for a slot holding
  key `k` leaves the item of that entry as it is (it may change its priority); writes to all other slots are free.
* `c12m_preservesItem k q op` — `iter_mut`: `c12m_iterMutKeeps`; `append o`: `o.size ≤ q.s.size ∨ o.abs k = none`;
  every other operation: `cont_preservesItem k op`.  `c12m_preservesItem_of_cont`: it is implied by the old predicate.
* `c12m_step_item_persists` — one step; `c12m_preservedThroughout k q ops` — the predicate along the run (recursive);
  `c12m_run_item_persists` — histories.
* `c12m_preservesItemB`, `c12m_preservedThroughoutB`, `c12m_presentThroughoutB` — Boolean checkers (sound, not complete:
  closures are not inspected) that let `decide` establish the hypotheses on concrete histories.
-/
set_option linter.unusedSimpArgs false
set_option linter.unusedSectionVars false
set_option linter.unusedVariables false
namespace PQ
open Store

section Defs
variable {P : Type}

/-- the slot a call of the iterator yielded, if it yielded one -/
def c12m_slotOf : IOut → Option Nat
  | .slot (some i) => some i
  | _ => none

theorem c12m_slotOf_eq_some {o : IOut} {j : Nat} : c12m_slotOf o = some j ↔ o = .slot (some j) := by
  cases o with
  | slot oi =>
    cases oi with
    | none => simp [c12m_slotOf]
    | some i => simp [c12m_slotOf]
  | len k => simp [c12m_slotOf]
  | hint lo hi => simp [c12m_slotOf]
  | unsupported => simp [c12m_slotOf]

/-- what the calls of an `iter_mut` program return on the queue `q` (one output per call; `[]` only if the iterator
machine faults, which it never does from its initial state: `cont_iterMutRun`) -/
def c12m_iterOuts (q : Q P) (prog : List (ICall × IMWrite P)) : List IOut :=
  match iterMutRun q.kind q.s.map.size prog PIterMut.new (DIterMut.new q.s.map.size) q.s.map with
  | .ok r => r.1
  | .error _ => []

/-- every write of the program that goes through a reference yielded for a slot whose entry has key `k` leaves the item
of that entry as it is (no payload write, or one that writes the payload already there); nothing is asked of the writes
through references to other slots, nor of priority writes -/
def c12m_iterMutKeeps (k : Nat) (q : Q P) (prog : List (ICall × IMWrite P)) : Prop :=
  ∀ ocw ∈ (c12m_iterOuts q prog).zip prog, ∀ j ∈ c12m_slotOf ocw.1, ∀ e ∈ q.s.map[j]?,
    e.1.key = k → (ocw.2.2.cont_apply e).1 = e.1

instance (k : Nat) (q : Q P) (prog : List (ICall × IMWrite P)) : Decidable (c12m_iterMutKeeps k q prog) := by
  unfold c12m_iterMutKeeps; infer_instance

/-- **`op`, executed on `q`, does not rewrite the item stored under key `k`** — the state-dependent relaxation of
`cont_preservesItem`: an `iter_mut` program may write whatever it likes through references to OTHER elements (and may
change the priority of `k`); an `append`ed queue may hold `k` when it is not longer than the receiver -/
def c12m_preservesItem (k : Nat) (q : Q P) : Op P → Prop
  | .iterMut _ prog => c12m_iterMutKeeps k q prog
  | .append o => o.size ≤ q.s.size ∨ o.abs k = none
  | op => cont_preservesItem k op

/-- the item part of a written entry depends on the item part of the entry only -/
theorem c12m_apply_fst (w : IMWrite P) {e e' : Item × P} (h : e.1 = e'.1) :
    (w.cont_apply e).1 = (w.cont_apply e').1 := by
  unfold IMWrite.cont_apply
  cases w.payload <;> simp [h]

/-- if every write that went through slot `j` leaves the item `e0.1` alone, so does their composition -/
theorem c12m_writesAt_item (j : Nat) (e0 : Item × P) : ∀ (outs : List IOut) (prog : List (ICall × IMWrite P))
    (e : Item × P), e.1 = e0.1 →
    (∀ ocw ∈ outs.zip prog, ocw.1 = IOut.slot (some j) → (ocw.2.2.cont_apply e0).1 = e0.1) →
    (cont_writesAt j outs prog e).1 = e0.1 := by
  intro outs
  induction outs with
  | nil => intro prog e he _; exact he
  | cons o outs ih =>
    intro prog e he hw
    cases prog with
    | nil => exact he
    | cons cw prog =>
      simp only [cont_writesAt]
      refine ih prog _ ?_ (fun ocw hin => hw ocw (by simp [List.zip_cons_cons, hin]))
      by_cases ho : o = IOut.slot (some j)
      · rw [if_pos ho, c12m_apply_fst cw.2 he]
        exact hw (o, cw) (by simp [List.zip_cons_cons]) ho
      · rw [if_neg ho]; exact he

/-- the old, state-independent predicate implies the new one (the new theorems subsume the old ones) -/
theorem c12m_preservesItem_of_cont {k : Nat} (q : Q P) {op : Op P} (h : cont_preservesItem k op) :
    c12m_preservesItem k q op := by
  cases op <;> try exact h
  case iterMut leak prog =>
    intro ocw hin j _ e _ _
    exact cont_apply_item (h ocw.2 (List.of_mem_zip hin).2) e
  case append o => exact .inr h

end Defs

variable {P : Type} [LT P] [DecidableLT P] [LE P] [Std.IsLinearPreorder P] [Std.LawfulOrderLT P]

/-! ## One step -/

/-- the outputs `step` reports for `iter_mut` are `c12m_iterOuts` -/
theorem c12m_step_iterMut_outs {q q' : Q P} {leak : Bool} {prog : List (ICall × IMWrite P)} {o : Out P}
    (hs : step q (.iterMut leak prog) = .ok (q', o)) : o = .outs (c12m_iterOuts q prog) := by
  unfold c12m_iterOuts
  simp only [step, bind, Except.bind, pure, Except.pure] at hs
  cases hrun : iterMutRun q.kind q.s.map.size prog PIterMut.new (DIterMut.new q.s.map.size) q.s.map with
  | error e => rw [hrun] at hs; cases hs
  | ok r =>
    rw [hrun] at hs
    obtain ⟨outs, m⟩ := r
    simp only [] at hs
    cases leak with
    | true => simp at hs; exact hs.2.symm
    | false =>
      cases hb : heapBuildK q.kind { q.s with map := m } with
      | error e => simp [hb] at hs
      | ok s2 => simp [hb] at hs; exact hs.2.symm

/-- `iter_mut` whose writes to the slot of `k` leave the item alone keeps the stored item of `k` — whatever it writes
through the references to the other elements -/
theorem c12m_step_iterMut_item {q q' : Q P} {leak : Bool} {prog : List (ICall × IMWrite P)} {o : Out P} {k : Nat}
    (hq : q.s.WF) (hp : c12m_iterMutKeeps k q prog) (hs : step q (.iterMut leak prog) = .ok (q', o)) {it0 : Item}
    (h0 : storedItem q k = some it0) : storedItem q' k = some it0 := by
  have ho := c12m_step_iterMut_outs hs
  obtain ⟨kind, s⟩ := q
  obtain ⟨s', outs, e1, _⟩ := cont_step_iterMut (kind := kind) hq leak prog
  rw [e1] at hs
  cases hs
  cases ho
  obtain ⟨p0, ha⟩ := cont_storedItem_eq_some.1 h0
  have ha' : IMap.lookup s.map k = some (it0, p0) := ha
  obtain ⟨j, hj, hje⟩ := IMap.lookup_eq_some_iff_find?.1 ha'
  have hk0 : it0.key = k := IMap.lookup_key ha'
  have h1 := cont_step_iterMut_abs hq e1 hj
  refine cont_storedItem_eq_some.2 ⟨(cont_writesAt j (c12m_iterOuts ⟨kind, s⟩ prog) prog (it0, p0)).2, ?_⟩
  show s'.abs k = _
  rw [h1]
  show (s.abs k).map _ = _
  rw [ha]
  simp only [Option.map_some, Option.some.injEq]
  have := c12m_writesAt_item j (it0, p0) (c12m_iterOuts ⟨kind, s⟩ prog) prog (it0, p0) rfl
    (fun ocw hin hoj => hp ocw hin j (c12m_slotOf_eq_some.2 hoj) (it0, p0) hje hk0)
  exact Prod.ext this rfl

/-- `append` of a queue that is not longer than the receiver, or does not hold `k`, keeps the stored item of `k` -/
theorem c12m_step_append_item {q q' : Q P} {oth : Store P} {o : Out P} {k : Nat} (hq : q.s.WF) (hl : oth.WF)
    (hp : oth.size ≤ q.s.size ∨ oth.abs k = none) (hs : step q (.append oth) = .ok (q', o)) {it0 : Item}
    (h0 : storedItem q k = some it0) : storedItem q' k = some it0 := by
  obtain ⟨p0, ha⟩ := cont_storedItem_eq_some.1 h0
  have hspec := (cont_step_refines (op := .append oth) hq hl hs).2.2
  have h1 := hspec.2 q.s.size (cont_absCard_of_WF hq) k
  refine cont_storedItem_eq_some.2 ⟨p0, ?_⟩
  rw [h1, ha]
  rcases hp with hp | hp
  · rw [if_neg (by omega)]; rfl
  · rw [hp]; split <;> simp

/-- **one step**: a legal operation that, on the current queue, does not rewrite the item of `k` and does not remove
`k` keeps the stored item -/
theorem c12m_step_item_persists {q q' : Q P} {op : Op P} {o : Out P} {k : Nat} (hq : q.s.WF) (hl : op.Legal)
    (hp : c12m_preservesItem k q op) (hs : step q op = .ok (q', o)) (hk : (q'.s.abs k).isSome = true) {it0 : Item}
    (h0 : storedItem q k = some it0) : storedItem q' k = some it0 := by
  cases op
  case iterMut leak prog => exact c12m_step_iterMut_item hq hp hs h0
  case append oth => exact c12m_step_append_item hq hl hp hs h0
  all_goals exact cont_step_item_persists hq hl hp hs hk h0

/-! ## Histories -/

/-- the relaxed predicate holds along the run of `ops` from `q`: each operation preserves the item of `k` on the queue
it is executed on -/
def c12m_preservedThroughout (k : Nat) : Q P → List (Op P) → Prop
  | _, [] => True
  | q, op :: ops => c12m_preservesItem k q op ∧ ∀ q1 o, step q op = .ok (q1, o) → c12m_preservedThroughout k q1 ops

/-- the prefix form of `c12m_preservedThroughout` (the shape of `cont_presentThroughout`) -/
theorem c12m_preservedThroughout_iff {k : Nat} (ops : List (Op P)) : ∀ (q : Q P),
    c12m_preservedThroughout k q ops ↔
      ∀ n q1 outs op, run q (ops.take n) = .ok (q1, outs) → ops[n]? = some op → c12m_preservesItem k q1 op := by
  induction ops with
  | nil => intro q; simp [c12m_preservedThroughout]
  | cons op ops ih =>
    intro q
    simp only [c12m_preservedThroughout]
    constructor
    · rintro ⟨h1, h2⟩ n q1 outs op' hr hn
      cases n with
      | zero =>
        rw [List.take_zero, cont_run_nil] at hr
        cases hr
        simp only [List.getElem?_cons_zero, Option.some.injEq] at hn
        subst hn; exact h1
      | succ n =>
        rw [List.take_succ_cons] at hr
        obtain ⟨q2, o, os, e1, e2, _⟩ := cont_run_cons_inv hr
        exact (ih q2).1 (h2 q2 o e1) n q1 os op' e2 (by simpa using hn)
    · intro h
      refine ⟨h 0 q [] op (cont_run_nil q) (by simp), fun q1 o e1 => (ih q1).2 (fun n q2 outs op' hr hn => ?_)⟩
      exact h (n + 1) q2 (o :: outs) op' (by rw [List.take_succ_cons]; exact cont_run_cons e1 hr) (by simpa using hn)

/-- a history of operations that satisfy the old predicate satisfies the new one along every run -/
theorem c12m_preservedThroughout_of_cont {k : Nat} (ops : List (Op P)) : ∀ (q : Q P),
    (∀ op ∈ ops, cont_preservesItem k op) → c12m_preservedThroughout k q ops := by
  induction ops with
  | nil => intro q _; trivial
  | cons op ops ih =>
    intro q h
    exact ⟨c12m_preservesItem_of_cont q (h op List.mem_cons_self),
      fun q1 _ _ => ih q1 (fun op' hop => h op' (List.mem_cons_of_mem _ hop))⟩

/-- **histories**: if every operation, on the queue it is executed on, does not rewrite the item of `k`, and `k` is
stored after every prefix, the stored item at the end is the one at the start -/
theorem c12m_run_item_persists {k : Nat} {it0 : Item} (ops : List (Op P)) : ∀ {q q' : Q P} {outs : List (Out P)},
    q.s.WF → (∀ op ∈ ops, op.Legal) → c12m_preservedThroughout k q ops → cont_presentThroughout k q ops →
    storedItem q k = some it0 → run q ops = .ok (q', outs) → storedItem q' k = some it0 := by
  induction ops with
  | nil => intro q q' outs _ _ _ _ h0 hr; rw [cont_run_nil] at hr; cases hr; exact h0
  | cons op ops ih =>
    intro q q' outs hq hl hp hpres h0 hr
    obtain ⟨q1, o, os, h1, h2, rfl⟩ := cont_run_cons_inv hr
    have hl1 := hl op List.mem_cons_self
    have hq1 := (cont_step_refines hq hl1 h1).1
    have hk1 : (q1.s.abs k).isSome = true := hpres 1 q1 [o] (cont_run_cons h1 (cont_run_nil q1))
    have h01 := c12m_step_item_persists hq hl1 hp.1 h1 hk1 h0
    refine ih hq1 (fun op' hop => hl op' (List.mem_cons_of_mem _ hop)) (hp.2 q1 o h1) (fun n q2 outs' hr2 => ?_) h01 h2
    exact hpres (n + 1) q2 (o :: outs') (cont_run_cons h1 hr2)

/-! ## Boolean checkers for concrete histories (sound; closures are not inspected) -/

/-- a sufficient Boolean test for `c12m_preservesItem` (operations whose condition quantifies over a closure's
behaviour are answered `false`, except `get_mut` on another key) -/
def c12m_preservesItemB (k : Nat) (q : Q P) : Op P → Bool
  | .iterMut _ prog => decide (c12m_iterMutKeeps k q prog)
  | .append o => decide (o.size ≤ q.s.size) || (o.abs k).isNone
  | .getMut k' _ => k' != k
  | .peekFrontMut _ | .peekBackMut _ | .popFrontIf _ | .popBackIf _ | .retainMut _ => false
  | .fromVec _ | .fromIter _ _ | .deserialize _ _ => false
  | _ => true

theorem c12m_preservesItem_of_B {k : Nat} {q : Q P} {op : Op P} (h : c12m_preservesItemB k q op = true) :
    c12m_preservesItem k q op := by
  cases op
  case iterMut leak prog => exact (of_decide_eq_true h : c12m_iterMutKeeps k q prog)
  case append o =>
    simp only [c12m_preservesItemB, Bool.or_eq_true, decide_eq_true_eq, Option.isNone_iff_eq_none] at h
    exact h
  case getMut k' w =>
    intro hk
    simp [c12m_preservesItemB, hk] at h
  all_goals first | trivial | (simp [c12m_preservesItemB] at h)

def c12m_preservedThroughoutB (k : Nat) : Q P → List (Op P) → Bool
  | _, [] => true
  | q, op :: ops => c12m_preservesItemB k q op &&
      (match step q op with
       | .ok r => c12m_preservedThroughoutB k r.1 ops
       | .error _ => true)

theorem c12m_preservedThroughout_of_B {k : Nat} (ops : List (Op P)) : ∀ {q : Q P},
    c12m_preservedThroughoutB k q ops = true → c12m_preservedThroughout k q ops := by
  induction ops with
  | nil => intro q _; trivial
  | cons op ops ih =>
    intro q h
    simp only [c12m_preservedThroughoutB, Bool.and_eq_true] at h
    refine ⟨c12m_preservesItem_of_B h.1, fun q1 o e1 => ih ?_⟩
    have h2 := h.2
    rw [e1] at h2
    exact h2

/-- Boolean form of `cont_presentThroughout` -/
def c12m_presentThroughoutB (k : Nat) : Q P → List (Op P) → Bool
  | q, [] => (q.s.abs k).isSome
  | q, op :: ops => (q.s.abs k).isSome &&
      (match step q op with
       | .ok r => c12m_presentThroughoutB k r.1 ops
       | .error _ => true)

theorem c12m_presentThroughout_of_B {k : Nat} (ops : List (Op P)) : ∀ {q : Q P},
    c12m_presentThroughoutB k q ops = true → cont_presentThroughout k q ops := by
  induction ops with
  | nil =>
    intro q h n q1 outs hr
    rw [List.take_nil, cont_run_nil] at hr
    cases hr; exact h
  | cons op ops ih =>
    intro q h n q1 outs hr
    simp only [c12m_presentThroughoutB, Bool.and_eq_true] at h
    cases n with
    | zero =>
      rw [List.take_zero, cont_run_nil] at hr
      cases hr; exact h.1
    | succ n =>
      rw [List.take_succ_cons] at hr
      obtain ⟨q2, o, os, e1, e2, _⟩ := cont_run_cons_inv hr
      have h2 := h.2
      rw [e1] at h2
      exact ih h2 n q1 os e2

end PQ
