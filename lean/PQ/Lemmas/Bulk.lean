import PQ.Lemmas.IMapLemmas
import PQ.Lemmas.WF
/-!
# The store-level bulk operations

None of the functions treated here looks at the order of priorities.  For each of them we prove
(1) that it produces a well-formed store (`WF`) and (2) exactly which entries the result holds, as a statement
about `IMap.lookup` of the result's map (stored item payloads included).

Sections: identity tables, `empty`/`clear`/`drain`, the shared "tail push" step (`pushTail`), `pushIfAbsent`
and its fold, `fromVec`, `extend`, `fromIter`, `visitSeq`, `retainMut`, `append`.
-/
namespace PQ.Store
variable {P : Type}
open IMap

/-! ## Identity tables -/

/-- the identity tables over any duplicate-free map are well-formed -/
theorem wf_identity {m : IMap P} (hm : NoDupKeys m) (t : Nat) :
    WF ({ map := m, heap := Array.range m.size, qp := Array.range m.size, size := m.size, ticks := t } : Store P) := by
  refine ⟨rfl, Array.size_range, Array.size_range, ?_, ?_, hm⟩
  · intro p hp
    exact ⟨p, by simp only [Array.getElem?_range, if_pos hp], by simp only [Array.getElem?_range, if_pos hp]⟩
  · intro i hi
    exact ⟨i, by simp only [Array.getElem?_range, if_pos hi], by simp only [Array.getElem?_range, if_pos hi]⟩

/-- a store whose three tables are empty and whose size is `0` is well-formed -/
theorem wf_of_tables_empty {s : Store P} (hm : s.map = #[]) (hh : s.heap = #[]) (hq : s.qp = #[])
    (hs : s.size = 0) : s.WF := by
  unfold WF
  rw [hs]
  refine ⟨by rw [hm]; rfl, by rw [hh]; rfl, by rw [hq]; rfl, ?_, ?_, by rw [hm]; exact NoDupKeys.empty⟩
  · intro p hp; omega
  · intro i hi; omega

/-- under `WF`, size `0` means all three tables are empty -/
theorem WF.tables_empty_of_size_zero {s : Store P} (h : s.WF) (hs : s.size = 0) :
    s.map = #[] ∧ s.heap = #[] ∧ s.qp = #[] := by
  refine ⟨Array.eq_empty_of_size_eq_zero ?_, Array.eq_empty_of_size_eq_zero ?_, Array.eq_empty_of_size_eq_zero ?_⟩
  · rw [h.map_size, hs]
  · rw [h.heap_size, hs]
  · rw [h.qp_size, hs]

theorem WF.size_eq_map_size {s : Store P} (h : s.WF) : s.size = s.map.size := h.map_size.symm

/-! ## `empty`, `clear`, `drain` -/

theorem wf_empty : (empty : Store P).WF := wf_of_tables_empty rfl rfl rfl rfl

@[simp] theorem lookup_empty (k : Nat) : lookup (empty : Store P).map k = none := rfl

@[simp] theorem size_empty : (empty : Store P).size = 0 := rfl

/-- `clear` resets everything but the ghost counter -/
theorem clear_eq (s : Store P) : clear s = { (empty : Store P) with ticks := s.ticks } := rfl

theorem clear_tables (s : Store P) :
    (clear s).map = #[] ∧ (clear s).heap = #[] ∧ (clear s).qp = #[] ∧ (clear s).size = 0 ∧
      (clear s).ticks = s.ticks := ⟨rfl, rfl, rfl, rfl, rfl⟩

theorem wf_clear (s : Store P) : (clear s).WF := wf_of_tables_empty rfl rfl rfl rfl

@[simp] theorem lookup_clear (s : Store P) (k : Nat) : lookup (clear s).map k = none := rfl

/-- `drain` hands out the entries in slot order … -/
@[simp] theorem drain_fst (s : Store P) : (drain s).1 = s.map := rfl

/-- … and leaves the cleared store behind -/
theorem drain_snd (s : Store P) : (drain s).2 = { (empty : Store P) with ticks := s.ticks } := rfl

theorem drain_snd_eq_clear (s : Store P) : (drain s).2 = clear s := rfl

theorem drain_tables (s : Store P) :
    (drain s).2.map = #[] ∧ (drain s).2.heap = #[] ∧ (drain s).2.qp = #[] ∧ (drain s).2.size = 0 ∧
      (drain s).2.ticks = s.ticks := ⟨rfl, rfl, rfl, rfl, rfl⟩

theorem wf_drain (s : Store P) : (drain s).2.WF := wf_of_tables_empty rfl rfl rfl rfl

@[simp] theorem lookup_drain (s : Store P) (k : Nat) : lookup (drain s).2.map k = none := rfl

/-! ## The "tail push" step shared by `pushIfAbsent`, `extendStep`, `fromIterStep`, `visitSeqStep` -/

/-- append a new entry in the last slot and the last heap position (no sifting: the store level does not order) -/
def pushTail (s : Store P) (e : Item × P) : Store P :=
  { s with map := s.map.push e, heap := s.heap.push s.size, qp := s.qp.push s.size, size := s.size + 1 }

theorem pushTail_eq (s : Store P) (e : Item × P) :
    pushTail s e =
      { s with map := s.map.push e, heap := s.heap.push s.size, qp := s.qp.push s.size, size := s.size + 1 } := rfl

@[simp] theorem pushTail_map (s : Store P) (e : Item × P) : (pushTail s e).map = s.map.push e := rfl
@[simp] theorem pushTail_heap (s : Store P) (e : Item × P) : (pushTail s e).heap = s.heap.push s.size := rfl
@[simp] theorem pushTail_qp (s : Store P) (e : Item × P) : (pushTail s e).qp = s.qp.push s.size := rfl
@[simp] theorem pushTail_size (s : Store P) (e : Item × P) : (pushTail s e).size = s.size + 1 := rfl
@[simp] theorem pushTail_ticks (s : Store P) (e : Item × P) : (pushTail s e).ticks = s.ticks := rfl

/-- **tail push keeps `WF`** when the key is new -/
theorem wf_pushTail {s : Store P} (h : s.WF) {e : Item × P} (he : find? s.map e.1.key = none) :
    (pushTail s e).WF := by
  have hms := h.map_size
  have hhs := h.heap_size
  have hqs := h.qp_size
  refine ⟨by simp [hms], by simp [hhs], by simp [hqs], ?_, ?_, h.nodup.push he⟩
  · intro p hp
    simp only [pushTail_size, pushTail_heap, pushTail_qp] at hp ⊢
    by_cases hps : p = s.size
    · subst hps
      refine ⟨s.size, ?_, ?_⟩
      · rw [Array.getElem?_push, if_pos hhs.symm]
      · rw [Array.getElem?_push, if_pos hqs.symm]
    · obtain ⟨i, h1, h2⟩ := h.heap_qp p (by omega)
      have hi := h.heap_lt h1
      refine ⟨i, ?_, ?_⟩
      · rw [Array.getElem?_push, if_neg (by omega), h1]
      · rw [Array.getElem?_push, if_neg (by omega), h2]
  · intro i hi
    simp only [pushTail_size, pushTail_heap, pushTail_qp] at hi ⊢
    by_cases his : i = s.size
    · subst his
      refine ⟨s.size, ?_, ?_⟩
      · rw [Array.getElem?_push, if_pos hqs.symm]
      · rw [Array.getElem?_push, if_pos hhs.symm]
    · obtain ⟨p, h1, h2⟩ := h.qp_heap i (by omega)
      have hp := h.qp_lt h1
      refine ⟨p, ?_, ?_⟩
      · rw [Array.getElem?_push, if_neg (by omega), h1]
      · rw [Array.getElem?_push, if_neg (by omega), h2]

/-- **entries after a tail push** of a new key -/
theorem lookup_pushTail {s : Store P} {e : Item × P} (he : find? s.map e.1.key = none) (k : Nat) :
    lookup (pushTail s e).map k = if k = e.1.key then some e else lookup s.map k :=
  lookup_push he k

/-- the same without the freshness hypothesis: an older entry of the key shadows the pushed one -/
theorem lookup_pushTail' (s : Store P) (e : Item × P) (k : Nat) :
    lookup (pushTail s e).map k = (lookup s.map k).or (if e.1.key = k then some e else none) :=
  lookup_push' s.map e k

/-- frame: heap positions below the old size are unchanged -/
theorem heap_pushTail_of_lt {s : Store P} (h : s.WF) (e : Item × P) {p : Nat} (hp : p < s.size) :
    (pushTail s e).heap[p]? = s.heap[p]? := by
  have := h.heap_size
  rw [pushTail_heap, Array.getElem?_push, if_neg (by omega)]

/-- frame: slots below the old size keep their heap position -/
theorem qp_pushTail_of_lt {s : Store P} (h : s.WF) (e : Item × P) {i : Nat} (hi : i < s.size) :
    (pushTail s e).qp[i]? = s.qp[i]? := by
  have := h.qp_size
  rw [pushTail_qp, Array.getElem?_push, if_neg (by omega)]

/-- frame: slots below the old size keep their entry -/
theorem map_pushTail_of_lt {s : Store P} (h : s.WF) (e : Item × P) {i : Nat} (hi : i < s.size) :
    (pushTail s e).map[i]? = s.map[i]? := by
  have := h.map_size
  rw [pushTail_map, Array.getElem?_push, if_neg (by omega)]

/-- the new last heap position holds the new last slot … -/
theorem heap_pushTail_last {s : Store P} (h : s.WF) (e : Item × P) :
    (pushTail s e).heap[s.size]? = some s.size := by
  rw [pushTail_heap, Array.getElem?_push, if_pos h.heap_size.symm]

/-- … and the new last slot points back to the new last heap position … -/
theorem qp_pushTail_last {s : Store P} (h : s.WF) (e : Item × P) :
    (pushTail s e).qp[s.size]? = some s.size := by
  rw [pushTail_qp, Array.getElem?_push, if_pos h.qp_size.symm]

/-- … and holds the pushed entry -/
theorem map_pushTail_last {s : Store P} (h : s.WF) (e : Item × P) :
    (pushTail s e).map[s.size]? = some e := by
  rw [pushTail_map, Array.getElem?_push, if_pos h.map_size.symm]

/-- the entry at the new last heap position is the pushed one; entries at older positions are unchanged -/
theorem entryAt_pushTail {s : Store P} (h : s.WF) (e : Item × P) (p : Nat) :
    (pushTail s e).entryAt p = if p = s.size then some e else s.entryAt p := by
  unfold entryAt
  by_cases hp : p = s.size
  · subst hp
    rw [heap_pushTail_last h, if_pos rfl]
    exact map_pushTail_last h e
  · rw [if_neg hp]
    by_cases hlt : p < s.size
    · rw [heap_pushTail_of_lt h e hlt]
      obtain ⟨i, hi, hil⟩ := TWF.heap_some h hlt
      rw [hi]
      exact map_pushTail_of_lt h e hil
    · have h1 : (pushTail s e).heap[p]? = none := by
        apply Array.getElem?_eq_none
        rw [pushTail_heap, Array.size_push, h.heap_size]; omega
      have h2 : s.heap[p]? = none := by
        apply Array.getElem?_eq_none
        rw [h.heap_size]; omega
      rw [h1, h2]

/-! ## `pushIfAbsent` -/

theorem pushIfAbsent_of_contains {s : Store P} {e : Item × P} (h : contains s.map e.1.key = true) :
    pushIfAbsent s e = s := by
  unfold pushIfAbsent; rw [if_pos h]

theorem pushIfAbsent_of_not_contains {s : Store P} {e : Item × P} (h : contains s.map e.1.key = false) :
    pushIfAbsent s e = pushTail s e := by
  unfold pushIfAbsent; rw [h]; rfl

theorem pushIfAbsent_of_find?_none {s : Store P} {e : Item × P} (h : find? s.map e.1.key = none) :
    pushIfAbsent s e = pushTail s e :=
  pushIfAbsent_of_not_contains (by rw [contains_eq, h]; rfl)

/-- **`pushIfAbsent` keeps `WF`** -/
theorem wf_pushIfAbsent {s : Store P} (h : s.WF) (e : Item × P) : (pushIfAbsent s e).WF := by
  cases hf : find? s.map e.1.key with
  | none => rw [pushIfAbsent_of_find?_none hf]; exact wf_pushTail h hf
  | some i => rw [pushIfAbsent_of_contains (by rw [contains_eq, hf]; rfl)]; exact h

/-- entries after `pushIfAbsent`, `Option.or` form: what was stored stays, the new pair fills a gap only -/
theorem lookup_pushIfAbsent' (s : Store P) (e : Item × P) (k : Nat) :
    lookup (pushIfAbsent s e).map k = (lookup s.map k).or (if e.1.key = k then some e else none) := by
  cases hf : find? s.map e.1.key with
  | none => rw [pushIfAbsent_of_find?_none hf]; exact lookup_pushTail' s e k
  | some i =>
    rw [pushIfAbsent_of_contains (by rw [contains_eq, hf]; rfl)]
    by_cases hk : e.1.key = k
    · subst hk
      cases hl : lookup s.map e.1.key with
      | none => rw [lookup_eq_none_iff_find?.1 hl] at hf; cases hf
      | some x => rfl
    · rw [if_neg hk, Option.or_none]

/-- **entries after `pushIfAbsent`** (first one wins) -/
theorem lookup_pushIfAbsent (s : Store P) (e : Item × P) (k : Nat) :
    lookup (pushIfAbsent s e).map k =
      if (lookup s.map e.1.key).isNone = true ∧ k = e.1.key then some e else lookup s.map k := by
  rw [lookup_pushIfAbsent']
  by_cases hk : k = e.1.key
  · subst hk
    cases hl : lookup s.map e.1.key <;> simp
  · have : ¬ e.1.key = k := fun h => hk h.symm
    simp [hk, this]

theorem size_pushIfAbsent (s : Store P) (e : Item × P) :
    (pushIfAbsent s e).size = if contains s.map e.1.key then s.size else s.size + 1 := by
  cases hc : contains s.map e.1.key with
  | true => rw [pushIfAbsent_of_contains hc]; rfl
  | false => rw [pushIfAbsent_of_not_contains hc]; rfl

@[simp] theorem ticks_pushIfAbsent (s : Store P) (e : Item × P) : (pushIfAbsent s e).ticks = s.ticks := by
  unfold pushIfAbsent; split <;> rfl

/-! ### folding `pushIfAbsent` over a list of pairs -/

theorem wf_foldl_pushIfAbsent (l : List (Item × P)) {s : Store P} (h : s.WF) :
    (l.foldl pushIfAbsent s).WF := by
  induction l generalizing s with
  | nil => exact h
  | cons e l ih => exact ih (wf_pushIfAbsent h e)

/-- what was stored stays; every other key gets the FIRST pair given for it -/
theorem lookup_foldl_pushIfAbsent (l : List (Item × P)) (s : Store P) (k : Nat) :
    lookup (l.foldl pushIfAbsent s).map k = (lookup s.map k).or (l.find? (fun e => e.1.key == k)) := by
  induction l generalizing s with
  | nil => simp
  | cons e l ih =>
    rw [List.foldl_cons, ih, lookup_pushIfAbsent']
    by_cases hk : e.1.key = k
    · rw [if_pos hk, List.find?_cons_of_pos (by simpa using hk), Option.or_assoc, Option.some_or]
    · rw [if_neg hk, List.find?_cons_of_neg (by simpa using hk), Option.or_none]

@[simp] theorem ticks_foldl_pushIfAbsent (l : List (Item × P)) (s : Store P) :
    (l.foldl pushIfAbsent s).ticks = s.ticks := by
  induction l generalizing s with
  | nil => rfl
  | cons e l ih => rw [List.foldl_cons, ih, ticks_pushIfAbsent]

theorem contains_pushTail_map {s : Store P} {e : Item × P} (he : contains s.map e.1.key = false) (k : Nat) :
    contains (pushTail s e).map k = (k == e.1.key || contains s.map k) := by
  have hf : find? s.map e.1.key = none := by
    rw [contains_eq] at he; cases hf : find? s.map e.1.key <;> simp_all
  have := contains_insertFull s.map e.1 e.2 k
  rw [insertFull_of_find?_none hf] at this
  exact this

/-- size bookkeeping shared by all four loops: a step that leaves size and key set alone on a present key and
tail-pushes an absent one makes the size grow by the number of distinct new keys -/
theorem size_foldl_of_step {step : Store P → Item × P → Store P}
    (hpres : ∀ s e, contains s.map e.1.key = true →
      (step s e).size = s.size ∧ ∀ k, contains (step s e).map k = contains s.map k)
    (habs : ∀ s e, contains s.map e.1.key = false → step s e = pushTail s e)
    (l : List (Item × P)) (s : Store P) :
    (l.foldl step s).size =
      s.size + ((l.map (·.1.key)).filter (fun k => !contains s.map k)).eraseDups.length := by
  induction l generalizing s with
  | nil => simp
  | cons e l ih =>
    rw [List.foldl_cons, ih, List.map_cons, List.filter_cons]
    cases hc : contains s.map e.1.key with
    | true =>
      obtain ⟨h1, h2⟩ := hpres s e hc
      simp only [h1, h2]
      simp
    | false =>
      rw [habs s e hc]
      simp only [Bool.not_false, if_true, List.eraseDups_cons, List.length_cons, pushTail_size,
        List.filter_filter, contains_pushTail_map hc, Bool.not_or]
      omega

/-- the size grows by the number of distinct new keys -/
theorem size_foldl_pushIfAbsent (l : List (Item × P)) (s : Store P) :
    (l.foldl pushIfAbsent s).size =
      s.size + ((l.map (·.1.key)).filter (fun k => !contains s.map k)).eraseDups.length :=
  size_foldl_of_step (fun s e hc => by rw [pushIfAbsent_of_contains hc]; exact ⟨rfl, fun _ => rfl⟩)
    (fun s e hc => pushIfAbsent_of_not_contains hc) l s

@[simp] theorem contains_empty_map (k : Nat) : contains (empty : Store P).map k = false := by
  rw [← lookup_isSome_eq_contains]; rfl

theorem filter_not_contains_empty (l : List Nat) :
    l.filter (fun k => !contains (empty : Store P).map k) = l := by
  simp

/-- membership in a list of pairs, seen through `find?` on the key -/
theorem find?_key_isSome_iff {l : List (Item × P)} {k : Nat} :
    (l.find? (fun e => e.1.key == k)).isSome = true ↔ ∃ e, e ∈ l ∧ e.1.key = k := by
  rw [List.find?_isSome]; simp

theorem find?_key_reverse_isSome (l : List (Item × P)) (k : Nat) :
    (l.reverse.find? (fun e => e.1.key == k)).isSome = (l.find? (fun e => e.1.key == k)).isSome := by
  rw [Bool.eq_iff_iff, find?_key_isSome_iff, find?_key_isSome_iff]
  simp only [List.mem_reverse]

/-! ## `fromVec` -/

theorem fromVec_eq (v : Array (Item × P)) : fromVec v = v.toList.foldl pushIfAbsent empty := by
  unfold fromVec; rw [Array.foldl_toList]

/-- **`From<Vec>` builds a well-formed store** from any vector -/
theorem wf_fromVec (v : Array (Item × P)) : (fromVec v).WF := by
  rw [fromVec_eq]; exact wf_foldl_pushIfAbsent _ wf_empty

/-- **`From<Vec>` keeps the FIRST pair given for each key** (item payload included) -/
theorem lookup_fromVec (v : Array (Item × P)) (k : Nat) :
    lookup (fromVec v).map k = v.toList.find? (fun e => e.1.key == k) := by
  rw [fromVec_eq, lookup_foldl_pushIfAbsent, lookup_empty, Option.none_or]

theorem contains_fromVec_iff (v : Array (Item × P)) (k : Nat) :
    contains (fromVec v).map k = true ↔ ∃ e, e ∈ v ∧ e.1.key = k := by
  rw [← lookup_isSome_eq_contains, lookup_fromVec, find?_key_isSome_iff]
  simp only [Array.mem_toList_iff]

/-- **`From<Vec>`: the size is the number of distinct keys** -/
theorem size_fromVec (v : Array (Item × P)) :
    (fromVec v).size = (v.toList.map (·.1.key)).eraseDups.length := by
  rw [fromVec_eq, size_foldl_pushIfAbsent, filter_not_contains_empty, size_empty, Nat.zero_add]

@[simp] theorem ticks_fromVec (v : Array (Item × P)) : (fromVec v).ticks = 0 := by
  rw [fromVec_eq, ticks_foldl_pushIfAbsent]; rfl

/-! ## `extendStep`, `extend` -/

/-- abstract effect of one `extend` / `visit_seq` step on the item→entry function: the key of `e` gets the
priority of `e`; the stored item stays if there is one, otherwise the item of `e` is stored -/
def absStep (f : Nat → Option (Item × P)) (e : Item × P) : Nat → Option (Item × P) :=
  fun k => if k = e.1.key then some (((f k).map (·.1)).getD e.1, e.2) else f k

/-- replacing the map by one of the same size without duplicate keys keeps `WF` -/
theorem wf_of_map_update {s : Store P} (h : s.WF) {m' : IMap P} (hs : m'.size = s.map.size)
    (hn : NoDupKeys m') : WF { s with map := m' } :=
  ⟨hs.trans h.map_size, h.heap_size, h.qp_size, h.heap_qp, h.qp_heap, hn⟩

theorem extendStep_of_find?_none {s : Store P} {e : Item × P} (h : find? s.map e.1.key = none) :
    extendStep s e = pushTail s e := by
  unfold extendStep; rw [h]; rfl

theorem extendStep_of_find?_some {s : Store P} {e : Item × P} {i : Nat} (h : find? s.map e.1.key = some i) :
    extendStep s e = { s with map := s.map.setPrio i e.2 } := by
  unfold extendStep; rw [h]

/-- **one `extend` step keeps `WF`** -/
theorem wf_extendStep {s : Store P} (h : s.WF) (e : Item × P) : (extendStep s e).WF := by
  cases hf : find? s.map e.1.key with
  | none => rw [extendStep_of_find?_none hf]; exact wf_pushTail h hf
  | some i =>
    rw [extendStep_of_find?_some hf]
    exact wf_of_map_update h (size_setPrio _ _ _) (h.nodup.setPrio i e.2)

/-- **entries after one `extend` step** (no hypothesis needed) -/
theorem lookup_extendStep (s : Store P) (e : Item × P) :
    lookup (extendStep s e).map = absStep (lookup s.map) e := by
  funext k
  unfold absStep
  cases hf : find? s.map e.1.key with
  | none =>
    rw [extendStep_of_find?_none hf, lookup_pushTail hf]
    by_cases hk : k = e.1.key
    · subst hk; rw [if_pos rfl, if_pos rfl, lookup_eq_none_iff_find?.2 hf]; rfl
    · rw [if_neg hk, if_neg hk]
  | some i =>
    obtain ⟨e0, he0, hk0⟩ := find?_getElem? hf
    rw [extendStep_of_find?_some hf]
    show lookup (setPrio s.map i e.2) k = _
    rw [setPrio_of_getElem? he0, lookup_setIfInBounds' he0 (e' := (e0.1, e.2)) rfl]
    by_cases hk : k = e.1.key
    · subst hk
      rw [if_pos hf, if_pos rfl, lookup_eq_find?, hf]
      simp [he0]
    · rw [if_neg hk, if_neg]
      intro hf'
      obtain ⟨e', he', hk'⟩ := find?_getElem? hf'
      rw [he0] at he'; cases he'
      exact hk (hk'.symm.trans hk0)

theorem size_extendStep (s : Store P) (e : Item × P) :
    (extendStep s e).size = if contains s.map e.1.key then s.size else s.size + 1 := by
  rw [contains_eq]
  cases hf : find? s.map e.1.key with
  | none => rw [extendStep_of_find?_none hf]; rfl
  | some i => rw [extendStep_of_find?_some hf]; rfl

@[simp] theorem ticks_extendStep (s : Store P) (e : Item × P) : (extendStep s e).ticks = s.ticks := by
  unfold extendStep; split <;> rfl

theorem wf_foldl_extendStep (l : List (Item × P)) {s : Store P} (h : s.WF) :
    (l.foldl extendStep s).WF := by
  induction l generalizing s with
  | nil => exact h
  | cons e l ih => exact ih (wf_extendStep h e)

theorem lookup_foldl_extendStep (l : List (Item × P)) (s : Store P) :
    lookup (l.foldl extendStep s).map = l.foldl absStep (lookup s.map) := by
  induction l generalizing s with
  | nil => rfl
  | cons e l ih => rw [List.foldl_cons, ih, lookup_extendStep, List.foldl_cons]

theorem size_foldl_extendStep (l : List (Item × P)) (s : Store P) :
    (l.foldl extendStep s).size =
      s.size + ((l.map (·.1.key)).filter (fun k => !contains s.map k)).eraseDups.length := by
  refine size_foldl_of_step ?_ ?_ l s
  · intro s e hc
    rw [contains_eq] at hc
    cases hf : find? s.map e.1.key with
    | none => rw [hf] at hc; cases hc
    | some i =>
      rw [extendStep_of_find?_some hf]
      exact ⟨rfl, fun k => contains_setPrio _ _ _ _⟩
  · intro s e hc
    apply extendStep_of_find?_none
    rw [contains_eq] at hc
    cases hf : find? s.map e.1.key <;> simp_all

/-- closed form of the abstract fold: a key that occurs in `l` gets the priority of its LAST pair and the item
that `f` already had, else the item of its FIRST pair; a key that does not occur is left alone -/
theorem foldl_absStep_apply (l : List (Item × P)) (f : Nat → Option (Item × P)) (k : Nat) :
    l.foldl absStep f k =
      match l.reverse.find? (fun e => e.1.key == k) with
      | none => f k
      | some b => some ((((f k).or (l.find? (fun e => e.1.key == k))).map (·.1)).getD b.1, b.2) := by
  induction l generalizing f with
  | nil => rfl
  | cons e l ih =>
    rw [List.foldl_cons, ih, List.reverse_cons, List.find?_append]
    by_cases hk : e.1.key = k
    · have hk' : k = e.1.key := hk.symm
      rw [List.find?_cons_of_pos (l := l) (by simpa using hk), List.find?_cons_of_pos (l := []) (by simpa using hk)]
      have hf : absStep f e k = some (((f k).map (·.1)).getD e.1, e.2) := by unfold absStep; rw [if_pos hk']
      rw [hf]
      cases l.reverse.find? (fun e => e.1.key == k) with
      | none => cases f k <;> rfl
      | some b => cases f k <;> rfl
    · have hk' : ¬ k = e.1.key := fun h => hk h.symm
      rw [List.find?_cons_of_neg (l := l) (by simpa using hk), List.find?_cons_of_neg (l := []) (by simpa using hk)]
      have hf : absStep f e k = f k := by unfold absStep; rw [if_neg hk']
      rw [hf, List.find?_nil, Option.or_none]

theorem extend_eq (s : Store P) (xs : Array (Item × P)) : extend s xs = xs.toList.foldl extendStep s := by
  unfold extend; rw [Array.foldl_toList]

/-- **`extend` keeps `WF`** -/
theorem wf_extend {s : Store P} (h : s.WF) (xs : Array (Item × P)) : (extend s xs).WF := by
  rw [extend_eq]; exact wf_foldl_extendStep _ h

/-- **entries after `extend`**, as a fold of the abstract step -/
theorem lookup_extend (s : Store P) (xs : Array (Item × P)) :
    lookup (extend s xs).map = xs.foldl absStep (lookup s.map) := by
  rw [extend_eq, lookup_foldl_extendStep, Array.foldl_toList]

/-- **entries after `extend`**, closed form: priority of the LAST pair with the key; item already stored in `s`,
else the item of the FIRST pair with the key; keys not mentioned are unchanged -/
theorem lookup_extend_apply (s : Store P) (xs : Array (Item × P)) (k : Nat) :
    lookup (extend s xs).map k =
      match xs.toList.reverse.find? (fun e => e.1.key == k) with
      | none => lookup s.map k
      | some b =>
        some ((((lookup s.map k).or (xs.toList.find? (fun e => e.1.key == k))).map (·.1)).getD b.1, b.2) := by
  rw [extend_eq, lookup_foldl_extendStep, foldl_absStep_apply]

/-- a key no pair mentions is unchanged -/
theorem lookup_extend_of_not_mem (s : Store P) (xs : Array (Item × P)) (k : Nat)
    (h : ∀ e, e ∈ xs → e.1.key ≠ k) : lookup (extend s xs).map k = lookup s.map k := by
  rw [lookup_extend_apply]
  have : xs.toList.reverse.find? (fun e => e.1.key == k) = none := by
    rw [List.find?_eq_none]
    intro x hx
    simpa using h x (by simpa using hx)
  rw [this]

/-- a key already stored keeps its stored item and gets the priority of the LAST pair mentioning it -/
theorem lookup_extend_of_present {s : Store P} {xs : Array (Item × P)} {k : Nat} {it : Item} {p : P}
    {b : Item × P} (hs : lookup s.map k = some (it, p))
    (hb : xs.toList.reverse.find? (fun e => e.1.key == k) = some b) :
    lookup (extend s xs).map k = some (it, b.2) := by
  rw [lookup_extend_apply, hb, hs]; rfl

/-- a new key gets the item of the FIRST pair and the priority of the LAST pair mentioning it -/
theorem lookup_extend_of_absent {s : Store P} {xs : Array (Item × P)} {k : Nat} {a b : Item × P}
    (hs : lookup s.map k = none)
    (ha : xs.toList.find? (fun e => e.1.key == k) = some a)
    (hb : xs.toList.reverse.find? (fun e => e.1.key == k) = some b) :
    lookup (extend s xs).map k = some (a.1, b.2) := by
  rw [lookup_extend_apply, hb, hs, ha]; rfl

theorem size_extend (s : Store P) (xs : Array (Item × P)) :
    (extend s xs).size =
      s.size + ((xs.toList.map (·.1.key)).filter (fun k => !contains s.map k)).eraseDups.length := by
  rw [extend_eq, size_foldl_extendStep]

@[simp] theorem ticks_extend (s : Store P) (xs : Array (Item × P)) : (extend s xs).ticks = s.ticks := by
  rw [extend_eq]
  generalize xs.toList = l
  induction l generalizing s with
  | nil => rfl
  | cons e l ih => rw [List.foldl_cons, ih, ticks_extendStep]

/-! ## `fromIterStep`, `fromIter` -/

/-- abstract effect of one `from_iter` step: the incoming pair replaces whatever was there -/
def absStep' (f : Nat → Option (Item × P)) (e : Item × P) : Nat → Option (Item × P) :=
  fun k => if k = e.1.key then some e else f k

theorem fromIterStep_of_find?_none {s : Store P} {e : Item × P} (h : find? s.map e.1.key = none) :
    fromIterStep s e = pushTail s e := by
  unfold fromIterStep; rw [h]; rfl

theorem fromIterStep_of_find?_some {s : Store P} {e : Item × P} {i : Nat} (h : find? s.map e.1.key = some i) :
    fromIterStep s e = { s with map := s.map.setIfInBounds i e } := by
  unfold fromIterStep; rw [h]

/-- **one `from_iter` step keeps `WF`** -/
theorem wf_fromIterStep {s : Store P} (h : s.WF) (e : Item × P) : (fromIterStep s e).WF := by
  cases hf : find? s.map e.1.key with
  | none => rw [fromIterStep_of_find?_none hf]; exact wf_pushTail h hf
  | some i =>
    obtain ⟨e0, he0, hk0⟩ := find?_getElem? hf
    rw [fromIterStep_of_find?_some hf]
    exact wf_of_map_update h (Array.size_setIfInBounds ..) (h.nodup.setIfInBounds he0 hk0.symm)

/-- **entries after one `from_iter` step** (no hypothesis needed) -/
theorem lookup_fromIterStep (s : Store P) (e : Item × P) :
    lookup (fromIterStep s e).map = absStep' (lookup s.map) e := by
  funext k
  unfold absStep'
  cases hf : find? s.map e.1.key with
  | none => rw [fromIterStep_of_find?_none hf, lookup_pushTail hf]
  | some i =>
    obtain ⟨e0, he0, hk0⟩ := find?_getElem? hf
    rw [fromIterStep_of_find?_some hf]
    show lookup (s.map.setIfInBounds i e) k = _
    rw [lookup_setIfInBounds' he0 hk0.symm]
    by_cases hk : k = e.1.key
    · subst hk; rw [if_pos hf, if_pos rfl]
    · rw [if_neg hk, if_neg]
      intro hf'
      obtain ⟨e', he', hk'⟩ := find?_getElem? hf'
      rw [he0] at he'; cases he'
      exact hk (hk'.symm.trans hk0)

theorem wf_foldl_fromIterStep (l : List (Item × P)) {s : Store P} (h : s.WF) :
    (l.foldl fromIterStep s).WF := by
  induction l generalizing s with
  | nil => exact h
  | cons e l ih => exact ih (wf_fromIterStep h e)

theorem lookup_foldl_fromIterStep (l : List (Item × P)) (s : Store P) :
    lookup (l.foldl fromIterStep s).map = l.foldl absStep' (lookup s.map) := by
  induction l generalizing s with
  | nil => rfl
  | cons e l ih => rw [List.foldl_cons, ih, lookup_fromIterStep, List.foldl_cons]

theorem size_foldl_fromIterStep (l : List (Item × P)) (s : Store P) :
    (l.foldl fromIterStep s).size =
      s.size + ((l.map (·.1.key)).filter (fun k => !contains s.map k)).eraseDups.length := by
  refine size_foldl_of_step ?_ ?_ l s
  · intro s e hc
    rw [contains_eq] at hc
    cases hf : find? s.map e.1.key with
    | none => rw [hf] at hc; cases hc
    | some i =>
      obtain ⟨e0, he0, hk0⟩ := find?_getElem? hf
      rw [fromIterStep_of_find?_some hf]
      refine ⟨rfl, fun k => ?_⟩
      show contains (s.map.setIfInBounds i e) k = _
      rw [contains_eq, contains_eq, find?_setIfInBounds he0 hk0.symm]
  · intro s e hc
    apply fromIterStep_of_find?_none
    rw [contains_eq] at hc
    cases hf : find? s.map e.1.key <;> simp_all

/-- closed form of the abstract fold: the LAST pair of each key wins -/
theorem foldl_absStep'_apply (l : List (Item × P)) (f : Nat → Option (Item × P)) (k : Nat) :
    l.foldl absStep' f k = (l.reverse.find? (fun e => e.1.key == k)).or (f k) := by
  induction l generalizing f with
  | nil => rfl
  | cons e l ih =>
    rw [List.foldl_cons, ih, List.reverse_cons, List.find?_append, Option.or_assoc]
    congr 1
    unfold absStep'
    by_cases hk : e.1.key = k
    · rw [if_pos hk.symm, List.find?_cons_of_pos (by simpa using hk), Option.some_or]
    · rw [if_neg (fun h => hk h.symm), List.find?_cons_of_neg (by simpa using hk), List.find?_nil, Option.none_or]

theorem fromIter_eq (xs : Array (Item × P)) : fromIter xs = xs.toList.foldl fromIterStep empty := by
  unfold fromIter; rw [Array.foldl_toList]

/-- **`from_iter` builds a well-formed store** from any sequence -/
theorem wf_fromIter (xs : Array (Item × P)) : (fromIter xs).WF := by
  rw [fromIter_eq]; exact wf_foldl_fromIterStep _ wf_empty

/-- **entries after `from_iter`**, as a fold of the abstract step -/
theorem lookup_fromIter_fold (xs : Array (Item × P)) :
    lookup (fromIter xs).map = xs.foldl absStep' (fun _ => none) := by
  rw [fromIter_eq, lookup_foldl_fromIterStep, Array.foldl_toList]; rfl

/-- **`from_iter` keeps the LAST pair given for each key**, with that pair's item -/
theorem lookup_fromIter (xs : Array (Item × P)) (k : Nat) :
    lookup (fromIter xs).map k = xs.toList.reverse.find? (fun e => e.1.key == k) := by
  rw [fromIter_eq, lookup_foldl_fromIterStep, foldl_absStep'_apply, lookup_empty, Option.or_none]

theorem size_fromIter (xs : Array (Item × P)) :
    (fromIter xs).size = (xs.toList.map (·.1.key)).eraseDups.length := by
  rw [fromIter_eq, size_foldl_fromIterStep, filter_not_contains_empty, size_empty, Nat.zero_add]

/-! ## `visitSeqStep`, `visitSeq` (the deserializer's loop) -/

/-- the deserializer's step is the `extend` step -/
theorem visitSeqStep_eq_extendStep (s : Store P) (e : Item × P) : visitSeqStep s e = extendStep s e := by
  unfold visitSeqStep
  rcases insertFull_cases s.map e.1 e.2 with ⟨i, e0, hf, he, hk, h⟩ | ⟨hf, h⟩
  · rw [h, extendStep_of_find?_some hf, setPrio_of_getElem? he]
  · rw [h, extendStep_of_find?_none hf]; rfl

theorem visitSeq_eq_extend (xs : Array (Item × P)) : visitSeq xs = extend empty xs := by
  have : @visitSeqStep P = extendStep := funext fun s => funext fun e => visitSeqStep_eq_extendStep s e
  unfold visitSeq extend; rw [this]

/-- one deserializer step keeps `WF` -/
theorem wf_visitSeqStep {s : Store P} (h : s.WF) (e : Item × P) : (visitSeqStep s e).WF := by
  rw [visitSeqStep_eq_extendStep]; exact wf_extendStep h e

theorem lookup_visitSeqStep (s : Store P) (e : Item × P) :
    lookup (visitSeqStep s e).map = absStep (lookup s.map) e := by
  rw [visitSeqStep_eq_extendStep]; exact lookup_extendStep s e

/-- **C15, totality half: the deserializer's loop yields a well-formed store for EVERY input sequence**
(repeated items do not corrupt the tables) -/
theorem wf_visitSeq (xs : Array (Item × P)) : (visitSeq xs).WF := by
  rw [visitSeq_eq_extend]; exact wf_extend wf_empty xs

/-- entries after `visit_seq`, as a fold of the abstract step -/
theorem lookup_visitSeq_fold (xs : Array (Item × P)) :
    lookup (visitSeq xs).map = xs.foldl absStep (fun _ => none) := by
  rw [visitSeq_eq_extend, lookup_extend]; rfl

/-- **entries after `visit_seq`**: each key gets the item of its FIRST pair and the priority of its LAST pair -/
theorem lookup_visitSeq (xs : Array (Item × P)) (k : Nat) :
    lookup (visitSeq xs).map k =
      match xs.toList.reverse.find? (fun e => e.1.key == k) with
      | none => none
      | some b => some (((xs.toList.find? (fun e => e.1.key == k)).map (·.1)).getD b.1, b.2) := by
  rw [visitSeq_eq_extend, lookup_extend_apply]
  simp only [lookup_empty, Option.none_or]

/-- exactly the keys of the sequence are held … -/
theorem lookup_visitSeq_isSome_iff (xs : Array (Item × P)) (k : Nat) :
    (∃ e, e ∈ xs ∧ e.1.key = k) ↔ (lookup (visitSeq xs).map k).isSome = true := by
  rw [lookup_visitSeq]
  have h1 := find?_key_reverse_isSome xs.toList k
  have h2 := find?_key_isSome_iff (l := xs.toList) (k := k)
  simp only [Array.mem_toList_iff] at h2
  rw [← h2, ← h1]
  cases xs.toList.reverse.find? (fun e => e.1.key == k) <;> simp

/-- … each with an item and a priority given for it in the sequence (the FIRST item, the LAST priority) -/
theorem lookup_visitSeq_some {xs : Array (Item × P)} {k : Nat} {it : Item} {p : P}
    (h : lookup (visitSeq xs).map k = some (it, p)) :
    (∃ e, e ∈ xs ∧ e.1.key = k ∧ e.2 = p) ∧ (∃ e, e ∈ xs ∧ e.1.key = k ∧ e.1 = it) := by
  rw [lookup_visitSeq] at h
  have h1 := find?_key_reverse_isSome xs.toList k
  cases hb : xs.toList.reverse.find? (fun e => e.1.key == k) with
  | none => rw [hb] at h; cases h
  | some b =>
    rw [hb] at h h1
    have hbm := List.mem_of_find?_eq_some hb
    have hbk := List.find?_some hb
    cases ha : xs.toList.find? (fun e => e.1.key == k) with
    | none => rw [ha] at h1; cases h1
    | some a =>
      rw [ha] at h
      have ham := List.mem_of_find?_eq_some ha
      have hak := List.find?_some ha
      simp only [Option.map_some, Option.getD_some, Option.some.injEq, Prod.mk.injEq] at h
      refine ⟨⟨b, by simpa using hbm, by simpa using hbk, h.2⟩, ⟨a, by simpa using ham, by simpa using hak, h.1⟩⟩

/-- the size counter agrees with the map -/
theorem size_visitSeq_eq_map_size (xs : Array (Item × P)) : (visitSeq xs).size = (visitSeq xs).map.size :=
  (wf_visitSeq xs).size_eq_map_size

/-- **`visit_seq` holds every distinct item of the sequence once** -/
theorem size_visitSeq (xs : Array (Item × P)) :
    (visitSeq xs).size = (xs.toList.map (·.1.key)).eraseDups.length := by
  rw [visitSeq_eq_extend, size_extend, filter_not_contains_empty, size_empty, Nat.zero_add]

/-! ## `retainMut` -/

@[simp] theorem retainMut_map (s : Store P) (f : Item → P → Bool × Item × P) :
    (retainMut s f).map = s.map.retain f := by
  unfold retainMut; simp only; split <;> rfl

@[simp] theorem retainMut_ticks (s : Store P) (f : Item → P → Bool × Item × P) :
    (retainMut s f).ticks = s.ticks := by
  unfold retainMut; simp only; split <;> rfl

/-- when the length changed the tables are rebuilt as identity tables -/
theorem retainMut_of_size_ne {s : Store P} {f : Item → P → Bool × Item × P}
    (h : (s.map.retain f).size ≠ s.size) :
    retainMut s f =
      { map := s.map.retain f, heap := Array.range (s.map.retain f).size,
        qp := Array.range (s.map.retain f).size, size := (s.map.retain f).size, ticks := s.ticks } := by
  unfold retainMut; simp only; rw [if_pos h]

/-- when the length did not change the tables are left alone -/
theorem retainMut_of_size_eq {s : Store P} {f : Item → P → Bool × Item × P}
    (h : (s.map.retain f).size = s.size) :
    retainMut s f = { s with map := s.map.retain f } := by
  unfold retainMut; simp only; rw [if_neg (by simpa using h)]

/-- the size counter agrees with the map afterwards (no hypothesis at all) -/
theorem size_retainMut (s : Store P) (f : Item → P → Bool × Item × P) :
    (retainMut s f).size = (s.map.retain f).size := by
  by_cases h : (s.map.retain f).size = s.size
  · rw [retainMut_of_size_eq h]; exact h.symm
  · rw [retainMut_of_size_ne h]

/-- **`retain_mut` keeps `WF`** when the closure does not change keys (both branches) -/
theorem wf_retainMut {s : Store P} (h : s.WF) {f : Item → P → Bool × Item × P}
    (hf : ∀ it p, (f it p).2.1.key = it.key) : (retainMut s f).WF := by
  by_cases hs : (s.map.retain f).size = s.size
  · rw [retainMut_of_size_eq hs]
    exact wf_of_map_update h (hs.trans h.map_size.symm) (h.nodup.retain hf)
  · rw [retainMut_of_size_ne hs]
    exact wf_identity (h.nodup.retain hf) s.ticks

/-- **entries after `retain_mut`**: each stored entry is passed through the closure -/
theorem lookup_retainMut {s : Store P} (h : s.WF) {f : Item → P → Bool × Item × P}
    (hf : ∀ it p, (f it p).2.1.key = it.key) (k : Nat) :
    lookup (retainMut s f).map k = (lookup s.map k).bind (retainStep f) := by
  rw [retainMut_map]; exact lookup_retain h.nodup hf k

/-- **call log of `retain_mut`**: the closure is applied to the entries in slot order, each exactly once; the
surviving images stay in that order (no hypothesis on the closure) -/
theorem toList_retainMut (s : Store P) (f : Item → P → Bool × Item × P) :
    (retainMut s f).map.toList = s.map.toList.filterMap (retainStep f) := by
  rw [retainMut_map]; exact toList_retain' s.map f

/-! ## `append` -/

/-- receiver and donor of `append` after the possible swap (the larger store receives) -/
def appendOrder (s o : Store P) : Store P × Store P := if o.size > s.size then (o, s) else (s, o)

theorem append_eq (s o : Store P) :
    append s o =
      if (appendOrder s o).2.size = 0 then appendOrder s o
      else ((appendOrder s o).2.map.toList.foldl pushIfAbsent (appendOrder s o).1, (drain (appendOrder s o).2).2) := by
  unfold append appendOrder
  by_cases h : o.size > s.size
  · simp only [if_pos h]
    split
    · rfl
    · simp only [drain, Array.foldl_toList]
  · simp only [if_neg h]
    split
    · rfl
    · simp only [drain, Array.foldl_toList]

theorem appendOrder_cases (s o : Store P) :
    appendOrder s o = (o, s) ∨ appendOrder s o = (s, o) := by
  unfold appendOrder; split
  · exact .inl rfl
  · exact .inr rfl

theorem wf_appendOrder {s o : Store P} (hs : s.WF) (ho : o.WF) :
    (appendOrder s o).1.WF ∧ (appendOrder s o).2.WF := by
  rcases appendOrder_cases s o with h | h <;> rw [h]
  · exact ⟨ho, hs⟩
  · exact ⟨hs, ho⟩

/-- **`append`: the receiver stays well-formed** -/
theorem wf_append_fst {s o : Store P} (hs : s.WF) (ho : o.WF) : (append s o).1.WF := by
  obtain ⟨hb, hsm⟩ := wf_appendOrder hs ho
  rw [append_eq]
  split
  · exact hb
  · exact wf_foldl_pushIfAbsent _ hb

/-- **`append`: the donor is left empty** (always: it was empty already, or it was drained) -/
theorem append_snd_tables {s o : Store P} (hs : s.WF) (ho : o.WF) :
    (append s o).2.map = #[] ∧ (append s o).2.heap = #[] ∧ (append s o).2.qp = #[] ∧ (append s o).2.size = 0 ∧
      (append s o).2.ticks = (appendOrder s o).2.ticks := by
  obtain ⟨hb, hsm⟩ := wf_appendOrder hs ho
  rw [append_eq]
  split
  · rename_i h0
    obtain ⟨h1, h2, h3⟩ := hsm.tables_empty_of_size_zero h0
    exact ⟨h1, h2, h3, h0, rfl⟩
  · exact drain_tables _

/-- **`append`: the donor stays well-formed** -/
theorem wf_append_snd {s o : Store P} (hs : s.WF) (ho : o.WF) : (append s o).2.WF := by
  obtain ⟨h1, h2, h3, h4, _⟩ := append_snd_tables hs ho
  exact wf_of_tables_empty h1 h2 h3 h4

/-- **entries after `append`**: the union; on a clash the entry of the receiver (after the possible swap) stays -/
theorem lookup_append {s o : Store P} (hs : s.WF) (ho : o.WF) (k : Nat) :
    lookup (append s o).1.map k =
      (lookup (appendOrder s o).1.map k).or (lookup (appendOrder s o).2.map k) := by
  obtain ⟨hb, hsm⟩ := wf_appendOrder hs ho
  rw [append_eq]
  split
  · rename_i h0
    rw [(hsm.tables_empty_of_size_zero h0).1]
    show _ = (lookup (appendOrder s o).1.map k).or none
    rw [Option.or_none]
  · rw [lookup_foldl_pushIfAbsent]; rfl

/-- the same with the swap spelled out -/
theorem lookup_append' {s o : Store P} (hs : s.WF) (ho : o.WF) (k : Nat) :
    lookup (append s o).1.map k =
      if o.size > s.size then (lookup o.map k).or (lookup s.map k) else (lookup s.map k).or (lookup o.map k) := by
  rw [lookup_append hs ho]
  unfold appendOrder
  split <;> rfl

theorem lookup_append_snd {s o : Store P} (hs : s.WF) (ho : o.WF) (k : Nat) :
    lookup (append s o).2.map k = none := by
  rw [(append_snd_tables hs ho).1]; rfl

theorem ticks_append_fst (s o : Store P) : (append s o).1.ticks = (appendOrder s o).1.ticks := by
  rw [append_eq]
  split
  · rfl
  · exact ticks_foldl_pushIfAbsent _ _

theorem eraseDups_of_nodup {l : List Nat} (h : l.Nodup) : l.eraseDups = l := by
  induction l with
  | nil => rfl
  | cons a l ih =>
    rw [List.nodup_cons] at h
    rw [List.eraseDups_cons]
    have : l.filter (fun b => !b == a) = l := by
      rw [List.filter_eq_self]
      intro b hb
      have : b ≠ a := fun hba => h.1 (hba ▸ hb)
      simpa using this
    rw [this, ih h.2]

/-- the receiver grows by the number of donor entries whose key it did not hold -/
theorem size_append_fst {s o : Store P} (hs : s.WF) (ho : o.WF) :
    (append s o).1.size =
      (appendOrder s o).1.size +
        ((appendOrder s o).2.map.toList.filter (fun e => !contains (appendOrder s o).1.map e.1.key)).length := by
  obtain ⟨hb, hsm⟩ := wf_appendOrder hs ho
  rw [append_eq]
  split
  · rename_i h0
    rw [(hsm.tables_empty_of_size_zero h0).1]; rfl
  · show (List.foldl pushIfAbsent _ _).size = _
    rw [size_foldl_pushIfAbsent, eraseDups_of_nodup, List.filter_map, List.length_map]
    · rfl
    · exact (noDupKeys_iff_nodup.1 hsm.nodup).filter _

/-! ## Examples: the statements above on concrete data -/

section Examples

private def v3 : Array (Item × Nat) := #[(⟨1, 0⟩, 5), (⟨1, 9⟩, 7), (⟨2, 0⟩, 1)]

-- `From<Vec>`: well-formed, keeps the FIRST pair of key 1, two distinct keys
example : (fromVec v3).WF := wf_fromVec v3
example : lookup (fromVec v3).map 1 = some (⟨1, 0⟩, 5) := by decide +kernel
example : lookup (fromVec v3).map 1 = some (⟨1, 0⟩, 5) := by rw [lookup_fromVec]; decide
example : (fromVec v3).size = 2 ∧ (fromVec v3).heap = #[0, 1] ∧ (fromVec v3).qp = #[0, 1] := by decide +kernel
example : (fromVec v3).map = #[(⟨1, 0⟩, 5), (⟨2, 0⟩, 1)] := by decide +kernel

-- `visit_seq` of the same sequence: item of the FIRST pair, priority of the LAST pair
example : (visitSeq v3).WF := wf_visitSeq v3
example : lookup (visitSeq v3).map 1 = some (⟨1, 0⟩, 7) := by decide +kernel
example : lookup (visitSeq v3).map 1 = some (⟨1, 0⟩, 7) := by rw [lookup_visitSeq]; decide
example : (visitSeq v3).size = 2 ∧ (visitSeq v3).map.size = 2 := by decide +kernel

-- `from_iter`: the LAST pair, with its own item
example : (fromIter v3).WF := wf_fromIter v3
example : lookup (fromIter v3).map 1 = some (⟨1, 9⟩, 7) := by decide +kernel
example : lookup (fromIter v3).map 1 = some (⟨1, 9⟩, 7) := by rw [lookup_fromIter]; decide

-- `extend` from a store already holding key 1: the stored payload stays, the priority is the last one given;
-- the new key 2 gets the item of its first pair and the priority of its last pair
private def s1 : Store Nat := fromVec #[(⟨1, 0⟩, 5)]
private def x3 : Array (Item × Nat) := #[(⟨1, 9⟩, 7), (⟨2, 3⟩, 1), (⟨1, 8⟩, 6), (⟨2, 4⟩, 8)]
example : s1.WF := wf_fromVec _
example : (extend s1 x3).WF := wf_extend (wf_fromVec _) x3
example : lookup (extend s1 x3).map 1 = some (⟨1, 0⟩, 6) := by decide +kernel
example : lookup (extend s1 x3).map 2 = some (⟨2, 3⟩, 8) := by decide +kernel
example : lookup (extend s1 x3).map 3 = none := by decide +kernel
example : (extend s1 x3).size = 2 := by decide +kernel

-- tail push: hypotheses of `wf_pushTail` hold for `s1` and a new key
private def e2 : Item × Nat := (⟨2, 0⟩, 4)
example : find? s1.map e2.1.key = none := by decide +kernel
example : (pushTail s1 e2).WF := wf_pushTail (wf_fromVec _) (by decide +kernel)
example : (pushTail s1 e2).heap = #[0, 1] ∧ (pushTail s1 e2).qp = #[0, 1] := by decide +kernel

-- `pushIfAbsent`: first one wins
example : lookup (pushIfAbsent s1 (⟨1, 9⟩, 7)).map 1 = some (⟨1, 0⟩, 5) := by decide +kernel
example : lookup (pushIfAbsent s1 (⟨2, 9⟩, 7)).map 2 = some (⟨2, 9⟩, 7) := by decide +kernel

-- `retain_mut` with a key-preserving closure, both branches
private def s3 : Store Nat := fromVec #[(⟨1, 0⟩, 5), (⟨2, 0⟩, 7), (⟨3, 0⟩, 6)]
private def fDrop : Item → Nat → Bool × Item × Nat := fun it p => (p != 7, ⟨it.key, it.payload + 1⟩, p + 1)
private def fKeep : Item → Nat → Bool × Item × Nat := fun it p => (true, ⟨it.key, it.payload + 1⟩, p + 1)
example : ∀ it p, (fDrop it p).2.1.key = it.key := fun _ _ => rfl
example : (retainMut s3 fDrop).WF := wf_retainMut (wf_fromVec _) (fun _ _ => rfl)
example : (retainMut s3 fKeep).WF := wf_retainMut (wf_fromVec _) (fun _ _ => rfl)
example : (retainMut s3 fDrop).map = #[(⟨1, 1⟩, 6), (⟨3, 1⟩, 7)] ∧ (retainMut s3 fDrop).size = 2 ∧
    (retainMut s3 fDrop).heap = #[0, 1] := by decide +kernel
example : (retainMut s3 fKeep).map = #[(⟨1, 1⟩, 6), (⟨2, 1⟩, 8), (⟨3, 1⟩, 7)] ∧ (retainMut s3 fKeep).size = 3 := by
  decide +kernel

-- `append`: the larger store receives and wins on a clash; the donor ends empty
private def sA : Store Nat := fromVec #[(⟨1, 0⟩, 5)]
private def sB : Store Nat := fromVec #[(⟨1, 9⟩, 7), (⟨2, 0⟩, 1)]
example : (append sA sB).1.WF ∧ (append sA sB).2.WF :=
  ⟨wf_append_fst (wf_fromVec _) (wf_fromVec _), wf_append_snd (wf_fromVec _) (wf_fromVec _)⟩
example : (append sA sB).1.map = #[(⟨1, 9⟩, 7), (⟨2, 0⟩, 1)] ∧ (append sA sB).2.map = #[] ∧
    (append sA sB).2.size = 0 := by decide +kernel
example : (append sB sA).1.map = #[(⟨1, 9⟩, 7), (⟨2, 0⟩, 1)] ∧ (append sB sA).2.map = #[] := by decide +kernel
example : (append sA (empty : Store Nat)).1.map = sA.map ∧ (append sA (empty : Store Nat)).2.map = #[] := by
  decide +kernel

-- identity tables
example : WF ({ map := v3.extract 1 3, heap := Array.range 2, qp := Array.range 2, size := 2, ticks := 0 } : Store Nat) :=
  wf_identity (m := v3.extract 1 3) (by decide) 0

end Examples

end PQ.Store
