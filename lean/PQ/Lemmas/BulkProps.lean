import PQ.Model.Ops
import PQ.Lemmas.Spec
import PQ.Lemmas.PQOps
import PQ.Lemmas.DQOps
import PQ.Props.C14
/-!
# Helpers for the property files C06, C07, C08, C15 (all names carry the prefix `bp_`)

* `bp_popCalls`: the PQ sorted iterator consumed from the front (`next = pop`);
* `bp_sortedCalls_append`, `bp_sortedCalls_count`: the DPQ sorted iterator over a split call list;
* `bp_size_eq_of_abs_eq`: two well-formed stores with the same contents have the same length;
* `bp_visitSeq_map`: deserializing a duplicate-free entry list reproduces exactly that list;
* `bp_extend_common`: closed form and length of `extend`;
* `bp_exP`, `bp_exW`, `bp_exO`, `bp_okR`, …: concrete data for the examples of the property files.

(The `iter_mut` program runner `iterMutRun` is treated in `PQ/Lemmas/History.lean`: `hist_iterMutRun_spec`.)
-/
set_option linter.unusedSimpArgs false
set_option linter.unusedSectionVars false
set_option linter.unusedVariables false
namespace PQ
open Arith Store

/-! ## Equal contents, equal length -/
section Size
variable {P : Type}

theorem bp_size_eq_of_abs_eq {s t : Store P} (hs : s.WF) (ht : t.WF) (h : ∀ k, (s.abs k).isSome = (t.abs k).isSome) :
    s.size = t.size := by
  rw [← hs.map_size, ← ht.map_size, ← IMap.length_keys, ← IMap.length_keys]
  apply List.Perm.length_eq
  have e1 : (IMap.keys s.map).Nodup := IMap.noDupKeys_iff_nodup.1 hs.nodup
  have e2 : (IMap.keys t.map).Nodup := IMap.noDupKeys_iff_nodup.1 ht.nodup
  rw [List.perm_ext_iff_of_nodup e1 e2]
  intro k
  rw [IMap.mem_keys_iff_lookup, IMap.mem_keys_iff_lookup]
  have := h k
  simp only [Store.abs] at this
  rw [this]

/-- a list of entries with pairwise distinct keys that has the same members as the map is a permutation of the map's
entry list -/
theorem bp_perm_of_mem {s : Store P} (hs : s.WF) {l : List (Item × P)} (hnd : (l.map (·.1.key)).Nodup)
    (hmem : ∀ e, e ∈ l ↔ s.Mem e) : l.Perm s.map.toList := by
  have h1 : l.Nodup := List.Pairwise.of_map (·.1.key) (fun a b h hab => h (hab ▸ rfl)) hnd
  have h2 : s.map.toList.Nodup :=
    List.Pairwise.of_map (·.1.key) (fun a b h hab => h (hab ▸ rfl)) (IMap.noDupKeys_iff_nodup.1 hs.nodup)
  rw [List.perm_ext_iff_of_nodup h1 h2]
  intro e
  rw [hmem e, Array.mem_toList_iff, Array.mem_iff_getElem?]
  rfl

end Size

/-! ## Deserializing a duplicate-free entry list -/
section VisitSeq
variable {P : Type}

theorem bp_foldl_visitSeqStep (l : List (Item × P)) : ∀ (s : Store P),
    (s.map.toList ++ l).Pairwise (fun a b => a.1.key ≠ b.1.key) →
    (l.foldl visitSeqStep s).map = s.map ++ l.toArray := by
  induction l with
  | nil => intro s _; simp
  | cons e l ih =>
    intro s hp
    have hf : IMap.find? s.map e.1.key = none := by
      rw [IMap.find?_eq_none_iff]
      intro i e' he' hk
      have hmem : e' ∈ s.map.toList := by
        rw [Array.mem_toList_iff, Array.mem_iff_getElem?]; exact ⟨i, he'⟩
      exact (List.pairwise_append.1 hp).2.2 e' hmem e (List.mem_cons_self ..) hk
    rw [List.foldl_cons, visitSeqStep_eq_extendStep, extendStep_of_find?_none hf, ih]
    · simp [pushTail_map]
    · simp only [pushTail_map, Array.toList_push, List.append_assoc, List.singleton_append]
      exact hp

/-- **the deserializer reproduces a duplicate-free entry list exactly** (same entries in the same slots) -/
theorem bp_visitSeq_map {m : IMap P} (hm : IMap.NoDupKeys m) : (visitSeq m).map = m := by
  have := bp_foldl_visitSeqStep m.toList (empty : Store P)
    (by simpa [empty] using IMap.noDupKeys_iff_pairwise.1 hm)
  unfold visitSeq
  rw [← Array.foldl_toList, this]
  simp [empty]

end VisitSeq

/-! ## The PQ sorted iterator consumed from the front -/
section PopCalls
variable {P : Type} [LT P] [DecidableLT P]

/-- `n` calls of `next` on `into_sorted_iter()` of a `PriorityQueue` (`next` is `pop`); returns the answers and the
queue still held by the iterator -/
def bp_popCalls : Nat → Store P → R (List (Option (Item × P)) × Store P)
  | 0, s => pure ([], s)
  | n + 1, s => do
    let (s, r) ← MaxQ.pop s
    let (rest, s) ← bp_popCalls n s
    pure (r :: rest, s)

variable [LE P] [Std.IsLinearPreorder P] [Std.LawfulOrderLT P]

theorem bp_popCalls_spec (n : Nat) : ∀ {s : Store P}, MaxQ.Inv s →
    ∃ l s', MaxQ.intoSortedVec s = .ok l ∧
      bp_popCalls n s = .ok ((l.take n).map some ++ List.replicate (n - l.length) none, s') ∧
      MaxQ.Inv s' ∧ s'.size = s.size - n ∧ MaxQ.intoSortedVec s' = .ok (l.drop n) := by
  induction n with
  | zero =>
    intro s h
    obtain ⟨l, hl, _⟩ := MaxQ.intoSortedVec_spec h
    exact ⟨l, s, hl, by simp [bp_popCalls, pure, Except.pure], h, by simp, by simpa using hl⟩
  | succ n ih =>
    intro s h
    obtain ⟨h0, h1⟩ := MaxQ.pop_spec h
    rcases Nat.eq_zero_or_pos s.size with hz | hpos
    · obtain ⟨l, s', hl, hrun, hinv, hsz, hrest⟩ := ih h
      have hnil : MaxQ.intoSortedVec s = .ok [] := by
        unfold MaxQ.intoSortedVec; rw [hz]; exact MaxQ.drainSorted_nil 0 hz
      rw [hnil] at hl; cases hl
      refine ⟨[], s', hnil, ?_, hinv, by omega, by simpa using hrest⟩
      simp only [bp_popCalls, h0 hz, bind, Except.bind, hrun, pure, Except.pure]
      simp [List.replicate_succ]
    · obtain ⟨s1, e, hpop, _, _, hinv1, _, hsz1⟩ := h1 hpos
      obtain ⟨l, s', hl, hrun, hinv, hsz, hrest⟩ := ih hinv1
      have hcons : MaxQ.intoSortedVec s = .ok (e :: l) := by
        unfold MaxQ.intoSortedVec at hl ⊢
        have : s.size = s1.size + 1 := by omega
        rw [this]
        exact MaxQ.drainSorted_cons hpop hl
      refine ⟨e :: l, s', hcons, ?_, hinv, by omega, by simpa using hrest⟩
      simp only [bp_popCalls, hpop, bind, Except.bind, hrun, pure, Except.pure]
      simp

end PopCalls

/-! ## The DPQ sorted iterator over a split call list -/
section SortedCalls
variable {P : Type} [LT P] [DecidableLT P] [LE P] [Std.IsLinearPreorder P] [Std.LawfulOrderLT P]

theorem bp_sortedCalls_cons_inv {x : Bool} {xs : List Bool} {s s' : Store P} {o : List (Option (Item × P))}
    (h : DQ.sortedCalls (x :: xs) s = .ok (o, s')) :
    ∃ s1 r rest, (if x = true then DQ.popMax s else DQ.popMin s) = .ok (s1, r) ∧
      DQ.sortedCalls xs s1 = .ok (rest, s') ∧ o = r :: rest := by
  cases x
  · simp only [DQ.sortedCalls, bind, Except.bind, Bool.false_eq_true, if_false] at h ⊢
    cases hstep : DQ.popMin s with
    | error f => rw [hstep] at h; cases h
    | ok v =>
      obtain ⟨sa, r⟩ := v
      rw [hstep] at h; simp only [] at h
      cases hrest : DQ.sortedCalls xs sa with
      | error f => rw [hrest] at h; cases h
      | ok v2 =>
        obtain ⟨rest, sb⟩ := v2
        rw [hrest] at h
        simp only [pure, Except.pure, Except.ok.injEq, Prod.mk.injEq] at h
        obtain ⟨rfl, rfl⟩ := h
        exact ⟨sa, r, rest, rfl, hrest, rfl⟩
  · simp only [DQ.sortedCalls, bind, Except.bind, if_true] at h ⊢
    cases hstep : DQ.popMax s with
    | error f => rw [hstep] at h; cases h
    | ok v =>
      obtain ⟨sa, r⟩ := v
      rw [hstep] at h; simp only [] at h
      cases hrest : DQ.sortedCalls xs sa with
      | error f => rw [hrest] at h; cases h
      | ok v2 =>
        obtain ⟨rest, sb⟩ := v2
        rw [hrest] at h
        simp only [pure, Except.pure, Except.ok.injEq, Prod.mk.injEq] at h
        obtain ⟨rfl, rfl⟩ := h
        exact ⟨sa, r, rest, rfl, hrest, rfl⟩

theorem bp_sortedCalls_append (a : List Bool) : ∀ (b : List Bool) (s s1 s2 : Store P) (o1 o2 : List (Option (Item × P))),
    DQ.sortedCalls a s = .ok (o1, s1) → DQ.sortedCalls b s1 = .ok (o2, s2) →
    DQ.sortedCalls (a ++ b) s = .ok (o1 ++ o2, s2) := by
  induction a with
  | nil =>
    intro b s s1 s2 o1 o2 h1 h2
    simp only [DQ.sortedCalls, pure, Except.pure, Except.ok.injEq, Prod.mk.injEq] at h1
    obtain ⟨rfl, rfl⟩ := h1
    simpa using h2
  | cons x xs ih =>
    intro b s s1 s2 o1 o2 h1 h2
    obtain ⟨sa, r, rest, hstep, hrest, rfl⟩ := bp_sortedCalls_cons_inv h1
    exact DQ.sortedCalls_cons_ok hstep (ih b sa s1 s2 rest o2 hrest h2)

/-- the size goes down by exactly the number of entries handed out -/
theorem bp_sortedCalls_count (calls : List Bool) : ∀ {s s' : Store P} {outs : List (Option (Item × P))}, s.WF →
    DQ.sortedCalls calls s = .ok (outs, s') → s'.size + (outs.filterMap id).length = s.size := by
  induction calls with
  | nil =>
    intro s s' outs _ h
    simp only [DQ.sortedCalls, pure, Except.pure, Except.ok.injEq, Prod.mk.injEq] at h
    obtain ⟨rfl, rfl⟩ := h
    simp
  | cons b bs ih =>
    intro s s' outs h hrun
    obtain ⟨h0, h1⟩ := DQ.sortedStep_core h b
    rcases Nat.eq_zero_or_pos s.size with hz | hn
    · obtain ⟨o2, s2, hr2, _⟩ := DQ.sortedCalls_safe h bs
      have := DQ.sortedCalls_cons_ok (h0 hz) hr2
      rw [this] at hrun
      simp only [Except.ok.injEq, Prod.mk.injEq] at hrun
      obtain ⟨rfl, rfl⟩ := hrun
      simpa using ih h hr2
    · obtain ⟨s1, e, hrun1, _, hwf1, _, hsz1, _⟩ := h1 hn
      obtain ⟨o2, s2, hr2, _⟩ := DQ.sortedCalls_safe hwf1 bs
      have := DQ.sortedCalls_cons_ok hrun1 hr2
      rw [this] at hrun
      simp only [Except.ok.injEq, Prod.mk.injEq] at hrun
      obtain ⟨rfl, rfl⟩ := hrun
      have := ih hwf1 hr2
      simp only [id_eq, List.filterMap_cons, List.length_cons]
      omega

/-- an exhausted iterator answers `none` to every call and keeps its (empty) state -/
theorem bp_sortedCalls_zero (calls : List Bool) : ∀ {s : Store P}, s.WF → s.size = 0 →
    DQ.sortedCalls calls s = .ok (List.replicate calls.length none, s) := by
  induction calls with
  | nil => intro s _ _; rfl
  | cons b bs ih =>
    intro s h hz
    exact DQ.sortedCalls_cons_ok ((DQ.sortedStep_core h b).1 hz) (ih h hz)

/-- **the state of the double-ended sorted iterator before call `j`**: it is the state reached by the first `j` calls,
it satisfies the invariant, its size is the original size minus the number of entries handed out so far; if it is
empty, call `j` and every later call answer `none`; otherwise call `j` answers a minimum (`next`) resp. a maximum
(`next_back`) of what it holds -/
theorem bp_sortedCalls_at {s s' : Store P} (h : DQ.Inv s) {calls : List Bool} {outs : List (Option (Item × P))}
    (hrun : DQ.sortedCalls calls s = .ok (outs, s')) (j : Nat) (hj : j < calls.length) :
    ∃ sj, DQ.sortedCalls (calls.take j) s = .ok (outs.take j, sj) ∧ DQ.Inv sj ∧
      sj.size + ((outs.take j).filterMap id).length = s.size ∧
      (sj.size = 0 → ∀ j', j ≤ j' → j' < calls.length → outs[j']? = some none) ∧
      (0 < sj.size → ∃ e, outs[j]? = some (some e) ∧
        if calls[j]? = some true then sj.IsMax e else sj.IsMin e) := by
  obtain ⟨o1, sj, hr1, hinv1, hlen1, _, _, _⟩ := DQ.sortedCalls_spec h (calls.take j)
  obtain ⟨o2, s2, hr2, _, hlen2, _, _, _⟩ := DQ.sortedCalls_spec hinv1 (calls.drop j)
  have happ := bp_sortedCalls_append _ _ _ _ _ _ _ hr1 hr2
  rw [List.take_append_drop, hrun] at happ
  simp only [Except.ok.injEq, Prod.mk.injEq] at happ
  obtain ⟨houts, _⟩ := happ
  have hl1 : o1.length = j := by rw [hlen1, List.length_take]; omega
  have htake : outs.take j = o1 := by rw [houts, List.take_left' hl1]
  have hget : ∀ j', j ≤ j' → outs[j']? = o2[j' - j]? := by
    intro j' hjj
    rw [houts, List.getElem?_append_right (by omega), hl1]
  refine ⟨sj, by rw [htake]; exact hr1, hinv1, by rw [htake]; exact bp_sortedCalls_count _ h.1 hr1, ?_, ?_⟩
  · intro hz j' hjj hj'
    have := bp_sortedCalls_zero (calls.drop j) hinv1.1 hz
    rw [hr2] at this
    simp only [Except.ok.injEq, Prod.mk.injEq] at this
    rw [hget j' hjj, this.1, List.getElem?_replicate, if_pos (by rw [List.length_drop]; omega)]
  · intro hpos
    have hdrop : calls.drop j = calls[j] :: calls.drop (j + 1) := List.drop_eq_getElem_cons hj
    rw [hdrop] at hr2
    obtain ⟨s1, r, rest, hstep, _, rfl⟩ := bp_sortedCalls_cons_inv hr2
    obtain ⟨s1', e, hstep', _, _, _, _, hord⟩ := (DQ.sortedStep_core hinv1.1 calls[j]).2 hpos
    rw [hstep] at hstep'
    simp only [Except.ok.injEq, Prod.mk.injEq] at hstep'
    obtain ⟨_, rfl⟩ := hstep'
    refine ⟨e, by rw [hget j (Nat.le_refl _)]; simp, ?_⟩
    have hq := (hord hinv1.2).2
    rw [List.getElem?_eq_getElem hj]
    unfold DQ.ExtremeQ at hq
    by_cases hc : calls[j] = true
    · rw [if_pos hc] at hq
      rw [if_pos (by rw [hc]), DQ.isMax_iff_abs hinv1.1]; exact hq
    · rw [if_neg hc] at hq
      rw [if_neg (by simpa using hc), DQ.isMin_iff_abs hinv1.1]; exact hq

end SortedCalls

/-! ## `extend`: closed form and length -/
section Extend
variable {P : Type}

/-- any well-formed store whose contents are the abstract `extend` fold has the closed-form contents (priority of the
LAST pair given for the key; the item that was stored, else the item of the FIRST pair given) and the length of
`Store.extend` (old length plus the number of distinct new keys) -/
theorem bp_extend_common {s s' : Store P} (hs : s.WF) (hs' : s'.WF) (xs : Array (Item × P))
    (habs : s'.abs = xs.foldl Store.absStep s.abs) :
    (∀ k, s'.abs k =
      match xs.toList.reverse.find? (fun e => e.1.key == k) with
      | none => s.abs k
      | some b => some ((((s.abs k).or (xs.toList.find? (fun e => e.1.key == k))).map (·.1)).getD b.1, b.2)) ∧
    s'.size = s.size + ((xs.toList.map (·.1.key)).filter (fun k => !IMap.contains s.map k)).eraseDups.length := by
  constructor
  · intro k
    rw [habs, ← Array.foldl_toList, foldl_absStep_apply]
    cases List.find? (fun e : Item × P => e.1.key == k) xs.toList.reverse <;> rfl
  · rw [← size_extend s xs]
    apply bp_size_eq_of_abs_eq hs' (wf_extend hs xs)
    intro k
    have : (Store.extend s xs).abs = xs.foldl Store.absStep s.abs := lookup_extend s xs
    rw [habs, this]

end Extend

/-! ## Concrete data for the examples of the property files -/
section Examples

/-- a five-element `PriorityQueue`; priorities by heap position: 9 / 5 7 / 1 3 -/
def bp_exP : Store Nat :=
  { map := #[(⟨1, 10⟩, 5), (⟨2, 20⟩, 9), (⟨3, 30⟩, 7), (⟨4, 40⟩, 1), (⟨5, 50⟩, 3)],
    heap := #[1, 0, 2, 3, 4], qp := #[1, 0, 2, 3, 4], size := 5 }

theorem bp_exP_inv : MaxQ.Inv bp_exP := by decide +kernel

/-- well-formed but NOT ordered as a max-heap (it happens to be a valid min-max heap; for a store that is neither see
`swf_exU` in `SortedWF.lean`) -/
def bp_exW : Store Nat :=
  { map := #[(⟨1, 10⟩, 5), (⟨2, 20⟩, 0), (⟨3, 30⟩, 7), (⟨4, 40⟩, 1), (⟨5, 50⟩, 3)],
    heap := #[1, 0, 2, 3, 4], qp := #[1, 0, 2, 3, 4], size := 5 }

theorem bp_exW_wf : bp_exW.WF := by decide +kernel

/-- a two-element store sharing key `1` with `bp_exP` / `bp_exW` -/
def bp_exO : Store Nat :=
  { map := #[(⟨1, 11⟩, 8), (⟨9, 90⟩, 2)], heap := #[1, 0], qp := #[1, 0], size := 2 }

theorem bp_exO_wf : bp_exO.WF := by decide +kernel

/-- a key-preserving predicate that rewrites payload and priority -/
def bp_fDrop : Item → Nat → Bool × Item × Nat := fun it p => (p != 7, ⟨it.key, it.payload + 1⟩, 10 - p)
theorem bp_fDrop_legal : ∀ it p, (bp_fDrop it p).2.1.key = it.key := fun _ _ => rfl

def bp_fYes : Item → Nat → Bool × Item × Nat := fun it p => (true, ⟨it.key, 99⟩, p + 1)
def bp_fNo : Item → Nat → Bool × Item × Nat := fun it p => (false, ⟨it.key, 99⟩, p + 1)
theorem bp_fYes_legal : ∀ it p, (bp_fYes it p).2.1.key = it.key := fun _ _ => rfl
theorem bp_fNo_legal : ∀ it p, (bp_fNo it p).2.1.key = it.key := fun _ _ => rfl

/-- "the result is `.ok x` and `x` satisfies `q`" (decidable when `q` is) -/
def bp_okR {α : Type} (r : R α) (q : α → Prop) : Prop :=
  match r with
  | .ok x => q x
  | .error _ => False

instance {α : Type} (r : R α) (q : α → Prop) [DecidablePred q] : Decidable (bp_okR r q) := by
  unfold bp_okR; split <;> infer_instance

end Examples

end PQ
