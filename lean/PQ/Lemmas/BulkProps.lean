import PQ.Model.Ops
import PQ.Lemmas.Spec
import PQ.Lemmas.PQOps
import PQ.Lemmas.DQOps
import PQ.Lemmas.IterLemmas
import PQ.Props.C14
/-!
# Helpers for the property files C06, C07, C08, C15 (all names carry the prefix `bp_`)

* `bp_replay`, `bp_applyW`: the effect of an `iter_mut` program on the map as a pure replay of the machine's outputs;
  `bp_iterMutRun_pq`, `bp_iterMutRun_dpq`: `iterMutRun` *is* "run the slot machine, then replay the writes";
* `bp_popCalls`: the PQ sorted iterator consumed from the front (`next = pop`);
* `bp_sortedCalls_append`, `bp_sortedCalls_count`: the DPQ sorted iterator over a split call list;
* `bp_size_eq_of_abs_eq`: two well-formed stores with the same contents have the same length;
* `bp_visitSeq_map`: deserializing a duplicate-free entry list reproduces exactly that list.
-/
set_option linter.unusedSimpArgs false
set_option linter.unusedSectionVars false
set_option linter.unusedVariables false
namespace PQ
open Arith Store

/-! ## `iter_mut`: replaying the writes -/
section IterMut
variable {P : Type}

/-- the write `w` applied to the entry `e` (payload and priority are writable, the key is not) -/
def bp_applyW (w : IMWrite P) (e : Item × P) : Item × P :=
  (match w.payload with | some pl => { e.1 with payload := pl } | none => e.1,
   match w.prio with | some p => p | none => e.2)

theorem bp_applyW_key (w : IMWrite P) (e : Item × P) : (bp_applyW w e).1.key = e.1.key := by
  unfold bp_applyW; cases w.payload <;> rfl

theorem bp_applyWrite_eq (m : IMap P) (i : Nat) (w : IMWrite P) :
    IMap.applyWrite m i w = match m[i]? with
      | some e => m.setIfInBounds i (bp_applyW w e)
      | none => m := rfl

theorem bp_size_applyWrite (m : IMap P) (i : Nat) (w : IMWrite P) : (IMap.applyWrite m i w).size = m.size := by
  rw [bp_applyWrite_eq]; split <;> simp

theorem bp_getElem?_applyWrite (m : IMap P) (i j : Nat) (w : IMWrite P) :
    (IMap.applyWrite m i w)[j]? = if i = j then (m[j]?).map (bp_applyW w) else m[j]? := by
  rw [bp_applyWrite_eq]
  cases h : m[i]? with
  | none =>
    simp only
    split
    · next hij => subst hij; rw [h]; rfl
    · rfl
  | some e =>
    simp only
    rw [Array.getElem?_setIfInBounds]
    split
    · next hij =>
      subst hij
      have : i < m.size := (Array.getElem?_eq_some_iff.1 h).1
      rw [if_pos this, h]; rfl
    · rfl

/-- the writes of the program `prog` replayed along the outputs `outs` of the slot machine: the write of call `j` goes
to the slot call `j` yielded (if it yielded one) -/
def bp_replay : List IOut → List (ICall × IMWrite P) → IMap P → IMap P
  | o :: os, (_, w) :: ps, m =>
    bp_replay os ps (match o with | .slot (some i) => IMap.applyWrite m i w | _ => m)
  | _, _, m => m

theorem bp_size_replay (outs : List IOut) : ∀ (prog : List (ICall × IMWrite P)) (m : IMap P),
    (bp_replay outs prog m).size = m.size := by
  induction outs with
  | nil => intro prog m; cases prog <;> rfl
  | cons o os ih =>
    intro prog m
    cases prog with
    | nil => rfl
    | cons cw ps =>
      obtain ⟨c, w⟩ := cw
      simp only [bp_replay]
      rw [ih]
      split
      · exact bp_size_applyWrite _ _ _
      · rfl

/-- a slot that was not yielded is untouched -/
theorem bp_replay_not_mem (outs : List IOut) : ∀ (prog : List (ICall × IMWrite P)) (m : IMap P) (i : Nat),
    i ∉ slots outs → (bp_replay outs prog m)[i]? = m[i]? := by
  induction outs with
  | nil => intro prog m i _; cases prog <;> rfl
  | cons o os ih =>
    intro prog m i hi
    cases prog with
    | nil => rfl
    | cons cw ps =>
      obtain ⟨c, w⟩ := cw
      simp only [bp_replay]
      cases o with
      | slot oi =>
        cases oi with
        | none => exact ih ps m i (by simpa using hi)
        | some i' =>
          simp only [slots_cons_some, List.mem_cons, not_or] at hi
          rw [ih ps _ i hi.2, bp_getElem?_applyWrite, if_neg (fun h => hi.1 h.symm)]
      | len k => exact ih ps m i (by simpa using hi)
      | hint lo hi' => exact ih ps m i (by simpa using hi)
      | unsupported => exact ih ps m i (by simpa using hi)

/-- a slot yielded by call `j` (and, slots being yielded at most once, by no other call) holds afterwards the entry it
had with the write of call `j` applied -/
theorem bp_replay_at (outs : List IOut) : ∀ (prog : List (ICall × IMWrite P)) (m : IMap P) (j i : Nat) (c : ICall)
    (w : IMWrite P), (slots outs).Nodup → outs[j]? = some (.slot (some i)) → prog[j]? = some (c, w) →
    (bp_replay outs prog m)[i]? = (m[i]?).map (bp_applyW w) := by
  induction outs with
  | nil => intro prog m j i c w _ ho; simp at ho
  | cons o os ih =>
    intro prog m j i c w hnd ho hp
    cases prog with
    | nil => simp at hp
    | cons cw ps =>
      obtain ⟨c0, w0⟩ := cw
      simp only [bp_replay]
      cases j with
      | zero =>
        simp only [List.getElem?_cons_zero, Option.some.injEq] at ho hp
        subst ho
        cases hp
        simp only [slots_cons_some, List.nodup_cons] at hnd
        rw [bp_replay_not_mem os ps _ i hnd.1, bp_getElem?_applyWrite, if_pos rfl]
      | succ j =>
        simp only [List.getElem?_cons_succ] at ho hp
        have hmem : i ∈ slots os := by
          have : os = os.take j ++ (.slot (some i) :: os.drop (j + 1)) := by
            have hj : j < os.length := by
              rcases Nat.lt_or_ge j os.length with h | h
              · exact h
              · rw [List.getElem?_eq_none h] at ho; cases ho
            rw [List.getElem?_eq_getElem hj] at ho
            have := List.take_append_drop j os
            rw [List.drop_eq_getElem_cons hj] at this
            rw [← Option.some.inj ho]; exact this.symm
          rw [this, slots_append]; simp
        cases o with
        | slot oi =>
          cases oi with
          | none => exact ih ps m j i c w (by simpa using hnd) ho hp
          | some i' =>
            simp only [slots_cons_some, List.nodup_cons] at hnd
            have hne : i' ≠ i := fun h => hnd.1 (h ▸ hmem)
            rw [ih ps _ j i c w hnd.2 ho hp, bp_getElem?_applyWrite, if_neg hne]
        | len k => exact ih ps m j i c w (by simpa using hnd) ho hp
        | hint lo hi' => exact ih ps m j i c w (by simpa using hnd) ho hp
        | unsupported => exact ih ps m j i c w (by simpa using hnd) ho hp

/-- writes never change a key -/
theorem bp_keys_replay (outs : List IOut) : ∀ (prog : List (ICall × IMWrite P)) (m : IMap P) (j : Nat),
    ((bp_replay outs prog m)[j]?).map (fun e : Item × P => e.1.key) = (m[j]?).map (fun e : Item × P => e.1.key) := by
  induction outs with
  | nil => intro prog m j; cases prog <;> rfl
  | cons o os ih =>
    intro prog m j
    cases prog with
    | nil => rfl
    | cons cw ps =>
      obtain ⟨c, w⟩ := cw
      simp only [bp_replay]
      rw [ih]
      split
      · rw [bp_getElem?_applyWrite]
        split
        · cases m[j]? <;> simp [bp_applyW_key]
        · rfl
      · rfl

theorem bp_noDup_replay {m : IMap P} (hm : IMap.NoDupKeys m) (outs : List IOut) (prog : List (ICall × IMWrite P)) :
    IMap.NoDupKeys (bp_replay outs prog m) :=
  hm.congr_keys (bp_keys_replay outs prog m)

/-- `iterMutRun` of the `PriorityQueue`: the outputs are those of the machine `PIterMut`, the map is the replay -/
theorem bp_iterMutRun_pq (n : Nat) : ∀ (prog : List (ICall × IMWrite P)) (pit : PIterMut) (dit : DIterMut) (m : IMap P),
    iterMutRun .pq n prog pit dit m =
      .ok (PIterMut.run n pit (prog.map (·.1)), bp_replay (PIterMut.run n pit (prog.map (·.1))) prog m) := by
  intro prog
  induction prog with
  | nil => intro pit dit m; rfl
  | cons cw ps ih =>
    intro pit dit m
    obtain ⟨c, w⟩ := cw
    simp only [iterMutRun, bind, Except.bind, pure, Except.pure, List.map_cons, PIterMut.run_cons]
    rw [ih]
    rfl

/-- `iterMutRun` of the `DoublePriorityQueue`: it faults iff the machine `DIterMut` does; otherwise the outputs are
the machine's and the map is the replay -/
theorem bp_iterMutRun_dpq (n : Nat) : ∀ (prog : List (ICall × IMWrite P)) (pit : PIterMut) (dit : DIterMut) (m : IMap P),
    iterMutRun .dpq n prog pit dit m =
      (match DIterMut.run n dit (prog.map (·.1)) with
       | .ok outs => .ok (outs, bp_replay outs prog m)
       | .error f => .error f) := by
  intro prog
  induction prog with
  | nil => intro pit dit m; rfl
  | cons cw ps ih =>
    intro pit dit m
    obtain ⟨c, w⟩ := cw
    simp only [iterMutRun, bind, Except.bind, pure, Except.pure, List.map_cons, DIterMut.run]
    cases hs : dit.step n c with
    | error f => rfl
    | ok v =>
      obtain ⟨dit', o⟩ := v
      simp only []
      rw [ih]
      cases DIterMut.run n dit' (ps.map (·.1)) with
      | error f => rfl
      | ok outs => rfl

end IterMut

end PQ
