import PQ.Lemmas.Defs
/-!
# Characterising lemmas for the array primitives of the model
-/
namespace PQ
variable {α : Type}

theorem getU_ok {a : Array α} {i site : Nat} {x : α} (h : a[i]? = some x) : getU a i site = .ok x := by
  simp [getU, h]

theorem getU_eq_ok_iff {a : Array α} {i site : Nat} {x : α} : getU a i site = .ok x ↔ a[i]? = some x := by
  unfold getU; split <;> simp_all

theorem getU_error {a : Array α} {i site : Nat} {f : Fault} (h : getU a i site = .error f) : f = .oob site ∧ a.size ≤ i := by
  unfold getU at h; split at h <;> simp_all

theorem setU_ok {a : Array α} {i site : Nat} (v : α) (h : i < a.size) : setU a i v site = .ok (a.setIfInBounds i v) := by
  simp [setU, h]

theorem setU_eq_ok_iff {a b : Array α} {i site : Nat} {v : α} : setU a i v site = .ok b ↔ i < a.size ∧ b = a.setIfInBounds i v := by
  unfold setU; split
  · constructor
    · intro h; injection h with h; exact ⟨by assumption, h.symm⟩
    · rintro ⟨_, rfl⟩; rfl
  · constructor
    · intro h; cases h
    · rintro ⟨h, _⟩; omega

theorem swapC_ok {a : Array α} {i j site : Nat} {x y : α} (hi : a[i]? = some x) (hj : a[j]? = some y) :
    swapC a i j site = .ok ((a.setIfInBounds i y).setIfInBounds j x) := by
  simp [swapC, hi, hj]

theorem swapC_eq_ok_iff {a b : Array α} {i j site : Nat} :
    swapC a i j site = .ok b ↔ ∃ x y, a[i]? = some x ∧ a[j]? = some y ∧ b = (a.setIfInBounds i y).setIfInBounds j x := by
  unfold swapC; split
  · rename_i x y hx hy
    constructor
    · intro h; injection h with h; exact ⟨x, y, hx, hy, h.symm⟩
    · rintro ⟨x', y', hx', hy', rfl⟩
      rw [hx] at hx'; rw [hy] at hy'; cases hx'; cases hy'; rfl
  · rename_i hn
    constructor
    · intro h; cases h
    · rintro ⟨x, y, hx, hy, _⟩; exact absurd hy (hn x y hx)

theorem swapRemoveC_eq_ok_iff {a b : Array α} {i site : Nat} {x : α} :
    swapRemoveC a i site = .ok (x, b) ↔ ∃ l, a[i]? = some x ∧ a.back? = some l ∧ b = (a.setIfInBounds i l).pop := by
  unfold swapRemoveC; split
  · rename_i x' l hx hl
    constructor
    · intro h; injection h with h; injection h with h1 h2
      subst h1; exact ⟨l, hx, hl, h2.symm⟩
    · rintro ⟨l', hx', hl', rfl⟩
      rw [hx] at hx'; rw [hl] at hl'; cases hx'; cases hl'; rfl
  · rename_i hn
    constructor
    · intro h; cases h
    · rintro ⟨l, hx, hl, _⟩; exact absurd hl (hn x l hx)

theorem unwrapO_eq_ok_iff {o : Option α} {site : Nat} {x : α} : unwrapO o site = .ok x ↔ o = some x := by
  unfold unwrapO; split <;> simp_all

theorem decC_eq_ok_iff {x y site : Nat} : decC x site = .ok y ↔ 0 < x ∧ y = x - 1 := by
  unfold decC; split <;> simp_all [eq_comm] <;> omega

/-- `some`-valued lookups are in range -/
theorem lt_size_of_getElem? {a : Array α} {i : Nat} {x : α} (h : a[i]? = some x) : i < a.size := by
  have := Array.getElem?_eq_some_iff.mp h; exact this.1

theorem getElem?_pop' (a : Array α) (i : Nat) : a.pop[i]? = if i < a.size - 1 then a[i]? else none := by
  simp [Array.getElem?_pop]

theorem back?_eq (a : Array α) : a.back? = a[a.size - 1]? := by
  simp [Array.back?]

/-! ## the capacity request -/

theorem reserveC_of_lt {n : Nat} (h : n < capLimit) : reserveC n = .ok () := by
  unfold reserveC; rw [if_neg (by omega)]; rfl

theorem reserveC_of_ge {n : Nat} (h : capLimit ≤ n) : reserveC n = .error .capacity := by
  unfold reserveC; rw [if_pos h]

/-- `reserveC` has two outcomes: the request is granted (no effect) or it is the capacity-overflow panic -/
theorem reserveC_cases (n : Nat) : (n < capLimit ∧ reserveC n = .ok ()) ∨ (capLimit ≤ n ∧ reserveC n = .error .capacity) := by
  by_cases h : n < capLimit
  · exact .inl ⟨h, reserveC_of_lt h⟩
  · exact .inr ⟨by omega, reserveC_of_ge (by omega)⟩

theorem reserveC_zero : reserveC 0 = .ok () := reserveC_of_lt (by decide)

/-- the capped pre-allocation of the deserializer is always granted -/
theorem reserveC_min_4096 (h : Nat) : reserveC (min h 4096) = .ok () :=
  reserveC_of_lt (Nat.lt_of_le_of_lt (Nat.min_le_right h 4096) (by decide))

theorem reserveC_bind_of_lt {α : Type} {n : Nat} (x : R α) (h : n < capLimit) :
    (reserveC n >>= fun _ => x) = x := by rw [reserveC_of_lt h]; rfl

theorem reserveC_bind_of_ge {α : Type} {n : Nat} (x : R α) (h : capLimit ≤ n) :
    (reserveC n >>= fun _ => x) = .error .capacity := by rw [reserveC_of_ge h]; rfl

theorem reserveC_bind_eq_ok {α : Type} {n : Nat} {x : R α} {a : α} :
    (reserveC n >>= fun _ => x) = .ok a ↔ n < capLimit ∧ x = .ok a := by
  rcases reserveC_cases n with ⟨h, _⟩ | ⟨h, _⟩
  · rw [reserveC_bind_of_lt x h]; exact ⟨fun hx => ⟨h, hx⟩, fun hx => hx.2⟩
  · rw [reserveC_bind_of_ge x h]
    constructor
    · intro hx; cases hx
    · intro hx; omega

end PQ
