import PQ.Lemmas.MinMaxDefs
/-!
# Min-max heap: the trickle-down (`heapify_min` / `heapify_max` / `heapify`)

Part 1 (this file): direction-generic order vocabulary (`Le b`, `Lt b`), the selection lemmas
(`candidates`, `minByKey`, `maxByKey`) and the abstract (store-free) combinatorics of one trickle-down step on
a total valuation `v : Nat → P` of the positions.
-/
set_option linter.unusedSimpArgs false
set_option linter.unusedSectionVars false
namespace PQ
open Arith
variable {P : Type} [LT P] [DecidableLT P] [LE P] [Std.IsLinearPreorder P] [Std.LawfulOrderLT P]

namespace DQ

/-! ## A. Direction-generic order: `b = true` is the order of a min level, `b = false` of a max level -/

/-- `x` is not after `y` in direction `b` (`x ≤ y` for `b = true`, `y ≤ x` for `b = false`) -/
def Le (b : Bool) (x y : P) : Prop := if b then ¬ y < x else ¬ x < y

/-- `x` is strictly before `y` in direction `b` -/
def Lt (b : Bool) (x y : P) : Prop := if b then x < y else y < x

theorem Le.refl (b : Bool) (x : P) : Le b x x := by
  cases b <;> simp only [Le, if_true, if_false, Bool.false_eq_true] <;> grind

theorem Le.trans {b : Bool} {x y z : P} (h1 : Le b x y) (h2 : Le b y z) : Le b x z := by
  cases b <;> simp only [Le, if_true, if_false, Bool.false_eq_true] at * <;> grind

theorem Le.flip {b : Bool} {x y : P} : Le (!b) x y ↔ Le b y x := by
  cases b <;> simp [Le]

theorem Lt.le {b : Bool} {x y : P} (h : Lt b x y) : Le b x y := by
  cases b <;> simp only [Le, Lt, if_true, if_false, Bool.false_eq_true] at * <;> grind

theorem Le.of_not_lt {b : Bool} {x y : P} (h : ¬ Lt b x y) : Le b y x := by
  cases b <;> simp only [Le, Lt, if_true, if_false, Bool.false_eq_true] at * <;> grind

/-- parity of the level as a `Bool`: `true` on min levels -/
def evn (a : Nat) : Bool := decide (level a % 2 = 0)

theorem evn_left (i : Nat) : evn (left i) = !evn i := by
  simp only [evn, level_left]
  rcases Nat.mod_two_eq_zero_or_one (level i) with h | h <;> simp [h] <;> omega

theorem evn_right (i : Nat) : evn (right i) = !evn i := by
  simp only [evn, level_right]
  rcases Nat.mod_two_eq_zero_or_one (level i) with h | h <;> simp [h] <;> omega

@[simp] theorem evn_zero : evn 0 = true := by decide
@[simp] theorem evn_one : evn 1 = false := by decide
@[simp] theorem evn_two : evn 2 = false := by decide

/-! ## B. The selection functions -/

theorem minByKey_foldl (xs : List (Nat × P)) : ∀ acc : Nat × P,
    let r := xs.foldl (fun acc y => if y.2 < acc.2 then y else acc) acc
    (r = acc ∨ r ∈ xs) ∧ ¬ acc.2 < r.2 ∧ ∀ y ∈ xs, ¬ y.2 < r.2 := by
  induction xs with
  | nil => intro acc; simp; grind
  | cons x xs ih =>
    intro acc
    simp only [List.foldl_cons]
    by_cases hx : x.2 < acc.2
    · simp only [hx, if_true]
      obtain ⟨h1, h2, h3⟩ := ih x
      refine ⟨?_, ?_, ?_⟩
      · rcases h1 with h1 | h1
        · right; rw [h1]; exact List.mem_cons_self
        · right; exact List.mem_cons_of_mem _ h1
      · grind
      · intro y hy
        rcases List.mem_cons.mp hy with rfl | hy
        · exact h2
        · exact h3 y hy
    · simp only [hx, if_false]
      obtain ⟨h1, h2, h3⟩ := ih acc
      refine ⟨?_, h2, ?_⟩
      · rcases h1 with h1 | h1
        · left; exact h1
        · right; exact List.mem_cons_of_mem _ h1
      · intro y hy
        rcases List.mem_cons.mp hy with rfl | hy
        · grind
        · exact h3 y hy

theorem maxByKey_foldl (xs : List (Nat × P)) : ∀ acc : Nat × P,
    let r := xs.foldl (fun acc y => if y.2 < acc.2 then acc else y) acc
    (r = acc ∨ r ∈ xs) ∧ ¬ r.2 < acc.2 ∧ ∀ y ∈ xs, ¬ r.2 < y.2 := by
  induction xs with
  | nil => intro acc; simp; grind
  | cons x xs ih =>
    intro acc
    simp only [List.foldl_cons]
    by_cases hx : x.2 < acc.2
    · simp only [hx, if_true]
      obtain ⟨h1, h2, h3⟩ := ih acc
      refine ⟨?_, h2, ?_⟩
      · rcases h1 with h1 | h1
        · left; exact h1
        · right; exact List.mem_cons_of_mem _ h1
      · intro y hy
        rcases List.mem_cons.mp hy with rfl | hy
        · grind
        · exact h3 y hy
    · simp only [hx, if_false]
      obtain ⟨h1, h2, h3⟩ := ih x
      refine ⟨?_, ?_, ?_⟩
      · rcases h1 with h1 | h1
        · right; rw [h1]; exact List.mem_cons_self
        · right; exact List.mem_cons_of_mem _ h1
      · grind
      · intro y hy
        rcases List.mem_cons.mp hy with rfl | hy
        · exact h2
        · exact h3 y hy

/-- `min_by_key` returns a candidate that no candidate is smaller than -/
theorem minByKey_spec {cs : List (Nat × P)} (hne : cs ≠ []) :
    ∃ c, minByKey cs = some c ∧ c ∈ cs ∧ ∀ y ∈ cs, Le true c.2 y.2 := by
  cases cs with
  | nil => exact absurd rfl hne
  | cons x xs =>
    obtain ⟨h1, h2, h3⟩ := minByKey_foldl xs x
    refine ⟨_, rfl, ?_, ?_⟩
    · rcases h1 with h1 | h1
      · rw [h1]; exact List.mem_cons_self
      · exact List.mem_cons_of_mem _ h1
    · intro y hy
      simp only [Le, if_true]
      rcases List.mem_cons.mp hy with rfl | hy
      · exact h2
      · exact h3 y hy

/-- `max_by_key` returns a candidate that no candidate is greater than -/
theorem maxByKey_spec {cs : List (Nat × P)} (hne : cs ≠ []) :
    ∃ c, maxByKey cs = some c ∧ c ∈ cs ∧ ∀ y ∈ cs, Le false c.2 y.2 := by
  cases cs with
  | nil => exact absurd rfl hne
  | cons x xs =>
    obtain ⟨h1, h2, h3⟩ := maxByKey_foldl xs x
    refine ⟨_, rfl, ?_, ?_⟩
    · rcases h1 with h1 | h1
      · rw [h1]; exact List.mem_cons_self
      · exact List.mem_cons_of_mem _ h1
    · intro y hy
      simp only [Le, if_false, Bool.false_eq_true]
      rcases List.mem_cons.mp hy with rfl | hy
      · exact h2
      · exact h3 y hy

/-- the children and grandchildren of `m` -/
def IsCand (m q : Nat) : Prop :=
  q = left m ∨ q = right m ∨ q = left (left m) ∨ q = right (left m) ∨ q = left (right m) ∨ q = right (right m)

theorem candidates_go_spec {s : Store P} (h : s.WF) : ∀ L : List Nat,
    ∃ cs, candidates.go s L = .ok cs ∧
      (∀ q x, (q, x) ∈ cs → q ∈ L ∧ q < s.size ∧ s.pr q = some x) ∧
      (L.Pairwise (· < ·) → ∀ q, q ∈ L → q < s.size → ∃ x, (q, x) ∈ cs) := by
  intro L
  induction L with
  | nil => exact ⟨[], rfl, by simp, by simp⟩
  | cons c L ih =>
    obtain ⟨cs, hgo, h1, h2⟩ := ih
    cases hc : s.heap[c]? with
    | none =>
      refine ⟨[], by simp [candidates.go, hc, pure, Except.pure], by simp, ?_⟩
      intro hpw q hq hqs
      have hcs : s.size ≤ c := by
        have := h.heap_size
        simp only [Array.getElem?_eq_none_iff] at hc; omega
      rcases List.mem_cons.mp hq with rfl | hq
      · omega
      · have := (List.pairwise_cons.mp hpw).1 q hq; omega
    | some idx =>
      have hidx : idx < s.size := Store.TWF.heap_lt h hc
      obtain ⟨e, he⟩ := Store.TWF.map_some h hidx
      have hcs : c < s.size := by have := lt_size_of_getElem? hc; rw [h.heap_size] at this; exact this
      have hpr : s.pr c = some e.2 := by simp [Store.pr, hc, he]
      refine ⟨(c, e.2) :: cs, ?_, ?_, ?_⟩
      · simp [candidates.go, hc, IMap.getIndex, he, unwrapO, hgo, bind, Except.bind, pure, Except.pure]
      · intro q x hq
        rcases List.mem_cons.mp hq with hq | hq
        · cases hq; exact ⟨List.mem_cons_self, hcs, hpr⟩
        · obtain ⟨a, b, c⟩ := h1 q x hq
          exact ⟨List.mem_cons_of_mem _ a, b, c⟩
      · intro hpw q hq hqs
        rcases List.mem_cons.mp hq with rfl | hq
        · exact ⟨e.2, List.mem_cons_self⟩
        · obtain ⟨x, hx⟩ := h2 (List.pairwise_cons.mp hpw).2 q hq hqs
          exact ⟨x, List.mem_cons_of_mem _ hx⟩

/-- `candidates` never faults on a well-formed store and lists exactly the children and grandchildren of `m` below
`size`, each with its priority -/
theorem candidates_spec {s : Store P} (h : s.WF) (m : Nat) :
    ∃ cs, candidates s m = .ok cs ∧
      (∀ q x, (q, x) ∈ cs → IsCand m q ∧ q < s.size ∧ s.pr q = some x) ∧
      (∀ q, IsCand m q → q < s.size → ∃ x, (q, x) ∈ cs) := by
  obtain ⟨cs, hgo, h1, h2⟩ := candidates_go_spec h
    [left m, right m, left (left m), right (left m), left (right m), right (right m)]
  refine ⟨cs, hgo, ?_, ?_⟩
  · intro q x hq
    obtain ⟨a, b, c⟩ := h1 q x hq
    refine ⟨?_, b, c⟩
    simpa [IsCand] using a
  · intro q hq hqs
    refine h2 ?_ q (by simpa [IsCand] using hq) hqs
    simp [left, right]; omega

/-! ## C. Abstract combinatorics of one trickle-down step, on a total valuation `v` of the positions -/

/-- ancestor `a` and descendant `d` are in min-max order under the valuation `v` -/
def VRel (v : Nat → P) (a d : Nat) : Prop := Le (evn a) (v a) (v d)

/-- every pair (from `lo` on, below `n`) whose ancestor is not `m` is in order -/
def VPre (v : Nat → P) (n lo m : Nat) : Prop :=
  ∀ a d, Anc a d → d < n → lo ≤ a → a ≠ m → VRel v a d

/-- every pair (from `lo` on, below `n`) is in order -/
def VFrom (v : Nat → P) (n lo : Nat) : Prop :=
  ∀ a d, Anc a d → d < n → lo ≤ a → VRel v a d

theorem IsCand.gt {m q : Nat} (h : IsCand m q) : m < q := by
  simp only [IsCand, left, right] at h; omega

/-- a value that is before all children and grandchildren of `m` is before the whole subtree below `m` -/
theorem dom {v : Nat → P} {n lo m : Nat} {x : P} (hpre : VPre v n lo m) (hlo : lo ≤ m)
    (hsel : ∀ q, IsCand m q → q < n → Le (evn m) x (v q)) :
    ∀ d, Anc m d → d < n → Le (evn m) x (v d) := by
  intro d had hd
  have key : ∀ g, IsCand m g → evn g = evn m → Anc g d → Le (evn m) x (v d) := by
    intro g hg he hgd
    have h1 := hsel g hg (Nat.lt_trans hgd.lt hd)
    have h2 := hpre g d hgd hd (by have := hg.gt; omega) (by have := hg.gt; omega)
    unfold VRel at h2; rw [he] at h2
    exact h1.trans h2
  rcases had.cases_top with rfl | rfl | h | h
  · exact hsel _ (Or.inl rfl) hd
  · exact hsel _ (Or.inr (Or.inl rfl)) hd
  · rcases h.cases_top with rfl | rfl | h' | h'
    · exact hsel _ (Or.inr (Or.inr (Or.inl rfl))) hd
    · exact hsel _ (Or.inr (Or.inr (Or.inr (Or.inl rfl)))) hd
    · exact key _ (Or.inr (Or.inr (Or.inl rfl))) (by simp [evn_left]) h'
    · exact key _ (Or.inr (Or.inr (Or.inr (Or.inl rfl)))) (by simp [evn_left, evn_right]) h'
  · rcases h.cases_top with rfl | rfl | h' | h'
    · exact hsel _ (Or.inr (Or.inr (Or.inr (Or.inr (Or.inl rfl))))) hd
    · exact hsel _ (Or.inr (Or.inr (Or.inr (Or.inr (Or.inr rfl))))) hd
    · exact key _ (Or.inr (Or.inr (Or.inr (Or.inr (Or.inl rfl))))) (by simp [evn_left, evn_right]) h'
    · exact key _ (Or.inr (Or.inr (Or.inr (Or.inr (Or.inr rfl))))) (by simp [evn_right]) h'

/-- the loop stops at `m` because `m` is already before all its children and grandchildren -/
theorem from_stop {v : Nat → P} {n lo m : Nat} (hpre : VPre v n lo m) (hlo : lo ≤ m)
    (hsel : ∀ q, IsCand m q → q < n → Le (evn m) (v m) (v q)) : VFrom v n lo := by
  intro a d had hd hloa
  by_cases ham : a = m
  · subst ham; exact dom hpre hlo hsel d had hd
  · exact hpre a d had hd hloa ham

/-- `m` has no child below `n` -/
theorem from_leaf {v : Nat → P} {n lo m : Nat} (hpre : VPre v n lo m) (hleaf : n ≤ left m) : VFrom v n lo := by
  intro a d had hd hloa
  by_cases ham : a = m
  · subst ham
    have : left a ≤ d := by
      rcases had.cases_top with rfl | rfl | h | h
      · omega
      · have := left_lt_right a; omega
      · have := h.lt; omega
      · have := h.lt; have := left_lt_right a; omega
    omega
  · exact hpre a d had hd hloa ham

/-- the selected candidate `c` is a child of `m` and strictly before `m`: after the exchange everything is in order -/
theorem from_child {v v' : Nat → P} {n lo m c : Nat} (hpre : VPre v n lo m) (hlo : lo ≤ m)
    (hc : c = left m ∨ c = right m) (hcn : c < n)
    (hsel : ∀ q, IsCand m q → q < n → Le (evn m) (v c) (v q)) (hlt : Lt (evn m) (v c) (v m))
    (hm' : v' m = v c) (hc' : v' c = v m) (ho : ∀ q, q ≠ m → q ≠ c → v' q = v q) : VFrom v' n lo := by
  have hmc : Anc m c := by rcases hc with rfl | rfl; exact Anc.of_left m; exact Anc.of_right m
  have hpc : parent c = m := by rcases hc with rfl | rfl <;> simp
  have hec : evn c = !evn m := by rcases hc with rfl | rfl; exact evn_left m; exact evn_right m
  intro a d had hd hloa
  unfold VRel
  by_cases ham : a = m
  · subst ham
    rw [hm']
    by_cases hdc : d = c
    · subst hdc; rw [hc']; exact hlt.le
    · rw [ho d (Ne.symm had.ne) hdc]
      exact dom hpre hlo hsel d had hd
  · by_cases hac : a = c
    · subst hac
      have h1 := had.lt; have h2 := hmc.lt
      rw [hc', ho d (by omega) (by omega), hec, Le.flip]
      have := hpre a d had hd hloa ham
      unfold VRel at this; rw [hec, Le.flip] at this
      exact this.trans hlt.le
    · rw [ho a ham hac]
      by_cases hdm : d = m
      · subst hdm; rw [hm']; exact hpre a c (had.trans hmc) hcn hloa ham
      · by_cases hdc : d = c
        · subst hdc; rw [hc']
          rcases had.cases_child with h | h
          · exact absurd (h.trans hpc) ham
          · rw [hpc] at h; exact hpre a m h (Nat.lt_trans hmc.lt hcn) hloa ham
        · rw [ho d hdm hdc]; exact hpre a d had hd hloa ham

/-- the selected candidate `c` is a grandchild of `m` (through `p`) and strictly before `m`: after the exchange with `m`
and the conditional exchange with `p`, only pairs with ancestor `c` can be out of order -/
theorem pre_grand {v v' : Nat → P} {n lo m p c : Nat} (hpre : VPre v n lo m) (hlo : lo ≤ m)
    (hp : p = left m ∨ p = right m) (hc : c = left p ∨ c = right p) (hcn : c < n)
    (hsel : ∀ q, IsCand m q → q < n → Le (evn m) (v c) (v q)) (hlt : Lt (evn m) (v c) (v m))
    (hm' : v' m = v c) (ho : ∀ q, q ≠ m → q ≠ p → q ≠ c → v' q = v q)
    (hcase : (v' c = v m ∧ v' p = v p ∧ Le (evn m) (v m) (v p)) ∨
             (v' c = v p ∧ v' p = v m ∧ Le (evn m) (v p) (v m))) :
    VPre v' n lo c := by
  have hmp : Anc m p := by rcases hp with rfl | rfl; exact Anc.of_left m; exact Anc.of_right m
  have hpc : Anc p c := by rcases hc with rfl | rfl; exact Anc.of_left p; exact Anc.of_right p
  have hmc : Anc m c := hmp.trans hpc
  have hpp : parent p = m := by rcases hp with rfl | rfl <;> simp
  have hpc' : parent c = p := by rcases hc with rfl | rfl <;> simp
  have hep : evn p = !evn m := by rcases hp with rfl | rfl; exact evn_left m; exact evn_right m
  have hpn : p < n := Nat.lt_trans hpc.lt hcn
  have hmn : m < n := Nat.lt_trans hmp.lt hpn
  have hcp : IsCand m p := by rcases hp with rfl | rfl; exact Or.inl rfl; exact Or.inr (Or.inl rfl)
  have hcc : IsCand m c := by
    rcases hp with rfl | rfl <;> rcases hc with rfl | rfl <;> simp [IsCand]
  have hcp' : Le (evn m) (v c) (v p) := hsel p hcp hpn
  have hcm' : Le (evn m) (v c) (v m) := hlt.le
  have hM : Le (evn m) (v p) (v' p) ∧ Le (evn m) (v' c) (v' p) := by
    rcases hcase with ⟨h1, h2, h3⟩ | ⟨h1, h2, h3⟩
    · rw [h1, h2]; exact ⟨Le.refl _ _, h3⟩
    · rw [h1, h2]; exact ⟨h3, h3⟩
  have hinc : v' c = v m ∨ v' c = v p := by
    rcases hcase with ⟨h1, _, _⟩ | ⟨h1, _, _⟩
    · exact Or.inl h1
    · exact Or.inr h1
  have hinp : v' p = v m ∨ v' p = v p := by
    rcases hcase with ⟨_, h2, _⟩ | ⟨_, h2, _⟩
    · exact Or.inr h2
    · exact Or.inl h2
  have l1 := hmp.lt; have l2 := hpc.lt
  intro a d had hd hloa hac
  unfold VRel
  by_cases ham : a = m
  · subst ham
    rw [hm']
    by_cases hdp : d = p
    · subst hdp; rcases hinp with h | h <;> rw [h] <;> assumption
    · by_cases hdc : d = c
      · subst hdc; rcases hinc with h | h <;> rw [h] <;> assumption
      · rw [ho d (Ne.symm had.ne) hdp hdc]
        exact dom hpre hlo hsel d had hd
  · by_cases hap : a = p
    · subst hap
      rw [hep, Le.flip]
      by_cases hdc : d = c
      · subst hdc; exact hM.2
      · have := had.lt
        rw [ho d (by omega) (by omega) hdc]
        have h1 := hpre a d had hd hloa ham
        unfold VRel at h1; rw [hep, Le.flip] at h1
        exact h1.trans hM.1
    · rw [ho a ham hap hac]
      have rels : Anc a m → VRel v a m ∧ VRel v a p ∧ VRel v a c := fun h =>
        ⟨hpre a m h hmn hloa ham, hpre a p (h.trans hmp) hpn hloa ham, hpre a c (h.trans hmc) hcn hloa ham⟩
      by_cases hdm : d = m
      · subst hdm; rw [hm']; exact (rels had).2.2
      · by_cases hdp : d = p
        · subst hdp
          have ham' : Anc a m := by
            rcases had.cases_child with h | h
            · exact absurd (h.trans hpp) ham
            · rwa [hpp] at h
          rcases hinp with h | h <;> rw [h]
          · exact (rels ham').1
          · exact (rels ham').2.1
        · by_cases hdc : d = c
          · subst hdc
            have ham' : Anc a m := by
              rcases had.cases_child with h | h
              · exact absurd (h.trans hpc') hap
              · rw [hpc'] at h
                rcases h.cases_child with h' | h'
                · exact absurd (h'.trans hpp) ham
                · rwa [hpp] at h'
            rcases hinc with h | h <;> rw [h]
            · exact (rels ham').1
            · exact (rels ham').2.1
          · rw [ho d hdm hdp hdc]; exact hpre a d had hd hloa ham

end DQ
end PQ
