import PQ.Lemmas.CrashLemmas
import PQ.Model.CrashCb
/-!
# Crash points inside user callbacks (`PQ/Model/CrashCb.lean`): every crash state is well-formed

* `cb_not_fires`, `cb_stepCb_zero`, `cb_stepCb_ok` — when the fuse does not fire, `stepCb` is the plain `step`;
* `cb_crashedNew_only_ctor` — `crashedNew` is reported by `from_iter` only;
* `cbw_crash_state_wf` / `cb_crash_state_wf` — **every crash state is well-formed**, also when the panicking setter /
  predicate has first stored an arbitrary priority through its `&mut P` (`stepCbW`);
* `cb_no_model_fault` — the operation with a panicking callback performs no faulty access of its own.

Everything is stated for the write-then-panic generalisation `stepCbW k w` and specialised to `stepCb k = stepCbW k none`.
-/
set_option linter.unusedSimpArgs false
set_option linter.unusedSectionVars false
set_option linter.unusedVariables false
namespace PQ
open PQ.Crash PQ.Arith
variable {P : Type} [LT P] [DecidableLT P]

/-! ## `liftStep` -/

theorem cb_liftStep_ok {q : Q P} {op : Op P} {r : Q P × Out P} (h : liftStep q op = .ok r) : step q op = .ok r := by
  unfold liftStep at h
  cases hs : step q op with
  | ok x => rw [hs] at h; cases h; rfl
  | error f => rw [hs] at h; cases h

theorem cb_liftStep_of_ok {q : Q P} {op : Op P} {r : Q P × Out P} (h : step q op = .ok r) : liftStep q op = .ok r := by
  unfold liftStep; rw [h]

theorem cb_liftStep_crashed {q q' : Q P} {op : Op P} : liftStep q op ≠ .error (.crashed q') := by
  unfold liftStep; cases step q op <;> intro h <;> cases h

theorem cb_liftStep_crashedNew {q : Q P} {op : Op P} : liftStep q op ≠ .error .crashedNew := by
  unfold liftStep; cases step q op <;> intro h <;> cases h

/-- `find_max` writes nothing but the ghost counter (no hypothesis on the store) -/
theorem cb_findMax_frame {s s' : Store P} {r : Option Nat} (h : DQ.findMax s = .ok (s', r)) :
    ∃ n, n ≤ 1 ∧ s' = s.tick n ∧ (r = none ↔ s.size = 0) := by
  unfold DQ.findMax at h
  split at h
  · rename_i h0; cases h; exact ⟨0, by omega, rfl, by simp [h0]⟩
  · rename_i h0; cases h; exact ⟨0, by omega, rfl, by simp [h0]⟩
  · rename_i h0; cases h; exact ⟨0, by omega, rfl, by simp [h0]⟩
  · rename_i h0 h1 h2
    cases hp1 : s.prioAt 1 with
    | error f => rw [hp1] at h; cases h
    | ok p1 =>
      cases hp2 : s.prioAt 2 with
      | error f => rw [hp1, hp2] at h; cases h
      | ok p2 =>
        rw [hp1, hp2] at h; cases h
        exact ⟨1, by omega, rfl, by simp; exact h0⟩

/-! ## (2) when the fuse does not fire `stepCb` is the plain operation -/

/-! ## the written store -/
section
variable [LE P] [Std.IsLinearPreorder P] [Std.LawfulOrderLT P]

@[simp] theorem cb_writeSlot_none (s : Store P) (i : Nat) : cbWriteSlot s i none = s := rfl

@[simp] theorem cb_writePos_none (s : Store P) (pos : Nat) : cbWritePos s pos none = s := by
  unfold cbWritePos; split <;> rfl

@[simp] theorem cb_writeKey_none (s : Store P) (key : Nat) : cbWriteKey s key none = s := by
  unfold cbWriteKey; split <;> rfl

/-- overwriting a priority in place keeps the store well-formed (it does not keep it ordered) -/
theorem cb_writeSlot_wf {s : Store P} (h : s.WF) (i : Nat) (w : Option P) : (cbWriteSlot s i w).WF := by
  cases w with
  | none => exact h
  | some p => exact Store.wf_of_map_update h (IMap.size_setPrio _ _ _) (h.nodup.setPrio i p)

theorem cb_writePos_wf {s : Store P} (h : s.WF) (pos : Nat) (w : Option P) : (cbWritePos s pos w).WF := by
  unfold cbWritePos; split
  · exact cb_writeSlot_wf h _ w
  · exact h

theorem cb_writeKey_wf {s : Store P} (h : s.WF) (key : Nat) (w : Option P) : (cbWriteKey s key w).WF := by
  unfold cbWriteKey; split
  · exact cb_writeSlot_wf h _ w
  · exact h

end

/-- `stepCbW` on `extend`, unfolded -/
theorem cb_stepCb_extend (k : Nat) (w : Option P) (q : Q P) (lo : Nat) (xs : Array (Item × P)) :
    stepCbW k w q (.extend lo xs) =
      if lo < capLimit ∧ 1 ≤ k ∧ k ≤ xs.size + 1 then
        if (if lo ≠ 0 then betterToRebuild q.s.size lo else false) = true then
          .error (.crashed { q with s := q.s.extend (xs.extract 0 (k - 1)) })
        else
          match pushAllK q.kind (xs.extract 0 (k - 1)).toList q.s with
          | .ok s => .error (.crashed { q with s := s })
          | .error f => .error (.fault f)
      else liftStep q (.extend lo xs) := rfl

/-- with the fuse off (`k = 0`) `stepCb` IS the plain operation — for every queue and every operation -/
theorem cbw_stepCb_zero (w : Option P) (q : Q P) (op : Op P) : stepCbW 0 w q op = liftStep q op := by
  cases op <;> simp [stepCbW]

theorem cb_stepCb_zero (q : Q P) (op : Op P) : stepCb 0 q op = liftStep q op := cbw_stepCb_zero none q op

/-- a normal return of `stepCb` is the return of the plain `step` (no hypothesis) -/
theorem cbw_stepCb_ok {k : Nat} {w : Option P} {q : Q P} {op : Op P} {r : Q P × Out P}
    (h : stepCbW k w q op = .ok r) : step q op = .ok r := by
  cases op with
  | changePriorityBy key g =>
    simp only [stepCbW] at h
    split at h
    · cases h
    · exact cb_liftStep_ok h
  | popFrontIf f =>
    simp only [stepCbW] at h
    split at h
    · split at h
      · split at h
        · exact cb_liftStep_ok h
        · cases h
      · split at h
        · exact cb_liftStep_ok h
        · cases h
    · exact cb_liftStep_ok h
  | popBackIf f =>
    simp only [stepCbW] at h
    split at h
    · split at h
      · exact cb_liftStep_ok h
      · split at h
        · cases h
        · exact cb_liftStep_ok h
        · cases h
    · exact cb_liftStep_ok h
  | extend lo xs =>
    rw [cb_stepCb_extend] at h
    split at h
    · generalize (if lo ≠ 0 then betterToRebuild q.s.size lo else false) = b at h
      cases b
      · simp only [Bool.false_eq_true, if_false] at h
        split at h <;> cases h
      · simp only [if_true] at h
        cases h
    · exact cb_liftStep_ok h
  | fromIter lo xs =>
    simp only [stepCbW] at h
    split at h
    · cases h
    · exact cb_liftStep_ok h
  | _ => exact cb_liftStep_ok h

/-! ## (3) when the fuse fires -/

/-- **the fuse does not fire** when `k = 0` or the operation performs fewer than `k` callbacks (no hypothesis on the queue) -/
theorem cbw_not_fires {k : Nat} {w : Option P} {q : Q P} {op : Op P} (h : cbCount q op < k ∨ k = 0) :
    stepCbW k w q op = liftStep q op := by
  by_cases hk0 : k = 0
  · subst hk0; exact cbw_stepCb_zero w q op
  have h : cbCount q op < k := by omega
  obtain ⟨kind, s⟩ := q
  cases op with
  | changePriorityBy key g =>
    simp only [stepCbW]
    rw [if_neg]
    rintro ⟨rfl, hs⟩
    simp [cbCount, hs] at h
  | popFrontIf f =>
    simp only [stepCbW]
    by_cases hk : k = 1
    · subst hk
      have h0 : s.size = 0 := by
        simp only [cbCount] at h
        split at h
        · assumption
        · omega
      cases kind <;> simp [h0, DQ.findMin]
    · rw [if_neg hk]
  | popBackIf f =>
    simp only [stepCbW]
    by_cases hk : k = 1
    · subst hk
      cases kind with
      | pq => simp
      | dpq =>
        have h0 : s.size = 0 := by
          simp only [cbCount] at h
          split at h
          · assumption
          · omega
        simp [DQ.findMax, h0, pure, Except.pure]
    · rw [if_neg hk]
  | extend lo xs =>
    rw [cb_stepCb_extend, if_neg]
    simp only [cbCount] at h
    split at h <;> omega
  | fromIter lo xs =>
    simp only [stepCbW]
    rw [if_neg]
    simp only [cbCount] at h
    split at h <;> omega
  | _ => rfl

theorem cb_stepCb_ok {k : Nat} {q : Q P} {op : Op P} {r : Q P × Out P} (h : stepCb k q op = .ok r) :
    step q op = .ok r := cbw_stepCb_ok h

theorem cb_not_fires {k : Nat} {q : Q P} {op : Op P} (h : cbCount q op < k ∨ k = 0) : stepCb k q op = liftStep q op :=
  cbw_not_fires h

/-- **`crashedNew` only for constructors**: the only operation whose callback crash drops a fresh queue is `from_iter` -/
theorem cbw_crashedNew_only_ctor {k : Nat} {w : Option P} {q : Q P} {op : Op P}
    (h : stepCbW k w q op = .error .crashedNew) : ∃ lo xs, op = .fromIter lo xs := by
  cases op with
  | changePriorityBy key g =>
    simp only [stepCbW] at h
    split at h
    · cases h
    · exact absurd h cb_liftStep_crashedNew
  | popFrontIf f =>
    simp only [stepCbW] at h
    split at h
    · split at h
      · split at h
        · exact absurd h cb_liftStep_crashedNew
        · cases h
      · split at h
        · exact absurd h cb_liftStep_crashedNew
        · cases h
    · exact absurd h cb_liftStep_crashedNew
  | popBackIf f =>
    simp only [stepCbW] at h
    split at h
    · split at h
      · exact absurd h cb_liftStep_crashedNew
      · split at h
        · cases h
        · exact absurd h cb_liftStep_crashedNew
        · cases h
    · exact absurd h cb_liftStep_crashedNew
  | extend lo xs =>
    rw [cb_stepCb_extend] at h
    split at h
    · generalize (if lo ≠ 0 then betterToRebuild q.s.size lo else false) = b at h
      cases b
      · simp only [Bool.false_eq_true, if_false] at h
        split at h <;> cases h
      · simp only [if_true] at h
        cases h
    · exact absurd h cb_liftStep_crashedNew
  | fromIter lo xs => exact ⟨lo, xs, rfl⟩
  | _ => exact absurd (by simpa [stepCbW] using h) cb_liftStep_crashedNew

theorem cb_crashedNew_only_ctor {k : Nat} {q : Q P} {op : Op P} (h : stepCb k q op = .error .crashedNew) :
    ∃ lo xs, op = .fromIter lo xs := cbw_crashedNew_only_ctor h

/-! ## (4) the crash state is well-formed -/
variable [LE P] [Std.IsLinearPreorder P] [Std.LawfulOrderLT P]

/-- **every callback crash state is well-formed** — also when the panicking setter / predicate first stored an arbitrary
priority through its `&mut P` (`w = some p`): then the priority sits in the slot without any re-sift, so the queue is in
general no longer ordered, but the index tables and the key set are untouched.  (`Op.Legal` is not needed: no callback
returns.) -/
theorem cbw_crash_state_wf {q q' : Q P} {op : Op P} (k : Nat) (w : Option P) (hq : QWF q) :
    stepCbW k w q op = .error (.crashed q') → QWF q' := by
  intro h
  obtain ⟨kind, s⟩ := q
  have hs : s.WF := hq
  cases op with
  | changePriorityBy key g =>
    simp only [stepCbW] at h
    split at h
    · cases h; exact cb_writeKey_wf hs key w
    · exact absurd h cb_liftStep_crashed
  | popFrontIf f =>
    simp only [stepCbW] at h
    split at h
    · cases kind with
      | pq =>
        simp only at h
        split at h
        · exact absurd h cb_liftStep_crashed
        · cases h; exact cb_writePos_wf hs 0 w
      | dpq =>
        simp only at h
        split at h
        · exact absurd h cb_liftStep_crashed
        · cases h; exact cb_writePos_wf hs _ w
    · exact absurd h cb_liftStep_crashed
  | popBackIf f =>
    simp only [stepCbW] at h
    split at h
    · cases kind with
      | pq => exact absurd h cb_liftStep_crashed
      | dpq =>
        simp only at h
        split at h
        · cases h
        · exact absurd h cb_liftStep_crashed
        · rename_i s' _ hfm
          cases h
          obtain ⟨n, _, rfl, _⟩ := cb_findMax_frame hfm
          exact cb_writePos_wf ((Store.tick_TWF).2 hs) _ w
    · exact absurd h cb_liftStep_crashed
  | extend lo xs =>
    rw [cb_stepCb_extend] at h
    by_cases hk : lo < capLimit ∧ 1 ≤ k ∧ k ≤ xs.size + 1
    · rw [if_pos hk] at h
      by_cases hr : (if lo ≠ 0 then betterToRebuild s.size lo else false) = true
      · rw [if_pos hr] at h
        cases h
        exact Store.wf_extend hs _
      · rw [if_neg hr] at h
        cases kind with
        | pq =>
          obtain ⟨s', h1, h2, _⟩ := PQ.MaxQ.pushAll_safe (xs.extract 0 (k - 1)).toList hs
          simp only [pushAllK, h1] at h
          cases h; exact h2
        | dpq =>
          obtain ⟨s', h1, h2, _⟩ := PQ.DQ.pushAll_safe hs (xs.extract 0 (k - 1)).toList
          simp only [pushAllK, h1] at h
          cases h; exact h2
    · rw [if_neg hk] at h
      exact absurd h cb_liftStep_crashed
  | fromIter lo xs =>
    simp only [stepCbW] at h
    split at h
    · cases h
    · exact absurd h cb_liftStep_crashed
  | _ => exact absurd (by simpa [stepCbW] using h) cb_liftStep_crashed

/-- **the crash state of a callback that panics on entry is well-formed** -/
theorem cb_crash_state_wf {q q' : Q P} {op : Op P} (k : Nat) (hq : QWF q) (hl : op.Legal) :
    stepCb k q op = .error (.crashed q') → QWF q' :=
  cbw_crash_state_wf k none hq

/-- a setter that panics on entry (nothing written) leaves the queue of `change_priority_by` exactly as it was -/
theorem cb_crash_unchanged_setter {q q' : Q P} {k : Nat} {key : Nat} {g : P → P}
    (h : stepCb k q (.changePriorityBy key g) = .error (.crashed q')) : q' = q := by
  simp only [stepCb, stepCbW] at h
  split at h
  · cases h; simp
  · exact absurd h cb_liftStep_crashed

/-- a predicate that panics on entry (nothing written) leaves the queue of `pop_if` / `pop_min_if` exactly as it was
(`pop_max_if` has spent one comparison in `find_max`: unchanged up to the ghost counter, `cb_findMax_frame`) -/
theorem cb_crash_unchanged_front {q q' : Q P} {k : Nat} {f : Item → P → Bool × Item × P}
    (h : stepCb k q (.popFrontIf f) = .error (.crashed q')) : q' = q := by
  obtain ⟨kind, s⟩ := q
  simp only [stepCb, stepCbW] at h
  split at h
  · cases kind with
    | pq =>
      simp only at h
      split at h
      · exact absurd h cb_liftStep_crashed
      · cases h; simp
    | dpq =>
      simp only at h
      split at h
      · exact absurd h cb_liftStep_crashed
      · cases h; simp
  · exact absurd h cb_liftStep_crashed

/-! ## (5) no fault of the model inside an operation whose callback panics -/

/-- the operation with a panicking callback performs no faulty access of its own, before the panic or during unwinding -/
theorem cbw_no_model_fault {q : Q P} {op : Op P} (k : Nat) (w : Option P) (hq : QWF q) (hl : op.Legal) :
    ∀ f, stepCbW k w q op ≠ .error (.fault f) := by
  intro f h
  obtain ⟨q1, o1, hstep, _⟩ := hist_step_safe hq hl
  have hlift : ∀ f, liftStep q op ≠ .error (.fault f) := by
    intro f hf; unfold liftStep at hf; rw [hstep] at hf; cases hf
  obtain ⟨kind, s⟩ := q
  have hs : s.WF := hq
  cases op with
  | changePriorityBy key g =>
    simp only [stepCbW] at h
    split at h
    · cases h
    · exact hlift f h
  | popFrontIf p =>
    simp only [stepCbW] at h
    split at h
    · split at h
      · split at h
        · exact hlift f h
        · cases h
      · split at h
        · exact hlift f h
        · cases h
    · exact hlift f h
  | popBackIf p =>
    simp only [stepCbW] at h
    split at h
    · cases kind with
      | pq => exact hlift f h
      | dpq =>
        simp only at h
        split at h
        · rename_i f' hfm
          obtain ⟨s', r, hfm', _⟩ := DQ.findMax_safe hs
          rw [hfm'] at hfm; cases hfm
        · exact hlift f h
        · cases h
    · exact hlift f h
  | extend lo xs =>
    rw [cb_stepCb_extend] at h
    by_cases hk : lo < capLimit ∧ 1 ≤ k ∧ k ≤ xs.size + 1
    · rw [if_pos hk] at h
      by_cases hr : (if lo ≠ 0 then betterToRebuild s.size lo else false) = true
      · rw [if_pos hr] at h; cases h
      · rw [if_neg hr] at h
        cases kind with
        | pq =>
          obtain ⟨s', h1, h2, _⟩ := PQ.MaxQ.pushAll_safe (xs.extract 0 (k - 1)).toList hs
          simp only [pushAllK, h1] at h
          cases h
        | dpq =>
          obtain ⟨s', h1, h2, _⟩ := PQ.DQ.pushAll_safe hs (xs.extract 0 (k - 1)).toList
          simp only [pushAllK, h1] at h
          cases h
    · rw [if_neg hk] at h
      exact hlift f h
  | fromIter lo xs =>
    simp only [stepCbW] at h
    split at h
    · cases h
    · exact hlift f h
  | _ => exact hlift f (by simpa [stepCbW] using h)

theorem cb_no_model_fault {q : Q P} {op : Op P} (k : Nat) (hq : QWF q) (hl : op.Legal) :
    ∀ f, stepCb k q op ≠ .error (.fault f) := cbw_no_model_fault k none hq hl

end PQ
