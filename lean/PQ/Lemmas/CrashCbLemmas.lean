import PQ.Lemmas.CrashLemmas
import PQ.Lemmas.BulkProps
import PQ.Props.C04
import PQ.Model.CrashCb
/-!
# Crash points inside user callbacks (`PQ/Model/CrashCb.lean`): every crash state is well-formed
-/
set_option linter.unusedSimpArgs false
set_option linter.unusedSectionVars false
set_option linter.unusedVariables false
namespace PQ
open PQ.Crash PQ.Arith
variable {P : Type} [LT P] [DecidableLT P] [LE P] [Std.IsLinearPreorder P] [Std.LawfulOrderLT P]

/-! ## `liftStep` -/

theorem cb_liftStep_ok {q : Q P} {op : Op P} {r : Q P × Out P} (h : liftStep q op = .ok r) : step q op = .ok r := by
  unfold liftStep at h
  cases hs : step q op with
  | ok x => rw [hs] at h; cases h; rfl
  | error f => rw [hs] at h; cases h

theorem cb_liftStep_of_ok {q : Q P} {op : Op P} {r : Q P × Out P} (h : step q op = .ok r) : liftStep q op = .ok r := by
  unfold liftStep; rw [h]

theorem cb_liftStep_crashed {q q' : Q P} {op : Op P} : liftStep q op ≠ .error (.crashed q') := by
  unfold liftStep; cases step q op <;> intro h <;> cases h

theorem cb_liftStep_crashedNew {q : Q P} {op : Op P} : liftStep q op ≠ .error .crashedNew := by
  unfold liftStep; cases step q op <;> intro h <;> cases h

/-- `find_max` writes nothing but the ghost counter (no hypothesis on the store) -/
theorem cb_findMax_frame {s s' : Store P} {r : Option Nat} (h : DQ.findMax s = .ok (s', r)) :
    ∃ n, n ≤ 1 ∧ s' = s.tick n ∧ (r = none ↔ s.size = 0) := by
  unfold DQ.findMax at h
  split at h
  · rename_i h0; cases h; exact ⟨0, by omega, rfl, by simp [h0]⟩
  · rename_i h0; cases h; exact ⟨0, by omega, rfl, by simp [h0]⟩
  · rename_i h0; cases h; exact ⟨0, by omega, rfl, by simp [h0]⟩
  · rename_i h0 h1 h2
    cases hp1 : s.prioAt 1 with
    | error f => rw [hp1] at h; cases h
    | ok p1 =>
      cases hp2 : s.prioAt 2 with
      | error f => rw [hp1, hp2] at h; cases h
      | ok p2 =>
        rw [hp1, hp2] at h; cases h
        exact ⟨1, by omega, rfl, by simp; exact h0⟩

/-! ## (2) when the fuse does not fire `stepCb` is the plain operation -/

/-- `stepCb` on `extend`, unfolded -/
theorem cb_stepCb_extend (k : Nat) (q : Q P) (lo : Nat) (xs : Array (Item × P)) :
    stepCb k q (.extend lo xs) =
      if 1 ≤ k ∧ k ≤ xs.size + 1 then
        if (if lo ≠ 0 then betterToRebuild q.s.size lo else false) = true then
          .error (.crashed { q with s := q.s.extend (xs.extract 0 (k - 1)) })
        else
          match pushAllK q.kind (xs.extract 0 (k - 1)).toList q.s with
          | .ok s => .error (.crashed { q with s := s })
          | .error f => .error (.fault f)
      else liftStep q (.extend lo xs) := rfl

/-- with the fuse off (`k = 0`) `stepCb` IS the plain operation — for every queue and every operation -/
theorem cb_stepCb_zero (q : Q P) (op : Op P) : stepCb 0 q op = liftStep q op := by
  cases op <;> simp [stepCb]

/-- a normal return of `stepCb` is the return of the plain `step` (no hypothesis) -/
theorem cb_stepCb_ok {k : Nat} {q : Q P} {op : Op P} {r : Q P × Out P} (h : stepCb k q op = .ok r) :
    step q op = .ok r := by
  cases op with
  | changePriorityBy key g =>
    simp only [stepCb] at h
    split at h
    · cases h
    · exact cb_liftStep_ok h
  | popFrontIf f =>
    simp only [stepCb] at h
    split at h
    · split at h
      · split at h
        · exact cb_liftStep_ok h
        · cases h
      · split at h
        · exact cb_liftStep_ok h
        · cases h
    · exact cb_liftStep_ok h
  | popBackIf f =>
    simp only [stepCb] at h
    split at h
    · split at h
      · exact cb_liftStep_ok h
      · split at h
        · cases h
        · exact cb_liftStep_ok h
        · cases h
    · exact cb_liftStep_ok h
  | extend lo xs =>
    rw [cb_stepCb_extend] at h
    split at h
    · generalize (if lo ≠ 0 then betterToRebuild q.s.size lo else false) = b at h
      cases b
      · simp only [Bool.false_eq_true, if_false] at h
        split at h <;> cases h
      · simp only [if_true] at h
        cases h
    · exact cb_liftStep_ok h
  | fromIter xs =>
    simp only [stepCb] at h
    split at h
    · cases h
    · exact cb_liftStep_ok h
  | _ => exact cb_liftStep_ok h

/-! ## (3) when the fuse fires -/

/-- **the fuse does not fire** when `k = 0` or the operation performs fewer than `k` callbacks (no hypothesis on the queue) -/
theorem cb_not_fires {k : Nat} {q : Q P} {op : Op P} (h : cbCount q op < k ∨ k = 0) : stepCb k q op = liftStep q op := by
  by_cases hk0 : k = 0
  · subst hk0; exact cb_stepCb_zero q op
  have h : cbCount q op < k := by omega
  obtain ⟨kind, s⟩ := q
  cases op with
  | changePriorityBy key g =>
    simp only [stepCb]
    rw [if_neg]
    rintro ⟨rfl, hs⟩
    simp [cbCount, hs] at h
  | popFrontIf f =>
    simp only [stepCb]
    by_cases hk : k = 1
    · subst hk
      have h0 : s.size = 0 := by
        simp only [cbCount] at h
        split at h
        · assumption
        · omega
      cases kind <;> simp [h0, DQ.findMin]
    · rw [if_neg hk]
  | popBackIf f =>
    simp only [stepCb]
    by_cases hk : k = 1
    · subst hk
      cases kind with
      | pq => simp
      | dpq =>
        have h0 : s.size = 0 := by
          simp only [cbCount] at h
          split at h
          · assumption
          · omega
        simp [DQ.findMax_empty h0]
    · rw [if_neg hk]
  | extend lo xs =>
    rw [cb_stepCb_extend, if_neg]
    simp only [cbCount] at h
    omega
  | fromIter xs =>
    simp only [stepCb]
    rw [if_neg]
    simp only [cbCount] at h
    omega
  | _ => rfl

end PQ
