import PQ.Lemmas.WF

/-!
# The binary max-heap of `PriorityQueue`: sift-down, sift-up, rebuild
-/
set_option linter.unusedSimpArgs false
namespace PQ
open Arith
set_option linter.unusedSectionVars false
variable {P : Type} [LT P] [DecidableLT P] [LE P] [Std.IsLinearPreorder P] [Std.LawfulOrderLT P]

namespace Store

/-- "the priority at position `a` is not smaller than the one at position `b`" -/
def Ge (s : Store P) (a b : Nat) : Prop := ∀ x y, s.pr a = some x → s.pr b = some y → ¬ x < y

theorem swap_pr {s s' : Store P} {a b : Nat} (hm : s'.map = s.map) (hh : ∀ p, s'.heap[p]? = s.heap[swapPos a b p]?) (p : Nat) :
    s'.pr p = s.pr (swapPos a b p) := by
  unfold pr; rw [hh p, hm]

theorem swap_entryAt {s s' : Store P} {a b : Nat} (hm : s'.map = s.map) (hh : ∀ p, s'.heap[p]? = s.heap[swapPos a b p]?) (p : Nat) :
    s'.entryAt p = s.entryAt (swapPos a b p) := by
  unfold entryAt; rw [hh p, hm]

end Store

namespace MaxQ
open Store

/-- `pickLargest`: never faults on a well-formed store, performs at most two comparisons, and returns a position
among `i` and its children whose priority dominates all three; it differs from `i` only if strictly greater. -/
theorem pickLargest_spec {s : Store P} {i : Nat} (h : s.WF) (hi : i < s.size) :
    ∃ k L, pickLargest s i = .ok (s.tick k, L) ∧ k ≤ 2 ∧ L < s.size ∧ (L = i ∨ L = left i ∨ L = right i) ∧
      s.Ge L i ∧ (left i < s.size → s.Ge L (left i)) ∧ (right i < s.size → s.Ge L (right i)) ∧
      (L ≠ i → ∃ x y, s.pr i = some x ∧ s.pr L = some y ∧ x < y) ∧
      (left i < s.size → 1 ≤ k) := by
  obtain ⟨x, hx, hxp⟩ := TWF.prioAt_ok h hi
  unfold pickLargest
  by_cases hl : left i < s.size
  · obtain ⟨y, hy, hyp⟩ := TWF.prioAt_ok h hl
    by_cases hr : right i < s.size
    · obtain ⟨z, hz, hzp⟩ := TWF.prioAt_ok h hr
      by_cases c1 : x < y
      · by_cases c2 : y < z
        · refine ⟨2, right i, ?_, by omega, hr, Or.inr (Or.inr rfl), ?_, ?_, ?_, ?_, by omega⟩
          · simp [hx, hy, hz, hl, hr, c1, c2, bind, Except.bind, pure, Except.pure, Store.tick_tick, Store.tick_zero]
          · intro a b ha hb; rw [hzp] at ha; rw [hxp] at hb; cases ha; cases hb; grind
          · intro _ a b ha hb; rw [hzp] at ha; rw [hyp] at hb; cases ha; cases hb; grind
          · intro _ a b ha hb; rw [hzp] at ha; rw [hzp] at hb; cases ha; cases hb; grind
          · intro _; exact ⟨x, z, hxp, hzp, by grind⟩
        · refine ⟨2, left i, ?_, by omega, hl, Or.inr (Or.inl rfl), ?_, ?_, ?_, ?_, by omega⟩
          · simp [hx, hy, hz, hl, hr, c1, c2, bind, Except.bind, pure, Except.pure, Store.tick_tick, Store.tick_zero]
          · intro a b ha hb; rw [hyp] at ha; rw [hxp] at hb; cases ha; cases hb; grind
          · intro _ a b ha hb; rw [hyp] at ha; rw [hyp] at hb; cases ha; cases hb; grind
          · intro _ a b ha hb; rw [hyp] at ha; rw [hzp] at hb; cases ha; cases hb; grind
          · intro _; exact ⟨x, y, hxp, hyp, c1⟩
      · by_cases c2 : x < z
        · refine ⟨2, right i, ?_, by omega, hr, Or.inr (Or.inr rfl), ?_, ?_, ?_, ?_, by omega⟩
          · simp [hx, hy, hz, hl, hr, c1, c2, bind, Except.bind, pure, Except.pure, Store.tick_tick, Store.tick_zero]
          · intro a b ha hb; rw [hzp] at ha; rw [hxp] at hb; cases ha; cases hb; grind
          · intro _ a b ha hb; rw [hzp] at ha; rw [hyp] at hb; cases ha; cases hb; grind
          · intro _ a b ha hb; rw [hzp] at ha; rw [hzp] at hb; cases ha; cases hb; grind
          · intro _; exact ⟨x, z, hxp, hzp, c2⟩
        · refine ⟨2, i, ?_, by omega, hi, Or.inl rfl, ?_, ?_, ?_, ?_, by omega⟩
          · simp [hx, hy, hz, hl, hr, c1, c2, bind, Except.bind, pure, Except.pure, Store.tick_tick, Store.tick_zero]
          · intro a b ha hb; rw [hxp] at ha; rw [hxp] at hb; cases ha; cases hb; grind
          · intro _ a b ha hb; rw [hxp] at ha; rw [hyp] at hb; cases ha; cases hb; grind
          · intro _ a b ha hb; rw [hxp] at ha; rw [hzp] at hb; cases ha; cases hb; grind
          · intro hne; exact absurd rfl hne
    · by_cases c1 : x < y
      · refine ⟨1, left i, ?_, by omega, hl, Or.inr (Or.inl rfl), ?_, ?_, ?_, ?_, by omega⟩
        · simp [hx, hy, hl, hr, c1, bind, Except.bind, pure, Except.pure, Store.tick_tick, Store.tick_zero]
        · intro a b ha hb; rw [hyp] at ha; rw [hxp] at hb; cases ha; cases hb; grind
        · intro _ a b ha hb; rw [hyp] at ha; rw [hyp] at hb; cases ha; cases hb; grind
        · intro hr'; exact absurd hr' hr
        · intro _; exact ⟨x, y, hxp, hyp, c1⟩
      · refine ⟨1, i, ?_, by omega, hi, Or.inl rfl, ?_, ?_, ?_, ?_, by omega⟩
        · simp [hx, hy, hl, hr, c1, bind, Except.bind, pure, Except.pure, Store.tick_tick, Store.tick_zero]
        · intro a b ha hb; rw [hxp] at ha; rw [hxp] at hb; cases ha; cases hb; grind
        · intro _ a b ha hb; rw [hxp] at ha; rw [hyp] at hb; cases ha; cases hb; grind
        · intro hr'; exact absurd hr' hr
        · intro hne; exact absurd rfl hne
  · have hr : ¬ right i < s.size := by simp only [left, right] at *; omega
    refine ⟨0, i, ?_, by omega, hi, Or.inl rfl, ?_, ?_, ?_, ?_, ?_⟩
    · simp [hx, hl, bind, Except.bind, pure, Except.pure, Store.tick_tick, Store.tick_zero]
    · intro a b ha hb; rw [hxp] at ha; rw [hxp] at hb; cases ha; cases hb; grind
    · intro hl'; exact absurd hl' hl
    · intro hr'; exact absurd hr' hr
    · intro hne; exact absurd rfl hne
    · intro hl'; exact absurd hl' hl

end MaxQ
end PQ

namespace PQ
open Arith
variable {P : Type} [LT P] [DecidableLT P] [LE P] [Std.IsLinearPreorder P] [Std.LawfulOrderLT P]

namespace Store
/-- every parent/child edge whose parent is at position `≥ lo` is in heap order -/
def EdgesFrom (s : Store P) (lo : Nat) : Prop :=
  ∀ p, 0 < p → p < s.size → lo ≤ parent p → s.Ge (parent p) p

/-- precondition of sift-down at `i`: every edge (from `lo` on) not leaving `i` is in order, and the parent of `i`
dominates the children of `i` -/
def SiftPre (s : Store P) (lo i : Nat) : Prop :=
  (∀ p, 0 < p → p < s.size → lo ≤ parent p → parent p ≠ i → s.Ge (parent p) p) ∧
  (0 < i → lo ≤ parent i → ∀ c, 0 < c → c < s.size → parent c = i → s.Ge (parent i) c)

theorem maxHeap_iff_edgesFrom (s : Store P) : s.MaxHeap ↔ s.EdgesFrom 0 := by
  unfold MaxHeap EdgesFrom Ge
  constructor
  · intro h p hp hps _ a b ha hb; exact h p hp hps a b ha hb
  · intro h p hp hps a b ha hb; exact h p hp hps (Nat.zero_le _) a b ha hb
end Store

namespace MaxQ
open Store

theorem heapifyLoop_spec (fuel : Nat) : ∀ (s : Store P) (lo i : Nat), s.WF → i < s.size → lo ≤ i → s.size - i ≤ fuel →
    s.SiftPre lo i →
    ∃ s', heapifyLoop fuel s i = .ok s' ∧ s'.WF ∧ s'.map = s.map ∧ s'.size = s.size ∧ s'.EdgesFrom lo ∧
      (∀ p, p < i → s'.heap[p]? = s.heap[p]?) := by
  induction fuel with
  | zero => intro s lo i _ hi _ hf; omega
  | succ fuel ih =>
    intro s lo i h hi hlo hf hpre
    obtain ⟨k, L, hpick, _, hL, hLc, geI, geL, geR, hstrict, _⟩ := pickLargest_spec h hi
    by_cases hLi : L = i
    · subst hLi
      refine ⟨s.tick k, ?_, tick_TWF.mpr h, rfl, rfl, ?_, fun _ _ => rfl⟩
      · simp [heapifyLoop, hpick, bind, Except.bind, pure, Except.pure]
      · intro p hp hps hlop
        by_cases hpp : parent p = L
        · have : p = left L ∨ p = right L := by simp only [parent, left, right] at *; omega
          rcases this with rfl | rfl
          · rw [hpp]; exact geL hps
          · rw [hpp]; exact geR hps
        · exact hpre.1 p hp hps hlop hpp
    · have hLi' : i < L := by rcases hLc with h1 | h1 | h1 <;> (try simp only [left, right] at h1) <;> omega
      have hpL : parent L = i := by rcases hLc with h1 | h1 | h1 <;> (try simp only [left, right] at h1) <;> simp only [parent] <;> omega
      obtain ⟨s1, hswap, h1wf, h1map, h1size, _, h1heap⟩ := swap_spec h hi hL
      have h1wf' : s1.WF := by unfold Store.WF; rw [h1size]; exact h1wf
      have hpr : ∀ p, s1.pr p = s.pr (swapPos i L p) := swap_pr h1map h1heap
      obtain ⟨x, y, hxi, hyL, hxy⟩ := hstrict hLi
      have pre1 : s1.SiftPre lo L := by
        constructor
        · intro p hp hps hlop hppL
          rw [h1size] at hps
          intro a b ha hb
          rw [hpr] at ha hb
          by_cases hpi : p = i
          · -- edge (parent i, i): new value at i is the old value at L
            subst hpi
            have hne : parent p ≠ p := by simp only [parent]; omega
            have hneL : parent p ≠ L := by simp only [parent]; omega
            simp [swapPos, hne, hneL] at ha
            simp [swapPos] at hb
            exact hpre.2 hp hlop L (by omega) hL hpL a b ha hb
          · by_cases hpL' : p = L
            · subst hpL'
              rw [hpL] at ha
              simp [swapPos] at ha
              simp [swapPos, hLi] at hb
              rw [hyL] at ha; rw [hxi] at hb; cases ha; cases hb; grind
            · by_cases hppi : parent p = i
              · -- the other child of i
                rw [hppi] at ha
                simp [swapPos] at ha
                simp [swapPos, hpi, hpL'] at hb
                have : p = left i ∨ p = right i := by simp only [parent, left, right] at *; omega
                rcases this with rfl | rfl
                · exact geL hps a b ha hb
                · exact geR hps a b ha hb
              · simp [swapPos, hppi, hppL] at ha
                simp [swapPos, hpi, hpL'] at hb
                exact hpre.1 p hp hps hlop hppi a b ha hb
        · intro _ hloL c hc hcs hcL a b ha hb
          rw [h1size] at hcs
          rw [hpr] at ha hb
          rw [hpL] at ha
          simp [swapPos] at ha
          have hci : c ≠ i := by simp only [parent] at hcL; omega
          have hcL' : c ≠ L := by simp only [parent] at hcL; omega
          simp [swapPos, hci, hcL'] at hb
          -- old edge (L, c)
          have := hpre.1 c hc hcs (by rw [hcL]; omega) (by rw [hcL]; exact hLi)
          rw [hcL] at this
          exact this a b ha hb
      obtain ⟨s', hrun, hwf', hmap', hsize', hedges, hframe⟩ :=
        ih (s1.tick k) lo L (tick_TWF.mpr h1wf') (by simpa [h1size] using hL) (by omega) (by simp [h1size]; omega)
          (by simpa [SiftPre, Ge] using pre1)
      refine ⟨s', ?_, hwf', by rw [hmap']; simpa using h1map, by rw [hsize']; simpa using h1size, hedges, ?_⟩
      · have hswap' : (s.tick k).swap i L = .ok (s1.tick k) := by
          rw [swap_tick, hswap]
        simp [heapifyLoop, hpick, bind, Except.bind, pure, Except.pure, hLi, hswap', hrun]
      · intro p hp
        rw [hframe p (by omega)]
        show s1.heap[p]? = _
        rw [h1heap p]
        have h1 : p ≠ i := by omega
        have h2 : p ≠ L := by omega
        simp [swapPos, h1, h2]

end MaxQ
end PQ
