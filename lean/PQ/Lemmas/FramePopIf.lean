import PQ.Props.C03
import PQ.Lemmas.History
import PQ.Lemmas.SortedWF
/-!
# The frame of the `pop_if` family when the predicate REFUSES (names carry the prefix `fpi_`)

`C03_frame_pop` says what is untouched when a pop returns a pair.  When `pop_if` / `pop_min_if` / `pop_max_if` return
`None` there are two very different reasons: the queue was empty (the predicate was not consulted), or the predicate was
shown an entry and said no — and a predicate receives `&mut I, &mut P`, so it may have REWRITTEN that entry (which is then
put back and the heap repaired).  This file states the frame for that case, from well-formedness alone (no order hypothesis:
it also covers the time after a leaked `iter_mut` guard or a caught panic):

* either the queue was empty and the very same queue is returned,
* or exactly one stored entry `e` — the one shown to `f`, which `f` refused — now holds what `f` made of it
  (`(f e.1 e.2).2`, same key), every other key's entry is exactly as it was, and `len` is unchanged.

`fpi_refused_front_is_peek` / `fpi_refused_back_is_peek` add that the entry shown is the one the corresponding peek reports.
-/
set_option linter.unusedSectionVars false
set_option linter.unusedVariables false
namespace PQ
open Store
variable {P : Type} [LT P] [DecidableLT P] [LE P] [Std.IsLinearPreorder P] [Std.LawfulOrderLT P]

/-- what a refused conditional pop leaves behind: the same queue if it was empty; otherwise exactly one stored entry `e`,
refused by `f`, is replaced by what `f` made of it (same key), and nothing else changes -/
def fpi_Refused (f : Item → P → Bool × Item × P) (q q' : Q P) : Prop :=
  (q.s.size = 0 ∧ (∀ k, q.s.abs k = none) ∧ q' = q) ∨
  ∃ e, q.s.abs e.1.key = some e ∧ (f e.1 e.2).1 = false ∧
    q'.s.abs e.1.key = some ((f e.1 e.2).2.1, (f e.1 e.2).2.2) ∧ (f e.1 e.2).2.1.key = e.1.key ∧
    (∀ k, k ≠ e.1.key → q'.s.abs k = q.s.abs k) ∧ q'.s.size = q.s.size ∧ q'.kind = q.kind

/-- rewriting the entry of a present key keeps the number of stored items -/
theorem fpi_absCard_absSet {a : AbsQ P} {n k : Nat} {e e' : Item × P} (h : cont_absCard a n) (hk : a k = some e) :
    cont_absCard (absSet a k e') n := by
  obtain ⟨l, hnd, hlen, hm⟩ := h
  refine ⟨l, hnd, hlen, fun k' => ?_⟩
  rw [hm k']
  unfold absSet
  by_cases hkk : k' = k
  · subst hkk; simp [hk]
  · simp [hkk]

/-- the core: the specification clause of a conditional pop that answered `None` -/
theorem fpi_of_spec {q q' : Q P} {f : Item → P → Bool × Item × P} (hq : q.s.WF) (hq' : q'.s.WF)
    (hf : ∀ it p, (f it p).2.1.key = it.key) (hkind : q'.kind = q.kind)
    (hempty : q.s.size = 0 → q' = q) (hspec : specPopIf f q.s.abs (.entry none) q'.s.abs) : fpi_Refused f q q' := by
  rcases hspec with ⟨hall, _, habs⟩ | ⟨e, hae, ⟨_, ho, _⟩ | ⟨hfl, _, habs⟩⟩
  · have hz : q.s.size = 0 := by
      have := (C03_is_empty hq).2 hall
      simpa [Store.isEmpty] using this
    exact Or.inl ⟨hz, hall, hempty hz⟩
  · cases ho
  · refine Or.inr ⟨e, hae, hfl, ?_, hf _ _, fun k hk => ?_, ?_, hkind⟩
    · rw [habs]; exact cont_absSet_self
    · rw [habs]; exact cont_absSet_ne hk
    · have h1 := cont_absCard_of_WF hq'
      rw [habs] at h1
      exact cont_absCard_unique h1 (fpi_absCard_absSet (cont_absCard_of_WF hq) hae)

/-- **`pop_if` (PriorityQueue) / `pop_min_if` (DoublePriorityQueue) answered `None`**: on any well-formed queue, with a
predicate that keeps the item's identity, either the queue was empty and is returned as it was, or exactly one stored
entry — the one shown to `f`, which `f` refused — now holds what `f` made of it, every other key's entry is unchanged and
the length is the same -/
theorem fpi_refused_front {q q' : Q P} {f : Item → P → Bool × Item × P} (hq : QWF q)
    (hf : ∀ it p, (f it p).2.1.key = it.key) (hs : step q (.popFrontIf f) = .ok (q', .entry none)) :
    fpi_Refused f q q' := by
  obtain ⟨hwf', hkind, hspec⟩ := cont_step_refines (op := .popFrontIf f) hq hf hs
  have hspec' : specPopIf f q.s.abs (.entry none) q'.s.abs := C03_step_refines (op := .popFrontIf f) hq hf hs
  refine fpi_of_spec hq hwf' hf hkind (fun hz => ?_) hspec'
  obtain ⟨kind, s⟩ := q
  cases kind with
  | pq =>
    simp only [step, MaxQ.popIf_zero f hz, bind, Except.bind, pure, Except.pure, Except.ok.injEq, Prod.mk.injEq] at hs
    exact hs.1.symm
  | dpq =>
    simp only [step, (DQ.popMinIf_core hq f hf).1 hz, bind, Except.bind, pure, Except.pure, Except.ok.injEq,
      Prod.mk.injEq] at hs
    exact hs.1.symm

/-- **`pop_max_if` answered `None`** (only a `DoublePriorityQueue` has it: on a `PriorityQueue` the model's `popBackIf`
answers `.unit`, never `.entry none`, so no hypothesis on the kind is needed): the same frame -/
theorem fpi_refused_back {q q' : Q P} {f : Item → P → Bool × Item × P} (hq : QWF q)
    (hf : ∀ it p, (f it p).2.1.key = it.key) (hs : step q (.popBackIf f) = .ok (q', .entry none)) :
    q.kind = .dpq ∧ fpi_Refused f q q' := by
  obtain ⟨hwf', hkind, _⟩ := cont_step_refines (op := .popBackIf f) hq hf hs
  have hspec := C03_step_refines (op := .popBackIf f) hq hf hs
  obtain ⟨kind, s⟩ := q
  cases kind with
  | pq => rw [cont_step_popBackIf_pq] at hs; cases hs
  | dpq =>
    refine ⟨rfl, fpi_of_spec hq hwf' hf hkind (fun hz => ?_) hspec⟩
    simp only [step, (DQ.popMaxIf_core hq f hf).1 hz, bind, Except.bind, pure, Except.pure, Except.ok.injEq,
      Prod.mk.injEq] at hs
    exact hs.1.symm

/-- both ends at once, in the shape of `C03_frame_pop` -/
theorem fpi_frame_refused {q q' : Q P} {op : Op P} {f : Item → P → Bool × Item × P} (hq : QWF q) (hl : op.Legal)
    (hop : op = .popFrontIf f ∨ op = .popBackIf f) (hs : step q op = .ok (q', .entry none)) : fpi_Refused f q q' := by
  rcases hop with rfl | rfl
  · exact fpi_refused_front hq hl hs
  · exact (fpi_refused_back hq hl hs).2

/-- what `fpi_Refused` gives for a key that is not the one shown to the predicate: nothing at all changed for it, whether
the queue was empty or not — in particular a refused conditional pop never loses, duplicates or alters another element -/
theorem fpi_Refused.other {f : Item → P → Bool × Item × P} {q q' : Q P} (h : fpi_Refused f q q') :
    q'.s.size = q.s.size ∧ ∃ shown : Option Nat, ∀ k, some k ≠ shown → q'.s.abs k = q.s.abs k := by
  rcases h with ⟨_, _, rfl⟩ | ⟨e, _, _, _, _, hfr, hsz, _⟩
  · exact ⟨rfl, none, fun _ _ => rfl⟩
  · exact ⟨hsz, some e.1.key, fun k hk => hfr k (fun hke => hk (by rw [hke]))⟩

/-- **the entry shown is the one `peek` / `peek_min` reports**: when `pop_if` / `pop_min_if` on a non-empty well-formed
queue answers `None`, the entry that now holds `f`'s rewrite is the one the peek reported just before -/
theorem fpi_refused_front_is_peek {q q' : Q P} {f : Item → P → Bool × Item × P} (hq : QWF q)
    (hf : ∀ it p, (f it p).2.1.key = it.key) (hs : step q (.popFrontIf f) = .ok (q', .entry none)) (hn : 0 < q.s.size) :
    ∃ e, (match q.kind with | .pq => MaxQ.peek q.s = some e | .dpq => DQ.peekMin q.s = .ok (some e)) ∧
      q.s.abs e.1.key = some e ∧ (f e.1 e.2).1 = false ∧
      q'.s.abs = absSet q.s.abs e.1.key ((f e.1 e.2).2.1, (f e.1 e.2).2.2) ∧ q'.s.size = q.s.size := by
  obtain ⟨kind, s⟩ := q
  cases kind with
  | pq =>
    obtain ⟨e, hpk, ht, hfl⟩ := (MaxQ.popIf_safe hq f hf).2 hn
    have hmem : s.abs e.1.key = some e := by
      have : s.Mem e := by
        unfold MaxQ.peek IMap.getIndex at hpk
        cases hh : s.heap[0]? with
        | none => simp [hh] at hpk
        | some i => exact ⟨i, by simpa [hh] using hpk⟩
      exact (DQ.mem_iff_abs hq).1 this
    cases hr : (f e.1 e.2).1 with
    | true =>
      obtain ⟨s', hp, _⟩ := ht hr
      simp [step, hp, bind, Except.bind, pure, Except.pure] at hs
    | false =>
      obtain ⟨s', hp, _, habs, hsz⟩ := hfl hr
      simp only [step, hp, bind, Except.bind, pure, Except.pure, Except.ok.injEq, Prod.mk.injEq] at hs
      obtain ⟨rfl, _⟩ := hs
      exact ⟨e, hpk, hmem, hr, habs, hsz⟩
  | dpq =>
    obtain ⟨e, hpk, hmem, _, ht, hfl⟩ := (DQ.popMinIf_core hq f hf).2 hn
    cases hr : (f e.1 e.2).1 with
    | true =>
      obtain ⟨s', hp, _⟩ := ht hr
      simp [step, hp, bind, Except.bind, pure, Except.pure] at hs
    | false =>
      obtain ⟨s', hp, _, habs, hsz, _⟩ := hfl hr
      simp only [step, hp, bind, Except.bind, pure, Except.pure, Except.ok.injEq, Prod.mk.injEq] at hs
      obtain ⟨rfl, _⟩ := hs
      exact ⟨e, hpk, hmem, hr, habs, hsz⟩

/-- … and for `pop_max_if` it is the one `peek_max` reports -/
theorem fpi_refused_back_is_peek {q q' : Q P} {f : Item → P → Bool × Item × P} (hq : QWF q)
    (hf : ∀ it p, (f it p).2.1.key = it.key) (hs : step q (.popBackIf f) = .ok (q', .entry none)) (hn : 0 < q.s.size) :
    ∃ k e, DQ.peekMax q.s = .ok (q.s.tick k, some e) ∧ k ≤ 1 ∧
      q.s.abs e.1.key = some e ∧ (f e.1 e.2).1 = false ∧
      q'.s.abs = absSet q.s.abs e.1.key ((f e.1 e.2).2.1, (f e.1 e.2).2.2) ∧ q'.s.size = q.s.size := by
  obtain ⟨kind, s⟩ := q
  cases kind with
  | pq => rw [cont_step_popBackIf_pq] at hs; cases hs
  | dpq =>
    obtain ⟨k, e, hpk, hk, hmem, _, ht, hfl⟩ := (DQ.popMaxIf_core hq f hf).2 hn
    cases hr : (f e.1 e.2).1 with
    | true =>
      obtain ⟨s', hp, _⟩ := ht hr
      simp [step, hp, bind, Except.bind, pure, Except.pure] at hs
    | false =>
      obtain ⟨s', hp, _, habs, hsz, _⟩ := hfl hr
      simp only [step, hp, bind, Except.bind, pure, Except.pure, Except.ok.injEq, Prod.mk.injEq] at hs
      obtain ⟨rfl, _⟩ := hs
      exact ⟨k, e, hpk, hk, hmem, hr, habs, hsz⟩

/-! ## Non-vacuity: refusing predicates that rewrite what they are shown, on concrete queues of both kinds -/
section Examples

/-- refuses everything and marks what it saw: payload 99, priority raised by 100 -/
private def fNo : Item → Nat → Bool × Item × Nat := fun it p => (false, ⟨it.key, 99⟩, p + 100)

example : ∀ it p, (fNo it p).2.1.key = it.key := fun _ _ => rfl
example : QWF (⟨.pq, cont_ex5⟩ : Q Nat) ∧ QWF (⟨.dpq, cont_exD⟩ : Q Nat) ∧ QWF (⟨.dpq, swf_exU⟩ : Q Nat) :=
  ⟨(by decide +kernel : cont_ex5.WF), (by decide +kernel : cont_exD.WF), swf_exU_wf⟩

/-- `pop_if` on the max-heap `cont_ex5`: `None`; the maximum (key 2, priority 9) now reads `(⟨2, 99⟩, 109)`, the other
four entries are untouched, the length is still 5 -/
example : cont_okR (step ⟨.pq, cont_ex5⟩ (.popFrontIf fNo)) (fun r => cont_outEntry r.2 = some none ∧
    r.1.s.size = 5 ∧ r.1.s.abs 2 = some (⟨2, 99⟩, 109) ∧
    (∀ k, k < 8 → k ≠ 2 → r.1.s.abs k = cont_ex5.abs k)) := by decide +kernel

/-- `pop_min_if` / `pop_max_if` on the min-max heap `cont_exD`: the minimum (key 4), respectively the maximum (key 2), is
rewritten in place; nothing else changes -/
example : cont_okR (step ⟨.dpq, cont_exD⟩ (.popFrontIf fNo)) (fun r => cont_outEntry r.2 = some none ∧
    r.1.s.size = 5 ∧ r.1.s.abs 4 = some (⟨4, 99⟩, 101) ∧
    (∀ k, k < 8 → k ≠ 4 → r.1.s.abs k = cont_exD.abs k)) := by decide +kernel
example : cont_okR (step ⟨.dpq, cont_exD⟩ (.popBackIf fNo)) (fun r => cont_outEntry r.2 = some none ∧
    r.1.s.size = 5 ∧ r.1.s.abs 2 = some (⟨2, 99⟩, 109) ∧
    (∀ k, k < 8 → k ≠ 2 → r.1.s.abs k = cont_exD.abs k)) := by decide +kernel

/-- no order is needed: on `swf_exU` (well-formed, ordered neither as a max-heap nor as a min-max heap) the entry at the
root (key 1) is shown, refused and rewritten; nothing else changes -/
example : cont_okR (step ⟨.dpq, swf_exU⟩ (.popFrontIf fNo)) (fun r => cont_outEntry r.2 = some none ∧
    r.1.s.size = 5 ∧ r.1.s.abs 1 = some (⟨1, 99⟩, 103) ∧
    (∀ k, k < 8 → k ≠ 1 → r.1.s.abs k = swf_exU.abs k)) := by decide +kernel

/-- the empty queue: `None` and the very same queue, the predicate is not consulted -/
example : cont_okR (step (Q.new .dpq : Q Nat) (.popBackIf fNo)) (fun r => cont_outEntry r.2 = some none ∧
    r.1.s.size = 0 ∧ r.1.s.map = #[]) := by decide +kernel

end Examples

end PQ

#print axioms PQ.fpi_refused_front
#print axioms PQ.fpi_refused_back
#print axioms PQ.fpi_frame_refused
#print axioms PQ.fpi_Refused.other
#print axioms PQ.fpi_refused_front_is_peek
#print axioms PQ.fpi_refused_back_is_peek
