import PQ.Model.Stateful
import PQ.Lemmas.History
/-!
# Stateful closures: the twins are the plain functions, and the closure is called exactly once per named element
-/
namespace PQ
variable {P σ : Type}

/-! ## `retain` -/

/-- the closure's state after `retain`: ONE call per stored entry, in slot order, whatever the closure answers -/
theorem IMap.retainS_fst (m : IMap P) (f : PredS σ P) (st : σ) :
    (m.retainS f st).1 = m.toList.foldl (fun a e => (f a e.1 e.2).1) st := by
  unfold IMap.retainS
  rw [← Array.foldl_toList]
  generalize (#[] : IMap P) = acc
  induction m.toList generalizing st acc with
  | nil => rfl
  | cons e es ih => simp only [List.foldl_cons]; exact ih _ _

/-- with a closure that ignores its state the twin is `IMap.retain` -/
theorem IMap.retainS_lift (m : IMap P) (g : Item → P → Bool × Item × P) (st : σ) :
    m.retainS (PredS.lift g) st = (st, m.retain g) := by
  unfold IMap.retainS IMap.retain PredS.lift
  rw [← Array.foldl_toList, ← Array.foldl_toList]
  generalize (#[] : IMap P) = acc
  induction m.toList generalizing acc with
  | nil => rfl
  | cons e es ih => simp only [List.foldl_cons]; exact ih _

theorem Store.retainMutS_fst (s : Store P) (f : PredS σ P) (st : σ) :
    (s.retainMutS f st).1 = s.map.toList.foldl (fun a e => (f a e.1 e.2).1) st := by
  simp [Store.retainMutS, IMap.retainS_fst]

theorem Store.retainMutS_lift (s : Store P) (g : Item → P → Bool × Item × P) (st : σ) :
    s.retainMutS (PredS.lift g) st = (st, s.retainMut g) := by
  simp [Store.retainMutS, Store.retainMut, IMap.retainS_lift]

/-- the call log of a logging closure is the list of stored entries in slot order: every element exactly once -/
theorem Store.retainMutS_log (s : Store P) (g : Item → P → Bool × Item × P) :
    (s.retainMutS (fun (log : List (Item × P)) it p => (log ++ [(it, p)], g it p)) []).1 = s.map.toList := by
  rw [Store.retainMutS_fst]
  suffices h : ∀ (l : List (Item × P)) (acc : List (Item × P)),
      l.foldl (fun a e => a ++ [(e.1, e.2)]) acc = acc ++ l by simpa using h s.map.toList []
  intro l
  induction l with
  | nil => intro acc; simp
  | cons e es ih => intro acc; simp [ih]

/-! ## `swap_remove_if`, the `pop_if` family, `change_priority_by` -/

theorem Store.swapRemoveIfS_lift (s : Store P) (pos : Nat) (g : Item → P → Bool × Item × P) (st : σ) :
    s.swapRemoveIfS pos (PredS.lift g) st = (s.swapRemoveIf pos g).map (fun r => (st, r.1, r.2)) := by
  unfold Store.swapRemoveIfS Store.swapRemoveIf PredS.lift
  cases h1 : getU s.heap pos 114 with
  | error e => simp [bind, Except.bind, Except.map]
  | ok head =>
    simp only [bind, Except.bind]
    cases h2 : unwrapO (s.map.getIndex head) 115 with
    | error e => simp [Except.map]
    | ok e =>
      simp only []
      by_cases hk : (g e.1 e.2).1 = true
      · simp only [hk, if_true]
        cases h3 : Store.swapRemove { s with map := s.map.setIfInBounds head ((g e.1 e.2).2.1, (g e.1 e.2).2.2) } pos <;>
          simp [pure, Except.pure, Except.map]
      · simp [hk, pure, Except.pure, Except.map]

/-- the predicate of `swap_remove_if` runs exactly once, on the entry found at the position (when the call returns) -/
theorem Store.swapRemoveIfS_calls {s s' : Store P} {pos : Nat} {f : PredS σ P} {st st' : σ} {o : Option (Item × P)}
    (h : s.swapRemoveIfS pos f st = .ok (st', s', o)) :
    ∃ e, s.entryAt pos = some e ∧ st' = (f st e.1 e.2).1 := by
  unfold Store.swapRemoveIfS at h
  cases h1 : getU s.heap pos 114 with
  | error e => simp [h1, bind, Except.bind] at h
  | ok head =>
    simp only [h1, bind, Except.bind] at h
    cases h2 : unwrapO (s.map.getIndex head) 115 with
    | error e => simp [h2] at h
    | ok e =>
      have hh : s.heap[pos]? = some head := by
        unfold getU at h1; split at h1 <;> simp_all
      have he : s.map[head]? = some e := by
        unfold unwrapO IMap.getIndex at h2; split at h2 <;> simp_all
      refine ⟨e, by simp [Store.entryAt, hh, he], ?_⟩
      simp only [h2] at h
      by_cases hk : (f st e.1 e.2).2.1 = true
      · simp only [hk, if_true] at h
        cases h3 : Store.swapRemove { s with map := s.map.setIfInBounds head ((f st e.1 e.2).2.2.1, (f st e.1 e.2).2.2.2) } pos with
        | error x => simp [h3] at h
        | ok r => simp [h3, pure, Except.pure] at h; exact h.1.symm
      · simp [hk, pure, Except.pure] at h; exact h.1.symm

theorem Store.changePriorityByS_lift (s : Store P) (k : Nat) (g : P → P) (st : σ) :
    s.changePriorityByS k (SetterS.lift g) st = (s.changePriorityBy k g).map (fun r => (st, r.1, r.2)) := by
  unfold Store.changePriorityByS Store.changePriorityBy SetterS.lift
  cases s.map.getFull k with
  | none => simp [pure, Except.pure, Except.map]
  | some x =>
    obtain ⟨index, it, old⟩ := x
    cases hq : getU s.qp index 117 <;> simp [hq, bind, Except.bind, pure, Except.pure, Except.map]

/-- the setter of `change_priority_by` runs once if the item is present (on its stored priority) and not at all otherwise -/
theorem Store.changePriorityByS_calls {s s' : Store P} {k : Nat} {f : SetterS σ P} {st st' : σ} {o : Option Nat}
    (h : s.changePriorityByS k f st = .ok (st', s', o)) :
    (∀ x, s.map.getFull k = some x → st' = (f st x.2.2).1) ∧ (s.map.getFull k = none → st' = st) := by
  unfold Store.changePriorityByS at h
  cases hg : s.map.getFull k with
  | none => simp [hg, pure, Except.pure] at h; simp [h.1]
  | some x =>
    obtain ⟨index, it, old⟩ := x
    simp only [hg] at h
    cases hq : getU s.qp index 117 with
    | error e => simp [hq, bind, Except.bind] at h
    | ok pos => simp [hq, bind, Except.bind, pure, Except.pure] at h; simp [h.1]

variable [LT P] [DecidableLT P]

theorem MaxQ.retainMutS_lift (s : Store P) (g : Item → P → Bool × Item × P) (st : σ) :
    MaxQ.retainMutS s (PredS.lift g) st = (MaxQ.retainMut s g).map (fun r => (st, r)) := by
  unfold MaxQ.retainMutS MaxQ.retainMut
  rw [Store.retainMutS_lift]
  cases hb : MaxQ.heapBuild (s.retainMut g) <;> simp [hb, bind, Except.bind, pure, Except.pure, Except.map]

theorem DQ.retainMutS_lift (s : Store P) (g : Item → P → Bool × Item × P) (st : σ) :
    DQ.retainMutS s (PredS.lift g) st = (DQ.retainMut s g).map (fun r => (st, r)) := by
  unfold DQ.retainMutS DQ.retainMut
  rw [Store.retainMutS_lift]
  cases hb : DQ.heapBuild (s.retainMut g) <;> simp [hb, bind, Except.bind, pure, Except.pure, Except.map]

/-- the state after `retain_mut` of either kind: the fold over the stored entries in slot order (when the call returns) -/
theorem MaxQ.retainMutS_fst {s s' : Store P} {f : PredS σ P} {st st' : σ} (h : MaxQ.retainMutS s f st = .ok (st', s')) :
    st' = s.map.toList.foldl (fun a e => (f a e.1 e.2).1) st := by
  unfold MaxQ.retainMutS at h
  cases hb : MaxQ.heapBuild (s.retainMutS f st).2 with
  | error e => simp [hb, bind, Except.bind] at h
  | ok x => simp [hb, bind, Except.bind, pure, Except.pure] at h; rw [← h.1, Store.retainMutS_fst]

theorem DQ.retainMutS_fst {s s' : Store P} {f : PredS σ P} {st st' : σ} (h : DQ.retainMutS s f st = .ok (st', s')) :
    st' = s.map.toList.foldl (fun a e => (f a e.1 e.2).1) st := by
  unfold DQ.retainMutS at h
  cases hb : DQ.heapBuild (s.retainMutS f st).2 with
  | error e => simp [hb, bind, Except.bind] at h
  | ok x => simp [hb, bind, Except.bind, pure, Except.pure] at h; rw [← h.1, Store.retainMutS_fst]

theorem MaxQ.popIfS_lift (s : Store P) (g : Item → P → Bool × Item × P) (st : σ) :
    MaxQ.popIfS s (PredS.lift g) st = (MaxQ.popIf s g).map (fun r => (st, r.1, r.2)) := by
  unfold MaxQ.popIfS MaxQ.popIf
  rcases hs : s.size with _ | _ | n
  · simp [pure, Except.pure, Except.map]
  · simp only [Store.swapRemoveIfS_lift]
  · simp only [Store.swapRemoveIfS_lift]
    cases h : s.swapRemoveIf 0 g with
    | error e => simp [bind, Except.bind, Except.map]
    | ok r =>
      simp only [bind, Except.bind, Except.map]
      cases hh : MaxQ.heapify r.1 0 <;> simp [pure, Except.pure]

theorem DQ.popMinIfS_lift (s : Store P) (g : Item → P → Bool × Item × P) (st : σ) :
    DQ.popMinIfS s (PredS.lift g) st = (DQ.popMinIf s g).map (fun r => (st, r.1, r.2)) := by
  unfold DQ.popMinIfS DQ.popMinIf
  cases hf : DQ.findMin s with
  | none => simp [pure, Except.pure, Except.map]
  | some i =>
    simp only [Store.swapRemoveIfS_lift]
    cases h : s.swapRemoveIf i g with
    | error e => simp [bind, Except.bind, Except.map]
    | ok r =>
      simp only [bind, Except.bind, Except.map]
      cases hh : DQ.heapify r.1 i <;> simp [pure, Except.pure]

theorem DQ.popMaxIfS_lift (s : Store P) (g : Item → P → Bool × Item × P) (st : σ) :
    DQ.popMaxIfS s (PredS.lift g) st = (DQ.popMaxIf s g).map (fun r => (st, r.1, r.2)) := by
  unfold DQ.popMaxIfS DQ.popMaxIf
  cases hf : DQ.findMax s with
  | error e => simp [bind, Except.bind, Except.map]
  | ok x =>
    obtain ⟨s1, r⟩ := x
    simp only [bind, Except.bind]
    cases r with
    | none => simp [pure, Except.pure, Except.map]
    | some i =>
      simp only [Store.swapRemoveIfS_lift]
      cases h : s1.swapRemoveIf i g with
      | error e => simp [Except.map]
      | ok r =>
        simp only [Except.map]
        cases hh : DQ.upHeapify r.1 i <;> simp [pure, Except.pure]

/-! ## the `pop_if` family calls its predicate exactly once, on the element the peek reports; never on an empty queue -/

theorem MaxQ.popIfS_calls {s s' : Store P} {f : PredS σ P} {st st' : σ} {o : Option (Item × P)}
    (h : MaxQ.popIfS s f st = .ok (st', s', o)) :
    (s.size = 0 → st' = st ∧ o = none) ∧ (0 < s.size → ∃ e, MaxQ.peek s = some e ∧ st' = (f st e.1 e.2).1) := by
  unfold MaxQ.popIfS at h
  have hpk : ∀ e, s.entryAt 0 = some e → MaxQ.peek s = some e := by
    intro e he
    unfold Store.entryAt at he; unfold MaxQ.peek IMap.getIndex
    cases hh : s.heap[0]? with
    | none => simp [hh] at he
    | some i => simpa [hh] using he
  rcases hs : s.size with _ | _ | n
  · simp only [hs, pure, Except.pure] at h
    cases h; exact ⟨fun _ => ⟨rfl, rfl⟩, fun h0 => absurd h0 (by omega)⟩
  · simp only [hs] at h
    obtain ⟨e, he, hst⟩ := Store.swapRemoveIfS_calls h
    exact ⟨fun h0 => by omega, fun _ => ⟨e, hpk e he, hst⟩⟩
  · simp only [hs, bind, Except.bind] at h
    cases h1 : s.swapRemoveIfS 0 f st with
    | error x => simp [h1] at h
    | ok r =>
      obtain ⟨st1, s1, o1⟩ := r
      simp only [h1] at h
      cases h2 : MaxQ.heapify s1 0 with
      | error x => simp [h2] at h
      | ok s2 =>
        simp [h2, pure, Except.pure] at h
        obtain ⟨e, he, hst⟩ := Store.swapRemoveIfS_calls h1
        exact ⟨fun h0 => by omega, fun _ => ⟨e, hpk e he, by rw [← h.1]; exact hst⟩⟩

theorem DQ.popMinIfS_calls {s s' : Store P} {f : PredS σ P} {st st' : σ} {o : Option (Item × P)}
    (h : DQ.popMinIfS s f st = .ok (st', s', o)) :
    (s.size = 0 → st' = st ∧ o = none) ∧
      (0 < s.size → ∃ e, DQ.peekMin s = .ok (some e) ∧ st' = (f st e.1 e.2).1) := by
  unfold DQ.popMinIfS at h
  unfold DQ.peekMin DQ.findMin
  unfold DQ.findMin at h
  by_cases h0 : s.size = 0
  · simp only [h0, if_true, pure, Except.pure] at h
    cases h; exact ⟨fun _ => ⟨rfl, rfl⟩, fun hp => absurd hp (by omega)⟩
  · simp only [h0, if_false, bind, Except.bind] at h
    refine ⟨fun hz => absurd hz h0, fun _ => ?_⟩
    cases h1 : s.swapRemoveIfS 0 f st with
    | error x => simp [h1] at h
    | ok r =>
      obtain ⟨st1, s1, o1⟩ := r
      simp only [h1] at h
      cases h2 : DQ.heapify s1 0 with
      | error x => simp [h2] at h
      | ok s2 =>
        simp [h2, pure, Except.pure] at h
        obtain ⟨e, he, hst⟩ := Store.swapRemoveIfS_calls h1
        refine ⟨e, ?_, by rw [← h.1]; exact hst⟩
        unfold Store.entryAt at he
        cases hh : s.heap[0]? with
        | none => simp [hh] at he
        | some i =>
          simp [h0, DQ.entryAt, getU, hh, IMap.getIndex, bind, Except.bind, pure, Except.pure]
          simpa [hh] using he

theorem DQ.popMaxIfS_calls {s s' : Store P} {f : PredS σ P} {st st' : σ} {o : Option (Item × P)}
    (h : DQ.popMaxIfS s f st = .ok (st', s', o)) :
    (s.size = 0 → st' = st ∧ o = none) ∧
      (0 < s.size → ∃ s1 e, DQ.peekMax s = .ok (s1, some e) ∧ st' = (f st e.1 e.2).1) := by
  unfold DQ.popMaxIfS at h
  unfold DQ.peekMax
  cases hf : DQ.findMax s with
  | error x => simp [hf, bind, Except.bind] at h
  | ok x =>
    obtain ⟨s1, r⟩ := x
    simp only [hf, bind, Except.bind] at h ⊢
    have hr : (r = none ↔ s.size = 0) ∧ s1.heap = s.heap ∧ s1.map = s.map := by
      unfold DQ.findMax at hf
      rcases hs : s.size with _ | _ | _ | n <;> simp only [hs, pure, Except.pure] at hf
      · cases hf; simp
      · cases hf; simp
      · cases hf; simp
      · cases hp1 : s.prioAt 1 with
        | error y => simp [hp1, bind, Except.bind] at hf
        | ok p1 =>
          cases hp2 : s.prioAt 2 with
          | error y => simp [hp1, hp2, bind, Except.bind] at hf
          | ok p2 =>
            simp [hp1, hp2, bind, Except.bind] at hf
            obtain ⟨rfl, rfl⟩ := hf
            simp [Store.tick]
    cases r with
    | none =>
      simp only [pure, Except.pure] at h
      cases h
      exact ⟨fun _ => ⟨rfl, rfl⟩, fun hp => absurd (hr.1.mp rfl) (by omega)⟩
    | some i =>
      refine ⟨fun hz => (by have hn := hr.1.mpr hz; cases hn), fun _ => ?_⟩
      cases h1 : s1.swapRemoveIfS i f st with
      | error y => simp [h1] at h
      | ok q =>
        obtain ⟨st1, s2, o1⟩ := q
        simp only [h1] at h
        cases h2 : DQ.upHeapify s2 i with
        | error y => simp [h2] at h
        | ok s3 =>
          simp [h2, pure, Except.pure] at h
          obtain ⟨e, he, hst⟩ := Store.swapRemoveIfS_calls h1
          refine ⟨s1, e, ?_, by rw [← h.1]; exact hst⟩
          unfold Store.entryAt at he
          cases hh : s1.heap[i]? with
          | none => simp [hh] at he
          | some j =>
            simp [DQ.entryAt, getU, hh, IMap.getIndex, bind, Except.bind, pure, Except.pure]
            simpa [hh] using he

end PQ
