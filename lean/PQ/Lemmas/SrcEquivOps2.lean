import PQ.Lemmas.SrcEquivPush
/-!
# Source-translated tie, phase 5.2b: the remaining public wrappers

`change_priority`, `change_priority_by`, `push_increase`, `push_decrease`, the `pop_if` family, the `peek` family and the
`peek_mut` family of both queues.  User closures and items are opaque values (`Val.pred`, `Val.setter`, `Val.item`).
`peek_mut` hands out a `&mut I`: the IR function returns the slot and its entry (`Val.optSlot`), the theorem applies the
caller's write `w` to it (`applyWrite`) and compares with the model's `peekMutWrite s w`.
-/
set_option linter.unusedSimpArgs false
set_option linter.unusedSectionVars false
namespace PQ.SrcEquiv
open PQ PQ.Src PQ.SrcGen
variable {P : Type} [LT P] [DecidableLT P]

/-! ## `change_priority`, `change_priority_by` -/

theorem call_storeChangePriority (s : Store P) (k : Nat) (p : P) (n : Nat) :
    callWith (exec prog (n + 1)) prog .storeChangePriority s [k] [p] []
      = (fun r => (r.1, Val.optPPos r.2)) <$> s.changePriority k p :=
  storeChangePriority s k p (n + 1) (by omega)

theorem call_storeChangePriorityBy (s : Store P) (k : Nat) (g : P → P) (n : Nat) :
    callWith (exec prog (n + 1)) prog .storeChangePriorityBy s [k] [] [Val.setter g]
      = (fun r => (r.1, Val.optNat r.2)) <$> s.changePriorityBy k g :=
  storeChangePriorityBy s k g (n + 1) (by omega)

theorem changePriority_post (s : Store P) (k : Nat) (p : P) :
    Post (s.changePriority k p) (fun r => r.1.size = s.size ∧ r.1.heap = s.heap) := by
  unfold Store.changePriority
  split
  · exact Post.bind (Post.triv _) fun _ _ => Post.pure ⟨rfl, rfl⟩
  · exact Post.pure ⟨rfl, rfl⟩

theorem changePriorityBy_post (s : Store P) (k : Nat) (g : P → P) :
    Post (s.changePriorityBy k g) (fun r => r.1.size = s.size ∧ r.1.heap = s.heap) := by
  unfold Store.changePriorityBy
  split
  · exact Post.bind (Post.triv _) fun _ _ => Post.pure ⟨rfl, rfl⟩
  · exact Post.pure ⟨rfl, rfl⟩

/-- `PriorityQueue::change_priority` = `MaxQ.changePriority` -/
theorem pqChangePriority (s : Store P) (k : Nat) (p : P) (fuel : Nat) (h : fuel ≥ s.size + s.heap.size + 5) :
    Src.run SrcGen.prog fuel .pqChangePriority s [k] [p]
      = (fun r => (r.1, Val.optP r.2)) <$> MaxQ.changePriority s k p := by
  obtain ⟨n, rfl⟩ : ∃ n, fuel = n + 2 := ⟨fuel - 2, by omega⟩
  src_enter [prog, SrcGen.pqChangePriority]
  unfold MaxQ.changePriority
  src_eval [pqChangePriority_body, call_storeChangePriority]
  refine bind_congr_ok fun r hr => ?_
  obtain ⟨hsz, hhp⟩ := changePriority_post s k p r hr
  obtain ⟨s', res⟩ := r
  cases res with
  | none => src_eval
  | some x =>
    obtain ⟨old, pos⟩ := x
    simp only at hsz hhp
    src_eval
    rw [call_pqUpHeapify _ _ _ (by rw [hsz, hhp]; omega)]
    src_eval

/-- `DoublePriorityQueue::change_priority` = `DQ.changePriority` -/
theorem dqChangePriority (s : Store P) (k : Nat) (p : P) (fuel : Nat) (h : fuel ≥ s.size + s.heap.size + 6) :
    Src.run SrcGen.prog fuel .dqChangePriority s [k] [p]
      = (fun r => (r.1, Val.optP r.2)) <$> DQ.changePriority s k p := by
  obtain ⟨n, rfl⟩ : ∃ n, fuel = n + 2 := ⟨fuel - 2, by omega⟩
  src_enter [prog, SrcGen.dqChangePriority]
  unfold DQ.changePriority
  src_eval [dqChangePriority_body, call_storeChangePriority]
  refine bind_congr_ok fun r hr => ?_
  obtain ⟨hsz, hhp⟩ := changePriority_post s k p r hr
  obtain ⟨s', res⟩ := r
  cases res with
  | none => src_eval
  | some x =>
    obtain ⟨old, pos⟩ := x
    simp only at hsz hhp
    src_eval
    rw [call_dqUpHeapify _ _ _ (by rw [hsz, hhp]; omega)]
    src_eval

/-- `PriorityQueue::change_priority_by` = `MaxQ.changePriorityBy` -/
theorem pqChangePriorityBy (s : Store P) (k : Nat) (g : P → P) (fuel : Nat) (h : fuel ≥ s.size + s.heap.size + 5) :
    Src.run SrcGen.prog fuel .pqChangePriorityBy s [k] [] [Val.setter g]
      = (fun r => (r.1, Val.bool r.2)) <$> MaxQ.changePriorityBy s k g := by
  obtain ⟨n, rfl⟩ : ∃ n, fuel = n + 2 := ⟨fuel - 2, by omega⟩
  src_enter [prog, SrcGen.pqChangePriorityBy]
  unfold MaxQ.changePriorityBy
  src_eval [pqChangePriorityBy_body, call_storeChangePriorityBy]
  refine bind_congr_ok fun r hr => ?_
  obtain ⟨hsz, hhp⟩ := changePriorityBy_post s k g r hr
  obtain ⟨s', res⟩ := r
  cases res with
  | none => src_eval
  | some pos =>
    simp only at hsz hhp
    src_eval
    rw [call_pqUpHeapify _ _ _ (by rw [hsz, hhp]; omega)]
    src_eval

/-- `DoublePriorityQueue::change_priority_by` = `DQ.changePriorityBy` -/
theorem dqChangePriorityBy (s : Store P) (k : Nat) (g : P → P) (fuel : Nat) (h : fuel ≥ s.size + s.heap.size + 6) :
    Src.run SrcGen.prog fuel .dqChangePriorityBy s [k] [] [Val.setter g]
      = (fun r => (r.1, Val.bool r.2)) <$> DQ.changePriorityBy s k g := by
  obtain ⟨n, rfl⟩ : ∃ n, fuel = n + 2 := ⟨fuel - 2, by omega⟩
  src_enter [prog, SrcGen.dqChangePriorityBy]
  unfold DQ.changePriorityBy
  src_eval [dqChangePriorityBy_body, call_storeChangePriorityBy]
  refine bind_congr_ok fun r hr => ?_
  obtain ⟨hsz, hhp⟩ := changePriorityBy_post s k g r hr
  obtain ⟨s', res⟩ := r
  cases res with
  | none => src_eval
  | some pos =>
    simp only at hsz hhp
    src_eval
    rw [call_dqUpHeapify _ _ _ (by rw [hsz, hhp]; omega)]
    src_eval

/-! ## `push_increase`, `push_decrease` -/

theorem call_pqPush (s : Store P) (it : Item) (p : P) (n : Nat) (h : n ≥ s.size + s.heap.size + 5) :
    callWith (exec prog n) prog .pqPush s [] [p] [Val.item it] = (fun r => (r.1, Val.optP r.2)) <$> MaxQ.push s it p :=
  pqPush s it p n h

theorem call_dqPush (s : Store P) (it : Item) (p : P) (n : Nat) (h : n ≥ s.size + s.heap.size + 6) :
    callWith (exec prog n) prog .dqPush s [] [p] [Val.item it] = (fun r => (r.1, Val.optP r.2)) <$> DQ.push s it p :=
  dqPush s it p n h

/-- `PriorityQueue::push_increase` = `MaxQ.pushIncrease` -/
theorem pqPushIncrease (s : Store P) (it : Item) (p : P) (fuel : Nat) (h : fuel ≥ s.size + s.heap.size + 6) :
    Src.run SrcGen.prog fuel .pqPushIncrease s [] [p] [Val.item it]
      = (fun r => (r.1, Val.optP r.2)) <$> MaxQ.pushIncrease s it p := by
  obtain ⟨n, rfl⟩ : ∃ n, fuel = n + 1 := ⟨fuel - 1, by omega⟩
  src_enter [prog, SrcGen.pqPushIncrease]
  unfold MaxQ.pushIncrease
  src_eval [pqPushIncrease_body]
  cases hq : s.getPriority it.key with
  | none =>
    src_eval
    rw [call_pqPush _ _ _ _ (by omega)]
    src_eval
  | some q =>
    src_eval
    by_cases hlt : q < p
    · simp only [hlt, ↓reduceIte]
      rw [call_pqPush _ _ _ _ (by simp only [size_tick, heap_tick]; omega)]
      src_eval
    · simp only [hlt, ↓reduceIte]

/-- `PriorityQueue::push_decrease` = `MaxQ.pushDecrease` -/
theorem pqPushDecrease (s : Store P) (it : Item) (p : P) (fuel : Nat) (h : fuel ≥ s.size + s.heap.size + 6) :
    Src.run SrcGen.prog fuel .pqPushDecrease s [] [p] [Val.item it]
      = (fun r => (r.1, Val.optP r.2)) <$> MaxQ.pushDecrease s it p := by
  obtain ⟨n, rfl⟩ : ∃ n, fuel = n + 1 := ⟨fuel - 1, by omega⟩
  src_enter [prog, SrcGen.pqPushDecrease]
  unfold MaxQ.pushDecrease
  src_eval [pqPushDecrease_body]
  cases hq : s.getPriority it.key with
  | none =>
    src_eval
    rw [call_pqPush _ _ _ _ (by omega)]
    src_eval
  | some q =>
    src_eval
    by_cases hlt : p < q
    · simp only [hlt, ↓reduceIte]
      rw [call_pqPush _ _ _ _ (by simp only [size_tick, heap_tick]; omega)]
      src_eval
    · simp only [hlt, ↓reduceIte]

/-- `DoublePriorityQueue::push_increase` = `DQ.pushIncrease` -/
theorem dqPushIncrease (s : Store P) (it : Item) (p : P) (fuel : Nat) (h : fuel ≥ s.size + s.heap.size + 7) :
    Src.run SrcGen.prog fuel .dqPushIncrease s [] [p] [Val.item it]
      = (fun r => (r.1, Val.optP r.2)) <$> DQ.pushIncrease s it p := by
  obtain ⟨n, rfl⟩ : ∃ n, fuel = n + 1 := ⟨fuel - 1, by omega⟩
  src_enter [prog, SrcGen.dqPushIncrease]
  unfold DQ.pushIncrease
  src_eval [dqPushIncrease_body]
  cases hq : s.getPriority it.key with
  | none =>
    src_eval
    rw [call_dqPush _ _ _ _ (by omega)]
    src_eval
  | some q =>
    src_eval
    by_cases hlt : q < p
    · simp only [hlt, ↓reduceIte]
      rw [call_dqPush _ _ _ _ (by simp only [size_tick, heap_tick]; omega)]
      src_eval
    · simp only [hlt, ↓reduceIte]

/-- `DoublePriorityQueue::push_decrease` = `DQ.pushDecrease` -/
theorem dqPushDecrease (s : Store P) (it : Item) (p : P) (fuel : Nat) (h : fuel ≥ s.size + s.heap.size + 7) :
    Src.run SrcGen.prog fuel .dqPushDecrease s [] [p] [Val.item it]
      = (fun r => (r.1, Val.optP r.2)) <$> DQ.pushDecrease s it p := by
  obtain ⟨n, rfl⟩ : ∃ n, fuel = n + 1 := ⟨fuel - 1, by omega⟩
  src_enter [prog, SrcGen.dqPushDecrease]
  unfold DQ.pushDecrease
  src_eval [dqPushDecrease_body]
  cases hq : s.getPriority it.key with
  | none =>
    src_eval
    rw [call_dqPush _ _ _ _ (by omega)]
    src_eval
  | some q =>
    src_eval
    by_cases hlt : p < q
    · simp only [hlt, ↓reduceIte]
      rw [call_dqPush _ _ _ _ (by simp only [size_tick, heap_tick]; omega)]
      src_eval
    · simp only [hlt, ↓reduceIte]

/-! ## `pop_if`, `pop_min_if`, `pop_max_if` -/

theorem call_storeSwapRemoveIf (s : Store P) (pos : Nat) (f : Item → P → Bool × Item × P) (n : Nat) :
    callWith (exec prog (n + 2)) prog .storeSwapRemoveIf s [pos] [] [Val.pred f]
      = (fun r => (r.1, Val.optEntry r.2)) <$> s.swapRemoveIf pos f :=
  storeSwapRemoveIf s pos f (n + 2) (by omega)

theorem swapRemoveIf_post_size (s : Store P) (pos : Nat) (f : Item → P → Bool × Item × P) :
    Post (s.swapRemoveIf pos f) (fun r => r.1.size ≤ s.size) := by
  unfold Store.swapRemoveIf
  refine Post.bind (Post.triv _) fun _ _ => Post.bind (Post.triv _) fun _ _ => Post.ite (fun _ => ?_)
    (fun _ => Post.pure (Nat.le_refl _))
  intro r hr
  have := swapRemove_post_size _ _ r hr
  simp only at this
  omega

/-- `PriorityQueue::pop_if` = `MaxQ.popIf` -/
theorem pqPopIf (s : Store P) (f : Item → P → Bool × Item × P) (fuel : Nat) (h : fuel ≥ s.size + 4) :
    Src.run SrcGen.prog fuel .pqPopIf s [] [] [Val.pred f]
      = (fun r => (r.1, Val.optEntry r.2)) <$> MaxQ.popIf s f := by
  obtain ⟨k, rfl⟩ : ∃ k, fuel = k + 3 := ⟨fuel - 3, by omega⟩
  src_enter [prog, SrcGen.pqPopIf]
  unfold MaxQ.popIf
  obtain h0 | h1 | ⟨n, hn⟩ : s.size = 0 ∨ s.size = 1 ∨ ∃ n, s.size = n + 2 := by
    by_cases h0 : s.size = 0
    · exact Or.inl h0
    by_cases h1 : s.size = 1
    · exact Or.inr (Or.inl h1)
    exact Or.inr (Or.inr ⟨s.size - 2, by omega⟩)
  · src_eval [pqPopIf_body, h0]
  · src_eval [pqPopIf_body, h1, call_storeSwapRemoveIf]
  · src_eval [pqPopIf_body, hn, call_storeSwapRemoveIf]
    refine bind_congr_ok fun r hr => ?_
    have hsz := swapRemoveIf_post_size s 0 f r hr
    rw [call_pqHeapify _ _ _ (by simp only at hsz; omega)]
    src_eval

/-- `DoublePriorityQueue::pop_min_if` = `DQ.popMinIf` -/
theorem dqPopMinIf (s : Store P) (f : Item → P → Bool × Item × P) (fuel : Nat) (h : fuel ≥ s.size + 5) :
    Src.run SrcGen.prog fuel .dqPopMinIf s [] [] [Val.pred f]
      = (fun r => (r.1, Val.optEntry r.2)) <$> DQ.popMinIf s f := by
  obtain ⟨k, rfl⟩ : ∃ k, fuel = k + 3 := ⟨fuel - 3, by omega⟩
  src_enter [prog, SrcGen.dqPopMinIf]
  unfold DQ.popMinIf
  src_eval [dqPopMinIf_body, call_dqFindMin]
  cases hf : DQ.findMin s with
  | none => src_eval
  | some i =>
    src_eval [call_storeSwapRemoveIf]
    refine bind_congr_ok fun r hr => ?_
    have hsz := swapRemoveIf_post_size s i f r hr
    rw [call_dqHeapify _ _ _ (by simp only at hsz; omega)]
    src_eval

theorem findMax_post (s : Store P) :
    Post (DQ.findMax s) (fun r => r.1.size = s.size ∧ ∀ i, r.2 = some i → i ≤ 2) := by
  unfold DQ.findMax
  split
  · exact Post.pure ⟨rfl, fun i hi => by cases hi⟩
  · exact Post.pure ⟨rfl, fun i hi => by cases hi; omega⟩
  · exact Post.pure ⟨rfl, fun i hi => by cases hi; omega⟩
  · refine Post.bind (Post.triv _) fun _ _ => Post.bind (Post.triv _) fun _ _ => Post.pure ⟨rfl, fun i hi => ?_⟩
    simp only [Option.some.injEq] at hi
    split at hi <;> omega

/-- `DoublePriorityQueue::pop_max_if` = `DQ.popMaxIf` -/
theorem dqPopMaxIf (s : Store P) (f : Item → P → Bool × Item × P) (fuel : Nat) (h : fuel ≥ s.size + 8) :
    Src.run SrcGen.prog fuel .dqPopMaxIf s [] [] [Val.pred f]
      = (fun r => (r.1, Val.optEntry r.2)) <$> DQ.popMaxIf s f := by
  obtain ⟨k, rfl⟩ : ∃ k, fuel = k + 3 := ⟨fuel - 3, by omega⟩
  src_enter [prog, SrcGen.dqPopMaxIf]
  unfold DQ.popMaxIf
  src_eval [dqPopMaxIf_body, call_dqFindMax]
  refine bind_congr_ok fun fm hfm => ?_
  obtain ⟨hs1, hi2⟩ := findMax_post s fm hfm
  obtain ⟨s1, res⟩ := fm
  cases res with
  | none => src_eval
  | some i =>
    have := hi2 i rfl
    src_eval [call_storeSwapRemoveIf]
    refine bind_congr_ok fun r hr => ?_
    have hsz := swapRemoveIf_post_size s1 i f r hr
    rw [call_dqUpHeapify _ _ _ (by simp only at hsz hs1; omega)]
    src_eval

/-! ## `peek`, `peek_min`, `peek_max` -/

/-- `PriorityQueue::peek` = `MaxQ.peek` -/
theorem pqPeek (s : Store P) (fuel : Nat) (h : fuel ≥ 1) :
    Src.run SrcGen.prog fuel .pqPeek s [] = pure (s, Val.optEntry (MaxQ.peek s)) := by
  obtain ⟨k, rfl⟩ : ∃ k, fuel = k + 1 := ⟨fuel - 1, by omega⟩
  src_enter [prog, SrcGen.pqPeek]
  unfold MaxQ.peek
  src_eval [pqPeek_body]
  cases s.heap[0]? <;> src_eval

/-- `DoublePriorityQueue::peek_min` = `DQ.peekMin` -/
theorem dqPeekMin (s : Store P) (fuel : Nat) (h : fuel ≥ 2) :
    Src.run SrcGen.prog fuel .dqPeekMin s [] = (fun r => (s, Val.optEntry r)) <$> DQ.peekMin s := by
  obtain ⟨k, rfl⟩ : ∃ k, fuel = k + 2 := ⟨fuel - 2, by omega⟩
  src_enter [prog, SrcGen.dqPeekMin]
  unfold DQ.peekMin
  src_eval [dqPeekMin_body, call_dqFindMin]
  cases hf : DQ.findMin s with
  | none => src_eval
  | some i => src_eval [DQ.entryAt]

/-- `DoublePriorityQueue::peek_max` = `DQ.peekMax` -/
theorem dqPeekMax (s : Store P) (fuel : Nat) (h : fuel ≥ 3) :
    Src.run SrcGen.prog fuel .dqPeekMax s [] = (fun r => (r.1, Val.optEntry r.2)) <$> DQ.peekMax s := by
  obtain ⟨k, rfl⟩ : ∃ k, fuel = k + 3 := ⟨fuel - 3, by omega⟩
  src_enter [prog, SrcGen.dqPeekMax]
  unfold DQ.peekMax
  src_eval [dqPeekMax_body, call_dqFindMax]
  refine bind_congr_ok fun fm _ => ?_
  obtain ⟨s1, res⟩ := fm
  cases res with
  | none => src_eval
  | some i => src_eval [DQ.entryAt]

/-! ## `peek_mut`, `peek_min_mut`, `peek_max_mut` -/

/-- what the caller does with the `&mut I` that `peek_mut` hands out: `w` is the caller's write -/
def applyWrite (w : Item → Item) (r : Store P × Val P) : Store P × Option (Item × P) :=
  match r.2 with
  | .optSlot (some (i, it, p)) => ({ r.1 with map := r.1.map.setItem i (w it) }, some (it, p))
  | _ => (r.1, none)

/-- `PriorityQueue::peek_mut` followed by the caller's write = `MaxQ.peekMutWrite` -/
theorem pqPeekMut (s : Store P) (w : Item → Item) (fuel : Nat) (h : fuel ≥ 1) :
    applyWrite w <$> Src.run SrcGen.prog fuel .pqPeekMut s [] = MaxQ.peekMutWrite s w := by
  obtain ⟨k, rfl⟩ : ∃ k, fuel = k + 1 := ⟨fuel - 1, by omega⟩
  src_enter [prog, SrcGen.pqPeekMut]
  unfold MaxQ.peekMutWrite
  by_cases h0 : s.size = 0
  · src_eval [pqPeekMut_body, h0, applyWrite]
  · src_eval [pqPeekMut_body, h0, applyWrite]
    refine bind_congr_ok fun i _ => ?_
    cases s.map.getIndex i <;> rfl

/-- `DoublePriorityQueue::peek_min_mut` followed by the caller's write = `DQ.peekMinMutWrite` -/
theorem dqPeekMinMut (s : Store P) (w : Item → Item) (fuel : Nat) (h : fuel ≥ 2) :
    applyWrite w <$> Src.run SrcGen.prog fuel .dqPeekMinMut s [] = DQ.peekMinMutWrite s w := by
  obtain ⟨k, rfl⟩ : ∃ k, fuel = k + 2 := ⟨fuel - 2, by omega⟩
  src_enter [prog, SrcGen.dqPeekMinMut]
  unfold DQ.peekMinMutWrite
  src_eval [dqPeekMinMut_body, call_dqFindMin]
  cases hf : DQ.findMin s with
  | none => src_eval [applyWrite]
  | some pos =>
    src_eval [applyWrite]
    refine bind_congr_ok fun i _ => ?_
    cases s.map.getIndex i <;> rfl

/-- `DoublePriorityQueue::peek_max_mut` followed by the caller's write = `DQ.peekMaxMutWrite` -/
theorem dqPeekMaxMut (s : Store P) (w : Item → Item) (fuel : Nat) (h : fuel ≥ 3) :
    applyWrite w <$> Src.run SrcGen.prog fuel .dqPeekMaxMut s [] = DQ.peekMaxMutWrite s w := by
  obtain ⟨k, rfl⟩ : ∃ k, fuel = k + 3 := ⟨fuel - 3, by omega⟩
  src_enter [prog, SrcGen.dqPeekMaxMut]
  unfold DQ.peekMaxMutWrite
  src_eval [dqPeekMaxMut_body, call_dqFindMax]
  refine bind_congr_ok fun fm _ => ?_
  obtain ⟨s1, res⟩ := fm
  cases res with
  | none => src_eval [applyWrite]
  | some pos =>
    src_eval [applyWrite]
    refine bind_congr_ok fun i _ => ?_
    cases s1.map.getIndex i <;> rfl
end PQ.SrcEquiv
