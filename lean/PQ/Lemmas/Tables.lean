import PQ.Lemmas.WF
import PQ.Lemmas.IMapLemmas
/-!
# The table repairs of `Store.swapRemove` / `Store.remove`, and the store-level specs of the point updates
-/
set_option linter.unusedSimpArgs false
namespace PQ
namespace Store
variable {P : Type}

/-! ## Abstract description of "position `pos` / slot `head` removed"

Position `size-1` is dropped and what it held moves to `pos`; slot `size-1` is dropped and renamed `head`. -/

structure Removed (s s' : Store P) (pos head : Nat) (e : Item × P) : Prop where
  size : s'.size = s.size - 1
  ticks : s'.ticks = s.ticks
  heap_size : s'.heap.size = s.size - 1
  qp_size : s'.qp.size = s.size - 1
  heap : ∀ p, p < s.size - 1 → ∃ i, s.heap[if p = pos then s.size - 1 else p]? = some i ∧
      s'.heap[p]? = some (if i = s.size - 1 then head else i)
  qp : ∀ j, j < s.size - 1 → ∃ x, s.qp[if j = head then s.size - 1 else j]? = some x ∧
      s'.qp[j]? = some (if x = s.size - 1 then pos else x)
  map : s.map.swapRemoveIndex head = some (e, s'.map)

theorem Removed.wf {s s' : Store P} {pos head : Nat} {e : Item × P} (h : s.WF) (hp : pos < s.size)
    (hh : s.heap[pos]? = some head) (r : Removed s s' pos head e) : s'.WF := by
  have hhl := h.heap_lt hh
  have inj : ∀ {p q i : Nat}, s.heap[p]? = some i → s.heap[q]? = some i → p = q := fun a b => h.heap_inj a b
  have qoh : ∀ {p i : Nat}, s.heap[p]? = some i → s.qp[i]? = some p := fun a => h.qp_of_heap a
  have hoq : ∀ {p i : Nat}, s.qp[i]? = some p → s.heap[p]? = some i := fun a => h.heap_of_qp a
  have hlt : ∀ {p i : Nat}, s.heap[p]? = some i → i < s.size := fun a => h.heap_lt a
  have qlt : ∀ {p i : Nat}, s.qp[i]? = some p → p < s.size := fun a => h.qp_lt a
  unfold WF
  rw [r.size]
  refine ⟨by rw [IMap.size_swapRemoveIndex r.map, h.map_size], r.heap_size, r.qp_size, ?_, ?_,
    h.nodup.swapRemoveIndex r.map⟩
  · intro p hpL
    obtain ⟨i, hi, hi'⟩ := r.heap p hpL
    refine ⟨_, hi', ?_⟩
    have hil := hlt hi
    have h1 := qoh hi
    have hσ : (if p = pos then s.size - 1 else p) ≠ pos := by split <;> omega
    have hih : i ≠ head := fun hc => hσ (inj hi (hc ▸ hh))
    have hj : (if i = s.size - 1 then head else i) < s.size - 1 := by split <;> omega
    have hu : (if (if i = s.size - 1 then head else i) = head then s.size - 1 else (if i = s.size - 1 then head else i)) = i := by
      by_cases hc : i = s.size - 1
      · simp [hc]
      · simp [hc, hih]
    obtain ⟨x, hx, hx'⟩ := r.qp _ hj
    rw [hu, h1] at hx
    cases hx
    rw [hx']
    congr 1
    split <;> split <;> omega
  · intro j hjL
    obtain ⟨x, hx, hx'⟩ := r.qp j hjL
    refine ⟨_, hx', ?_⟩
    have h1 := hoq hx
    have h2 := qlt hx
    have hσ : (if j = head then s.size - 1 else j) ≠ head := by split <;> omega
    have hxp : x ≠ pos := fun hc => hσ (by have := hc ▸ h1; rw [hh] at this; exact (Option.some.inj this).symm)
    have hq : (if x = s.size - 1 then pos else x) < s.size - 1 := by split <;> omega
    have hu : (if (if x = s.size - 1 then pos else x) = pos then s.size - 1 else (if x = s.size - 1 then pos else x)) = x := by
      by_cases hc : x = s.size - 1
      · simp [hc]
      · simp [hc, hxp]
    obtain ⟨i, hi, hi'⟩ := r.heap _ hq
    rw [hu, h1] at hi
    cases hi
    rw [hi']
    congr 1
    split <;> split <;> omega

theorem Removed.entryAt_pos {s s' : Store P} {pos head : Nat} {e : Item × P}
    (hh : s.heap[pos]? = some head) (r : Removed s s' pos head e) : s.entryAt pos = some e := by
  unfold entryAt; rw [hh]; exact IMap.swapRemoveIndex_fst r.map

theorem Removed.entryAt {s s' : Store P} {pos head : Nat} {e : Item × P} (h : s.WF)
    (hh : s.heap[pos]? = some head) (r : Removed s s' pos head e) (p : Nat) (hpL : p < s.size - 1) :
    s'.entryAt p = s.entryAt (if p = pos then s.size - 1 else p) := by
  obtain ⟨i, hi, hi'⟩ := r.heap p hpL
  have hil := h.heap_lt hi
  have hhl := h.heap_lt hh
  have hσ : (if p = pos then s.size - 1 else p) ≠ pos := by split <;> omega
  have hih : i ≠ head := fun hc => hσ (h.heap_inj hi (hc ▸ hh))
  have hj : (if i = s.size - 1 then head else i) < s.size - 1 := by split <;> omega
  unfold Store.entryAt
  rw [hi, hi']
  simp only
  rw [IMap.getElem?_swapRemoveIndex r.map, h.map_size, if_pos hj]
  by_cases hc : i = s.size - 1
  · simp [hc]
  · simp [hc, hih]

theorem Removed.lookup {s s' : Store P} {pos head : Nat} {e : Item × P} (h : s.WF)
    (r : Removed s s' pos head e) (k : Nat) :
    IMap.lookup s'.map k = if k = e.1.key then none else IMap.lookup s.map k :=
  IMap.lookup_swapRemoveIndex h.nodup r.map k

/-! ## `swapRemove` -/

/-- the store `swap_remove(pos)` computes, with `head = heap[pos]`, `a = heap[size-1]`, `q = qp[size-1]` -/
def swapRemoveResult (s : Store P) (pos head a q : Nat) (m' : IMap P) : Store P :=
  { s with
    map := m'
    heap :=
      if head < s.size - 1 then
        ((s.heap.setIfInBounds pos a).pop).setIfInBounds (if pos < s.size - 1 ∧ a = s.size - 1 then pos else q) head
      else (s.heap.setIfInBounds pos a).pop
    qp := ((if pos < s.size - 1 then s.qp.setIfInBounds a pos else s.qp).setIfInBounds head
            (if pos < s.size - 1 ∧ a = s.size - 1 then pos else q)).pop
    size := s.size - 1 }

/-- symbolic evaluation of `swap_remove(pos)` on a well-formed store -/
theorem swapRemove_eval {s : Store P} {pos head a q : Nat} {e : Item × P} {m' : IMap P} (h : s.WF)
    (hp : pos < s.size) (hh : s.heap[pos]? = some head) (ha : s.heap[s.size - 1]? = some a)
    (hq : s.qp[s.size - 1]? = some q) (hm : s.map.swapRemoveIndex head = some (e, m')) :
    s.swapRemove pos = .ok (swapRemoveResult s pos head a q m', some e) := by
  unfold swapRemoveResult
  have hs := h.heap_size; have qs := h.qp_size
  have hhl := h.heap_lt hh
  have hal := h.heap_lt ha
  have hql := h.qp_lt hq
  have e1 : swapRemoveC s.heap pos 107 = .ok (head, (s.heap.setIfInBounds pos a).pop) :=
    swapRemoveC_eq_ok_iff.2 ⟨a, hh, by rw [back?_eq, hs]; exact ha, rfl⟩
  have e2 : decC s.size 108 = .ok (s.size - 1) := decC_eq_ok_iff.2 ⟨by omega, rfl⟩
  unfold swapRemove
  simp only [e1, e2, bind, Except.bind, pure, Except.pure, hm]
  -- the value written over `qp[head]`: the position of the last slot after the first repair
  have hback : (if pos < s.size - 1 then s.qp.setIfInBounds a pos else s.qp).back? =
      some (if pos < s.size - 1 ∧ a = s.size - 1 then pos else q) := by
    rw [back?_eq]
    by_cases hpL : pos < s.size - 1
    · by_cases haL : a = s.size - 1
      · simp [hpL, haL, qs, Array.getElem?_setIfInBounds, hp]
        omega
      · simp [hpL, haL, qs, Array.getElem?_setIfInBounds, hq]
    · simp [hpL, qs, hq]
  have hxl : head < s.size - 1 → (if pos < s.size - 1 ∧ a = s.size - 1 then pos else q) < s.size - 1 := by
    intro hhL
    have hqL : a ≠ s.size - 1 → q ≠ s.size - 1 := by
      intro h1 h2; rw [h2] at hq; have := h.heap_of_qp hq; rw [ha] at this; cases this; exact h1 rfl
    by_cases hpL : pos < s.size - 1
    · by_cases haL : a = s.size - 1
      · simp [hpL, haL]
      · simp [hpL, haL]; have := hqL haL; omega
    · have : pos = s.size - 1 := by omega
      subst this; rw [hh] at ha; cases ha
      simp [hpL]; have := hqL (by omega); omega
  obtain ⟨y, hy⟩ : ∃ y, (if pos < s.size - 1 then s.qp.setIfInBounds a pos else s.qp)[head]? = some y := by
    refine ⟨_, Array.getElem?_eq_getElem (h := ?_)⟩
    split <;> simp [qs, hhl]
  have e5 := swapRemoveC_eq_ok_iff (site := 111).2 ⟨_, hy, hback, rfl⟩
  have e3 : pos < s.size - 1 → getU (s.heap.setIfInBounds pos a).pop pos 109 = .ok a := by
    intro hpL; exact getU_ok (by simp [Array.getElem?_pop, hs, hpL, hp])
  have e4 := setU_ok (a := s.qp) (site := 110) pos (show a < s.qp.size by omega)
  have e6 : head < s.size - 1 → getU ((if pos < s.size - 1 then s.qp.setIfInBounds a pos else s.qp).setIfInBounds head
      (if pos < s.size - 1 ∧ a = s.size - 1 then pos else q)).pop head 112 =
        .ok (if pos < s.size - 1 ∧ a = s.size - 1 then pos else q) := by
    intro hhL; apply getU_ok
    rw [Array.getElem?_pop, Array.size_setIfInBounds, Array.getElem?_setIfInBounds]
    split <;> simp [qs, hhL, hhl]
  have e7 : head < s.size - 1 → setU (s.heap.setIfInBounds pos a).pop
      (if pos < s.size - 1 ∧ a = s.size - 1 then pos else q) head 113 =
        .ok ((s.heap.setIfInBounds pos a).pop.setIfInBounds (if pos < s.size - 1 ∧ a = s.size - 1 then pos else q) head) := by
    intro hhL; exact setU_ok _ (by simp [hs]; exact hxl hhL)
  by_cases hpL : pos < s.size - 1 <;> by_cases hhL : head < s.size - 1
  · have e6' := e6 hhL; have e7' := e7 hhL
    simp only [hpL, hhL, if_true, true_and] at e5 e6' e7' ⊢
    simp only [e3 hpL, e4, e5, e6', e7']
  · simp only [hpL, hhL, if_true, if_false, true_and] at e5 ⊢
    simp only [e3 hpL, e4, e5]
  · have e6' := e6 hhL; have e7' := e7 hhL
    simp only [hpL, hhL, if_true, if_false, false_and] at e5 e6' e7' ⊢
    simp only [e5, e6', e7']
  · simp only [hpL, hhL, if_true, if_false, false_and] at e5 ⊢
    simp only [e5]

theorem swapRemoveResult_removed {s : Store P} {pos head a q : Nat} {e : Item × P} {m' : IMap P} (h : s.WF)
    (hp : pos < s.size) (hh : s.heap[pos]? = some head) (ha : s.heap[s.size - 1]? = some a)
    (hq : s.qp[s.size - 1]? = some q) (hm : s.map.swapRemoveIndex head = some (e, m')) :
    Removed s (swapRemoveResult s pos head a q m') pos head e := by
  have hs := h.heap_size; have qs := h.qp_size
  have hhl := h.heap_lt hh
  have hal := h.heap_lt ha
  have hql := h.qp_lt hq
  have hqa := h.heap_of_qp hq
  have haq := h.qp_of_heap ha
  have hhq := h.qp_of_heap hh
  have inj : ∀ {p q i : Nat}, s.heap[p]? = some i → s.heap[q]? = some i → p = q := fun a b => h.heap_inj a b
  refine ⟨rfl, rfl, ?_, ?_, ?_, ?_, hm⟩
  · unfold swapRemoveResult; dsimp only; split <;> simp [hs]
  · unfold swapRemoveResult; dsimp only; split <;> simp [qs]
  · intro p hpL
    obtain ⟨i, hi, hi2⟩ := h.heap_qp (if p = pos then s.size - 1 else p) (by split <;> omega)
    refine ⟨i, hi, ?_⟩
    unfold swapRemoveResult; dsimp only
    grind
  · intro j hjL
    obtain ⟨x, hx, hx2⟩ := h.qp_heap (if j = head then s.size - 1 else j) (by split <;> omega)
    refine ⟨x, hx, ?_⟩
    unfold swapRemoveResult; dsimp only
    grind

/-- **`Store::swap_remove(pos)`** on a valid position: succeeds, returns the entry at `pos`, keeps the store
well-formed, moves the entry of the last position to `pos` and nothing else; as a map exactly that key disappears. -/
theorem swapRemove_spec {s : Store P} {pos : Nat} (h : s.WF) (hp : pos < s.size) :
    ∃ s' e, s.swapRemove pos = .ok (s', some e) ∧ s.entryAt pos = some e ∧ s'.WF ∧ s'.size = s.size - 1 ∧
      s'.ticks = s.ticks ∧
      (∀ p, p < s.size - 1 → s'.entryAt p = s.entryAt (if p = pos then s.size - 1 else p)) ∧
      (∀ k, IMap.lookup s'.map k = if k = e.1.key then none else IMap.lookup s.map k) := by
  obtain ⟨head, hh, hhl⟩ := h.heap_some hp
  obtain ⟨a, ha, _⟩ := h.heap_some (show s.size - 1 < s.size by omega)
  obtain ⟨q, hq, _⟩ := h.qp_some (show s.size - 1 < s.size by omega)
  obtain ⟨e, l, he, _, hm⟩ := IMap.swapRemoveIndex_of_lt (m := s.map) (i := head) (by rw [h.map_size]; exact hhl)
  have r := swapRemoveResult_removed h hp hh ha hq hm
  exact ⟨_, e, swapRemove_eval h hp hh ha hq hm, r.entryAt_pos hh, r.wf h hp hh, r.size, r.ticks,
    r.entryAt h hh, r.lookup h⟩

/-! ## `remove` -/

/-- the store `remove(item)` computes, with `i` the slot of the item, `pos = qp[i]`, `a = heap[size-1]`, `q = qp[size-1]` -/
def removeResult (s : Store P) (i pos a q : Nat) (m' : IMap P) : Store P :=
  let qpA := (s.qp.setIfInBounds i q).pop
  let heapA := (s.heap.setIfInBounds pos a).pop
  let qpB := if i < s.size - 1 ∧ q = s.size - 1 then qpA.setIfInBounds i pos else qpA
  let heapB := if i < s.size - 1 ∧ q ≠ s.size - 1 then heapA.setIfInBounds q i else heapA
  { s with
    map := m'
    heap := if pos < s.size - 1 ∧ a = s.size - 1 then heapB.setIfInBounds pos i else heapB
    qp := if pos < s.size - 1 ∧ a ≠ s.size - 1 then qpB.setIfInBounds a pos else qpB
    size := s.size - 1 }

theorem remove_eval {s : Store P} {k i pos a q : Nat} {e : Item × P} {m' : IMap P} (h : s.WF)
    (hf : s.map.swapRemoveFull k = some (i, e, m')) (hi : s.qp[i]? = some pos) (ha : s.heap[s.size - 1]? = some a)
    (hq : s.qp[s.size - 1]? = some q) :
    s.remove k = .ok (removeResult s i pos a q m', some (e.1, e.2, pos)) := by
  have hs := h.heap_size; have qs := h.qp_size
  have hpl := h.qp_lt hi
  have hal := h.heap_lt ha
  have hql := h.qp_lt hq
  have hil := lt_size_of_getElem? hi
  rw [qs] at hil
  have e1 : decC s.size 118 = .ok (s.size - 1) := decC_eq_ok_iff.2 ⟨by omega, rfl⟩
  have e2 : swapRemoveC s.qp i 119 = .ok (pos, (s.qp.setIfInBounds i q).pop) :=
    swapRemoveC_eq_ok_iff.2 ⟨q, hi, by rw [back?_eq, qs]; exact hq, rfl⟩
  obtain ⟨y, hy⟩ := h.heap_some hpl
  have e3 : swapRemoveC s.heap pos 120 = .ok (y, (s.heap.setIfInBounds pos a).pop) :=
    swapRemoveC_eq_ok_iff.2 ⟨a, hy.1, by rw [back?_eq, hs]; exact ha, rfl⟩
  unfold remove removeResult
  simp only [hf, e1, e2, e3, bind, Except.bind, pure, Except.pure]
  have hqa := h.heap_of_qp hq
  have haq := h.qp_of_heap ha
  have hqaL : q = s.size - 1 ↔ a = s.size - 1 := by
    constructor
    · intro hc; rw [hc, ha] at hqa; exact Option.some.inj hqa
    · intro hc; rw [hc, hq] at haq; exact Option.some.inj haq
  have hqp : i < s.size - 1 → q ≠ pos := by
    intro hiL hc; subst hc
    have := h.heap_of_qp hi; rw [hqa] at this; have := Option.some.inj this; omega
  by_cases hiL : i < s.size - 1 <;> by_cases hpL : pos < s.size - 1 <;> by_cases haL : a = s.size - 1
  all_goals
    have haL1 : a ≠ s.size - 1 → a < s.size - 1 := by omega
    have haL2 : a ≠ s.size - 1 → q < s.size - 1 := by omega
    have hil' : s.size - 1 ≤ i → s.size - 1 = i := by omega
    simp [hiL, hpL, haL, hqaL, getU, setU, Array.getElem?_pop, Array.getElem?_setIfInBounds, hs, qs, haL1, haL2, hqp,
      hil']

theorem removeResult_removed {s : Store P} {i pos a q : Nat} {e : Item × P} {m' : IMap P} (h : s.WF)
    (hi : s.qp[i]? = some pos) (ha : s.heap[s.size - 1]? = some a)
    (hq : s.qp[s.size - 1]? = some q) (hm : s.map.swapRemoveIndex i = some (e, m')) :
    Removed s (removeResult s i pos a q m') pos i e := by
  have hs := h.heap_size; have qs := h.qp_size
  have hpl := h.qp_lt hi
  have hal := h.heap_lt ha
  have hql := h.qp_lt hq
  have hil := lt_size_of_getElem? hi
  rw [qs] at hil
  have hqa := h.heap_of_qp hq
  have haq := h.qp_of_heap ha
  have hh := h.heap_of_qp hi
  have inj : ∀ {p q i : Nat}, s.heap[p]? = some i → s.heap[q]? = some i → p = q := fun a b => h.heap_inj a b
  refine ⟨rfl, rfl, ?_, ?_, ?_, ?_, hm⟩
  · unfold removeResult; dsimp only; split <;> split <;> simp [hs]
  · unfold removeResult; dsimp only; split <;> split <;> simp [qs]
  · intro p hpL
    obtain ⟨j, hj, hj2⟩ := h.heap_qp (if p = pos then s.size - 1 else p) (by split <;> omega)
    refine ⟨j, hj, ?_⟩
    unfold removeResult; dsimp only
    grind
  · intro j hjL
    obtain ⟨x, hx, hx2⟩ := h.qp_heap (if j = i then s.size - 1 else j) (by split <;> omega)
    refine ⟨x, hx, ?_⟩
    unfold removeResult; dsimp only
    grind

/-- **`Store::remove(item)`** of a stored key: succeeds, returns the stored entry and its heap position, keeps the
store well-formed; the effect on positions and on the map is that of `swap_remove` at that position. -/
theorem remove_spec_some {s : Store P} {k : Nat} {e : Item × P} (h : s.WF) (hl : IMap.lookup s.map k = some e) :
    ∃ s' pos, s.remove k = .ok (s', some (e.1, e.2, pos)) ∧ pos < s.size ∧ s.entryAt pos = some e ∧ s'.WF ∧
      s'.size = s.size - 1 ∧ s'.ticks = s.ticks ∧
      (∀ p, p < s.size - 1 → s'.entryAt p = s.entryAt (if p = pos then s.size - 1 else p)) ∧
      (∀ k', IMap.lookup s'.map k' = if k' = k then none else IMap.lookup s.map k') := by
  obtain ⟨i, hfi, hei⟩ := IMap.lookup_eq_some_iff_find?.1 hl
  have hil : i < s.size := by have := lt_size_of_getElem? hei; rw [h.map_size] at this; exact this
  obtain ⟨e', l, he', _, hm⟩ := IMap.swapRemoveIndex_of_lt (m := s.map) (i := i) (by rw [h.map_size]; exact hil)
  rw [hei] at he'; cases he'
  have hf := IMap.swapRemoveFull_eq_some_iff.2 ⟨hfi, hm⟩
  obtain ⟨pos, hi, hpl⟩ := h.qp_some hil
  obtain ⟨a, ha, _⟩ := h.heap_some (show s.size - 1 < s.size by omega)
  obtain ⟨q, hq, _⟩ := h.qp_some (show s.size - 1 < s.size by omega)
  have hh := h.heap_of_qp hi
  have r := removeResult_removed h hi ha hq hm
  refine ⟨_, pos, remove_eval h hf hi ha hq, hpl, r.entryAt_pos hh, r.wf h hpl hh, r.size, r.ticks,
    r.entryAt h hh, ?_⟩
  intro k'
  rw [r.lookup h, IMap.lookup_key hl]

/-- `remove` of an absent key does nothing -/
theorem remove_spec_none {s : Store P} {k : Nat} (hl : IMap.lookup s.map k = none) : s.remove k = .ok (s, none) := by
  unfold remove
  rw [IMap.swapRemoveFull_eq_none_iff.2 (IMap.lookup_eq_none_iff_find?.1 hl)]
  rfl

/-! ## Replacing the entry of a slot by one with the same key -/

/-- `s` with the map entry of slot `i` replaced -/
def setEntry (s : Store P) (i : Nat) (e' : Item × P) : Store P := { s with map := s.map.setIfInBounds i e' }

@[simp] theorem setEntry_heap (s : Store P) (i : Nat) (e' : Item × P) : (s.setEntry i e').heap = s.heap := rfl
@[simp] theorem setEntry_qp (s : Store P) (i : Nat) (e' : Item × P) : (s.setEntry i e').qp = s.qp := rfl
@[simp] theorem setEntry_size (s : Store P) (i : Nat) (e' : Item × P) : (s.setEntry i e').size = s.size := rfl
@[simp] theorem setEntry_ticks (s : Store P) (i : Nat) (e' : Item × P) : (s.setEntry i e').ticks = s.ticks := rfl
@[simp] theorem setEntry_map (s : Store P) (i : Nat) (e' : Item × P) :
    (s.setEntry i e').map = s.map.setIfInBounds i e' := rfl

theorem setEntry_TWF {s : Store P} {n i : Nat} {e e' : Item × P} (h : s.TWF n) (he : s.map[i]? = some e)
    (hk : e'.1.key = e.1.key) : (s.setEntry i e').TWF n :=
  ⟨by simp [h.map_size], h.heap_size, h.qp_size, h.heap_qp, h.qp_heap, h.nodup.setIfInBounds he hk⟩

/-- replacing the entry in the slot of heap position `pos` by one with the same key: tables untouched,
well-formedness kept, only position `pos` / only that key see the new entry -/
theorem setEntry_spec {s : Store P} {n pos i : Nat} {e e' : Item × P} (h : s.TWF n) (hh : s.heap[pos]? = some i)
    (he : s.map[i]? = some e) (hk : e'.1.key = e.1.key) :
    (s.setEntry i e').TWF n ∧
      (∀ q, (s.setEntry i e').entryAt q = if q = pos then some e' else s.entryAt q) ∧
      (∀ k, IMap.lookup (s.setEntry i e').map k = if k = e.1.key then some e' else IMap.lookup s.map k) := by
  refine ⟨setEntry_TWF h he hk, ?_, ?_⟩
  · intro q
    have hi := lt_size_of_getElem? he
    unfold entryAt
    simp only [setEntry_heap, setEntry_map]
    by_cases hq : q = pos
    · subst hq; rw [hh]; simp [Array.getElem?_setIfInBounds, hi]
    · rw [if_neg hq]
      cases hj : s.heap[q]? with
      | none => rfl
      | some j =>
        have : i ≠ j := fun hc => hq (h.heap_inj (hc ▸ hj) hh)
        simp [Array.getElem?_setIfInBounds, this]
  · intro k
    exact IMap.lookup_setIfInBounds h.nodup he hk k

/-- the slot and heap position of a stored key -/
theorem lookup_slot_pos {s : Store P} {k : Nat} {e : Item × P} (h : s.WF) (hl : IMap.lookup s.map k = some e) :
    ∃ i pos, IMap.getFull s.map k = some (i, e.1, e.2) ∧ s.map[i]? = some e ∧ s.qp[i]? = some pos ∧
      s.heap[pos]? = some i ∧ pos < s.size ∧ s.entryAt pos = some e := by
  obtain ⟨i, hfi, hei⟩ := IMap.lookup_eq_some_iff_find?.1 hl
  have hil : i < s.size := by have := lt_size_of_getElem? hei; rw [h.map_size] at this; exact this
  obtain ⟨pos, hi, hpl⟩ := h.qp_some hil
  have hh := h.heap_of_qp hi
  exact ⟨i, pos, IMap.getFull_eq_some_iff.2 ⟨hfi, hei⟩, hei, hi, hh, hpl, by simp [entryAt, hh, hei]⟩

/-! ## `change_priority`, `change_priority_by`, `get_mut`, `get`, `get_priority` -/

theorem changePriority_spec_some {s : Store P} {k : Nat} {e : Item × P} (h : s.WF)
    (hl : IMap.lookup s.map k = some e) (p : P) :
    ∃ s' pos, s.changePriority k p = .ok (s', some (e.2, pos)) ∧ pos < s.size ∧ s.entryAt pos = some e ∧ s'.WF ∧
      s'.size = s.size ∧ s'.heap = s.heap ∧ s'.qp = s.qp ∧ s'.ticks = s.ticks ∧
      (∀ q, s'.entryAt q = if q = pos then some (e.1, p) else s.entryAt q) ∧
      (∀ k', IMap.lookup s'.map k' = if k' = k then some (e.1, p) else IMap.lookup s.map k') := by
  obtain ⟨i, pos, hg, hei, hi, hh, hpl, hep⟩ := lookup_slot_pos h hl
  obtain ⟨h1, h2, h3⟩ := setEntry_spec (e' := (e.1, p)) h hh hei rfl
  refine ⟨s.setEntry i (e.1, p), pos, ?_, hpl, hep, h1, rfl, rfl, rfl, rfl, h2, ?_⟩
  · unfold changePriority
    rw [hg]
    simp only [getU_ok hi, bind, Except.bind, pure, Except.pure, IMap.setPrio_of_getElem? hei]
    rfl
  · intro k'; rw [h3, IMap.lookup_key hl]

theorem changePriority_spec_none {s : Store P} {k : Nat} (hl : IMap.lookup s.map k = none) (p : P) :
    s.changePriority k p = .ok (s, none) := by
  unfold changePriority
  rw [IMap.getFull_eq_none_iff.2 (IMap.lookup_eq_none_iff_find?.1 hl)]
  rfl

theorem changePriorityBy_spec_some {s : Store P} {k : Nat} {e : Item × P} (h : s.WF)
    (hl : IMap.lookup s.map k = some e) (setter : P → P) :
    ∃ s' pos, s.changePriorityBy k setter = .ok (s', some pos) ∧ pos < s.size ∧ s.entryAt pos = some e ∧ s'.WF ∧
      s'.size = s.size ∧ s'.heap = s.heap ∧ s'.qp = s.qp ∧ s'.ticks = s.ticks ∧
      (∀ q, s'.entryAt q = if q = pos then some (e.1, setter e.2) else s.entryAt q) ∧
      (∀ k', IMap.lookup s'.map k' = if k' = k then some (e.1, setter e.2) else IMap.lookup s.map k') := by
  obtain ⟨i, pos, hg, hei, hi, hh, hpl, hep⟩ := lookup_slot_pos h hl
  obtain ⟨h1, h2, h3⟩ := setEntry_spec (e' := (e.1, setter e.2)) h hh hei rfl
  refine ⟨s.setEntry i (e.1, setter e.2), pos, ?_, hpl, hep, h1, rfl, rfl, rfl, rfl, h2, ?_⟩
  · unfold changePriorityBy
    rw [hg]
    simp only [getU_ok hi, bind, Except.bind, pure, Except.pure, IMap.setPrio_of_getElem? hei]
    rfl
  · intro k'; rw [h3, IMap.lookup_key hl]

theorem changePriorityBy_spec_none {s : Store P} {k : Nat} (hl : IMap.lookup s.map k = none) (setter : P → P) :
    s.changePriorityBy k setter = .ok (s, none) := by
  unfold changePriorityBy
  rw [IMap.getFull_eq_none_iff.2 (IMap.lookup_eq_none_iff_find?.1 hl)]
  rfl

/-- `get_mut` followed by a write that keeps the key (it is only required of the stored item) -/
theorem getMutWrite_spec_some {s : Store P} {k : Nat} {e : Item × P} (h : s.WF)
    (hl : IMap.lookup s.map k = some e) (w : Item → Item) (hw : (w e.1).key = e.1.key) :
    ∃ s' pos, s.getMutWrite k w = (s', some e) ∧ pos < s.size ∧ s.entryAt pos = some e ∧ s'.WF ∧
      s'.size = s.size ∧ s'.heap = s.heap ∧ s'.qp = s.qp ∧ s'.ticks = s.ticks ∧
      (∀ q, s'.entryAt q = if q = pos then some (w e.1, e.2) else s.entryAt q) ∧
      (∀ k', IMap.lookup s'.map k' = if k' = k then some (w e.1, e.2) else IMap.lookup s.map k') := by
  obtain ⟨i, pos, hg, hei, hi, hh, hpl, hep⟩ := lookup_slot_pos h hl
  obtain ⟨h1, h2, h3⟩ := setEntry_spec (e' := (w e.1, e.2)) h hh hei hw
  refine ⟨s.setEntry i (w e.1, e.2), pos, ?_, hpl, hep, h1, rfl, rfl, rfl, rfl, h2, ?_⟩
  · unfold getMutWrite
    rw [hg]
    simp only [IMap.setItem_of_getElem? hei]
    rfl
  · intro k'; rw [h3, IMap.lookup_key hl]

theorem getMutWrite_spec_none {s : Store P} {k : Nat} (hl : IMap.lookup s.map k = none) (w : Item → Item) :
    s.getMutWrite k w = (s, none) := by
  unfold getMutWrite
  rw [IMap.getFull_eq_none_iff.2 (IMap.lookup_eq_none_iff_find?.1 hl)]

theorem get_eq_lookup (s : Store P) (k : Nat) : s.get k = IMap.lookup s.map k :=
  IMap.getFull_map_eq_lookup s.map k

theorem getPriority_eq_lookup (s : Store P) (k : Nat) : s.getPriority k = (IMap.lookup s.map k).map (·.2) := by
  rw [← IMap.getFull_map_eq_lookup, Option.map_map]; rfl

/-! ## `swap_remove_if` -/

theorem swapRemoveIf_eval {s : Store P} {pos i : Nat} {e : Item × P} (f : Item → P → Bool × Item × P)
    (hh : s.heap[pos]? = some i) (he : s.map[i]? = some e) :
    s.swapRemoveIf pos f =
      if (f e.1 e.2).1 = true then (s.setEntry i ((f e.1 e.2).2.1, (f e.1 e.2).2.2)).swapRemove pos
      else .ok (s.setEntry i ((f e.1 e.2).2.1, (f e.1 e.2).2.2), none) := by
  unfold swapRemoveIf
  have e2 : unwrapO (s.map.getIndex i) 115 = .ok e := unwrapO_eq_ok_iff.2 he
  simp only [getU_ok hh, e2, bind, Except.bind, pure, Except.pure]
  rfl

/-- **`Store::swap_remove_if(pos, f)`** with a key-preserving callback: the entry `e` at `pos` is first rewritten to
`e' = ((f e).2.1, (f e).2.2)`.  If `f` says *remove*, the result is that of `swap_remove(pos)` and `e'` is returned;
otherwise only the entry at `pos` changed. -/
theorem swapRemoveIf_spec {s : Store P} {pos : Nat} (f : Item → P → Bool × Item × P) (h : s.WF) (hp : pos < s.size)
    (hf : ∀ it p, (f it p).2.1.key = it.key) :
    ∃ e, s.entryAt pos = some e ∧
      ((f e.1 e.2).1 = true →
        ∃ s', s.swapRemoveIf pos f = .ok (s', some ((f e.1 e.2).2.1, (f e.1 e.2).2.2)) ∧ s'.WF ∧
          s'.size = s.size - 1 ∧ s'.ticks = s.ticks ∧
          (∀ p, p < s.size - 1 → s'.entryAt p = s.entryAt (if p = pos then s.size - 1 else p)) ∧
          (∀ k, IMap.lookup s'.map k = if k = e.1.key then none else IMap.lookup s.map k)) ∧
      ((f e.1 e.2).1 = false →
        ∃ s1, s.swapRemoveIf pos f = .ok (s1, none) ∧ s1.WF ∧ s1.size = s.size ∧ s1.heap = s.heap ∧ s1.qp = s.qp ∧
          s1.ticks = s.ticks ∧
          (∀ p, s1.entryAt p = if p = pos then some ((f e.1 e.2).2.1, (f e.1 e.2).2.2) else s.entryAt p) ∧
          (∀ k, IMap.lookup s1.map k =
            if k = e.1.key then some ((f e.1 e.2).2.1, (f e.1 e.2).2.2) else IMap.lookup s.map k)) := by
  obtain ⟨i, hh, hil⟩ := h.heap_some hp
  obtain ⟨e, he⟩ := h.map_some hil
  have hep : s.entryAt pos = some e := by simp [entryAt, hh, he]
  obtain ⟨h1, h2, h3⟩ := setEntry_spec (e' := ((f e.1 e.2).2.1, (f e.1 e.2).2.2)) h hh he (hf _ _)
  refine ⟨e, hep, ?_, ?_⟩
  · intro hr
    have h1' : (s.setEntry i ((f e.1 e.2).2.1, (f e.1 e.2).2.2)).WF := h1
    obtain ⟨s', e'', g1, g2, g3, g4, g5, g6, g7⟩ := swapRemove_spec h1' (pos := pos) hp
    rw [h2, if_pos rfl] at g2
    cases g2
    simp only [setEntry_size, setEntry_ticks] at g4 g5 g6
    refine ⟨s', ?_, g3, g4, g5, ?_, ?_⟩
    · rw [swapRemoveIf_eval f hh he, if_pos hr]; exact g1
    · intro p hpL
      rw [g6 p hpL, h2, if_neg]
      split <;> omega
    · intro k
      rw [g7 k, h3]
      simp only [hf]
      split <;> rfl
  · intro hr
    refine ⟨_, ?_, h1, rfl, rfl, rfl, rfl, h2, h3⟩
    rw [swapRemoveIf_eval f hh he, if_neg (by simp [hr])]

/-! ## Membership: every stored entry sits at exactly one heap position -/

theorem entryAt_mem {s : Store P} {p : Nat} {e : Item × P} (he : s.entryAt p = some e) : s.Mem e := by
  unfold entryAt at he
  split at he
  · exact ⟨_, he⟩
  · cases he

theorem mem_entryAt {s : Store P} {e : Item × P} (h : s.WF) (hm : s.Mem e) :
    ∃ p, p < s.size ∧ s.entryAt p = some e := by
  obtain ⟨i, hi⟩ := hm
  have hil : i < s.size := by have := lt_size_of_getElem? hi; rw [h.map_size] at this; exact this
  obtain ⟨p, hp, hpl⟩ := h.qp_some hil
  exact ⟨p, hpl, by simp [entryAt, h.heap_of_qp hp, hi]⟩

theorem mem_iff_entryAt {s : Store P} {e : Item × P} (h : s.WF) :
    s.Mem e ↔ ∃ p, p < s.size ∧ s.entryAt p = some e :=
  ⟨mem_entryAt h, fun ⟨_, _, hp⟩ => entryAt_mem hp⟩

theorem mem_iff_lookup {s : Store P} {e : Item × P} (h : s.WF) :
    s.Mem e ↔ IMap.lookup s.map e.1.key = some e := by
  rw [IMap.lookup_eq_some_iff h.nodup]
  exact ⟨fun ⟨i, hi⟩ => ⟨i, hi, rfl⟩, fun ⟨i, hi, _⟩ => ⟨i, hi⟩⟩

/-- `lookup` read through the heap positions -/
theorem lookup_eq_some_iff_entryAt {s : Store P} {k : Nat} {e : Item × P} (h : s.WF) :
    IMap.lookup s.map k = some e ↔ ∃ p, p < s.size ∧ s.entryAt p = some e ∧ e.1.key = k := by
  constructor
  · intro hl
    obtain ⟨_, pos, _, _, _, _, hpl, hep⟩ := lookup_slot_pos h hl
    exact ⟨pos, hpl, hep, IMap.lookup_key hl⟩
  · rintro ⟨p, _, hp, rfl⟩
    exact (mem_iff_lookup h).1 (entryAt_mem hp)

/-- distinct positions hold distinct keys -/
theorem entryAt_key_inj {s : Store P} {p q : Nat} {a b : Item × P} (h : s.WF) (ha : s.entryAt p = some a)
    (hb : s.entryAt q = some b) (hk : a.1.key = b.1.key) : p = q := by
  unfold entryAt at ha hb
  cases hi : s.heap[p]? with
  | none => rw [hi] at ha; cases ha
  | some i =>
    cases hj : s.heap[q]? with
    | none => rw [hj] at hb; cases hb
    | some j =>
      rw [hi] at ha; rw [hj] at hb
      have := h.nodup i j a b ha hb hk
      subst this
      exact h.heap_inj hi hj

/-! ## Decidability of `TWF` (for concrete examples) -/

theorem TWF_iff_check {s : Store P} {n : Nat} :
    s.TWF n ↔ s.map.size = n ∧ s.heap.size = n ∧ s.qp.size = n ∧
      (∀ p, p < n → (s.heap[p]?).bind (fun i => s.qp[i]?) = some p) ∧
      (∀ i, i < n → (s.qp[i]?).bind (fun p => s.heap[p]?) = some i) ∧ s.map.NoDupKeys := by
  constructor
  · intro h
    refine ⟨h.map_size, h.heap_size, h.qp_size, ?_, ?_, h.nodup⟩
    · intro p hp; obtain ⟨i, h1, h2⟩ := h.heap_qp p hp; simp [h1, h2]
    · intro i hi; obtain ⟨p, h1, h2⟩ := h.qp_heap i hi; simp [h1, h2]
  · rintro ⟨h1, h2, h3, h4, h5, h6⟩
    refine ⟨h1, h2, h3, ?_, ?_, h6⟩
    · intro p hp; obtain ⟨i, hi, hi'⟩ := Option.bind_eq_some_iff.1 (h4 p hp); exact ⟨i, hi, hi'⟩
    · intro i hi; obtain ⟨p, hp, hp'⟩ := Option.bind_eq_some_iff.1 (h5 i hi); exact ⟨p, hp, hp'⟩

instance (s : Store P) (n : Nat) : Decidable (s.TWF n) := decidable_of_iff _ TWF_iff_check.symm
instance (s : Store P) : Decidable s.WF := inferInstanceAs (Decidable (s.TWF s.size))

/-! ## Non-vacuity: the hypotheses above hold of a concrete store, and the operations do what the specs say -/
section Examples

/-- four entries; the last slot (3) is not at the last position, the last position holds slot 2 -/
private def ex4 : Store Nat :=
  { map := #[(⟨1, 10⟩, 5), (⟨2, 20⟩, 7), (⟨3, 30⟩, 6), (⟨4, 40⟩, 1)], heap := #[1, 3, 0, 2], qp := #[2, 0, 3, 1], size := 4 }

private def ex1 : Store Nat := { map := #[(⟨1, 10⟩, 5)], heap := #[0], qp := #[0], size := 1 }

private def okStore {α : Type} (r : R (Store Nat × α)) (map : IMap Nat) (heap qp : Array Nat) (size : Nat) (x : α) : Prop :=
  match r with
  | .ok (s', y) => s'.map = map ∧ s'.heap = heap ∧ s'.qp = qp ∧ s'.size = size ∧ y = x
  | .error _ => False

private instance {α : Type} [DecidableEq α] (r : R (Store Nat × α)) (map : IMap Nat) (heap qp : Array Nat) (size : Nat)
    (x : α) : Decidable (okStore r map heap qp size x) := by
  unfold okStore; split <;> infer_instance

example : ex4.WF ∧ 1 < ex4.size := by decide
example : ex1.WF ∧ 0 < ex1.size := by decide
-- `swap_remove(1)`: slot 3 (the last slot) leaves, slot 2 (at the last position) moves to position 1
example : okStore (ex4.swapRemove 1) #[(⟨1, 10⟩, 5), (⟨2, 20⟩, 7), (⟨3, 30⟩, 6)] #[1, 2, 0] #[2, 0, 1] 3
    (some (⟨4, 40⟩, 1)) := by decide +kernel
-- `swap_remove(0)`: slot 1 leaves, last slot 3 is renamed 1, last position (slot 2) moves to position 0
example : okStore (ex4.swapRemove 0) #[(⟨1, 10⟩, 5), (⟨4, 40⟩, 1), (⟨3, 30⟩, 6)] #[2, 1, 0] #[2, 1, 0] 3
    (some (⟨2, 20⟩, 7)) := by decide +kernel
example : okStore (ex1.swapRemove 0) #[] #[] #[] 0 (some (⟨1, 10⟩, 5)) := by decide +kernel
example : IMap.lookup ex4.map 2 = some (⟨2, 20⟩, 7) ∧ IMap.lookup ex4.map 9 = none := by decide
example : okStore (ex4.remove 2) #[(⟨1, 10⟩, 5), (⟨4, 40⟩, 1), (⟨3, 30⟩, 6)] #[2, 1, 0] #[2, 1, 0] 3
    (some (⟨2, 20⟩, 7, 0)) := by decide +kernel
example : okStore (ex4.remove 9) ex4.map ex4.heap ex4.qp 4 none := by decide +kernel
example : okStore (ex4.changePriority 2 100) #[(⟨1, 10⟩, 5), (⟨2, 20⟩, 100), (⟨3, 30⟩, 6), (⟨4, 40⟩, 1)]
    ex4.heap ex4.qp 4 (some (7, 0)) := by decide +kernel
example : okStore (ex4.changePriorityBy 2 (· + 1)) #[(⟨1, 10⟩, 5), (⟨2, 20⟩, 8), (⟨3, 30⟩, 6), (⟨4, 40⟩, 1)]
    ex4.heap ex4.qp 4 (some 0) := by decide +kernel
example : (ex4.getMutWrite 2 (fun it => ⟨it.key, 99⟩)).2 = some (⟨2, 20⟩, 7) ∧
    (ex4.getMutWrite 2 (fun it => ⟨it.key, 99⟩)).1.map = #[(⟨1, 10⟩, 5), (⟨2, 99⟩, 7), (⟨3, 30⟩, 6), (⟨4, 40⟩, 1)] := by
  decide +kernel
-- a key-preserving callback for `swap_remove_if`, both answers
example : ∀ (it : Item) (p : Nat), ((fun (it : Item) (p : Nat) => (p == 7, (⟨it.key, 99⟩ : Item), p + 1)) it p).2.1.key = it.key :=
  fun _ _ => rfl
example : okStore (ex4.swapRemoveIf 0 (fun it p => (p == 7, ⟨it.key, 99⟩, p + 1)))
    #[(⟨1, 10⟩, 5), (⟨4, 40⟩, 1), (⟨3, 30⟩, 6)] #[2, 1, 0] #[2, 1, 0] 3 (some (⟨2, 99⟩, 8)) := by decide +kernel
example : okStore (ex4.swapRemoveIf 1 (fun it p => (p == 7, ⟨it.key, 99⟩, p + 1)))
    #[(⟨1, 10⟩, 5), (⟨2, 20⟩, 7), (⟨3, 30⟩, 6), (⟨4, 99⟩, 2)] ex4.heap ex4.qp 4 none := by decide +kernel
example : ex4.entryAt 1 = some (⟨4, 40⟩, 1) ∧ ex4.Mem (⟨4, 40⟩, 1) := ⟨by decide, 3, by decide⟩

end Examples

end Store
end PQ
