import PQ.Lemmas.SrcEquivBulkQ
set_option linter.unusedSimpArgs false
set_option linter.unusedSectionVars false
/-! # Source-translated tie, iterators: the `IterMut` cursor code of both queues, the sorted iterators, and the three
wrappers of `src/core_iterators.rs` -/
namespace PQ.SrcEquiv
open PQ PQ.Src PQ.SrcGen
variable {P : Type} [LT P] [DecidableLT P]

/-! ## `priority_queue::IterMut` -/

/-- `IterMut::new` = `PIterMut.new` -/
theorem pqIterMutNew (s : Store P) (fuel : Nat) (h : fuel ≥ 1) :
    Src.run SrcGen.prog fuel .pqIterMutNew s [] = pure (s, Val.cursor [PIterMut.new.pos] none) := by
  obtain ⟨k, rfl⟩ : ∃ k, fuel = k + 1 := ⟨fuel - 1, by omega⟩
  src_enter [prog, SrcGen.pqIterMutNew]
  src_eval [pqIterMutNew_body]
  rfl

/-- `IterMut::next` = `PIterMut.step … .next` (the reborrow is the trusted primitive "yield slot `pos`") -/
theorem pqIterMutNext (s : Store P) (pos : Nat) (fuel : Nat) (h : fuel ≥ 1) :
    Src.run SrcGen.prog fuel .pqIterMutNext s [pos]
      = pure (s, Val.cursor [(PIterMut.step s.map.size ⟨pos⟩ .next).1.pos] (some (PIterMut.step s.map.size ⟨pos⟩ .next).2)) := by
  obtain ⟨k, rfl⟩ : ∃ k, fuel = k + 1 := ⟨fuel - 1, by omega⟩
  src_enter [prog, SrcGen.pqIterMutNext]
  src_eval [pqIterMutNext_body, PIterMut.step]

/-- `Drop for IterMut` = `MaxQ.heapBuild` -/
theorem pqIterMutDrop (s : Store P) (pos : Nat) (fuel : Nat) (h : fuel ≥ s.size + 4) :
    Src.run SrcGen.prog fuel .pqIterMutDrop s [pos] = (fun s' => (s', Val.unit)) <$> MaxQ.heapBuild s := by
  obtain ⟨k, rfl⟩ : ∃ k, fuel = k + 1 := ⟨fuel - 1, by omega⟩
  src_enter [prog, SrcGen.pqIterMutDrop]
  src_eval [pqIterMutDrop_body]
  rw [call_pqHeapBuild _ _ (by omega)]
  src_eval

/-! ## `double_priority_queue::IterMut` -/

theorem dqIterMutNew (s : Store P) (fuel : Nat) (h : fuel ≥ 1) :
    Src.run SrcGen.prog fuel .dqIterMutNew s []
      = pure (s, Val.cursor [(DIterMut.new s.map.size).pos, (DIterMut.new s.map.size).back] none) := by
  obtain ⟨k, rfl⟩ : ∃ k, fuel = k + 1 := ⟨fuel - 1, by omega⟩
  src_enter [prog, SrcGen.dqIterMutNew]
  src_eval [dqIterMutNew_body]
  rfl

/-- what a method of the cursor hands back, from a step of the hand model -/
def encStep (s : Store P) (r : DIterMut × IOut) : Store P × Val P := (s, Val.cursor [r.1.pos, r.1.back] (some r.2))

theorem dqIterMutNext (s : Store P) (pos back : Nat) (fuel : Nat) (h : fuel ≥ 1) :
    Src.run SrcGen.prog fuel .dqIterMutNext s [pos, back] = encStep s <$> DIterMut.step s.map.size ⟨pos, back⟩ .next := by
  obtain ⟨k, rfl⟩ : ∃ k, fuel = k + 1 := ⟨fuel - 1, by omega⟩
  src_enter [prog, SrcGen.dqIterMutNext]
  src_eval [dqIterMutNext_body, DIterMut.step, encStep]

/-- `next_back`; the checked `self.back -= 1` (site 403) never fires: the guard `pos >= back` has returned before -/
theorem dqIterMutNextBack (s : Store P) (pos back : Nat) (fuel : Nat) (h : fuel ≥ 1) :
    Src.run SrcGen.prog fuel .dqIterMutNextBack s [pos, back]
      = encStep s <$> DIterMut.step s.map.size ⟨pos, back⟩ .nextBack := by
  obtain ⟨k, rfl⟩ : ∃ k, fuel = k + 1 := ⟨fuel - 1, by omega⟩
  src_enter [prog, SrcGen.dqIterMutNextBack]
  src_eval [dqIterMutNextBack_body, DIterMut.step, encStep]
  by_cases hc : pos ≥ back
  · simp only [hc, ↓reduceIte, decide_true]
  · have h1 : ¬ back < 1 := by omega
    simp only [hc, ↓reduceIte, decide_false, Bool.false_eq_true, h1]

theorem dqIterMutLen (s : Store P) (pos back : Nat) (fuel : Nat) (h : fuel ≥ 1) :
    Src.run SrcGen.prog fuel .dqIterMutLen s [pos, back] = encStep s <$> DIterMut.step s.map.size ⟨pos, back⟩ .len := by
  obtain ⟨k, rfl⟩ : ∃ k, fuel = k + 1 := ⟨fuel - 1, by omega⟩
  src_enter [prog, SrcGen.dqIterMutLen]
  src_eval [dqIterMutLen_body, DIterMut.step, encStep]

theorem dqIterMutSizeHint (s : Store P) (pos back : Nat) (fuel : Nat) (h : fuel ≥ 1) :
    Src.run SrcGen.prog fuel .dqIterMutSizeHint s [pos, back]
      = encStep s <$> DIterMut.step s.map.size ⟨pos, back⟩ .sizeHint := by
  obtain ⟨k, rfl⟩ : ∃ k, fuel = k + 1 := ⟨fuel - 1, by omega⟩
  src_enter [prog, SrcGen.dqIterMutSizeHint]
  src_eval [dqIterMutSizeHint_body, DIterMut.step, encStep]

theorem dqIterMutDrop (s : Store P) (pos back : Nat) (fuel : Nat) (h : fuel ≥ s.size + 5) :
    Src.run SrcGen.prog fuel .dqIterMutDrop s [pos, back] = (fun s' => (s', Val.unit)) <$> DQ.heapBuild s := by
  obtain ⟨k, rfl⟩ : ∃ k, fuel = k + 1 := ⟨fuel - 1, by omega⟩
  src_enter [prog, SrcGen.dqIterMutDrop]
  src_eval [dqIterMutDrop_body]
  rw [call_dqHeapBuild _ _ (by omega)]
  src_eval

/-! ## the sorted iterators -/

/-- `priority_queue::IntoSortedIter::next` = `MaxQ.pop` -/
theorem pqSortedNext (s : Store P) (fuel : Nat) (h : fuel ≥ s.size + 4) :
    Src.run SrcGen.prog fuel .pqSortedNext s [] = (fun r => (r.1, Val.optEntry r.2)) <$> MaxQ.pop s := by
  obtain ⟨k, rfl⟩ : ∃ k, fuel = k + 1 := ⟨fuel - 1, by omega⟩
  src_enter [prog, SrcGen.pqSortedNext]
  src_eval [pqSortedNext_body]
  have := pqPop s k (by omega)
  simp only [Src.run] at this
  rw [this]
  src_eval

/-- `double_priority_queue::IntoSortedIter::next` = `DQ.popMin` -/
theorem dqSortedNext (s : Store P) (fuel : Nat) (h : fuel ≥ s.size + 5) :
    Src.run SrcGen.prog fuel .dqSortedNext s [] = (fun r => (r.1, Val.optEntry r.2)) <$> DQ.popMin s := by
  obtain ⟨k, rfl⟩ : ∃ k, fuel = k + 1 := ⟨fuel - 1, by omega⟩
  src_enter [prog, SrcGen.dqSortedNext]
  src_eval [dqSortedNext_body]
  have := dqPopMin s k (by omega)
  simp only [Src.run] at this
  rw [this]
  src_eval

/-- `double_priority_queue::IntoSortedIter::next_back` = `DQ.popMax` -/
theorem dqSortedNextBack (s : Store P) (fuel : Nat) (h : fuel ≥ s.size + 5) :
    Src.run SrcGen.prog fuel .dqSortedNextBack s [] = (fun r => (r.1, Val.optEntry r.2)) <$> DQ.popMax s := by
  obtain ⟨k, rfl⟩ : ∃ k, fuel = k + 1 := ⟨fuel - 1, by omega⟩
  src_enter [prog, SrcGen.dqSortedNextBack]
  src_eval [dqSortedNextBack_body]
  have := dqPopMax s k (by omega)
  simp only [Src.run] at this
  rw [this]
  src_eval

/-- `ExactSizeIterator::len` of the sorted iterator = `pq.len()` -/
theorem dqSortedLen (s : Store P) (fuel : Nat) (h : fuel ≥ 1) :
    Src.run SrcGen.prog fuel .dqSortedLen s [] = pure (s, Val.nat s.len) := by
  obtain ⟨k, rfl⟩ : ∃ k, fuel = k + 1 := ⟨fuel - 1, by omega⟩
  src_enter [prog, SrcGen.dqSortedLen]
  src_eval [dqSortedLen_body, Store.len]

/-- `size_hint` of the sorted iterator = `(pq.len(), Some(pq.len()))` -/
theorem dqSortedSizeHint (s : Store P) (fuel : Nat) (h : fuel ≥ 1) :
    Src.run SrcGen.prog fuel .dqSortedSizeHint s [] = pure (s, Val.cursor [] (some (.hint s.len (some s.len)))) := by
  obtain ⟨k, rfl⟩ : ∃ k, fuel = k + 1 := ⟨fuel - 1, by omega⟩
  src_enter [prog, SrcGen.dqSortedSizeHint]
  src_eval [dqSortedSizeHint_body, Store.len]

/-! ## `src/core_iterators.rs`: `Drain`, `Iter`, `IntoIter` are pure delegation to IndexMap's iterators (`Cursor`) -/

def encCursor (s : Store P) (r : Cursor × IOut) : Store P × Val P := (s, Val.cursor [r.1.front, r.1.back] (some r.2))

/-- `Drain::next` forwards to the method of the same name of IndexMap's iterator -/
theorem drainNext (s : Store P) (front back : Nat) (fuel : Nat) (h : fuel ≥ 1) :
    Src.run SrcGen.prog fuel .drainNext s [front, back] = pure (encCursor s (Cursor.step ⟨front, back⟩ .next)) := by
  obtain ⟨k, rfl⟩ : ∃ k, fuel = k + 1 := ⟨fuel - 1, by omega⟩
  src_enter [prog, SrcGen.drainNext]
  src_eval [drainNext_body, encCursor]

/-- `Drain::next_back` forwards to the method of the same name of IndexMap's iterator -/
theorem drainNextBack (s : Store P) (front back : Nat) (fuel : Nat) (h : fuel ≥ 1) :
    Src.run SrcGen.prog fuel .drainNextBack s [front, back] = pure (encCursor s (Cursor.step ⟨front, back⟩ .nextBack)) := by
  obtain ⟨k, rfl⟩ : ∃ k, fuel = k + 1 := ⟨fuel - 1, by omega⟩
  src_enter [prog, SrcGen.drainNextBack]
  src_eval [drainNextBack_body, encCursor]

/-- `Drain::len` forwards to the method of the same name of IndexMap's iterator -/
theorem drainLen (s : Store P) (front back : Nat) (fuel : Nat) (h : fuel ≥ 1) :
    Src.run SrcGen.prog fuel .drainLen s [front, back] = pure (encCursor s (Cursor.step ⟨front, back⟩ .len)) := by
  obtain ⟨k, rfl⟩ : ∃ k, fuel = k + 1 := ⟨fuel - 1, by omega⟩
  src_enter [prog, SrcGen.drainLen]
  src_eval [drainLen_body, encCursor]

/-- `Drain::size_hint` forwards to the method of the same name of IndexMap's iterator -/
theorem drainSizeHint (s : Store P) (front back : Nat) (fuel : Nat) (h : fuel ≥ 1) :
    Src.run SrcGen.prog fuel .drainSizeHint s [front, back] = pure (encCursor s (Cursor.step ⟨front, back⟩ .sizeHint)) := by
  obtain ⟨k, rfl⟩ : ∃ k, fuel = k + 1 := ⟨fuel - 1, by omega⟩
  src_enter [prog, SrcGen.drainSizeHint]
  src_eval [drainSizeHint_body, encCursor]

/-- `Iter::next` forwards to the method of the same name of IndexMap's iterator -/
theorem iterNext (s : Store P) (front back : Nat) (fuel : Nat) (h : fuel ≥ 1) :
    Src.run SrcGen.prog fuel .iterNext s [front, back] = pure (encCursor s (Cursor.step ⟨front, back⟩ .next)) := by
  obtain ⟨k, rfl⟩ : ∃ k, fuel = k + 1 := ⟨fuel - 1, by omega⟩
  src_enter [prog, SrcGen.iterNext]
  src_eval [iterNext_body, encCursor]

/-- `Iter::next_back` forwards to the method of the same name of IndexMap's iterator -/
theorem iterNextBack (s : Store P) (front back : Nat) (fuel : Nat) (h : fuel ≥ 1) :
    Src.run SrcGen.prog fuel .iterNextBack s [front, back] = pure (encCursor s (Cursor.step ⟨front, back⟩ .nextBack)) := by
  obtain ⟨k, rfl⟩ : ∃ k, fuel = k + 1 := ⟨fuel - 1, by omega⟩
  src_enter [prog, SrcGen.iterNextBack]
  src_eval [iterNextBack_body, encCursor]

/-- `Iter::len` forwards to the method of the same name of IndexMap's iterator -/
theorem iterLen (s : Store P) (front back : Nat) (fuel : Nat) (h : fuel ≥ 1) :
    Src.run SrcGen.prog fuel .iterLen s [front, back] = pure (encCursor s (Cursor.step ⟨front, back⟩ .len)) := by
  obtain ⟨k, rfl⟩ : ∃ k, fuel = k + 1 := ⟨fuel - 1, by omega⟩
  src_enter [prog, SrcGen.iterLen]
  src_eval [iterLen_body, encCursor]

/-- `Iter::size_hint` forwards to the method of the same name of IndexMap's iterator -/
theorem iterSizeHint (s : Store P) (front back : Nat) (fuel : Nat) (h : fuel ≥ 1) :
    Src.run SrcGen.prog fuel .iterSizeHint s [front, back] = pure (encCursor s (Cursor.step ⟨front, back⟩ .sizeHint)) := by
  obtain ⟨k, rfl⟩ : ∃ k, fuel = k + 1 := ⟨fuel - 1, by omega⟩
  src_enter [prog, SrcGen.iterSizeHint]
  src_eval [iterSizeHint_body, encCursor]

/-- `IntoIter::next` forwards to the method of the same name of IndexMap's iterator -/
theorem intoIterNext (s : Store P) (front back : Nat) (fuel : Nat) (h : fuel ≥ 1) :
    Src.run SrcGen.prog fuel .intoIterNext s [front, back] = pure (encCursor s (Cursor.step ⟨front, back⟩ .next)) := by
  obtain ⟨k, rfl⟩ : ∃ k, fuel = k + 1 := ⟨fuel - 1, by omega⟩
  src_enter [prog, SrcGen.intoIterNext]
  src_eval [intoIterNext_body, encCursor]

/-- `IntoIter::next_back` forwards to the method of the same name of IndexMap's iterator -/
theorem intoIterNextBack (s : Store P) (front back : Nat) (fuel : Nat) (h : fuel ≥ 1) :
    Src.run SrcGen.prog fuel .intoIterNextBack s [front, back] = pure (encCursor s (Cursor.step ⟨front, back⟩ .nextBack)) := by
  obtain ⟨k, rfl⟩ : ∃ k, fuel = k + 1 := ⟨fuel - 1, by omega⟩
  src_enter [prog, SrcGen.intoIterNextBack]
  src_eval [intoIterNextBack_body, encCursor]

/-- `IntoIter::len` forwards to the method of the same name of IndexMap's iterator -/
theorem intoIterLen (s : Store P) (front back : Nat) (fuel : Nat) (h : fuel ≥ 1) :
    Src.run SrcGen.prog fuel .intoIterLen s [front, back] = pure (encCursor s (Cursor.step ⟨front, back⟩ .len)) := by
  obtain ⟨k, rfl⟩ : ∃ k, fuel = k + 1 := ⟨fuel - 1, by omega⟩
  src_enter [prog, SrcGen.intoIterLen]
  src_eval [intoIterLen_body, encCursor]

/-- `IntoIter::size_hint` forwards to the method of the same name of IndexMap's iterator -/
theorem intoIterSizeHint (s : Store P) (front back : Nat) (fuel : Nat) (h : fuel ≥ 1) :
    Src.run SrcGen.prog fuel .intoIterSizeHint s [front, back] = pure (encCursor s (Cursor.step ⟨front, back⟩ .sizeHint)) := by
  obtain ⟨k, rfl⟩ : ∃ k, fuel = k + 1 := ⟨fuel - 1, by omega⟩
  src_enter [prog, SrcGen.intoIterSizeHint]
  src_eval [intoIterSizeHint_body, encCursor]

end PQ.SrcEquiv
