import PQ.Lemmas.SrcEquivStore2
/-!
# Source-translated tie, phase 5.2a: `push` of both queues

The source counts the new element (`size += 1`) BEFORE sifting it up, the hand model after: `bubble_up` neither reads
nor writes the size counter (`*_size_frame`), so the results coincide.
-/
set_option linter.unusedSimpArgs false
set_option linter.unusedSectionVars false
namespace PQ.SrcEquiv
open PQ PQ.Src PQ.SrcGen
variable {P : Type} [LT P] [DecidableLT P]

/-! ## `PriorityQueue::push` -/

/-- `bubble_up` neither reads nor writes the size counter -/
theorem bubbleUpLoop_size_frame (f : Nat) : ∀ (s : Store P) (pos : Nat) (prio : P) (n : Nat),
    MaxQ.bubbleUpLoop f { s with size := n } pos prio
      = (fun r => (({ r.1 with size := n } : Store P), r.2)) <$> MaxQ.bubbleUpLoop f s pos prio := by
  induction f with
  | zero => intro s pos prio n; rfl
  | succ f ih =>
    intro s pos prio n
    simp only [MaxQ.bubbleUpLoop]
    split
    · simp only [Store.prioAt, Store.tick, map_eq_pure_bind, bind_assoc, pure_bind]
      refine bind_congr_ok fun i _ => bind_congr_ok fun e _ => ?_
      split
      · simp only [bind_assoc]
        refine bind_congr_ok fun pi _ => bind_congr_ok fun heap _ => bind_congr_ok fun qp _ => ?_
        have := ih { s with ticks := s.ticks + 1, heap := heap, qp := qp } (Arith.parent pos) prio n
        simp only [map_eq_pure_bind] at this
        exact this
      · simp only [pure_bind]
    · rfl

theorem bubbleUp_size_frame (s : Store P) (pos mp n : Nat) :
    MaxQ.bubbleUp { s with size := n } pos mp
      = (fun r => (({ r.1 with size := n } : Store P), r.2)) <$> MaxQ.bubbleUp s pos mp := by
  simp only [MaxQ.bubbleUp, bubbleUpLoop_size_frame, map_eq_pure_bind, bind_assoc, pure_bind]

/-- `PriorityQueue::push` = `MaxQ.push` (the source counts the element before sifting it up, the model after) -/
theorem pqPush (s : Store P) (it : Item) (p : P) (fuel : Nat) (h : fuel ≥ s.size + s.heap.size + 5) :
    Src.run SrcGen.prog fuel .pqPush s [] [p] [Val.item it]
      = (fun r => (r.1, Val.optP r.2)) <$> MaxQ.push s it p := by
  obtain ⟨k, rfl⟩ : ∃ k, fuel = k + 1 := ⟨fuel - 1, by omega⟩
  src_enter [prog, SrcGen.pqPush]
  unfold MaxQ.push
  cases hf : IMap.find? s.map it.key with
  | none =>
    rw [IMap.insertFull_of_find?_none hf]
    src_eval [pqPush_body, hf]
    simp only [Option.isSome_none, Bool.false_eq_true, ↓reduceIte]
    rw [call_pqBubbleUp _ _ _ _ (by omega)]
    have hfr := bubbleUp_size_frame
      { map := Array.push s.map (it, p), heap := s.heap.push s.size, qp := s.qp.push s.size, size := s.size,
        ticks := s.ticks } s.size s.size (s.size + 1)
    simp only at hfr
    rw [hfr]
    src_eval
    refine bind_congr_ok fun r hr => ?_
    have hsz := bubbleUp_post_size _ _ _ r hr
    simp only at hsz
    simp only [hsz]
  | some i =>
    obtain ⟨e, he, _⟩ := IMap.find?_getElem? hf
    rw [IMap.insertFull_of_find?_some hf he]
    src_eval [pqPush_body, hf, he]
    simp only [Option.isSome_some, ↓reduceIte]
    refine bind_congr_ok fun pos hpos => ?_
    rw [call_pqUpHeapify _ _ _ (by simp only; omega)]
    src_eval

/-! ## `DoublePriorityQueue::push` -/

theorem bubbleUpMinLoop_size_frame (f : Nat) : ∀ (s : Store P) (pos : Nat) (prio : P) (n : Nat),
    DQ.bubbleUpMinLoop f { s with size := n } pos prio
      = (fun r => (({ r.1 with size := n } : Store P), r.2)) <$> DQ.bubbleUpMinLoop f s pos prio := by
  induction f with
  | zero => intro s pos prio n; rfl
  | succ f ih =>
    intro s pos prio n
    simp only [DQ.bubbleUpMinLoop]
    split
    · simp only [Store.prioAt, Store.tick, map_eq_pure_bind, bind_assoc, pure_bind]
      refine bind_congr_ok fun i _ => bind_congr_ok fun e _ => ?_
      split
      · simp only [bind_assoc]
        refine bind_congr_ok fun pi _ => bind_congr_ok fun heap _ => bind_congr_ok fun qp _ => ?_
        have := ih { s with ticks := s.ticks + 1, heap := heap, qp := qp } (Arith.parent (Arith.parent pos)) prio n
        simp only [map_eq_pure_bind] at this
        exact this
      · simp only [pure_bind]
    · rfl

theorem bubbleUpMaxLoop_size_frame (f : Nat) : ∀ (s : Store P) (pos : Nat) (prio : P) (n : Nat),
    DQ.bubbleUpMaxLoop f { s with size := n } pos prio
      = (fun r => (({ r.1 with size := n } : Store P), r.2)) <$> DQ.bubbleUpMaxLoop f s pos prio := by
  induction f with
  | zero => intro s pos prio n; rfl
  | succ f ih =>
    intro s pos prio n
    simp only [DQ.bubbleUpMaxLoop]
    split
    · simp only [Store.prioAt, Store.tick, map_eq_pure_bind, bind_assoc, pure_bind]
      refine bind_congr_ok fun i _ => bind_congr_ok fun e _ => ?_
      split
      · simp only [bind_assoc]
        refine bind_congr_ok fun pi _ => bind_congr_ok fun heap _ => bind_congr_ok fun qp _ => ?_
        have := ih { s with ticks := s.ticks + 1, heap := heap, qp := qp } (Arith.parent (Arith.parent pos)) prio n
        simp only [map_eq_pure_bind] at this
        exact this
      · simp only [pure_bind]
    · rfl

theorem dq_bubbleUpMin_size_frame (s : Store P) (pos mp n : Nat) :
    DQ.bubbleUpMin { s with size := n } pos mp
      = (fun r => (({ r.1 with size := n } : Store P), r.2)) <$> DQ.bubbleUpMin s pos mp := by
  simp only [DQ.bubbleUpMin, bubbleUpMinLoop_size_frame, map_eq_pure_bind, bind_assoc, pure_bind]

theorem dq_bubbleUpMax_size_frame (s : Store P) (pos mp n : Nat) :
    DQ.bubbleUpMax { s with size := n } pos mp
      = (fun r => (({ r.1 with size := n } : Store P), r.2)) <$> DQ.bubbleUpMax s pos mp := by
  simp only [DQ.bubbleUpMax, bubbleUpMaxLoop_size_frame, map_eq_pure_bind, bind_assoc, pure_bind]

theorem dq_bubbleUp_size_frame (s : Store P) (pos mp n : Nat) :
    DQ.bubbleUp { s with size := n } pos mp
      = (fun r => (({ r.1 with size := n } : Store P), r.2)) <$> DQ.bubbleUp s pos mp := by
  simp only [DQ.bubbleUp, Store.prioAt, Store.tick, map_eq_pure_bind, bind_assoc, pure_bind]
  refine bind_congr_ok fun e _ => ?_
  split
  · simp only [bind_assoc]
    refine bind_congr_ok fun i _ => bind_congr_ok fun pe _ => bind_congr_ok fun pi _ => ?_
    have hmin := fun (s' : Store P) p => dq_bubbleUpMin_size_frame s' p mp n
    have hmax := fun (s' : Store P) p => dq_bubbleUpMax_size_frame s' p mp n
    simp only [map_eq_pure_bind] at hmin hmax
    split
    · simp only [bind_assoc]
      refine bind_congr_ok fun heap _ => bind_congr_ok fun qp _ => ?_
      have := hmax { s with ticks := s.ticks + 1, heap := heap, qp := qp } (Arith.parent pos)
      simp only at this
      rw [this]
      simp only [bind_assoc, pure_bind]
    · have := hmin { s with ticks := s.ticks + 1 } pos
      simp only at this
      rw [this]
      simp only [bind_assoc, pure_bind]
    · have := hmax { s with ticks := s.ticks + 1 } pos
      simp only at this
      rw [this]
      simp only [bind_assoc, pure_bind]
    · simp only [bind_assoc]
      refine bind_congr_ok fun heap _ => bind_congr_ok fun qp _ => ?_
      have := hmin { s with ticks := s.ticks + 1, heap := heap, qp := qp } (Arith.parent pos)
      simp only at this
      rw [this]
      simp only [bind_assoc, pure_bind]
  · simp only [pure_bind, bind_assoc]

/-- `DoublePriorityQueue::push` = `DQ.push` -/
theorem dqPush (s : Store P) (it : Item) (p : P) (fuel : Nat) (h : fuel ≥ s.size + s.heap.size + 6) :
    Src.run SrcGen.prog fuel .dqPush s [] [p] [Val.item it]
      = (fun r => (r.1, Val.optP r.2)) <$> DQ.push s it p := by
  obtain ⟨k, rfl⟩ : ∃ k, fuel = k + 1 := ⟨fuel - 1, by omega⟩
  src_enter [prog, SrcGen.dqPush]
  unfold DQ.push
  cases hf : IMap.find? s.map it.key with
  | none =>
    rw [IMap.insertFull_of_find?_none hf]
    src_eval [dqPush_body, hf]
    simp only [Option.isSome_none, Bool.false_eq_true, ↓reduceIte]
    rw [call_dqBubbleUp _ _ _ _ (by omega)]
    have hfr := dq_bubbleUp_size_frame
      { map := Array.push s.map (it, p), heap := s.heap.push s.size, qp := s.qp.push s.size, size := s.size,
        ticks := s.ticks } s.size s.size (s.size + 1)
    simp only at hfr
    rw [hfr]
    src_eval
    refine bind_congr_ok fun r hr => ?_
    have hsz := dq_bubbleUp_post_size _ _ _ r hr
    simp only at hsz
    simp only [hsz]
  | some i =>
    obtain ⟨e, he, _⟩ := IMap.find?_getElem? hf
    rw [IMap.insertFull_of_find?_some hf he]
    src_eval [dqPush_body, hf, he]
    simp only [Option.isSome_some, ↓reduceIte]
    refine bind_congr_ok fun pos hpos => ?_
    rw [call_dqUpHeapify _ _ _ (by simp only; omega)]
    src_eval
end PQ.SrcEquiv
