import PQ.Lemmas.SrcEquivPanicBulk
set_option linter.unusedSimpArgs false
set_option linter.unusedSectionVars false
/-! # Unwinding tie, part 5: `Extend` of both queues -/
namespace PQ.SrcEquivF
open PQ PQ.Src PQ.SrcGen PQ.SrcF PQ.Crash PQ.SrcEquiv
variable {P : Type} [LT P] [DecidableLT P]

/-! ## shape of the tables after the fused twins (for the fuel of the push loop of `extend`) -/

theorem pickLargestF_post_shape (fuse : Nat) (s : Store P) (i : Nat) :
    PostC (Crash.MaxQ.pickLargestF fuse s i) (fun r => Shape s r.1) := by
  unfold Crash.MaxQ.pickLargestF
  refine PostC.bind (PostC.triv _) fun _ _ => PostC.ite (fun _ => ?_) (fun _ => PostC.pure (Shape.refl s))
  refine PostC.bind (PostC.triv _) fun _ _ => PostC.cmpF_bind ?_
  refine PostC.ite (fun _ => ?_) (fun _ => PostC.pure ⟨rfl, rfl⟩)
  exact PostC.bind (PostC.triv _) fun _ _ => PostC.cmpF_bind (PostC.pure ⟨rfl, rfl⟩)

theorem heapifyLoopF_post_shape (fuse : Nat) (f : Nat) : ∀ (s : Store P) (i : Nat),
    PostC (Crash.MaxQ.heapifyLoopF fuse f s i) (Shape s) := by
  induction f with
  | zero => intro s i r hr; cases hr
  | succ f ih =>
    intro s i
    rw [Crash.MaxQ.heapifyLoopF]
    refine PostC.bind (pickLargestF_post_shape fuse s i) fun r hr => ?_
    obtain ⟨s1, lg⟩ := r
    refine PostC.ite (fun _ => PostC.pure hr) fun _ => PostC.bind (PostC.liftR (swap_post_shape _ _ _)) fun s2 h2 => ?_
    intro r hr2
    exact (hr.trans h2).trans (ih _ _ r hr2)

theorem heapifyF_post_shape (fuse : Nat) (s : Store P) (i : Nat) : PostC (Crash.MaxQ.heapifyF fuse s i) (Shape s) := by
  unfold Crash.MaxQ.heapifyF
  exact PostC.ite (fun _ => PostC.pure (Shape.refl s)) fun _ => heapifyLoopF_post_shape _ _ _ _

theorem bubbleUpLoopF_post_shape (fuse mp : Nat) (f : Nat) : ∀ (s : Store P) (pos : Nat) (prio : P),
    PostC (Crash.MaxQ.bubbleUpLoopF fuse mp f s pos prio) (fun r => Shape s r.1) := by
  induction f with
  | zero => intro s pos prio r hr; cases hr
  | succ f ih =>
    intro s pos prio
    rw [Crash.MaxQ.bubbleUpLoopF]
    refine PostC.ite (fun _ => ?_) (fun _ => PostC.pure (Shape.refl s))
    refine PostC.bind (PostC.triv _) fun pp _ => PostC.cmpHoleF_bind ?_
    refine PostC.ite (fun _ => ?_) (fun _ => PostC.pure ⟨rfl, rfl⟩)
    refine PostC.bind (PostC.triv _) fun _ _ => PostC.bind (PostC.liftR (setU_post_size _ _ _ _)) fun heap hh =>
      PostC.bind (PostC.triv _) fun _ _ => ?_
    intro r hr
    have := ih _ _ _ r hr
    exact ⟨this.1, this.2.trans hh⟩

theorem bubbleUpF_post_shape (fuse : Nat) (s : Store P) (pos mp : Nat) :
    PostC (Crash.MaxQ.bubbleUpF fuse s pos mp) (fun r => Shape s r.1) := by
  unfold Crash.MaxQ.bubbleUpF
  refine PostC.bind (PostC.triv _) fun e _ => PostC.bind (bubbleUpLoopF_post_shape _ _ _ s pos e.2) fun r hr => ?_
  exact PostC.bind (PostC.liftR (setU_post_size _ _ _ _)) fun heap hh => PostC.bind (PostC.triv _) fun _ _ =>
    PostC.pure ⟨hr.1, hh.trans hr.2⟩

theorem upHeapifyF_post_shape (fuse : Nat) (s : Store P) (i : Nat) : PostC (Crash.MaxQ.upHeapifyF fuse s i) (Shape s) := by
  unfold Crash.MaxQ.upHeapifyF
  refine PostC.bind (PostC.triv _) fun _ _ => PostC.bind (bubbleUpF_post_shape _ _ _ _) fun r hr => ?_
  intro s' hs'
  exact hr.trans (heapifyF_post_shape _ _ _ s' hs')

theorem pushF_post_grow (fuse : Nat) (s : Store P) (it : Item) (p : P) :
    PostC (Crash.MaxQ.pushF fuse s it p) (fun r => r.1.size ≤ s.size + 1 ∧ r.1.heap.size ≤ s.heap.size + 1) := by
  unfold Crash.MaxQ.pushF
  cases hf : IMap.find? s.map it.key with
  | none =>
    rw [IMap.insertFull_of_find?_none hf]
    refine PostC.bind (bubbleUpF_post_shape _ _ _ _) fun r hr => PostC.pure ?_
    obtain ⟨h1, h2⟩ := hr
    simp only [Array.size_push] at h1 h2 ⊢
    omega
  | some i =>
    obtain ⟨e, he, _⟩ := IMap.find?_getElem? hf
    rw [IMap.insertFull_of_find?_some hf he]
    refine PostC.bind (PostC.triv _) fun pos _ => PostC.bind (upHeapifyF_post_shape _ _ _) fun s' hs' => PostC.pure ?_
    obtain ⟨h1, h2⟩ := hs'
    simp only at h1 h2 ⊢
    omega

/-- the push loop of `extend` under the fused interpreter, for any body that behaves like the fused `push` -/
theorem forListF_pushAllF (k c : Nat) (bodyF : Item × P → St P → CF P (St P × Flow P))
    (pushT : Store P → Item → P → CR P (Store P × Option P)) (pushAllT : List (Item × P) → Store P → CR P (Store P))
    (hgrow : ∀ s it p, PostC (pushT s it p) (fun r => r.1.size ≤ s.size + 1 ∧ r.1.heap.size ≤ s.heap.size + 1))
    (hnil : ∀ s, pushAllT [] s = pure s)
    (hcons : ∀ e es s, pushAllT (e :: es) s = pushT s e.1 e.2 >>= fun r => pushAllT es r.1)
    (hbody : ∀ e st, k ≥ st.s.size + st.s.heap.size + c →
      toCR fill0 (fun st' => st'.s) (bodyF e st) = (fun r => (r.1, Flow.normal)) <$> pushT st.s e.1 e.2) :
    ∀ (l : List (Item × P)) (st : St P), k ≥ st.s.size + st.s.heap.size + 2 * l.length + c →
      toCR fill0 (fun st' => st'.s) (forListF bodyF l st) = (fun s' => (s', Flow.normal)) <$> pushAllT l st.s := by
  intro l
  induction l with
  | nil => intro st _; rw [forListF, hnil]; rfl
  | cons e l ih =>
    intro st hk
    simp only [List.length_cons] at hk
    rw [forListF, hcons, map_bind]
    have hb := hbody e st (by omega)
    have hy : ∀ (G : Store P → CR P (Store P × Flow P)),
        (pushT st.s e.1 e.2 >>= fun a => G a.1) = ((fun r => r.1) <$> pushT st.s e.1 e.2) >>= G := by
      intro G; cases pushT st.s e.1 e.2 <;> rfl
    rw [hy (fun s1 => (fun s' => (s', Flow.normal)) <$> pushAllT l s1)]
    have hb' : toCR fill0 (fun st' => st'.s) (bodyF e st)
        = (fun b => (b, Flow.normal)) <$> ((fun r => r.1) <$> pushT st.s e.1 e.2) := by
      rw [hb]; cases pushT st.s e.1 e.2 <;> rfl
    refine toCR_bind_of fill0 (fun st' => st'.s) _ _ _ hb' _ _ ?_
    intro st' hx
    refine ih st' ?_
    rw [hx] at hb
    cases hp : pushT st.s e.1 e.2 with
    | error f => rw [hp] at hb; cases hb
    | ok r =>
      rw [hp] at hb
      have hg := hgrow st.s e.1 e.2 r hp
      simp only [toCR, Functor.map, Except.map, Except.ok.injEq, Prod.mk.injEq, and_true] at hb
      rw [hb]
      omega

/-- `Extend for PriorityQueue` under a panicking comparison = `Crash.MaxQ.extendF` (rebuild strategy: the store-level extend
of all pairs is complete; push strategy: the pushes done so far are complete) -/
theorem pqExtendF (fuse : Nat) (s : Store P) (lo : Nat) (xs : Array (Item × P)) (fuel : Nat)
    (h : fuel ≥ s.size + s.heap.size + 2 * xs.size + (s.extend xs).size + 7) :
    runF prog unwind fuse false fuel .pqExtend s [] [] [Val.iter lo xs]
      = (fun s' => (s', Val.unit)) <$> Crash.MaxQ.extendF fuse s lo xs := by
  obtain ⟨n, rfl⟩ : ∃ n, fuel = n + 2 := ⟨fuel - 2, by omega⟩
  rw [runF_frame0 prog unwind fuse false (n + 1) .pqExtend _ s _ _ _ rfl rfl]
  unfold Crash.MaxQ.extendF
  rw [execF, pqExtend_body]
  have loop : ∀ (st0 : St P) (bodyF : Item × P → St P → CF P (St P × Flow P)), st0.s = s →
      (∀ e st, n + 1 ≥ st.s.size + st.s.heap.size + 5 →
        toCR fill0 (fun st' => st'.s) (bodyF e st)
          = (fun r => (r.1, Flow.normal)) <$> Crash.MaxQ.pushF fuse st.s e.1 e.2) →
      frame0 (forListF bodyF xs.toList st0) = (fun s' => (s', Val.unit)) <$> Crash.MaxQ.pushAllF fuse xs.toList s := by
    intro st0 bodyF h0 hbody
    refine frame0_of_toCR _ _ ?_
    have := forListF_pushAllF (n + 1) 5 bodyF (Crash.MaxQ.pushF fuse) (Crash.MaxQ.pushAllF fuse)
      (pushF_post_grow fuse) (fun _ => rfl) (fun _ _ _ => rfl) hbody xs.toList st0
      (by rw [h0]; simp only [Array.length_toList]; omega)
    rw [this, h0]
  srcF_eval [esF_forEntries]
  simp only [ne_eq, Nat.succ_ne_zero, not_false_eq_true, not_true_eq_false, decide_true, decide_false, ↓reduceIte,
    Bool.false_eq_true, Nat.one_ne_zero]
  have hbody : ∀ (e : Item × P) (st : St P), n + 1 ≥ st.s.size + st.s.heap.size + 5 →
      toCR fill0 (fun st' => st'.s)
        (fromCall ({ s := st.s, n := st.n, p := upd st.p 5 (some e.snd), v := upd st.v 4 (some (Val.item e.fst)) } : St P)
            none
            (callWithF (execF prog unwind fuse false (n + 1)) (exec prog (n + 1)) prog unwind FnId.pqPush st.s [] [e.snd]
              [Val.item e.fst]) >>= fun c =>
          pure (({ s := c.fst, n := st.n, p := upd st.p 5 (some e.snd), v := upd (upd st.v 4 (some (Val.item e.fst))) 6 (some c.snd) } : St P), (Flow.normal : Flow P)))
        = (fun r => (r.1, Flow.normal)) <$> Crash.MaxQ.pushF fuse st.s e.1 e.2 := by
    intro e st hb
    srcF_cr
    rw [call_pqPushF _ _ _ _ _ hb]
    srcF_cr
  by_cases hlo : lo = 0
  · subst hlo
    have hr0 : (reserveC 0 : R Unit) = pure () := by unfold reserveC capLimit; rfl
    simp only [↓reduceIte, hr0, pure_bind, Bool.false_eq_true, decide_false, decide_true, not_true_eq_false, liftR_pure]
    exact loop _ _ rfl hbody
  · simp only [hlo, ↓reduceIte, not_false_eq_true, decide_true]
    rw [frame0_liftF_bind]
    refine liftR_bind_congr_ok fun _ _ => ?_
    by_cases hb : Arith.betterToRebuild s.size lo = true
    · simp only [hb, ↓reduceIte]
      srcF_cr [call_storeExtend]
      rw [call_pqHeapBuildF _ _ _ (by omega)]
      srcF_cr
    · simp only [hb, ↓reduceIte, Bool.false_eq_true]
      exact loop _ _ rfl hbody

/-! ## the same for the min-max heap -/

theorem minByKeyF_post_shape (fuse : Nat) (s : Store P) (l : List (Nat × P)) :
    PostC (Crash.DQ.minByKeyF fuse s l) (fun r => Shape s r.1) := by
  have hfold : ∀ (l : List (Nat × P)) (s1 : Store P) (acc : Nat × P), Shape s s1 →
      PostC (Crash.DQ.minFoldF fuse l s1 acc) (fun r => Shape s r.1) := by
    intro l
    induction l with
    | nil => intro s1 acc h1; exact PostC.pure h1
    | cons y ys ih =>
      intro s1 acc h1
      rw [Crash.DQ.minFoldF]
      refine PostC.cmpF_bind ?_
      exact ih _ _ ⟨h1.1, h1.2⟩
  cases l with
  | nil => exact PostC.pure (Shape.refl s)
  | cons x xs => exact PostC.bind (hfold xs s x (Shape.refl s)) fun r hr => PostC.pure hr

theorem maxByKeyF_post_shape (fuse : Nat) (s : Store P) (l : List (Nat × P)) :
    PostC (Crash.DQ.maxByKeyF fuse s l) (fun r => Shape s r.1) := by
  have hfold : ∀ (l : List (Nat × P)) (s1 : Store P) (acc : Nat × P), Shape s s1 →
      PostC (Crash.DQ.maxFoldF fuse l s1 acc) (fun r => Shape s r.1) := by
    intro l
    induction l with
    | nil => intro s1 acc h1; exact PostC.pure h1
    | cons y ys ih =>
      intro s1 acc h1
      rw [Crash.DQ.maxFoldF]
      refine PostC.cmpF_bind ?_
      exact ih _ _ ⟨h1.1, h1.2⟩
  cases l with
  | nil => exact PostC.pure (Shape.refl s)
  | cons x xs => exact PostC.bind (hfold xs s x (Shape.refl s)) fun r hr => PostC.pure hr

theorem dDownMinF_post_shape (fuse : Nat) (s : Store P) (i : Nat) :
    PostC (dDownMinF fuse s i) (fun r => Shape s r.1.1) := by
  unfold dDownMinF
  refine PostC.bind (PostC.triv _) fun cs _ => PostC.bind (minByKeyF_post_shape fuse s cs) fun r hr => ?_
  refine PostC.bind (PostC.triv _) fun c _ => PostC.bind (PostC.triv _) fun pc _ =>
    PostC.bind (PostC.triv _) fun pm _ => PostC.cmpF_bind ?_
  refine PostC.ite (fun _ => ?_) (fun _ => PostC.pure ⟨hr.1, hr.2⟩)
  refine PostC.bind (PostC.liftR (swap_post_shape _ _ _)) fun s1 h1 => PostC.ite (fun _ => ?_)
    (fun _ => PostC.pure ⟨h1.1.trans hr.1, h1.2.trans hr.2⟩)
  refine PostC.bind (PostC.triv _) fun p _ => PostC.bind (PostC.triv _) fun _ _ => PostC.bind (PostC.triv _) fun _ _ =>
    PostC.cmpF_bind ?_
  dsimp only
  have hs1 : Shape s s1 := ⟨h1.1.trans hr.1, h1.2.trans hr.2⟩
  refine PostC.ite (fun _ => PostC.bind (PostC.liftR (swap_post_shape _ _ _)) fun s2 h2 => PostC.pure ?_)
    (fun _ => PostC.bind (PostC.pure (Q := fun (s2 : Store P) => Shape s s2) ⟨hs1.1, hs1.2⟩) fun s2 h2 => PostC.pure h2)
  exact ⟨h2.1.trans hs1.1, h2.2.trans hs1.2⟩

theorem dDownMaxF_post_shape (fuse : Nat) (s : Store P) (i : Nat) :
    PostC (dDownMaxF fuse s i) (fun r => Shape s r.1.1) := by
  unfold dDownMaxF
  refine PostC.bind (PostC.triv _) fun cs _ => PostC.bind (maxByKeyF_post_shape fuse s cs) fun r hr => ?_
  refine PostC.bind (PostC.triv _) fun c _ => PostC.bind (PostC.triv _) fun pc _ =>
    PostC.bind (PostC.triv _) fun pm _ => PostC.cmpF_bind ?_
  refine PostC.ite (fun _ => ?_) (fun _ => PostC.pure ⟨hr.1, hr.2⟩)
  refine PostC.bind (PostC.liftR (swap_post_shape _ _ _)) fun s1 h1 => PostC.ite (fun _ => ?_)
    (fun _ => PostC.pure ⟨h1.1.trans hr.1, h1.2.trans hr.2⟩)
  refine PostC.bind (PostC.triv _) fun p _ => PostC.bind (PostC.triv _) fun _ _ => PostC.bind (PostC.triv _) fun _ _ =>
    PostC.cmpF_bind ?_
  dsimp only
  have hs1 : Shape s s1 := ⟨h1.1.trans hr.1, h1.2.trans hr.2⟩
  refine PostC.ite (fun _ => PostC.bind (PostC.liftR (swap_post_shape _ _ _)) fun s2 h2 => PostC.pure ?_)
    (fun _ => PostC.bind (PostC.pure (Q := fun (s2 : Store P) => Shape s s2) ⟨hs1.1, hs1.2⟩) fun s2 h2 => PostC.pure h2)
  exact ⟨h2.1.trans hs1.1, h2.2.trans hs1.2⟩

theorem heapifyMinLoopF_post_shape (fuse : Nat) (f : Nat) : ∀ (s : Store P) (i : Nat),
    PostC (Crash.DQ.heapifyMinLoopF fuse f s i) (Shape s) := by
  induction f with
  | zero => intro s i r hr; cases hr
  | succ f ih =>
    intro s i
    rw [heapifyMinLoopF_succ]
    refine PostC.bind (PostC.triv _) fun b _ => PostC.ite (fun _ => ?_) (fun _ => PostC.pure (Shape.refl s))
    refine PostC.bind (dDownMinF_post_shape fuse s i) fun r hr => PostC.ite (fun _ => ?_) (fun _ => PostC.pure hr)
    intro s' hs'
    exact hr.trans (ih _ _ s' hs')

theorem heapifyMaxLoopF_post_shape (fuse : Nat) (f : Nat) : ∀ (s : Store P) (i : Nat),
    PostC (Crash.DQ.heapifyMaxLoopF fuse f s i) (Shape s) := by
  induction f with
  | zero => intro s i r hr; cases hr
  | succ f ih =>
    intro s i
    rw [heapifyMaxLoopF_succ]
    refine PostC.bind (PostC.triv _) fun b _ => PostC.ite (fun _ => ?_) (fun _ => PostC.pure (Shape.refl s))
    refine PostC.bind (dDownMaxF_post_shape fuse s i) fun r hr => PostC.ite (fun _ => ?_) (fun _ => PostC.pure hr)
    intro s' hs'
    exact hr.trans (ih _ _ s' hs')

theorem dq_heapifyF_post_shape (fuse : Nat) (s : Store P) (i : Nat) : PostC (Crash.DQ.heapifyF fuse s i) (Shape s) := by
  unfold Crash.DQ.heapifyF
  exact PostC.ite (fun _ => PostC.pure (Shape.refl s)) fun _ =>
    PostC.ite (fun _ => heapifyMinLoopF_post_shape _ _ _ _) (fun _ => heapifyMaxLoopF_post_shape _ _ _ _)

theorem bubbleUpMinLoopF_post_shape (fuse mp : Nat) (f : Nat) : ∀ (s : Store P) (pos : Nat) (prio : P),
    PostC (Crash.DQ.bubbleUpMinLoopF fuse mp f s pos prio) (fun r => Shape s r.1) := by
  induction f with
  | zero => intro s pos prio r hr; cases hr
  | succ f ih =>
    intro s pos prio
    rw [Crash.DQ.bubbleUpMinLoopF]
    refine PostC.ite (fun _ => ?_) (fun _ => PostC.pure (Shape.refl s))
    refine PostC.bind (PostC.triv _) fun pp _ => PostC.cmpHoleF_bind ?_
    refine PostC.ite (fun _ => ?_) (fun _ => PostC.pure ⟨rfl, rfl⟩)
    refine PostC.bind (PostC.triv _) fun _ _ => PostC.bind (PostC.liftR (setU_post_size _ _ _ _)) fun heap hh =>
      PostC.bind (PostC.triv _) fun _ _ => ?_
    intro r hr
    have := ih _ _ _ r hr
    exact ⟨this.1, this.2.trans hh⟩

theorem bubbleUpMaxLoopF_post_shape (fuse mp : Nat) (f : Nat) : ∀ (s : Store P) (pos : Nat) (prio : P),
    PostC (Crash.DQ.bubbleUpMaxLoopF fuse mp f s pos prio) (fun r => Shape s r.1) := by
  induction f with
  | zero => intro s pos prio r hr; cases hr
  | succ f ih =>
    intro s pos prio
    rw [Crash.DQ.bubbleUpMaxLoopF]
    refine PostC.ite (fun _ => ?_) (fun _ => PostC.pure (Shape.refl s))
    refine PostC.bind (PostC.triv _) fun pp _ => PostC.cmpHoleF_bind ?_
    refine PostC.ite (fun _ => ?_) (fun _ => PostC.pure ⟨rfl, rfl⟩)
    refine PostC.bind (PostC.triv _) fun _ _ => PostC.bind (PostC.liftR (setU_post_size _ _ _ _)) fun heap hh =>
      PostC.bind (PostC.triv _) fun _ _ => ?_
    intro r hr
    have := ih _ _ _ r hr
    exact ⟨this.1, this.2.trans hh⟩

theorem dq_bubbleUpF_post_shape (fuse : Nat) (s : Store P) (pos mp : Nat) :
    PostC (Crash.DQ.bubbleUpF fuse s pos mp) (fun r => Shape s r.1) := by
  unfold Crash.DQ.bubbleUpF
  refine PostC.bind (PostC.triv _) fun e _ => ?_
  dsimp only
  have tail : ∀ (x : Store P × Nat), Shape s x.1 → PostC (do
      let heap ← liftR (setU x.1.heap x.2 mp 316)
      let qp ← liftR (setU x.1.qp mp x.2 317)
      pure (({ x.1 with heap := heap, qp := qp } : Store P), x.2) : CR P (Store P × Nat)) (fun r => Shape s r.1) :=
    fun x hx => PostC.bind (PostC.liftR (setU_post_size _ _ _ _)) fun heap hh => PostC.bind (PostC.triv _) fun _ _ =>
      PostC.pure ⟨hx.1, hh.trans hx.2⟩
  have hmin : ∀ (s' : Store P) p, Shape s s' → PostC (Crash.DQ.bubbleUpMinF fuse s' p mp) (fun r => Shape s r.1) := by
    intro s' p hs'
    unfold Crash.DQ.bubbleUpMinF
    refine PostC.bind (PostC.triv _) fun e _ => ?_
    intro r hr
    exact hs'.trans (bubbleUpMinLoopF_post_shape _ _ _ _ _ _ r hr)
  have hmax : ∀ (s' : Store P) p, Shape s s' → PostC (Crash.DQ.bubbleUpMaxF fuse s' p mp) (fun r => Shape s r.1) := by
    intro s' p hs'
    unfold Crash.DQ.bubbleUpMaxF
    refine PostC.bind (PostC.triv _) fun e _ => ?_
    intro r hr
    exact hs'.trans (bubbleUpMaxLoopF_post_shape _ _ _ _ _ _ r hr)
  refine PostC.ite (fun _ => ?_)
    (fun _ => PostC.bind (PostC.pure (Q := fun (r : Store P × Nat) => Shape s r.1) (Shape.refl s)) tail)
  refine PostC.bind (PostC.triv _) fun pp _ => PostC.bind (PostC.triv _) fun pi _ => PostC.cmpHoleF_bind ?_
  dsimp only
  split
  · exact PostC.bind (PostC.liftR (setU_post_size _ _ _ _)) fun _ hh => PostC.bind (PostC.triv _) fun _ _ =>
      PostC.bind (hmax _ _ ⟨rfl, hh⟩) tail
  · exact PostC.bind (hmin _ _ ⟨rfl, rfl⟩) tail
  · exact PostC.bind (hmax _ _ ⟨rfl, rfl⟩) tail
  · exact PostC.bind (PostC.liftR (setU_post_size _ _ _ _)) fun _ hh => PostC.bind (PostC.triv _) fun _ _ =>
      PostC.bind (hmin _ _ ⟨rfl, hh⟩) tail

theorem dq_upHeapifyF_post_shape (fuse : Nat) (s : Store P) (i : Nat) : PostC (Crash.DQ.upHeapifyF fuse s i) (Shape s) := by
  unfold Crash.DQ.upHeapifyF
  split
  · exact PostC.pure (Shape.refl s)
  · refine PostC.bind (dq_bubbleUpF_post_shape _ _ _ _) fun r hr => ?_
    obtain ⟨s1, pos⟩ := r
    dsimp only
    refine PostC.ite (fun _ => PostC.bind (dq_heapifyF_post_shape _ _ _) fun s2 h2 => ?_)
      (fun _ => PostC.bind (PostC.pure (Q := fun (s2 : Store P) => Shape s1 s2) (Shape.refl s1)) fun s2 h2 => ?_)
    · intro s3 hs3
      exact (hr.trans h2).trans (dq_heapifyF_post_shape _ _ _ s3 hs3)
    · intro s3 hs3
      exact (hr.trans h2).trans (dq_heapifyF_post_shape _ _ _ s3 hs3)

theorem dq_pushF_post_grow (fuse : Nat) (s : Store P) (it : Item) (p : P) :
    PostC (Crash.DQ.pushF fuse s it p) (fun r => r.1.size ≤ s.size + 1 ∧ r.1.heap.size ≤ s.heap.size + 1) := by
  unfold Crash.DQ.pushF
  cases hf : IMap.find? s.map it.key with
  | none =>
    rw [IMap.insertFull_of_find?_none hf]
    refine PostC.bind (dq_bubbleUpF_post_shape _ _ _ _) fun r hr => PostC.pure ?_
    obtain ⟨h1, h2⟩ := hr
    simp only [Array.size_push] at h1 h2 ⊢
    omega
  | some i =>
    obtain ⟨e, he, _⟩ := IMap.find?_getElem? hf
    rw [IMap.insertFull_of_find?_some hf he]
    refine PostC.bind (PostC.triv _) fun pos _ => PostC.bind (dq_upHeapifyF_post_shape _ _ _) fun s' hs' => PostC.pure ?_
    obtain ⟨h1, h2⟩ := hs'
    simp only at h1 h2 ⊢
    omega

/-- `Extend for DoublePriorityQueue` under a panicking comparison = `Crash.DQ.extendF` (rebuild strategy: the store-level extend
of all pairs is complete; push strategy: the pushes done so far are complete) -/
theorem dqExtendF (fuse : Nat) (s : Store P) (lo : Nat) (xs : Array (Item × P)) (fuel : Nat)
    (h : fuel ≥ s.size + s.heap.size + 2 * xs.size + (s.extend xs).size + 8) :
    runF prog unwind fuse false fuel .dqExtend s [] [] [Val.iter lo xs]
      = (fun s' => (s', Val.unit)) <$> Crash.DQ.extendF fuse s lo xs := by
  obtain ⟨n, rfl⟩ : ∃ n, fuel = n + 2 := ⟨fuel - 2, by omega⟩
  rw [runF_frame0 prog unwind fuse false (n + 1) .dqExtend _ s _ _ _ rfl rfl]
  unfold Crash.DQ.extendF
  rw [execF, dqExtend_body]
  have loop : ∀ (st0 : St P) (bodyF : Item × P → St P → CF P (St P × Flow P)), st0.s = s →
      (∀ e st, n + 1 ≥ st.s.size + st.s.heap.size + 6 →
        toCR fill0 (fun st' => st'.s) (bodyF e st)
          = (fun r => (r.1, Flow.normal)) <$> Crash.DQ.pushF fuse st.s e.1 e.2) →
      frame0 (forListF bodyF xs.toList st0) = (fun s' => (s', Val.unit)) <$> Crash.DQ.pushAllF fuse xs.toList s := by
    intro st0 bodyF h0 hbody
    refine frame0_of_toCR _ _ ?_
    have := forListF_pushAllF (n + 1) 6 bodyF (Crash.DQ.pushF fuse) (Crash.DQ.pushAllF fuse)
      (dq_pushF_post_grow fuse) (fun _ => rfl) (fun _ _ _ => rfl) hbody xs.toList st0
      (by rw [h0]; simp only [Array.length_toList]; omega)
    rw [this, h0]
  srcF_eval [esF_forEntries]
  simp only [ne_eq, Nat.succ_ne_zero, not_false_eq_true, not_true_eq_false, decide_true, decide_false, ↓reduceIte,
    Bool.false_eq_true, Nat.one_ne_zero]
  have hbody : ∀ (e : Item × P) (st : St P), n + 1 ≥ st.s.size + st.s.heap.size + 6 →
      toCR fill0 (fun st' => st'.s)
        (fromCall ({ s := st.s, n := st.n, p := upd st.p 5 (some e.snd), v := upd st.v 4 (some (Val.item e.fst)) } : St P)
            none
            (callWithF (execF prog unwind fuse false (n + 1)) (exec prog (n + 1)) prog unwind FnId.dqPush st.s [] [e.snd]
              [Val.item e.fst]) >>= fun c =>
          pure (({ s := c.fst, n := st.n, p := upd st.p 5 (some e.snd), v := upd (upd st.v 4 (some (Val.item e.fst))) 6 (some c.snd) } : St P), (Flow.normal : Flow P)))
        = (fun r => (r.1, Flow.normal)) <$> Crash.DQ.pushF fuse st.s e.1 e.2 := by
    intro e st hb
    srcF_cr
    rw [call_dqPushF _ _ _ _ _ hb]
    srcF_cr
  by_cases hlo : lo = 0
  · subst hlo
    have hr0 : (reserveC 0 : R Unit) = pure () := by unfold reserveC capLimit; rfl
    simp only [↓reduceIte, hr0, pure_bind, Bool.false_eq_true, decide_false, decide_true, not_true_eq_false, liftR_pure]
    exact loop _ _ rfl hbody
  · simp only [hlo, ↓reduceIte, not_false_eq_true, decide_true]
    rw [frame0_liftF_bind]
    refine liftR_bind_congr_ok fun _ _ => ?_
    by_cases hb : Arith.betterToRebuild s.size lo = true
    · simp only [hb, ↓reduceIte]
      srcF_cr [call_storeExtend]
      rw [call_dqHeapBuildF _ _ _ (by omega)]
      srcF_cr
    · simp only [hb, ↓reduceIte, Bool.false_eq_true]
      exact loop _ _ rfl hbody
end PQ.SrcEquivF
