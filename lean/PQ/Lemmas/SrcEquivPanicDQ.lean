import PQ.Lemmas.SrcEquivPanicPQ
set_option linter.unusedSimpArgs false
set_option linter.unusedSectionVars false
/-! # Unwinding tie, part 3: `DoublePriorityQueue` -/
namespace PQ.SrcEquivF
open PQ PQ.Src PQ.SrcGen PQ.SrcF PQ.Crash PQ.SrcEquiv
variable {P : Type} [LT P] [DecidableLT P]

section
variable (fuse : Nat) (dropFuse : Bool) (plain : Stmt → St P → R (St P × Flow P)) (callf : CallF P)
  (recF : Stmt → St P → CF P (St P × Flow P)) (callfF : CallFF P) (byRef : FnId → Bool) (st : St P)
theorem esF_firstMinBy (v : Var) (siteP siteU : Nat) (cands : List NExpr) :
    execStepF fuse dropFuse plain callf recF callfF byRef (.firstMinBy v siteP siteU cands) st =
      (liftF (evalNs st cands) >>= fun cs => liftF (candList st.s siteP cs) >>= fun l =>
        match l with
        | [] => liftF (unwrapO (none : Option (Nat × P)) siteU >>= fun _ => pure (st, Flow.normal))
        | x :: xs => SrcF.minFoldF fuse st xs st.s x >>= fun r => pure ((st.setS r.1).setN v r.2.1, Flow.normal)) := rfl
theorem esF_lastMaxBy (v : Var) (siteP siteU : Nat) (cands : List NExpr) :
    execStepF fuse dropFuse plain callf recF callfF byRef (.lastMaxBy v siteP siteU cands) st =
      (liftF (evalNs st cands) >>= fun cs => liftF (candList st.s siteP cs) >>= fun l =>
        match l with
        | [] => liftF (unwrapO (none : Option (Nat × P)) siteU >>= fun _ => pure (st, Flow.normal))
        | x :: xs => SrcF.maxFoldF fuse st xs st.s x >>= fun r => pure ((st.setS r.1).setN v r.2.1, Flow.normal)) := rfl
theorem esF_lastMaxByPos (v : Var) (siteU : Nat) (cands : List NExpr) :
    execStepF fuse dropFuse plain callf recF callfF byRef (.lastMaxByPos v siteU cands) st =
      (liftF (evalNs st cands) >>= fun cs => liftF (keysByPrioAt callf st.s cs) >>= fun sl =>
        match sl.2 with
        | [] => liftF (unwrapO (none : Option (Nat × P)) siteU >>= fun _ => pure (st, Flow.normal))
        | x :: xs => SrcF.maxFoldF fuse st xs sl.1 x >>= fun r => pure ((st.setS r.1).setN v r.2.1, Flow.normal)) := rfl
end

/-- the folds of the fused interpreter are the folds of the crash model (no guard: the crash store is the store as it is) -/
theorem toCR_minFoldF_bind {β : Type} (proj : St P → β) (fuse : Nat) (st : St P) :
    ∀ (l : List (Nat × P)) (s : Store P) (acc : Nat × P) (k : Store P × (Nat × P) → CF P (St P × Flow P)),
    toCR fill0 proj (SrcF.minFoldF fuse st l s acc >>= k)
      = Crash.DQ.minFoldF fuse l s acc >>= fun r => toCR fill0 proj (k r) := by
  intro l
  induction l with
  | nil => intro s acc k; rfl
  | cons y ys ih =>
    intro s acc k
    rw [SrcF.minFoldF, Crash.DQ.minFoldF, bind_assoc, toCR_fill0_cmpAt_bind, bind_assoc, cmpF_bind]
    simp only [St.setS]
    by_cases hfz : s.ticks + 1 = fuse
    · simp only [hfz, ↓reduceIte]
    · simp only [hfz, ↓reduceIte]
      exact ih _ _ _

theorem toCR_maxFoldF_bind {β : Type} (proj : St P → β) (fuse : Nat) (st : St P) :
    ∀ (l : List (Nat × P)) (s : Store P) (acc : Nat × P) (k : Store P × (Nat × P) → CF P (St P × Flow P)),
    toCR fill0 proj (SrcF.maxFoldF fuse st l s acc >>= k)
      = Crash.DQ.maxFoldF fuse l s acc >>= fun r => toCR fill0 proj (k r) := by
  intro l
  induction l with
  | nil => intro s acc k; rfl
  | cons y ys ih =>
    intro s acc k
    rw [SrcF.maxFoldF, Crash.DQ.maxFoldF, bind_assoc, toCR_fill0_cmpAt_bind, bind_assoc, cmpF_bind]
    simp only [St.setS]
    by_cases hfz : s.ticks + 1 = fuse
    · simp only [hfz, ↓reduceIte]
    · simp only [hfz, ↓reduceIte]
      exact ih _ _ _

theorem frame0_maxFoldF_bind (fuse : Nat) (st : St P) :
    ∀ (l : List (Nat × P)) (s : Store P) (acc : Nat × P) (k : Store P × (Nat × P) → CF P (St P × Flow P)),
    frame0 (SrcF.maxFoldF fuse st l s acc >>= k)
      = Crash.DQ.maxFoldF fuse l s acc >>= fun r => frame0 (k r) := by
  intro l
  induction l with
  | nil => intro s acc k; rfl
  | cons y ys ih =>
    intro s acc k
    rw [SrcF.maxFoldF, Crash.DQ.maxFoldF, bind_assoc, frame0_cmpAt_bind, bind_assoc, cmpF_bind]
    simp only [St.setS]
    by_cases hfz : s.ticks + 1 = fuse
    · simp only [hfz, ↓reduceIte]
    · simp only [hfz, ↓reduceIte]
      exact ih _ _ _

/-- composition when the sub-computation ends `normal` or `brk` (a loop body) -/
theorem toCR_bindB_of {β γ : Type} (fill : St P → R (Store P)) (projB : St P → β) (proj : St P → γ)
    (x : CF P (St P × Flow P)) (y : CR P (β × Bool))
    (hxy : toCR fill projB x = (fun b => (b.1, if b.2 then Flow.normal else Flow.brk)) <$> y)
    (k : St P × Flow P → CF P (St P × Flow P)) (K : β × Bool → CR P (γ × Flow P))
    (hk1 : ∀ st', x = .ok (st', .normal) → toCR fill proj (k (st', .normal)) = K (projB st', true))
    (hk2 : ∀ st', x = .ok (st', .brk) → toCR fill proj (k (st', .brk)) = K (projB st', false)) :
    toCR fill proj (x >>= k) = y >>= K := by
  cases x with
  | ok r =>
    obtain ⟨st', fl⟩ := r
    cases y with
    | error e => simp [toCR, Functor.map, Except.map] at hxy
    | ok b =>
      obtain ⟨b1, b2⟩ := b
      simp only [toCR, Functor.map, Except.map, Except.ok.injEq, Prod.mk.injEq] at hxy
      obtain ⟨h1, h2⟩ := hxy
      subst h1
      cases b2 with
      | true => simp only [↓reduceIte] at h2; subst h2; exact hk1 st' rfl
      | false => simp only [Bool.false_eq_true, ↓reduceIte] at h2; subst h2; exact hk2 st' rfl
  | error e =>
    cases e with
    | fault f =>
      cases y with
      | ok b => simp [toCR, Functor.map, Except.map] at hxy
      | error ey =>
        simp only [toCR, Functor.map, Except.map, Except.error.injEq] at hxy
        subst hxy; rfl
    | panic stp =>
      simp only [toCR] at hxy
      show (match fill stp with
        | .ok s' => (.error (.crashed s') : CR P (γ × Flow P))
        | .error f => .error (.fault f)) = y >>= K
      cases hf : fill stp with
      | ok s' =>
        rw [hf] at hxy
        cases y with
        | ok b => simp [Functor.map, Except.map] at hxy
        | error ey =>
          simp only [Functor.map, Except.map, Except.error.injEq] at hxy
          subst hxy; rfl
      | error f =>
        rw [hf] at hxy
        cases y with
        | ok b => simp [Functor.map, Except.map] at hxy
        | error ey =>
          simp only [Functor.map, Except.map, Except.error.injEq] at hxy
          subst hxy; rfl

/-! ## `DoublePriorityQueue::heapify_min` -/

/-- one iteration of the loop of `heapify_min` in the crash model's terms -/
def dDownMinF (fuse : Nat) (s : Store P) (i : Nat) : CR P ((Store P × Nat) × Bool) := do
  let cs ← liftR (DQ.candidates s i)
  let (s, c) ← Crash.DQ.minByKeyF fuse s cs
  let c ← liftR (unwrapO c 304)
  let c := c.1
  let pc ← liftR (s.prioAt c)
  let pm ← liftR (s.prioAt i)
  let (s, lt) ← cmpF fuse s pc pm
  if lt then do
    let s ← liftR (s.swap c i)
    if c > Arith.right i then do
      let p ← liftR (DQ.parentC c 305)
      let pc ← liftR (s.prioAt c)
      let pp ← liftR (s.prioAt p)
      let (s, lt) ← cmpF fuse s pp pc
      let s ← if lt then liftR (s.swap c p) else pure s
      pure ((s, c), true)
    else pure ((s, c), false)
  else pure ((s, c), false)

theorem heapifyMinLoopF_succ (fuse f : Nat) (s : Store P) (i : Nat) :
    Crash.DQ.heapifyMinLoopF fuse (f + 1) s i =
      liftR (dCondMin s i) >>= fun b => if b then
        dDownMinF fuse s i >>= fun r => if r.2 then Crash.DQ.heapifyMinLoopF fuse f r.1.1 r.1.2 else pure r.1.1
      else pure s := by
  simp only [Crash.DQ.heapifyMinLoopF, dCondMin, dDownMinF, bind_assoc, pure_bind, decide_eq_true_eq, liftR_bind, liftR_pure,
    iteC_bind]
  repeat' first
    | rfl
    | (refine bindC_congr_ok fun _ _ => ?_)
    | split
    | (simp only [bind_assoc, pure_bind, iteC_bind, ↓reduceIte, Bool.false_eq_true]; done)
    | (simp_all; done)

theorem dqHeapifyMin_loop_bodyF (fuse g : Nat) (recF : Stmt → St P → CF P (St P × Flow P)) (byRef : FnId → Bool) (st : St P) :
    toCR fill0 proj0 (execStepF fuse false (exec prog (g + 2)) (callWith (exec prog (g + 1)) prog) recF
        (callWithF (execF prog unwind fuse false (g + 1)) (exec prog (g + 1)) prog unwind) byRef dqHeapifyMin_loop1_body st)
      = (fun b => (b.1, if b.2 then Flow.normal else Flow.brk)) <$> dDownMinF fuse st.s (st.n 0) := by
  rw [dqHeapifyMin_loop1_body]
  srcF_eval [esF_firstMinBy, call_storePrioAt, candList_eq]
  rw [toCR_liftF_bind]
  simp only [dDownMinF, DQ.candidates, bind_assoc, map_eq_pure_bind]
  refine liftR_bind_congr_ok fun l hl => ?_
  cases l with
  | nil =>
    simp only [Crash.DQ.minByKeyF, bind_assoc, pure_bind]
    simp only [unwrapO]
    simp only [toCR_liftF_bind, liftR_error, errorC_bind]
  | cons x xs =>
    simp only [Crash.DQ.minByKeyF, bind_assoc, pure_bind, toCR_minFoldF_bind]
    refine bindC_congr_ok fun r hr => ?_
    srcF_cr [unwrapO_some, DQ.parentC, proj0, call_storeSwap]
    srcF_close

theorem dqHeapifyMin_loop_condF (fuse : Nat) (callf : CallF P) (st : St P) :
    evalBF fuse callf st dqHeapifyMin_loop1_cond = liftF ((fun b => (st.s, b)) <$> dCondMin st.s (st.n 0)) := by
  rw [← dqHeapifyMin_loop_cond callf st]
  exact evalBF_noCmp fuse callf _ st (by decide)

theorem dqHeapifyMin_loopF (fuse : Nat) (f : Nat) : ∀ (k : Nat) (st : St P), f ≤ k →
    NoFuelC (Crash.DQ.heapifyMinLoopF fuse f st.s (st.n 0)) →
    toCR fill0 (fun st' => st'.s)
        (execF prog unwind fuse false (k + 2) (.while dqHeapifyMin_loop1_cond dqHeapifyMin_loop1_body) st)
      = (fun s' => (s', Flow.normal)) <$> Crash.DQ.heapifyMinLoopF fuse f st.s (st.n 0) := by
  induction f with
  | zero => intro k st _ hne; exact absurd rfl hne
  | succ f ih =>
    intro k st hk hne
    obtain ⟨k, rfl⟩ : ∃ k', k = k' + 1 := ⟨k - 1, by omega⟩
    rw [execF, esF_while, dqHeapifyMin_loop_condF, heapifyMinLoopF_succ] at *
    cases hcnd : dCondMin st.s (st.n 0) with
    | error e => rfl
    | ok b =>
      cases b with
      | false => rfl
      | true =>
        rw [hcnd] at hne
        simp only [map_eq_pure_bind, ok_bind, pure_bind, ↓reduceIte, liftF_ok, okF_bind, liftR_ok, okC_bind, St.setS] at hne ⊢
        have hb := dqHeapifyMin_loop_bodyF fuse (k + 1) (execF prog unwind fuse false (k + 1 + 1)) (fun f => (unwind f).2) st
        rw [bind_assoc]
        refine toCR_bindB_of fill0 proj0 _ _ _ hb _ _ ?_ ?_
        · intro st2 hx
          simp only [pure_bind, ↓reduceIte]
          refine ih k st2 (by omega) ?_
          rw [hx] at hb
          cases hy : dDownMinF fuse st.s (st.n 0) with
          | error e => rw [hy] at hb; cases hb
          | ok b =>
            rw [hy] at hb hne
            obtain ⟨b1, b2⟩ := b
            simp only [toCR, Functor.map, Except.map, Except.ok.injEq, Prod.mk.injEq] at hb
            obtain ⟨h1, h2⟩ := hb
            cases b2 with
            | false => simp at h2
            | true =>
              subst h1
              simpa only [NoFuelC, okC_bind, proj0, ↓reduceIte] using hne
        · intro st2 hx
          simp only [pure_bind, Bool.false_eq_true, ↓reduceIte]
          rfl

theorem minFoldF_post (fuse : Nat) : ∀ (l : List (Nat × P)) (s : Store P) (acc : Nat × P),
    PostC (Crash.DQ.minFoldF fuse l s acc) (fun r => r.1.size = s.size) := by
  intro l
  induction l with
  | nil => intro s acc; exact PostC.pure rfl
  | cons y ys ih =>
    intro s acc
    rw [Crash.DQ.minFoldF]
    refine PostC.cmpF_bind ?_
    intro r hr
    dsimp only at hr
    have := ih _ _ r hr
    simpa only [size_tick] using this

theorem maxFoldF_post (fuse : Nat) : ∀ (l : List (Nat × P)) (s : Store P) (acc : Nat × P),
    PostC (Crash.DQ.maxFoldF fuse l s acc) (fun r => r.1.size = s.size) := by
  intro l
  induction l with
  | nil => intro s acc; exact PostC.pure rfl
  | cons y ys ih =>
    intro s acc
    rw [Crash.DQ.maxFoldF]
    refine PostC.cmpF_bind ?_
    intro r hr
    dsimp only at hr
    have := ih _ _ r hr
    simpa only [size_tick] using this

theorem minFoldF_noFuel (fuse : Nat) : ∀ (l : List (Nat × P)) (s : Store P) (acc : Nat × P),
    NoFuelC (Crash.DQ.minFoldF fuse l s acc) := by
  intro l
  induction l with
  | nil => intro s acc; exact NoFuelC.pure _
  | cons y ys ih =>
    intro s acc
    rw [Crash.DQ.minFoldF]
    exact NoFuelC.cmpF_bind (ih _ _)

theorem maxFoldF_noFuel (fuse : Nat) : ∀ (l : List (Nat × P)) (s : Store P) (acc : Nat × P),
    NoFuelC (Crash.DQ.maxFoldF fuse l s acc) := by
  intro l
  induction l with
  | nil => intro s acc; exact NoFuelC.pure _
  | cons y ys ih =>
    intro s acc
    rw [Crash.DQ.maxFoldF]
    exact NoFuelC.cmpF_bind (ih _ _)

theorem minByKeyF_post (fuse : Nat) (s : Store P) (l : List (Nat × P)) :
    PostC (Crash.DQ.minByKeyF fuse s l) (fun r => r.1.size = s.size) := by
  cases l with
  | nil => exact PostC.pure rfl
  | cons x xs => exact PostC.bind (minFoldF_post fuse xs s x) fun r hr => PostC.pure hr

theorem maxByKeyF_post (fuse : Nat) (s : Store P) (l : List (Nat × P)) :
    PostC (Crash.DQ.maxByKeyF fuse s l) (fun r => r.1.size = s.size) := by
  cases l with
  | nil => exact PostC.pure rfl
  | cons x xs => exact PostC.bind (maxFoldF_post fuse xs s x) fun r hr => PostC.pure hr

theorem minByKeyF_noFuel (fuse : Nat) (s : Store P) (l : List (Nat × P)) : NoFuelC (Crash.DQ.minByKeyF fuse s l) := by
  cases l with
  | nil => exact NoFuelC.pure _
  | cons x xs => exact NoFuelC.bind (minFoldF_noFuel fuse xs s x) fun r hr => NoFuelC.pure _

theorem maxByKeyF_noFuel (fuse : Nat) (s : Store P) (l : List (Nat × P)) : NoFuelC (Crash.DQ.maxByKeyF fuse s l) := by
  cases l with
  | nil => exact NoFuelC.pure _
  | cons x xs => exact NoFuelC.bind (maxFoldF_noFuel fuse xs s x) fun r hr => NoFuelC.pure _

theorem dDownMinF_noFuel (fuse : Nat) (s : Store P) (i : Nat) : NoFuelC (dDownMinF fuse s i) := by
  unfold dDownMinF DQ.candidates
  refine NoFuelC.bind (NoFuelC.liftR (candidates_go_noFuel _ _)) fun cs _ => ?_
  refine NoFuelC.bind (minByKeyF_noFuel _ _ _) fun r _ => ?_
  refine NoFuelC.bind (NoFuelC.liftR (NoFuel.unwrapO _ _)) fun c _ => ?_
  refine NoFuelC.bind (NoFuelC.liftR (NoFuel.prioAt _ _)) fun _ _ => ?_
  refine NoFuelC.bind (NoFuelC.liftR (NoFuel.prioAt _ _)) fun _ _ => NoFuelC.cmpF_bind ?_
  refine NoFuelC.ite (fun _ => ?_) (fun _ => NoFuelC.pure _)
  refine NoFuelC.bind (NoFuelC.liftR (NoFuel.swap _ _ _)) fun _ _ => NoFuelC.ite (fun _ => ?_) (fun _ => NoFuelC.pure _)
  refine NoFuelC.bind (NoFuelC.liftR (NoFuel.parentC _ _)) fun _ _ => ?_
  refine NoFuelC.bind (NoFuelC.liftR (NoFuel.prioAt _ _)) fun _ _ => ?_
  refine NoFuelC.bind (NoFuelC.liftR (NoFuel.prioAt _ _)) fun _ _ => NoFuelC.cmpF_bind ?_
  dsimp only
  exact NoFuelC.ite (fun _ => NoFuelC.bind (NoFuelC.liftR (NoFuel.swap _ _ _)) fun _ _ => NoFuelC.pure _)
    (fun _ => NoFuelC.bind (NoFuelC.pure _) fun _ _ => NoFuelC.pure _)

theorem dDownMinF_post (fuse : Nat) (s : Store P) (i : Nat) :
    PostC (dDownMinF fuse s i) (fun r => r.1.1.size = s.size ∧ (r.2 = true → r.1.2 > i)) := by
  unfold dDownMinF
  refine PostC.bind (PostC.triv _) fun cs _ => PostC.bind (minByKeyF_post fuse s cs) fun r hr => ?_
  refine PostC.bind (PostC.triv _) fun c _ => PostC.bind (PostC.triv _) fun pc _ =>
    PostC.bind (PostC.triv _) fun pm _ => PostC.cmpF_bind ?_
  refine PostC.ite (fun _ => ?_) (fun _ => PostC.pure ⟨by simpa using hr, by simp⟩)
  refine PostC.bind (PostC.liftR (swap_post _ _ _)) fun s1 h1 => PostC.ite (fun hgt => ?_)
    (fun _ => PostC.pure ⟨by simp only [size_tick] at h1; rw [h1, hr], by simp⟩)
  refine PostC.bind (PostC.triv _) fun p _ => PostC.bind (PostC.triv _) fun _ _ => PostC.bind (PostC.triv _) fun _ _ =>
    PostC.cmpF_bind ?_
  have hgt' : c.1 > i := by simp only [Arith.right] at hgt; omega
  simp only [size_tick] at h1
  dsimp only
  refine PostC.ite (fun _ => PostC.bind (PostC.liftR (swap_post _ _ _)) fun s2 h2 => PostC.pure ⟨?_, fun _ => hgt'⟩)
    (fun _ => PostC.bind (PostC.pure (Q := fun (s2 : Store P) => s2.size = s.size) ?_) fun s2 h2 =>
      PostC.pure ⟨h2, fun _ => hgt'⟩)
  · simp only [size_tick] at h2
    rw [h2, h1, hr]
  · simp only [size_tick]; rw [h1, hr]

theorem heapifyMinLoopF_noFuel (fuse : Nat) (f : Nat) : ∀ (s : Store P) (i : Nat), 1 ≤ f → s.size ≤ f + i →
    NoFuelC (Crash.DQ.heapifyMinLoopF fuse f s i) := by
  induction f with
  | zero => intro s i h; omega
  | succ f ih =>
    intro s i _ hsz
    rw [heapifyMinLoopF_succ]
    refine NoFuelC.bind (NoFuelC.liftR (dCondMin_noFuel s i)) fun b hb => NoFuelC.ite (fun hbt => ?_) (fun _ => NoFuelC.pure _)
    have hlt := dCondMin_post s i b (by cases hx : dCondMin s i <;> simp_all [liftR]) hbt
    refine NoFuelC.bind (dDownMinF_noFuel fuse s i) fun r hr => NoFuelC.ite (fun hr2 => ?_) (fun _ => NoFuelC.pure _)
    have hp := dDownMinF_post fuse s i r hr
    refine ih _ _ (by omega) ?_
    have := hp.2 hr2
    omega

/-- `DoublePriorityQueue::heapify_min` under a panicking comparison = the loop `Crash.DQ.heapifyMinLoopF` -/
theorem dqHeapifyMinF (fuse : Nat) (s : Store P) (i : Nat) (fuel : Nat) (hs : 1 ≤ s.size) (h : fuel ≥ s.size + 2) :
    runF prog unwind fuse false fuel .dqHeapifyMin s [i]
      = (fun s' => (s', Val.unit)) <$> Crash.DQ.heapifyMinLoopF fuse s.size s i := by
  obtain ⟨k, rfl⟩ : ∃ k, fuel = k + 2 := ⟨fuel - 2, by omega⟩
  rw [runF_frame0 prog unwind fuse false (k + 1) .dqHeapifyMin _ s _ _ _ rfl rfl]
  refine frame0_of_toCR _ _ ?_
  exact dqHeapifyMin_loopF fuse s.size k _ (by omega) (heapifyMinLoopF_noFuel fuse s.size s i hs (by omega))

/-! ## `DoublePriorityQueue::heapify_max` -/

/-- one iteration of the loop of `heapify_max` in the crash model's terms -/
def dDownMaxF (fuse : Nat) (s : Store P) (i : Nat) : CR P ((Store P × Nat) × Bool) := do
  let cs ← liftR (DQ.candidates s i)
  let (s, c) ← Crash.DQ.maxByKeyF fuse s cs
  let c ← liftR (unwrapO c 308)
  let c := c.1
  let pc ← liftR (s.prioAt c)
  let pm ← liftR (s.prioAt i)
  let (s, lt) ← cmpF fuse s pm pc
  if lt then do
    let s ← liftR (s.swap c i)
    if c > Arith.right i then do
      let p ← liftR (DQ.parentC c 309)
      let pc ← liftR (s.prioAt c)
      let pp ← liftR (s.prioAt p)
      let (s, lt) ← cmpF fuse s pc pp
      let s ← if lt then liftR (s.swap c p) else pure s
      pure ((s, c), true)
    else pure ((s, c), false)
  else pure ((s, c), false)

theorem heapifyMaxLoopF_succ (fuse f : Nat) (s : Store P) (i : Nat) :
    Crash.DQ.heapifyMaxLoopF fuse (f + 1) s i =
      liftR (dCondMax s i) >>= fun b => if b then
        dDownMaxF fuse s i >>= fun r => if r.2 then Crash.DQ.heapifyMaxLoopF fuse f r.1.1 r.1.2 else pure r.1.1
      else pure s := by
  simp only [Crash.DQ.heapifyMaxLoopF, dCondMax, dDownMaxF, bind_assoc, pure_bind, decide_eq_true_eq, liftR_bind, liftR_pure,
    iteC_bind]
  repeat' first
    | rfl
    | (refine bindC_congr_ok fun _ _ => ?_)
    | split
    | (simp only [bind_assoc, pure_bind, iteC_bind, ↓reduceIte, Bool.false_eq_true]; done)
    | (simp_all; done)

theorem dqHeapifyMax_loop_bodyF (fuse g : Nat) (recF : Stmt → St P → CF P (St P × Flow P)) (byRef : FnId → Bool) (st : St P) :
    toCR fill0 proj0 (execStepF fuse false (exec prog (g + 2)) (callWith (exec prog (g + 1)) prog) recF
        (callWithF (execF prog unwind fuse false (g + 1)) (exec prog (g + 1)) prog unwind) byRef dqHeapifyMax_loop1_body st)
      = (fun b => (b.1, if b.2 then Flow.normal else Flow.brk)) <$> dDownMaxF fuse st.s (st.n 0) := by
  rw [dqHeapifyMax_loop1_body]
  srcF_eval [esF_lastMaxBy, call_storePrioAt, candList_eq]
  rw [toCR_liftF_bind]
  simp only [dDownMaxF, DQ.candidates, bind_assoc, map_eq_pure_bind]
  refine liftR_bind_congr_ok fun l hl => ?_
  cases l with
  | nil =>
    simp only [Crash.DQ.maxByKeyF, bind_assoc, pure_bind]
    simp only [unwrapO]
    simp only [toCR_liftF_bind, liftR_error, errorC_bind]
  | cons x xs =>
    simp only [Crash.DQ.maxByKeyF, bind_assoc, pure_bind, toCR_maxFoldF_bind]
    refine bindC_congr_ok fun r hr => ?_
    srcF_cr [unwrapO_some, DQ.parentC, proj0, call_storeSwap]
    srcF_close

theorem dqHeapifyMax_loop_condF (fuse : Nat) (callf : CallF P) (st : St P) :
    evalBF fuse callf st dqHeapifyMax_loop1_cond = liftF ((fun b => (st.s, b)) <$> dCondMax st.s (st.n 0)) := by
  rw [← dqHeapifyMax_loop_cond callf st]
  exact evalBF_noCmp fuse callf _ st (by decide)

theorem dqHeapifyMax_loopF (fuse : Nat) (f : Nat) : ∀ (k : Nat) (st : St P), f ≤ k →
    NoFuelC (Crash.DQ.heapifyMaxLoopF fuse f st.s (st.n 0)) →
    toCR fill0 (fun st' => st'.s)
        (execF prog unwind fuse false (k + 2) (.while dqHeapifyMax_loop1_cond dqHeapifyMax_loop1_body) st)
      = (fun s' => (s', Flow.normal)) <$> Crash.DQ.heapifyMaxLoopF fuse f st.s (st.n 0) := by
  induction f with
  | zero => intro k st _ hne; exact absurd rfl hne
  | succ f ih =>
    intro k st hk hne
    obtain ⟨k, rfl⟩ : ∃ k', k = k' + 1 := ⟨k - 1, by omega⟩
    rw [execF, esF_while, dqHeapifyMax_loop_condF, heapifyMaxLoopF_succ] at *
    cases hcnd : dCondMax st.s (st.n 0) with
    | error e => rfl
    | ok b =>
      cases b with
      | false => rfl
      | true =>
        rw [hcnd] at hne
        simp only [map_eq_pure_bind, ok_bind, pure_bind, ↓reduceIte, liftF_ok, okF_bind, liftR_ok, okC_bind, St.setS] at hne ⊢
        have hb := dqHeapifyMax_loop_bodyF fuse (k + 1) (execF prog unwind fuse false (k + 1 + 1)) (fun f => (unwind f).2) st
        rw [bind_assoc]
        refine toCR_bindB_of fill0 proj0 _ _ _ hb _ _ ?_ ?_
        · intro st2 hx
          simp only [pure_bind, ↓reduceIte]
          refine ih k st2 (by omega) ?_
          rw [hx] at hb
          cases hy : dDownMaxF fuse st.s (st.n 0) with
          | error e => rw [hy] at hb; cases hb
          | ok b =>
            rw [hy] at hb hne
            obtain ⟨b1, b2⟩ := b
            simp only [toCR, Functor.map, Except.map, Except.ok.injEq, Prod.mk.injEq] at hb
            obtain ⟨h1, h2⟩ := hb
            cases b2 with
            | false => simp at h2
            | true =>
              subst h1
              simpa only [NoFuelC, okC_bind, proj0, ↓reduceIte] using hne
        · intro st2 hx
          simp only [pure_bind, Bool.false_eq_true, ↓reduceIte]
          rfl

theorem dDownMaxF_noFuel (fuse : Nat) (s : Store P) (i : Nat) : NoFuelC (dDownMaxF fuse s i) := by
  unfold dDownMaxF DQ.candidates
  refine NoFuelC.bind (NoFuelC.liftR (candidates_go_noFuel _ _)) fun cs _ => ?_
  refine NoFuelC.bind (maxByKeyF_noFuel _ _ _) fun r _ => ?_
  refine NoFuelC.bind (NoFuelC.liftR (NoFuel.unwrapO _ _)) fun c _ => ?_
  refine NoFuelC.bind (NoFuelC.liftR (NoFuel.prioAt _ _)) fun _ _ => ?_
  refine NoFuelC.bind (NoFuelC.liftR (NoFuel.prioAt _ _)) fun _ _ => NoFuelC.cmpF_bind ?_
  refine NoFuelC.ite (fun _ => ?_) (fun _ => NoFuelC.pure _)
  refine NoFuelC.bind (NoFuelC.liftR (NoFuel.swap _ _ _)) fun _ _ => NoFuelC.ite (fun _ => ?_) (fun _ => NoFuelC.pure _)
  refine NoFuelC.bind (NoFuelC.liftR (NoFuel.parentC _ _)) fun _ _ => ?_
  refine NoFuelC.bind (NoFuelC.liftR (NoFuel.prioAt _ _)) fun _ _ => ?_
  refine NoFuelC.bind (NoFuelC.liftR (NoFuel.prioAt _ _)) fun _ _ => NoFuelC.cmpF_bind ?_
  dsimp only
  exact NoFuelC.ite (fun _ => NoFuelC.bind (NoFuelC.liftR (NoFuel.swap _ _ _)) fun _ _ => NoFuelC.pure _)
    (fun _ => NoFuelC.bind (NoFuelC.pure _) fun _ _ => NoFuelC.pure _)

theorem dDownMaxF_post (fuse : Nat) (s : Store P) (i : Nat) :
    PostC (dDownMaxF fuse s i) (fun r => r.1.1.size = s.size ∧ (r.2 = true → r.1.2 > i)) := by
  unfold dDownMaxF
  refine PostC.bind (PostC.triv _) fun cs _ => PostC.bind (maxByKeyF_post fuse s cs) fun r hr => ?_
  refine PostC.bind (PostC.triv _) fun c _ => PostC.bind (PostC.triv _) fun pc _ =>
    PostC.bind (PostC.triv _) fun pm _ => PostC.cmpF_bind ?_
  refine PostC.ite (fun _ => ?_) (fun _ => PostC.pure ⟨by simpa using hr, by simp⟩)
  refine PostC.bind (PostC.liftR (swap_post _ _ _)) fun s1 h1 => PostC.ite (fun hgt => ?_)
    (fun _ => PostC.pure ⟨by simp only [size_tick] at h1; rw [h1, hr], by simp⟩)
  refine PostC.bind (PostC.triv _) fun p _ => PostC.bind (PostC.triv _) fun _ _ => PostC.bind (PostC.triv _) fun _ _ =>
    PostC.cmpF_bind ?_
  have hgt' : c.1 > i := by simp only [Arith.right] at hgt; omega
  simp only [size_tick] at h1
  dsimp only
  refine PostC.ite (fun _ => PostC.bind (PostC.liftR (swap_post _ _ _)) fun s2 h2 => PostC.pure ⟨?_, fun _ => hgt'⟩)
    (fun _ => PostC.bind (PostC.pure (Q := fun (s2 : Store P) => s2.size = s.size) ?_) fun s2 h2 =>
      PostC.pure ⟨h2, fun _ => hgt'⟩)
  · simp only [size_tick] at h2
    rw [h2, h1, hr]
  · simp only [size_tick]; rw [h1, hr]

theorem heapifyMaxLoopF_noFuel (fuse : Nat) (f : Nat) : ∀ (s : Store P) (i : Nat), 1 ≤ f → s.size ≤ f + i →
    NoFuelC (Crash.DQ.heapifyMaxLoopF fuse f s i) := by
  induction f with
  | zero => intro s i h; omega
  | succ f ih =>
    intro s i _ hsz
    rw [heapifyMaxLoopF_succ]
    refine NoFuelC.bind (NoFuelC.liftR (dCondMax_noFuel s i)) fun b hb => NoFuelC.ite (fun hbt => ?_) (fun _ => NoFuelC.pure _)
    have hlt := dCondMax_post s i b (by cases hx : dCondMax s i <;> simp_all [liftR]) hbt
    refine NoFuelC.bind (dDownMaxF_noFuel fuse s i) fun r hr => NoFuelC.ite (fun hr2 => ?_) (fun _ => NoFuelC.pure _)
    have hp := dDownMaxF_post fuse s i r hr
    refine ih _ _ (by omega) ?_
    have := hp.2 hr2
    omega

/-- `DoublePriorityQueue::heapify_max` under a panicking comparison = the loop `Crash.DQ.heapifyMaxLoopF` -/
theorem dqHeapifyMaxF (fuse : Nat) (s : Store P) (i : Nat) (fuel : Nat) (hs : 1 ≤ s.size) (h : fuel ≥ s.size + 2) :
    runF prog unwind fuse false fuel .dqHeapifyMax s [i]
      = (fun s' => (s', Val.unit)) <$> Crash.DQ.heapifyMaxLoopF fuse s.size s i := by
  obtain ⟨k, rfl⟩ : ∃ k, fuel = k + 2 := ⟨fuel - 2, by omega⟩
  rw [runF_frame0 prog unwind fuse false (k + 1) .dqHeapifyMax _ s _ _ _ rfl rfl]
  refine frame0_of_toCR _ _ ?_
  exact dqHeapifyMax_loopF fuse s.size k _ (by omega) (heapifyMaxLoopF_noFuel fuse s.size s i hs (by omega))

/-! ## `heapify`, `up_heapify`, `heap_build`, `find_max` -/

theorem call_dqHeapifyMinF (fuse : Nat) (s : Store P) (i n : Nat) (hs : 1 ≤ s.size) (h : n ≥ s.size + 2) :
    toCRcall (callWithF (execF prog unwind fuse false n) (exec prog n) prog unwind .dqHeapifyMin s [i] [] [])
      = (fun s' => (s', Val.unit)) <$> Crash.DQ.heapifyMinLoopF fuse s.size s i := by
  rw [← runF_eq]; exact dqHeapifyMinF fuse s i n hs h

theorem call_dqHeapifyMaxF (fuse : Nat) (s : Store P) (i n : Nat) (hs : 1 ≤ s.size) (h : n ≥ s.size + 2) :
    toCRcall (callWithF (execF prog unwind fuse false n) (exec prog n) prog unwind .dqHeapifyMax s [i] [] [])
      = (fun s' => (s', Val.unit)) <$> Crash.DQ.heapifyMaxLoopF fuse s.size s i := by
  rw [← runF_eq]; exact dqHeapifyMaxF fuse s i n hs h

/-- `DoublePriorityQueue::heapify` under a panicking comparison = `Crash.DQ.heapifyF` -/
theorem dqHeapifyF (fuse : Nat) (s : Store P) (i : Nat) (fuel : Nat) (h : fuel ≥ s.size + 3) :
    runF prog unwind fuse false fuel .dqHeapify s [i] = (fun s' => (s', Val.unit)) <$> Crash.DQ.heapifyF fuse s i := by
  obtain ⟨k, rfl⟩ : ∃ k, fuel = k + 1 := ⟨fuel - 1, by omega⟩
  rw [runF_frame0 prog unwind fuse false k .dqHeapify _ s _ _ _ rfl rfl]
  unfold Crash.DQ.heapifyF
  rw [execF, dqHeapify_body]
  by_cases hsz : s.size ≤ 1
  · srcF_eval [hsz]
    rfl
  · srcF_eval [hsz]
    srcF_cr [call_dqHeapifyMinF fuse s i k (by omega) (by omega), call_dqHeapifyMaxF fuse s i k (by omega) (by omega), hsz]
    srcF_close

theorem call_dqHeapifyF (fuse : Nat) (s : Store P) (i n : Nat) (h : n ≥ s.size + 3) :
    toCRcall (callWithF (execF prog unwind fuse false n) (exec prog n) prog unwind .dqHeapify s [i] [] [])
      = (fun s' => (s', Val.unit)) <$> Crash.DQ.heapifyF fuse s i := by
  rw [← runF_eq]; exact dqHeapifyF fuse s i n h

theorem call_dqBubbleUpF (fuse : Nat) (s : Store P) (pos mp n : Nat) (h : n ≥ pos + 3) :
    toCRcall (callWithF (execF prog unwind fuse false n) (exec prog n) prog unwind .dqBubbleUp s [pos, mp] [] [])
      = (fun r => (r.1, Val.nat r.2)) <$> Crash.DQ.bubbleUpF fuse s pos mp := by
  rw [← runF_eq]; exact dqBubbleUpF fuse s pos mp n h

theorem dq_heapifyMinLoopF_post_size (fuse : Nat) (f : Nat) : ∀ (s : Store P) (i : Nat),
    PostC (Crash.DQ.heapifyMinLoopF fuse f s i) (fun s' => s'.size = s.size) := by
  induction f with
  | zero => intro s i r hr; cases hr
  | succ f ih =>
    intro s i
    rw [heapifyMinLoopF_succ]
    refine PostC.bind (PostC.triv _) fun b _ => PostC.ite (fun _ => ?_) (fun _ => PostC.pure rfl)
    refine PostC.bind (dDownMinF_post fuse s i) fun r hr => PostC.ite (fun _ => ?_) (fun _ => PostC.pure hr.1)
    intro s' hs'
    rw [ih _ _ s' hs', hr.1]

theorem dq_heapifyMaxLoopF_post_size (fuse : Nat) (f : Nat) : ∀ (s : Store P) (i : Nat),
    PostC (Crash.DQ.heapifyMaxLoopF fuse f s i) (fun s' => s'.size = s.size) := by
  induction f with
  | zero => intro s i r hr; cases hr
  | succ f ih =>
    intro s i
    rw [heapifyMaxLoopF_succ]
    refine PostC.bind (PostC.triv _) fun b _ => PostC.ite (fun _ => ?_) (fun _ => PostC.pure rfl)
    refine PostC.bind (dDownMaxF_post fuse s i) fun r hr => PostC.ite (fun _ => ?_) (fun _ => PostC.pure hr.1)
    intro s' hs'
    rw [ih _ _ s' hs', hr.1]

theorem dq_heapifyF_post_size (fuse : Nat) (s : Store P) (i : Nat) :
    PostC (Crash.DQ.heapifyF fuse s i) (fun s' => s'.size = s.size) := by
  unfold Crash.DQ.heapifyF
  exact PostC.ite (fun _ => PostC.pure rfl) fun _ =>
    PostC.ite (fun _ => dq_heapifyMinLoopF_post_size _ _ _ _) (fun _ => dq_heapifyMaxLoopF_post_size _ _ _ _)

theorem bubbleUpMinLoopF_post_size (fuse mp : Nat) (f : Nat) : ∀ (s : Store P) (pos : Nat) (prio : P),
    PostC (Crash.DQ.bubbleUpMinLoopF fuse mp f s pos prio) (fun r => r.1.size = s.size) := by
  induction f with
  | zero => intro s pos prio r hr; cases hr
  | succ f ih =>
    intro s pos prio
    rw [Crash.DQ.bubbleUpMinLoopF]
    refine PostC.ite (fun _ => ?_) (fun _ => PostC.pure rfl)
    refine PostC.bind (PostC.triv _) fun pp _ => PostC.cmpHoleF_bind ?_
    refine PostC.ite (fun _ => ?_) (fun _ => PostC.pure rfl)
    refine PostC.bind (PostC.triv _) fun _ _ => PostC.bind (PostC.triv _) fun _ _ => PostC.bind (PostC.triv _) fun _ _ => ?_
    intro r hr
    rw [ih _ _ _ r hr]; rfl

theorem bubbleUpMaxLoopF_post_size (fuse mp : Nat) (f : Nat) : ∀ (s : Store P) (pos : Nat) (prio : P),
    PostC (Crash.DQ.bubbleUpMaxLoopF fuse mp f s pos prio) (fun r => r.1.size = s.size) := by
  induction f with
  | zero => intro s pos prio r hr; cases hr
  | succ f ih =>
    intro s pos prio
    rw [Crash.DQ.bubbleUpMaxLoopF]
    refine PostC.ite (fun _ => ?_) (fun _ => PostC.pure rfl)
    refine PostC.bind (PostC.triv _) fun pp _ => PostC.cmpHoleF_bind ?_
    refine PostC.ite (fun _ => ?_) (fun _ => PostC.pure rfl)
    refine PostC.bind (PostC.triv _) fun _ _ => PostC.bind (PostC.triv _) fun _ _ => PostC.bind (PostC.triv _) fun _ _ => ?_
    intro r hr
    rw [ih _ _ _ r hr]; rfl

theorem bubbleUpMinF_post_size (fuse : Nat) (s : Store P) (pos mp : Nat) :
    PostC (Crash.DQ.bubbleUpMinF fuse s pos mp) (fun r => r.1.size = s.size) := by
  unfold Crash.DQ.bubbleUpMinF
  exact PostC.bind (PostC.triv _) fun e _ => bubbleUpMinLoopF_post_size _ _ _ _ _ _

theorem bubbleUpMaxF_post_size (fuse : Nat) (s : Store P) (pos mp : Nat) :
    PostC (Crash.DQ.bubbleUpMaxF fuse s pos mp) (fun r => r.1.size = s.size) := by
  unfold Crash.DQ.bubbleUpMaxF
  exact PostC.bind (PostC.triv _) fun e _ => bubbleUpMaxLoopF_post_size _ _ _ _ _ _

theorem dq_bubbleUpF_post_size (fuse : Nat) (s : Store P) (pos mp : Nat) :
    PostC (Crash.DQ.bubbleUpF fuse s pos mp) (fun r => r.1.size = s.size) := by
  unfold Crash.DQ.bubbleUpF
  refine PostC.bind (PostC.triv _) fun e _ => ?_
  dsimp only
  have tail : ∀ (x : Store P × Nat), x.1.size = s.size →
      PostC (do
        let heap ← liftR (setU x.1.heap x.2 mp 316)
        let qp ← liftR (setU x.1.qp mp x.2 317)
        pure (({ x.1 with heap := heap, qp := qp } : Store P), x.2) : CR P (Store P × Nat))
        (fun r => r.1.size = s.size) :=
    fun x hx => PostC.bind (PostC.triv _) fun _ _ => PostC.bind (PostC.triv _) fun _ _ => PostC.pure hx
  refine PostC.ite (fun _ => ?_)
    (fun _ => PostC.bind (PostC.pure (Q := fun (x : Store P × Nat) => x.1.size = s.size) rfl) fun x hx => tail x hx)
  refine PostC.bind (PostC.triv _) fun pp _ => PostC.bind (PostC.triv _) fun pi _ => PostC.cmpHoleF_bind ?_
  dsimp only
  split
  · exact PostC.bind (PostC.triv _) fun _ _ => PostC.bind (PostC.triv _) fun _ _ =>
      PostC.bind (bubbleUpMaxF_post_size _ _ _ _) fun x hx => tail x (by simpa using hx)
  · exact PostC.bind (bubbleUpMinF_post_size _ _ _ _) fun x hx => tail x (by simpa using hx)
  · exact PostC.bind (bubbleUpMaxF_post_size _ _ _ _) fun x hx => tail x (by simpa using hx)
  · exact PostC.bind (PostC.triv _) fun _ _ => PostC.bind (PostC.triv _) fun _ _ =>
      PostC.bind (bubbleUpMinF_post_size _ _ _ _) fun x hx => tail x (by simpa using hx)

/-- `DoublePriorityQueue::up_heapify` under a panicking comparison = `Crash.DQ.upHeapifyF` -/
theorem dqUpHeapifyF (fuse : Nat) (s : Store P) (i : Nat) (fuel : Nat) (h : fuel ≥ s.size + min i s.heap.size + 4) :
    runF prog unwind fuse false fuel .dqUpHeapify s [i] = (fun s' => (s', Val.unit)) <$> Crash.DQ.upHeapifyF fuse s i := by
  obtain ⟨k, rfl⟩ : ∃ k, fuel = k + 1 := ⟨fuel - 1, by omega⟩
  rw [runF_frame0 prog unwind fuse false k .dqUpHeapify _ s _ _ _ rfl rfl]
  unfold Crash.DQ.upHeapifyF
  rw [execF, dqUpHeapify_body]
  srcF_eval
  cases hget : s.heap[i]? with
  | none => srcF_eval; rfl
  | some tmp =>
    have hi : i < s.heap.size := getElem?_some_lt hget
    srcF_eval
    srcF_cr
    rw [call_dqBubbleUpF _ _ _ _ _ (by omega)]
    srcF_cr
    refine bindC_congr_ok fun r hr => ?_
    have hsz := dq_bubbleUpF_post_size fuse s i tmp r hr
    by_cases hne : i = r.2
    · simp only [hne, ne_eq, not_true_eq_false, ↓reduceIte, decide_false, Bool.false_eq_true, pure_bind]
      rw [call_dqHeapifyF _ _ _ _ (by simp only at hsz; omega)]
      srcF_cr
    · simp only [hne, ne_eq, not_false_eq_true, ↓reduceIte, decide_true]
      rw [call_dqHeapifyF _ _ _ _ (by simp only at hsz; omega)]
      srcF_cr
      refine bindC_congr_ok fun s2 hs2 => ?_
      have hsz2 := dq_heapifyF_post_size fuse r.1 i s2 hs2
      rw [call_dqHeapifyF _ _ _ _ (by simp only at hsz hsz2; omega)]
      srcF_cr

theorem call_dqUpHeapifyF (fuse : Nat) (s : Store P) (i n : Nat) (h : n ≥ s.size + min i s.heap.size + 4) :
    toCRcall (callWithF (execF prog unwind fuse false n) (exec prog n) prog unwind .dqUpHeapify s [i] [] [])
      = (fun s' => (s', Val.unit)) <$> Crash.DQ.upHeapifyF fuse s i := by
  rw [← runF_eq]; exact dqUpHeapifyF fuse s i n h

/-- `DoublePriorityQueue::heap_build` under a panicking comparison = `Crash.DQ.heapBuildF` -/
theorem dqHeapBuildF (fuse : Nat) (s : Store P) (fuel : Nat) (h : fuel ≥ s.size + 4) :
    runF prog unwind fuse false fuel .dqHeapBuild s [] = (fun s' => (s', Val.unit)) <$> Crash.DQ.heapBuildF fuse s := by
  obtain ⟨k, rfl⟩ : ∃ k, fuel = k + 1 := ⟨fuel - 1, by omega⟩
  rw [runF_frame0 prog unwind fuse false k .dqHeapBuild _ s _ _ _ rfl rfl]
  unfold Crash.DQ.heapBuildF
  rw [execF, dqHeapBuild_body]
  by_cases hsz : s.size = 0
  · srcF_eval [hsz]
    rfl
  · srcF_eval [hsz, DQ.parentC]
    srcF_cr [hsz]
    show _ = (fun s' => (s', Val.unit)) <$> _
    refine frame0_of_toCR (P := P) _ _ (heapBuild_forF (P := P) s.size _ (Crash.DQ.heapifyF fuse)
      (Crash.DQ.heapBuildLoopF fuse) (dq_heapifyF_post_size fuse) ?_ (fun _ => rfl) (fun _ _ => rfl) _ _ rfl)
    intro j st hn
    srcF_eval
    srcF_cr
    rw [call_dqHeapifyF _ _ _ _ (by omega)]
    srcF_cr

/-! ## `find_max`, `peek_max`, `peek_max_mut` -/

theorem size_cases3 (n : Nat) : n = 0 ∨ n = 1 ∨ n = 2 ∨ ∃ m, n = m + 3 := by
  by_cases h0 : n = 0
  · exact Or.inl h0
  by_cases h1 : n = 1
  · exact Or.inr (Or.inl h1)
  by_cases h2 : n = 2
  · exact Or.inr (Or.inr (Or.inl h2))
  exact Or.inr (Or.inr (Or.inr ⟨n - 3, by omega⟩))

theorem findMaxF_many (fuse : Nat) (s : Store P) (n : Nat) (hn : s.size = n + 3) :
    Crash.DQ.findMaxF fuse s = (liftR (s.prioAt 1) >>= fun p1 => liftR (s.prioAt 2) >>= fun p2 =>
      cmpF fuse s p2 p1 >>= fun r => pure (r.1, some (if r.2 then 1 else 2))) := by
  unfold Crash.DQ.findMaxF; rw [hn]; rfl

/-- `DoublePriorityQueue::find_max` under a panicking comparison = `Crash.DQ.findMaxF` (`&self`: the store is unchanged) -/
theorem dqFindMaxF (fuse : Nat) (s : Store P) (fuel : Nat) (h : fuel ≥ 2) :
    runF prog unwind fuse false fuel .dqFindMax s [] = (fun r => (r.1, Val.optNat r.2)) <$> Crash.DQ.findMaxF fuse s := by
  obtain ⟨k, rfl⟩ : ∃ k, fuel = k + 2 := ⟨fuel - 2, by omega⟩
  rw [runF_frame0 prog unwind fuse false (k + 1) .dqFindMax _ s _ _ _ rfl rfl]
  rw [execF, dqFindMax_body]
  obtain h0 | h1 | h2 | ⟨n, hn⟩ := size_cases3 s.size
  · unfold Crash.DQ.findMaxF
    srcF_eval [h0]
    rfl
  · unfold Crash.DQ.findMaxF
    srcF_eval [h1]
    rfl
  · unfold Crash.DQ.findMaxF
    srcF_eval [h2]
    rfl
  · rw [findMaxF_many fuse s n hn]
    srcF_eval [hn, esF_lastMaxByPos, keysByPrioAt, call_storePrioAt]
    srcF_cr
    refine liftR_bind_congr_ok fun p1 _ => liftR_bind_congr_ok fun p2 _ => ?_
    simp only [SrcF.maxFoldF, bind_assoc, pure_bind, St.setS]
    srcF_cr
    srcF_close

theorem call_dqFindMaxF (fuse : Nat) (s : Store P) (n : Nat) (h : n ≥ 2) :
    toCRcall (callWithF (execF prog unwind fuse false n) (exec prog n) prog unwind .dqFindMax s [] [] [])
      = (fun r => (r.1, Val.optNat r.2)) <$> Crash.DQ.findMaxF fuse s := by
  rw [← runF_eq]; exact dqFindMaxF fuse s n h

/-! ## the public operations of `DoublePriorityQueue` -/

theorem findMaxF_post (fuse : Nat) (s : Store P) :
    PostC (Crash.DQ.findMaxF fuse s) (fun r => r.1.size = s.size ∧ ∀ i, r.2 = some i → i ≤ 2) := by
  unfold Crash.DQ.findMaxF
  split
  · exact PostC.pure ⟨rfl, fun i hi => by cases hi⟩
  · exact PostC.pure ⟨rfl, fun i hi => by cases hi; omega⟩
  · exact PostC.pure ⟨rfl, fun i hi => by cases hi; omega⟩
  · refine PostC.bind (PostC.triv _) fun _ _ => PostC.bind (PostC.triv _) fun _ _ => PostC.cmpF_bind
      (PostC.pure ⟨rfl, fun i hi => ?_⟩)
    simp only [Option.some.injEq] at hi
    split at hi <;> omega

/-- `DoublePriorityQueue::peek_max` under a panicking comparison = `Crash.DQ.peekMaxF` -/
theorem dqPeekMaxF (fuse : Nat) (s : Store P) (fuel : Nat) (h : fuel ≥ 3) :
    runF prog unwind fuse false fuel .dqPeekMax s [] = (fun r => (r.1, Val.optEntry r.2)) <$> Crash.DQ.peekMaxF fuse s := by
  obtain ⟨k, rfl⟩ : ∃ k, fuel = k + 3 := ⟨fuel - 3, by omega⟩
  rw [runF_frame0 prog unwind fuse false (k + 2) .dqPeekMax _ s _ _ _ rfl rfl]
  unfold Crash.DQ.peekMaxF
  rw [execF, dqPeekMax_body]
  srcF_eval
  srcF_cr
  rw [call_dqFindMaxF _ _ _ (by omega)]
  srcF_cr
  refine bindC_congr_ok fun fm _ => ?_
  obtain ⟨s1, res⟩ := fm
  cases res with
  | none => srcF_eval; srcF_cr
  | some i => srcF_eval; srcF_cr [DQ.entryAt]

/-- `DoublePriorityQueue::peek_max_mut` followed by the caller's write, under a panicking comparison =
`Crash.DQ.peekMaxMutWriteF` (a panic in `find_max`: the write never happens) -/
theorem dqPeekMaxMutF (fuse : Nat) (s : Store P) (w : Item → Item) (fuel : Nat) (h : fuel ≥ 3) :
    applyWrite w <$> runF prog unwind fuse false fuel .dqPeekMaxMut s [] = Crash.DQ.peekMaxMutWriteF fuse s w := by
  obtain ⟨k, rfl⟩ : ∃ k, fuel = k + 3 := ⟨fuel - 3, by omega⟩
  rw [runF_frame0 prog unwind fuse false (k + 2) .dqPeekMaxMut _ s _ _ _ rfl rfl]
  unfold Crash.DQ.peekMaxMutWriteF
  rw [execF, dqPeekMaxMut_body]
  srcF_eval
  srcF_cr
  rw [call_dqFindMaxF _ _ _ (by omega)]
  srcF_cr
  refine bindC_congr_ok fun fm _ => ?_
  obtain ⟨s1, res⟩ := fm
  cases res with
  | none => srcF_eval; srcF_cr [applyWrite]
  | some pos =>
    srcF_eval
    srcF_cr [applyWrite]
    refine liftR_bind_congr_ok fun i _ => ?_
    cases s1.map.getIndex i <;> rfl

/-- `DoublePriorityQueue::pop_min` under a panicking comparison = `Crash.DQ.popMinF` -/
theorem dqPopMinF (fuse : Nat) (s : Store P) (fuel : Nat) (h : fuel ≥ s.size + 4) :
    runF prog unwind fuse false fuel .dqPopMin s [] = (fun r => (r.1, Val.optEntry r.2)) <$> Crash.DQ.popMinF fuse s := by
  obtain ⟨k, rfl⟩ : ∃ k, fuel = k + 2 := ⟨fuel - 2, by omega⟩
  rw [runF_frame0 prog unwind fuse false (k + 1) .dqPopMin _ s _ _ _ rfl rfl]
  unfold Crash.DQ.popMinF
  rw [execF, dqPopMin_body]
  srcF_eval
  srcF_cr [call_dqFindMin]
  cases hf : DQ.findMin s with
  | none => srcF_eval; srcF_cr
  | some i =>
    srcF_eval
    srcF_cr [call_storeSwapRemove]
    refine liftR_bind_congr_ok fun r hr => ?_
    have hsz := swapRemove_post_size s i r hr
    rw [call_dqHeapifyF _ _ _ _ (by simp only at hsz; omega)]
    srcF_cr

/-- `DoublePriorityQueue::pop_max` under a panicking comparison = `Crash.DQ.popMaxF` -/
theorem dqPopMaxF (fuse : Nat) (s : Store P) (fuel : Nat) (h : fuel ≥ s.size + 4) :
    runF prog unwind fuse false fuel .dqPopMax s [] = (fun r => (r.1, Val.optEntry r.2)) <$> Crash.DQ.popMaxF fuse s := by
  obtain ⟨k, rfl⟩ : ∃ k, fuel = k + 3 := ⟨fuel - 3, by omega⟩
  rw [runF_frame0 prog unwind fuse false (k + 2) .dqPopMax _ s _ _ _ rfl rfl]
  unfold Crash.DQ.popMaxF
  rw [execF, dqPopMax_body]
  srcF_eval
  srcF_cr
  rw [call_dqFindMaxF _ _ _ (by omega)]
  srcF_cr
  refine bindC_congr_ok fun fm hfm => ?_
  have hs1 := (findMaxF_post fuse s fm hfm).1
  obtain ⟨s1, res⟩ := fm
  cases res with
  | none => srcF_eval; srcF_cr
  | some i =>
    srcF_eval
    srcF_cr [call_storeSwapRemove]
    refine liftR_bind_congr_ok fun r hr => ?_
    have hsz := swapRemove_post_size s1 i r hr
    rw [call_dqHeapifyF _ _ _ _ (by simp only at hsz hs1; omega)]
    srcF_cr

/-- `DoublePriorityQueue::remove` under a panicking comparison = `Crash.DQ.removeF` -/
theorem dqRemoveF (fuse : Nat) (s : Store P) (k : Nat) (fuel : Nat) (h : fuel ≥ 2 * s.size + 5) :
    runF prog unwind fuse false fuel .dqRemove s [k]
      = (fun r => (r.1, Val.optEntry r.2)) <$> Crash.DQ.removeF fuse s k := by
  obtain ⟨n, rfl⟩ : ∃ n, fuel = n + 2 := ⟨fuel - 2, by omega⟩
  rw [runF_frame0 prog unwind fuse false (n + 1) .dqRemove _ s _ _ _ rfl rfl]
  unfold Crash.DQ.removeF
  rw [execF, dqRemove_body]
  srcF_eval
  srcF_cr [call_storeRemove]
  refine liftR_bind_congr_ok fun r hr => ?_
  have hsz := remove_post_size s k r hr
  obtain ⟨s', res⟩ := r
  cases res with
  | none => srcF_cr
  | some x =>
    obtain ⟨it, p, pos⟩ := x
    have hsz' := hsz _ rfl
    simp only at hsz'
    srcF_cr
    by_cases hlt : pos < s'.size
    · simp only [hlt, ↓reduceIte, decide_true]
      rw [call_dqUpHeapifyF _ _ _ _ (by omega)]
      srcF_cr
    · simp only [hlt, ↓reduceIte, decide_false]

/-- `DoublePriorityQueue::change_priority` under a panicking comparison = `Crash.DQ.changePriorityF` -/
theorem dqChangePriorityF (fuse : Nat) (s : Store P) (k : Nat) (p : P) (fuel : Nat) (h : fuel ≥ s.size + s.heap.size + 6) :
    runF prog unwind fuse false fuel .dqChangePriority s [k] [p]
      = (fun r => (r.1, Val.optP r.2)) <$> Crash.DQ.changePriorityF fuse s k p := by
  obtain ⟨n, rfl⟩ : ∃ n, fuel = n + 2 := ⟨fuel - 2, by omega⟩
  rw [runF_frame0 prog unwind fuse false (n + 1) .dqChangePriority _ s _ _ _ rfl rfl]
  unfold Crash.DQ.changePriorityF
  rw [execF, dqChangePriority_body]
  srcF_eval
  srcF_cr [call_storeChangePriority]
  refine liftR_bind_congr_ok fun r hr => ?_
  obtain ⟨hsz, hhp⟩ := changePriority_post s k p r hr
  obtain ⟨s', res⟩ := r
  cases res with
  | none => srcF_cr
  | some x =>
    obtain ⟨old, pos⟩ := x
    simp only at hsz hhp
    srcF_cr
    rw [call_dqUpHeapifyF _ _ _ _ (by rw [hsz, hhp]; omega)]
    srcF_cr

/-- `DoublePriorityQueue::change_priority_by` under a panicking comparison = `Crash.DQ.changePriorityByF` -/
theorem dqChangePriorityByF (fuse : Nat) (s : Store P) (k : Nat) (g : P → P) (fuel : Nat)
    (h : fuel ≥ s.size + s.heap.size + 6) :
    runF prog unwind fuse false fuel .dqChangePriorityBy s [k] [] [Val.setter g]
      = (fun r => (r.1, Val.bool r.2)) <$> Crash.DQ.changePriorityByF fuse s k g := by
  obtain ⟨n, rfl⟩ : ∃ n, fuel = n + 2 := ⟨fuel - 2, by omega⟩
  rw [runF_frame0 prog unwind fuse false (n + 1) .dqChangePriorityBy _ s _ _ _ rfl rfl]
  unfold Crash.DQ.changePriorityByF
  rw [execF, dqChangePriorityBy_body]
  srcF_eval
  srcF_cr [call_storeChangePriorityBy]
  refine liftR_bind_congr_ok fun r hr => ?_
  obtain ⟨hsz, hhp⟩ := changePriorityBy_post s k g r hr
  obtain ⟨s', res⟩ := r
  cases res with
  | none => srcF_cr
  | some pos =>
    simp only at hsz hhp
    srcF_cr
    rw [call_dqUpHeapifyF _ _ _ _ (by rw [hsz, hhp]; omega)]
    srcF_cr

/-- `DoublePriorityQueue::push` (new or present item) under a panicking comparison = `Crash.DQ.pushF` -/
theorem dqPushF (fuse : Nat) (s : Store P) (it : Item) (p : P) (fuel : Nat) (h : fuel ≥ s.size + s.heap.size + 6) :
    runF prog unwind fuse false fuel .dqPush s [] [p] [Val.item it]
      = (fun r => (r.1, Val.optP r.2)) <$> Crash.DQ.pushF fuse s it p := by
  cases hf : IMap.find? s.map it.key with
  | none => exact dqPushF_new fuse s it p hf fuel (by omega)
  | some i =>
    obtain ⟨k, rfl⟩ : ∃ k, fuel = k + 1 := ⟨fuel - 1, by omega⟩
    rw [runF_frame0 prog unwind fuse false k .dqPush _ s _ _ _ rfl rfl]
    unfold Crash.DQ.pushF
    obtain ⟨e, he, _⟩ := IMap.find?_getElem? hf
    rw [IMap.insertFull_of_find?_some hf he]
    rw [execF, dqPush_body]
    srcF_eval [hf, he]
    simp only [Option.isSome_some, ↓reduceIte]
    srcF_cr
    refine liftR_bind_congr_ok fun pos hpos => ?_
    rw [call_dqUpHeapifyF _ _ _ _ (by simp only; omega)]
    srcF_cr

theorem call_dqPushF (fuse : Nat) (s : Store P) (it : Item) (p : P) (n : Nat) (h : n ≥ s.size + s.heap.size + 6) :
    toCRcall (callWithF (execF prog unwind fuse false n) (exec prog n) prog unwind .dqPush s [] [p] [Val.item it])
      = (fun r => (r.1, Val.optP r.2)) <$> Crash.DQ.pushF fuse s it p := by
  rw [← runF_eq]; exact dqPushF fuse s it p n h

/-- `DoublePriorityQueue::push_increase` under a panicking comparison = `Crash.DQ.pushIncreaseF` (a panic of the pre-comparison
leaves the store untouched) -/
theorem dqPushIncreaseF (fuse : Nat) (s : Store P) (it : Item) (p : P) (fuel : Nat) (h : fuel ≥ s.size + s.heap.size + 7) :
    runF prog unwind fuse false fuel .dqPushIncrease s [] [p] [Val.item it]
      = (fun r => (r.1, Val.optP r.2)) <$> Crash.DQ.pushIncreaseF fuse s it p := by
  obtain ⟨n, rfl⟩ : ∃ n, fuel = n + 1 := ⟨fuel - 1, by omega⟩
  rw [runF_frame0 prog unwind fuse false n .dqPushIncrease _ s _ _ _ rfl rfl]
  unfold Crash.DQ.pushIncreaseF
  rw [execF, dqPushIncrease_body]
  srcF_eval
  cases hq : s.getPriority it.key with
  | none =>
    srcF_eval
    srcF_cr
    rw [call_dqPushF _ _ _ _ _ (by omega)]
    srcF_cr
  | some q =>
    srcF_eval
    srcF_cr
    by_cases hfz : s.ticks + 1 = fuse
    · simp only [hfz, ↓reduceIte]
    · simp only [hfz, ↓reduceIte]
      by_cases hlt : q < p
      · simp only [hlt, ↓reduceIte, decide_true]
        rw [call_dqPushF _ _ _ _ _ (by simp only [size_tick, heap_tick]; omega)]
        srcF_cr
      · simp only [hlt, ↓reduceIte, decide_false]
/-- `DoublePriorityQueue::push_decrease` under a panicking comparison = `Crash.DQ.pushDecreaseF` (a panic of the pre-comparison
leaves the store untouched) -/
theorem dqPushDecreaseF (fuse : Nat) (s : Store P) (it : Item) (p : P) (fuel : Nat) (h : fuel ≥ s.size + s.heap.size + 7) :
    runF prog unwind fuse false fuel .dqPushDecrease s [] [p] [Val.item it]
      = (fun r => (r.1, Val.optP r.2)) <$> Crash.DQ.pushDecreaseF fuse s it p := by
  obtain ⟨n, rfl⟩ : ∃ n, fuel = n + 1 := ⟨fuel - 1, by omega⟩
  rw [runF_frame0 prog unwind fuse false n .dqPushDecrease _ s _ _ _ rfl rfl]
  unfold Crash.DQ.pushDecreaseF
  rw [execF, dqPushDecrease_body]
  srcF_eval
  cases hq : s.getPriority it.key with
  | none =>
    srcF_eval
    srcF_cr
    rw [call_dqPushF _ _ _ _ _ (by omega)]
    srcF_cr
  | some q =>
    srcF_eval
    srcF_cr
    by_cases hfz : s.ticks + 1 = fuse
    · simp only [hfz, ↓reduceIte]
    · simp only [hfz, ↓reduceIte]
      by_cases hlt : p < q
      · simp only [hlt, ↓reduceIte, decide_true]
        rw [call_dqPushF _ _ _ _ _ (by simp only [size_tick, heap_tick]; omega)]
        srcF_cr
      · simp only [hlt, ↓reduceIte, decide_false]

/-- `DoublePriorityQueue::pop_min_if` under a panicking comparison = `Crash.DQ.popMinIfF` -/
theorem dqPopMinIfF (fuse : Nat) (s : Store P) (f : Item → P → Bool × Item × P) (fuel : Nat) (h : fuel ≥ s.size + 5) :
    runF prog unwind fuse false fuel .dqPopMinIf s [] [] [Val.pred f]
      = (fun r => (r.1, Val.optEntry r.2)) <$> Crash.DQ.popMinIfF fuse s f := by
  obtain ⟨k, rfl⟩ : ∃ k, fuel = k + 3 := ⟨fuel - 3, by omega⟩
  rw [runF_frame0 prog unwind fuse false (k + 2) .dqPopMinIf _ s _ _ _ rfl rfl]
  unfold Crash.DQ.popMinIfF
  rw [execF, dqPopMinIf_body]
  srcF_eval
  srcF_cr [call_dqFindMin]
  cases hf : DQ.findMin s with
  | none => srcF_eval; srcF_cr
  | some i =>
    srcF_eval
    srcF_cr [call_storeSwapRemoveIf]
    refine liftR_bind_congr_ok fun r hr => ?_
    have hsz := swapRemoveIf_post_size s i f r hr
    rw [call_dqHeapifyF _ _ _ _ (by simp only at hsz; omega)]
    srcF_cr

/-- `DoublePriorityQueue::pop_max_if` under a panicking comparison = `Crash.DQ.popMaxIfF` (a panic in `find_max`: the
predicate is not called) -/
theorem dqPopMaxIfF (fuse : Nat) (s : Store P) (f : Item → P → Bool × Item × P) (fuel : Nat) (h : fuel ≥ s.size + 8) :
    runF prog unwind fuse false fuel .dqPopMaxIf s [] [] [Val.pred f]
      = (fun r => (r.1, Val.optEntry r.2)) <$> Crash.DQ.popMaxIfF fuse s f := by
  obtain ⟨k, rfl⟩ : ∃ k, fuel = k + 3 := ⟨fuel - 3, by omega⟩
  rw [runF_frame0 prog unwind fuse false (k + 2) .dqPopMaxIf _ s _ _ _ rfl rfl]
  unfold Crash.DQ.popMaxIfF
  rw [execF, dqPopMaxIf_body]
  srcF_eval
  srcF_cr
  rw [call_dqFindMaxF _ _ _ (by omega)]
  srcF_cr
  refine bindC_congr_ok fun fm hfm => ?_
  obtain ⟨hs1, hi2⟩ := findMaxF_post fuse s fm hfm
  obtain ⟨s1, res⟩ := fm
  cases res with
  | none => srcF_eval; srcF_cr
  | some i =>
    have := hi2 i rfl
    srcF_eval
    srcF_cr [call_storeSwapRemoveIf]
    refine liftR_bind_congr_ok fun r hr => ?_
    have hsz := swapRemoveIf_post_size s1 i f r hr
    rw [call_dqUpHeapifyF _ _ _ _ (by simp only at hsz hs1; omega)]
    srcF_cr
end PQ.SrcEquivF
