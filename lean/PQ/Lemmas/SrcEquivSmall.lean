import PQ.Lemmas.SrcEquivIter
set_option linter.unusedSimpArgs false
set_option linter.unusedSectionVars false
/-! # Source-translated tie: `into_vec`, the sorted `Vec`s, `PartialEq for Store`, `Serialize for Store` -/
namespace PQ.SrcEquiv
open PQ PQ.Src PQ.SrcGen
variable {P : Type} [LT P] [DecidableLT P]

/-! ## `into_vec` -/

/-- `Store::into_vec`: the items of the map in slot order -/
theorem storeIntoVec (s : Store P) (fuel : Nat) (h : fuel ≥ 1) :
    Src.run SrcGen.prog fuel .storeIntoVec s [] = pure (s, Val.items (s.map.toList.map fun e => e.1)) := by
  obtain ⟨k, rfl⟩ : ∃ k, fuel = k + 1 := ⟨fuel - 1, by omega⟩
  src_enter [prog, SrcGen.storeIntoVec]
  src_eval [storeIntoVec_body]

theorem call_storeIntoVec (s : Store P) (n : Nat) :
    callWith (exec prog (n + 1)) prog .storeIntoVec s [] [] [] = pure (s, Val.items (s.map.toList.map fun e => e.1)) :=
  storeIntoVec s (n + 1) (by omega)

/-- `PriorityQueue::into_vec` forwards to the store (`Observe`: the entries in slot order, here their items) -/
theorem pqIntoVec (s : Store P) (fuel : Nat) (h : fuel ≥ 2) :
    Src.run SrcGen.prog fuel .pqIntoVec s [] = pure (s, Val.items (s.map.toList.map fun e => e.1)) := by
  obtain ⟨k, rfl⟩ : ∃ k, fuel = k + 2 := ⟨fuel - 2, by omega⟩
  src_enter [prog, SrcGen.pqIntoVec]
  src_eval [pqIntoVec_body, call_storeIntoVec]

theorem dqIntoVec (s : Store P) (fuel : Nat) (h : fuel ≥ 2) :
    Src.run SrcGen.prog fuel .dqIntoVec s [] = pure (s, Val.items (s.map.toList.map fun e => e.1)) := by
  obtain ⟨k, rfl⟩ : ∃ k, fuel = k + 2 := ⟨fuel - 2, by omega⟩
  src_enter [prog, SrcGen.dqIntoVec]
  src_eval [dqIntoVec_body, call_storeIntoVec]

/-! ## `PartialEq for Store` -/

theorem eqvBy_decide [DecidableEq P] (a b : IMap P) : eqvBy (fun x y => decide (x = y)) a b = IMap.eqv a b := rfl

/-- `Store::eq` = `Store.eqv`, for the `P1: PartialEq<P2>` that is the equality of `P` -/
theorem storeEq [DecidableEq P] (s o : Store P) (fuel : Nat) (h : fuel ≥ 1) :
    Src.run SrcGen.prog fuel .storeEq s [] [] [Val.store o, Val.eqP (fun x y => decide (x = y))]
      = pure (s, Val.bool (Store.eqv s o)) := by
  obtain ⟨k, rfl⟩ : ∃ k, fuel = k + 1 := ⟨fuel - 1, by omega⟩
  src_enter [prog, SrcGen.storeEq]
  src_eval [storeEq_body, eqvBy_decide, Store.eqv]

/-! ## `Serialize for Store` -/

/-- the registers after one `serialize_element` -/
def serG (e : Item × P) (st : St P) (h : Option Nat) (xs : Array (Item × P)) : St P :=
  { s := st.s, n := st.n, p := upd st.p 3 (some e.snd),
    v := upd (upd st.v 2 (some (Val.item e.fst))) 0 (some (Val.seq h (xs.push (e.fst, e.snd)))) }

theorem forList_serElement (body : Item × P → St P → R (St P × Flow P))
    (hbody : ∀ e st h xs, st.v 0 = some (.seq h xs) → body e st = pure (serG e st h xs, Flow.normal)) (h : Option Nat) :
    ∀ (l : List (Item × P)) (st : St P) (xs : Array (Item × P)), st.v 0 = some (.seq h xs) →
    ∃ st', forList body l st = pure (st', Flow.normal) ∧ st'.v 0 = some (.seq h (xs ++ l.toArray)) ∧ st'.s = st.s := by
  intro l
  induction l with
  | nil => intro st xs hv; exact ⟨st, rfl, by simpa using hv, rfl⟩
  | cons e es ih =>
    intro st xs hv
    rw [forList, hbody e st h xs hv]
    obtain ⟨st', h1, h2, h3⟩ := ih (serG e st h xs) (xs.push e) (by simp [serG, upd])
    refine ⟨st', ?_, ?_, h3⟩
    · simpa only [pure_bind] using h1
    · rw [h2]; simp

/-- `Store::serialize` writes `Some(self.size)` as the announced length and then the pairs of the map in slot order: what
`visit_seq` of `Deserialize` reads back (the serializer is trusted not to fail) -/
theorem storeSerialize (s : Store P) (fuel : Nat) (h : fuel ≥ 1) :
    Src.run SrcGen.prog fuel .storeSerialize s [] = pure (s, Val.seq (some s.size) s.map) := by
  obtain ⟨k, rfl⟩ : ∃ k, fuel = k + 1 := ⟨fuel - 1, by omega⟩
  src_enter [prog, SrcGen.storeSerialize]
  src_eval [storeSerialize_body]
  have key : ∀ (body : Item × P → St P → R (St P × Flow P)) (K : St P × Flow P → R (Store P × Val P)),
      (∀ e st h xs, st.v 0 = some (.seq h xs) → body e st = pure (serG e st h xs, Flow.normal)) →
      (∀ st', st'.v 0 = some (.seq (some s.size) s.map) → st'.s = s → K (st', Flow.normal) = pure (s, Val.seq (some s.size) s.map)) →
      (forList body s.map.toList
        { s := s, n := fun x => 0, p := fun x => none,
          v := upd (upd (fun x => none) 0 (some (Val.seq (some s.size) #[]))) 1 (some (Val.entries s.map)) } >>= K)
        = pure (s, Val.seq (some s.size) s.map) := by
    intro body K hbody hK
    obtain ⟨st', h1, h2, h3⟩ := forList_serElement body hbody (some s.size) s.map.toList
      { s := s, n := fun x => 0, p := fun x => none,
        v := upd (upd (fun x => none) 0 (some (Val.seq (some s.size) #[]))) 1 (some (Val.entries s.map)) } #[] (by simp [upd])
    rw [h1]
    exact hK st' (by rw [h2]; simp) h3
  refine key _ _ (fun e st h xs hv => by simp only [hv]; rfl) ?_
  intro st' hv hs
  src_eval [hv, hs]

/-! ## `into_sorted_vec`, `into_ascending_sorted_vec`, `into_descending_sorted_vec`: pop until empty -/

theorem pop_post (s : Store P) : Post (MaxQ.pop s) (fun r => ∀ e, r.2 = some e → r.1.size + 1 = s.size) := by
  unfold MaxQ.pop
  split
  · exact Post.pure (fun e he => by cases he)
  · intro r hr e _; exact swapRemove_post_size s 0 r hr
  · refine Post.bind (swapRemove_post_size s 0) fun r hr => Post.bind (heapify_post_size _ _) fun s' hs' => Post.pure ?_
    intro e _; simp only at hs' ⊢; omega

theorem popMin_post (s : Store P) : Post (DQ.popMin s) (fun r => ∀ e, r.2 = some e → r.1.size + 1 = s.size) := by
  unfold DQ.popMin
  split
  · exact Post.pure (fun e he => by cases he)
  · refine Post.bind (swapRemove_post_size s _) fun r hr => Post.bind (dq_heapify_post_size _ _) fun s' hs' => Post.pure ?_
    intro e _; simp only at hs' ⊢; omega

theorem popMax_post (s : Store P) : Post (DQ.popMax s) (fun r => ∀ e, r.2 = some e → r.1.size + 1 = s.size) := by
  unfold DQ.popMax
  refine Post.bind (findMax_post_size s) fun fm hfm => ?_
  obtain ⟨s1, res⟩ := fm
  cases res with
  | none => exact Post.pure (fun e he => by cases he)
  | some i =>
    refine Post.bind (swapRemove_post_size s1 _) fun r hr => Post.bind (dq_heapify_post_size _ _) fun s' hs' => Post.pure ?_
    intro e _; simp only at hfm hs' ⊢; omega

/-- the `while let Some((i, _)) = self.pop() { res.push(i); }` loop against a "pop until empty" of the hand model -/
theorem whileSomeCall_drain (fid : FnId) (c : Nat) (popM : Store P → R (Store P × Option (Item × P)))
    (drain : Nat → Store P → R (List (Item × P)))
    (hdrain : ∀ f s, drain (f + 1) s = popM s >>= fun r =>
      match r.2 with
      | some e => drain f r.1 >>= fun rest => pure (e :: rest)
      | none => pure [])
    (hpost : ∀ s, Post (popM s) (fun r => ∀ e, r.2 = some e → r.1.size + 1 = s.size))
    (hcall : ∀ (s : Store P) n, n ≥ s.size + c →
      callWith (exec prog n) prog fid s [] [] [] = (fun r => (r.1, Val.optEntry r.2)) <$> popM s) :
    ∀ (f k : Nat) (st : St P) (l0 : List Item), st.v 0 = some (.items l0) → f ≥ st.s.size + 1 → k ≥ st.s.size + c →
      Agrees (exec prog (k + 1) (.whileSomeCall 1 fid (.itemsPush 0 1)) st) (drain f st.s)
        (fun st' l => st'.v 0 = some (.items (l0 ++ l.map fun e => e.1))) := by
  intro f
  induction f with
  | zero => intro k st l0 _ hf; omega
  | succ f ih =>
    intro k st l0 hv hf hk
    rw [exec, es83, hcall _ _ hk, hdrain]
    simp only [map_eq_pure_bind, bind_assoc, pure_bind]
    cases hp : popM st.s with
    | error e => exact (Agrees.error_iff _ _ _).mpr rfl
    | ok r =>
      obtain ⟨s1, res⟩ := r
      have hsz := hpost st.s (s1, res) hp
      cases res with
      | none =>
        simp only [ok_bind]
        exact ⟨_, rfl, by simpa [St.setS] using hv⟩
      | some e =>
        have h1 := hsz e rfl
        simp only at h1
        obtain ⟨k, rfl⟩ : ∃ k', k = k' + 1 := ⟨k - 1, by omega⟩
        simp only [ok_bind]
        src_eval [hv]
        have := ih k
          { s := s1, n := st.n, p := st.p,
            v := upd (upd st.v 1 (some (Val.optEntry (some e)))) 0 (some (Val.items (l0 ++ [e.fst]))) }
          (l0 ++ [e.1]) (by simp [upd]) (by simp only; omega) (by simp only; omega)
        simp only at this
        cases hd : drain f s1 with
        | error er =>
          rw [hd] at this
          rw [Agrees.error_iff] at this
          simp only [error_bind]
          exact (Agrees.error_iff _ _ _).mpr this
        | ok rest =>
          rw [hd] at this
          obtain ⟨st', hx, hr⟩ := this
          refine ⟨st', ?_, ?_⟩
          · simp only [hx, ok_bind]
          · simp only [ok_bind, pure, Except.pure] at hr ⊢
            simpa using hr

/-- `PriorityQueue::into_sorted_vec` = the items of `MaxQ.intoSortedVec` (pop until empty) -/
theorem pqIntoSortedVec (s : Store P) (fuel : Nat) (h : fuel ≥ s.size + 5) :
    (fun r => r.2) <$> Src.run SrcGen.prog fuel .pqIntoSortedVec s []
      = (fun l => Val.items (l.map fun e => e.1)) <$> MaxQ.intoSortedVec s := by
  obtain ⟨k, rfl⟩ : ∃ k, fuel = k + 2 := ⟨fuel - 2, by omega⟩
  src_enter [prog, SrcGen.pqIntoSortedVec]
  rw [pqIntoSortedVec_body]
  src_eval
  rw [exec_succ]
  have hl := whileSomeCall_drain .pqPop 3 MaxQ.pop MaxQ.drainSorted
    (fun f s => by rw [MaxQ.drainSorted]; rfl) pop_post
    (fun s n hn => by have := pqPop s n hn; simpa only [Src.run] using this)
    (s.size + 1) (k + 1)
    { s := s, n := fun x => 0, p := fun x => none, v := upd (fun x => none) 0 (some (Val.items [])) } [] (by simp [upd])
    (by simp only; omega) (by simp only; omega)
  simp only at hl
  unfold MaxQ.intoSortedVec
  cases hd : MaxQ.drainSorted (s.size + 1) s with
  | error e =>
    rw [hd] at hl
    rw [Agrees.error_iff] at hl
    simp only [hl, error_bind]
  | ok l =>
    rw [hd] at hl
    obtain ⟨st', hx, hr⟩ := hl
    simp only [hx, ok_bind]
    src_eval [hr]
    simp

/-- `DoublePriorityQueue::into_ascending_sorted_vec` = the items of `DQ.intoAscendingSortedVec` (pop until empty) -/
theorem dqIntoAscVec (s : Store P) (fuel : Nat) (h : fuel ≥ s.size + 6) :
    (fun r => r.2) <$> Src.run SrcGen.prog fuel .dqIntoAscVec s []
      = (fun l => Val.items (l.map fun e => e.1)) <$> DQ.intoAscendingSortedVec s := by
  obtain ⟨k, rfl⟩ : ∃ k, fuel = k + 2 := ⟨fuel - 2, by omega⟩
  src_enter [prog, SrcGen.dqIntoAscVec]
  rw [dqIntoAscVec_body]
  src_eval
  rw [exec_succ]
  have hl := whileSomeCall_drain .dqPopMin 4 DQ.popMin DQ.drainAsc
    (fun f s => by rw [DQ.drainAsc]; rfl) popMin_post
    (fun s n hn => by have := dqPopMin s n hn; simpa only [Src.run] using this)
    (s.size + 1) (k + 1)
    { s := s, n := fun x => 0, p := fun x => none, v := upd (fun x => none) 0 (some (Val.items [])) } [] (by simp [upd])
    (by simp only; omega) (by simp only; omega)
  simp only at hl
  unfold DQ.intoAscendingSortedVec
  cases hd : DQ.drainAsc (s.size + 1) s with
  | error e =>
    rw [hd] at hl
    rw [Agrees.error_iff] at hl
    simp only [hl, error_bind]
  | ok l =>
    rw [hd] at hl
    obtain ⟨st', hx, hr⟩ := hl
    simp only [hx, ok_bind]
    src_eval [hr]
    simp

/-- `DoublePriorityQueue::into_descending_sorted_vec` = the items of `DQ.intoDescendingSortedVec` (pop until empty) -/
theorem dqIntoDescVec (s : Store P) (fuel : Nat) (h : fuel ≥ s.size + 6) :
    (fun r => r.2) <$> Src.run SrcGen.prog fuel .dqIntoDescVec s []
      = (fun l => Val.items (l.map fun e => e.1)) <$> DQ.intoDescendingSortedVec s := by
  obtain ⟨k, rfl⟩ : ∃ k, fuel = k + 2 := ⟨fuel - 2, by omega⟩
  src_enter [prog, SrcGen.dqIntoDescVec]
  rw [dqIntoDescVec_body]
  src_eval
  rw [exec_succ]
  have hl := whileSomeCall_drain .dqPopMax 4 DQ.popMax DQ.drainDesc
    (fun f s => by rw [DQ.drainDesc]; rfl) popMax_post
    (fun s n hn => by have := dqPopMax s n hn; simpa only [Src.run] using this)
    (s.size + 1) (k + 1)
    { s := s, n := fun x => 0, p := fun x => none, v := upd (fun x => none) 0 (some (Val.items [])) } [] (by simp [upd])
    (by simp only; omega) (by simp only; omega)
  simp only at hl
  unfold DQ.intoDescendingSortedVec
  cases hd : DQ.drainDesc (s.size + 1) s with
  | error e =>
    rw [hd] at hl
    rw [Agrees.error_iff] at hl
    simp only [hl, error_bind]
  | ok l =>
    rw [hd] at hl
    obtain ⟨st', hx, hr⟩ := hl
    simp only [hx, ok_bind]
    src_eval [hr]
    simp
end PQ.SrcEquiv
