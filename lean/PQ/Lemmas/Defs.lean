import PQ.Model.Iter
/-!
# Invariants and the abstract specification (shared vocabulary of all property theorems)
-/
namespace PQ
variable {P : Type}

/-- no two slots of the map hold the same key -/
def IMap.NoDupKeys (m : IMap P) : Prop :=
  ∀ (i j : Nat) (a b : Item × P), m[i]? = some a → m[j]? = some b → a.1.key = b.1.key → i = j

/-- abstract lookup: the entry stored for key `k` -/
def IMap.lookup (m : IMap P) (k : Nat) : Option (Item × P) :=
  m.toList.find? (fun e => e.1.key == k)

/-- the index tables, read at length `n`, are mutually inverse bijections on `0..n`, the map has `n` entries
and keys are unique.  (`push` runs its sift-up with tables of length `size + 1` before bumping `size`, hence
the explicit `n`.) -/
structure Store.TWF (s : Store P) (n : Nat) : Prop where
  map_size : s.map.size = n
  heap_size : s.heap.size = n
  qp_size : s.qp.size = n
  heap_qp : ∀ p, p < n → ∃ i, s.heap[p]? = some i ∧ s.qp[i]? = some p
  qp_heap : ∀ i, i < n → ∃ p, s.qp[i]? = some p ∧ s.heap[p]? = some i
  nodup : s.map.NoDupKeys

/-- **WF**: the index tables are mutually inverse bijections on `0..size` and every length agrees
with `size`; keys are unique.  This is exactly what every unchecked access of the crate trusts (C04). -/
def Store.WF (s : Store P) : Prop := s.TWF s.size

/-- the priority found at heap position `p` (through `heap[p]` and the map) -/
def Store.pr (s : Store P) (p : Nat) : Option P :=
  match s.heap[p]? with
  | some i => (s.map[i]?).map (·.2)
  | none => none

/-- the entry found at heap position `p` -/
def Store.entryAt (s : Store P) (p : Nat) : Option (Item × P) :=
  match s.heap[p]? with
  | some i => s.map[i]?
  | none => none

/-- binary max-heap order on positions `0..size` -/
def Store.MaxHeap [LT P] (s : Store P) : Prop :=
  ∀ p, 0 < p → p < s.size → ∀ a b, s.pr (Arith.parent p) = some a → s.pr p = some b → ¬ a < b

/-- strict ancestor relation on heap positions -/
inductive Anc : Nat → Nat → Prop where
  | parent {d : Nat} : 0 < d → Anc (Arith.parent d) d
  | step {a d : Nat} : 0 < d → Anc a (Arith.parent d) → Anc a d

/-- min-max heap order (global form): a node on an even level is ≤ every descendant, a node on an odd
level is ≥ every descendant -/
def Store.MinMaxHeap [LT P] (s : Store P) : Prop :=
  ∀ a d, Anc a d → d < s.size → ∀ x y, s.pr a = some x → s.pr d = some y →
    if Arith.level a % 2 = 0 then ¬ y < x else ¬ x < y

/-- `e` is stored in the map -/
def Store.Mem (s : Store P) (e : Item × P) : Prop := ∃ i : Nat, s.map[i]? = some e

/-- `e` is stored and no stored priority is greater -/
def Store.IsMax [LT P] (s : Store P) (e : Item × P) : Prop :=
  s.Mem e ∧ ∀ e', s.Mem e' → ¬ e.2 < e'.2

/-- `e` is stored and no stored priority is smaller -/
def Store.IsMin [LT P] (s : Store P) (e : Item × P) : Prop :=
  s.Mem e ∧ ∀ e', s.Mem e' → ¬ e'.2 < e.2

end PQ
