import PQ.Lemmas.SiftUp
import PQ.Lemmas.Arith
/-!
# Vocabulary for the min-max heap proofs (shared by the trickle-down and the bubble-up developments)
-/
namespace PQ
open Arith
variable {P : Type} [LT P]

namespace Store

/-- the order relation between an ancestor position `a` and a descendant position `d`: on an even (min) level the
ancestor is not greater, on an odd (max) level it is not smaller -/
def Rel (s : Store P) (a d : Nat) : Prop :=
  ∀ x y, s.pr a = some x → s.pr d = some y → if level a % 2 = 0 then ¬ y < x else ¬ x < y

/-- every ancestor/descendant pair whose ancestor is at position `≥ lo` is in min-max order -/
def MinMaxFrom (s : Store P) (lo : Nat) : Prop :=
  ∀ a d, Anc a d → d < s.size → lo ≤ a → s.Rel a d

theorem minMaxHeap_iff_from (s : Store P) : s.MinMaxHeap ↔ s.MinMaxFrom 0 := by
  unfold MinMaxHeap MinMaxFrom Rel
  constructor
  · intro h a d had hd _ x y hx hy; exact h a d had hd x y hx hy
  · intro h a d had hd x y hx hy; exact h a d had hd (Nat.zero_le _) x y hx hy

end Store
end PQ
