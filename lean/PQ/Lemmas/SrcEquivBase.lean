import PQ.Model.SrcGen
import PQ.Model.PQ
import PQ.Model.DPQ
/-!
# Infrastructure for the source-translated tie (`SrcEquiv*`)

Helper lemmas and the two tactics used to prove that the interpreter `PQ.Src.exec`, run on the terms that
`tools/gen_src.py` generated from the Rust source (`PQ.SrcGen.*`), computes what the hand-written model computes.

* `src_eval [extra]` : symbolic evaluation — `simp only` with the equations of the interpreter, the monad laws of
  `Except`, register look-ups, and the `extra` lemmas (the generated terms to unfold, the model functions to unfold,
  call lemmas of callees already tied).
  A `while` is NOT unfolded (the equations `es1 … es76` = `Src.execStep.eq_1 … eq_76` are listed without `eq_9`, the one for `.while`;
  should the constructor order in `PQ/Model/Src.lean` change, adapt the list): loops are handled by per-loop lemmas.
* `src_close` : closes an equation between two `do` blocks in `R` that perform the same reads in the same order:
  congruence under binds, case splits on the conditions, `simp_all` at the leaves.
-/
set_option linter.unusedSimpArgs false
set_option linter.unusedSectionVars false
namespace PQ.SrcEquiv
open PQ PQ.Src

variable {P : Type}

@[simp] theorem prioAt_tick (s : Store P) (k i : Nat) : (s.tick k).prioAt i = s.prioAt i := rfl
@[simp] theorem size_tick (s : Store P) (k : Nat) : (s.tick k).size = s.size := rfl
@[simp] theorem heap_tick (s : Store P) (k : Nat) : (s.tick k).heap = s.heap := rfl
@[simp] theorem qp_tick (s : Store P) (k : Nat) : (s.tick k).qp = s.qp := rfl
@[simp] theorem map_tick (s : Store P) (k : Nat) : (s.tick k).map = s.map := rfl

theorem ite_bind {α β : Type} (c : Prop) [Decidable c] (a b : R α) (f : α → R β) :
    (if c then a else b) >>= f = if c then a >>= f else b >>= f := by split <;> rfl

theorem error_bind {α β : Type} (e : Fault) (f : α → R β) : ((Except.error e : R α) >>= f) = Except.error e := rfl
theorem ok_bind {α β : Type} (a : α) (f : α → R β) : ((Except.ok a : R α) >>= f) = f a := rfl

/-- congruence under a bind of `R`, remembering what the bound value is -/
theorem bind_congr_ok {α β : Type} {x : R α} {f g : α → R β} (h : ∀ a, x = .ok a → f a = g a) :
    x >>= f = x >>= g := by
  cases x with
  | error e => rfl
  | ok a => exact h a rfl

theorem unwrapO_ok_iff {α : Type} (o : Option α) (site : Nat) (v : α) : unwrapO o site = .ok v ↔ o = some v := by
  unfold unwrapO; split <;> simp_all

theorem unwrapO_some {α : Type} (v : α) (site : Nat) : unwrapO (some v) site = .ok v := rfl

theorem getU_ok_iff {α : Type} (a : Array α) (i site : Nat) (v : α) : getU a i site = .ok v ↔ a[i]? = some v := by
  unfold getU; split <;> simp_all

theorem getElem?_some_lt {α : Type} {a : Array α} {i : Nat} {v : α} (h : a[i]? = some v) : i < a.size := by
  cases Nat.lt_or_ge i a.size with
  | inl hlt => exact hlt
  | inr hge => rw [Array.getElem?_eq_none hge] at h; cases h

/-- congruence under a `get_unchecked` read: the value read is the same at every site -/
theorem getU_bind_congr {α β : Type} {a : Array α} {i site : Nat} {f g : α → R β}
    (h : ∀ v, (∀ site', getU a i site' = .ok v) → f v = g v) : getU a i site >>= f = getU a i site >>= g := by
  cases hx : getU a i site with
  | error e => rfl
  | ok v => exact h v (fun site' => by rw [getU_ok_iff] at hx ⊢; exact hx)

/-- `x` (a run of the interpreter) agrees with `y` (the hand model): the same fault, or normal completion in a
state that `rel`ates to the model's result -/
def Agrees {β : Type} (x : R (St P × Flow P)) (y : R β) (rel : St P → β → Prop) : Prop :=
  match y with
  | .error e => x = .error e
  | .ok b => ∃ st', x = .ok (st', .normal) ∧ rel st' b

/-- from an equation between projections to `Agrees` -/
theorem agrees_of_map_eq {β : Type} (proj : St P → β) (x : R (St P × Flow P)) (y : R β)
    (h : (fun r => (proj r.1, r.2)) <$> x = (fun b => (b, Flow.normal)) <$> y) :
    Agrees x y (fun st' b => proj st' = b) := by
  unfold Agrees
  cases x with
  | error e => cases y with
    | error e' => simp [Functor.map, Except.map] at h; simp [h]
    | ok b => simp [Functor.map, Except.map] at h
  | ok r => cases y with
    | error e' => simp [Functor.map, Except.map] at h
    | ok b =>
      simp only [Functor.map, Except.map, Except.ok.injEq, Prod.mk.injEq] at h
      obtain ⟨st', fl⟩ := r
      exact ⟨st', by simp_all, h.1⟩

theorem Agrees.error_iff {β : Type} (x : R (St P × Flow P)) (e : Fault) (rel : St P → β → Prop) :
    Agrees x (.error e) rel ↔ x = .error e := Iff.rfl
theorem Agrees.ok_iff {β : Type} (x : R (St P × Flow P)) (b : β) (rel : St P → β → Prop) :
    Agrees x (.ok b) rel ↔ ∃ st', x = .ok (st', .normal) ∧ rel st' b := Iff.rfl
theorem Agrees.pure_iff {β : Type} (x : R (St P × Flow P)) (b : β) (rel : St P → β → Prop) :
    Agrees x (pure b) rel ↔ ∃ st', x = .ok (st', .normal) ∧ rel st' b := Iff.rfl

/-- the continuation of a loop body (`break` / `return` end the loop) -/
theorem Agrees.bindW {β γ : Type} {x : R (St P × Flow P)} {y : R β} {rel1 : St P → β → Prop}
    {kx : St P → R (St P × Flow P)} {ky : β → R γ} {rel2 : St P → γ → Prop}
    (h : Agrees x y rel1) (hk : ∀ st' b, y = .ok b → rel1 st' b → Agrees (kx st') (ky b) rel2) :
    Agrees (x >>= fun r => match r.2 with
      | .normal => kx r.1
      | .brk => pure (r.1, .normal)
      | .ret v => pure (r.1, .ret v)) (y >>= ky) rel2 := by
  cases y with
  | error e => rw [Agrees.error_iff] at h; subst h; exact Agrees.error_iff _ _ _ |>.mpr rfl
  | ok b => obtain ⟨st', hx, hr⟩ := h; subst hx; exact hk st' b rfl hr

/-- the continuation of the first statement of a `seq` -/
theorem Agrees.bindS {β γ : Type} {x : R (St P × Flow P)} {y : R β} {rel1 : St P → β → Prop}
    {kx : St P → R (St P × Flow P)} {ky : β → R γ} {rel2 : St P → γ → Prop}
    (h : Agrees x y rel1) (hk : ∀ st' b, y = .ok b → rel1 st' b → Agrees (kx st') (ky b) rel2) :
    Agrees (x >>= fun r => match r.2 with
      | .normal => kx r.1
      | fl => pure (r.1, fl)) (y >>= ky) rel2 := by
  cases y with
  | error e => rw [Agrees.error_iff] at h; subst h; exact Agrees.error_iff _ _ _ |>.mpr rfl
  | ok b => obtain ⟨st', hx, hr⟩ := h; subst hx; exact hk st' b rfl hr

/-- what `callWith` does with the outcome of a function body -/
def fin (r : St P × Flow P) : R (Store P × Val P) :=
  match r.2 with
  | .ret v => pure (r.1.s, v)
  | .normal => pure (r.1.s, .unit)
  | .brk => .error stuck

@[simp] theorem fin_normal (st : St P) : fin (st, Flow.normal) = pure (st.s, Val.unit) := rfl
@[simp] theorem fin_ret (st : St P) (v : Val P) : fin (st, Flow.ret v) = pure (st.s, v) := rfl

theorem callWith_eq (ex : Stmt → St P → R (St P × Flow P)) (prog : Prog) (f : FnId) (s : Store P)
    (nargs : List Nat) (pargs : List P) (vargs : List (Val P)) :
    callWith ex prog f s nargs pargs vargs =
      match prog f with
      | none => .error stuck
      | some fn => ex fn.body { s := s, n := bindN fn.nparams nargs, p := bindP fn.pparams pargs,
                                v := bindV fn.vparams vargs } >>= fin := by
  unfold callWith
  cases prog f with
  | none => rfl
  | some fn =>
    refine bind_congr fun r => ?_
    obtain ⟨st, fl⟩ := r
    cases fl <;> rfl

/-- a loop (or any statement) that ends the function: only the store matters -/
theorem Agrees.fin_unit {x : R (St P × Flow P)} {y : R (Store P)}
    (h : Agrees x y (fun st' s' => st'.s = s')) : x >>= fin = y >>= fun s' => pure (s', Val.unit) := by
  cases y with
  | error e => rw [Agrees.error_iff] at h; subst h; rfl
  | ok b => obtain ⟨st', hx, hr⟩ := h; subst hx; subst hr; rfl

/-- a statement followed by the rest of the function (both sides in `bind_assoc` normal form) -/
theorem Agrees.bindFin {β : Type} {x : R (St P × Flow P)} {y : R β} {rel1 : St P → β → Prop}
    {kx : St P → R (St P × Flow P)} {K : β → R (Store P × Val P)}
    (h : Agrees x y rel1) (hk : ∀ st' b, y = .ok b → rel1 st' b → kx st' >>= fin = K b) :
    (x >>= fun r => (match r.2 with
      | .normal => kx r.1
      | fl => pure (r.1, fl)) >>= fin) = y >>= K := by
  cases y with
  | error e => rw [Agrees.error_iff] at h; subst h; rfl
  | ok b => obtain ⟨st', hx, hr⟩ := h; subst hx; exact hk st' b rfl hr

theorem execStep_seq [LT P] [DecidableLT P] (rec : Stmt → St P → R (St P × Flow P)) (callf : CallF P)
    (a b : Stmt) (st : St P) :
    execStep rec callf (.seq a b) st = (execStep rec callf a st >>= fun r => match r.2 with
      | .normal => execStep rec callf b r.1
      | fl => pure (r.1, fl)) := by
  rfl

/-- like `Agrees` for a loop body that may `break`: the model side says whether the loop goes on -/
def AgreesB {β : Type} (x : R (St P × Flow P)) (y : R (β × Bool)) (rel : St P → β → Prop) : Prop :=
  match y with
  | .error e => x = .error e
  | .ok b => ∃ st', x = .ok (st', if b.2 then Flow.normal else Flow.brk) ∧ rel st' b.1

theorem agreesB_of_map_eq {β : Type} (proj : St P → β) (x : R (St P × Flow P)) (y : R (β × Bool))
    (h : (fun r => (proj r.1, r.2)) <$> x = (fun b => (b.1, if b.2 then Flow.normal else Flow.brk)) <$> y) :
    AgreesB x y (fun st' b => proj st' = b) := by
  unfold AgreesB
  cases x with
  | error e => cases y with
    | error e' => simp [Functor.map, Except.map] at h; simp [h]
    | ok b => simp [Functor.map, Except.map] at h
  | ok r => cases y with
    | error e' => simp [Functor.map, Except.map] at h
    | ok b =>
      simp only [Functor.map, Except.map, Except.ok.injEq, Prod.mk.injEq] at h
      obtain ⟨st', fl⟩ := r
      refine ⟨st', ?_, h.1⟩
      have := h.2
      simp only at this
      rw [this]

/-- the same with a frame: the projection of the final state is a function `F` of the model's result -/
theorem agreesB_of_map_eq' {β β' : Type} (proj : St P → β') (F : β → β') (x : R (St P × Flow P)) (y : R (β × Bool))
    (h : (fun r => (proj r.1, r.2)) <$> x = (fun b => (F b.1, if b.2 then Flow.normal else Flow.brk)) <$> y) :
    AgreesB x y (fun st' b => proj st' = F b) := by
  unfold AgreesB
  cases x with
  | error e => cases y with
    | error e' => simp [Functor.map, Except.map] at h; simp [h]
    | ok b => simp [Functor.map, Except.map] at h
  | ok r => cases y with
    | error e' => simp [Functor.map, Except.map] at h
    | ok b =>
      simp only [Functor.map, Except.map, Except.ok.injEq, Prod.mk.injEq] at h
      obtain ⟨st', fl⟩ := r
      refine ⟨st', ?_, h.1⟩
      have := h.2
      simp only at this
      rw [this]

theorem agrees_of_map_eq' {β β' : Type} (proj : St P → β') (F : β → β') (x : R (St P × Flow P)) (y : R β)
    (h : (fun r => (proj r.1, r.2)) <$> x = (fun b => (F b, Flow.normal)) <$> y) :
    Agrees x y (fun st' b => proj st' = F b) := by
  unfold Agrees
  cases x with
  | error e => cases y with
    | error e' => simp [Functor.map, Except.map] at h; simp [h]
    | ok b => simp [Functor.map, Except.map] at h
  | ok r => cases y with
    | error e' => simp [Functor.map, Except.map] at h
    | ok b =>
      simp only [Functor.map, Except.map, Except.ok.injEq, Prod.mk.injEq] at h
      obtain ⟨st', fl⟩ := r
      exact ⟨st', by simp_all, h.1⟩

/-- one iteration of a `while` whose body either completes (the loop goes on) or `break`s -/
theorem AgreesB.bindW {β γ : Type} {x : R (St P × Flow P)} {y : R (β × Bool)} {rel1 : St P → β → Prop}
    {kx : St P → R (St P × Flow P)} {ky kb : β → R γ} {rel2 : St P → γ → Prop}
    (h : AgreesB x y rel1)
    (hk : ∀ st' b, y = .ok (b, true) → rel1 st' b → Agrees (kx st') (ky b) rel2)
    (hb : ∀ st' b, y = .ok (b, false) → rel1 st' b → Agrees (pure (st', Flow.normal)) (kb b) rel2) :
    Agrees (x >>= fun r => match r.2 with
      | .normal => kx r.1
      | .brk => pure (r.1, .normal)
      | .ret v => pure (r.1, .ret v)) (y >>= fun b => if b.2 then ky b.1 else kb b.1) rel2 := by
  cases y with
  | error e =>
    have h' : x = .error e := h
    subst h'; exact Agrees.error_iff _ _ _ |>.mpr rfl
  | ok b =>
    obtain ⟨b, c⟩ := b
    obtain ⟨st', hx, hr⟩ := h
    subst hx
    cases c with
    | true => exact hk st' b rfl hr
    | false => exact hb st' b rfl hr

theorem execStep_while [LT P] [DecidableLT P] (rec : Stmt → St P → R (St P × Flow P)) (callf : CallF P)
    (c : BExpr) (body : Stmt) (st : St P) :
    execStep rec callf (.while c body) st = (do
      let (s, b) ← evalB callf st c
      if b then do
        let (st, fl) ← execStep rec callf body (st.setS s)
        match fl with
        | .normal => rec (.while c body) st
        | .brk => pure (st, .normal)
        | .ret v => pure (st, .ret v)
      else pure (st.setS s, .normal)) := by
  rfl

theorem exec_succ [LT P] [DecidableLT P] (prog : Prog) (k : Nat) (c : Stmt) (st : St P) :
    execStep (exec prog k) (callWith (exec prog k) prog) c st = exec prog (k + 1) c st := rfl

/-! ## "this model expression never reports `.fuel`" -/

/-- `x` is not the out-of-fuel fault -/
def NoFuel {α : Type} (x : R α) : Prop := x ≠ .error .fuel

theorem NoFuel.pure {α : Type} (a : α) : NoFuel (pure a : R α) := by intro h; cases h
theorem NoFuel.ok {α : Type} (a : α) : NoFuel (.ok a : R α) := by intro h; cases h
theorem NoFuel.bind {α β : Type} {x : R α} {f : α → R β} (hx : NoFuel x) (hf : ∀ a, x = .ok a → NoFuel (f a)) :
    NoFuel (x >>= f) := by
  cases x with
  | error e =>
    intro h
    have h' : (Except.error e : R β) = .error .fuel := h
    injection h' with h'
    exact hx (by rw [h'])
  | ok a => exact hf a rfl
theorem NoFuel.ite {α : Type} {c : Prop} [Decidable c] {a b : R α} (ha : c → NoFuel a) (hb : ¬c → NoFuel b) :
    NoFuel (if c then a else b) := by
  split
  · exact ha ‹_›
  · exact hb ‹_›
theorem NoFuel.getU {α : Type} (a : Array α) (i site : Nat) : NoFuel (getU a i site) := by
  unfold PQ.getU; split <;> (intro h; cases h)
theorem NoFuel.setU {α : Type} (a : Array α) (i : Nat) (v : α) (site : Nat) : NoFuel (setU a i v site) := by
  unfold PQ.setU; split <;> (intro h; cases h)
theorem NoFuel.swapC {α : Type} (a : Array α) (i j site : Nat) : NoFuel (swapC a i j site) := by
  unfold PQ.swapC; split <;> (intro h; cases h)
theorem NoFuel.swapRemoveC {α : Type} (a : Array α) (i site : Nat) : NoFuel (swapRemoveC a i site) := by
  unfold PQ.swapRemoveC; split <;> (intro h; cases h)
theorem NoFuel.unwrapO {α : Type} (o : Option α) (site : Nat) : NoFuel (unwrapO o site) := by
  unfold PQ.unwrapO; split <;> (intro h; cases h)
theorem NoFuel.decC (x site : Nat) : NoFuel (decC x site) := by
  unfold PQ.decC; split <;> (intro h; cases h)

theorem NoFuel.swap (s : Store P) (a b : Nat) : NoFuel (s.swap a b) := by
  unfold Store.swap
  exact NoFuel.bind (NoFuel.getU _ _ _) fun _ _ => NoFuel.bind (NoFuel.getU _ _ _) fun _ _ =>
    NoFuel.bind (NoFuel.swapC _ _ _ _) fun _ _ => NoFuel.bind (NoFuel.swapC _ _ _ _) fun _ _ => NoFuel.pure _
theorem NoFuel.prioAt (s : Store P) (i : Nat) : NoFuel (s.prioAt i) := by
  unfold Store.prioAt
  exact NoFuel.bind (NoFuel.getU _ _ _) fun _ _ => NoFuel.bind (NoFuel.unwrapO _ _) fun _ _ => NoFuel.pure _

/-- proves `NoFuel e` for a loop-free `do` block over the memory primitives; extra facts about callees can be
supplied as hypotheses in the context (closed by `assumption`) -/
macro "no_fuel" : tactic => `(tactic|
  repeat' (first
    | assumption
    | exact NoFuel.pure _
    | exact NoFuel.ok _
    | exact NoFuel.getU _ _ _
    | exact NoFuel.setU _ _ _ _
    | exact NoFuel.swapC _ _ _ _
    | exact NoFuel.swapRemoveC _ _ _
    | exact NoFuel.unwrapO _ _
    | exact NoFuel.decC _ _
    | exact NoFuel.swap _ _ _
    | exact NoFuel.prioAt _ _
    | (refine NoFuel.bind ?_ (fun _ _ => ?_))
    | (refine NoFuel.ite (fun _ => ?_) (fun _ => ?_))
    | (intro h; cases h; done)))

/-! ## partial-correctness facts about model expressions -/

/-- partial-correctness postcondition of a model expression -/
def Post {α : Type} (x : R α) (Q : α → Prop) : Prop := ∀ a, x = .ok a → Q a
theorem Post.pure {α : Type} {a : α} {Q : α → Prop} (h : Q a) : Post (pure a : R α) Q := by
  intro b hb; cases hb; exact h
theorem Post.triv {α : Type} (x : R α) : Post x (fun _ => True) := fun _ _ => trivial
theorem Post.bind {α β : Type} {x : R α} {f : α → R β} {Q1 : α → Prop} {Q : β → Prop}
    (hx : Post x Q1) (hf : ∀ a, Q1 a → Post (f a) Q) : Post (x >>= f) Q := by
  cases x with
  | error e => intro b hb; cases hb
  | ok a => exact hf a (hx a rfl)
theorem Post.ite {α : Type} {c : Prop} [Decidable c] {a b : R α} {Q : α → Prop}
    (ha : c → Post a Q) (hb : ¬c → Post b Q) : Post (if c then a else b) Q := by
  split
  · exact ha ‹_›
  · exact hb ‹_›

/-! the equations of `execStep`, one per constructor of `Stmt`, except the one for `.while` (the ninth) -/
theorem es1 [LT P] [DecidableLT P] : type_of% (@Src.execStep.eq_1 P _ _) := @Src.execStep.eq_1 P _ _
theorem es2 [LT P] [DecidableLT P] : type_of% (@Src.execStep.eq_2 P _ _) := @Src.execStep.eq_2 P _ _
theorem es3 [LT P] [DecidableLT P] : type_of% (@Src.execStep.eq_3 P _ _) := @Src.execStep.eq_3 P _ _
theorem es4 [LT P] [DecidableLT P] : type_of% (@Src.execStep.eq_4 P _ _) := @Src.execStep.eq_4 P _ _
theorem es5 [LT P] [DecidableLT P] : type_of% (@Src.execStep.eq_5 P _ _) := @Src.execStep.eq_5 P _ _
theorem es6 [LT P] [DecidableLT P] : type_of% (@Src.execStep.eq_6 P _ _) := @Src.execStep.eq_6 P _ _
theorem es7 [LT P] [DecidableLT P] : type_of% (@Src.execStep.eq_7 P _ _) := @Src.execStep.eq_7 P _ _
theorem es8 [LT P] [DecidableLT P] : type_of% (@Src.execStep.eq_8 P _ _) := @Src.execStep.eq_8 P _ _
theorem es10 [LT P] [DecidableLT P] : type_of% (@Src.execStep.eq_10 P _ _) := @Src.execStep.eq_10 P _ _
theorem es11 [LT P] [DecidableLT P] : type_of% (@Src.execStep.eq_11 P _ _) := @Src.execStep.eq_11 P _ _
theorem es12 [LT P] [DecidableLT P] : type_of% (@Src.execStep.eq_12 P _ _) := @Src.execStep.eq_12 P _ _
theorem es13 [LT P] [DecidableLT P] : type_of% (@Src.execStep.eq_13 P _ _) := @Src.execStep.eq_13 P _ _
theorem es14 [LT P] [DecidableLT P] : type_of% (@Src.execStep.eq_14 P _ _) := @Src.execStep.eq_14 P _ _
theorem es15 [LT P] [DecidableLT P] : type_of% (@Src.execStep.eq_15 P _ _) := @Src.execStep.eq_15 P _ _
theorem es16 [LT P] [DecidableLT P] : type_of% (@Src.execStep.eq_16 P _ _) := @Src.execStep.eq_16 P _ _
theorem es17 [LT P] [DecidableLT P] : type_of% (@Src.execStep.eq_17 P _ _) := @Src.execStep.eq_17 P _ _
theorem es18 [LT P] [DecidableLT P] : type_of% (@Src.execStep.eq_18 P _ _) := @Src.execStep.eq_18 P _ _
theorem es19 [LT P] [DecidableLT P] : type_of% (@Src.execStep.eq_19 P _ _) := @Src.execStep.eq_19 P _ _
theorem es20 [LT P] [DecidableLT P] : type_of% (@Src.execStep.eq_20 P _ _) := @Src.execStep.eq_20 P _ _
theorem es21 [LT P] [DecidableLT P] : type_of% (@Src.execStep.eq_21 P _ _) := @Src.execStep.eq_21 P _ _
theorem es22 [LT P] [DecidableLT P] : type_of% (@Src.execStep.eq_22 P _ _) := @Src.execStep.eq_22 P _ _
theorem es23 [LT P] [DecidableLT P] : type_of% (@Src.execStep.eq_23 P _ _) := @Src.execStep.eq_23 P _ _
theorem es24 [LT P] [DecidableLT P] : type_of% (@Src.execStep.eq_24 P _ _) := @Src.execStep.eq_24 P _ _
theorem es25 [LT P] [DecidableLT P] : type_of% (@Src.execStep.eq_25 P _ _) := @Src.execStep.eq_25 P _ _
theorem es26 [LT P] [DecidableLT P] : type_of% (@Src.execStep.eq_26 P _ _) := @Src.execStep.eq_26 P _ _
theorem es27 [LT P] [DecidableLT P] : type_of% (@Src.execStep.eq_27 P _ _) := @Src.execStep.eq_27 P _ _
theorem es28 [LT P] [DecidableLT P] : type_of% (@Src.execStep.eq_28 P _ _) := @Src.execStep.eq_28 P _ _
theorem es29 [LT P] [DecidableLT P] : type_of% (@Src.execStep.eq_29 P _ _) := @Src.execStep.eq_29 P _ _
theorem es30 [LT P] [DecidableLT P] : type_of% (@Src.execStep.eq_30 P _ _) := @Src.execStep.eq_30 P _ _
theorem es31 [LT P] [DecidableLT P] : type_of% (@Src.execStep.eq_31 P _ _) := @Src.execStep.eq_31 P _ _
theorem es32 [LT P] [DecidableLT P] : type_of% (@Src.execStep.eq_32 P _ _) := @Src.execStep.eq_32 P _ _
theorem es33 [LT P] [DecidableLT P] : type_of% (@Src.execStep.eq_33 P _ _) := @Src.execStep.eq_33 P _ _
theorem es34 [LT P] [DecidableLT P] : type_of% (@Src.execStep.eq_34 P _ _) := @Src.execStep.eq_34 P _ _
theorem es35 [LT P] [DecidableLT P] : type_of% (@Src.execStep.eq_35 P _ _) := @Src.execStep.eq_35 P _ _
theorem es36 [LT P] [DecidableLT P] : type_of% (@Src.execStep.eq_36 P _ _) := @Src.execStep.eq_36 P _ _
theorem es37 [LT P] [DecidableLT P] : type_of% (@Src.execStep.eq_37 P _ _) := @Src.execStep.eq_37 P _ _
theorem es38 [LT P] [DecidableLT P] : type_of% (@Src.execStep.eq_38 P _ _) := @Src.execStep.eq_38 P _ _
theorem es39 [LT P] [DecidableLT P] : type_of% (@Src.execStep.eq_39 P _ _) := @Src.execStep.eq_39 P _ _
theorem es40 [LT P] [DecidableLT P] : type_of% (@Src.execStep.eq_40 P _ _) := @Src.execStep.eq_40 P _ _
theorem es41 [LT P] [DecidableLT P] : type_of% (@Src.execStep.eq_41 P _ _) := @Src.execStep.eq_41 P _ _
theorem es42 [LT P] [DecidableLT P] : type_of% (@Src.execStep.eq_42 P _ _) := @Src.execStep.eq_42 P _ _
theorem es43 [LT P] [DecidableLT P] : type_of% (@Src.execStep.eq_43 P _ _) := @Src.execStep.eq_43 P _ _
theorem es44 [LT P] [DecidableLT P] : type_of% (@Src.execStep.eq_44 P _ _) := @Src.execStep.eq_44 P _ _
theorem es45 [LT P] [DecidableLT P] : type_of% (@Src.execStep.eq_45 P _ _) := @Src.execStep.eq_45 P _ _
theorem es46 [LT P] [DecidableLT P] : type_of% (@Src.execStep.eq_46 P _ _) := @Src.execStep.eq_46 P _ _
theorem es47 [LT P] [DecidableLT P] : type_of% (@Src.execStep.eq_47 P _ _) := @Src.execStep.eq_47 P _ _
theorem es48 [LT P] [DecidableLT P] : type_of% (@Src.execStep.eq_48 P _ _) := @Src.execStep.eq_48 P _ _
theorem es49 [LT P] [DecidableLT P] : type_of% (@Src.execStep.eq_49 P _ _) := @Src.execStep.eq_49 P _ _
theorem es50 [LT P] [DecidableLT P] : type_of% (@Src.execStep.eq_50 P _ _) := @Src.execStep.eq_50 P _ _
theorem es51 [LT P] [DecidableLT P] : type_of% (@Src.execStep.eq_51 P _ _) := @Src.execStep.eq_51 P _ _
theorem es52 [LT P] [DecidableLT P] : type_of% (@Src.execStep.eq_52 P _ _) := @Src.execStep.eq_52 P _ _
theorem es53 [LT P] [DecidableLT P] : type_of% (@Src.execStep.eq_53 P _ _) := @Src.execStep.eq_53 P _ _
theorem es54 [LT P] [DecidableLT P] : type_of% (@Src.execStep.eq_54 P _ _) := @Src.execStep.eq_54 P _ _
theorem es55 [LT P] [DecidableLT P] : type_of% (@Src.execStep.eq_55 P _ _) := @Src.execStep.eq_55 P _ _
theorem es56 [LT P] [DecidableLT P] : type_of% (@Src.execStep.eq_56 P _ _) := @Src.execStep.eq_56 P _ _
theorem es57 [LT P] [DecidableLT P] : type_of% (@Src.execStep.eq_57 P _ _) := @Src.execStep.eq_57 P _ _
theorem es58 [LT P] [DecidableLT P] : type_of% (@Src.execStep.eq_58 P _ _) := @Src.execStep.eq_58 P _ _
theorem es59 [LT P] [DecidableLT P] : type_of% (@Src.execStep.eq_59 P _ _) := @Src.execStep.eq_59 P _ _
theorem es60 [LT P] [DecidableLT P] : type_of% (@Src.execStep.eq_60 P _ _) := @Src.execStep.eq_60 P _ _
theorem es61 [LT P] [DecidableLT P] : type_of% (@Src.execStep.eq_61 P _ _) := @Src.execStep.eq_61 P _ _
theorem es62 [LT P] [DecidableLT P] : type_of% (@Src.execStep.eq_62 P _ _) := @Src.execStep.eq_62 P _ _
theorem es63 [LT P] [DecidableLT P] : type_of% (@Src.execStep.eq_63 P _ _) := @Src.execStep.eq_63 P _ _
theorem es64 [LT P] [DecidableLT P] : type_of% (@Src.execStep.eq_64 P _ _) := @Src.execStep.eq_64 P _ _
theorem es65 [LT P] [DecidableLT P] : type_of% (@Src.execStep.eq_65 P _ _) := @Src.execStep.eq_65 P _ _
theorem es66 [LT P] [DecidableLT P] : type_of% (@Src.execStep.eq_66 P _ _) := @Src.execStep.eq_66 P _ _
theorem es67 [LT P] [DecidableLT P] : type_of% (@Src.execStep.eq_67 P _ _) := @Src.execStep.eq_67 P _ _
theorem es68 [LT P] [DecidableLT P] : type_of% (@Src.execStep.eq_68 P _ _) := @Src.execStep.eq_68 P _ _
theorem es69 [LT P] [DecidableLT P] : type_of% (@Src.execStep.eq_69 P _ _) := @Src.execStep.eq_69 P _ _
theorem es70 [LT P] [DecidableLT P] : type_of% (@Src.execStep.eq_70 P _ _) := @Src.execStep.eq_70 P _ _
theorem es71 [LT P] [DecidableLT P] : type_of% (@Src.execStep.eq_71 P _ _) := @Src.execStep.eq_71 P _ _
theorem es72 [LT P] [DecidableLT P] : type_of% (@Src.execStep.eq_72 P _ _) := @Src.execStep.eq_72 P _ _
theorem es73 [LT P] [DecidableLT P] : type_of% (@Src.execStep.eq_73 P _ _) := @Src.execStep.eq_73 P _ _
theorem es74 [LT P] [DecidableLT P] : type_of% (@Src.execStep.eq_74 P _ _) := @Src.execStep.eq_74 P _ _
theorem es75 [LT P] [DecidableLT P] : type_of% (@Src.execStep.eq_75 P _ _) := @Src.execStep.eq_75 P _ _
theorem es76 [LT P] [DecidableLT P] : type_of% (@Src.execStep.eq_76 P _ _) := @Src.execStep.eq_76 P _ _
theorem es77 [LT P] [DecidableLT P] : type_of% (@Src.execStep.eq_77 P _ _) := @Src.execStep.eq_77 P _ _
theorem es78 [LT P] [DecidableLT P] : type_of% (@Src.execStep.eq_78 P _ _) := @Src.execStep.eq_78 P _ _
theorem es79 [LT P] [DecidableLT P] : type_of% (@Src.execStep.eq_79 P _ _) := @Src.execStep.eq_79 P _ _
theorem es80 [LT P] [DecidableLT P] : type_of% (@Src.execStep.eq_80 P _ _) := @Src.execStep.eq_80 P _ _
theorem es81 [LT P] [DecidableLT P] : type_of% (@Src.execStep.eq_81 P _ _) := @Src.execStep.eq_81 P _ _
theorem es82 [LT P] [DecidableLT P] : type_of% (@Src.execStep.eq_82 P _ _) := @Src.execStep.eq_82 P _ _
theorem es83 [LT P] [DecidableLT P] : type_of% (@Src.execStep.eq_83 P _ _) := @Src.execStep.eq_83 P _ _
theorem es84 [LT P] [DecidableLT P] : type_of% (@Src.execStep.eq_84 P _ _) := @Src.execStep.eq_84 P _ _
theorem es85 [LT P] [DecidableLT P] : type_of% (@Src.execStep.eq_85 P _ _) := @Src.execStep.eq_85 P _ _
theorem es86 [LT P] [DecidableLT P] : type_of% (@Src.execStep.eq_86 P _ _) := @Src.execStep.eq_86 P _ _
theorem es87 [LT P] [DecidableLT P] : type_of% (@Src.execStep.eq_87 P _ _) := @Src.execStep.eq_87 P _ _

/-- symbolic evaluation of the interpreter -/
syntax "src_eval" (" [" Lean.Parser.Tactic.simpLemma,* "]")? : tactic
macro_rules
  | `(tactic| src_eval) => `(tactic| src_eval [])
  | `(tactic| src_eval [$ls,*]) => `(tactic|
      simp only [PQ.SrcEquiv.es1, PQ.SrcEquiv.es2, PQ.SrcEquiv.es3, PQ.SrcEquiv.es4, PQ.SrcEquiv.es5, PQ.SrcEquiv.es6, PQ.SrcEquiv.es7, PQ.SrcEquiv.es8, PQ.SrcEquiv.es10, PQ.SrcEquiv.es11, PQ.SrcEquiv.es12, PQ.SrcEquiv.es13, PQ.SrcEquiv.es14, PQ.SrcEquiv.es15, PQ.SrcEquiv.es16, PQ.SrcEquiv.es17, PQ.SrcEquiv.es18, PQ.SrcEquiv.es19, PQ.SrcEquiv.es20, PQ.SrcEquiv.es21, PQ.SrcEquiv.es22, PQ.SrcEquiv.es23, PQ.SrcEquiv.es24, PQ.SrcEquiv.es25, PQ.SrcEquiv.es26, PQ.SrcEquiv.es27, PQ.SrcEquiv.es28, PQ.SrcEquiv.es29, PQ.SrcEquiv.es30, PQ.SrcEquiv.es31, PQ.SrcEquiv.es32, PQ.SrcEquiv.es33, PQ.SrcEquiv.es34, PQ.SrcEquiv.es35, PQ.SrcEquiv.es36, PQ.SrcEquiv.es37, PQ.SrcEquiv.es38, PQ.SrcEquiv.es39, PQ.SrcEquiv.es40, PQ.SrcEquiv.es41, PQ.SrcEquiv.es42, PQ.SrcEquiv.es43, PQ.SrcEquiv.es44, PQ.SrcEquiv.es45, PQ.SrcEquiv.es46, PQ.SrcEquiv.es47, PQ.SrcEquiv.es48, PQ.SrcEquiv.es49, PQ.SrcEquiv.es50, PQ.SrcEquiv.es51, PQ.SrcEquiv.es52, PQ.SrcEquiv.es53, PQ.SrcEquiv.es54, PQ.SrcEquiv.es55, PQ.SrcEquiv.es56, PQ.SrcEquiv.es57, PQ.SrcEquiv.es58, PQ.SrcEquiv.es59, PQ.SrcEquiv.es60, PQ.SrcEquiv.es61, PQ.SrcEquiv.es62, PQ.SrcEquiv.es63, PQ.SrcEquiv.es64, PQ.SrcEquiv.es65, PQ.SrcEquiv.es66, PQ.SrcEquiv.es67, PQ.SrcEquiv.es68, PQ.SrcEquiv.es69, PQ.SrcEquiv.es70, PQ.SrcEquiv.es71, PQ.SrcEquiv.es72, PQ.SrcEquiv.es73, PQ.SrcEquiv.es74, PQ.SrcEquiv.es75, PQ.SrcEquiv.es76, PQ.SrcEquiv.es77, PQ.SrcEquiv.es78, PQ.SrcEquiv.es79, PQ.SrcEquiv.es80, PQ.SrcEquiv.es81, PQ.SrcEquiv.es82, PQ.SrcEquiv.es84, PQ.SrcEquiv.es85, PQ.SrcEquiv.es86, PQ.SrcEquiv.es87, Src.evalO, Src.evalN, Src.evalNs, Src.evalP, Src.evalPs, Src.evalVs,
        Src.evalB, Src.bindN, Src.bindP, Src.bindV, Src.upd, Src.St.setS, Src.St.setN, Src.St.setP, Src.St.setV,
        bind_assoc, pure_bind, map_eq_pure_bind, Function.comp, PQ.SrcEquiv.ite_bind, PQ.SrcEquiv.error_bind,
        PQ.SrcEquiv.ok_bind, PQ.SrcEquiv.fin_normal, PQ.SrcEquiv.fin_ret, decide_eq_true_eq,
        PQ.SrcEquiv.prioAt_tick, PQ.SrcEquiv.size_tick, PQ.SrcEquiv.heap_tick, PQ.SrcEquiv.qp_tick, PQ.SrcEquiv.map_tick,
        ↓reduceIte, Nat.reduceEqDiff, $ls,*])

/-- enter the body of the function a `Src.run` / top-level `callWith` calls (callees stay folded, for the call lemmas) -/
syntax "src_enter" (" [" Lean.Parser.Tactic.simpLemma,* "]")? : tactic
macro_rules
  | `(tactic| src_enter) => `(tactic| src_enter [])
  | `(tactic| src_enter [$ls,*]) => `(tactic|
      (simp only [Src.run]; rw [PQ.SrcEquiv.callWith_eq]; simp only [$ls,*]; rw [Src.exec]))

/-- closes `do … = do …` goals whose two sides read the same things in the same order -/
macro "src_close" : tactic => `(tactic|
  repeat' (first
    | with_reducible rfl
    | (refine PQ.SrcEquiv.getU_bind_congr fun _ _ => ?_)
    | (refine PQ.SrcEquiv.bind_congr_ok fun _ _ => ?_)
    | split
    | (simp only [*, PQ.SrcEquiv.ok_bind, PQ.SrcEquiv.error_bind, pure_bind, bind_assoc,
        PQ.SrcEquiv.fin_ret, PQ.SrcEquiv.fin_normal])
    | (simp only [map_eq_pure_bind, Function.comp, pure_bind, bind_assoc]; refine PQ.SrcEquiv.bind_congr_ok fun _ _ => ?_)
    | (simp only [pure_bind, bind_assoc, PQ.SrcEquiv.fin_ret, PQ.SrcEquiv.fin_normal]; rfl)
    | (simp_all; done)
    | (simp only [PQ.SrcEquiv.getU_ok_iff] at *; simp_all [PQ.getU, PQ.SrcEquiv.ok_bind, PQ.SrcEquiv.error_bind]; done)))

end PQ.SrcEquiv
