import PQ.Lemmas.Spec
import PQ.Lemmas.DQSafe
/-!
# `DoublePriorityQueue`: operation-level refinement

With the invariant `DQ.Inv s = s.WF ∧ s.MinMaxHeap` every public operation of `PQ/Model/DPQ.lean` is fault-free,
re-establishes `Inv`, acts on the abstract contents `Store.abs` as the specification says (`absPush`, `absRemove`,
`absSet`, `Store.absStep`), and `peek_min`/`pop_min` address a minimum, `peek_max`/`pop_max` a maximum.

Every theorem here is the "ordered" projection of the corresponding `*_core` theorem of `DQSafe.lean` (whose other
projection, `*_safe`, assumes `WF` only).
-/
set_option linter.unusedSimpArgs false
set_option linter.unusedSectionVars false
set_option linter.unusedVariables false
namespace PQ
open Arith Store
variable {P : Type} [LT P] [DecidableLT P] [LE P] [Std.IsLinearPreorder P] [Std.LawfulOrderLT P]

namespace DQ

/-! ## The peeks -/

theorem peekMin_inv {s : Store P} (h : Inv s) :
    (s.size = 0 → peekMin s = .ok none) ∧ (0 < s.size → ∃ e, peekMin s = .ok (some e) ∧ s.IsMin e) :=
  ⟨peekMin_empty, peekMin_spec h.1 h.2⟩

theorem peekMax_inv {s : Store P} (h : Inv s) :
    (s.size = 0 → peekMax s = .ok (s, none)) ∧
    (0 < s.size → ∃ k e, peekMax s = .ok (s.tick k, some e) ∧ k ≤ 1 ∧ s.IsMax e) :=
  ⟨peekMax_empty, peekMax_spec h.1 h.2⟩

/-- `peek_min_mut` followed by a key-preserving write to the item: the minimum is addressed, only its payload changes -/
theorem peekMinMutWrite_spec {s : Store P} (h : Inv s) (w : Item → Item) (hw : ∀ it, (w it).key = it.key) :
    (s.size = 0 → peekMinMutWrite s w = .ok (s, none)) ∧
    (0 < s.size → ∃ s' e, peekMinMutWrite s w = .ok (s', some e) ∧ peekMin s = .ok (some e) ∧ s.IsMin e ∧ Inv s' ∧
        s'.abs = absSet s.abs e.1.key (w e.1, e.2) ∧ s'.size = s.size) := by
  obtain ⟨h0, h1⟩ := peekMinMutWrite_core h.1 w hw
  refine ⟨h0, fun hn => ?_⟩
  obtain ⟨s', e, hrun, hpk, hwf, hsz, habs, hord⟩ := h1 hn
  exact ⟨s', e, hrun, hpk, (hord h.2).2, ⟨hwf, (hord h.2).1⟩, habs, hsz⟩

theorem peekMaxMutWrite_spec {s : Store P} (h : Inv s) (w : Item → Item) (hw : ∀ it, (w it).key = it.key) :
    (s.size = 0 → peekMaxMutWrite s w = .ok (s, none)) ∧
    (0 < s.size → ∃ k s' e, peekMaxMutWrite s w = .ok (s', some e) ∧ peekMax s = .ok (s.tick k, some e) ∧ k ≤ 1 ∧
        s.IsMax e ∧ Inv s' ∧ s'.abs = absSet s.abs e.1.key (w e.1, e.2) ∧ s'.size = s.size) := by
  obtain ⟨h0, h1⟩ := peekMaxMutWrite_core h.1 w hw
  refine ⟨h0, fun hn => ?_⟩
  obtain ⟨k, s', e, hrun, hpk, hk, hwf, hsz, _, habs, hord⟩ := h1 hn
  exact ⟨k, s', e, hrun, hpk, hk, (hord h.2).2, ⟨hwf, (hord h.2).1⟩, habs, hsz⟩

/-! ## `push` and its conditional variants -/

theorem push_spec {s : Store P} (h : Inv s) (it : Item) (p : P) :
    ∃ s', push s it p = .ok (s', (s.abs it.key).map (·.2)) ∧ Inv s' ∧ s'.abs = absPush s.abs it p ∧
      s'.size = if (s.abs it.key).isSome then s.size else s.size + 1 := by
  obtain ⟨s', h1, h2, h3, h4, h5⟩ := push_core h.1 it p
  exact ⟨s', h1, ⟨h2, h5 h.2⟩, h3, h4⟩

/-- `push_increase`: absent ⇒ inserted; present with a smaller priority ⇒ updated (old priority returned); otherwise the
state is unchanged up to the one comparison and the offered priority is handed back -/
theorem pushIncrease_spec {s : Store P} (h : Inv s) (it : Item) (p : P) :
    (s.abs it.key = none → ∃ s', pushIncrease s it p = .ok (s', none) ∧ Inv s' ∧ s'.abs = absPush s.abs it p ∧
        s'.size = s.size + 1) ∧
    (∀ e, s.abs it.key = some e → e.2 < p → ∃ s', pushIncrease s it p = .ok (s', some e.2) ∧ Inv s' ∧
        s'.abs = absPush s.abs it p ∧ s'.size = s.size) ∧
    (∀ e, s.abs it.key = some e → ¬ e.2 < p → pushIncrease s it p = .ok (s.tick, some p)) := by
  obtain ⟨s', r, hrun, hwf, h0, h1, hord⟩ := pushIncrease_core h.1 it p
  refine ⟨?_, ?_, ?_⟩
  · intro hl
    obtain ⟨rfl, habs, hsz⟩ := h0 hl
    exact ⟨s', hrun, ⟨hwf, hord h.2⟩, habs, hsz⟩
  · intro e hl hlt
    obtain ⟨rfl, habs, hsz⟩ := (h1 e hl).1 hlt
    exact ⟨s', hrun, ⟨hwf, hord h.2⟩, habs, hsz⟩
  · intro e hl hlt
    obtain ⟨rfl, rfl⟩ := (h1 e hl).2 hlt
    exact hrun

theorem pushDecrease_spec {s : Store P} (h : Inv s) (it : Item) (p : P) :
    (s.abs it.key = none → ∃ s', pushDecrease s it p = .ok (s', none) ∧ Inv s' ∧ s'.abs = absPush s.abs it p ∧
        s'.size = s.size + 1) ∧
    (∀ e, s.abs it.key = some e → p < e.2 → ∃ s', pushDecrease s it p = .ok (s', some e.2) ∧ Inv s' ∧
        s'.abs = absPush s.abs it p ∧ s'.size = s.size) ∧
    (∀ e, s.abs it.key = some e → ¬ p < e.2 → pushDecrease s it p = .ok (s.tick, some p)) := by
  obtain ⟨s', r, hrun, hwf, h0, h1, hord⟩ := pushDecrease_core h.1 it p
  refine ⟨?_, ?_, ?_⟩
  · intro hl
    obtain ⟨rfl, habs, hsz⟩ := h0 hl
    exact ⟨s', hrun, ⟨hwf, hord h.2⟩, habs, hsz⟩
  · intro e hl hlt
    obtain ⟨rfl, habs, hsz⟩ := (h1 e hl).1 hlt
    exact ⟨s', hrun, ⟨hwf, hord h.2⟩, habs, hsz⟩
  · intro e hl hlt
    obtain ⟨rfl, rfl⟩ := (h1 e hl).2 hlt
    exact hrun

/-- ticking keeps the invariant (the "no change" result of `push_increase` / `push_decrease`) -/
theorem inv_tick {s : Store P} (h : Inv s) (k : Nat) : Inv (s.tick k) := ⟨tick_WF.mpr h.1, h.2⟩

/-! ## `pop_min`, `pop_max` -/

theorem popMin_spec {s : Store P} (h : Inv s) :
    (s.size = 0 → popMin s = .ok (s, none)) ∧
    (0 < s.size → ∃ s' e, popMin s = .ok (s', some e) ∧ peekMin s = .ok (some e) ∧ s.IsMin e ∧ Inv s' ∧
        s'.abs = absRemove s.abs e.1.key ∧ s'.size = s.size - 1) := by
  obtain ⟨h0, h1⟩ := popMin_core h.1
  refine ⟨h0, fun hn => ?_⟩
  obtain ⟨s', e, hrun, hpk, _, hwf, habs, hsz, hord⟩ := h1 hn
  exact ⟨s', e, hrun, hpk, (hord h.2).2, ⟨hwf, (hord h.2).1⟩, habs, hsz⟩

/-- `pop_max` removes the entry `peek_max` reports, a maximum (the result store is computed from `s.tick k`, `k ≤ 1` the
comparison of `find_max`) -/
theorem popMax_spec {s : Store P} (h : Inv s) :
    (s.size = 0 → popMax s = .ok (s, none)) ∧
    (0 < s.size → ∃ k s' e, popMax s = .ok (s', some e) ∧ peekMax s = .ok (s.tick k, some e) ∧ k ≤ 1 ∧ s.IsMax e ∧
        Inv s' ∧ s'.abs = absRemove s.abs e.1.key ∧ s'.size = s.size - 1) := by
  obtain ⟨h0, h1⟩ := popMax_core h.1
  refine ⟨h0, fun hn => ?_⟩
  obtain ⟨k, s', e, hrun, hpk, hk, _, hwf, habs, hsz, hord⟩ := h1 hn
  exact ⟨k, s', e, hrun, hpk, hk, (hord h.2).2, ⟨hwf, (hord h.2).1⟩, habs, hsz⟩

/-! ## `pop_min_if`, `pop_max_if` -/

/-- the predicate is applied to exactly the entry `peek_min` reports (a minimum); `true` ⇒ the rewritten entry is
returned and its key removed, `false` ⇒ `none` and the entry is rewritten in place; `Inv` in both cases -/
theorem popMinIf_spec {s : Store P} (h : Inv s) (f : Item → P → Bool × Item × P)
    (hf : ∀ it p, (f it p).2.1.key = it.key) :
    (s.size = 0 → popMinIf s f = .ok (s, none)) ∧
    (0 < s.size → ∃ e, peekMin s = .ok (some e) ∧ s.IsMin e ∧
      ((f e.1 e.2).1 = true → ∃ s', popMinIf s f = .ok (s', some ((f e.1 e.2).2.1, (f e.1 e.2).2.2)) ∧ Inv s' ∧
          s'.abs = absRemove s.abs e.1.key ∧ s'.size = s.size - 1) ∧
      ((f e.1 e.2).1 = false → ∃ s', popMinIf s f = .ok (s', none) ∧ Inv s' ∧
          s'.abs = absSet s.abs e.1.key ((f e.1 e.2).2.1, (f e.1 e.2).2.2) ∧ s'.size = s.size)) := by
  obtain ⟨h0, h1⟩ := popMinIf_core h.1 f hf
  refine ⟨h0, fun hn => ?_⟩
  obtain ⟨e, hpk, _, hmin, ht, hfl⟩ := h1 hn
  refine ⟨e, hpk, hmin h.2, ?_, ?_⟩
  · intro hr
    obtain ⟨s', hrun, hwf, habs, hsz, hord⟩ := ht hr
    exact ⟨s', hrun, ⟨hwf, hord h.2⟩, habs, hsz⟩
  · intro hr
    obtain ⟨s', hrun, hwf, habs, hsz, hord⟩ := hfl hr
    exact ⟨s', hrun, ⟨hwf, hord h.2⟩, habs, hsz⟩

theorem popMaxIf_spec {s : Store P} (h : Inv s) (f : Item → P → Bool × Item × P)
    (hf : ∀ it p, (f it p).2.1.key = it.key) :
    (s.size = 0 → popMaxIf s f = .ok (s, none)) ∧
    (0 < s.size → ∃ k e, peekMax s = .ok (s.tick k, some e) ∧ k ≤ 1 ∧ s.IsMax e ∧
      ((f e.1 e.2).1 = true → ∃ s', popMaxIf s f = .ok (s', some ((f e.1 e.2).2.1, (f e.1 e.2).2.2)) ∧ Inv s' ∧
          s'.abs = absRemove s.abs e.1.key ∧ s'.size = s.size - 1) ∧
      ((f e.1 e.2).1 = false → ∃ s', popMaxIf s f = .ok (s', none) ∧ Inv s' ∧
          s'.abs = absSet s.abs e.1.key ((f e.1 e.2).2.1, (f e.1 e.2).2.2) ∧ s'.size = s.size)) := by
  obtain ⟨h0, h1⟩ := popMaxIf_core h.1 f hf
  refine ⟨h0, fun hn => ?_⟩
  obtain ⟨k, e, hpk, hk, _, hmax, ht, hfl⟩ := h1 hn
  refine ⟨k, e, hpk, hk, hmax h.2, ?_, ?_⟩
  · intro hr
    obtain ⟨s', hrun, hwf, habs, hsz, hord⟩ := ht hr
    exact ⟨s', hrun, ⟨hwf, hord h.2⟩, habs, hsz⟩
  · intro hr
    obtain ⟨s', hrun, hwf, habs, hsz, hord⟩ := hfl hr
    exact ⟨s', hrun, ⟨hwf, hord h.2⟩, habs, hsz⟩

/-! ## `change_priority`, `change_priority_by`, `remove` -/

theorem changePriority_spec {s : Store P} (h : Inv s) (k : Nat) (p : P) :
    (s.abs k = none → changePriority s k p = .ok (s, none)) ∧
    (∀ e, s.abs k = some e → ∃ s', changePriority s k p = .ok (s', some e.2) ∧ Inv s' ∧
        s'.abs = absSet s.abs k (e.1, p) ∧ s'.size = s.size) := by
  obtain ⟨h0, h1⟩ := changePriority_core h.1 k p
  refine ⟨h0, fun e hl => ?_⟩
  obtain ⟨s', hrun, hwf, habs, hsz, hord⟩ := h1 e hl
  exact ⟨s', hrun, ⟨hwf, hord h.2⟩, habs, hsz⟩

theorem changePriorityBy_spec {s : Store P} (h : Inv s) (k : Nat) (setter : P → P) :
    (s.abs k = none → changePriorityBy s k setter = .ok (s, false)) ∧
    (∀ e, s.abs k = some e → ∃ s', changePriorityBy s k setter = .ok (s', true) ∧ Inv s' ∧
        s'.abs = absSet s.abs k (e.1, setter e.2) ∧ s'.size = s.size) := by
  obtain ⟨h0, h1⟩ := changePriorityBy_core h.1 k setter
  refine ⟨h0, fun e hl => ?_⟩
  obtain ⟨s', hrun, hwf, habs, hsz, hord⟩ := h1 e hl
  exact ⟨s', hrun, ⟨hwf, hord h.2⟩, habs, hsz⟩

theorem remove_spec {s : Store P} (h : Inv s) (k : Nat) :
    (s.abs k = none → remove s k = .ok (s, none)) ∧
    (∀ e, s.abs k = some e → ∃ s', remove s k = .ok (s', some e) ∧ Inv s' ∧
        s'.abs = absRemove s.abs k ∧ s'.size = s.size - 1) := by
  obtain ⟨h0, h1⟩ := remove_core h.1 k
  refine ⟨h0, fun e hl => ?_⟩
  obtain ⟨s', hrun, hwf, habs, hsz, hord⟩ := h1 e hl
  exact ⟨s', hrun, ⟨hwf, hord h.2⟩, habs, hsz⟩

/-! ## Bulk operations (`Inv` of the result needs `WF` of the arguments only: they all end in `heap_build`) -/

theorem retainMut_spec {s : Store P} (h : s.WF) (f : Item → P → Bool × Item × P)
    (hf : ∀ it p, (f it p).2.1.key = it.key) :
    ∃ s', retainMut s f = .ok s' ∧ Inv s' ∧ s'.abs = (fun k => (s.abs k).bind (IMap.retainStep f)) ∧
      s'.map.toList = s.map.toList.filterMap (IMap.retainStep f) ∧
      s'.size = (s.map.toList.filterMap (IMap.retainStep f)).length := by
  obtain ⟨s', h1, h2, h3, h4, h5, h6⟩ := retainMut_safe h f hf
  exact ⟨s', h1, ⟨h2, h3⟩, h4, h5, h6⟩

/-- `append`: the union (on a clash the entry of the larger queue — the receiver after the swap — stays); the donor is
left empty -/
theorem append_spec {s o : Store P} (hs : s.WF) (ho : o.WF) :
    ∃ s' o', append s o = .ok (s', o') ∧ Inv s' ∧ Inv o' ∧ o'.size = 0 ∧ (∀ k, o'.abs k = none) ∧
      (∀ k, s'.abs k = if o.size > s.size then (o.abs k).or (s.abs k) else (s.abs k).or (o.abs k)) := by
  obtain ⟨s', o', h1, h2, h3, h4, h5, h6, h7, h8⟩ := append_safe hs ho
  exact ⟨s', o', h1, ⟨h2, h3⟩, ⟨h4, h5⟩, h6, h7, h8⟩

/-- `From<Vec>`: the FIRST pair of each key -/
theorem fromVec_spec (v : Array (Item × P)) :
    ∃ s', fromVec v = .ok s' ∧ Inv s' ∧ (∀ k, s'.abs k = v.toList.find? (fun e => e.1.key == k)) ∧
      s'.size = (v.toList.map (·.1.key)).eraseDups.length := by
  obtain ⟨s', h1, h2, h3, h4, h5⟩ := fromVec_safe v
  exact ⟨s', h1, ⟨h2, h3⟩, h4, h5⟩

/-- `FromIterator` (every `size_hint` lower bound below the capacity limit): the LAST pair of each key -/
theorem fromIter_spec (lo : Nat) (xs : Array (Item × P)) (hlo : lo < capLimit) :
    ∃ s', fromIter lo xs = .ok s' ∧ Inv s' ∧ (∀ k, s'.abs k = xs.toList.reverse.find? (fun e => e.1.key == k)) ∧
      s'.size = (xs.toList.map (·.1.key)).eraseDups.length := by
  obtain ⟨s', h1, h2, h3, h4, h5⟩ := fromIter_safe lo xs hlo
  exact ⟨s', h1, ⟨h2, h3⟩, h4, h5⟩

/-- the deserializer is total: EVERY sequence, under EVERY announced length `hint`, yields a queue satisfying the invariant,
with the contents of `extend` from the empty queue (item of the first, priority of the last pair of each key) -/
theorem deserialize_spec (hint : Option Nat) (xs : Array (Item × P)) :
    ∃ s', deserialize hint xs = .ok s' ∧ Inv s' ∧ s'.abs = xs.foldl Store.absStep (fun _ => none) ∧
      s'.size = (xs.toList.map (·.1.key)).eraseDups.length := by
  obtain ⟨s', h1, h2, h3, h4, h5⟩ := deserialize_safe hint xs
  exact ⟨s', h1, ⟨h2, h3⟩, h4, h5⟩

/-- `From<PriorityQueue>`: any well-formed store becomes a min-max heap with the same contents -/
theorem ofStore_spec {s : Store P} (h : s.WF) :
    ∃ s', ofStore s = .ok s' ∧ Inv s' ∧ s'.abs = s.abs ∧ s'.size = s.size := by
  obtain ⟨s', h1, h2, h3, h4, h5⟩ := ofStore_safe h
  exact ⟨s', h1, ⟨h2, h3⟩, h4, h5⟩

theorem pushAll_spec {s : Store P} (h : Inv s) (es : List (Item × P)) :
    ∃ s', pushAll es s = .ok s' ∧ Inv s' ∧ s'.abs = es.foldl Store.absStep s.abs := by
  obtain ⟨s', h1, h2, h3, h4⟩ := pushAll_core es h.1
  exact ⟨s', h1, ⟨h2, h4 h.2⟩, h3⟩

/-- `Extend::extend`, for EVERY size hint `lo` below the capacity limit: both strategies (rebuild / push one by one) yield
the same contents, payloads included -/
theorem extend_spec {s : Store P} (h : Inv s) (lo : Nat) (xs : Array (Item × P)) (hlo : lo < capLimit) :
    ∃ s', extend s lo xs = .ok s' ∧ Inv s' ∧ s'.abs = xs.foldl Store.absStep s.abs := by
  obtain ⟨s', h1, h2, h3, h4⟩ := extend_core h.1 lo xs hlo
  exact ⟨s', h1, ⟨h2, h4 h.2⟩, h3⟩

/-! ## The double-ended sorted iterator and the sorted vectors -/

theorem sortedRun_nil {Q : Bool → (Nat → Option (Item × P)) → Item × P → Prop} {f f' : Nat → Option (Item × P)} :
    SortedRun Q f [] [] f' ↔ f' = f := by simp [SortedRun]

theorem sortedRun_cons_none {Q : Bool → (Nat → Option (Item × P)) → Item × P → Prop} {f f' : Nat → Option (Item × P)}
    {b : Bool} {bs : List Bool} {outs : List (Option (Item × P))} :
    SortedRun Q f (b :: bs) (none :: outs) f' ↔ (∀ k, f k = none) ∧ SortedRun Q f bs outs f' := by simp [SortedRun]

theorem sortedRun_cons_some {Q : Bool → (Nat → Option (Item × P)) → Item × P → Prop} {f f' : Nat → Option (Item × P)}
    {b : Bool} {bs : List Bool} {e : Item × P} {outs : List (Option (Item × P))} :
    SortedRun Q f (b :: bs) (some e :: outs) f' ↔ Q b f e ∧ SortedRun Q (absRemove f e.1.key) bs outs f' := by
  simp [SortedRun]

theorem extremeQ_false {f : Nat → Option (Item × P)} {e : Item × P} : ExtremeQ false f e ↔ AbsIsMin f e := by
  simp [ExtremeQ]

theorem extremeQ_true {f : Nat → Option (Item × P)} {e : Item × P} : ExtremeQ true f e ↔ AbsIsMax f e := by
  simp [ExtremeQ]

/-- **The double-ended sorted iterator.**  Any interleaving `calls` of `next` (`false`) and `next_back` (`true`) runs
without fault; `SortedRun ExtremeQ` says: each `next` returned a minimum and each `next_back` a maximum of what was held
at that moment (and that key was removed), `none` exactly when nothing was held.  The entries returned have pairwise
distinct keys, the invariant holds afterwards, and the size went down by the number of entries returned. -/
theorem sortedCalls_spec {s : Store P} (h : Inv s) (calls : List Bool) :
    ∃ outs s', sortedCalls calls s = .ok (outs, s') ∧ Inv s' ∧ outs.length = calls.length ∧
      SortedRun ExtremeQ s.abs calls outs s'.abs ∧ ((outs.filterMap id).map (·.1.key)).Nodup ∧
      s'.size = s.size - min s.size calls.length := by
  obtain ⟨outs, s', h1, h2, h3, h4, h5, h6⟩ := sortedCalls_core calls h.1
  exact ⟨outs, s', h1, ⟨h2, (h6 h.2).1⟩, h3, (h6 h.2).2, SortedRun.nodup (fun _ _ _ hq => hq) h5, h4⟩

theorem intoAscendingSortedVec_spec {s : Store P} (h : Inv s) :
    ∃ l, intoAscendingSortedVec s = .ok l ∧ l.length = s.size ∧ (∀ e, e ∈ l ↔ s.Mem e) ∧
      l.Pairwise (fun a b => ¬ b.2 < a.2) ∧ (l.map (·.1.key)).Nodup := by
  obtain ⟨l, h1, h2, h3, h4, h5⟩ := intoAscendingSortedVec_core h.1
  exact ⟨l, h1, h2, h3, h5 h.2, h4⟩

theorem intoDescendingSortedVec_spec {s : Store P} (h : Inv s) :
    ∃ l, intoDescendingSortedVec s = .ok l ∧ l.length = s.size ∧ (∀ e, e ∈ l ↔ s.Mem e) ∧
      l.Pairwise (fun a b => ¬ a.2 < b.2) ∧ (l.map (·.1.key)).Nodup := by
  obtain ⟨l, h1, h2, h3, h4, h5⟩ := intoDescendingSortedVec_core h.1
  exact ⟨l, h1, h2, h3, h5 h.2, h4⟩

theorem drainAsc_spec {s : Store P} (h : Inv s) {fuel : Nat} (hf : s.size < fuel) :
    ∃ l, drainAsc fuel s = .ok l ∧ l.length = s.size ∧ (∀ e, e ∈ l ↔ s.Mem e) ∧
      l.Pairwise (fun a b => ¬ b.2 < a.2) ∧ (l.map (·.1.key)).Nodup := by
  obtain ⟨l, h1, h2, h3, h4, h5⟩ := drainAsc_core fuel h.1 hf
  exact ⟨l, h1, h2, fun e => (h3 e).trans (mem_iff_abs h.1).symm, h5 h.2, h4⟩

theorem drainDesc_spec {s : Store P} (h : Inv s) {fuel : Nat} (hf : s.size < fuel) :
    ∃ l, drainDesc fuel s = .ok l ∧ l.length = s.size ∧ (∀ e, e ∈ l ↔ s.Mem e) ∧
      l.Pairwise (fun a b => ¬ a.2 < b.2) ∧ (l.map (·.1.key)).Nodup := by
  obtain ⟨l, h1, h2, h3, h4, h5⟩ := drainDesc_core fuel h.1 hf
  exact ⟨l, h1, h2, fun e => (h3 e).trans (mem_iff_abs h.1).symm, h5 h.2, h4⟩

/-- the empty queue satisfies the invariant -/
theorem inv_empty : Inv (Store.empty : Store P) :=
  ⟨wf_empty, fun a d _ hd => by simp [Store.empty] at hd⟩

/-! ## Non-vacuity: a concrete queue built by the model satisfies the hypotheses, and the model does what the theorems say -/

/-- nine pairs, key `2` twice (`From<Vec>` keeps the first) -/
def exV : Array (Item × Nat) :=
  #[(⟨1, 0⟩, 50), (⟨2, 0⟩, 20), (⟨3, 0⟩, 70), (⟨4, 0⟩, 10), (⟨5, 0⟩, 60), (⟨6, 0⟩, 30), (⟨2, 9⟩, 99), (⟨7, 0⟩, 40),
    (⟨8, 0⟩, 80)]

/-- the queue `DoublePriorityQueue::from(exV)` as the model computes it -/
def exQ : Store Nat := match fromVec exV with | .ok s => s | .error _ => Store.empty

theorem exQ_run : fromVec exV = .ok exQ := by
  obtain ⟨s', h, _⟩ := fromVec_spec exV
  simp [exQ, h]

theorem exQ_inv : Inv exQ := by
  obtain ⟨s', h, hinv, _⟩ := fromVec_spec exV
  rw [exQ_run] at h; cases h; exact hinv

example : exQ.size = 8 ∧ exQ.abs 2 = some (⟨2, 0⟩, 20) ∧ exQ.abs 9 = none := by decide +kernel
example : Inv exQ ∧ 0 < exQ.size := ⟨exQ_inv, by decide +kernel⟩
/-- the key-preserving closures of `DQSafe.lean` are admissible arguments -/
example : (∀ it p, (exPred it p).2.1.key = it.key) ∧ (∀ it, (exWrite it).key = it.key) := ⟨fun _ _ => rfl, fun _ => rfl⟩

-- peeks and pops address the extremes
example : (peekMin exQ).toOption = some (some (⟨4, 0⟩, 10)) := by decide +kernel
example : (peekMax exQ).toOption.map (·.2) = some (some (⟨8, 0⟩, 80)) := by decide +kernel
example : (peekMinMutWrite exQ exWrite).toOption.map (fun r => (r.2, r.1.abs 4)) =
    some (some (⟨4, 0⟩, 10), some (⟨4, 77⟩, 10)) := by decide +kernel
example : (peekMaxMutWrite exQ exWrite).toOption.map (fun r => (r.2, r.1.abs 8)) =
    some (some (⟨8, 0⟩, 80), some (⟨8, 77⟩, 80)) := by decide +kernel
example : (popMin exQ).toOption.map (fun r => (r.2, r.1.size, r.1.abs 4)) = some (some (⟨4, 0⟩, 10), 7, none) := by
  decide +kernel
example : (popMax exQ).toOption.map (fun r => (r.2, r.1.size, r.1.abs 8)) = some (some (⟨8, 0⟩, 80), 7, none) := by
  decide +kernel
-- `pop_min_if`: the predicate (`p % 20 == 0`) sees the minimum `10`: it refuses, the entry is rewritten to `(⟨4, 1⟩, 11)`
example : (popMinIf exQ exPred).toOption.map (fun r => (r.2, r.1.size, r.1.abs 4)) = some (none, 8, some (⟨4, 1⟩, 11)) := by
  decide +kernel
-- `pop_max_if`: the maximum `80` is accepted: the REWRITTEN entry is returned and the key is gone
example : (popMaxIf exQ exPred).toOption.map (fun r => (r.2, r.1.size, r.1.abs 8)) = some (some (⟨8, 1⟩, 81), 7, none) := by
  decide +kernel
-- a predicate that would accept `70` is never shown `70`: the maximum is `80`
example : (popMaxIf exQ (fun it p => (p == 70, it, p))).toOption.map (fun r => (r.2, r.1.size, r.1.abs 3)) =
    some (none, 8, some (⟨3, 0⟩, 70)) := by decide +kernel
-- `push`: new key / present key (the stored payload stays, the old priority is returned)
example : (push exQ ⟨9, 0⟩ 5).toOption.map (fun r => (r.2, r.1.size, (peekMin r.1).toOption)) =
    some (none, 9, some (some (⟨9, 0⟩, 5))) := by decide +kernel
example : (push exQ ⟨2, 5⟩ 90).toOption.map (fun r => (r.2, r.1.size, r.1.abs 2)) =
    some (some 20, 8, some (⟨2, 0⟩, 90)) := by decide +kernel
example : ((push exQ ⟨2, 5⟩ 90).toOption.bind fun r => (peekMax r.1).toOption.map (·.2)) =
    some (some (⟨2, 0⟩, 90)) := by decide +kernel
-- `push_increase` / `push_decrease`: the three cases
example : (pushIncrease exQ ⟨9, 0⟩ 5).toOption.map (fun r => (r.2, r.1.size)) = some (none, 9) := by decide +kernel
example : (pushIncrease exQ ⟨2, 0⟩ 25).toOption.map (fun r => (r.2, r.1.abs 2)) = some (some 20, some (⟨2, 0⟩, 25)) := by
  decide +kernel
example : (pushIncrease exQ ⟨2, 0⟩ 15).toOption.map (fun r => (r.2, r.1.abs 2, r.1.ticks)) =
    some (some 15, some (⟨2, 0⟩, 20), exQ.ticks + 1) := by decide +kernel
example : (pushDecrease exQ ⟨2, 0⟩ 15).toOption.map (fun r => (r.2, r.1.abs 2)) = some (some 20, some (⟨2, 0⟩, 15)) := by
  decide +kernel
-- `change_priority`, `change_priority_by`, `remove`: present and absent key
example : (changePriority exQ 3 5).toOption.map (fun r => (r.2, (peekMin r.1).toOption)) =
    some (some 70, some (some (⟨3, 0⟩, 5))) := by decide +kernel
example : (changePriority exQ 9 5).toOption.map (fun r => (r.2, r.1.size)) = some (none, 8) := by decide +kernel
example : (changePriorityBy exQ 4 (· + 100)).toOption.map (fun r => (r.2, (peekMax r.1).toOption.map (·.2))) =
    some (true, some (some (⟨4, 0⟩, 110))) := by decide +kernel
example : (remove exQ 5).toOption.map (fun r => (r.2, r.1.size, r.1.abs 5)) = some (some (⟨5, 0⟩, 60), 7, none) := by
  decide +kernel
example : (remove exQ 9).toOption.map (fun r => (r.2, r.1.size)) = some (none, 8) := by decide +kernel
-- bulk
example : (retainMut exQ exPred).toOption.map (fun s => (s.size, s.abs 2, s.abs 1)) = some (4, some (⟨2, 1⟩, 21), none) := by
  decide +kernel
example : (extend exQ 0 #[(⟨2, 7⟩, 1), (⟨9, 1⟩, 2), (⟨9, 2⟩, 3)]).toOption.map (fun s => (s.size, s.abs 2, s.abs 9)) =
    some (9, some (⟨2, 0⟩, 1), some (⟨9, 1⟩, 3)) := by decide +kernel
-- a size hint that selects the rebuild strategy: same contents
example : betterToRebuild 8 17 = true := by decide +kernel
example : (extend exQ 17 #[(⟨2, 7⟩, 1), (⟨9, 1⟩, 2), (⟨9, 2⟩, 3)]).toOption.map (fun s => (s.size, s.abs 2, s.abs 9)) =
    some (9, some (⟨2, 0⟩, 1), some (⟨9, 1⟩, 3)) := by decide +kernel
example : (deserialize (some 1000000) exV).toOption.map (fun s => (s.size, s.abs 2)) = some (8, some (⟨2, 0⟩, 99)) := by decide +kernel
example : (fromIter 0 exV).toOption.map (fun s => (s.size, s.abs 2)) = some (8, some (⟨2, 9⟩, 99)) := by decide +kernel
example : (append exQ exQ).toOption.map (fun r => (r.1.size, r.2.size)) = some (8, 0) := by decide +kernel
-- the double-ended sorted iterator: `next`, `next_back`, `next`, … ; `none` once everything was handed out
example : (sortedCalls [false, true, false, true, true, false, false, true, false, true] exQ).toOption.map
    (fun r => (r.1.map (fun o => o.map (·.2)), r.2.size)) =
    some ([some 10, some 80, some 20, some 70, some 60, some 30, some 40, some 50, none, none], 0) := by decide +kernel
example : (intoAscendingSortedVec exQ).toOption.map (fun l => l.map (·.2)) = some [10, 20, 30, 40, 50, 60, 70, 80] := by
  decide +kernel
example : (intoDescendingSortedVec exQ).toOption.map (fun l => l.map (·.2)) = some [80, 70, 60, 50, 40, 30, 20, 10] := by
  decide +kernel
/-- the theorems instantiate on the concrete queue -/
example : ∃ l, intoAscendingSortedVec exQ = .ok l ∧ l.length = 8 ∧ l.Pairwise (fun a b => ¬ b.2 < a.2) := by
  obtain ⟨l, h1, h2, _, h3, _⟩ := intoAscendingSortedVec_spec exQ_inv
  exact ⟨l, h1, by rw [h2]; decide +kernel, h3⟩

example : ∃ outs s', sortedCalls [false, true, true] exQ = .ok (outs, s') ∧ Inv s' ∧ s'.size = 5 := by
  obtain ⟨outs, s', h1, h2, _, _, _, h3⟩ := sortedCalls_spec exQ_inv [false, true, true]
  exact ⟨outs, s', h1, h2, by rw [h3]; decide +kernel⟩

end DQ
end PQ
