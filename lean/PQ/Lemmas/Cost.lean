import PQ.Lemmas.Arith
import PQ.Lemmas.WF
/-!
# Comparison counts (`Store.ticks`) of the model functions — the lemmas behind C05

Every statement has the form "if the function returns `.ok`, the ghost counter grew by at most …".  No
well-formedness hypothesis is needed: a faulting access makes the hypothesis false, and only the shape of the
definitions and index arithmetic matter.

The one exception: operations that start a sift-up at the *recorded* position `qp[slot]` of an existing item
(`push` of a present item, `change_priority{,_by}`, `push_increase/decrease`) cost `level pos + …`, and on an
arbitrary store `pos` is arbitrary.  Their `…_cost_gen` forms are hypothesis-free with an explicit bound `B` on the
levels of recorded positions; the `…_cost` forms assume `Store.QpLt` (recorded positions are `< size`, one clause
of `WF`, see `Store.WF.qpLt`), which is shown to be preserved by `push` so that the bound chains through `extend`.

Constants proved (n = size, L = log2 n):
* max-heap: `pickLargest ≤ 2`, `heapify i ≤ 2·height n i ≤ 2L`, `bubbleUp pos ≤ level pos`, `upHeapify i ≤ level i + 2L`
  (`≤ 3L` for `i < n`), `push ≤ 3·log2(size after)`, `pop/popIf ≤ 2·log2(size after)`, `remove ≤ 3·log2(size after)`,
  `heapBuild ≤ 2n`.
* min-max heap: `candidates ≤ 6`, one trickle-down round `≤ 7` and two levels down, `heapify i ≤ 7·⌈height n i / 2⌉`,
  `bubbleUp pos ≤ level pos / 2 + 1`, `upHeapify i ≤ level i / 2 + 1 + 14·⌈L/2⌉'` (`≤ 8L + 8` for `i < n`, where
  `⌈L/2⌉' = (L+1)/2`), `findMax ≤ 1`, `popMin ≤ 7·((L'+1)/2)`, `popMax ≤ 7·((L'+1)/2) + 1`, `heapBuild ≤ 7n`.
-/
set_option linter.unusedSimpArgs false
set_option linter.unusedSectionVars false
set_option linter.unusedVariables false
namespace PQ
open Arith

/-! ## Generic tools -/

theorem bind_eq_ok {α β : Type} {x : R α} {f : α → R β} {b : β} :
    (x >>= f) = .ok b ↔ ∃ a, x = .ok a ∧ f a = .ok b := by
  cases x with
  | error e => simp [bind, Except.bind]
  | ok a => simp [bind, Except.bind]

theorem pure_eq_ok {α : Type} {a b : α} : (pure a : R α) = .ok b ↔ a = b := by
  simp [pure, Except.pure]

theorem sum_range_mono_len (f : Nat → Nat) {m n : Nat} (h : m ≤ n) :
    ((List.range m).map f).sum ≤ ((List.range n).map f).sum := by
  induction n with
  | zero => have : m = 0 := by omega
            subst this; exact Nat.le_refl _
  | succ n ih =>
    by_cases e : m = n + 1
    · subst e; exact Nat.le_refl _
    · rw [sum_range_succ]; have := ih (by omega); omega

theorem sum_range_le_of_le {f g : Nat → Nat} {n : Nat} (h : ∀ i, i < n → f i ≤ g i) :
    ((List.range n).map f).sum ≤ ((List.range n).map g).sum := by
  induction n with
  | zero => exact Nat.le_refl _
  | succ n ih =>
    rw [sum_range_succ, sum_range_succ]
    have := ih (fun i hi => h i (by omega)); have := h n (by omega); omega

theorem sum_range_mul (c : Nat) (f : Nat → Nat) (n : Nat) :
    ((List.range n).map (fun i => c * f i)).sum = c * ((List.range n).map f).sum := by
  induction n with
  | zero => simp
  | succ n ih => rw [sum_range_succ, sum_range_succ, ih, Nat.mul_add]

/-- `level i ≤ log2 n` for a position below `n` -/
theorem level_le_log2 {i n : Nat} (h : i < n) : level i ≤ Nat.log2 n := by
  have := level_add_height_le h; omega

/-- a grandchild below `n` is at least two units of height below its grandparent -/
theorem height_grandchild {n c : Nat} (h1 : 0 < parent c) (hc : c < n) :
    height n c + 2 ≤ height n (parent (parent c)) := by
  have hc0 : 0 < c := by
    rcases Nat.eq_zero_or_pos c with e | e
    · subst e; simp at h1
    · exact e
  have a := height_child_lt hc0 hc
  have b := height_child_lt h1 (Nat.lt_trans (parent_lt hc0) hc)
  omega

namespace Store
variable {P : Type}

/-! ## Store primitives never compare -/

theorem swap_cost {s s1 : Store P} {a b : Nat} (h : s.swap a b = .ok s1) :
    s1.size = s.size ∧ s1.ticks = s.ticks ∧ s1.map = s.map := by
  unfold swap at h
  simp only [bind_eq_ok, pure_eq_ok] at h
  obtain ⟨ia, _, ib, _, qp, _, heap, _, rfl⟩ := h
  exact ⟨rfl, rfl, rfl⟩

theorem decC_ok' {x y site : Nat} (h : decC x site = .ok y) : y = x - 1 := (decC_eq_ok_iff.1 h).2

theorem swapRemove_cost {s s1 : Store P} {p : Nat} {r : Option (Item × P)} (h : s.swapRemove p = .ok (s1, r)) :
    s1.size = s.size - 1 ∧ s1.ticks = s.ticks := by
  unfold swapRemove at h
  simp only [bind, Except.bind, pure, Except.pure] at h
  repeat' split at h
  all_goals first | (cases h; done) | skip
  all_goals (cases h; exact ⟨decC_ok' (by assumption), rfl⟩)

theorem swapRemoveIf_cost {s s1 : Store P} {p : Nat} {f : Item → P → Bool × Item × P} {r : Option (Item × P)}
    (h : s.swapRemoveIf p f = .ok (s1, r)) : s1.size ≤ s.size ∧ s1.ticks = s.ticks := by
  unfold swapRemoveIf at h
  simp only [bind_eq_ok] at h
  obtain ⟨head, _, e, _, h⟩ := h
  split at h
  · have := swapRemove_cost h; simp only at this; omega
  · cases h; exact ⟨Nat.le_refl _, rfl⟩

theorem changePriority_cost {s s1 : Store P} {k : Nat} {p : P} {r : Option (P × Nat)}
    (h : s.changePriority k p = .ok (s1, r)) :
    s1.size = s.size ∧ s1.ticks = s.ticks ∧ s1.qp = s.qp ∧ ∀ (old : P) (pos : Nat), r = some (old, pos) → ∃ i : Nat, s.qp[i]? = some pos := by
  unfold changePriority at h
  split at h
  · simp only [bind_eq_ok, pure_eq_ok] at h
    obtain ⟨pos, hp, h⟩ := h
    cases h
    refine ⟨rfl, rfl, rfl, ?_⟩
    intro old pos' e; cases e
    exact ⟨_, getU_eq_ok_iff.1 hp⟩
  · cases h; exact ⟨rfl, rfl, rfl, by intro _ _ e; cases e⟩

theorem changePriorityBy_cost {s s1 : Store P} {k : Nat} {g : P → P} {r : Option Nat}
    (h : s.changePriorityBy k g = .ok (s1, r)) :
    s1.size = s.size ∧ s1.ticks = s.ticks ∧ s1.qp = s.qp ∧ ∀ pos : Nat, r = some pos → ∃ i : Nat, s.qp[i]? = some pos := by
  unfold changePriorityBy at h
  split at h
  · simp only [bind_eq_ok, pure_eq_ok] at h
    obtain ⟨pos, hp, h⟩ := h
    cases h
    refine ⟨rfl, rfl, rfl, ?_⟩
    intro pos' e; cases e
    exact ⟨_, getU_eq_ok_iff.1 hp⟩
  · cases h; exact ⟨rfl, rfl, rfl, by intro _ e; cases e⟩

theorem remove_cost {s s1 : Store P} {k : Nat} {r : Option (Item × P × Nat)} (h : s.remove k = .ok (s1, r)) :
    s1.size ≤ s.size ∧ s1.ticks = s.ticks := by
  unfold remove at h
  simp only [bind, Except.bind, pure, Except.pure] at h
  repeat' split at h
  all_goals first | (cases h; done) | skip
  all_goals (cases h; first | exact ⟨Nat.le_refl _, rfl⟩ | exact ⟨by have := decC_ok' (by assumption); simp only; omega, rfl⟩)

theorem retainMut_cost (s : Store P) (f : Item → P → Bool × Item × P) : (s.retainMut f).ticks = s.ticks := by
  unfold retainMut; dsimp only; split <;> rfl

theorem pushIfAbsent_cost (s : Store P) (e : Item × P) :
    (s.pushIfAbsent e).ticks = s.ticks ∧ (s.pushIfAbsent e).size ≤ s.size + 1 := by
  unfold pushIfAbsent; split
  · exact ⟨rfl, by omega⟩
  · exact ⟨rfl, Nat.le_refl _⟩

theorem extendStep_cost (s : Store P) (e : Item × P) :
    (s.extendStep e).ticks = s.ticks ∧ (s.extendStep e).size ≤ s.size + 1 := by
  unfold extendStep; split
  · exact ⟨rfl, by simp⟩
  · exact ⟨rfl, Nat.le_refl _⟩

theorem fromIterStep_cost (s : Store P) (e : Item × P) :
    (s.fromIterStep e).ticks = s.ticks ∧ (s.fromIterStep e).size ≤ s.size + 1 := by
  unfold fromIterStep; split
  · exact ⟨rfl, by simp⟩
  · exact ⟨rfl, Nat.le_refl _⟩

theorem visitSeqStep_cost (s : Store P) (e : Item × P) :
    (s.visitSeqStep e).ticks = s.ticks ∧ (s.visitSeqStep e).size ≤ s.size + 1 := by
  unfold visitSeqStep; dsimp only; split
  · exact ⟨rfl, by simp⟩
  · exact ⟨rfl, Nat.le_refl _⟩

/-- a fold of a non-ticking step that grows the size by at most one per element -/
theorem foldl_cost (step : Store P → Item × P → Store P)
    (hstep : ∀ s e, (step s e).ticks = s.ticks ∧ (step s e).size ≤ s.size + 1) (xs : Array (Item × P)) (s : Store P) :
    (xs.foldl step s).ticks = s.ticks ∧ (xs.foldl step s).size ≤ s.size + xs.size := by
  rw [← Array.foldl_toList, ← Array.length_toList]
  generalize xs.toList = l
  induction l generalizing s with
  | nil => exact ⟨rfl, Nat.le_refl _⟩
  | cons x l ih =>
    simp only [List.foldl_cons, List.length_cons]
    have a := ih (step s x); have b := hstep s x
    exact ⟨by rw [a.1, b.1], by omega⟩

theorem fromVec_cost (v : Array (Item × P)) : (fromVec v).ticks = 0 ∧ (fromVec v).size ≤ v.size := by
  have := foldl_cost pushIfAbsent pushIfAbsent_cost v (empty : Store P)
  unfold fromVec; simpa [empty] using this

theorem fromIter_cost (v : Array (Item × P)) : (fromIter v).ticks = 0 ∧ (fromIter v).size ≤ v.size := by
  have := foldl_cost fromIterStep fromIterStep_cost v (empty : Store P)
  unfold fromIter; simpa [empty] using this

theorem visitSeq_cost (v : Array (Item × P)) : (visitSeq v).ticks = 0 ∧ (visitSeq v).size ≤ v.size := by
  have := foldl_cost visitSeqStep visitSeqStep_cost v (empty : Store P)
  unfold visitSeq; simpa [empty] using this

theorem extend_cost (s : Store P) (xs : Array (Item × P)) :
    (s.extend xs).ticks = s.ticks ∧ (s.extend xs).size ≤ s.size + xs.size :=
  foldl_cost extendStep extendStep_cost xs s

/-- `append` never compares; the result inherits the counter of whichever queue was the larger (the two are swapped
when `other` is larger) -/
theorem append_cost (s o : Store P) :
    (s.append o).1.ticks = (if o.size > s.size then o.ticks else s.ticks) ∧
    (s.append o).1.ticks ≤ max s.ticks o.ticks := by
  have key : (s.append o).1.ticks = (if o.size > s.size then o.ticks else s.ticks) := by
    unfold append
    by_cases hgt : o.size > s.size
    · simp only [hgt, if_true]
      split
      · rfl
      · exact (foldl_cost pushIfAbsent pushIfAbsent_cost _ _).1
    · simp only [hgt, if_false]
      split
      · rfl
      · exact (foldl_cost pushIfAbsent pushIfAbsent_cost _ _).1
  refine ⟨key, ?_⟩
  rw [key]; split <;> omega

end Store

namespace MaxQ
open Store
variable {P : Type} [LT P] [DecidableLT P]

/-! ## Part A: the binary max-heap -/

/-- `pickLargest` costs at most two comparisons (none at a leaf), touches nothing but the counter and returns `i` or
one of its children below `size` -/
theorem pickLargest_cost {s s1 : Store P} {i L : Nat} (h : pickLargest s i = .ok (s1, L)) :
    s1.size = s.size ∧ s1.ticks ≤ s.ticks + 2 ∧
    (L = i ∨ (L = left i ∧ left i < s.size) ∨ (L = right i ∧ right i < s.size)) ∧
    (¬ left i < s.size → s1.ticks = s.ticks ∧ L = i) ∧
    s1.map = s.map ∧ s1.heap = s.heap ∧ s1.qp = s.qp := by
  unfold pickLargest at h
  rw [bind_eq_ok] at h
  obtain ⟨ip, _, h⟩ := h
  by_cases hl : left i < s.size
  · rw [if_pos hl, bind_eq_ok] at h
    obtain ⟨cp, _, h⟩ := h
    by_cases hr : right i < (s.tick).size
    · rw [if_pos hr, bind_eq_ok] at h
      obtain ⟨rp, _, h⟩ := h
      rw [pure_eq_ok] at h
      cases h
      refine ⟨rfl, by simp only [Store.tick_ticks]; omega, ?_, fun h => absurd hl h, rfl, rfl, rfl⟩
      by_cases c1 : ip < cp
      · simp only [c1, if_true]
        split
        · exact Or.inr (Or.inr ⟨rfl, hr⟩)
        · exact Or.inr (Or.inl ⟨rfl, hl⟩)
      · simp only [c1, if_false]
        split
        · exact Or.inr (Or.inr ⟨rfl, hr⟩)
        · exact Or.inl rfl
    · rw [if_neg hr, pure_eq_ok] at h
      cases h
      refine ⟨rfl, by simp only [Store.tick_ticks]; omega, ?_, fun h => absurd hl h, rfl, rfl, rfl⟩
      split
      · exact Or.inr (Or.inl ⟨rfl, hl⟩)
      · exact Or.inl rfl
  · rw [if_neg hl, pure_eq_ok] at h
    cases h
    exact ⟨rfl, by omega, Or.inl rfl, fun _ => ⟨rfl, rfl⟩, rfl, rfl, rfl⟩

/-- **sift-down costs at most two comparisons per level below `i`** -/
theorem heapifyLoop_cost (fuel : Nat) : ∀ {s s' : Store P} {i : Nat}, heapifyLoop fuel s i = .ok s' →
    s'.size = s.size ∧ s'.ticks ≤ s.ticks + 2 * height s.size i := by
  induction fuel with
  | zero => intro s s' i h; simp [heapifyLoop] at h
  | succ fuel ih =>
    intro s s' i h
    simp only [heapifyLoop] at h
    rw [bind_eq_ok] at h
    obtain ⟨⟨s1, L⟩, hp, h⟩ := h
    obtain ⟨hsz, ht, hL, hleaf, _⟩ := pickLargest_cost hp
    dsimp only at h
    by_cases hLi : L = i
    · rw [if_pos hLi, pure_eq_ok] at h
      subst h
      refine ⟨hsz, ?_⟩
      by_cases hl : left i < s.size
      · rw [height_of_left_lt hl]; omega
      · have := (hleaf hl).1; omega
    · rw [if_neg hLi, bind_eq_ok] at h
      obtain ⟨s2, hsw, h⟩ := h
      obtain ⟨hsz2, ht2, _⟩ := Store.swap_cost hsw
      obtain ⟨hsz3, ht3⟩ := ih h
      rw [hsz2, hsz] at hsz3
      refine ⟨hsz3, ?_⟩
      rw [hsz2, hsz] at ht3
      rcases hL with e | ⟨e, hl⟩ | ⟨e, hr⟩
      · exact absurd e hLi
      · rw [height_of_left_lt hl]; rw [e] at ht3; omega
      · have hl := left_lt_of_right_lt hr
        have := height_right_le s.size i
        rw [height_of_left_lt hl]; rw [e] at ht3; omega

theorem heapify_cost {s s' : Store P} {i : Nat} (h : heapify s i = .ok s') :
    s'.size = s.size ∧ s'.ticks ≤ s.ticks + 2 * height s.size i := by
  unfold heapify at h
  split at h
  · rw [pure_eq_ok] at h; subst h; exact ⟨rfl, by omega⟩
  · exact heapifyLoop_cost _ h

/-- sift-down in terms of `log2`: `2 * log2 size` comparisons from anywhere -/
theorem heapify_cost_log {s s' : Store P} {i : Nat} (h : heapify s i = .ok s') :
    s'.size = s.size ∧ s'.ticks ≤ s.ticks + 2 * Nat.log2 s.size := by
  obtain ⟨a, b⟩ := heapify_cost h
  have := height_le_log s.size i
  exact ⟨a, by omega⟩

/-- **sift-up costs at most one comparison per level above `pos`** (the walk stops with one failing comparison at
a position `pos' > 0`, whose level is at least one, or reaches the root where nothing is compared) -/
theorem bubbleUpLoop_cost (fuel : Nat) : ∀ {s s' : Store P} {pos pos' : Nat} {v : P},
    bubbleUpLoop fuel s pos v = .ok (s', pos') →
    s'.size = s.size ∧ pos' ≤ pos ∧ s'.ticks ≤ s.ticks + level pos ∧
    s'.ticks + level pos' ≤ s.ticks + level pos + (if pos' = 0 then 0 else 1) := by
  induction fuel with
  | zero => intro s s' pos pos' v h; simp [bubbleUpLoop] at h
  | succ fuel ih =>
    intro s s' pos pos' v h
    simp only [bubbleUpLoop] at h
    by_cases hpos : pos > 0
    · rw [if_pos hpos, bind_eq_ok] at h
      obtain ⟨pp, _, h⟩ := h
      have hlev := level_parent hpos
      by_cases hc : pp < v
      · rw [if_pos hc] at h
        simp only [bind_eq_ok] at h
        obtain ⟨pi, _, heap, _, qp, _, h⟩ := h
        obtain ⟨h1, h2, h3, h4⟩ := ih h
        have := parent_le pos
        simp only [Store.tick_size, Store.tick_ticks] at h1 h3 h4
        exact ⟨h1, by omega, by omega, by omega⟩
      · rw [if_neg hc, pure_eq_ok] at h
        cases h
        have : pos ≠ 0 := by omega
        refine ⟨rfl, Nat.le_refl _, ?_, ?_⟩
        · simp only [Store.tick_ticks]; omega
        · simp only [Store.tick_ticks, this, if_false]; omega
    · rw [if_neg hpos, pure_eq_ok] at h
      cases h
      exact ⟨rfl, Nat.le_refl _, by omega, by omega⟩

theorem bubbleUp_cost {s s' : Store P} {pos mp pos' : Nat} (h : bubbleUp s pos mp = .ok (s', pos')) :
    s'.size = s.size ∧ pos' ≤ pos ∧ s'.ticks ≤ s.ticks + level pos := by
  unfold bubbleUp at h
  rw [bind_eq_ok] at h
  obtain ⟨e, _, h⟩ := h
  rw [bind_eq_ok] at h
  obtain ⟨⟨s1, p1⟩, hl, h⟩ := h
  simp only [bind_eq_ok, pure_eq_ok] at h
  obtain ⟨heap, _, qp, _, h⟩ := h
  cases h
  obtain ⟨a, b, c, _⟩ := bubbleUpLoop_cost _ hl
  exact ⟨a, b, c⟩

/-- `up_heapify(i)`: one sift-up from `i` and one sift-down from where it ended -/
theorem upHeapify_cost {s s' : Store P} {i : Nat} (h : upHeapify s i = .ok s') :
    s'.size = s.size ∧ s'.ticks ≤ s.ticks + level i + 2 * Nat.log2 s.size := by
  unfold upHeapify at h
  rw [bind_eq_ok] at h
  obtain ⟨tmp, _, h⟩ := h
  rw [bind_eq_ok] at h
  obtain ⟨⟨s1, p1⟩, hb, h⟩ := h
  obtain ⟨a, b, c⟩ := bubbleUp_cost hb
  obtain ⟨d, e⟩ := heapify_cost_log h
  rw [a] at d e
  exact ⟨d, by omega⟩

/-- `up_heapify(i)` at a position of the queue: at most `3 * log2 size` comparisons -/
theorem upHeapify_cost_log {s s' : Store P} {i : Nat} (hi : i < s.size) (h : upHeapify s i = .ok s') :
    s'.size = s.size ∧ s'.ticks ≤ s.ticks + 3 * Nat.log2 s.size := by
  obtain ⟨a, b⟩ := upHeapify_cost h
  have := level_le_log2 hi
  exact ⟨a, by omega⟩

end MaxQ
/-- every position recorded in the `qp` table is a position of the queue (one of the clauses of `WF`; it is all the
logarithmic bounds of `push`/`change_priority` need) -/
def Store.QpLt {P : Type} (s : Store P) : Prop := ∀ (i p : Nat), s.qp[i]? = some p → p < s.size

theorem Store.WF.qpLt {P : Type} {s : Store P} (h : s.WF) : s.QpLt := fun _ _ hi => Store.TWF.qp_lt h hi

/-- executable form of `QpLt` (for concrete examples) -/
theorem Store.qpLt_of_all {P : Type} {s : Store P} (h : s.qp.all (fun p => p < s.size) = true) : s.QpLt := by
  intro i p hi
  rw [Array.all_eq_true] at h
  have hlt := lt_size_of_getElem? hi
  have := h i hlt
  have e : s.qp[i] = p := (Array.getElem?_eq_some_iff.1 hi).2
  simpa [e] using this

namespace MaxQ
open Store
variable {P : Type} [LT P] [DecidableLT P]

/-! ### public operations of `PriorityQueue` -/

/-- `push`, general form: a new item costs at most `level size = log2 (size + 1)` comparisons; an existing one
`level pos + 2 * log2 size` where `pos` is its recorded position -/
theorem push_cost_gen {s s' : Store P} {it : Item} {p : P} {r : Option P} {B : Nat}
    (hB : ∀ (i pos : Nat), s.qp[i]? = some pos → level pos ≤ B) (h : push s it p = .ok (s', r)) :
    (r = none → s'.size = s.size + 1 ∧ s'.ticks ≤ s.ticks + Nat.log2 (s.size + 1)) ∧
    (r ≠ none → s'.size = s.size ∧ s'.ticks ≤ s.ticks + B + 2 * Nat.log2 s.size) := by
  unfold push at h
  generalize s.map.insertFull it p = t at h
  obtain ⟨map, idx, old⟩ := t
  dsimp only at h
  cases old with
  | some oldp =>
    dsimp only at h
    rw [bind_eq_ok] at h
    obtain ⟨pos, hpos, h⟩ := h
    rw [bind_eq_ok] at h
    obtain ⟨s1, hu, h⟩ := h
    rw [pure_eq_ok] at h
    cases h
    obtain ⟨a, b⟩ := upHeapify_cost hu
    have := hB idx pos (getU_eq_ok_iff.1 hpos)
    refine ⟨fun e => (by cases e), fun _ => ⟨a, ?_⟩⟩
    simp only at b; omega
  | none =>
    dsimp only at h
    rw [bind_eq_ok] at h
    obtain ⟨⟨s1, p1⟩, hb, h⟩ := h
    rw [pure_eq_ok] at h
    cases h
    obtain ⟨a, _, c⟩ := bubbleUp_cost hb
    refine ⟨fun _ => ⟨by simp only [a], ?_⟩, fun e => absurd rfl e⟩
    simp only [level_eq] at c; exact c

/-- `push` on a queue whose recorded positions are in range: at most `3 * log2 (size after)` comparisons -/
theorem push_cost {s s' : Store P} {it : Item} {p : P} {r : Option P} (hq : s.QpLt) (h : push s it p = .ok (s', r)) :
    s'.size ≤ s.size + 1 ∧ s.size ≤ s'.size ∧ s'.ticks ≤ s.ticks + 3 * Nat.log2 s'.size := by
  obtain ⟨a, b⟩ := push_cost_gen (B := Nat.log2 s.size) (fun i pos hi => level_le_log2 (hq i pos hi)) h
  cases r with
  | none => obtain ⟨a1, a2⟩ := a rfl; rw [a1]; exact ⟨Nat.le_refl _, by omega, by omega⟩
  | some x => obtain ⟨b1, b2⟩ := b (by simp); rw [b1]; exact ⟨by omega, Nat.le_refl _, by omega⟩

theorem pop_cost {s s' : Store P} {r : Option (Item × P)} (h : pop s = .ok (s', r)) :
    s'.size = s.size - 1 ∧ s'.ticks ≤ s.ticks + 2 * Nat.log2 s'.size := by
  unfold pop at h
  split at h
  · rw [pure_eq_ok] at h; cases h; rename_i h0; exact ⟨by omega, by omega⟩
  · obtain ⟨a, b⟩ := swapRemove_cost h; exact ⟨a, by omega⟩
  · rw [bind_eq_ok] at h
    obtain ⟨⟨s1, r1⟩, hs, h⟩ := h
    rw [bind_eq_ok] at h
    obtain ⟨s2, hh, h⟩ := h
    rw [pure_eq_ok] at h; cases h
    obtain ⟨a, b⟩ := swapRemove_cost hs
    obtain ⟨c, d⟩ := heapify_cost_log hh
    rw [c]; exact ⟨a, by omega⟩

theorem popIf_cost {s s' : Store P} {f : Item → P → Bool × Item × P} {r : Option (Item × P)}
    (h : popIf s f = .ok (s', r)) :
    s'.size ≤ s.size ∧ s'.ticks ≤ s.ticks + 2 * Nat.log2 s'.size := by
  unfold popIf at h
  split at h
  · rw [pure_eq_ok] at h; cases h; exact ⟨Nat.le_refl _, by omega⟩
  · obtain ⟨a, b⟩ := swapRemoveIf_cost h; exact ⟨a, by omega⟩
  · rw [bind_eq_ok] at h
    obtain ⟨⟨s1, r1⟩, hs, h⟩ := h
    rw [bind_eq_ok] at h
    obtain ⟨s2, hh, h⟩ := h
    rw [pure_eq_ok] at h; cases h
    obtain ⟨a, b⟩ := swapRemoveIf_cost hs
    obtain ⟨c, d⟩ := heapify_cost_log hh
    rw [c]; exact ⟨a, by omega⟩

theorem changePriority_cost_gen {s s' : Store P} {k : Nat} {p : P} {r : Option P} {B : Nat}
    (hB : ∀ (i pos : Nat), s.qp[i]? = some pos → level pos ≤ B) (h : changePriority s k p = .ok (s', r)) :
    s'.size = s.size ∧ s'.ticks ≤ s.ticks + B + 2 * Nat.log2 s.size := by
  unfold changePriority at h
  rw [bind_eq_ok] at h
  obtain ⟨⟨s1, r1⟩, hs, h⟩ := h
  obtain ⟨a, b, c, d⟩ := Store.changePriority_cost hs
  dsimp only at h
  split at h
  · rename_i old pos
    rw [bind_eq_ok] at h
    obtain ⟨s2, hu, h⟩ := h
    rw [pure_eq_ok] at h; cases h
    obtain ⟨i, hi⟩ := d old pos rfl
    have := hB i pos hi
    obtain ⟨e, f⟩ := upHeapify_cost hu
    rw [a] at e f
    exact ⟨e, by omega⟩
  · rw [pure_eq_ok] at h; cases h; exact ⟨a, by omega⟩

theorem changePriority_cost {s s' : Store P} {k : Nat} {p : P} {r : Option P} (hq : s.QpLt)
    (h : changePriority s k p = .ok (s', r)) :
    s'.size = s.size ∧ s'.ticks ≤ s.ticks + 3 * Nat.log2 s.size := by
  obtain ⟨a, b⟩ := changePriority_cost_gen (B := Nat.log2 s.size) (fun i pos hi => level_le_log2 (hq i pos hi)) h
  exact ⟨a, by omega⟩

theorem changePriorityBy_cost_gen {s s' : Store P} {k : Nat} {g : P → P} {r : Bool} {B : Nat}
    (hB : ∀ (i pos : Nat), s.qp[i]? = some pos → level pos ≤ B) (h : changePriorityBy s k g = .ok (s', r)) :
    s'.size = s.size ∧ s'.ticks ≤ s.ticks + B + 2 * Nat.log2 s.size := by
  unfold changePriorityBy at h
  rw [bind_eq_ok] at h
  obtain ⟨⟨s1, r1⟩, hs, h⟩ := h
  obtain ⟨a, b, c, d⟩ := Store.changePriorityBy_cost hs
  dsimp only at h
  split at h
  · rename_i pos
    rw [bind_eq_ok] at h
    obtain ⟨s2, hu, h⟩ := h
    rw [pure_eq_ok] at h; cases h
    obtain ⟨i, hi⟩ := d pos rfl
    have := hB i pos hi
    obtain ⟨e, f⟩ := upHeapify_cost hu
    rw [a] at e f
    exact ⟨e, by omega⟩
  · rw [pure_eq_ok] at h; cases h; exact ⟨a, by omega⟩

theorem changePriorityBy_cost {s s' : Store P} {k : Nat} {g : P → P} {r : Bool} (hq : s.QpLt)
    (h : changePriorityBy s k g = .ok (s', r)) :
    s'.size = s.size ∧ s'.ticks ≤ s.ticks + 3 * Nat.log2 s.size := by
  obtain ⟨a, b⟩ := changePriorityBy_cost_gen (B := Nat.log2 s.size) (fun i pos hi => level_le_log2 (hq i pos hi)) h
  exact ⟨a, by omega⟩

/-- `remove` checks `pos < size` itself, so no hypothesis at all is needed -/
theorem remove_cost {s s' : Store P} {k : Nat} {r : Option (Item × P)} (h : remove s k = .ok (s', r)) :
    s'.size ≤ s.size ∧ s'.ticks ≤ s.ticks + 3 * Nat.log2 s'.size := by
  unfold remove at h
  rw [bind_eq_ok] at h
  obtain ⟨⟨s1, r1⟩, hs, h⟩ := h
  obtain ⟨a, b⟩ := Store.remove_cost hs
  dsimp only at h
  split at h
  · split at h
    · rename_i hpos
      rw [bind_eq_ok] at h
      obtain ⟨s2, hu, h⟩ := h
      rw [pure_eq_ok] at h; cases h
      obtain ⟨e, f⟩ := upHeapify_cost_log hpos hu
      rw [e]; exact ⟨a, by omega⟩
    · rw [pure_eq_ok] at h; cases h; exact ⟨a, by omega⟩
  · rw [pure_eq_ok] at h; cases h; exact ⟨a, by omega⟩

theorem pushIncrease_cost {s s' : Store P} {it : Item} {p : P} {r : Option P} (hq : s.QpLt)
    (h : pushIncrease s it p = .ok (s', r)) :
    s'.size ≤ s.size + 1 ∧ s.size ≤ s'.size ∧ s'.ticks ≤ s.ticks + 3 * Nat.log2 s'.size + 1 := by
  unfold pushIncrease at h
  split at h
  · obtain ⟨a, b, c⟩ := push_cost hq h; exact ⟨a, b, by omega⟩
  · dsimp only at h
    split at h
    · have hq' : (s.tick).QpLt := hq
      obtain ⟨a, b, c⟩ := push_cost hq' h
      simp only [Store.tick_size, Store.tick_ticks] at a b c
      exact ⟨a, b, by omega⟩
    · rw [pure_eq_ok] at h; cases h
      simp only [Store.tick_size, Store.tick_ticks]
      exact ⟨by omega, Nat.le_refl _, by omega⟩

theorem pushDecrease_cost {s s' : Store P} {it : Item} {p : P} {r : Option P} (hq : s.QpLt)
    (h : pushDecrease s it p = .ok (s', r)) :
    s'.size ≤ s.size + 1 ∧ s.size ≤ s'.size ∧ s'.ticks ≤ s.ticks + 3 * Nat.log2 s'.size + 1 := by
  unfold pushDecrease at h
  split at h
  · obtain ⟨a, b, c⟩ := push_cost hq h; exact ⟨a, b, by omega⟩
  · dsimp only at h
    split at h
    · have hq' : (s.tick).QpLt := hq
      obtain ⟨a, b, c⟩ := push_cost hq' h
      simp only [Store.tick_size, Store.tick_ticks] at a b c
      exact ⟨a, b, by omega⟩
    · rw [pure_eq_ok] at h; cases h
      simp only [Store.tick_size, Store.tick_ticks]
      exact ⟨by omega, Nat.le_refl _, by omega⟩

/-- `peek_mut` (with the caller's write) never compares -/
theorem peekMutWrite_cost {s s' : Store P} {w : Item → Item} {r : Option (Item × P)}
    (h : peekMutWrite s w = .ok (s', r)) : s'.ticks = s.ticks ∧ s'.size = s.size := by
  unfold peekMutWrite at h
  split at h
  · rw [pure_eq_ok] at h; cases h; exact ⟨rfl, rfl⟩
  · rw [bind_eq_ok] at h
    obtain ⟨i, _, h⟩ := h
    split at h <;> (rw [pure_eq_ok] at h; cases h; exact ⟨rfl, rfl⟩)


/-! ### Floyd's construction and the bulk operations of `PriorityQueue` -/

theorem heapBuildLoop_cost (k : Nat) : ∀ {s s' : Store P}, heapBuildLoop s k = .ok s' →
    s'.size = s.size ∧ s'.ticks ≤ s.ticks + 2 * ((List.range (k + 1)).map (height s.size)).sum := by
  induction k with
  | zero =>
    intro s s' h
    simp only [heapBuildLoop] at h
    obtain ⟨a, b⟩ := heapify_cost h
    refine ⟨a, ?_⟩
    simpa [List.range_succ] using b
  | succ k ih =>
    intro s s' h
    simp only [heapBuildLoop] at h
    rw [bind_eq_ok] at h
    obtain ⟨s1, hh, h⟩ := h
    obtain ⟨a, b⟩ := heapify_cost hh
    obtain ⟨c, d⟩ := ih h
    rw [a] at c d
    refine ⟨c, ?_⟩
    rw [sum_range_succ _ (k + 1)]
    omega

/-- **`heap_build` is linear**: at most `2 * size` comparisons -/
theorem heapBuild_cost {s s' : Store P} (h : heapBuild s = .ok s') :
    s'.size = s.size ∧ s'.ticks ≤ s.ticks + 2 * s.size := by
  unfold heapBuild at h
  split at h
  · rw [pure_eq_ok] at h; subst h; exact ⟨rfl, by omega⟩
  · rename_i hn
    rw [bind_eq_ok] at h
    obtain ⟨top, ht, h⟩ := h
    have htop : top = parent s.size := by
      unfold parentC at ht; rw [if_neg hn] at ht; cases ht; rfl
    obtain ⟨a, b⟩ := heapBuildLoop_cost top h
    refine ⟨a, ?_⟩
    have h1 : top + 1 ≤ s.size := by have := parent_lt (Nat.pos_of_ne_zero hn); omega
    have h2 := sum_range_mono_len (height s.size) h1
    have h3 := sum_height_le s.size
    omega

theorem retainMut_cost {s s' : Store P} {f : Item → P → Bool × Item × P} (h : retainMut s f = .ok s') :
    s'.ticks ≤ s.ticks + 2 * s'.size := by
  obtain ⟨a, b⟩ := heapBuild_cost h
  rw [Store.retainMut_cost] at b; rw [a]; exact b

theorem fromVec_cost {v : Array (Item × P)} {s' : Store P} (h : fromVec v = .ok s') :
    s'.size ≤ v.size ∧ s'.ticks ≤ 2 * s'.size := by
  obtain ⟨a, b⟩ := heapBuild_cost h
  obtain ⟨c, d⟩ := Store.fromVec_cost v
  rw [c] at b; rw [a]; exact ⟨d, by omega⟩

theorem fromIter_cost {lo : Nat} {v : Array (Item × P)} {s' : Store P} (h : fromIter lo v = .ok s') :
    s'.size ≤ v.size ∧ s'.ticks ≤ 2 * s'.size := by
  obtain ⟨a, b⟩ := heapBuild_cost (fromIter_eq_ok.1 h).2
  obtain ⟨c, d⟩ := Store.fromIter_cost v
  rw [c] at b; rw [a]; exact ⟨d, by omega⟩

theorem deserialize_cost {hint : Option Nat} {v : Array (Item × P)} {s' : Store P}
    (h : deserialize hint v = .ok s') :
    s'.size ≤ v.size ∧ s'.ticks ≤ 2 * s'.size := by
  rw [deserialize_eq] at h
  obtain ⟨a, b⟩ := heapBuild_cost h
  obtain ⟨c, d⟩ := Store.visitSeq_cost v
  rw [c] at b; rw [a]; exact ⟨d, by omega⟩

theorem ofStore_cost {s s' : Store P} (h : ofStore s = .ok s') :
    s'.size = s.size ∧ s'.ticks ≤ s.ticks + 2 * s.size := heapBuild_cost h

/-- `append`: the counter of the result starts from that of the larger queue (the two are swapped first) -/
theorem append_cost {s o s' o' : Store P} (h : append s o = .ok (s', o')) :
    s'.ticks ≤ max s.ticks o.ticks + 2 * s'.size := by
  unfold append at h
  rw [bind_eq_ok] at h
  obtain ⟨s1, hb, h⟩ := h
  rw [pure_eq_ok] at h
  obtain ⟨a, b⟩ := heapBuild_cost hb
  have := (Store.append_cost s o).2
  cases h
  rw [a]; omega

/-- `extend`, rebuild strategy: linear in the final size -/
theorem extend_rebuild_cost {s s' : Store P} {xs : Array (Item × P)} (h : heapBuild (s.extend xs) = .ok s') :
    s'.size ≤ s.size + xs.size ∧ s'.ticks ≤ s.ticks + 2 * s'.size := by
  obtain ⟨a, b⟩ := heapBuild_cost h
  obtain ⟨c, d⟩ := Store.extend_cost s xs
  rw [c] at b; rw [a]; exact ⟨d, b⟩

end MaxQ
/-! ## Preservation of "recorded positions are in range" (needed to chain the per-`push` bound through `extend`) -/

namespace Store
variable {P : Type}

/-- every position recorded in `qp` is below `N` (`QpLt` is `QpBd size`) -/
def QpBd (s : Store P) (N : Nat) : Prop := ∀ (i p : Nat), s.qp[i]? = some p → p < N

theorem QpBd.set {s : Store P} {N j v : Nat} (h : s.QpBd N) (hv : v < N) {heap : Array Nat} :
    ({ s with heap := heap, qp := s.qp.setIfInBounds j v } : Store P).QpBd N := by
  intro i p hi
  simp only [Array.getElem?_setIfInBounds] at hi
  split at hi
  · split at hi
    · cases hi; exact hv
    · cases hi
  · exact h i p hi

theorem swap_qpBd {s s1 : Store P} {N a b : Nat} (hq : s.QpBd N) (h : s.swap a b = .ok s1) : s1.QpBd N := by
  unfold swap at h
  simp only [bind_eq_ok, pure_eq_ok] at h
  obtain ⟨ia, _, ib, _, qp, hqp, heap, _, rfl⟩ := h
  obtain ⟨x, y, hx, hy, rfl⟩ := swapC_eq_ok_iff.1 hqp
  have hx' := hq _ _ hx
  have hy' := hq _ _ hy
  have h1 : ({ s with qp := s.qp.setIfInBounds ia y } : Store P).QpBd N := QpBd.set (heap := s.heap) hq hy'
  exact QpBd.set (heap := heap) h1 hx'

end Store

namespace MaxQ
open Store
variable {P : Type} [LT P] [DecidableLT P]

theorem heapifyLoop_qpBd (fuel : Nat) : ∀ {s s' : Store P} {N i : Nat}, s.QpBd N → heapifyLoop fuel s i = .ok s' →
    s'.QpBd N := by
  induction fuel with
  | zero => intro s s' N i _ h; simp [heapifyLoop] at h
  | succ fuel ih =>
    intro s s' N i hq h
    simp only [heapifyLoop] at h
    rw [bind_eq_ok] at h
    obtain ⟨⟨s1, L⟩, hp, h⟩ := h
    obtain ⟨_, _, _, _, _, _, hqp⟩ := pickLargest_cost hp
    have hq1 : s1.QpBd N := by intro i p hi; rw [hqp] at hi; exact hq i p hi
    dsimp only at h
    split at h
    · rw [pure_eq_ok] at h; subst h; exact hq1
    · rw [bind_eq_ok] at h
      obtain ⟨s2, hsw, h⟩ := h
      exact ih (Store.swap_qpBd hq1 hsw) h

theorem heapify_qpBd {s s' : Store P} {N i : Nat} (hq : s.QpBd N) (h : heapify s i = .ok s') : s'.QpBd N := by
  unfold heapify at h
  split at h
  · rw [pure_eq_ok] at h; subst h; exact hq
  · exact heapifyLoop_qpBd _ hq h

theorem bubbleUpLoop_qpBd (fuel : Nat) : ∀ {s s' : Store P} {N pos pos' : Nat} {v : P}, s.QpBd N → pos < N →
    bubbleUpLoop fuel s pos v = .ok (s', pos') → s'.QpBd N := by
  induction fuel with
  | zero => intro s s' N pos pos' v _ _ h; simp [bubbleUpLoop] at h
  | succ fuel ih =>
    intro s s' N pos pos' v hq hpos h
    simp only [bubbleUpLoop] at h
    split at h
    · rw [bind_eq_ok] at h
      obtain ⟨pp, _, h⟩ := h
      split at h
      · simp only [bind_eq_ok] at h
        obtain ⟨pi, _, heap, _, qp, hqp, h⟩ := h
        obtain ⟨_, rfl⟩ := setU_eq_ok_iff.1 hqp
        have hq' : (s.tick).QpBd N := hq
        have := parent_le pos
        exact ih (QpBd.set (heap := heap) hq' hpos) (by omega) h
      · rw [pure_eq_ok] at h; cases h; exact hq
    · rw [pure_eq_ok] at h; cases h; exact hq

theorem bubbleUp_qpBd {s s' : Store P} {N pos mp pos' : Nat} (hq : s.QpBd N) (hpos : pos < N)
    (h : bubbleUp s pos mp = .ok (s', pos')) : s'.QpBd N := by
  have hle := (bubbleUp_cost h).2.1
  unfold bubbleUp at h
  rw [bind_eq_ok] at h
  obtain ⟨e, _, h⟩ := h
  rw [bind_eq_ok] at h
  obtain ⟨⟨s1, p1⟩, hl, h⟩ := h
  simp only [bind_eq_ok, pure_eq_ok] at h
  obtain ⟨heap, _, qp, hqp, h⟩ := h
  cases h
  obtain ⟨_, rfl⟩ := setU_eq_ok_iff.1 hqp
  exact QpBd.set (heap := heap) (bubbleUpLoop_qpBd _ hq hpos hl) (by omega)

theorem upHeapify_qpBd {s s' : Store P} {N i : Nat} (hq : s.QpBd N) (hi : i < N) (h : upHeapify s i = .ok s') :
    s'.QpBd N := by
  unfold upHeapify at h
  rw [bind_eq_ok] at h
  obtain ⟨tmp, _, h⟩ := h
  rw [bind_eq_ok] at h
  obtain ⟨⟨s1, p1⟩, hb, h⟩ := h
  exact heapify_qpBd (bubbleUp_qpBd hq hi hb) h

/-- `push` keeps the recorded positions in range -/
theorem push_qpLt {s s' : Store P} {it : Item} {p : P} {r : Option P} (hq : s.QpLt) (h : push s it p = .ok (s', r)) :
    s'.QpLt := by
  have hsz := push_cost_gen (B := Nat.log2 s.size) (fun i pos hi => level_le_log2 (hq i pos hi)) h
  unfold push at h
  generalize s.map.insertFull it p = t at h
  obtain ⟨map, idx, old⟩ := t
  dsimp only at h
  cases old with
  | some oldp =>
    dsimp only at h
    rw [bind_eq_ok] at h
    obtain ⟨pos, hpos, h⟩ := h
    rw [bind_eq_ok] at h
    obtain ⟨s1, hu, h⟩ := h
    rw [pure_eq_ok] at h
    cases h
    have hs := (hsz.2 (by simp)).1
    have hp := hq idx pos (getU_eq_ok_iff.1 hpos)
    have : s'.QpBd s.size := upHeapify_qpBd (s := { s with map := map }) hq hp hu
    intro i p hi; rw [hs]; exact this i p hi
  | none =>
    dsimp only at h
    rw [bind_eq_ok] at h
    obtain ⟨⟨s1, p1⟩, hb, h⟩ := h
    rw [pure_eq_ok] at h
    cases h
    have hs := (hsz.1 rfl).1
    have h0 : ({ s with map := map, qp := s.qp.push s.size, heap := s.heap.push s.size } : Store P).QpBd (s.size + 1) := by
      intro i p hi
      simp only [Array.getElem?_push] at hi
      split at hi
      · cases hi; omega
      · have := hq i p hi; omega
    have := bubbleUp_qpBd h0 (Nat.lt_succ_self _) hb
    intro i p hi
    simp only at hs
    exact hs ▸ this i p hi

/-- the per-element strategy of `extend`: `k` pushes cost at most `k * 3 * log2 (final size)` comparisons -/
theorem pushAll_cost (es : List (Item × P)) : ∀ {s s' : Store P}, s.QpLt → pushAll es s = .ok s' →
    s'.QpLt ∧ s.size ≤ s'.size ∧ s'.size ≤ s.size + es.length ∧
    s'.ticks ≤ s.ticks + es.length * (3 * Nat.log2 s'.size) := by
  induction es with
  | nil =>
    intro s s' hq h
    simp only [pushAll, pure_eq_ok] at h
    subst h; exact ⟨hq, Nat.le_refl _, Nat.le_refl _, by simp⟩
  | cons e es ih =>
    intro s s' hq h
    simp only [pushAll] at h
    rw [bind_eq_ok] at h
    obtain ⟨⟨s1, r1⟩, hp, h⟩ := h
    obtain ⟨a, b, c⟩ := push_cost hq hp
    obtain ⟨q', a', b', c'⟩ := ih (push_qpLt hq hp) h
    refine ⟨q', by omega, by simp only [List.length_cons]; omega, ?_⟩
    have hm : 3 * Nat.log2 s1.size ≤ 3 * Nat.log2 s'.size := Nat.mul_le_mul_left 3 (log2_mono a')
    rw [List.length_cons, Nat.succ_mul]
    generalize es.length * (3 * Nat.log2 s'.size) = X at *
    omega

/-- `Extend::extend`: linear when it rebuilds, `k * 3 * log2 (final size)` when it pushes the `k` elements one by one -/
theorem extend_cost {s s' : Store P} {lo : Nat} {xs : Array (Item × P)} (hq : s.QpLt) (h : extend s lo xs = .ok s') :
    s'.size ≤ s.size + xs.size ∧
    s'.ticks ≤ s.ticks + max (2 * s'.size) (xs.size * (3 * Nat.log2 s'.size)) := by
  rw [extend_of_lt xs (extend_ok_lt h)] at h
  generalize (if lo ≠ 0 then betterToRebuild s.size lo else false) = rb at h
  split at h
  · obtain ⟨a, b⟩ := extend_rebuild_cost h
    exact ⟨a, by omega⟩
  · obtain ⟨_, _, a, b⟩ := pushAll_cost _ hq h
    rw [Array.length_toList] at a b
    exact ⟨a, by omega⟩

end MaxQ
/-! ## Part B: the min-max heap of `DoublePriorityQueue` -/

namespace DQ
open Store
variable {P : Type} [LT P] [DecidableLT P]

theorem candidates_go_cost_spec (s : Store P) (l : List Nat) : ∀ {cs : List (Nat × P)}, candidates.go s l = .ok cs →
    cs.length ≤ l.length ∧ ∀ x ∈ cs, x.1 ∈ l := by
  induction l with
  | nil => intro cs h; simp only [candidates.go, pure_eq_ok] at h; subst h; simp
  | cons c l ih =>
    intro cs h
    simp only [candidates.go] at h
    split at h
    · rw [pure_eq_ok] at h; subst h; simp
    · simp only [bind_eq_ok, pure_eq_ok] at h
      obtain ⟨e, _, rest, hr, rfl⟩ := h
      obtain ⟨a, b⟩ := ih hr
      refine ⟨by simp only [List.length_cons]; omega, ?_⟩
      intro x hx
      rcases List.mem_cons.1 hx with rfl | hx
      · exact List.mem_cons_self
      · exact List.mem_cons_of_mem _ (b x hx)

/-- at most six candidates (two children, four grandchildren), all of them among these six positions -/
theorem candidates_cost_spec {s : Store P} {i : Nat} {cs : List (Nat × P)} (h : candidates s i = .ok cs) :
    cs.length ≤ 6 ∧ ∀ x ∈ cs, x.1 = left i ∨ x.1 = right i ∨ x.1 = left (left i) ∨ x.1 = right (left i) ∨
      x.1 = left (right i) ∨ x.1 = right (right i) := by
  unfold candidates at h
  obtain ⟨a, b⟩ := candidates_go_cost_spec s _ h
  refine ⟨a, fun x hx => ?_⟩
  have := b x hx
  simpa using this

theorem foldl_mem {α : Type} (f : α → α → α) (hf : ∀ a b, f a b = a ∨ f a b = b) (xs : List α) :
    ∀ a, xs.foldl f a = a ∨ xs.foldl f a ∈ xs := by
  induction xs with
  | nil => intro a; exact Or.inl rfl
  | cons x xs ih =>
    intro a
    simp only [List.foldl_cons]
    rcases ih (f a x) with h | h
    · rcases hf a x with e | e
      · left; rw [h, e]
      · right; rw [h, e]; exact List.mem_cons_self
    · right; exact List.mem_cons_of_mem _ h

theorem minByKey_mem {cs : List (Nat × P)} {c : Nat × P} (h : minByKey cs = some c) : c ∈ cs := by
  cases cs with
  | nil => simp [minByKey] at h
  | cons x xs =>
    simp only [minByKey, Option.some.injEq] at h
    subst h
    have key := foldl_mem (fun (acc y : Nat × P) => if y.2 < acc.2 then y else acc)
      (fun a b => by by_cases hc : b.2 < a.2 <;> simp [hc]) xs x
    rcases key with e | e
    · rw [e]; exact List.mem_cons_self
    · exact List.mem_cons_of_mem _ e

theorem maxByKey_mem {cs : List (Nat × P)} {c : Nat × P} (h : maxByKey cs = some c) : c ∈ cs := by
  cases cs with
  | nil => simp [maxByKey] at h
  | cons x xs =>
    simp only [maxByKey, Option.some.injEq] at h
    subst h
    have key := foldl_mem (fun (acc y : Nat × P) => if y.2 < acc.2 then acc else y)
      (fun a b => by by_cases hc : b.2 < a.2 <;> simp [hc]) xs x
    rcases key with e | e
    · rw [e]; exact List.mem_cons_self
    · exact List.mem_cons_of_mem _ e

/-- a candidate beyond the right child is a grandchild -/
theorem grandchild_of_gt {i c : Nat} (hc : c = left i ∨ c = right i ∨ c = left (left i) ∨ c = right (left i) ∨
    c = left (right i) ∨ c = right (right i)) (hg : c > right i) : 0 < parent c ∧ parent (parent c) = i := by
  simp only [left, right, parent] at *
  omega

/-- arithmetic of one sift-down step of the min-max heap: seven comparisons, then two levels deeper -/
theorem trickle_arith {n i c : Nat} (hl : left i < n) (hp : 0 < parent c) (hpp : parent (parent c) = i) :
    7 + 7 * ((height n c + 1) / 2) ≤ 7 * ((height n i + 1) / 2) := by
  have h1 := height_of_left_lt hl
  by_cases hc : c < n
  · have := height_grandchild hp hc
    rw [hpp] at this; omega
  · have := height_eq_zero_of_le (n := n) (i := c) (by omega)
    omega


theorem parentC_ok {i site p : Nat} (h : parentC i site = .ok p) : i ≠ 0 ∧ p = parent i := by
  unfold parentC at h
  split at h
  · cases h
  · cases h; exact ⟨by assumption, rfl⟩

/-- **trickle-down on min levels**: each round costs at most `5 + 1 + 1 = 7` comparisons and continues two levels
deeper, hence at most `7 * ⌈height / 2⌉` comparisons -/
theorem heapifyMinLoop_cost (fuel : Nat) : ∀ {s s' : Store P} {i : Nat}, heapifyMinLoop fuel s i = .ok s' →
    s'.size = s.size ∧ s'.ticks ≤ s.ticks + 7 * ((height s.size i + 1) / 2) := by
  induction fuel with
  | zero => intro s s' i h; simp [heapifyMinLoop] at h
  | succ fuel ih =>
    intro s s' i h
    simp only [heapifyMinLoop] at h
    rw [bind_eq_ok] at h
    obtain ⟨last, hlast, h⟩ := h
    rw [bind_eq_ok] at h
    obtain ⟨bound, hbound, h⟩ := h
    obtain ⟨hs0, rfl⟩ := decC_eq_ok_iff.1 hlast
    obtain ⟨hl0, rfl⟩ := parentC_ok hbound
    by_cases hib : i ≤ parent (s.size - 1)
    · rw [if_pos hib] at h
      have hleft : left i < s.size := (left_lt_iff (by omega)).2 hib
      have hh := height_of_left_lt hleft
      rw [bind_eq_ok] at h
      obtain ⟨cs, hcs, h⟩ := h
      obtain ⟨hlen, hmem⟩ := candidates_cost_spec hcs
      rw [bind_eq_ok] at h
      obtain ⟨c, hc, h⟩ := h
      have hcm := hmem c (minByKey_mem (unwrapO_eq_ok_iff.1 hc))
      rw [bind_eq_ok] at h
      obtain ⟨pc, _, h⟩ := h
      rw [bind_eq_ok] at h
      obtain ⟨pm, _, h⟩ := h
      by_cases hlt : pc < pm
      · rw [if_pos hlt, bind_eq_ok] at h
        obtain ⟨s1, hsw, h⟩ := h
        obtain ⟨z1, t1, _⟩ := Store.swap_cost hsw
        simp only [Store.tick_size, Store.tick_ticks] at z1 t1
        by_cases hg : c.1 > right i
        · rw [if_pos hg] at h
          rw [bind_eq_ok] at h
          obtain ⟨p, _, h⟩ := h
          rw [bind_eq_ok] at h
          obtain ⟨pc', _, h⟩ := h
          rw [bind_eq_ok] at h
          obtain ⟨pp, _, h⟩ := h
          have hs2' : ∃ s2 : Store P, heapifyMinLoop fuel s2 c.1 = .ok s' ∧ s2.size = s.size ∧ s2.ticks = s1.ticks + 1 := by
            split at h
            · rw [bind_eq_ok] at h
              obtain ⟨s2, hs2, h⟩ := h
              obtain ⟨a, b, _⟩ := Store.swap_cost hs2
              simp only [Store.tick_size, Store.tick_ticks] at a b
              exact ⟨s2, h, by rw [a, z1], b⟩
            · rw [bind_eq_ok] at h
              obtain ⟨s2, hs2, h⟩ := h
              rw [pure_eq_ok] at hs2; subst hs2
              exact ⟨_, h, z1, rfl⟩
          obtain ⟨s2, h, hs2'⟩ := hs2'
          obtain ⟨z3, t3⟩ := ih h
          obtain ⟨gp0, gp1⟩ := grandchild_of_gt hcm hg
          rw [hs2'.1] at z3 t3
          have := trickle_arith hleft gp0 gp1
          exact ⟨z3, by omega⟩
        · rw [if_neg hg, pure_eq_ok] at h
          subst h
          exact ⟨z1, by omega⟩
      · rw [if_neg hlt, pure_eq_ok] at h
        subst h
        refine ⟨rfl, ?_⟩
        simp only [Store.tick_ticks]; omega
    · rw [if_neg hib, pure_eq_ok] at h
      subst h; exact ⟨rfl, by omega⟩

/-- trickle-down on max levels: same count -/
theorem heapifyMaxLoop_cost (fuel : Nat) : ∀ {s s' : Store P} {i : Nat}, heapifyMaxLoop fuel s i = .ok s' →
    s'.size = s.size ∧ s'.ticks ≤ s.ticks + 7 * ((height s.size i + 1) / 2) := by
  induction fuel with
  | zero => intro s s' i h; simp [heapifyMaxLoop] at h
  | succ fuel ih =>
    intro s s' i h
    simp only [heapifyMaxLoop] at h
    rw [bind_eq_ok] at h
    obtain ⟨last, hlast, h⟩ := h
    rw [bind_eq_ok] at h
    obtain ⟨bound, hbound, h⟩ := h
    obtain ⟨hs0, rfl⟩ := decC_eq_ok_iff.1 hlast
    obtain ⟨hl0, rfl⟩ := parentC_ok hbound
    by_cases hib : i ≤ parent (s.size - 1)
    · rw [if_pos hib] at h
      have hleft : left i < s.size := (left_lt_iff (by omega)).2 hib
      have hh := height_of_left_lt hleft
      rw [bind_eq_ok] at h
      obtain ⟨cs, hcs, h⟩ := h
      obtain ⟨hlen, hmem⟩ := candidates_cost_spec hcs
      rw [bind_eq_ok] at h
      obtain ⟨c, hc, h⟩ := h
      have hcm := hmem c (maxByKey_mem (unwrapO_eq_ok_iff.1 hc))
      rw [bind_eq_ok] at h
      obtain ⟨pc, _, h⟩ := h
      rw [bind_eq_ok] at h
      obtain ⟨pm, _, h⟩ := h
      by_cases hlt : pm < pc
      · rw [if_pos hlt, bind_eq_ok] at h
        obtain ⟨s1, hsw, h⟩ := h
        obtain ⟨z1, t1, _⟩ := Store.swap_cost hsw
        simp only [Store.tick_size, Store.tick_ticks] at z1 t1
        by_cases hg : c.1 > right i
        · rw [if_pos hg] at h
          rw [bind_eq_ok] at h
          obtain ⟨p, _, h⟩ := h
          rw [bind_eq_ok] at h
          obtain ⟨pc', _, h⟩ := h
          rw [bind_eq_ok] at h
          obtain ⟨pp, _, h⟩ := h
          have hs2' : ∃ s2 : Store P, heapifyMaxLoop fuel s2 c.1 = .ok s' ∧ s2.size = s.size ∧ s2.ticks = s1.ticks + 1 := by
            split at h
            · rw [bind_eq_ok] at h
              obtain ⟨s2, hs2, h⟩ := h
              obtain ⟨a, b, _⟩ := Store.swap_cost hs2
              simp only [Store.tick_size, Store.tick_ticks] at a b
              exact ⟨s2, h, by rw [a, z1], b⟩
            · rw [bind_eq_ok] at h
              obtain ⟨s2, hs2, h⟩ := h
              rw [pure_eq_ok] at hs2; subst hs2
              exact ⟨_, h, z1, rfl⟩
          obtain ⟨s2, h, hs2'⟩ := hs2'
          obtain ⟨z3, t3⟩ := ih h
          obtain ⟨gp0, gp1⟩ := grandchild_of_gt hcm hg
          rw [hs2'.1] at z3 t3
          have := trickle_arith hleft gp0 gp1
          exact ⟨z3, by omega⟩
        · rw [if_neg hg, pure_eq_ok] at h
          subst h
          exact ⟨z1, by omega⟩
      · rw [if_neg hlt, pure_eq_ok] at h
        subst h
        refine ⟨rfl, ?_⟩
        simp only [Store.tick_ticks]; omega
    · rw [if_neg hib, pure_eq_ok] at h
      subst h; exact ⟨rfl, by omega⟩


/-- `heapify(i)` of the min-max heap: at most `7 * ⌈height / 2⌉` comparisons -/
theorem heapify_cost {s s' : Store P} {i : Nat} (h : heapify s i = .ok s') :
    s'.size = s.size ∧ s'.ticks ≤ s.ticks + 7 * ((height s.size i + 1) / 2) := by
  unfold heapify at h
  split at h
  · rw [pure_eq_ok] at h; subst h; exact ⟨rfl, by omega⟩
  · split at h
    · exact heapifyMinLoop_cost _ h
    · exact heapifyMaxLoop_cost _ h

theorem heapify_cost_log {s s' : Store P} {i : Nat} (h : heapify s i = .ok s') :
    s'.size = s.size ∧ s'.ticks ≤ s.ticks + 7 * ((Nat.log2 s.size + 1) / 2) := by
  obtain ⟨a, b⟩ := heapify_cost h
  have := height_le_log s.size i
  have : (height s.size i + 1) / 2 ≤ (Nat.log2 s.size + 1) / 2 := Nat.div_le_div_right (by omega)
  exact ⟨a, by omega⟩

/-- **bubble-up over grandparents**: one comparison per two levels -/
theorem bubbleUpMinLoop_cost (fuel : Nat) : ∀ {s s' : Store P} {pos pos' : Nat} {v : P},
    bubbleUpMinLoop fuel s pos v = .ok (s', pos') →
    s'.size = s.size ∧ pos' ≤ pos ∧ s'.ticks ≤ s.ticks + level pos / 2 := by
  induction fuel with
  | zero => intro s s' pos pos' v h; simp [bubbleUpMinLoop] at h
  | succ fuel ih =>
    intro s s' pos pos' v h
    simp only [bubbleUpMinLoop] at h
    by_cases hpos : pos > 0 ∧ parent pos > 0
    · rw [if_pos hpos, bind_eq_ok] at h
      obtain ⟨gpp, _, h⟩ := h
      have hl1 := level_parent hpos.1
      have hl2 := level_parent hpos.2
      have := parent_le pos
      have := parent_le (parent pos)
      by_cases hc : v < gpp
      · rw [if_pos hc] at h
        simp only [bind_eq_ok] at h
        obtain ⟨gpi, _, heap, _, qp, _, h⟩ := h
        obtain ⟨h1, h2, h3⟩ := ih h
        simp only [Store.tick_size, Store.tick_ticks] at h1 h3
        exact ⟨h1, by omega, by omega⟩
      · rw [if_neg hc, pure_eq_ok] at h
        cases h
        refine ⟨rfl, Nat.le_refl _, ?_⟩
        simp only [Store.tick_ticks]; omega
    · rw [if_neg hpos, pure_eq_ok] at h
      cases h
      exact ⟨rfl, Nat.le_refl _, by omega⟩

theorem bubbleUpMaxLoop_cost (fuel : Nat) : ∀ {s s' : Store P} {pos pos' : Nat} {v : P},
    bubbleUpMaxLoop fuel s pos v = .ok (s', pos') →
    s'.size = s.size ∧ pos' ≤ pos ∧ s'.ticks ≤ s.ticks + level pos / 2 := by
  induction fuel with
  | zero => intro s s' pos pos' v h; simp [bubbleUpMaxLoop] at h
  | succ fuel ih =>
    intro s s' pos pos' v h
    simp only [bubbleUpMaxLoop] at h
    by_cases hpos : pos > 0 ∧ parent pos > 0
    · rw [if_pos hpos, bind_eq_ok] at h
      obtain ⟨gpp, _, h⟩ := h
      have hl1 := level_parent hpos.1
      have hl2 := level_parent hpos.2
      have := parent_le pos
      have := parent_le (parent pos)
      by_cases hc : gpp < v
      · rw [if_pos hc] at h
        simp only [bind_eq_ok] at h
        obtain ⟨gpi, _, heap, _, qp, _, h⟩ := h
        obtain ⟨h1, h2, h3⟩ := ih h
        simp only [Store.tick_size, Store.tick_ticks] at h1 h3
        exact ⟨h1, by omega, by omega⟩
      · rw [if_neg hc, pure_eq_ok] at h
        cases h
        refine ⟨rfl, Nat.le_refl _, ?_⟩
        simp only [Store.tick_ticks]; omega
    · rw [if_neg hpos, pure_eq_ok] at h
      cases h
      exact ⟨rfl, Nat.le_refl _, by omega⟩

theorem bubbleUpMin_cost {s s' : Store P} {pos mp pos' : Nat} (h : bubbleUpMin s pos mp = .ok (s', pos')) :
    s'.size = s.size ∧ pos' ≤ pos ∧ s'.ticks ≤ s.ticks + level pos / 2 := by
  unfold bubbleUpMin at h
  rw [bind_eq_ok] at h
  obtain ⟨e, _, h⟩ := h
  exact bubbleUpMinLoop_cost _ h

theorem bubbleUpMax_cost {s s' : Store P} {pos mp pos' : Nat} (h : bubbleUpMax s pos mp = .ok (s', pos')) :
    s'.size = s.size ∧ pos' ≤ pos ∧ s'.ticks ≤ s.ticks + level pos / 2 := by
  unfold bubbleUpMax at h
  rw [bind_eq_ok] at h
  obtain ⟨e, _, h⟩ := h
  exact bubbleUpMaxLoop_cost _ h

/-- `bubble_up`: one comparison with the parent, then a climb over grandparents; nothing at the root -/
theorem bubbleUp_cost {s s' : Store P} {pos mp pos' : Nat} (h : bubbleUp s pos mp = .ok (s', pos')) :
    s'.size = s.size ∧ pos' ≤ pos ∧ s'.ticks ≤ s.ticks + level pos / 2 + 1 ∧ (pos = 0 → s'.ticks = s.ticks) := by
  unfold bubbleUp at h
  rw [bind_eq_ok] at h
  obtain ⟨e, _, h⟩ := h
  dsimp only at h
  by_cases hpos : pos > 0
  · rw [if_pos hpos] at h
    rw [bind_eq_ok] at h
    obtain ⟨pp, _, h⟩ := h
    rw [bind_eq_ok] at h
    obtain ⟨pi, _, h⟩ := h
    have hlev := level_parent hpos
    have hpl := parent_le pos
    have hdiv : level (parent pos) / 2 ≤ level pos / 2 := Nat.div_le_div_right (by omega)
    split at h
    · simp only [bind_eq_ok, pure_eq_ok, Prod.exists] at h
      obtain ⟨heap, _, qp, _, s1, p1, hl, heap', _, qp', _, h⟩ := h
      cases h
      obtain ⟨a, b, c⟩ := bubbleUpMax_cost hl
      simp only [Store.tick_size, Store.tick_ticks] at a c
      dsimp only
      exact ⟨a, by omega, by omega, by omega⟩
    · simp only [bind_eq_ok, pure_eq_ok, Prod.exists] at h
      obtain ⟨s1, p1, hl, heap', _, qp', _, h⟩ := h
      cases h
      obtain ⟨a, b, c⟩ := bubbleUpMin_cost hl
      simp only [Store.tick_size, Store.tick_ticks] at a c
      dsimp only
      exact ⟨a, by omega, by omega, by omega⟩
    · simp only [bind_eq_ok, pure_eq_ok, Prod.exists] at h
      obtain ⟨s1, p1, hl, heap', _, qp', _, h⟩ := h
      cases h
      obtain ⟨a, b, c⟩ := bubbleUpMax_cost hl
      simp only [Store.tick_size, Store.tick_ticks] at a c
      dsimp only
      exact ⟨a, by omega, by omega, by omega⟩
    · simp only [bind_eq_ok, pure_eq_ok, Prod.exists] at h
      obtain ⟨heap, _, qp, _, s1, p1, hl, heap', _, qp', _, h⟩ := h
      cases h
      obtain ⟨a, b, c⟩ := bubbleUpMin_cost hl
      simp only [Store.tick_size, Store.tick_ticks] at a c
      dsimp only
      exact ⟨a, by omega, by omega, by omega⟩
  · rw [if_neg hpos] at h
    simp only [bind_eq_ok, pure_eq_ok, Prod.exists] at h
    obtain ⟨s1, p1, hl, heap', _, qp', _, h⟩ := h
    cases h; cases hl
    dsimp only
    exact ⟨rfl, Nat.le_refl _, by omega, fun _ => rfl⟩

/-- `up_heapify(i)`: a sift-up and up to two sift-downs -/
theorem upHeapify_cost {s s' : Store P} {i : Nat} (h : upHeapify s i = .ok s') :
    s'.size = s.size ∧ s'.ticks ≤ s.ticks + level i / 2 + 1 + 14 * ((Nat.log2 s.size + 1) / 2) := by
  unfold upHeapify at h
  split at h
  · rw [pure_eq_ok] at h; subst h; exact ⟨rfl, by omega⟩
  · rw [bind_eq_ok] at h
    obtain ⟨⟨s1, p1⟩, hb, h⟩ := h
    obtain ⟨a, _, c, _⟩ := bubbleUp_cost hb
    dsimp only at h
    split at h
    · simp only [bind_eq_ok] at h
      obtain ⟨s2, h2, h⟩ := h
      obtain ⟨x, y⟩ := heapify_cost_log h2
      obtain ⟨e, f⟩ := heapify_cost_log h
      rw [x, a] at e f; rw [a] at y
      exact ⟨e, by omega⟩
    · simp only [bind_eq_ok, pure_eq_ok] at h
      obtain ⟨s2, h2, h⟩ := h
      subst h2
      obtain ⟨e, f⟩ := heapify_cost_log h
      rw [a] at e f
      exact ⟨e, by omega⟩

/-- `up_heapify(i)` at a position of the queue: at most `8 * log2 size + 8` comparisons -/
theorem upHeapify_cost_log {s s' : Store P} {i : Nat} (hi : i < s.size) (h : upHeapify s i = .ok s') :
    s'.size = s.size ∧ s'.ticks ≤ s.ticks + 8 * Nat.log2 s.size + 8 := by
  obtain ⟨a, b⟩ := upHeapify_cost h
  have := level_le_log2 hi
  exact ⟨a, by omega⟩

/-- `find_max`: at most one comparison, and the position found is one of `0, 1, 2` -/
theorem findMax_cost {s s' : Store P} {r : Option Nat} (h : findMax s = .ok (s', r)) :
    s'.size = s.size ∧ s'.ticks ≤ s.ticks + 1 ∧ s'.map = s.map ∧ s'.qp = s.qp ∧ s'.heap = s.heap ∧
    (∀ i, r = some i → i ≤ 2) ∧ (r = none → s.size = 0) := by
  unfold findMax at h
  split at h
  · rename_i h0
    rw [pure_eq_ok] at h; cases h; exact ⟨rfl, by omega, rfl, rfl, rfl, (by intro i e; cases e), fun _ => h0⟩
  · rw [pure_eq_ok] at h; cases h
    exact ⟨rfl, by omega, rfl, rfl, rfl, (by intro i e; cases e; omega), (by intro e; cases e)⟩
  · rw [pure_eq_ok] at h; cases h
    exact ⟨rfl, by omega, rfl, rfl, rfl, (by intro i e; cases e; omega), (by intro e; cases e)⟩
  · simp only [bind_eq_ok, pure_eq_ok] at h
    obtain ⟨p1, _, p2, _, h⟩ := h
    cases h
    refine ⟨rfl, Nat.le_refl _, rfl, rfl, rfl, ?_, (by intro e; cases e)⟩
    intro i e; cases e; split <;> omega


/-! ### public operations of `DoublePriorityQueue` -/

theorem findMin_some {s : Store P} {i : Nat} (h : findMin s = some i) : i = 0 := by
  unfold findMin at h; split at h <;> cases h; rfl

/-- `peek_min` is a pure read (no store in its result).  `peek_max`: at most one comparison. -/
theorem peekMax_cost {s s' : Store P} {r : Option (Item × P)} (h : peekMax s = .ok (s', r)) :
    s'.size = s.size ∧ s'.ticks ≤ s.ticks + 1 := by
  unfold peekMax at h
  rw [bind_eq_ok] at h
  obtain ⟨⟨s1, r1⟩, hf, h⟩ := h
  obtain ⟨a, b, _⟩ := findMax_cost hf
  dsimp only at h
  split at h
  · rw [pure_eq_ok] at h; cases h; exact ⟨a, b⟩
  · simp only [bind_eq_ok, pure_eq_ok] at h
    obtain ⟨e, _, h⟩ := h
    cases h; exact ⟨a, b⟩

theorem peekMinMutWrite_cost {s s' : Store P} {w : Item → Item} {r : Option (Item × P)}
    (h : peekMinMutWrite s w = .ok (s', r)) : s'.ticks = s.ticks ∧ s'.size = s.size := by
  unfold peekMinMutWrite at h
  split at h
  · rw [pure_eq_ok] at h; cases h; exact ⟨rfl, rfl⟩
  · rw [bind_eq_ok] at h
    obtain ⟨i, _, h⟩ := h
    split at h <;> (rw [pure_eq_ok] at h; cases h; exact ⟨rfl, rfl⟩)

theorem peekMaxMutWrite_cost {s s' : Store P} {w : Item → Item} {r : Option (Item × P)}
    (h : peekMaxMutWrite s w = .ok (s', r)) : s'.ticks ≤ s.ticks + 1 ∧ s'.size = s.size := by
  unfold peekMaxMutWrite at h
  rw [bind_eq_ok] at h
  obtain ⟨⟨s1, r1⟩, hf, h⟩ := h
  obtain ⟨a, b, _⟩ := findMax_cost hf
  dsimp only at h
  split at h
  · rw [pure_eq_ok] at h; cases h; exact ⟨b, a⟩
  · rw [bind_eq_ok] at h
    obtain ⟨i, _, h⟩ := h
    split at h <;> (rw [pure_eq_ok] at h; cases h; exact ⟨b, a⟩)

theorem popMin_cost {s s' : Store P} {r : Option (Item × P)} (h : popMin s = .ok (s', r)) :
    s'.size = s.size - 1 ∧ s'.ticks ≤ s.ticks + 7 * ((Nat.log2 s'.size + 1) / 2) := by
  unfold popMin at h
  split at h
  · rename_i hf
    rw [pure_eq_ok] at h; cases h
    unfold findMin at hf
    split at hf
    · rename_i h0; exact ⟨by omega, by omega⟩
    · cases hf
  · simp only [bind_eq_ok, pure_eq_ok, Prod.exists] at h
    obtain ⟨s1, r1, hs, s2, hh, h⟩ := h
    cases h
    obtain ⟨a, b⟩ := swapRemove_cost hs
    obtain ⟨c, d⟩ := heapify_cost_log hh
    rw [c]; exact ⟨a, by omega⟩

theorem popMinIf_cost {s s' : Store P} {f : Item → P → Bool × Item × P} {r : Option (Item × P)}
    (h : popMinIf s f = .ok (s', r)) :
    s'.size ≤ s.size ∧ s'.ticks ≤ s.ticks + 7 * ((Nat.log2 s'.size + 1) / 2) := by
  unfold popMinIf at h
  split at h
  · rw [pure_eq_ok] at h; cases h; exact ⟨Nat.le_refl _, by omega⟩
  · simp only [bind_eq_ok, pure_eq_ok, Prod.exists] at h
    obtain ⟨s1, r1, hs, s2, hh, h⟩ := h
    cases h
    obtain ⟨a, b⟩ := swapRemoveIf_cost hs
    obtain ⟨c, d⟩ := heapify_cost_log hh
    rw [c]; exact ⟨a, by omega⟩

theorem popMax_cost {s s' : Store P} {r : Option (Item × P)} (h : popMax s = .ok (s', r)) :
    s'.size = s.size - 1 ∧ s'.ticks ≤ s.ticks + 7 * ((Nat.log2 s'.size + 1) / 2) + 1 := by
  unfold popMax at h
  rw [bind_eq_ok] at h
  obtain ⟨⟨s0, r0⟩, hf, h⟩ := h
  obtain ⟨z0, t0, _, _, _, _, hnone⟩ := findMax_cost hf
  dsimp only at h
  split at h
  · rw [pure_eq_ok] at h; cases h
    have : s.size = 0 := hnone rfl
    exact ⟨by omega, by omega⟩
  · simp only [bind_eq_ok, pure_eq_ok, Prod.exists] at h
    obtain ⟨s1, r1, hs, s2, hh, h⟩ := h
    cases h
    obtain ⟨a, b⟩ := swapRemove_cost hs
    obtain ⟨c, d⟩ := heapify_cost_log hh
    rw [c]; exact ⟨by omega, by omega⟩

theorem popMaxIf_cost {s s' : Store P} {f : Item → P → Bool × Item × P} {r : Option (Item × P)}
    (h : popMaxIf s f = .ok (s', r)) :
    s'.size ≤ s.size ∧ s'.ticks ≤ s.ticks + 14 * ((Nat.log2 s'.size + 1) / 2) + 2 := by
  unfold popMaxIf at h
  rw [bind_eq_ok] at h
  obtain ⟨⟨s0, r0⟩, hf, h⟩ := h
  obtain ⟨z0, t0, hm0, hq0, hh0, hi, hnn⟩ := findMax_cost hf
  dsimp only at h
  split at h
  · rw [pure_eq_ok] at h; cases h; exact ⟨by omega, by omega⟩
  · rename_i i
    simp only [bind_eq_ok, pure_eq_ok, Prod.exists] at h
    obtain ⟨s1, r1, hs, s2, hh, h⟩ := h
    cases h
    obtain ⟨a, b⟩ := swapRemoveIf_cost hs
    obtain ⟨c, d⟩ := upHeapify_cost hh
    have hi2 := hi i rfl
    have : level i / 2 = 0 := by
      have : level i ≤ level 2 := level_mono hi2
      rw [level_two] at this; omega
    rw [c]; exact ⟨by omega, by omega⟩

/-- `push`, general form -/
theorem push_cost_gen {s s' : Store P} {it : Item} {p : P} {r : Option P} {B : Nat}
    (hB : ∀ (i pos : Nat), s.qp[i]? = some pos → level pos ≤ B) (h : push s it p = .ok (s', r)) :
    (r = none → s'.size = s.size + 1 ∧ s'.ticks ≤ s.ticks + Nat.log2 (s.size + 1) / 2 + 1) ∧
    (r ≠ none → s'.size = s.size ∧ s'.ticks ≤ s.ticks + B / 2 + 1 + 14 * ((Nat.log2 s.size + 1) / 2)) := by
  unfold push at h
  generalize s.map.insertFull it p = t at h
  obtain ⟨map, idx, old⟩ := t
  dsimp only at h
  cases old with
  | some oldp =>
    dsimp only at h
    rw [bind_eq_ok] at h
    obtain ⟨pos, hpos, h⟩ := h
    rw [bind_eq_ok] at h
    obtain ⟨s1, hu, h⟩ := h
    rw [pure_eq_ok] at h
    cases h
    obtain ⟨a, b⟩ := upHeapify_cost hu
    have := hB idx pos (getU_eq_ok_iff.1 hpos)
    have : level pos / 2 ≤ B / 2 := Nat.div_le_div_right this
    refine ⟨fun e => (by cases e), fun _ => ⟨a, ?_⟩⟩
    simp only at b; omega
  | none =>
    dsimp only at h
    rw [bind_eq_ok] at h
    obtain ⟨⟨s1, p1⟩, hb, h⟩ := h
    rw [pure_eq_ok] at h
    cases h
    obtain ⟨a, _, c, _⟩ := bubbleUp_cost hb
    refine ⟨fun _ => ⟨by simp only [a], ?_⟩, fun e => absurd rfl e⟩
    simp only [level_eq] at c; exact c

/-- `push` on a queue whose recorded positions are in range: at most `8 * log2 (size after) + 8` comparisons -/
theorem push_cost {s s' : Store P} {it : Item} {p : P} {r : Option P} (hq : s.QpLt) (h : push s it p = .ok (s', r)) :
    s'.size ≤ s.size + 1 ∧ s.size ≤ s'.size ∧ s'.ticks ≤ s.ticks + 8 * Nat.log2 s'.size + 8 := by
  obtain ⟨a, b⟩ := push_cost_gen (B := Nat.log2 s.size) (fun i pos hi => level_le_log2 (hq i pos hi)) h
  cases r with
  | none => obtain ⟨a1, a2⟩ := a rfl; rw [a1]; exact ⟨Nat.le_refl _, by omega, by omega⟩
  | some x => obtain ⟨b1, b2⟩ := b (by simp); rw [b1]; exact ⟨by omega, Nat.le_refl _, by omega⟩

theorem changePriority_cost_gen {s s' : Store P} {k : Nat} {p : P} {r : Option P} {B : Nat}
    (hB : ∀ (i pos : Nat), s.qp[i]? = some pos → level pos ≤ B) (h : changePriority s k p = .ok (s', r)) :
    s'.size = s.size ∧ s'.ticks ≤ s.ticks + B / 2 + 1 + 14 * ((Nat.log2 s.size + 1) / 2) := by
  unfold changePriority at h
  rw [bind_eq_ok] at h
  obtain ⟨⟨s1, r1⟩, hs, h⟩ := h
  obtain ⟨a, b, c, d⟩ := Store.changePriority_cost hs
  dsimp only at h
  split at h
  · rename_i old pos
    rw [bind_eq_ok] at h
    obtain ⟨s2, hu, h⟩ := h
    rw [pure_eq_ok] at h; cases h
    obtain ⟨i, hi⟩ := d old pos rfl
    have := hB i pos hi
    have : level pos / 2 ≤ B / 2 := Nat.div_le_div_right this
    obtain ⟨e, f⟩ := upHeapify_cost hu
    rw [a] at e f
    exact ⟨e, by omega⟩
  · rw [pure_eq_ok] at h; cases h; exact ⟨a, by omega⟩

theorem changePriority_cost {s s' : Store P} {k : Nat} {p : P} {r : Option P} (hq : s.QpLt)
    (h : changePriority s k p = .ok (s', r)) :
    s'.size = s.size ∧ s'.ticks ≤ s.ticks + 8 * Nat.log2 s.size + 8 := by
  obtain ⟨a, b⟩ := changePriority_cost_gen (B := Nat.log2 s.size) (fun i pos hi => level_le_log2 (hq i pos hi)) h
  exact ⟨a, by omega⟩

theorem changePriorityBy_cost_gen {s s' : Store P} {k : Nat} {g : P → P} {r : Bool} {B : Nat}
    (hB : ∀ (i pos : Nat), s.qp[i]? = some pos → level pos ≤ B) (h : changePriorityBy s k g = .ok (s', r)) :
    s'.size = s.size ∧ s'.ticks ≤ s.ticks + B / 2 + 1 + 14 * ((Nat.log2 s.size + 1) / 2) := by
  unfold changePriorityBy at h
  rw [bind_eq_ok] at h
  obtain ⟨⟨s1, r1⟩, hs, h⟩ := h
  obtain ⟨a, b, c, d⟩ := Store.changePriorityBy_cost hs
  dsimp only at h
  split at h
  · rename_i pos
    rw [bind_eq_ok] at h
    obtain ⟨s2, hu, h⟩ := h
    rw [pure_eq_ok] at h; cases h
    obtain ⟨i, hi⟩ := d pos rfl
    have := hB i pos hi
    have : level pos / 2 ≤ B / 2 := Nat.div_le_div_right this
    obtain ⟨e, f⟩ := upHeapify_cost hu
    rw [a] at e f
    exact ⟨e, by omega⟩
  · rw [pure_eq_ok] at h; cases h; exact ⟨a, by omega⟩

theorem changePriorityBy_cost {s s' : Store P} {k : Nat} {g : P → P} {r : Bool} (hq : s.QpLt)
    (h : changePriorityBy s k g = .ok (s', r)) :
    s'.size = s.size ∧ s'.ticks ≤ s.ticks + 8 * Nat.log2 s.size + 8 := by
  obtain ⟨a, b⟩ := changePriorityBy_cost_gen (B := Nat.log2 s.size) (fun i pos hi => level_le_log2 (hq i pos hi)) h
  exact ⟨a, by omega⟩

theorem remove_cost {s s' : Store P} {k : Nat} {r : Option (Item × P)} (h : remove s k = .ok (s', r)) :
    s'.size ≤ s.size ∧ s'.ticks ≤ s.ticks + 8 * Nat.log2 s'.size + 8 := by
  unfold remove at h
  rw [bind_eq_ok] at h
  obtain ⟨⟨s1, r1⟩, hs, h⟩ := h
  obtain ⟨a, b⟩ := Store.remove_cost hs
  dsimp only at h
  split at h
  · split at h
    · rename_i hpos
      rw [bind_eq_ok] at h
      obtain ⟨s2, hu, h⟩ := h
      rw [pure_eq_ok] at h; cases h
      obtain ⟨e, f⟩ := upHeapify_cost_log hpos hu
      rw [e]; exact ⟨a, by omega⟩
    · rw [pure_eq_ok] at h; cases h; exact ⟨a, by omega⟩
  · rw [pure_eq_ok] at h; cases h; exact ⟨a, by omega⟩

theorem pushIncrease_cost {s s' : Store P} {it : Item} {p : P} {r : Option P} (hq : s.QpLt)
    (h : pushIncrease s it p = .ok (s', r)) :
    s'.size ≤ s.size + 1 ∧ s.size ≤ s'.size ∧ s'.ticks ≤ s.ticks + 8 * Nat.log2 s'.size + 9 := by
  unfold pushIncrease at h
  split at h
  · obtain ⟨a, b, c⟩ := push_cost hq h; exact ⟨a, b, by omega⟩
  · dsimp only at h
    split at h
    · have hq' : (s.tick).QpLt := hq
      obtain ⟨a, b, c⟩ := push_cost hq' h
      simp only [Store.tick_size, Store.tick_ticks] at a b c
      exact ⟨a, b, by omega⟩
    · rw [pure_eq_ok] at h; cases h
      simp only [Store.tick_size, Store.tick_ticks]
      exact ⟨by omega, Nat.le_refl _, by omega⟩

theorem pushDecrease_cost {s s' : Store P} {it : Item} {p : P} {r : Option P} (hq : s.QpLt)
    (h : pushDecrease s it p = .ok (s', r)) :
    s'.size ≤ s.size + 1 ∧ s.size ≤ s'.size ∧ s'.ticks ≤ s.ticks + 8 * Nat.log2 s'.size + 9 := by
  unfold pushDecrease at h
  split at h
  · obtain ⟨a, b, c⟩ := push_cost hq h; exact ⟨a, b, by omega⟩
  · dsimp only at h
    split at h
    · have hq' : (s.tick).QpLt := hq
      obtain ⟨a, b, c⟩ := push_cost hq' h
      simp only [Store.tick_size, Store.tick_ticks] at a b c
      exact ⟨a, b, by omega⟩
    · rw [pure_eq_ok] at h; cases h
      simp only [Store.tick_size, Store.tick_ticks]
      exact ⟨by omega, Nat.le_refl _, by omega⟩


/-! ### construction and bulk operations of `DoublePriorityQueue` -/

theorem heapBuildLoop_cost (k : Nat) : ∀ {s s' : Store P}, heapBuildLoop s k = .ok s' →
    s'.size = s.size ∧
    s'.ticks ≤ s.ticks + 7 * ((List.range (k + 1)).map (fun i => (height s.size i + 1) / 2)).sum := by
  induction k with
  | zero =>
    intro s s' h
    simp only [heapBuildLoop] at h
    obtain ⟨a, b⟩ := heapify_cost h
    refine ⟨a, ?_⟩
    simpa [List.range_succ] using b
  | succ k ih =>
    intro s s' h
    simp only [heapBuildLoop] at h
    rw [bind_eq_ok] at h
    obtain ⟨s1, hh, h⟩ := h
    obtain ⟨a, b⟩ := heapify_cost hh
    obtain ⟨c, d⟩ := ih h
    rw [a] at c d
    refine ⟨c, ?_⟩
    rw [sum_range_succ _ (k + 1)]
    omega

/-- **`heap_build` of the min-max heap is linear**: at most `7 * size` comparisons
(`Σ ⌈height/2⌉ ≤ Σ height ≤ size`) -/
theorem heapBuild_cost {s s' : Store P} (h : heapBuild s = .ok s') :
    s'.size = s.size ∧ s'.ticks ≤ s.ticks + 7 * s.size := by
  unfold heapBuild at h
  split at h
  · rw [pure_eq_ok] at h; subst h; exact ⟨rfl, by omega⟩
  · rename_i hn
    rw [bind_eq_ok] at h
    obtain ⟨top, ht, h⟩ := h
    obtain ⟨_, rfl⟩ := parentC_ok ht
    obtain ⟨a, b⟩ := heapBuildLoop_cost _ h
    refine ⟨a, ?_⟩
    have h1 : parent s.size + 1 ≤ s.size := by have := parent_lt (Nat.pos_of_ne_zero hn); omega
    have h2 := sum_range_mono_len (fun i => (height s.size i + 1) / 2) h1
    have h3 : ((List.range s.size).map (fun i => (height s.size i + 1) / 2)).sum
        ≤ ((List.range s.size).map (height s.size)).sum :=
      sum_range_le_of_le (fun i _ => by omega)
    have h4 := sum_height_le s.size
    omega

theorem retainMut_cost {s s' : Store P} {f : Item → P → Bool × Item × P} (h : retainMut s f = .ok s') :
    s'.ticks ≤ s.ticks + 7 * s'.size := by
  obtain ⟨a, b⟩ := heapBuild_cost h
  rw [Store.retainMut_cost] at b; rw [a]; exact b

theorem fromVec_cost {v : Array (Item × P)} {s' : Store P} (h : fromVec v = .ok s') :
    s'.size ≤ v.size ∧ s'.ticks ≤ 7 * s'.size := by
  obtain ⟨a, b⟩ := heapBuild_cost h
  obtain ⟨c, d⟩ := Store.fromVec_cost v
  rw [c] at b; rw [a]; exact ⟨d, by omega⟩

theorem fromIter_cost {lo : Nat} {v : Array (Item × P)} {s' : Store P} (h : fromIter lo v = .ok s') :
    s'.size ≤ v.size ∧ s'.ticks ≤ 7 * s'.size := by
  obtain ⟨a, b⟩ := heapBuild_cost (fromIter_eq_ok.1 h).2
  obtain ⟨c, d⟩ := Store.fromIter_cost v
  rw [c] at b; rw [a]; exact ⟨d, by omega⟩

theorem deserialize_cost {hint : Option Nat} {v : Array (Item × P)} {s' : Store P}
    (h : deserialize hint v = .ok s') :
    s'.size ≤ v.size ∧ s'.ticks ≤ 7 * s'.size := by
  rw [deserialize_eq] at h
  obtain ⟨a, b⟩ := heapBuild_cost h
  obtain ⟨c, d⟩ := Store.visitSeq_cost v
  rw [c] at b; rw [a]; exact ⟨d, by omega⟩

theorem ofStore_cost {s s' : Store P} (h : ofStore s = .ok s') :
    s'.size = s.size ∧ s'.ticks ≤ s.ticks + 7 * s.size := heapBuild_cost h

theorem append_cost {s o s' o' : Store P} (h : append s o = .ok (s', o')) :
    s'.ticks ≤ max s.ticks o.ticks + 7 * s'.size := by
  unfold append at h
  rw [bind_eq_ok] at h
  obtain ⟨s1, hb, h⟩ := h
  rw [pure_eq_ok] at h
  obtain ⟨a, b⟩ := heapBuild_cost hb
  have := (Store.append_cost s o).2
  cases h
  rw [a]; omega

theorem extend_rebuild_cost {s s' : Store P} {xs : Array (Item × P)} (h : heapBuild (s.extend xs) = .ok s') :
    s'.size ≤ s.size + xs.size ∧ s'.ticks ≤ s.ticks + 7 * s'.size := by
  obtain ⟨a, b⟩ := heapBuild_cost h
  obtain ⟨c, d⟩ := Store.extend_cost s xs
  rw [c] at b; rw [a]; exact ⟨d, b⟩

/-! ### recorded positions stay in range -/

theorem heapifyMinLoop_qpBd (fuel : Nat) : ∀ {s s' : Store P} {N i : Nat}, s.QpBd N →
    heapifyMinLoop fuel s i = .ok s' → s'.QpBd N := by
  induction fuel with
  | zero => intro s s' N i _ h; simp [heapifyMinLoop] at h
  | succ fuel ih =>
    intro s s' N i hq h
    simp only [heapifyMinLoop] at h
    rw [bind_eq_ok] at h
    obtain ⟨last, hlast, h⟩ := h
    rw [bind_eq_ok] at h
    obtain ⟨bound, hbound, h⟩ := h
    split at h
    · rw [bind_eq_ok] at h
      obtain ⟨cs, hcs, h⟩ := h
      rw [bind_eq_ok] at h
      obtain ⟨c, hc, h⟩ := h
      rw [bind_eq_ok] at h
      obtain ⟨pc, _, h⟩ := h
      rw [bind_eq_ok] at h
      obtain ⟨pm, _, h⟩ := h
      split at h
      · rw [bind_eq_ok] at h
        obtain ⟨s1, hsw, h⟩ := h
        have hq1 : s1.QpBd N := Store.swap_qpBd (s := (s.tick (cs.length - 1)).tick) hq hsw
        split at h
        · rw [bind_eq_ok] at h
          obtain ⟨p, _, h⟩ := h
          rw [bind_eq_ok] at h
          obtain ⟨pc', _, h⟩ := h
          rw [bind_eq_ok] at h
          obtain ⟨pp, _, h⟩ := h
          split at h
          · rw [bind_eq_ok] at h
            obtain ⟨s2, hs2, h⟩ := h
            exact ih (Store.swap_qpBd (s := s1.tick) hq1 hs2) h
          · rw [bind_eq_ok] at h
            obtain ⟨s2, hs2, h⟩ := h
            rw [pure_eq_ok] at hs2; subst hs2
            exact ih (s := s1.tick) hq1 h
        · rw [pure_eq_ok] at h; subst h; exact hq1
      · rw [pure_eq_ok] at h; subst h; exact hq
    · rw [pure_eq_ok] at h; subst h; exact hq

theorem heapifyMaxLoop_qpBd (fuel : Nat) : ∀ {s s' : Store P} {N i : Nat}, s.QpBd N →
    heapifyMaxLoop fuel s i = .ok s' → s'.QpBd N := by
  induction fuel with
  | zero => intro s s' N i _ h; simp [heapifyMaxLoop] at h
  | succ fuel ih =>
    intro s s' N i hq h
    simp only [heapifyMaxLoop] at h
    rw [bind_eq_ok] at h
    obtain ⟨last, hlast, h⟩ := h
    rw [bind_eq_ok] at h
    obtain ⟨bound, hbound, h⟩ := h
    split at h
    · rw [bind_eq_ok] at h
      obtain ⟨cs, hcs, h⟩ := h
      rw [bind_eq_ok] at h
      obtain ⟨c, hc, h⟩ := h
      rw [bind_eq_ok] at h
      obtain ⟨pc, _, h⟩ := h
      rw [bind_eq_ok] at h
      obtain ⟨pm, _, h⟩ := h
      split at h
      · rw [bind_eq_ok] at h
        obtain ⟨s1, hsw, h⟩ := h
        have hq1 : s1.QpBd N := Store.swap_qpBd (s := (s.tick (cs.length - 1)).tick) hq hsw
        split at h
        · rw [bind_eq_ok] at h
          obtain ⟨p, _, h⟩ := h
          rw [bind_eq_ok] at h
          obtain ⟨pc', _, h⟩ := h
          rw [bind_eq_ok] at h
          obtain ⟨pp, _, h⟩ := h
          split at h
          · rw [bind_eq_ok] at h
            obtain ⟨s2, hs2, h⟩ := h
            exact ih (Store.swap_qpBd (s := s1.tick) hq1 hs2) h
          · rw [bind_eq_ok] at h
            obtain ⟨s2, hs2, h⟩ := h
            rw [pure_eq_ok] at hs2; subst hs2
            exact ih (s := s1.tick) hq1 h
        · rw [pure_eq_ok] at h; subst h; exact hq1
      · rw [pure_eq_ok] at h; subst h; exact hq
    · rw [pure_eq_ok] at h; subst h; exact hq

theorem heapify_qpBd {s s' : Store P} {N i : Nat} (hq : s.QpBd N) (h : heapify s i = .ok s') : s'.QpBd N := by
  unfold heapify at h
  split at h
  · rw [pure_eq_ok] at h; subst h; exact hq
  · split at h
    · exact heapifyMinLoop_qpBd _ hq h
    · exact heapifyMaxLoop_qpBd _ hq h

theorem bubbleUpMinLoop_qpBd (fuel : Nat) : ∀ {s s' : Store P} {N pos pos' : Nat} {v : P}, s.QpBd N → pos < N →
    bubbleUpMinLoop fuel s pos v = .ok (s', pos') → s'.QpBd N := by
  induction fuel with
  | zero => intro s s' N pos pos' v _ _ h; simp [bubbleUpMinLoop] at h
  | succ fuel ih =>
    intro s s' N pos pos' v hq hpos h
    simp only [bubbleUpMinLoop] at h
    split at h
    · rw [bind_eq_ok] at h
      obtain ⟨pp, _, h⟩ := h
      split at h
      · simp only [bind_eq_ok] at h
        obtain ⟨pi, _, heap, _, qp, hqp, h⟩ := h
        obtain ⟨_, rfl⟩ := setU_eq_ok_iff.1 hqp
        have hq' : (s.tick).QpBd N := hq
        have := parent_le pos
        have := parent_le (parent pos)
        exact ih (QpBd.set (heap := heap) hq' hpos) (by omega) h
      · rw [pure_eq_ok] at h; cases h; exact hq
    · rw [pure_eq_ok] at h; cases h; exact hq

theorem bubbleUpMaxLoop_qpBd (fuel : Nat) : ∀ {s s' : Store P} {N pos pos' : Nat} {v : P}, s.QpBd N → pos < N →
    bubbleUpMaxLoop fuel s pos v = .ok (s', pos') → s'.QpBd N := by
  induction fuel with
  | zero => intro s s' N pos pos' v _ _ h; simp [bubbleUpMaxLoop] at h
  | succ fuel ih =>
    intro s s' N pos pos' v hq hpos h
    simp only [bubbleUpMaxLoop] at h
    split at h
    · rw [bind_eq_ok] at h
      obtain ⟨pp, _, h⟩ := h
      split at h
      · simp only [bind_eq_ok] at h
        obtain ⟨pi, _, heap, _, qp, hqp, h⟩ := h
        obtain ⟨_, rfl⟩ := setU_eq_ok_iff.1 hqp
        have hq' : (s.tick).QpBd N := hq
        have := parent_le pos
        have := parent_le (parent pos)
        exact ih (QpBd.set (heap := heap) hq' hpos) (by omega) h
      · rw [pure_eq_ok] at h; cases h; exact hq
    · rw [pure_eq_ok] at h; cases h; exact hq

theorem bubbleUpMin_qpBd {s s' : Store P} {N pos mp pos' : Nat} (hq : s.QpBd N) (hpos : pos < N)
    (h : bubbleUpMin s pos mp = .ok (s', pos')) : s'.QpBd N := by
  unfold bubbleUpMin at h
  rw [bind_eq_ok] at h
  obtain ⟨e, _, h⟩ := h
  exact bubbleUpMinLoop_qpBd _ hq hpos h

theorem bubbleUpMax_qpBd {s s' : Store P} {N pos mp pos' : Nat} (hq : s.QpBd N) (hpos : pos < N)
    (h : bubbleUpMax s pos mp = .ok (s', pos')) : s'.QpBd N := by
  unfold bubbleUpMax at h
  rw [bind_eq_ok] at h
  obtain ⟨e, _, h⟩ := h
  exact bubbleUpMaxLoop_qpBd _ hq hpos h

theorem bubbleUp_qpBd {s s' : Store P} {N pos mp pos' : Nat} (hq : s.QpBd N) (hposN : pos < N)
    (h : bubbleUp s pos mp = .ok (s', pos')) : s'.QpBd N := by
  unfold bubbleUp at h
  rw [bind_eq_ok] at h
  obtain ⟨e, _, h⟩ := h
  dsimp only at h
  have hq' : (s.tick).QpBd N := hq
  have hpl := parent_le pos
  by_cases hpos : pos > 0
  · rw [if_pos hpos] at h
    rw [bind_eq_ok] at h
    obtain ⟨pp, _, h⟩ := h
    rw [bind_eq_ok] at h
    obtain ⟨pi, _, h⟩ := h
    split at h
    · simp only [bind_eq_ok, pure_eq_ok, Prod.exists] at h
      obtain ⟨heap, _, qp, hqp, s1, p1, hl, heap', _, qp', hqp', h⟩ := h
      cases h
      obtain ⟨_, rfl⟩ := setU_eq_ok_iff.1 hqp
      obtain ⟨_, rfl⟩ := setU_eq_ok_iff.1 hqp'
      have hle := (bubbleUpMax_cost hl).2.1
      exact QpBd.set (heap := heap') (bubbleUpMax_qpBd (QpBd.set (heap := heap) hq' hposN) (by omega) hl) (by omega)
    · simp only [bind_eq_ok, pure_eq_ok, Prod.exists] at h
      obtain ⟨s1, p1, hl, heap', _, qp', hqp', h⟩ := h
      cases h
      obtain ⟨_, rfl⟩ := setU_eq_ok_iff.1 hqp'
      have hle := (bubbleUpMin_cost hl).2.1
      exact QpBd.set (heap := heap') (bubbleUpMin_qpBd hq' hposN hl) (by omega)
    · simp only [bind_eq_ok, pure_eq_ok, Prod.exists] at h
      obtain ⟨s1, p1, hl, heap', _, qp', hqp', h⟩ := h
      cases h
      obtain ⟨_, rfl⟩ := setU_eq_ok_iff.1 hqp'
      have hle := (bubbleUpMax_cost hl).2.1
      exact QpBd.set (heap := heap') (bubbleUpMax_qpBd hq' hposN hl) (by omega)
    · simp only [bind_eq_ok, pure_eq_ok, Prod.exists] at h
      obtain ⟨heap, _, qp, hqp, s1, p1, hl, heap', _, qp', hqp', h⟩ := h
      cases h
      obtain ⟨_, rfl⟩ := setU_eq_ok_iff.1 hqp
      obtain ⟨_, rfl⟩ := setU_eq_ok_iff.1 hqp'
      have hle := (bubbleUpMin_cost hl).2.1
      exact QpBd.set (heap := heap') (bubbleUpMin_qpBd (QpBd.set (heap := heap) hq' hposN) (by omega) hl) (by omega)
  · rw [if_neg hpos] at h
    simp only [bind_eq_ok, pure_eq_ok, Prod.exists] at h
    obtain ⟨s1, p1, hl, heap', _, qp', hqp', h⟩ := h
    cases h; cases hl
    obtain ⟨_, rfl⟩ := setU_eq_ok_iff.1 hqp'
    exact QpBd.set (heap := heap') hq hposN

theorem upHeapify_qpBd {s s' : Store P} {N i : Nat} (hq : s.QpBd N) (hi : i < N) (h : upHeapify s i = .ok s') :
    s'.QpBd N := by
  unfold upHeapify at h
  split at h
  · rw [pure_eq_ok] at h; subst h; exact hq
  · rw [bind_eq_ok] at h
    obtain ⟨⟨s1, p1⟩, hb, h⟩ := h
    have hq1 := bubbleUp_qpBd hq hi hb
    dsimp only at h
    split at h
    · simp only [bind_eq_ok] at h
      obtain ⟨s2, h2, h⟩ := h
      exact heapify_qpBd (heapify_qpBd hq1 h2) h
    · simp only [bind_eq_ok, pure_eq_ok] at h
      obtain ⟨s2, h2, h⟩ := h
      subst h2
      exact heapify_qpBd hq1 h

theorem push_qpLt {s s' : Store P} {it : Item} {p : P} {r : Option P} (hq : s.QpLt) (h : push s it p = .ok (s', r)) :
    s'.QpLt := by
  have hsz := push_cost_gen (B := Nat.log2 s.size) (fun i pos hi => level_le_log2 (hq i pos hi)) h
  unfold push at h
  generalize s.map.insertFull it p = t at h
  obtain ⟨map, idx, old⟩ := t
  dsimp only at h
  cases old with
  | some oldp =>
    dsimp only at h
    rw [bind_eq_ok] at h
    obtain ⟨pos, hpos, h⟩ := h
    rw [bind_eq_ok] at h
    obtain ⟨s1, hu, h⟩ := h
    rw [pure_eq_ok] at h
    cases h
    have hs := (hsz.2 (by simp)).1
    have hp := hq idx pos (getU_eq_ok_iff.1 hpos)
    have : s'.QpBd s.size := upHeapify_qpBd (s := { s with map := map }) hq hp hu
    intro i p hi; rw [hs]; exact this i p hi
  | none =>
    dsimp only at h
    rw [bind_eq_ok] at h
    obtain ⟨⟨s1, p1⟩, hb, h⟩ := h
    rw [pure_eq_ok] at h
    cases h
    have hs := (hsz.1 rfl).1
    have h0 : ({ s with map := map, qp := s.qp.push s.size, heap := s.heap.push s.size } : Store P).QpBd (s.size + 1) := by
      intro i p hi
      simp only [Array.getElem?_push] at hi
      split at hi
      · cases hi; omega
      · have := hq i p hi; omega
    have := bubbleUp_qpBd h0 (Nat.lt_succ_self _) hb
    intro i p hi
    simp only at hs
    exact hs ▸ this i p hi

/-- the per-element strategy of `extend`: `k` pushes cost at most `k * (8 * log2 (final size) + 8)` comparisons -/
theorem pushAll_cost (es : List (Item × P)) : ∀ {s s' : Store P}, s.QpLt → pushAll es s = .ok s' →
    s'.QpLt ∧ s.size ≤ s'.size ∧ s'.size ≤ s.size + es.length ∧
    s'.ticks ≤ s.ticks + es.length * (8 * Nat.log2 s'.size + 8) := by
  induction es with
  | nil =>
    intro s s' hq h
    simp only [pushAll, pure_eq_ok] at h
    subst h; exact ⟨hq, Nat.le_refl _, Nat.le_refl _, by simp⟩
  | cons e es ih =>
    intro s s' hq h
    simp only [pushAll] at h
    rw [bind_eq_ok] at h
    obtain ⟨⟨s1, r1⟩, hp, h⟩ := h
    obtain ⟨a, b, c⟩ := push_cost hq hp
    obtain ⟨q', a', b', c'⟩ := ih (push_qpLt hq hp) h
    refine ⟨q', by omega, by simp only [List.length_cons]; omega, ?_⟩
    have hm := log2_mono a'
    rw [List.length_cons, Nat.succ_mul]
    generalize es.length * (8 * Nat.log2 s'.size + 8) = X at *
    omega

theorem extend_cost {s s' : Store P} {lo : Nat} {xs : Array (Item × P)} (hq : s.QpLt) (h : extend s lo xs = .ok s') :
    s'.size ≤ s.size + xs.size ∧
    s'.ticks ≤ s.ticks + max (7 * s'.size) (xs.size * (8 * Nat.log2 s'.size + 8)) := by
  rw [extend_of_lt xs (extend_ok_lt h)] at h
  generalize (if lo ≠ 0 then betterToRebuild s.size lo else false) = rb at h
  split at h
  · obtain ⟨a, b⟩ := extend_rebuild_cost h
    exact ⟨a, by omega⟩
  · obtain ⟨_, _, a, b⟩ := pushAll_cost _ hq h
    rw [Array.length_toList] at a b
    exact ⟨a, by omega⟩

end DQ
/-! ## Non-vacuity: the hypotheses are satisfiable (concrete runs that return `.ok` and meet the bounds with equality
or near it) -/

namespace CostExamples

/-- max-heap with priorities 9 | 5 3 at positions 0..2 -/
def m3 : Store Nat :=
  { map := #[(⟨1, 0⟩, 5), (⟨2, 0⟩, 3), (⟨3, 0⟩, 9)], heap := #[2, 0, 1], qp := #[1, 2, 0], size := 3 }

/-- the same store with the root lowered to `0`: sift-down from the root costs `2 * height 3 0 = 2` -/
def m3' : Store Nat := { m3 with map := #[(⟨1, 0⟩, 5), (⟨2, 0⟩, 3), (⟨3, 0⟩, 0)] }

/-- min-max heap with priorities 1 | 9 8 | 3 5 4 at positions 0..5 -/
def d6 : Store Nat :=
  { map := #[(⟨1, 0⟩, 1), (⟨2, 0⟩, 9), (⟨3, 0⟩, 8), (⟨4, 0⟩, 3), (⟨5, 0⟩, 5), (⟨6, 0⟩, 4)],
    heap := #[0, 1, 2, 3, 4, 5], qp := #[0, 1, 2, 3, 4, 5], size := 6 }

/-- root raised to `7`: trickle-down from the root runs one full round (5 + 1 + 1 comparisons) -/
def d6' : Store Nat :=
  { d6 with map := #[(⟨1, 0⟩, 7), (⟨2, 0⟩, 9), (⟨3, 0⟩, 8), (⟨4, 0⟩, 3), (⟨5, 0⟩, 5), (⟨6, 0⟩, 4)] }

example : (MaxQ.pickLargest m3' 0).toOption.map (fun r => (r.1.ticks, r.2)) = some (2, 1) := by decide +kernel
example : (MaxQ.heapifyLoop 3 m3' 0).toOption.map (·.ticks) = some 2 := by decide +kernel
example : (MaxQ.heapify m3' 0).toOption.map (·.ticks) = some 2 := by decide +kernel
example : (MaxQ.bubbleUpLoop 3 m3 2 10).toOption.map (fun r => (r.1.ticks, r.2)) = some (1, 0) := by decide +kernel
example : (MaxQ.bubbleUpLoop 3 m3 2 4).toOption.map (fun r => (r.1.ticks, r.2)) = some (1, 2) := by decide +kernel
example : (MaxQ.upHeapify { m3 with map := #[(⟨1, 0⟩, 5), (⟨2, 0⟩, 10), (⟨3, 0⟩, 9)] } 2).toOption.map (·.ticks)
    = some 3 := by decide +kernel
example : (MaxQ.heapBuildLoop { m3 with heap := #[1, 0, 2], qp := #[1, 0, 2] } 1).toOption.map (·.ticks) = some 2 := by
  decide +kernel
example : (MaxQ.pushAll [(⟨4, 0⟩, 7), (⟨5, 0⟩, 1)] m3).toOption.map (·.ticks) = some 3 := by decide +kernel
example : (DQ.candidates d6 0).toOption.map (·.length) = some 5 := by decide +kernel
example : (DQ.heapifyMinLoop 6 d6' 0).toOption.map (·.ticks) = some 6 := by decide +kernel
example : (DQ.heapifyMaxLoop 6 { d6 with map := #[(⟨1, 0⟩, 1), (⟨2, 0⟩, 2), (⟨3, 0⟩, 8), (⟨4, 0⟩, 3), (⟨5, 0⟩, 5), (⟨6, 0⟩, 4)] } 1
    ).toOption.map (·.ticks) = some 2 := by decide +kernel
example : (DQ.heapify d6' 0).toOption.map (·.ticks) = some 6 := by decide +kernel
example : (DQ.bubbleUpMinLoop 6 d6 5 0).toOption.map (fun r => (r.1.ticks, r.2)) = some (1, 0) := by decide +kernel
example : (DQ.bubbleUpMaxLoop 6 d6 5 0).toOption.map (fun r => (r.1.ticks, r.2)) = some (1, 5) := by decide +kernel
example : (DQ.bubbleUp d6 5 5).toOption.map (fun r => (r.1.ticks, r.2)) = some (2, 5) := by decide +kernel
example : (DQ.upHeapify d6' 0).toOption.map (·.ticks) = some 6 := by decide +kernel
example : (DQ.findMax d6).toOption.map (fun r => (r.1.ticks, r.2)) = some (1, some 1) := by decide +kernel
example : (DQ.heapBuildLoop { d6 with heap := #[5, 4, 3, 2, 1, 0], qp := #[5, 4, 3, 2, 1, 0] } 3).toOption.map (·.ticks)
    = some 9 := by decide +kernel
example : (DQ.pushAll [(⟨7, 0⟩, 7), (⟨8, 0⟩, 0)] d6).toOption.map (·.ticks) = some 4 := by decide +kernel
example : m3.QpLt ∧ d6.QpLt := ⟨Store.qpLt_of_all (by decide +kernel), Store.qpLt_of_all (by decide +kernel)⟩

end CostExamples
end PQ
