import PQ.Lemmas.SrcEquivBulk
/-!
# Source-translated tie, phase 5.3b: bulk operations of the queues

`retain_mut`, `retain`, `append`, `From<Vec>`, `FromIterator`, `From<the other queue kind>`, `Deserialize` of both queues:
the store-level function, then `heap_build`.  The fuel bounds are stated with the size of the store that is rebuilt.
-/
set_option linter.unusedSimpArgs false
set_option linter.unusedSectionVars false
namespace PQ.SrcEquiv
open PQ PQ.Src PQ.SrcGen
variable {P : Type} [LT P] [DecidableLT P]

/-! ## queue level: `retain_mut`, `retain`, `append`, `From<Vec>`, `FromIterator`, `From<other queue>`, `Deserialize` -/

theorem call_pqHeapBuild (s : Store P) (n : Nat) (h : n ≥ s.size + 3) :
    callWith (exec prog n) prog .pqHeapBuild s [] [] [] = (fun s' => (s', Val.unit)) <$> MaxQ.heapBuild s :=
  pqHeapBuild s n h

theorem call_dqHeapBuild (s : Store P) (n : Nat) (h : n ≥ s.size + 4) :
    callWith (exec prog n) prog .dqHeapBuild s [] [] [] = (fun s' => (s', Val.unit)) <$> DQ.heapBuild s :=
  dqHeapBuild s n h

theorem call_storeRetainMut (s : Store P) (f : Item → P → Bool × Item × P) (n : Nat) :
    callWith (exec prog (n + 1)) prog .storeRetainMut s [] [] [Val.pred f] = pure (s.retainMut f, Val.unit) :=
  storeRetainMut s f (n + 1) (by omega)

theorem call_storeRetain (s : Store P) (g : Item → P → Bool) (n : Nat) :
    callWith (exec prog (n + 2)) prog .storeRetain s [] [] [Val.predRO g]
      = pure (s.retainMut (fun i p => (g i p, i, p)), Val.unit) :=
  storeRetain s g (n + 2) (by omega)

theorem call_storeAppend (s o : Store P) (n : Nat) :
    callWith (exec prog (n + 2)) prog .storeAppend s [] [] [Val.store o]
      = pure ((s.append o).1, Val.store (s.append o).2) :=
  storeAppend s o (n + 2) (by omega)

theorem call_storeFromVec (s : Store P) (v : Array (Item × P)) (hv : v.size < capLimit) (n : Nat) :
    callWith (exec prog (n + 1)) prog .storeFromVec s [] [] [Val.entries v] = pure (Store.fromVec v, Val.unit) :=
  storeFromVec s v hv (n + 1) (by omega)

theorem call_storeFromIter (s : Store P) (lo : Nat) (xs : Array (Item × P)) (n : Nat) :
    callWith (exec prog (n + 1)) prog .storeFromIter s [] [] [Val.iter lo xs]
      = (do reserveC lo; pure (Store.fromIter xs, Val.unit)) :=
  storeFromIter s lo xs (n + 1) (by omega)

theorem call_storeVisitSeq (s : Store P) (hint : Option Nat) (xs : Array (Item × P)) (n : Nat) :
    callWith (exec prog (n + 1)) prog .storeVisitSeq s [] [] [Val.seq hint xs]
      = (do (match hint with
              | some h => reserveC (Arith.deserPrealloc h)
              | none => pure ())
            pure (Store.visitSeq xs, Val.unit)) :=
  storeVisitSeq s hint xs (n + 1) (by omega)

/-- `PriorityQueue::retain_mut` = `MaxQ.retainMut` -/
theorem pqRetainMut (s : Store P) (f : Item → P → Bool × Item × P) (fuel : Nat) (h : fuel ≥ (s.retainMut f).size + 5) :
    Src.run SrcGen.prog fuel .pqRetainMut s [] [] [Val.pred f] = (fun s' => (s', Val.unit)) <$> MaxQ.retainMut s f := by
  obtain ⟨n, rfl⟩ : ∃ n, fuel = n + 3 := ⟨fuel - 3, by omega⟩
  src_enter [prog, SrcGen.pqRetainMut]
  unfold MaxQ.retainMut
  src_eval [pqRetainMut_body, call_storeRetainMut]
  rw [call_pqHeapBuild _ _ (by omega)]
  src_eval

/-- `PriorityQueue::retain(g)` = `MaxQ.retainMut` with the predicate that leaves item and priority alone -/
theorem pqRetain (s : Store P) (g : Item → P → Bool) (fuel : Nat)
    (h : fuel ≥ (s.retainMut (fun i p => (g i p, i, p))).size + 5) :
    Src.run SrcGen.prog fuel .pqRetain s [] [] [Val.predRO g]
      = (fun s' => (s', Val.unit)) <$> MaxQ.retainMut s (fun i p => (g i p, i, p)) := by
  obtain ⟨n, rfl⟩ : ∃ n, fuel = n + 3 := ⟨fuel - 3, by omega⟩
  src_enter [prog, SrcGen.pqRetain]
  unfold MaxQ.retainMut
  src_eval [pqRetain_body, call_storeRetain]
  rw [call_pqHeapBuild _ _ (by omega)]
  src_eval

/-- `PriorityQueue::append` = `MaxQ.append`; the IR function hands back `other`'s store -/
theorem pqAppend (s o : Store P) (fuel : Nat) (h : fuel ≥ (s.append o).1.size + 5) :
    Src.run SrcGen.prog fuel .pqAppend s [] [] [Val.store o]
      = (fun r => (r.1, Val.store r.2)) <$> MaxQ.append s o := by
  obtain ⟨n, rfl⟩ : ∃ n, fuel = n + 3 := ⟨fuel - 3, by omega⟩
  src_enter [prog, SrcGen.pqAppend]
  unfold MaxQ.append
  src_eval [pqAppend_body, call_storeAppend]
  rw [call_pqHeapBuild _ _ (by omega)]
  src_eval

/-- `From<Vec<(I, P)>> for PriorityQueue` = `MaxQ.fromVec` -/
theorem pqFromVec (s : Store P) (v : Array (Item × P)) (hv : v.size < capLimit) (fuel : Nat)
    (h : fuel ≥ (Store.fromVec v : Store P).size + 5) :
    Src.run SrcGen.prog fuel .pqFromVec s [] [] [Val.entries v] = (fun s' => (s', Val.unit)) <$> MaxQ.fromVec v := by
  obtain ⟨n, rfl⟩ : ∃ n, fuel = n + 3 := ⟨fuel - 3, by omega⟩
  src_enter [prog, SrcGen.pqFromVec]
  unfold MaxQ.fromVec
  src_eval [pqFromVec_body, call_storeFromVec _ _ hv]
  rw [call_pqHeapBuild _ _ (by omega)]
  src_eval

/-- `FromIterator for PriorityQueue` = `MaxQ.fromIter` -/
theorem pqFromIter (s : Store P) (lo : Nat) (xs : Array (Item × P)) (fuel : Nat)
    (h : fuel ≥ (Store.fromIter xs : Store P).size + 5) :
    Src.run SrcGen.prog fuel .pqFromIter s [] [] [Val.iter lo xs] = (fun s' => (s', Val.unit)) <$> MaxQ.fromIter lo xs := by
  obtain ⟨n, rfl⟩ : ∃ n, fuel = n + 3 := ⟨fuel - 3, by omega⟩
  src_enter [prog, SrcGen.pqFromIter]
  unfold MaxQ.fromIter
  src_eval [pqFromIter_body, call_storeFromIter]
  refine bind_congr_ok fun _ _ => ?_
  rw [call_pqHeapBuild _ _ (by omega)]
  src_eval

/-- `From<DoublePriorityQueue> for PriorityQueue` = `MaxQ.ofStore` -/
theorem pqFromQueue (s : Store P) (fuel : Nat) (h : fuel ≥ s.size + 4) :
    Src.run SrcGen.prog fuel .pqFromQueue s [] = (fun s' => (s', Val.unit)) <$> MaxQ.ofStore s := by
  obtain ⟨n, rfl⟩ : ∃ n, fuel = n + 1 := ⟨fuel - 1, by omega⟩
  src_enter [prog, SrcGen.pqFromQueue]
  unfold MaxQ.ofStore
  src_eval [pqFromQueue_body]
  rw [call_pqHeapBuild _ _ (by omega)]
  src_eval

/-- `Deserialize for PriorityQueue` = `MaxQ.deserialize` (the dispatch of serde to `visit_seq` is trusted) -/
theorem pqDeserialize (s : Store P) (hint : Option Nat) (xs : Array (Item × P)) (fuel : Nat)
    (h : fuel ≥ (Store.visitSeq xs : Store P).size + 5) :
    Src.run SrcGen.prog fuel .pqDeserialize s [] [] [Val.seq hint xs]
      = (fun s' => (s', Val.unit)) <$> MaxQ.deserialize hint xs := by
  obtain ⟨n, rfl⟩ : ∃ n, fuel = n + 3 := ⟨fuel - 3, by omega⟩
  src_enter [prog, SrcGen.pqDeserialize]
  unfold MaxQ.deserialize
  src_eval [pqDeserialize_body, call_storeVisitSeq]
  cases hint with
  | none =>
    src_eval
    rw [call_pqHeapBuild _ _ (by omega)]
    src_eval
  | some hh =>
    simp only [Arith.deserPrealloc, bind_assoc]
    refine bind_congr_ok fun _ _ => ?_
    rw [call_pqHeapBuild _ _ (by omega)]
    src_eval
/-- `DoublePriorityQueue::retain_mut` = `DQ.retainMut` -/
theorem dqRetainMut (s : Store P) (f : Item → P → Bool × Item × P) (fuel : Nat) (h : fuel ≥ (s.retainMut f).size + 6) :
    Src.run SrcGen.prog fuel .dqRetainMut s [] [] [Val.pred f] = (fun s' => (s', Val.unit)) <$> DQ.retainMut s f := by
  obtain ⟨n, rfl⟩ : ∃ n, fuel = n + 3 := ⟨fuel - 3, by omega⟩
  src_enter [prog, SrcGen.dqRetainMut]
  unfold DQ.retainMut
  src_eval [dqRetainMut_body, call_storeRetainMut]
  rw [call_dqHeapBuild _ _ (by omega)]
  src_eval

/-- `DoublePriorityQueue::retain(g)` = `DQ.retainMut` with the predicate that leaves item and priority alone -/
theorem dqRetain (s : Store P) (g : Item → P → Bool) (fuel : Nat)
    (h : fuel ≥ (s.retainMut (fun i p => (g i p, i, p))).size + 6) :
    Src.run SrcGen.prog fuel .dqRetain s [] [] [Val.predRO g]
      = (fun s' => (s', Val.unit)) <$> DQ.retainMut s (fun i p => (g i p, i, p)) := by
  obtain ⟨n, rfl⟩ : ∃ n, fuel = n + 3 := ⟨fuel - 3, by omega⟩
  src_enter [prog, SrcGen.dqRetain]
  unfold DQ.retainMut
  src_eval [dqRetain_body, call_storeRetain]
  rw [call_dqHeapBuild _ _ (by omega)]
  src_eval

/-- `DoublePriorityQueue::append` = `DQ.append`; the IR function hands back `other`'s store -/
theorem dqAppend (s o : Store P) (fuel : Nat) (h : fuel ≥ (s.append o).1.size + 6) :
    Src.run SrcGen.prog fuel .dqAppend s [] [] [Val.store o]
      = (fun r => (r.1, Val.store r.2)) <$> DQ.append s o := by
  obtain ⟨n, rfl⟩ : ∃ n, fuel = n + 3 := ⟨fuel - 3, by omega⟩
  src_enter [prog, SrcGen.dqAppend]
  unfold DQ.append
  src_eval [dqAppend_body, call_storeAppend]
  rw [call_dqHeapBuild _ _ (by omega)]
  src_eval

/-- `From<Vec<(I, P)>> for DoublePriorityQueue` = `DQ.fromVec` -/
theorem dqFromVec (s : Store P) (v : Array (Item × P)) (hv : v.size < capLimit) (fuel : Nat)
    (h : fuel ≥ (Store.fromVec v : Store P).size + 6) :
    Src.run SrcGen.prog fuel .dqFromVec s [] [] [Val.entries v] = (fun s' => (s', Val.unit)) <$> DQ.fromVec v := by
  obtain ⟨n, rfl⟩ : ∃ n, fuel = n + 3 := ⟨fuel - 3, by omega⟩
  src_enter [prog, SrcGen.dqFromVec]
  unfold DQ.fromVec
  src_eval [dqFromVec_body, call_storeFromVec _ _ hv]
  rw [call_dqHeapBuild _ _ (by omega)]
  src_eval

/-- `FromIterator for DoublePriorityQueue` = `DQ.fromIter` -/
theorem dqFromIter (s : Store P) (lo : Nat) (xs : Array (Item × P)) (fuel : Nat)
    (h : fuel ≥ (Store.fromIter xs : Store P).size + 6) :
    Src.run SrcGen.prog fuel .dqFromIter s [] [] [Val.iter lo xs] = (fun s' => (s', Val.unit)) <$> DQ.fromIter lo xs := by
  obtain ⟨n, rfl⟩ : ∃ n, fuel = n + 3 := ⟨fuel - 3, by omega⟩
  src_enter [prog, SrcGen.dqFromIter]
  unfold DQ.fromIter
  src_eval [dqFromIter_body, call_storeFromIter]
  refine bind_congr_ok fun _ _ => ?_
  rw [call_dqHeapBuild _ _ (by omega)]
  src_eval

/-- `From<PriorityQueue> for DoublePriorityQueue` = `DQ.ofStore` -/
theorem dqFromQueue (s : Store P) (fuel : Nat) (h : fuel ≥ s.size + 5) :
    Src.run SrcGen.prog fuel .dqFromQueue s [] = (fun s' => (s', Val.unit)) <$> DQ.ofStore s := by
  obtain ⟨n, rfl⟩ : ∃ n, fuel = n + 1 := ⟨fuel - 1, by omega⟩
  src_enter [prog, SrcGen.dqFromQueue]
  unfold DQ.ofStore
  src_eval [dqFromQueue_body]
  rw [call_dqHeapBuild _ _ (by omega)]
  src_eval

/-- `Deserialize for DoublePriorityQueue` = `DQ.deserialize` (the dispatch of serde to `visit_seq` is trusted) -/
theorem dqDeserialize (s : Store P) (hint : Option Nat) (xs : Array (Item × P)) (fuel : Nat)
    (h : fuel ≥ (Store.visitSeq xs : Store P).size + 6) :
    Src.run SrcGen.prog fuel .dqDeserialize s [] [] [Val.seq hint xs]
      = (fun s' => (s', Val.unit)) <$> DQ.deserialize hint xs := by
  obtain ⟨n, rfl⟩ : ∃ n, fuel = n + 3 := ⟨fuel - 3, by omega⟩
  src_enter [prog, SrcGen.dqDeserialize]
  unfold DQ.deserialize
  src_eval [dqDeserialize_body, call_storeVisitSeq]
  cases hint with
  | none =>
    src_eval
    rw [call_dqHeapBuild _ _ (by omega)]
    src_eval
  | some hh =>
    simp only [Arith.deserPrealloc, bind_assoc]
    refine bind_congr_ok fun _ _ => ?_
    rw [call_dqHeapBuild _ _ (by omega)]
    src_eval
end PQ.SrcEquiv
