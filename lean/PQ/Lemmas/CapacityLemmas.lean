import PQ.Model.Capacity
/-!
# Capacity management is invisible and fails cleanly — for every allocator (helper lemmas for C17)
-/
namespace PQ.Cap
open PQ
variable {P : Type} [LT P] [DecidableLT P]

/-! ## `try_reserve` on the three capacities -/

/-- whatever the allocator answers: no capacity shrinks; on success all three fit `len + n`; on failure the capacities that
were grown before the refusal stay grown (and still fit what they fitted before) -/
theorem tryReserve_spec (a : Alloc) (c : Caps) (len n : Nat) :
    c.map ≤ (tryReserve a c len n).1.map ∧ c.heap ≤ (tryReserve a c len n).1.heap ∧ c.qp ≤ (tryReserve a c len n).1.qp ∧
      ((tryReserve a c len n).2 = true →
        len + n ≤ (tryReserve a c len n).1.map ∧ len + n ≤ (tryReserve a c len n).1.heap ∧
          len + n ≤ (tryReserve a c len n).1.qp) := by
  cases h1 : a.grant .map c.map len n with
  | none => simp [tryReserve, h1]
  | some m =>
    have g1 := a.grant_fits _ _ _ _ _ h1
    cases h2 : a.grant .heap c.heap len n with
    | none => simp [tryReserve, h1, h2]; omega
    | some h =>
      have g2 := a.grant_fits _ _ _ _ _ h2
      cases h3 : a.grant .qp c.qp len n with
      | none => simp [tryReserve, h1, h2, h3]; omega
      | some q =>
        have g3 := a.grant_fits _ _ _ _ _ h3
        simp [tryReserve, h1, h2, h3]; omega

/-- the three outcomes of a refusal are all reachable: the map's reservation can succeed and a later one fail (the
collections have different element sizes and are allocated one after the other) -/
theorem tryReserve_partial (a : Alloc) (c : Caps) (len n m : Nat)
    (h1 : a.grant .map c.map len n = some m) (h2 : a.grant .heap c.heap len n = none) :
    tryReserve a c len n = ({ c with map := m }, false) := by
  simp [tryReserve, h1, h2]

/-! ## one step -/

/-- the queue a capacity-aware step leaves is the queue the plain step leaves; capacity operations leave it untouched —
whatever the allocator does, success or failure -/
theorem stepC_queue (a : Alloc) (x : QC P) (cop : COp P) :
    (stepC a x cop).map (fun r => r.1.q) =
      match cop with
      | .plain op => (step x.q op).map (·.1)
      | .reserve n | .reserveExact n => if (tryReserve a x.caps x.q.s.size n).2 then .ok x.q else .error .capacity
      | _ => .ok x.q := by
  cases cop with
  | plain op =>
    simp only [stepC]
    cases step x.q op <;> simp [bind, Except.bind, pure, Except.pure, Except.map]
  | reserve n =>
    simp only [stepC]
    rcases h : tryReserve a x.caps x.q.s.size n with ⟨c, b⟩
    cases b <;> simp [pure, Except.pure, Except.map]
  | reserveExact n =>
    simp only [stepC]
    rcases h : tryReserve a x.caps x.q.s.size n with ⟨c, b⟩
    cases b <;> simp [pure, Except.pure, Except.map]
  | tryReserve n =>
    simp only [stepC]
    rcases h : tryReserve a x.caps x.q.s.size n with ⟨c, b⟩
    cases b <;> simp [pure, Except.pure, Except.map]
  | tryReserveExact n =>
    simp only [stepC]
    rcases h : tryReserve a x.caps x.q.s.size n with ⟨c, b⟩
    cases b <;> simp [pure, Except.pure, Except.map]
  | shrinkToFit => simp [stepC, pure, Except.pure, Except.map]
  | capacity => simp [stepC, pure, Except.pure, Except.map]

/-- `try_reserve` / `try_reserve_exact` never panic: they always return, with `Ok` or `Err` -/
theorem stepC_try_total (a : Alloc) (x : QC P) (n : Nat) :
    (∃ x', stepC a x (.tryReserve n) = .ok (x', .tryOk) ∨ stepC a x (.tryReserve n) = .ok (x', .tryErr)) ∧
    (∃ x', stepC a x (.tryReserveExact n) = .ok (x', .tryOk) ∨ stepC a x (.tryReserveExact n) = .ok (x', .tryErr)) := by
  simp only [stepC]
  rcases h : tryReserve a x.caps x.q.s.size n with ⟨c, b⟩
  cases b <;> simp [pure, Except.pure]

/-- the contract of one capacity-aware step, for every allocator:
* the queue is untouched by every capacity operation (also by a failing one);
* `len ≤ capacity` is preserved for all three collections;
* after `Ok` from `reserve` / `reserve_exact` / `try_reserve` / `try_reserve_exact` every collection — in particular the map,
  which is what `capacity()` reports — has room for `len + n`;
* after `Err` nothing shrank;
* after `shrink_to_fit` every capacity is between the length and its old value. -/
theorem stepC_spec (a : Alloc) {x x' : QC P} {cop : COp P} {o : COut P} (hok : x.CapsOk) (h : stepC a x cop = .ok (x', o)) :
    x'.CapsOk ∧
    (match cop with
     | .plain op => ∃ o', step x.q op = .ok (x'.q, o') ∧ o = .plain o'
     | .reserve n | .reserveExact n =>
        x'.q = x.q ∧ o = .unit ∧ x.q.s.size + n ≤ x'.caps.map ∧ x.q.s.size + n ≤ x'.caps.heap ∧ x.q.s.size + n ≤ x'.caps.qp
     | .tryReserve n | .tryReserveExact n =>
        x'.q = x.q ∧ x.caps.map ≤ x'.caps.map ∧ x.caps.heap ≤ x'.caps.heap ∧ x.caps.qp ≤ x'.caps.qp ∧
          ((o = .tryOk ∧ x.q.s.size + n ≤ x'.caps.map ∧ x.q.s.size + n ≤ x'.caps.heap ∧ x.q.s.size + n ≤ x'.caps.qp) ∨
            o = .tryErr)
     | .shrinkToFit =>
        x'.q = x.q ∧ o = .unit ∧ x'.caps.map ≤ x.caps.map ∧ x'.caps.heap ≤ x.caps.heap ∧ x'.caps.qp ≤ x.caps.qp
     | .capacity => x' = x ∧ o = .cap x.caps.map) := by
  obtain ⟨hm, hh, hq⟩ := hok
  -- the two reserving families share one argument
  have res : ∀ n (x' : QC P), x' = { x with caps := (tryReserve a x.caps x.q.s.size n).1 } →
      x'.q = x.q ∧ x.caps.map ≤ x'.caps.map ∧ x.caps.heap ≤ x'.caps.heap ∧ x.caps.qp ≤ x'.caps.qp ∧ x'.CapsOk ∧
      ((tryReserve a x.caps x.q.s.size n).2 = true →
        x.q.s.size + n ≤ x'.caps.map ∧ x.q.s.size + n ≤ x'.caps.heap ∧ x.q.s.size + n ≤ x'.caps.qp) := by
    intro n x' hx
    obtain ⟨s1, s2, s3, s4⟩ := tryReserve_spec a x.caps x.q.s.size n
    subst hx
    refine ⟨rfl, s1, s2, s3, ⟨?_, ?_, ?_⟩, s4⟩
    · show x.q.s.size ≤ (tryReserve a x.caps x.q.s.size n).1.map; omega
    · show x.q.s.size ≤ (tryReserve a x.caps x.q.s.size n).1.heap; omega
    · show x.q.s.size ≤ (tryReserve a x.caps x.q.s.size n).1.qp; omega
  cases cop with
  | plain op =>
    simp only [stepC] at h
    cases hs : step x.q op with
    | error e => simp [hs, bind, Except.bind] at h
    | ok r =>
      obtain ⟨q', o'⟩ := r
      simp only [hs, bind, Except.bind, pure, Except.pure, Except.ok.injEq, Prod.mk.injEq] at h
      obtain ⟨hx, ho⟩ := h
      subst hx ho
      exact ⟨⟨a.regrow_fits _ _ _, a.regrow_fits _ _ _, a.regrow_fits _ _ _⟩, o', hs, rfl⟩
  | reserve n =>
    simp only [stepC] at h
    rcases ht : tryReserve a x.caps x.q.s.size n with ⟨c, b⟩
    rw [ht] at h
    cases b with
    | false => simp at h
    | true =>
      simp only [pure, Except.pure, Except.ok.injEq, Prod.mk.injEq] at h
      obtain ⟨hx, ho⟩ := h
      obtain ⟨r1, _, _, _, r5, r6⟩ := res n x' (by rw [← hx, ht])
      have := r6 (by rw [ht])
      exact ⟨r5, r1, ho.symm, this⟩
  | reserveExact n =>
    simp only [stepC] at h
    rcases ht : tryReserve a x.caps x.q.s.size n with ⟨c, b⟩
    rw [ht] at h
    cases b with
    | false => simp at h
    | true =>
      simp only [pure, Except.pure, Except.ok.injEq, Prod.mk.injEq] at h
      obtain ⟨hx, ho⟩ := h
      obtain ⟨r1, _, _, _, r5, r6⟩ := res n x' (by rw [← hx, ht])
      have := r6 (by rw [ht])
      exact ⟨r5, r1, ho.symm, this⟩
  | tryReserve n =>
    simp only [stepC] at h
    rcases ht : tryReserve a x.caps x.q.s.size n with ⟨c, b⟩
    rw [ht] at h
    cases b with
    | false =>
      simp only [pure, Except.pure, Except.ok.injEq, Prod.mk.injEq] at h
      obtain ⟨hx, ho⟩ := h
      obtain ⟨r1, r2, r3, r4, r5, _⟩ := res n x' (by rw [← hx, ht])
      exact ⟨r5, r1, r2, r3, r4, Or.inr ho.symm⟩
    | true =>
      simp only [pure, Except.pure, Except.ok.injEq, Prod.mk.injEq] at h
      obtain ⟨hx, ho⟩ := h
      obtain ⟨r1, r2, r3, r4, r5, r6⟩ := res n x' (by rw [← hx, ht])
      exact ⟨r5, r1, r2, r3, r4, Or.inl ⟨ho.symm, r6 (by rw [ht])⟩⟩
  | tryReserveExact n =>
    simp only [stepC] at h
    rcases ht : tryReserve a x.caps x.q.s.size n with ⟨c, b⟩
    rw [ht] at h
    cases b with
    | false =>
      simp only [pure, Except.pure, Except.ok.injEq, Prod.mk.injEq] at h
      obtain ⟨hx, ho⟩ := h
      obtain ⟨r1, r2, r3, r4, r5, _⟩ := res n x' (by rw [← hx, ht])
      exact ⟨r5, r1, r2, r3, r4, Or.inr ho.symm⟩
    | true =>
      simp only [pure, Except.pure, Except.ok.injEq, Prod.mk.injEq] at h
      obtain ⟨hx, ho⟩ := h
      obtain ⟨r1, r2, r3, r4, r5, r6⟩ := res n x' (by rw [← hx, ht])
      exact ⟨r5, r1, r2, r3, r4, Or.inl ⟨ho.symm, r6 (by rw [ht])⟩⟩
  | shrinkToFit =>
    simp only [stepC, pure, Except.pure, Except.ok.injEq, Prod.mk.injEq] at h
    obtain ⟨hx, ho⟩ := h
    subst hx ho
    have k1 := a.shrink_fits .map _ _ hm
    have k2 := a.shrink_fits .heap _ _ hh
    have k3 := a.shrink_fits .qp _ _ hq
    exact ⟨⟨k1.1, k2.1, k3.1⟩, rfl, rfl, k1.2, k2.2, k3.2⟩
  | capacity =>
    simp only [stepC, pure, Except.pure, Except.ok.injEq, Prod.mk.injEq] at h
    obtain ⟨hx, ho⟩ := h
    subst hx ho
    exact ⟨⟨hm, hh, hq⟩, rfl, rfl⟩

/-! ## histories -/

/-- **Capacity is invisible, for every allocator and every failure pattern.**  If a capacity-aware history runs to completion
under allocator `a`, then the plain history obtained by deleting every capacity operation runs to completion on the bare
queue, ends in the same queue and returns the same results for the plain operations.  (A capacity-aware history can only
stop early where `reserve` panics or where the plain history itself would stop.) -/
theorem runC_erase (a : Alloc) (cops : List (COp P)) : ∀ (x x' : QC P) (outs : List (COut P)),
    runC a x cops = .ok (x', outs) → run x.q (plainOps cops) = .ok (x'.q, plainOuts outs) := by
  induction cops with
  | nil =>
    intro x x' outs h
    simp only [runC, pure, Except.pure, Except.ok.injEq, Prod.mk.injEq] at h
    obtain ⟨hx, ho⟩ := h
    subst hx ho
    rfl
  | cons cop cops ih =>
    intro x x' outs h
    simp only [runC, bind, Except.bind] at h
    cases hs : stepC a x cop with
    | error e => simp [hs] at h
    | ok r =>
      obtain ⟨x1, o⟩ := r
      simp only [hs] at h
      cases hr : runC a x1 cops with
      | error e => simp [hr] at h
      | ok r2 =>
        obtain ⟨x2, os⟩ := r2
        simp only [hr, pure, Except.pure, Except.ok.injEq, Prod.mk.injEq] at h
        obtain ⟨hx, ho⟩ := h
        subst hx ho
        have ih' := ih x1 x2 os hr
        -- a capacity operation: the queue is untouched and the output is not a plain one
        have capcase : x1.q = x.q → (∀ o', o ≠ .plain o') → (∀ op, cop ≠ .plain op) →
            run x.q (plainOps (cop :: cops)) = .ok (x2.q, plainOuts (o :: os)) := by
          intro hq ho hc
          rw [hq] at ih'
          cases cop with
          | plain op => exact absurd rfl (hc op)
          | _ => cases o with
            | plain o' => exact absurd rfl (ho o')
            | _ => simpa [plainOps, plainOuts] using ih'
        cases cop with
        | plain op =>
          simp only [stepC] at hs
          cases hst : step x.q op with
          | error e => simp [hst, bind, Except.bind] at hs
          | ok r3 =>
            obtain ⟨q1, o1⟩ := r3
            simp only [hst, bind, Except.bind, pure, Except.pure, Except.ok.injEq, Prod.mk.injEq] at hs
            obtain ⟨hx1, ho1⟩ := hs
            subst hx1 ho1
            simp only [plainOps, plainOuts, run, hst, bind, Except.bind]
            rw [ih']
            rfl
        | reserve n =>
          simp only [stepC] at hs
          rcases ht : tryReserve a x.caps x.q.s.size n with ⟨c, b⟩
          rw [ht] at hs
          cases b with
          | false => simp at hs
          | true =>
            simp only [pure, Except.pure, Except.ok.injEq, Prod.mk.injEq] at hs
            obtain ⟨hx1, ho1⟩ := hs
            exact capcase (by rw [← hx1]) (by intro o' h; rw [← ho1] at h; cases h) (by intro op h; cases h)
        | reserveExact n =>
          simp only [stepC] at hs
          rcases ht : tryReserve a x.caps x.q.s.size n with ⟨c, b⟩
          rw [ht] at hs
          cases b with
          | false => simp at hs
          | true =>
            simp only [pure, Except.pure, Except.ok.injEq, Prod.mk.injEq] at hs
            obtain ⟨hx1, ho1⟩ := hs
            exact capcase (by rw [← hx1]) (by intro o' h; rw [← ho1] at h; cases h) (by intro op h; cases h)
        | tryReserve n =>
          simp only [stepC] at hs
          rcases ht : tryReserve a x.caps x.q.s.size n with ⟨c, b⟩
          rw [ht] at hs
          cases b <;> simp only [pure, Except.pure, Except.ok.injEq, Prod.mk.injEq] at hs <;> obtain ⟨hx1, ho1⟩ := hs <;>
            exact capcase (by rw [← hx1]) (by intro o' h; rw [← ho1] at h; cases h) (by intro op h; cases h)
        | tryReserveExact n =>
          simp only [stepC] at hs
          rcases ht : tryReserve a x.caps x.q.s.size n with ⟨c, b⟩
          rw [ht] at hs
          cases b <;> simp only [pure, Except.pure, Except.ok.injEq, Prod.mk.injEq] at hs <;> obtain ⟨hx1, ho1⟩ := hs <;>
            exact capcase (by rw [← hx1]) (by intro o' h; rw [← ho1] at h; cases h) (by intro op h; cases h)
        | shrinkToFit =>
          simp only [stepC, pure, Except.pure, Except.ok.injEq, Prod.mk.injEq] at hs
          obtain ⟨hx1, ho1⟩ := hs
          exact capcase (by rw [← hx1]) (by intro o' h; rw [← ho1] at h; cases h) (by intro op h; cases h)
        | capacity =>
          simp only [stepC, pure, Except.pure, Except.ok.injEq, Prod.mk.injEq] at hs
          obtain ⟨hx1, ho1⟩ := hs
          exact capcase (by rw [← hx1]) (by intro o' h; rw [← ho1] at h; cases h) (by intro op h; cases h)

/-- two allocators (two machines, two growth policies, one of them running out of memory on every `try_reserve`), two
different placements of capacity operations around the same plain operations: same final queue, same results -/
theorem runC_allocator_independent (a₁ a₂ : Alloc) (c₁ c₂ : List (COp P)) (hp : plainOps c₁ = plainOps c₂)
    {x₁ x₂ x₁' x₂' : QC P} (hq : x₁.q = x₂.q) {o₁ o₂ : List (COut P)}
    (h₁ : runC a₁ x₁ c₁ = .ok (x₁', o₁)) (h₂ : runC a₂ x₂ c₂ = .ok (x₂', o₂)) :
    x₁'.q = x₂'.q ∧ plainOuts o₁ = plainOuts o₂ := by
  have e₁ := runC_erase a₁ c₁ x₁ x₁' o₁ h₁
  have e₂ := runC_erase a₂ c₂ x₂ x₂' o₂ h₂
  rw [hp, hq] at e₁
  rw [e₁] at e₂
  simp only [Except.ok.injEq, Prod.mk.injEq] at e₂
  exact e₂

/-- `len ≤ capacity` (all three collections) after every capacity-aware history -/
theorem runC_capsOk (a : Alloc) (cops : List (COp P)) : ∀ (x x' : QC P) (outs : List (COut P)),
    x.CapsOk → runC a x cops = .ok (x', outs) → x'.CapsOk := by
  induction cops with
  | nil =>
    intro x x' outs hok h
    simp only [runC, pure, Except.pure, Except.ok.injEq, Prod.mk.injEq] at h
    obtain ⟨hx, _⟩ := h
    subst hx
    exact hok
  | cons cop cops ih =>
    intro x x' outs hok h
    simp only [runC, bind, Except.bind] at h
    cases hs : stepC a x cop with
    | error e => simp [hs] at h
    | ok r =>
      obtain ⟨x1, o⟩ := r
      simp only [hs] at h
      cases hr : runC a x1 cops with
      | error e => simp [hr] at h
      | ok r2 =>
        obtain ⟨x2, os⟩ := r2
        simp only [hr, pure, Except.pure, Except.ok.injEq, Prod.mk.injEq] at h
        obtain ⟨hx, _⟩ := h
        subst hx
        exact ih x1 x2 os (stepC_spec a hok hs).1 hr

end PQ.Cap
