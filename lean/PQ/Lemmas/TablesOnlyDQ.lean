import PQ.Lemmas.TablesOnly
/-!
# The tables-only invariant: `DoublePriorityQueue` (min-max heap) — every procedure and every public operation

`TO.SafeR post r` (see `TablesOnly.lean`): `r` is `.ok` with `post`, or the ordinary panic `unwrapNone`.  No order law is
used anywhere: priorities are compared with an arbitrary decidable `<`.
-/
set_option linter.unusedSimpArgs false
set_option linter.unusedSectionVars false
set_option linter.unusedVariables false
namespace PQ
namespace TO
namespace DQ
open PQ.DQ PQ.Arith
variable {P : Type} [LT P] [DecidableLT P]

/-! ## small tools -/

theorem parentC_to {i : Nat} (site : Nat) (h : i ≠ 0) : SafeR (fun y => y = parent i) (parentC i site) := by
  unfold parentC
  rw [if_neg h]
  exact rfl

theorem foldl_pick_mem {α : Type} (f : α → α → α) (hf : ∀ a b, f a b = a ∨ f a b = b) :
    ∀ (xs : List α) (x : α), xs.foldl f x ∈ x :: xs := by
  intro xs
  induction xs with
  | nil => intro x; simp
  | cons y ys ih =>
    intro x
    rw [List.foldl_cons]
    have := ih (f x y)
    rcases hf x y with h | h
    · rw [h] at this ⊢
      rcases List.mem_cons.1 this with h' | h'
      · rw [h']; exact List.mem_cons_self
      · exact List.mem_cons_of_mem _ (List.mem_cons_of_mem _ h')
    · rw [h] at this ⊢
      exact List.mem_cons_of_mem _ this

theorem minByKey_mem {cs : List (Nat × P)} {c : Nat × P} (h : minByKey cs = some c) : c ∈ cs := by
  cases cs with
  | nil => cases h
  | cons x xs =>
    unfold minByKey at h
    cases h
    exact foldl_pick_mem _ (fun a b => by split <;> simp) xs x

theorem maxByKey_mem {cs : List (Nat × P)} {c : Nat × P} (h : maxByKey cs = some c) : c ∈ cs := by
  cases cs with
  | nil => cases h
  | cons x xs =>
    unfold maxByKey at h
    cases h
    exact foldl_pick_mem _ (fun a b => by split <;> simp) xs x

/-! ## `candidates` -/

theorem candidates_go_to (s : Store P) : ∀ l : List Nat,
    SafeR (fun cs => ∀ c ∈ cs, c.1 < s.heap.size ∧ c.1 ∈ l) (candidates.go s l) := by
  intro l
  induction l with
  | nil => unfold candidates.go; exact SafeR.pure (fun c hc => by cases hc)
  | cons c cs ih =>
    unfold candidates.go
    split
    · exact SafeR.pure (fun c hc => by cases hc)
    · rename_i idx hidx
      refine SafeR.bind (unwrapO_to _ 303) fun e _ => ?_
      refine SafeR.bind ih fun rest hrest => ?_
      refine SafeR.pure ?_
      intro x hx
      rcases List.mem_cons.1 hx with hx | hx
      · subst hx
        exact ⟨lt_size_of_getElem? hidx, List.mem_cons_self⟩
      · exact ⟨(hrest x hx).1, List.mem_cons_of_mem _ (hrest x hx).2⟩

/-- every candidate is a position of the heap strictly below `i` -/
theorem candidates_to {s : Store P} {n : Nat} (hh : s.heap.size = n) (i : Nat) :
    SafeR (fun cs => ∀ c ∈ cs, c.1 < n ∧ i < c.1) (candidates s i) := by
  unfold candidates
  refine SafeR.mono (candidates_go_to s _) fun cs hcs c hc => ?_
  obtain ⟨h1, h2⟩ := hcs c hc
  refine ⟨hh ▸ h1, ?_⟩
  simp only [List.mem_cons, List.not_mem_nil, or_false, left, right] at h2
  omega

/-! ## `heapify` -/

theorem heapifyMinLoop_to (n : Nat) (fuel : Nat) : ∀ (s : Store P) (i : Nat), Tab s n → s.size = n → 2 ≤ n →
    n - i ≤ fuel → 0 < fuel →
    SafeR (fun s' => Tab s' n ∧ s'.map = s.map ∧ s'.size = s.size) (heapifyMinLoop fuel s i) := by
  induction fuel with
  | zero => intro s i _ _ _ _ hf; omega
  | succ fuel ih =>
    intro s i h hs hn hf _
    unfold heapifyMinLoop
    refine SafeR.bind (decC_to 301 (by omega)) fun last hlast => ?_
    refine SafeR.bind (parentC_to 302 (by omega)) fun bound hb => ?_
    split
    · rename_i hib
      have hi : i < n := by subst hlast hb; simp only [parent] at hib; omega
      dsimp only
      refine SafeR.bind (candidates_to h.heap_size i) fun cs hcs => ?_
      refine SafeR.bind (unwrapO_to _ 304) fun c hc => ?_
      obtain ⟨hcn, hci⟩ := hcs c (minByKey_mem hc)
      refine SafeR.bind (prioAt_to (by show c.1 < s.heap.size; rw [h.heap_size]; exact hcn)) fun pc _ => ?_
      refine SafeR.bind (prioAt_to (by show i < s.heap.size; rw [h.heap_size]; exact hi)) fun pm _ => ?_
      split
      · refine SafeR.bind (swap_to (h.tick.tick) hcn hi) fun s1 hs1 => ?_
        obtain ⟨t1, m1, z1⟩ := hs1
        split
        · rename_i hgt
          refine SafeR.bind (parentC_to 305 (by omega)) fun p hp => ?_
          have hpn : p < n := by subst hp; simp only [parent]; omega
          refine SafeR.bind (prioAt_to (by rw [t1.heap_size]; exact hcn)) fun pc' _ => ?_
          refine SafeR.bind (prioAt_to (by rw [t1.heap_size]; exact hpn)) fun pp _ => ?_
          have key : ∀ s2 : Store P, Tab s2 n ∧ s2.map = s.map ∧ s2.size = s.size →
              SafeR (fun s' => Tab s' n ∧ s'.map = s.map ∧ s'.size = s.size) (heapifyMinLoop fuel s2 c.1) := by
            intro s2 hs2
            refine SafeR.mono (ih s2 c.1 hs2.1 (by rw [hs2.2.2, hs]) hn (by omega) (by omega)) fun s' hs' => ?_
            exact ⟨hs'.1, by rw [hs'.2.1, hs2.2.1], by rw [hs'.2.2, hs2.2.2]⟩
          split
          · refine SafeR.bind (swap_to t1.tick hcn hpn) fun s2 hs2 => ?_
            exact key s2 ⟨hs2.1, by rw [hs2.2.1]; exact m1, by rw [hs2.2.2]; exact z1⟩
          · exact key _ ⟨t1.tick, m1, z1⟩
        · exact SafeR.pure ⟨t1, m1, z1⟩
      · exact SafeR.pure ⟨h.tick.tick, rfl, rfl⟩
    · exact SafeR.pure ⟨h, rfl, rfl⟩

theorem heapifyMaxLoop_to (n : Nat) (fuel : Nat) : ∀ (s : Store P) (i : Nat), Tab s n → s.size = n → 2 ≤ n →
    n - i ≤ fuel → 0 < fuel →
    SafeR (fun s' => Tab s' n ∧ s'.map = s.map ∧ s'.size = s.size) (heapifyMaxLoop fuel s i) := by
  induction fuel with
  | zero => intro s i _ _ _ _ hf; omega
  | succ fuel ih =>
    intro s i h hs hn hf _
    unfold heapifyMaxLoop
    refine SafeR.bind (decC_to 306 (by omega)) fun last hlast => ?_
    refine SafeR.bind (parentC_to 307 (by omega)) fun bound hb => ?_
    split
    · rename_i hib
      have hi : i < n := by subst hlast hb; simp only [parent] at hib; omega
      dsimp only
      refine SafeR.bind (candidates_to h.heap_size i) fun cs hcs => ?_
      refine SafeR.bind (unwrapO_to _ 308) fun c hc => ?_
      obtain ⟨hcn, hci⟩ := hcs c (maxByKey_mem hc)
      refine SafeR.bind (prioAt_to (by show c.1 < s.heap.size; rw [h.heap_size]; exact hcn)) fun pc _ => ?_
      refine SafeR.bind (prioAt_to (by show i < s.heap.size; rw [h.heap_size]; exact hi)) fun pm _ => ?_
      split
      · refine SafeR.bind (swap_to (h.tick.tick) hcn hi) fun s1 hs1 => ?_
        obtain ⟨t1, m1, z1⟩ := hs1
        split
        · rename_i hgt
          refine SafeR.bind (parentC_to 309 (by omega)) fun p hp => ?_
          have hpn : p < n := by subst hp; simp only [parent]; omega
          refine SafeR.bind (prioAt_to (by rw [t1.heap_size]; exact hcn)) fun pc' _ => ?_
          refine SafeR.bind (prioAt_to (by rw [t1.heap_size]; exact hpn)) fun pp _ => ?_
          have key : ∀ s2 : Store P, Tab s2 n ∧ s2.map = s.map ∧ s2.size = s.size →
              SafeR (fun s' => Tab s' n ∧ s'.map = s.map ∧ s'.size = s.size) (heapifyMaxLoop fuel s2 c.1) := by
            intro s2 hs2
            refine SafeR.mono (ih s2 c.1 hs2.1 (by rw [hs2.2.2, hs]) hn (by omega) (by omega)) fun s' hs' => ?_
            exact ⟨hs'.1, by rw [hs'.2.1, hs2.2.1], by rw [hs'.2.2, hs2.2.2]⟩
          split
          · refine SafeR.bind (swap_to t1.tick hcn hpn) fun s2 hs2 => ?_
            exact key s2 ⟨hs2.1, by rw [hs2.2.1]; exact m1, by rw [hs2.2.2]; exact z1⟩
          · exact key _ ⟨t1.tick, m1, z1⟩
        · exact SafeR.pure ⟨t1, m1, z1⟩
      · exact SafeR.pure ⟨h.tick.tick, rfl, rfl⟩
    · exact SafeR.pure ⟨h, rfl, rfl⟩

/-- `heapify` at ANY position (in range or not) -/
theorem heapify_to {s : Store P} {n : Nat} (h : Tab s n) (hs : s.size = n) (i : Nat) :
    SafeR (fun s' => Tab s' n ∧ s'.map = s.map ∧ s'.size = s.size) (heapify s i) := by
  unfold heapify
  split
  · exact SafeR.pure ⟨h, rfl, rfl⟩
  · split
    · exact heapifyMinLoop_to n s.size s i h hs (by omega) (by omega) (by omega)
    · exact heapifyMaxLoop_to n s.size s i h hs (by omega) (by omega) (by omega)

/-! ## `bubble_up` -/

theorem bubbleUpMinLoop_to (n idx : Nat) (priority : P) (fuel : Nat) : ∀ (s : Store P) (hole : Nat), Hole s n hole idx →
    hole < fuel →
    SafeR (fun r => Hole r.1 n r.2 idx ∧ r.1.map = s.map ∧ r.1.size = s.size ∧ r.2 ≤ hole)
      (bubbleUpMinLoop fuel s hole priority) := by
  induction fuel with
  | zero => intro s hole _ hf; omega
  | succ fuel ih =>
    intro s hole h hf
    have hhn := h.hole_lt
    unfold bubbleUpMinLoop
    split
    · rename_i hpos
      have hgp : parent (parent hole) < hole := by simp only [parent] at hpos ⊢; omega
      dsimp only
      refine SafeR.bind (prioAt_to (by rw [h.heap_size]; omega)) fun gpp _ => ?_
      split
      · refine SafeR.bind (getU_to 320 (by show _ < s.heap.size; rw [h.heap_size]; omega)) fun gpi hgpi => ?_
        have hgpi' : s.heap[parent (parent hole)]? = some gpi := hgpi
        have hgpin : gpi < n := by
          obtain ⟨j, hj, hjn⟩ := h.heap_some (p := parent (parent hole)) (by omega) (by omega)
          rw [hgpi'] at hj; cases hj; exact hjn
        refine SafeR.bind (setU_to gpi 321 (by show _ < s.heap.size; rw [h.heap_size]; exact hhn)) fun heap hheap => ?_
        refine SafeR.bind (setU_to hole 322 (by show _ < s.qp.size; rw [h.qp_size]; exact hgpin)) fun qp hqp => ?_
        subst hheap hqp
        have hstep := Hole.step (h.tick (k := 1)) (pp := parent (parent hole)) (pi := gpi) (by omega) (by omega) hgpi'
        refine SafeR.mono (ih _ _ hstep (by omega)) fun r hr => ?_
        exact ⟨hr.1, hr.2.1, hr.2.2.1, by have := hr.2.2.2; omega⟩
      · exact SafeR.pure ⟨h.tick, rfl, rfl, Nat.le_refl _⟩
    · exact SafeR.pure ⟨h, rfl, rfl, Nat.le_refl _⟩

theorem bubbleUpMaxLoop_to (n idx : Nat) (priority : P) (fuel : Nat) : ∀ (s : Store P) (hole : Nat), Hole s n hole idx →
    hole < fuel →
    SafeR (fun r => Hole r.1 n r.2 idx ∧ r.1.map = s.map ∧ r.1.size = s.size ∧ r.2 ≤ hole)
      (bubbleUpMaxLoop fuel s hole priority) := by
  induction fuel with
  | zero => intro s hole _ hf; omega
  | succ fuel ih =>
    intro s hole h hf
    have hhn := h.hole_lt
    unfold bubbleUpMaxLoop
    split
    · rename_i hpos
      have hgp : parent (parent hole) < hole := by simp only [parent] at hpos ⊢; omega
      dsimp only
      refine SafeR.bind (prioAt_to (by rw [h.heap_size]; omega)) fun gpp _ => ?_
      split
      · refine SafeR.bind (getU_to 323 (by show _ < s.heap.size; rw [h.heap_size]; omega)) fun gpi hgpi => ?_
        have hgpi' : s.heap[parent (parent hole)]? = some gpi := hgpi
        have hgpin : gpi < n := by
          obtain ⟨j, hj, hjn⟩ := h.heap_some (p := parent (parent hole)) (by omega) (by omega)
          rw [hgpi'] at hj; cases hj; exact hjn
        refine SafeR.bind (setU_to gpi 324 (by show _ < s.heap.size; rw [h.heap_size]; exact hhn)) fun heap hheap => ?_
        refine SafeR.bind (setU_to hole 325 (by show _ < s.qp.size; rw [h.qp_size]; exact hgpin)) fun qp hqp => ?_
        subst hheap hqp
        have hstep := Hole.step (h.tick (k := 1)) (pp := parent (parent hole)) (pi := gpi) (by omega) (by omega) hgpi'
        refine SafeR.mono (ih _ _ hstep (by omega)) fun r hr => ?_
        exact ⟨hr.1, hr.2.1, hr.2.2.1, by have := hr.2.2.2; omega⟩
      · exact SafeR.pure ⟨h.tick, rfl, rfl, Nat.le_refl _⟩
    · exact SafeR.pure ⟨h, rfl, rfl, Nat.le_refl _⟩

theorem bubbleUpMin_to {s : Store P} {n hole idx : Nat} (h : Hole s n hole idx) (mp : Nat) :
    SafeR (fun r => Hole r.1 n r.2 idx ∧ r.1.map = s.map ∧ r.1.size = s.size ∧ r.2 ≤ hole) (bubbleUpMin s hole mp) := by
  unfold bubbleUpMin
  refine SafeR.bind (unwrapO_to _ 318) fun e _ => ?_
  exact bubbleUpMinLoop_to n idx e.2 (hole + 1) s hole h (by omega)

theorem bubbleUpMax_to {s : Store P} {n hole idx : Nat} (h : Hole s n hole idx) (mp : Nat) :
    SafeR (fun r => Hole r.1 n r.2 idx ∧ r.1.map = s.map ∧ r.1.size = s.size ∧ r.2 ≤ hole) (bubbleUpMax s hole mp) := by
  unfold bubbleUpMax
  refine SafeR.bind (unwrapO_to _ 319) fun e _ => ?_
  exact bubbleUpMaxLoop_to n idx e.2 (hole + 1) s hole h (by omega)

/-- `bubble_up(position, map_position)` when `map_position` is the slot at `position` -/
theorem bubbleUp_to {s : Store P} {n pos idx : Nat} (h : Tab s n) (hp : s.heap[pos]? = some idx) :
    SafeR (fun r => Tab r.1 n ∧ r.1.map = s.map ∧ r.1.size = s.size ∧ r.2 < n) (bubbleUp s pos idx) := by
  have hposn : pos < n := by rw [← h.heap_size]; exact lt_size_of_getElem? hp
  have hH : Hole s n pos idx := h.toHole hp
  unfold bubbleUp
  refine SafeR.bind (unwrapO_to _ 310) fun e _ => ?_
  have fin : ∀ r : Store P × Nat, Hole r.1 n r.2 idx ∧ r.1.map = s.map ∧ r.1.size = s.size ∧ r.2 ≤ pos →
      SafeR (fun r => Tab r.1 n ∧ r.1.map = s.map ∧ r.1.size = s.size ∧ r.2 < n)
        (do
          let heap ← setU r.1.heap r.2 idx 316
          let qp ← setU r.1.qp idx r.2 317
          pure (({ r.1 with heap := heap, qp := qp } : Store P), r.2)) := by
    intro r hr
    obtain ⟨s1, p1⟩ := r
    obtain ⟨h1, m1, z1, _⟩ := hr
    dsimp only at h1 m1 z1 ⊢
    refine SafeR.bind (setU_to idx 316 (by rw [h1.heap_size]; exact h1.hole_lt)) fun heap hheap => ?_
    refine SafeR.bind (setU_to p1 317 (by rw [h1.qp_size]; exact h1.idx_lt)) fun qp hqp => ?_
    subst hheap hqp
    exact SafeR.pure ⟨h1.fill, m1, z1, h1.hole_lt⟩
  dsimp only
  split
  · rename_i hpos
    have hpar : parent pos < pos := by simp only [parent]; omega
    refine SafeR.bind (prioAt_to (by rw [h.heap_size]; omega)) fun pp _ => ?_
    refine SafeR.bind (getU_to 311 (by rw [h.heap_size]; omega)) fun pi hpi => ?_
    have hpin : pi < n := h.heap_lt hpi
    have hstep := Hole.step (hH.tick (k := 1)) (pp := parent pos) (pi := pi) (by omega) (by omega) hpi
    split
    · refine SafeR.bind (setU_to pi 312 (by show _ < s.heap.size; rw [h.heap_size]; exact hposn)) fun heap hheap => ?_
      refine SafeR.bind (setU_to pos 313 (by show _ < s.qp.size; rw [h.qp_size]; exact hpin)) fun qp hqp => ?_
      subst hheap hqp
      refine SafeR.bind (bubbleUpMax_to hstep idx) fun r hr => ?_
      exact fin r ⟨hr.1, hr.2.1, hr.2.2.1, by have := hr.2.2.2; omega⟩
    · refine SafeR.bind (bubbleUpMin_to (hH.tick (k := 1)) idx) fun r hr => ?_
      exact fin r hr
    · refine SafeR.bind (bubbleUpMax_to (hH.tick (k := 1)) idx) fun r hr => ?_
      exact fin r hr
    · refine SafeR.bind (setU_to pi 314 (by show _ < s.heap.size; rw [h.heap_size]; exact hposn)) fun heap hheap => ?_
      refine SafeR.bind (setU_to pos 315 (by show _ < s.qp.size; rw [h.qp_size]; exact hpin)) fun qp hqp => ?_
      subst hheap hqp
      refine SafeR.bind (bubbleUpMin_to hstep idx) fun r hr => ?_
      exact fin r ⟨hr.1, hr.2.1, hr.2.2.1, by have := hr.2.2.2; omega⟩
  · exact fin (s, pos) ⟨hH, rfl, rfl, Nat.le_refl _⟩

/-- `up_heapify` at ANY position -/
theorem upHeapify_to {s : Store P} {n : Nat} (h : Tab s n) (hs : s.size = n) (i : Nat) :
    SafeR (fun s' => Tab s' n ∧ s'.map = s.map ∧ s'.size = s.size) (upHeapify s i) := by
  unfold upHeapify
  split
  · exact SafeR.pure ⟨h, rfl, rfl⟩
  · rename_i tmp htmp
    refine SafeR.bind (bubbleUp_to h htmp) fun r hr => ?_
    obtain ⟨s1, p1⟩ := r
    obtain ⟨t1, m1, z1, _⟩ := hr
    dsimp only at t1 m1 z1 ⊢
    have key : ∀ s2 : Store P, Tab s2 n ∧ s2.map = s.map ∧ s2.size = s.size →
        SafeR (fun s' => Tab s' n ∧ s'.map = s.map ∧ s'.size = s.size) (heapify s2 p1) := by
      intro s2 hs2
      refine SafeR.mono (heapify_to hs2.1 (by rw [hs2.2.2, hs]) p1) fun s' hs' => ?_
      exact ⟨hs'.1, by rw [hs'.2.1, hs2.2.1], by rw [hs'.2.2, hs2.2.2]⟩
    split
    · refine SafeR.bind (heapify_to t1 (by rw [z1, hs]) i) fun s' hs' => ?_
      exact key s' ⟨hs'.1, by rw [hs'.2.1, m1], by rw [hs'.2.2, z1]⟩
    · exact key s1 ⟨t1, m1, z1⟩

/-! ## `heap_build` -/

theorem heapBuildLoop_to {n : Nat} (k : Nat) : ∀ (s : Store P), Tab s n → s.size = n →
    SafeR (fun s' => Tab s' n ∧ s'.map = s.map ∧ s'.size = s.size) (heapBuildLoop s k) := by
  induction k with
  | zero => intro s h hs; unfold heapBuildLoop; exact heapify_to h hs 0
  | succ k ih =>
    intro s h hs
    unfold heapBuildLoop
    refine SafeR.bind (heapify_to h hs (k + 1)) fun s1 hs1 => ?_
    refine SafeR.mono (ih s1 hs1.1 (by rw [hs1.2.2, hs])) fun s' hs' => ?_
    exact ⟨hs'.1, by rw [hs'.2.1, hs1.2.1], by rw [hs'.2.2, hs1.2.2]⟩

theorem heapBuild_to {s : Store P} (h : s.TablesOnlyWF) :
    SafeR (fun s' => s'.TablesOnlyWF ∧ s'.map = s.map ∧ s'.size = s.size) (DQ.heapBuild s) := by
  obtain ⟨ht, hm⟩ := towf_iff.1 h
  unfold heapBuild
  split
  · exact SafeR.pure ⟨h, rfl, rfl⟩
  · rename_i hne
    refine SafeR.bind (parentC_to 326 hne) fun top _ => ?_
    refine SafeR.mono (heapBuildLoop_to top s ht rfl) fun s' hs' => ?_
    exact ⟨towf_of_tab hs'.1 hs'.2.2 (by rw [hs'.2.1]; exact hm), hs'.2.1, hs'.2.2⟩

/-! ## `find_max` -/

theorem findMax_to {s : Store P} {n : Nat} (h : Tab s n) (hs : s.size = n) :
    SafeR (fun r => r.1.heap = s.heap ∧ r.1.qp = s.qp ∧ r.1.map = s.map ∧ r.1.size = s.size ∧
        (∀ p, r.2 = some p → p < n) ∧ (r.2 = none → n = 0)) (findMax s) := by
  unfold findMax
  split
  · rename_i h0
    exact SafeR.pure ⟨rfl, rfl, rfl, rfl, fun p hp => (by cases hp), fun _ => by omega⟩
  · rename_i h1
    exact SafeR.pure ⟨rfl, rfl, rfl, rfl, fun p hp => (by cases hp; omega), fun hp => by cases hp⟩
  · rename_i h2
    exact SafeR.pure ⟨rfl, rfl, rfl, rfl, fun p hp => (by cases hp; omega), fun hp => by cases hp⟩
  · rename_i h0 h1 h2
    have hn : 3 ≤ n := by
      rw [← hs]
      rcases hsz : s.size with _ | _ | _ | k
      · exact absurd hsz h0
      · exact absurd hsz h1
      · exact absurd hsz h2
      · omega
    refine SafeR.bind (prioAt_to (by rw [h.heap_size]; omega)) fun p1 _ => ?_
    refine SafeR.bind (prioAt_to (by rw [h.heap_size]; omega)) fun p2 _ => ?_
    refine SafeR.pure ⟨rfl, rfl, rfl, rfl, fun p hp => ?_, fun hp => by cases hp⟩
    cases hp
    split <;> omega

/-! ## The public operations -/

theorem towf_tick {s : Store P} (h : s.TablesOnlyWF) (k : Nat) : (s.tick k).TablesOnlyWF :=
  ⟨h.heap_size, h.qp_size, h.map_le, h.heap_qp, h.qp_heap⟩

/-- a sifting result (same tables length, same map, same size) of a store with a short map is tables-only well-formed -/
theorem towf_of_frame {s s' : Store P} {n : Nat} (ht : Tab s' n) (hs : s.size = n) (hm : s.map.size ≤ n)
    (hmap : s'.map = s.map) (hsz : s'.size = s.size) : s'.TablesOnlyWF :=
  towf_of_tab ht (by rw [hsz, hs]) (by rw [hmap]; exact hm)

theorem push_to {s : Store P} (h : s.TablesOnlyWF) (it : Item) (p : P) :
    SafeR (fun r => r.1.TablesOnlyWF) (DQ.push s it p) := by
  obtain ⟨ht, hm⟩ := towf_iff.1 h
  unfold DQ.push
  rcases IMap.insertFull_cases s.map it p with ⟨i, e, hf, he, hk, hins⟩ | ⟨hf, hins⟩
  · rw [hins]
    dsimp only
    have hil : i < s.map.size := IMap.find?_lt_size hf
    refine SafeR.bind (getU_to 331 (by show i < s.qp.size; rw [ht.qp_size]; omega)) fun pos _ => ?_
    have ht' : Tab ({ s with map := s.map.setIfInBounds i (e.1, p) } : Store P) s.size := ht.congr rfl rfl
    refine SafeR.bind (upHeapify_to ht' rfl pos) fun s1 hs1 => ?_
    refine SafeR.pure ?_
    exact towf_of_frame (s := { s with map := s.map.setIfInBounds i (e.1, p) }) hs1.1 rfl
      (by simpa using hm) hs1.2.1 hs1.2.2
  · rw [hins]
    dsimp only
    have ht' : Tab ({ s with map := s.map.push (it, p), qp := s.qp.push s.size, heap := s.heap.push s.size } : Store P)
        (s.size + 1) := ht.push.congr rfl rfl
    refine SafeR.bind (bubbleUp_to ht' (pos := s.size) (idx := s.size) ht.push_last) fun r hr => ?_
    obtain ⟨s1, p1⟩ := r
    obtain ⟨t1, m1, z1, _⟩ := hr
    dsimp only at t1 m1 z1 ⊢
    refine SafeR.pure ?_
    refine towf_of_tab (n := s.size + 1) (t1.congr rfl rfl) (by show s1.size + 1 = _; rw [z1]) ?_
    show s1.map.size ≤ _
    rw [m1]
    show (s.map.push (it, p)).size ≤ _
    rw [Array.size_push]; omega

theorem pushIncrease_to {s : Store P} (h : s.TablesOnlyWF) (it : Item) (p : P) :
    SafeR (fun r => r.1.TablesOnlyWF) (DQ.pushIncrease s it p) := by
  unfold DQ.pushIncrease
  split
  · exact push_to h it p
  · dsimp only
    split
    · exact push_to (towf_tick h 1) it p
    · exact SafeR.pure (towf_tick h 1)

theorem pushDecrease_to {s : Store P} (h : s.TablesOnlyWF) (it : Item) (p : P) :
    SafeR (fun r => r.1.TablesOnlyWF) (DQ.pushDecrease s it p) := by
  unfold DQ.pushDecrease
  split
  · exact push_to h it p
  · dsimp only
    split
    · exact push_to (towf_tick h 1) it p
    · exact SafeR.pure (towf_tick h 1)

theorem changePriority_to' {s : Store P} (h : s.TablesOnlyWF) (k : Nat) (p : P) :
    SafeR (fun r => r.1.TablesOnlyWF) (DQ.changePriority s k p) := by
  obtain ⟨ht, hm⟩ := towf_iff.1 h
  unfold DQ.changePriority
  refine SafeR.bind (TO.changePriority_to (k := k) p ht hm) fun r hr => ?_
  obtain ⟨s1, o⟩ := r
  obtain ⟨h1, h2, h3, h4, _, _⟩ := hr
  dsimp only at h1 h2 h3 h4 ⊢
  have t1 : Tab s1 s.size := ht.congr h1 h2
  split
  · refine SafeR.bind (upHeapify_to t1 h3 _) fun s2 hs2 => ?_
    exact SafeR.pure (towf_of_frame hs2.1 h3 (by rw [h4]; exact hm) hs2.2.1 hs2.2.2)
  · exact SafeR.pure (towf_of_tab t1 h3 (by rw [h4]; exact hm))

theorem changePriorityBy_to' {s : Store P} (h : s.TablesOnlyWF) (k : Nat) (g : P → P) :
    SafeR (fun r => r.1.TablesOnlyWF) (DQ.changePriorityBy s k g) := by
  obtain ⟨ht, hm⟩ := towf_iff.1 h
  unfold DQ.changePriorityBy
  refine SafeR.bind (TO.changePriorityBy_to (k := k) g ht hm) fun r hr => ?_
  obtain ⟨s1, o⟩ := r
  obtain ⟨h1, h2, h3, h4, _, _⟩ := hr
  dsimp only at h1 h2 h3 h4 ⊢
  have t1 : Tab s1 s.size := ht.congr h1 h2
  split
  · refine SafeR.bind (upHeapify_to t1 h3 _) fun s2 hs2 => ?_
    exact SafeR.pure (towf_of_frame hs2.1 h3 (by rw [h4]; exact hm) hs2.2.1 hs2.2.2)
  · exact SafeR.pure (towf_of_tab t1 h3 (by rw [h4]; exact hm))

theorem remove_to' {s : Store P} (h : s.TablesOnlyWF) (k : Nat) :
    SafeR (fun r => r.1.TablesOnlyWF) (DQ.remove s k) := by
  obtain ⟨ht, hm⟩ := towf_iff.1 h
  unfold DQ.remove
  refine SafeR.bind (TO.remove_to (k := k) ht rfl hm) fun r hr => ?_
  obtain ⟨s1, o⟩ := r
  dsimp only at hr ⊢
  rcases hr with ⟨ho, hs1⟩ | ⟨t1, z1, m1, _, _⟩
  · subst ho hs1
    exact SafeR.pure h
  · split
    · split
      · refine SafeR.bind (upHeapify_to t1 z1 _) fun s2 hs2 => ?_
        exact SafeR.pure (towf_of_frame hs2.1 z1 m1 hs2.2.1 hs2.2.2)
      · exact SafeR.pure (towf_of_tab t1 z1 m1)
    · exact SafeR.pure (towf_of_tab t1 z1 m1)

theorem popMin_to {s : Store P} (h : s.TablesOnlyWF) : SafeR (fun r => r.1.TablesOnlyWF) (DQ.popMin s) := by
  obtain ⟨ht, hm⟩ := towf_iff.1 h
  unfold DQ.popMin findMin
  split
  · exact SafeR.pure h
  · rename_i i hi
    split at hi
    · cases hi
    · cases hi
      refine SafeR.bind (swapRemove_to ht rfl hm (by omega)) fun r hr => ?_
      obtain ⟨s1, o⟩ := r
      obtain ⟨t1, z1, m1, _⟩ := hr
      dsimp only at t1 z1 m1 ⊢
      refine SafeR.bind (heapify_to t1 z1 _) fun s2 hs2 => ?_
      exact SafeR.pure (towf_of_frame hs2.1 z1 m1 hs2.2.1 hs2.2.2)

theorem popMax_to {s : Store P} (h : s.TablesOnlyWF) : SafeR (fun r => r.1.TablesOnlyWF) (DQ.popMax s) := by
  obtain ⟨ht, hm⟩ := towf_iff.1 h
  unfold DQ.popMax
  refine SafeR.bind (findMax_to ht rfl) fun r hr => ?_
  obtain ⟨s0, o⟩ := r
  obtain ⟨a1, a2, a3, a4, a5, a6⟩ := hr
  dsimp only at a1 a2 a3 a4 a5 ⊢
  have t0 : Tab s0 s.size := ht.congr a1 a2
  have m0 : s0.map.size ≤ s.size := by rw [a3]; exact hm
  split
  · exact SafeR.pure (towf_of_tab t0 a4 m0)
  · rename_i i
    refine SafeR.bind (swapRemove_to t0 a4 m0 (a5 i rfl)) fun r hr => ?_
    obtain ⟨s1, o⟩ := r
    obtain ⟨t1, z1, m1, _⟩ := hr
    dsimp only at t1 z1 m1 ⊢
    refine SafeR.bind (heapify_to t1 z1 _) fun s2 hs2 => ?_
    exact SafeR.pure (towf_of_frame hs2.1 z1 m1 hs2.2.1 hs2.2.2)

theorem popMinIf_to {s : Store P} (h : s.TablesOnlyWF) (f : Item → P → Bool × Item × P) :
    SafeR (fun r => r.1.TablesOnlyWF) (DQ.popMinIf s f) := by
  obtain ⟨ht, hm⟩ := towf_iff.1 h
  unfold DQ.popMinIf findMin
  split
  · exact SafeR.pure h
  · rename_i i hi
    split at hi
    · cases hi
    · cases hi
      refine SafeR.bind (swapRemoveIf_to f ht rfl hm (by omega)) fun r hr => ?_
      obtain ⟨s1, o⟩ := r
      dsimp only at hr ⊢
      rcases hr with ⟨t1, z1, m1, _⟩ | ⟨t1, z1, m1, _⟩
      · refine SafeR.bind (heapify_to t1 z1 _) fun s2 hs2 => ?_
        exact SafeR.pure (towf_of_frame hs2.1 z1 m1 hs2.2.1 hs2.2.2)
      · refine SafeR.bind (heapify_to t1 z1 _) fun s2 hs2 => ?_
        exact SafeR.pure (towf_of_frame hs2.1 z1 m1 hs2.2.1 hs2.2.2)

theorem popMaxIf_to {s : Store P} (h : s.TablesOnlyWF) (f : Item → P → Bool × Item × P) :
    SafeR (fun r => r.1.TablesOnlyWF) (DQ.popMaxIf s f) := by
  obtain ⟨ht, hm⟩ := towf_iff.1 h
  unfold DQ.popMaxIf
  refine SafeR.bind (findMax_to ht rfl) fun r hr => ?_
  obtain ⟨s0, o⟩ := r
  obtain ⟨a1, a2, a3, a4, a5, a6⟩ := hr
  dsimp only at a1 a2 a3 a4 a5 ⊢
  have t0 : Tab s0 s.size := ht.congr a1 a2
  have m0 : s0.map.size ≤ s.size := by rw [a3]; exact hm
  split
  · exact SafeR.pure (towf_of_tab t0 a4 m0)
  · rename_i i
    refine SafeR.bind (swapRemoveIf_to f t0 a4 m0 (a5 i rfl)) fun r hr => ?_
    obtain ⟨s1, o⟩ := r
    dsimp only at hr ⊢
    rcases hr with ⟨t1, z1, m1, _⟩ | ⟨t1, z1, m1, _⟩
    · refine SafeR.bind (upHeapify_to t1 z1 _) fun s2 hs2 => ?_
      exact SafeR.pure (towf_of_frame hs2.1 z1 m1 hs2.2.1 hs2.2.2)
    · refine SafeR.bind (upHeapify_to t1 z1 _) fun s2 hs2 => ?_
      exact SafeR.pure (towf_of_frame hs2.1 z1 m1 hs2.2.1 hs2.2.2)

theorem peekMinMutWrite_to {s : Store P} (h : s.TablesOnlyWF) (w : Item → Item) :
    SafeR (fun r => r.1.TablesOnlyWF) (DQ.peekMinMutWrite s w) := by
  obtain ⟨ht, hm⟩ := towf_iff.1 h
  unfold DQ.peekMinMutWrite findMin
  split
  · exact SafeR.pure h
  · rename_i i hi
    split at hi
    · cases hi
    · cases hi
      refine SafeR.bind (getU_to 329 (by rw [ht.heap_size]; omega)) fun j _ => ?_
      split
      · exact SafeR.pure (towf_map_update h (Nat.le_of_eq (IMap.size_setItem _ _ _)))
      · exact SafeR.pure h

theorem peekMaxMutWrite_to {s : Store P} (h : s.TablesOnlyWF) (w : Item → Item) :
    SafeR (fun r => r.1.TablesOnlyWF) (DQ.peekMaxMutWrite s w) := by
  obtain ⟨ht, hm⟩ := towf_iff.1 h
  unfold DQ.peekMaxMutWrite
  refine SafeR.bind (findMax_to ht rfl) fun r hr => ?_
  obtain ⟨s0, o⟩ := r
  obtain ⟨a1, a2, a3, a4, a5, a6⟩ := hr
  dsimp only at a1 a2 a3 a4 a5 ⊢
  have t0 : Tab s0 s.size := ht.congr a1 a2
  have m0 : s0.map.size ≤ s.size := by rw [a3]; exact hm
  have w0 : s0.TablesOnlyWF := towf_of_tab t0 a4 m0
  split
  · exact SafeR.pure w0
  · rename_i i
    refine SafeR.bind (getU_to 330 (by rw [t0.heap_size]; exact a5 i rfl)) fun j _ => ?_
    split
    · exact SafeR.pure (towf_map_update w0 (Nat.le_of_eq (IMap.size_setItem _ _ _)))
    · exact SafeR.pure w0

theorem retainMut_to {s : Store P} (h : s.TablesOnlyWF) (f : Item → P → Bool × Item × P) :
    SafeR (fun s' => s'.TablesOnlyWF) (DQ.retainMut s f) := by
  unfold DQ.retainMut
  exact SafeR.mono (heapBuild_to (towf_retainMut h f)) fun s' hs' => hs'.1

theorem append_to {s o : Store P} (h : s.TablesOnlyWF) (ho : o.TablesOnlyWF) :
    SafeR (fun r => r.1.TablesOnlyWF) (DQ.append s o) := by
  unfold DQ.append
  dsimp only
  refine SafeR.bind (heapBuild_to (towf_append h ho)) fun s1 hs1 => ?_
  exact SafeR.pure hs1.1

theorem pushAll_to : ∀ (es : List (Item × P)) {s : Store P}, s.TablesOnlyWF →
    SafeR (fun s' => s'.TablesOnlyWF) (DQ.pushAll es s) := by
  intro es
  induction es with
  | nil => intro s h; unfold DQ.pushAll; exact SafeR.pure h
  | cons e es ih =>
    intro s h
    unfold DQ.pushAll
    refine SafeR.bind (push_to h e.1 e.2) fun r hr => ?_
    exact ih hr

theorem extend_to {s : Store P} {lo : Nat} (h : s.TablesOnlyWF) (hlo : lo < capLimit) (xs : Array (Item × P)) :
    SafeR (fun s' => s'.TablesOnlyWF) (DQ.extend s lo xs) := by
  unfold DQ.extend
  rw [reserveC_bind_of_lt _ hlo]
  dsimp only
  have hb : SafeR (fun s' => s'.TablesOnlyWF) (DQ.heapBuild (s.extend xs)) :=
    SafeR.mono (heapBuild_to (towf_extend h xs)) fun s' hs' => hs'.1
  have hp : SafeR (fun s' => s'.TablesOnlyWF) (DQ.pushAll xs.toList s) := pushAll_to xs.toList h
  split <;> (try split) <;> first | exact hb | exact hp

theorem ofStore_to {s : Store P} (h : s.TablesOnlyWF) : SafeR (fun s' => s'.TablesOnlyWF) (DQ.ofStore s) := by
  unfold DQ.ofStore
  exact SafeR.mono (heapBuild_to h) fun s' hs' => hs'.1

/-! ## Non-vacuity: concrete tables-only stores whose map is shorter than the tables -/

/-- three positions, two entries -/
def exShort : Store Nat :=
  { map := #[(⟨7, 0⟩, 5), (⟨8, 0⟩, 3)], heap := #[1, 0, 2], qp := #[1, 0, 2], size := 3 }

/-- four positions, three entries -/
def exShort4 : Store Nat :=
  { map := #[(⟨7, 0⟩, 5), (⟨8, 0⟩, 3), (⟨9, 0⟩, 4)], heap := #[1, 0, 2, 3], qp := #[1, 0, 2, 3], size := 4 }

example : exShort.TablesOnlyWF ∧ exShort.map.size < exShort.size := by decide
example : exShort4.TablesOnlyWF ∧ exShort4.map.size < exShort4.size := by decide
/-- the hypotheses of the procedures (`Tab`, `Hole`) hold of it -/
example : Tab exShort 3 ∧ exShort.size = 3 ∧ Hole exShort 3 2 2 :=
  have ht : Tab exShort 3 := (towf_iff.1 (by decide : exShort.TablesOnlyWF)).1
  ⟨ht, rfl, ht.toHole (by decide)⟩
/-- the fault a result ends in, if any -/
def faultOf {α : Type} : R α → Option Fault
  | .ok _ => none
  | .error f => some f

/-- both outcomes occur: an ordinary `unwrap` panic … -/
example : faultOf (DQ.popMin exShort) = some (.unwrapNone 106) := by decide +kernel
example : faultOf (DQ.push exShort ⟨10, 1⟩ 9) = some (.unwrapNone 310) := by decide +kernel
example : faultOf (DQ.remove exShort4 9) = some (.unwrapNone 310) := by decide +kernel
example : faultOf (DQ.ofStore exShort) = some (.unwrapNone 303) := by decide +kernel
/-- … or a normal return in a tables-only state (the map is still shorter than the tables) -/
example : (DQ.push exShort ⟨7, 1⟩ 9).toOption.map (fun r => decide (r.1.TablesOnlyWF ∧ r.1.map.size < r.1.size)) =
    some true := by decide +kernel
example : (DQ.popMax exShort4).toOption.map (fun r => decide (r.1.TablesOnlyWF ∧ r.1.map.size < r.1.size)) =
    some true := by decide +kernel
example : (DQ.remove exShort4 7).toOption.map (fun r => decide (r.1.TablesOnlyWF ∧ r.1.map.size < r.1.size)) =
    some true := by decide +kernel

end DQ
end TO
end PQ
