import PQ.Lemmas.TablesOnly
/-!
# The tables-only invariant: `DoublePriorityQueue` (min-max heap) — every procedure and every public operation

`TO.SafeR post r` (see `TablesOnly.lean`): `r` is `.ok` with `post`, or the ordinary panic `unwrapNone`.  No order law is
used anywhere: priorities are compared with an arbitrary decidable `<`.
-/
set_option linter.unusedSimpArgs false
set_option linter.unusedSectionVars false
set_option linter.unusedVariables false
namespace PQ
namespace TO
namespace DQ
open PQ.DQ PQ.Arith
variable {P : Type} [LT P] [DecidableLT P]

/-! ## small tools -/

theorem parentC_to {i : Nat} (site : Nat) (h : i ≠ 0) : SafeR (fun y => y = parent i) (parentC i site) := by
  unfold parentC
  rw [if_neg h]
  exact rfl

theorem foldl_pick_mem {α : Type} (f : α → α → α) (hf : ∀ a b, f a b = a ∨ f a b = b) :
    ∀ (xs : List α) (x : α), xs.foldl f x ∈ x :: xs := by
  intro xs
  induction xs with
  | nil => intro x; simp
  | cons y ys ih =>
    intro x
    rw [List.foldl_cons]
    have := ih (f x y)
    rcases hf x y with h | h
    · rw [h] at this ⊢
      rcases List.mem_cons.1 this with h' | h'
      · rw [h']; exact List.mem_cons_self
      · exact List.mem_cons_of_mem _ (List.mem_cons_of_mem _ h')
    · rw [h] at this ⊢
      exact List.mem_cons_of_mem _ this

theorem minByKey_mem {cs : List (Nat × P)} {c : Nat × P} (h : minByKey cs = some c) : c ∈ cs := by
  cases cs with
  | nil => cases h
  | cons x xs =>
    unfold minByKey at h
    cases h
    exact foldl_pick_mem _ (fun a b => by split <;> simp) xs x

theorem maxByKey_mem {cs : List (Nat × P)} {c : Nat × P} (h : maxByKey cs = some c) : c ∈ cs := by
  cases cs with
  | nil => cases h
  | cons x xs =>
    unfold maxByKey at h
    cases h
    exact foldl_pick_mem _ (fun a b => by split <;> simp) xs x

/-! ## `candidates` -/

theorem candidates_go_to (s : Store P) : ∀ l : List Nat,
    SafeR (fun cs => ∀ c ∈ cs, c.1 < s.heap.size ∧ c.1 ∈ l) (candidates.go s l) := by
  intro l
  induction l with
  | nil => unfold candidates.go; exact SafeR.pure (fun c hc => by cases hc)
  | cons c cs ih =>
    unfold candidates.go
    split
    · exact SafeR.pure (fun c hc => by cases hc)
    · rename_i idx hidx
      refine SafeR.bind (unwrapO_to _ 303) fun e _ => ?_
      refine SafeR.bind ih fun rest hrest => ?_
      refine SafeR.pure ?_
      intro x hx
      rcases List.mem_cons.1 hx with hx | hx
      · subst hx
        exact ⟨lt_size_of_getElem? hidx, List.mem_cons_self⟩
      · exact ⟨(hrest x hx).1, List.mem_cons_of_mem _ (hrest x hx).2⟩

/-- every candidate is a position of the heap strictly below `i` -/
theorem candidates_to {s : Store P} {n : Nat} (hh : s.heap.size = n) (i : Nat) :
    SafeR (fun cs => ∀ c ∈ cs, c.1 < n ∧ i < c.1) (candidates s i) := by
  unfold candidates
  refine SafeR.mono (candidates_go_to s _) fun cs hcs c hc => ?_
  obtain ⟨h1, h2⟩ := hcs c hc
  refine ⟨hh ▸ h1, ?_⟩
  simp only [List.mem_cons, List.not_mem_nil, or_false, left, right] at h2
  omega

/-! ## `heapify` -/

theorem heapifyMinLoop_to (n : Nat) (fuel : Nat) : ∀ (s : Store P) (i : Nat), Tab s n → s.size = n → 2 ≤ n →
    n - i ≤ fuel → 0 < fuel →
    SafeR (fun s' => Tab s' n ∧ s'.map = s.map ∧ s'.size = s.size) (heapifyMinLoop fuel s i) := by
  induction fuel with
  | zero => intro s i _ _ _ _ hf; omega
  | succ fuel ih =>
    intro s i h hs hn hf _
    unfold heapifyMinLoop
    refine SafeR.bind (decC_to 301 (by omega)) fun last hlast => ?_
    refine SafeR.bind (parentC_to 302 (by omega)) fun bound hb => ?_
    split
    · rename_i hib
      have hi : i < n := by subst hlast hb; simp only [parent] at hib; omega
      dsimp only
      refine SafeR.bind (candidates_to h.heap_size i) fun cs hcs => ?_
      refine SafeR.bind (unwrapO_to _ 304) fun c hc => ?_
      obtain ⟨hcn, hci⟩ := hcs c (minByKey_mem hc)
      refine SafeR.bind (prioAt_to (by show c.1 < s.heap.size; rw [h.heap_size]; exact hcn)) fun pc _ => ?_
      refine SafeR.bind (prioAt_to (by show i < s.heap.size; rw [h.heap_size]; exact hi)) fun pm _ => ?_
      split
      · refine SafeR.bind (swap_to (h.tick.tick) hcn hi) fun s1 hs1 => ?_
        obtain ⟨t1, m1, z1⟩ := hs1
        split
        · rename_i hgt
          refine SafeR.bind (parentC_to 305 (by omega)) fun p hp => ?_
          have hpn : p < n := by subst hp; simp only [parent]; omega
          refine SafeR.bind (prioAt_to (by rw [t1.heap_size]; exact hcn)) fun pc' _ => ?_
          refine SafeR.bind (prioAt_to (by rw [t1.heap_size]; exact hpn)) fun pp _ => ?_
          have key : ∀ s2 : Store P, Tab s2 n ∧ s2.map = s.map ∧ s2.size = s.size →
              SafeR (fun s' => Tab s' n ∧ s'.map = s.map ∧ s'.size = s.size) (heapifyMinLoop fuel s2 c.1) := by
            intro s2 hs2
            refine SafeR.mono (ih s2 c.1 hs2.1 (by rw [hs2.2.2, hs]) hn (by omega) (by omega)) fun s' hs' => ?_
            exact ⟨hs'.1, by rw [hs'.2.1, hs2.2.1], by rw [hs'.2.2, hs2.2.2]⟩
          split
          · refine SafeR.bind (swap_to t1.tick hcn hpn) fun s2 hs2 => ?_
            exact key s2 ⟨hs2.1, by rw [hs2.2.1]; exact m1, by rw [hs2.2.2]; exact z1⟩
          · exact key _ ⟨t1.tick, m1, z1⟩
        · exact SafeR.pure ⟨t1, m1, z1⟩
      · exact SafeR.pure ⟨h.tick.tick, rfl, rfl⟩
    · exact SafeR.pure ⟨h, rfl, rfl⟩

theorem heapifyMaxLoop_to (n : Nat) (fuel : Nat) : ∀ (s : Store P) (i : Nat), Tab s n → s.size = n → 2 ≤ n →
    n - i ≤ fuel → 0 < fuel →
    SafeR (fun s' => Tab s' n ∧ s'.map = s.map ∧ s'.size = s.size) (heapifyMaxLoop fuel s i) := by
  induction fuel with
  | zero => intro s i _ _ _ _ hf; omega
  | succ fuel ih =>
    intro s i h hs hn hf _
    unfold heapifyMaxLoop
    refine SafeR.bind (decC_to 306 (by omega)) fun last hlast => ?_
    refine SafeR.bind (parentC_to 307 (by omega)) fun bound hb => ?_
    split
    · rename_i hib
      have hi : i < n := by subst hlast hb; simp only [parent] at hib; omega
      dsimp only
      refine SafeR.bind (candidates_to h.heap_size i) fun cs hcs => ?_
      refine SafeR.bind (unwrapO_to _ 308) fun c hc => ?_
      obtain ⟨hcn, hci⟩ := hcs c (maxByKey_mem hc)
      refine SafeR.bind (prioAt_to (by show c.1 < s.heap.size; rw [h.heap_size]; exact hcn)) fun pc _ => ?_
      refine SafeR.bind (prioAt_to (by show i < s.heap.size; rw [h.heap_size]; exact hi)) fun pm _ => ?_
      split
      · refine SafeR.bind (swap_to (h.tick.tick) hcn hi) fun s1 hs1 => ?_
        obtain ⟨t1, m1, z1⟩ := hs1
        split
        · rename_i hgt
          refine SafeR.bind (parentC_to 309 (by omega)) fun p hp => ?_
          have hpn : p < n := by subst hp; simp only [parent]; omega
          refine SafeR.bind (prioAt_to (by rw [t1.heap_size]; exact hcn)) fun pc' _ => ?_
          refine SafeR.bind (prioAt_to (by rw [t1.heap_size]; exact hpn)) fun pp _ => ?_
          have key : ∀ s2 : Store P, Tab s2 n ∧ s2.map = s.map ∧ s2.size = s.size →
              SafeR (fun s' => Tab s' n ∧ s'.map = s.map ∧ s'.size = s.size) (heapifyMaxLoop fuel s2 c.1) := by
            intro s2 hs2
            refine SafeR.mono (ih s2 c.1 hs2.1 (by rw [hs2.2.2, hs]) hn (by omega) (by omega)) fun s' hs' => ?_
            exact ⟨hs'.1, by rw [hs'.2.1, hs2.2.1], by rw [hs'.2.2, hs2.2.2]⟩
          split
          · refine SafeR.bind (swap_to t1.tick hcn hpn) fun s2 hs2 => ?_
            exact key s2 ⟨hs2.1, by rw [hs2.2.1]; exact m1, by rw [hs2.2.2]; exact z1⟩
          · exact key _ ⟨t1.tick, m1, z1⟩
        · exact SafeR.pure ⟨t1, m1, z1⟩
      · exact SafeR.pure ⟨h.tick.tick, rfl, rfl⟩
    · exact SafeR.pure ⟨h, rfl, rfl⟩

/-- `heapify` at ANY position (in range or not) -/
theorem heapify_to {s : Store P} {n : Nat} (h : Tab s n) (hs : s.size = n) (i : Nat) :
    SafeR (fun s' => Tab s' n ∧ s'.map = s.map ∧ s'.size = s.size) (heapify s i) := by
  unfold heapify
  split
  · exact SafeR.pure ⟨h, rfl, rfl⟩
  · split
    · exact heapifyMinLoop_to n s.size s i h hs (by omega) (by omega) (by omega)
    · exact heapifyMaxLoop_to n s.size s i h hs (by omega) (by omega) (by omega)

/-! ## `bubble_up` -/

theorem bubbleUpMinLoop_to (n idx : Nat) (priority : P) (fuel : Nat) : ∀ (s : Store P) (hole : Nat), Hole s n hole idx →
    hole < fuel →
    SafeR (fun r => Hole r.1 n r.2 idx ∧ r.1.map = s.map ∧ r.1.size = s.size ∧ r.2 ≤ hole)
      (bubbleUpMinLoop fuel s hole priority) := by
  induction fuel with
  | zero => intro s hole _ hf; omega
  | succ fuel ih =>
    intro s hole h hf
    have hhn := h.hole_lt
    unfold bubbleUpMinLoop
    split
    · rename_i hpos
      have hgp : parent (parent hole) < hole := by simp only [parent] at hpos ⊢; omega
      dsimp only
      refine SafeR.bind (prioAt_to (by rw [h.heap_size]; omega)) fun gpp _ => ?_
      split
      · refine SafeR.bind (getU_to 320 (by show _ < s.heap.size; rw [h.heap_size]; omega)) fun gpi hgpi => ?_
        have hgpi' : s.heap[parent (parent hole)]? = some gpi := hgpi
        have hgpin : gpi < n := by
          obtain ⟨j, hj, hjn⟩ := h.heap_some (p := parent (parent hole)) (by omega) (by omega)
          rw [hgpi'] at hj; cases hj; exact hjn
        refine SafeR.bind (setU_to gpi 321 (by show _ < s.heap.size; rw [h.heap_size]; exact hhn)) fun heap hheap => ?_
        refine SafeR.bind (setU_to hole 322 (by show _ < s.qp.size; rw [h.qp_size]; exact hgpin)) fun qp hqp => ?_
        subst hheap hqp
        have hstep := Hole.step (h.tick (k := 1)) (pp := parent (parent hole)) (pi := gpi) (by omega) (by omega) hgpi'
        refine SafeR.mono (ih _ _ hstep (by omega)) fun r hr => ?_
        exact ⟨hr.1, hr.2.1, hr.2.2.1, by have := hr.2.2.2; omega⟩
      · exact SafeR.pure ⟨h.tick, rfl, rfl, Nat.le_refl _⟩
    · exact SafeR.pure ⟨h, rfl, rfl, Nat.le_refl _⟩

theorem bubbleUpMaxLoop_to (n idx : Nat) (priority : P) (fuel : Nat) : ∀ (s : Store P) (hole : Nat), Hole s n hole idx →
    hole < fuel →
    SafeR (fun r => Hole r.1 n r.2 idx ∧ r.1.map = s.map ∧ r.1.size = s.size ∧ r.2 ≤ hole)
      (bubbleUpMaxLoop fuel s hole priority) := by
  induction fuel with
  | zero => intro s hole _ hf; omega
  | succ fuel ih =>
    intro s hole h hf
    have hhn := h.hole_lt
    unfold bubbleUpMaxLoop
    split
    · rename_i hpos
      have hgp : parent (parent hole) < hole := by simp only [parent] at hpos ⊢; omega
      dsimp only
      refine SafeR.bind (prioAt_to (by rw [h.heap_size]; omega)) fun gpp _ => ?_
      split
      · refine SafeR.bind (getU_to 323 (by show _ < s.heap.size; rw [h.heap_size]; omega)) fun gpi hgpi => ?_
        have hgpi' : s.heap[parent (parent hole)]? = some gpi := hgpi
        have hgpin : gpi < n := by
          obtain ⟨j, hj, hjn⟩ := h.heap_some (p := parent (parent hole)) (by omega) (by omega)
          rw [hgpi'] at hj; cases hj; exact hjn
        refine SafeR.bind (setU_to gpi 324 (by show _ < s.heap.size; rw [h.heap_size]; exact hhn)) fun heap hheap => ?_
        refine SafeR.bind (setU_to hole 325 (by show _ < s.qp.size; rw [h.qp_size]; exact hgpin)) fun qp hqp => ?_
        subst hheap hqp
        have hstep := Hole.step (h.tick (k := 1)) (pp := parent (parent hole)) (pi := gpi) (by omega) (by omega) hgpi'
        refine SafeR.mono (ih _ _ hstep (by omega)) fun r hr => ?_
        exact ⟨hr.1, hr.2.1, hr.2.2.1, by have := hr.2.2.2; omega⟩
      · exact SafeR.pure ⟨h.tick, rfl, rfl, Nat.le_refl _⟩
    · exact SafeR.pure ⟨h, rfl, rfl, Nat.le_refl _⟩

theorem bubbleUpMin_to {s : Store P} {n hole idx : Nat} (h : Hole s n hole idx) (mp : Nat) :
    SafeR (fun r => Hole r.1 n r.2 idx ∧ r.1.map = s.map ∧ r.1.size = s.size ∧ r.2 ≤ hole) (bubbleUpMin s hole mp) := by
  unfold bubbleUpMin
  refine SafeR.bind (unwrapO_to _ 318) fun e _ => ?_
  exact bubbleUpMinLoop_to n idx e.2 (hole + 1) s hole h (by omega)

theorem bubbleUpMax_to {s : Store P} {n hole idx : Nat} (h : Hole s n hole idx) (mp : Nat) :
    SafeR (fun r => Hole r.1 n r.2 idx ∧ r.1.map = s.map ∧ r.1.size = s.size ∧ r.2 ≤ hole) (bubbleUpMax s hole mp) := by
  unfold bubbleUpMax
  refine SafeR.bind (unwrapO_to _ 319) fun e _ => ?_
  exact bubbleUpMaxLoop_to n idx e.2 (hole + 1) s hole h (by omega)

end DQ
end TO
end PQ
