import PQ.Lemmas.Defs
/-!
# Index arithmetic of the implicit binary tree (`left right parent level`), the ancestor relation,
left-spine heights and the linear bound `Σ_{i<n} height n i < n` behind the O(n) cost of Floyd's heap
construction.

All lemmas are about the GENERATED definitions of `PQ/Model/Arith.lean` (nothing is restated) and hold for
arbitrary naturals (no `usize` bound is needed).
-/

namespace PQ.Arith

/-! ## A. Tree shape -/

@[simp] theorem parent_left (i : Nat) : parent (left i) = i := by
  simp only [parent, left]; omega

@[simp] theorem parent_right (i : Nat) : parent (right i) = i := by
  simp only [parent, right]; omega

@[simp] theorem parent_zero : parent 0 = 0 := by decide

theorem left_gt (i : Nat) : i < left i := by simp only [left]; omega
theorem right_gt (i : Nat) : i < right i := by simp only [right]; omega
theorem left_pos (i : Nat) : 0 < left i := by simp only [left]; omega
theorem right_pos (i : Nat) : 0 < right i := by simp only [right]; omega
theorem right_eq (i : Nat) : right i = left i + 1 := by simp only [left, right]
theorem left_lt_right (i : Nat) : left i < right i := by simp only [left, right]; omega
theorem left_ne_right (i j : Nat) : left i ≠ right j := by simp only [left, right]; omega

theorem left_inj {i j : Nat} : left i = left j ↔ i = j := by simp only [left]; omega
theorem right_inj {i j : Nat} : right i = right j ↔ i = j := by simp only [right]; omega
theorem left_lt_left {i j : Nat} : left i < left j ↔ i < j := by simp only [left]; omega
theorem left_mono {i j : Nat} (h : i ≤ j) : left i ≤ left j := by simp only [left]; omega
theorem right_mono {i j : Nat} (h : i ≤ j) : right i ≤ right j := by simp only [right]; omega

theorem parent_lt {i : Nat} (h : 0 < i) : parent i < i := by simp only [parent]; omega
theorem parent_le (i : Nat) : parent i ≤ i := by simp only [parent]; omega
theorem parent_mono {i j : Nat} (h : i ≤ j) : parent i ≤ parent j := by simp only [parent]; omega

theorem left_parent_or {i : Nat} (h : 0 < i) : i = left (parent i) ∨ i = right (parent i) := by
  simp only [parent, left, right]; omega

/-- the parent of a non-root is characterised by the child equations -/
theorem parent_eq_iff {i p : Nat} (h : 0 < i) : parent i = p ↔ i = left p ∨ i = right p := by
  simp only [parent, left, right]; omega

/-- `left i ≤ n ↔ i ≤ parent n` for `1 ≤ n` (false at `n = 0`, `i = 0`: `left 0 = 1 > 0` but `0 ≤ parent 0`) -/
theorem le_parent_iff {i n : Nat} (h : 1 ≤ n) : i ≤ parent n ↔ left i ≤ n := by
  simp only [parent, left]; omega

/-- the right child is in `0..=n` iff `i ≤ parent (n - 1)`, for `2 ≤ n` -/
theorem right_le_iff {i n : Nat} (h : 2 ≤ n) : right i ≤ n ↔ i ≤ parent (n - 1) := by
  simp only [parent, right]; omega

/-- Loop guard of the Rust `heapify_min` (`i <= parent(len - 1)`): for `2 ≤ n` it says exactly that `i` has a
(left) child below `n`.  The side condition `2 ≤ n` is needed: for `n ≤ 1` nobody has a child but
`0 ≤ parent (n - 1) = 0` (see `left_lt_iff_fails_small`). -/
theorem left_lt_iff {i n : Nat} (h : 2 ≤ n) : left i < n ↔ i ≤ parent (n - 1) := by
  simp only [parent, left]; omega

theorem left_lt_iff_fails_small : ¬ (left 0 < 1 ↔ 0 ≤ parent (1 - 1)) := by decide

/-- `parent n` is the last index with a child in `0..=n`: for `1 ≤ n`, `left i < n + 1 ↔ i ≤ parent n`.
The side condition is needed (`n = 0`, `i = 0`). -/
theorem left_lt_succ_iff {i n : Nat} (h : 1 ≤ n) : left i < n + 1 ↔ i ≤ parent n := by
  simp only [parent, left]; omega

/-- Bound of the Rust `heap_build` loop `for i in (0..=parent(len)).rev()`: every `i > parent n` has no child
below `n` — even none at `n` itself.  No side condition is needed. -/
theorem lt_left_of_parent_lt {i n : Nat} (h : parent n < i) : n < left i := by
  simp only [parent, left] at *; omega

theorem le_left_of_parent_lt {i n : Nat} (h : parent n < i) : n ≤ left i :=
  Nat.le_of_lt (lt_left_of_parent_lt h)

/-- for `1 ≤ n` the previous lemma is an equivalence -/
theorem parent_lt_iff {i n : Nat} (h : 1 ≤ n) : parent n < i ↔ n < left i := by
  simp only [parent, left]; omega

/-- a node with a child below `n` is itself below `n`, and so is everything up to `parent (n-1)` -/
theorem lt_of_left_lt {i n : Nat} (h : left i < n) : i < n := Nat.lt_trans (left_gt i) h

theorem left_lt_of_right_lt {i n : Nat} (h : right i < n) : left i < n :=
  Nat.lt_trans (left_lt_right i) h

example : left 3 < 8 ↔ 3 ≤ parent (8 - 1) := left_lt_iff (by decide)
example : parent 7 < 4 ∧ 7 < left 4 := by decide

/-! ## B. Levels -/

theorem level_eq (i : Nat) : level i = Nat.log2 (i + 1) := rfl

@[simp] theorem level_zero : level 0 = 0 := by decide
@[simp] theorem level_one : level 1 = 1 := by decide
@[simp] theorem level_two : level 2 = 1 := by decide

@[simp] theorem level_left (i : Nat) : level (left i) = level i + 1 := by
  simp only [level, log2Fast, left]
  have h : i * 2 + 1 + 1 = 2 * (i + 1) := by omega
  rw [h, Nat.log2_two_mul (by omega)]

@[simp] theorem level_right (i : Nat) : level (right i) = level i + 1 := by
  simp only [level, log2Fast, right]
  rw [Nat.log2_def]
  have h1 : 2 ≤ i * 2 + 2 + 1 := by omega
  have h2 : (i * 2 + 2 + 1) / 2 = i + 1 := by omega
  rw [if_pos h1, h2]

theorem level_parent {i : Nat} (h : 0 < i) : level (parent i) + 1 = level i := by
  rcases left_parent_or h with e | e
  · conv => rhs; rw [e, level_left]
  · conv => rhs; rw [e, level_right]

theorem log2_mono {a b : Nat} (h : a ≤ b) : Nat.log2 a ≤ Nat.log2 b := by
  by_cases ha : a = 0
  · subst ha; have : Nat.log2 0 = 0 := by decide
    omega
  · have hb : b ≠ 0 := by omega
    have h1 : a < 2 ^ (Nat.log2 b + 1) := Nat.lt_of_le_of_lt h Nat.lt_log2_self
    have := (Nat.log2_lt ha).2 h1
    omega

theorem level_mono {i j : Nat} (h : i ≤ j) : level i ≤ level j := by
  simp only [level, log2Fast]; exact log2_mono (by omega)

theorem lt_two_pow_level (i : Nat) : i + 1 < 2 ^ (level i + 1) := by
  simp only [level, log2Fast]; exact Nat.lt_log2_self

theorem two_pow_level_le (i : Nat) : 2 ^ level i ≤ i + 1 := by
  simp only [level, log2Fast]; exact Nat.log2_self_le (by omega)

/-- `level i = k` iff `i + 1` lies in the dyadic block `[2^k, 2^(k+1))` -/
theorem level_eq_iff {i k : Nat} : level i = k ↔ 2 ^ k ≤ i + 1 ∧ i + 1 < 2 ^ (k + 1) := by
  simp only [level, log2Fast]
  have hne : i + 1 ≠ 0 := by omega
  have h1 := @Nat.le_log2 (i + 1) k hne
  have h2 := @Nat.log2_lt (i + 1) (k + 1) hne
  omega

theorem level_pos {i : Nat} (h : 0 < i) : 0 < level i := by
  have := level_parent h; omega

theorem level_eq_zero_iff {i : Nat} : level i = 0 ↔ i = 0 := by
  constructor
  · intro h; by_cases h0 : i = 0
    · exact h0
    · have := level_pos (Nat.pos_of_ne_zero h0); omega
  · intro h; subst h; exact level_zero

/-- `level (n - 1) = log2 n` for `1 ≤ n` (the level of the last position of a heap of `n` elements) -/
theorem level_pred {n : Nat} (h : 1 ≤ n) : level (n - 1) = Nat.log2 n := by
  simp only [level, log2Fast]
  have : n - 1 + 1 = n := by omega
  rw [this]

example : level 6 = 2 ∧ level 7 = 3 := by decide

/-! ## D. Left-spine heights -/

/-- number of edges of the left spine below `i` inside `0..n` (for a heap-shaped tree on `0..n` and `i < n` this is
the height of the subtree rooted at `i`) -/
def height (n : Nat) (i : Nat) : Nat :=
  if left i < n then height n (left i) + 1 else 0
termination_by n - i
decreasing_by
  have := left_gt i
  omega

theorem height_eq (n i : Nat) : height n i = if left i < n then height n (left i) + 1 else 0 := by
  rw [height]

theorem height_of_left_lt {n i : Nat} (h : left i < n) : height n i = height n (left i) + 1 := by
  rw [height_eq, if_pos h]

theorem height_of_not_left_lt {n i : Nat} (h : ¬ left i < n) : height n i = 0 := by
  rw [height_eq, if_neg h]

/-- closed form: the left-spine descendant of `i` at distance `h` is `2^h * (i+1) - 1`, hence
`height n i = ⌊log2 ⌊n / (i+1)⌋⌋` (also for `i ≥ n`, where both sides are `0`) -/
theorem height_eq_log2 (n i : Nat) : height n i = Nat.log2 (n / (i + 1)) := by
  induction hk : n - i using Nat.strongRecOn generalizing i with
  | _ k ih =>
    rw [height_eq, Nat.log2_def]
    have hc : left i < n ↔ 2 ≤ n / (i + 1) := by
      rw [Nat.le_div_iff_mul_le (by omega)]; simp only [left]; omega
    by_cases hl : left i < n
    · rw [if_pos hl, if_pos (hc.1 hl)]
      have hlt : n - left i < k := by have := left_gt i; omega
      rw [ih _ hlt (left i) rfl, Nat.div_div_eq_div_mul]
      have : left i + 1 = (i + 1) * 2 := by simp only [left]; omega
      rw [this]
    · rw [if_neg hl, if_neg (fun h => hl (hc.2 h))]

/-- `height n i ≥ h` iff the left-spine descendant `2^h * (i+1) - 1` at distance `h` is below `n` -/
theorem le_height_iff {n i h : Nat} (hi : i < n) : h ≤ height n i ↔ 2 ^ h * (i + 1) ≤ n := by
  rw [height_eq_log2]
  have hpos : n / (i + 1) ≠ 0 := by
    have : 1 ≤ n / (i + 1) := (Nat.le_div_iff_mul_le (by omega)).2 (by omega)
    omega
  rw [Nat.le_log2 hpos, Nat.le_div_iff_mul_le (by omega)]

theorem height_root (n : Nat) : height n 0 = Nat.log2 n := by
  rw [height_eq_log2]; simp

theorem height_eq_zero_of_le {n i : Nat} (h : n ≤ i) : height n i = 0 := by
  apply height_of_not_left_lt; have := left_gt i; omega

/-- heights decrease to the right (in index order) -/
theorem height_anti (n : Nat) {i j : Nat} (h : i ≤ j) : height n j ≤ height n i := by
  rw [height_eq_log2, height_eq_log2]
  exact log2_mono (Nat.div_le_div_left (by omega) (by omega))

theorem height_right_le (n i : Nat) : height n (right i) ≤ height n (left i) :=
  height_anti n (Nat.le_of_lt (left_lt_right i))

theorem height_mono_len {n m : Nat} (h : n ≤ m) (i : Nat) : height n i ≤ height m i := by
  rw [height_eq_log2, height_eq_log2]
  exact log2_mono (Nat.div_le_div_right h)

/-- strongest form: level plus left-spine height never exceeds `log2 n` -/
theorem level_add_height_le {n i : Nat} (hi : i < n) : level i + height n i ≤ Nat.log2 n := by
  have hn : n ≠ 0 := by omega
  rw [Nat.le_log2 hn, Nat.pow_add]
  have h1 := two_pow_level_le i
  have h2 := (le_height_iff (h := height n i) hi).1 (Nat.le_refl _)
  calc 2 ^ level i * 2 ^ height n i ≤ (i + 1) * 2 ^ height n i := Nat.mul_le_mul_right _ h1
    _ = 2 ^ height n i * (i + 1) := Nat.mul_comm _ _
    _ ≤ n := h2

theorem height_le_level_sub {n i : Nat} (hi : i < n) : height n i ≤ level (n - 1) - level i := by
  have := level_add_height_le hi
  rw [level_pred (by omega)]; omega

theorem height_le_log (n i : Nat) : height n i ≤ Nat.log2 n := by
  rw [← height_root]; exact height_anti n (Nat.zero_le i)

/-- going to a child below `n` loses at least one unit of height: any downward path from `i` inside `0..n`
has at most `height n i` edges -/
theorem height_child_lt {n d : Nat} (hd : 0 < d) (hdn : d < n) : height n d + 1 ≤ height n (parent d) := by
  rcases left_parent_or hd with e | e
  · have hl : left (parent d) < n := by rw [← e]; exact hdn
    rw [height_of_left_lt hl, ← e]; omega
  · have hr : right (parent d) < n := by rw [← e]; exact hdn
    have hl := left_lt_of_right_lt hr
    have := height_right_le n (parent d)
    rw [height_of_left_lt hl]; rw [← e] at this; omega

/-- heights of a level shift: the height of `left i` in `0..n` is the height of `i` in `0..n/2` -/
theorem height_left_half (n i : Nat) : height n (left i) = height (n / 2) i := by
  rw [height_eq_log2, height_eq_log2, Nat.div_div_eq_div_mul]
  have : left i + 1 = 2 * (i + 1) := by simp only [left]; omega
  rw [this]

example : height 10 0 = 3 ∧ height 10 1 = 2 ∧ height 10 2 = 1 ∧ height 10 4 = 1 ∧ height 10 5 = 0 := by
  simp only [height_eq_log2]; decide

/-! ### The linear bound `Σ_{i<n} height n i < n` -/

/-- sums over `List.range` (helper vocabulary of this section) -/
theorem sum_range_succ (f : Nat → Nat) (n : Nat) :
    ((List.range (n + 1)).map f).sum = ((List.range n).map f).sum + f n := by
  simp [List.range_succ]

theorem sum_range_congr {f g : Nat → Nat} {n : Nat} (h : ∀ i, i < n → f i = g i) :
    ((List.range n).map f).sum = ((List.range n).map g).sum := by
  induction n with
  | zero => rfl
  | succ n ih =>
    rw [sum_range_succ, sum_range_succ, ih (fun i hi => h i (by omega)), h n (by omega)]

theorem sum_range_zero_tail {f : Nat → Nat} {m n : Nat} (hmn : m ≤ n)
    (h : ∀ i, m ≤ i → i < n → f i = 0) :
    ((List.range n).map f).sum = ((List.range m).map f).sum := by
  induction n with
  | zero => have : m = 0 := by omega
            subst this; rfl
  | succ n ih =>
    by_cases e : m = n + 1
    · subst e; rfl
    · rw [sum_range_succ, ih (by omega) (fun i h1 h2 => h i h1 (by omega)), h n (by omega) (by omega)]
      rfl

theorem sum_range_add_one (g : Nat → Nat) (m : Nat) :
    ((List.range m).map (fun i => g i + 1)).sum = ((List.range m).map g).sum + m := by
  induction m with
  | zero => rfl
  | succ m ih => rw [sum_range_succ, sum_range_succ, ih]; omega

theorem foldl_add_eq_sum (f : Nat → Nat) (l : List Nat) (a : Nat) :
    l.foldl (fun acc i => acc + f i) a = a + (l.map f).sum := by
  induction l generalizing a with
  | nil => simp
  | cons x xs ih => simp only [List.foldl_cons, List.map_cons, List.sum_cons, ih]; omega

/-- halving recursion of the total height: `S(n) = S(n/2) + n/2` -/
theorem sum_height_half (n : Nat) :
    ((List.range n).map (height n)).sum = ((List.range (n / 2)).map (height (n / 2))).sum + n / 2 := by
  have h1 : ((List.range n).map (height n)).sum = ((List.range (n / 2)).map (height n)).sum :=
    sum_range_zero_tail (by omega) (fun i h1 _ => by
      apply height_of_not_left_lt; simp only [left]; omega)
  have h2 : ((List.range (n / 2)).map (height n)).sum
      = ((List.range (n / 2)).map (fun i => height (n / 2) i + 1)).sum :=
    sum_range_congr (fun i hi => by
      have hl : left i < n := by simp only [left]; omega
      rw [height_of_left_lt hl, height_left_half])
  rw [h1, h2, sum_range_add_one]

/-- **total left-spine height is below the number of nodes** (strict form, `n ≥ 1`) -/
theorem sum_height_lt {n : Nat} (hn : 0 < n) : ((List.range n).map (height n)).sum < n := by
  induction n using Nat.strongRecOn with
  | _ n ih =>
    rw [sum_height_half]
    by_cases h2 : n / 2 = 0
    · rw [h2]; simpa using hn
    · have := ih (n / 2) (by omega) (by omega)
      omega

/-- **Σ_{i<n} height n i ≤ n**: the linear bound behind the O(n) cost of Floyd's heap construction -/
theorem sum_height_le (n : Nat) : ((List.range n).map (height n)).sum ≤ n := by
  by_cases hn : n = 0
  · subst hn; simp
  · exact Nat.le_of_lt (sum_height_lt (by omega))

/-- the same bound in accumulator form -/
theorem sum_height_le_foldl (n : Nat) :
    (List.range n).foldl (fun acc i => acc + height n i) 0 ≤ n := by
  rw [foldl_add_eq_sum, Nat.zero_add]; exact sum_height_le n

theorem sum_height_lt_foldl {n : Nat} (hn : 0 < n) :
    (List.range n).foldl (fun acc i => acc + height n i) 0 < n := by
  rw [foldl_add_eq_sum, Nat.zero_add]; exact sum_height_lt hn

example : ((List.range 10).map (height 10)).sum = 8 := by
  rw [funext (height_eq_log2 10)]; decide

/-! ## E. `betterToRebuild` -/

theorem two_le_of_betterToRebuild {len1 len2 : Nat} (h : betterToRebuild len1 len2 = true) : 2 ≤ len1 := by
  simp only [betterToRebuild] at h
  by_cases h1 : len1 ≤ 1
  · simp [h1] at h
  · omega

@[simp] theorem betterToRebuild_zero (len1 : Nat) : betterToRebuild len1 0 = false := by
  simp [betterToRebuild, satMul]

example : betterToRebuild 16 100 = true := by decide

end PQ.Arith

namespace PQ
open Arith

/-! ## C. Ancestors -/

theorem Anc.pos {a d : Nat} (h : Anc a d) : 0 < d := by
  cases h with
  | parent hd => exact hd
  | step hd _ => exact hd

theorem Anc.lt {a d : Nat} (h : Anc a d) : a < d := by
  induction h with
  | parent hd => exact parent_lt hd
  | step hd _ ih => exact Nat.lt_trans ih (parent_lt hd)

theorem not_anc_self (a : Nat) : ¬ Anc a a := fun h => Nat.lt_irrefl _ h.lt

theorem Anc.ne {a d : Nat} (h : Anc a d) : a ≠ d := Nat.ne_of_lt h.lt

theorem Anc.level_lt {a d : Nat} (h : Anc a d) : level a < level d := by
  induction h with
  | parent hd => have := level_parent hd; omega
  | step hd _ ih => have := level_parent hd; omega

theorem Anc.trans {a b c : Nat} (h1 : Anc a b) (h2 : Anc b c) : Anc a c := by
  induction h2 with
  | parent hd => exact Anc.step hd h1
  | step hd _ ih => exact Anc.step hd (ih h1)

theorem Anc.asymm {a d : Nat} (h : Anc a d) : ¬ Anc d a := fun h' => not_anc_self a (h.trans h')

theorem Anc.of_left (i : Nat) : Anc i (left i) := by
  have := Anc.parent (left_pos i); rwa [parent_left] at this

theorem Anc.of_right (i : Nat) : Anc i (right i) := by
  have := Anc.parent (right_pos i); rwa [parent_right] at this

theorem Anc.left_step {a i : Nat} (h : Anc a i) : Anc a (left i) := h.trans (Anc.of_left i)
theorem Anc.right_step {a i : Nat} (h : Anc a i) : Anc a (right i) := h.trans (Anc.of_right i)

/-- bottom-up view (`0 < d` is implied by `Anc a d`, see `Anc.pos`) -/
theorem Anc.cases_child {a d : Nat} (h : Anc a d) : a = Arith.parent d ∨ Anc a (Arith.parent d) := by
  cases h with
  | parent _ => exact Or.inl rfl
  | step _ h' => exact Or.inr h'

theorem anc_iff {a d : Nat} : Anc a d ↔ 0 < d ∧ (a = parent d ∨ Anc a (parent d)) := by
  constructor
  · intro h; exact ⟨h.pos, h.cases_child⟩
  · rintro ⟨hd, h | h⟩
    · subst h; exact Anc.parent hd
    · exact Anc.step hd h

/-- ancestors of a child of `i` are `i` and the ancestors of `i` -/
theorem anc_left_iff {a i : Nat} : Anc a (left i) ↔ a = i ∨ Anc a i := by
  rw [anc_iff, parent_left]; simp [left_pos]

theorem anc_right_iff {a i : Nat} : Anc a (right i) ↔ a = i ∨ Anc a i := by
  rw [anc_iff, parent_right]; simp [right_pos]

/-- top-down view: a strict descendant of `a` is a child of `a` or a strict descendant of a child -/
theorem Anc.cases_top {a d : Nat} (h : Anc a d) :
    d = left a ∨ d = right a ∨ Anc (left a) d ∨ Anc (right a) d := by
  induction h with
  | parent hd => rcases left_parent_or hd with e | e
                 · exact Or.inl e
                 · exact Or.inr (Or.inl e)
  | @step a d hd _ ih =>
    rcases ih with ih | ih | ih | ih
    · right; right; left; have := Anc.parent hd; rwa [ih] at this
    · right; right; right; have := Anc.parent hd; rwa [ih] at this
    · right; right; left; exact Anc.step hd ih
    · right; right; right; exact Anc.step hd ih

/-- the root is an ancestor of everything else -/
theorem Anc.zero {d : Nat} (h : 0 < d) : Anc 0 d := by
  induction d using Nat.strongRecOn with
  | _ d ih =>
    by_cases h1 : Arith.parent d = 0
    · have := Anc.parent h; rwa [h1] at this
    · exact Anc.step h (ih (Arith.parent d) (parent_lt h) (by omega))

theorem not_anc_zero (a : Nat) : ¬ Anc a 0 := fun h => Nat.lt_irrefl _ h.pos

/-- the ancestors of a node form a chain -/
theorem Anc.chain {a b d : Nat} (ha : Anc a d) (hb : Anc b d) : a = b ∨ Anc a b ∨ Anc b a := by
  induction ha generalizing b with
  | parent hd =>
    cases hb with
    | parent _ => exact Or.inl rfl
    | step _ h => exact Or.inr (Or.inr h)
  | step hd h ih =>
    cases hb with
    | parent _ => exact Or.inr (Or.inl h)
    | step _ h' => exact ih h'

/-- two ancestors on the same level coincide -/
theorem Anc.eq_of_level_eq {a b d : Nat} (ha : Anc a d) (hb : Anc b d) (hl : level a = level b) : a = b := by
  rcases ha.chain hb with h | h | h
  · exact h
  · have := h.level_lt; omega
  · have := h.level_lt; omega

/-- along a downward path inside `0..n`, height plus level does not increase: a descendant `d < n` of `a` is at most
`height n a` levels below `a` -/
theorem Anc.level_add_height_le {a d n : Nat} (h : Anc a d) (hd : d < n) :
    level d + height n d ≤ level a + height n a := by
  induction h with
  | parent hd0 =>
    have := height_child_lt hd0 hd
    have := level_parent hd0
    omega
  | step hd0 h' ih =>
    have h1 := height_child_lt hd0 hd
    have h2 := level_parent hd0
    have := ih (Nat.lt_trans (parent_lt hd0) hd)
    omega

theorem Anc.level_le_add_height {a d n : Nat} (h : Anc a d) (hd : d < n) :
    level d ≤ level a + height n a := by
  have := h.level_add_height_le hd; omega

example : Anc 1 9 := by
  have h4 : Anc 1 4 := Anc.of_right 1
  exact h4.left_step
example : ¬ Anc 2 9 := by
  intro h
  have h1 : Anc 1 9 := (Anc.of_right 1).left_step
  have := h.eq_of_level_eq h1 (by decide)
  omega

end PQ
