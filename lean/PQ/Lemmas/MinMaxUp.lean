import PQ.Lemmas.MinMaxDefs
/-!
# Sift-up of the min-max heap (`bubble_up_min`, `bubble_up_max`, `bubble_up`) and `push`'s use of it

Part A is pure order reasoning about a *total* priority function `F : Nat → P` on positions and the transposition a
loop step performs on it; Part B ties it to the model loops through the moving-hole machinery of `SiftUp.lean`.
-/
set_option linter.unusedSimpArgs false
set_option linter.unusedSectionVars false
set_option linter.unusedVariables false
namespace PQ
open Arith Store
variable {P : Type} [LT P] [DecidableLT P] [LE P] [Std.IsLinearPreorder P] [Std.LawfulOrderLT P]

namespace Up

/-! ## A. Order reasoning on total priority functions -/

/-- `Store.Rel` for a total priority function -/
def RelT (F : Nat → P) (a d : Nat) : Prop := if level a % 2 = 0 then ¬ F d < F a else ¬ F a < F d

/-- `F` after exchanging what positions `a` and `b` hold -/
def tr (F : Nat → P) (a b : Nat) (p : Nat) : P := F (swapPos a b p)

/-- what the sift-up establishes: every pair whose upper node is not `i` is in order -/
def Final (n i : Nat) (F : Nat → P) : Prop := ∀ a d, Anc a d → d < n → a ≠ i → RelT F a d

/-- invariant of a chain climb (the travelling priority is `F q`, sitting in the hole `q`) that started at `i` or at
the parent of `i` -/
structure ChainInv (n i : Nat) (F : Nat → P) (q : Nat) : Prop where
  qlt : q < n
  pos : q = i ∨ Anc q i
  /-- all pairs whose lower node is not the hole (and whose upper node is not `i`) -/
  I1 : ∀ a d, Anc a d → d < n → a ≠ i → d ≠ q → RelT F a d
  /-- ancestors of the hole on the levels of the other kind -/
  I2 : ∀ m, Anc m q → level m % 2 ≠ level q % 2 → RelT F m q

theorem anc_gp {q : Nat} (h1 : 0 < q) (h2 : 0 < parent q) : Anc (parent (parent q)) q :=
  Anc.step h1 (Anc.parent h2)

theorem anc_cases_gp {a q : Nat} (h : Anc a q) : a = parent q ∨ (0 < parent q ∧ (a = parent (parent q) ∨ Anc a (parent (parent q)))) := by
  rcases h.cases_child with h | h
  · exact Or.inl h
  · exact Or.inr ⟨h.pos, h.cases_child⟩

theorem level_gp {q : Nat} (h1 : 0 < q) (h2 : 0 < parent q) : level (parent (parent q)) + 2 = level q := by
  have := level_parent h1; have := level_parent h2; omega

/-- one step of a chain climb: the grandparent is on the wrong side of the travelling priority -/
theorem ChainInv.step {n i q : Nat} {F : Nat → P} (h : ChainInv n i F q) (h1 : 0 < q) (h2 : 0 < parent q)
    (hw : if level q % 2 = 0 then F q < F (parent (parent q)) else F (parent (parent q)) < F q) :
    ChainInv n i (tr F q (parent (parent q))) (parent (parent q)) := by
  have hg : Anc (parent (parent q)) q := anc_gp h1 h2
  have hgp : Anc (parent (parent q)) (parent q) := Anc.parent h2
  have hpq : Anc (parent q) q := Anc.parent h1
  have hlg := level_gp h1 h2
  have hlp := level_parent h1
  generalize hgdef : parent (parent q) = g at *
  have hgq : g < q := hg.lt
  have hgpq : g < parent q := hgp.lt
  have hpqq : parent q < q := hpq.lt
  have hqi : q ≤ i := by rcases h.pos with e | e
                         · omega
                         · exact Nat.le_of_lt e.lt
  have hgi : g ≠ i := by omega
  refine ⟨by have := h.qlt; omega, ?_, ?_, ?_⟩
  · rcases h.pos with e | e
    · subst e; exact Or.inr hg
    · exact Or.inr (hg.trans e)
  · intro a d had hd hai hdg
    simp only [RelT, tr]
    by_cases hdq : d = q
    · subst hdq
      rcases anc_cases_gp had with e | ⟨_, e | e⟩
      · -- a = parent d
        have r := h.I1 g (parent d) hgp (by have := h.qlt; omega) hgi (by omega)
        have e1 : swapPos d g a = a := by unfold swapPos; rw [if_neg (by omega), if_neg (by omega)]
        have e2 : swapPos d g d = g := by unfold swapPos; rw [if_pos rfl]
        rw [e1, e2]; subst e
        unfold RelT at r
        grind
      · -- a = g
        rw [hgdef] at e; subst e
        have e1 : swapPos d a a = d := by unfold swapPos; rw [if_neg (by omega), if_pos rfl]
        have e2 : swapPos d a d = a := by unfold swapPos; rw [if_pos rfl]
        rw [e1, e2]
        grind
      · rw [hgdef] at e
        have r := h.I1 a g e (by have := h.qlt; omega) hai (by omega)
        have := e.lt
        have e1 : swapPos d g a = a := by unfold swapPos; rw [if_neg (by omega), if_neg (by omega)]
        have e2 : swapPos d g d = g := by unfold swapPos; rw [if_pos rfl]
        rw [e1, e2]
        exact r
    · have e2 : swapPos q g d = d := by unfold swapPos; rw [if_neg hdq, if_neg hdg]
      rw [e2]
      by_cases hag : a = g
      · subst hag
        have e1 : swapPos q a a = q := by unfold swapPos; rw [if_neg (by omega), if_pos rfl]
        rw [e1]
        have r := h.I1 a d had hd hgi hdq
        unfold RelT at r
        grind
      · by_cases haq : a = q
        · subst haq
          have e1 : swapPos a g a = g := by unfold swapPos; rw [if_pos rfl]
          rw [e1]
          have r := h.I1 g d (hg.trans had) hd hgi hdq
          unfold RelT at r
          grind
        · have e1 : swapPos q g a = a := by unfold swapPos; rw [if_neg haq, if_neg hag]
          rw [e1]
          exact h.I1 a d had hd hai hdq
  · intro m hm hl
    have hmq := hm.trans hg
    have := hm.lt
    have e1 : swapPos q g m = m := by unfold swapPos; rw [if_neg (by omega), if_neg (by omega)]
    have e2 : swapPos q g g = q := by unfold swapPos; rw [if_neg (by omega), if_pos rfl]
    have r := h.I2 m hmq (by omega)
    simp only [RelT, tr] at r ⊢
    rw [e1, e2]; exact r

/-- the climb stops: no grandparent, or the grandparent is on the right side -/
theorem ChainInv.final {n i q : Nat} {F : Nat → P} (h : ChainInv n i F q)
    (hstop : 0 < q → 0 < parent q →
      ¬ (if level q % 2 = 0 then F q < F (parent (parent q)) else F (parent (parent q)) < F q)) :
    Final n i F := by
  intro a d had hd hai
  by_cases hdq : d = q
  · subst hdq
    by_cases hl : level a % 2 = level d % 2
    · rcases anc_cases_gp had with e | ⟨h2, e⟩
      · have := level_parent had.pos; rw [← e] at this; omega
      · have h1 := had.pos
        have hs := hstop h1 h2
        have hlg := level_gp h1 h2
        have hgq := (anc_gp h1 h2).lt
        have hqi : d ≤ i := by rcases h.pos with e | e
                               · omega
                               · exact Nat.le_of_lt e.lt
        rcases e with e | e
        · subst e; unfold RelT; grind
        · have r := h.I1 a _ e (by omega) hai (by omega)
          have := e.level_lt
          unfold RelT at r ⊢
          grind
    · exact h.I2 a had hl
  · exact h.I1 a d had hd hai hdq

/-- start of a climb at `i` itself: the comparison with the parent went the non-crossing way -/
theorem ChainInv.init_same {n i : Nat} {F : Nat → P} (hi : i < n)
    (hpre : ∀ a d, Anc a d → d < n → a ≠ i → d ≠ i → RelT F a d)
    (hpar : 0 < i → RelT F (parent i) i) : ChainInv n i F i := by
  refine ⟨hi, Or.inl rfl, hpre, ?_⟩
  intro m hm hl
  have h0 := hm.pos
  have hp := hpar h0
  have hlp := level_parent h0
  rcases hm.cases_child with e | e
  · subst e; exact hp
  · have r := hpre m (parent i) e (by have := parent_lt h0; omega) (by have := hm.lt; omega) (by have := parent_lt h0; omega)
    simp only [RelT] at r hp ⊢
    grind

/-- start of a climb at the parent of `i` after a crossing: the parent's value moved down to `i` -/
theorem ChainInv.init_cross {n i : Nat} {F : Nat → P} (hi : i < n) (h0 : 0 < i)
    (hpre : ∀ a d, Anc a d → d < n → a ≠ i → d ≠ i → RelT F a d)
    (hc : if level i % 2 = 0 then F (parent i) < F i else ¬ F (parent i) < F i) :
    ChainInv n i (tr F i (parent i)) (parent i) := by
  have hpi := parent_lt h0
  have hlp := level_parent h0
  have hanc : Anc (parent i) i := Anc.parent h0
  generalize hpdef : parent i = p at *
  refine ⟨by omega, Or.inr hanc, ?_, ?_⟩
  · intro a d had hd hai hdp
    simp only [RelT, tr]
    by_cases hdi : d = i
    · subst hdi
      have e2 : swapPos d p d = p := by unfold swapPos; rw [if_pos rfl]
      rw [e2]
      rcases had.cases_child with e | e
      · rw [hpdef] at e; subst e
        have e1 : swapPos d a a = d := by unfold swapPos; rw [if_neg (by omega), if_pos rfl]
        rw [e1]
        grind
      · rw [hpdef] at e
        have := e.lt
        have e1 : swapPos d p a = a := by unfold swapPos; rw [if_neg (by omega), if_neg (by omega)]
        rw [e1]
        exact hpre a p e (by omega) hai (by omega)
    · have e2 : swapPos i p d = d := by unfold swapPos; rw [if_neg hdi, if_neg hdp]
      rw [e2]
      by_cases hap : a = p
      · subst hap
        have e1 : swapPos i a a = i := by unfold swapPos; rw [if_neg (by omega), if_pos rfl]
        rw [e1]
        have r := hpre a d had hd hai hdi
        simp only [RelT] at r
        grind
      · have e1 : swapPos i p a = a := by unfold swapPos; rw [if_neg hai, if_neg hap]
        rw [e1]
        exact hpre a d had hd hai hdi
  · intro m hm hl
    have := hm.lt
    have e1 : swapPos i p m = m := by unfold swapPos; rw [if_neg (by omega), if_neg (by omega)]
    have e2 : swapPos i p p = i := by unfold swapPos; rw [if_neg (by omega), if_pos rfl]
    have r := hpre m p hm (by omega) (by omega) (by omega)
    simp only [RelT, tr] at r ⊢
    rw [e1, e2]
    grind

/-! ## B. The model loops -/

/-- the total priority function "as if `v` sat in the hole" (positions outside the tables read `v`) -/
def FH (s : Store P) (hole : Nat) (v : P) (p : Nat) : P := (s.prH hole v p).getD v

theorem FH_hole (s : Store P) (hole : Nat) (v : P) : FH s hole v hole = v := by
  simp [FH, prH]

theorem FH_of_pr {s : Store P} {hole p : Nat} {x : P} (v : P) (hne : p ≠ hole) (hx : s.pr p = some x) : FH s hole v p = x := by
  simp [FH, prH, hne, hx]

theorem FH_tick (s : Store P) (k hole : Nat) (v : P) : FH (s.tick k) hole v = FH s hole v := rfl

theorem FH_step {s : Store P} {n hole idx pp pi : Nat} (h : s.HoleTWF n hole idx) (hne : pp ≠ hole)
    (hpi : s.heap[pp]? = some pi) (v : P) :
    FH ({ s with heap := s.heap.setIfInBounds hole pi, qp := s.qp.setIfInBounds pi hole } : Store P) pp v =
      tr (FH s hole v) hole pp := by
  funext p
  simp only [FH, tr, prH_step h hne hpi v p]

/-- what a `HoleTWF` store holds at a position other than the hole -/
theorem hole_read {s : Store P} {n hole idx p : Nat} (h : s.HoleTWF n hole idx) (hp : p < n) (hne : p ≠ hole) :
    ∃ pi e, s.heap[p]? = some pi ∧ pi < n ∧ s.map[pi]? = some e ∧ s.pr p = some e.2 ∧ s.prioAt p = .ok e.2 := by
  obtain ⟨pi, _, h1, h2⟩ := h.heap_qp p hp hne
  have hpin : pi < n := by have := lt_size_of_getElem? h2; rw [h.qp_size] at this; exact this
  have hm : pi < s.map.size := by rw [h.map_size]; exact hpin
  have hpr : s.pr p = some (s.map[pi]).2 := by simp [Store.pr, h1, hm]
  exact ⟨pi, s.map[pi], h1, hpin, by simp [hm], hpr, prioAt_eq_ok_iff.mpr hpr⟩

theorem bubbleUpMaxLoop_spec (n idx : Nat) (v : P) (fuel : Nat) : ∀ (s : Store P) (q : Nat), s.HoleTWF n q idx → q < fuel →
    ∃ s' pos, DQ.bubbleUpMaxLoop fuel s q v = .ok (s', pos) ∧ s'.HoleTWF n pos idx ∧ s'.map = s.map ∧ s'.size = s.size ∧
      (pos = q ∨ Anc pos q) ∧
      (∀ i, level q % 2 = 1 → ChainInv n i (FH s q v) q → Final n i (FH s' pos v)) := by
  induction fuel with
  | zero => intro s q _ hf; omega
  | succ fuel ih =>
    intro s q h hf
    by_cases hc : q > 0 ∧ parent q > 0
    · obtain ⟨h1, h2⟩ := hc
      have hg : Anc (parent (parent q)) q := anc_gp h1 h2
      have hgq := hg.lt
      have hqn := h.hole_lt
      obtain ⟨gpi, eg, hgpi, hgpin, hmap, hpr, hprio⟩ := hole_read h (p := parent (parent q)) (by omega) (by omega)
      by_cases hlt : eg.2 < v
      · have hstep := HoleTWF.step (h.tick (k := 1)) (pp := parent (parent q)) (by omega) (by omega) hgpi
        obtain ⟨s', pos, hrun, hH, hm, hsz, hpos, hfin⟩ := ih _ (parent (parent q)) hstep (by omega)
        refine ⟨s', pos, ?_, hH, hm, hsz, ?_, ?_⟩
        · have hq1 : q < s.heap.size := by rw [h.heap_size]; exact hqn
          have hq2 : gpi < s.qp.size := by rw [h.qp_size]; exact hgpin
          simp only [DQ.bubbleUpMaxLoop]
          rw [if_pos ⟨h1, h2⟩]
          simp only [hprio, bind, Except.bind, tick_heap, tick_qp, if_pos hlt, getU_ok hgpi, setU_ok _ hq1, setU_ok _ hq2]
          exact hrun
        · rcases hpos with e | e
          · rw [e]; exact Or.inr hg
          · exact Or.inr (e.trans hg)
        · intro i hl hci
          apply hfin i (by have := level_gp h1 h2; omega)
          have := FH_step (h.tick (k := 1)) (pp := parent (parent q)) (by omega) hgpi v
          rw [this, FH_tick]
          apply hci.step h1 h2
          rw [if_neg (by omega), FH_hole, FH_of_pr v (by omega) hpr]
          exact hlt
      · refine ⟨s.tick, q, ?_, h.tick, rfl, rfl, Or.inl rfl, ?_⟩
        · simp only [DQ.bubbleUpMaxLoop]
          rw [if_pos ⟨h1, h2⟩]
          simp only [hprio, bind, Except.bind, if_neg hlt, pure, Except.pure]
        · intro i hl hci
          rw [FH_tick]
          apply hci.final
          intro _ _
          rw [if_neg (by omega), FH_hole, FH_of_pr v (by omega) hpr]
          exact hlt
    · refine ⟨s, q, ?_, h, rfl, rfl, Or.inl rfl, ?_⟩
      · simp only [DQ.bubbleUpMaxLoop]
        rw [if_neg hc]; rfl
      · intro i hl hci
        apply hci.final
        intro h1 h2; exact absurd ⟨h1, h2⟩ hc

theorem bubbleUpMinLoop_spec (n idx : Nat) (v : P) (fuel : Nat) : ∀ (s : Store P) (q : Nat), s.HoleTWF n q idx → q < fuel →
    ∃ s' pos, DQ.bubbleUpMinLoop fuel s q v = .ok (s', pos) ∧ s'.HoleTWF n pos idx ∧ s'.map = s.map ∧ s'.size = s.size ∧
      (pos = q ∨ Anc pos q) ∧
      (∀ i, level q % 2 = 0 → ChainInv n i (FH s q v) q → Final n i (FH s' pos v)) := by
  induction fuel with
  | zero => intro s q _ hf; omega
  | succ fuel ih =>
    intro s q h hf
    by_cases hc : q > 0 ∧ parent q > 0
    · obtain ⟨h1, h2⟩ := hc
      have hg : Anc (parent (parent q)) q := anc_gp h1 h2
      have hgq := hg.lt
      have hqn := h.hole_lt
      obtain ⟨gpi, eg, hgpi, hgpin, hmap, hpr, hprio⟩ := hole_read h (p := parent (parent q)) (by omega) (by omega)
      by_cases hlt : v < eg.2
      · have hstep := HoleTWF.step (h.tick (k := 1)) (pp := parent (parent q)) (by omega) (by omega) hgpi
        obtain ⟨s', pos, hrun, hH, hm, hsz, hpos, hfin⟩ := ih _ (parent (parent q)) hstep (by omega)
        refine ⟨s', pos, ?_, hH, hm, hsz, ?_, ?_⟩
        · have hq1 : q < s.heap.size := by rw [h.heap_size]; exact hqn
          have hq2 : gpi < s.qp.size := by rw [h.qp_size]; exact hgpin
          simp only [DQ.bubbleUpMinLoop]
          rw [if_pos ⟨h1, h2⟩]
          simp only [hprio, bind, Except.bind, tick_heap, tick_qp, if_pos hlt, getU_ok hgpi, setU_ok _ hq1, setU_ok _ hq2]
          exact hrun
        · rcases hpos with e | e
          · rw [e]; exact Or.inr hg
          · exact Or.inr (e.trans hg)
        · intro i hl hci
          apply hfin i (by have := level_gp h1 h2; omega)
          have := FH_step (h.tick (k := 1)) (pp := parent (parent q)) (by omega) hgpi v
          rw [this, FH_tick]
          apply hci.step h1 h2
          rw [if_pos hl, FH_hole, FH_of_pr v (by omega) hpr]
          exact hlt
      · refine ⟨s.tick, q, ?_, h.tick, rfl, rfl, Or.inl rfl, ?_⟩
        · simp only [DQ.bubbleUpMinLoop]
          rw [if_pos ⟨h1, h2⟩]
          simp only [hprio, bind, Except.bind, if_neg hlt, pure, Except.pure]
        · intro i hl hci
          rw [FH_tick]
          apply hci.final
          intro _ _
          rw [if_pos hl, FH_hole, FH_of_pr v (by omega) hpr]
          exact hlt
    · refine ⟨s, q, ?_, h, rfl, rfl, Or.inl rfl, ?_⟩
      · simp only [DQ.bubbleUpMinLoop]
        rw [if_neg hc]; rfl
      · intro i hl hci
        apply hci.final
        intro h1 h2; exact absurd ⟨h1, h2⟩ hc

theorem bubbleUpMax_spec {n idx : Nat} {e : Item × P} {s : Store P} {q : Nat} (h : s.HoleTWF n q idx) (he : s.map[idx]? = some e) :
    ∃ s' pos, DQ.bubbleUpMax s q idx = .ok (s', pos) ∧ s'.HoleTWF n pos idx ∧ s'.map = s.map ∧ s'.size = s.size ∧
      (pos = q ∨ Anc pos q) ∧
      (∀ i, level q % 2 = 1 → ChainInv n i (FH s q e.2) q → Final n i (FH s' pos e.2)) := by
  obtain ⟨s', pos, hrun, rest⟩ := bubbleUpMaxLoop_spec n idx e.2 (q + 1) s q h (by omega)
  refine ⟨s', pos, ?_, rest⟩
  simp only [DQ.bubbleUpMax, IMap.getIndex, he, unwrapO, bind, Except.bind]
  exact hrun

theorem bubbleUpMin_spec {n idx : Nat} {e : Item × P} {s : Store P} {q : Nat} (h : s.HoleTWF n q idx) (he : s.map[idx]? = some e) :
    ∃ s' pos, DQ.bubbleUpMin s q idx = .ok (s', pos) ∧ s'.HoleTWF n pos idx ∧ s'.map = s.map ∧ s'.size = s.size ∧
      (pos = q ∨ Anc pos q) ∧
      (∀ i, level q % 2 = 0 → ChainInv n i (FH s q e.2) q → Final n i (FH s' pos e.2)) := by
  obtain ⟨s', pos, hrun, rest⟩ := bubbleUpMinLoop_spec n idx e.2 (q + 1) s q h (by omega)
  refine ⟨s', pos, ?_, rest⟩
  simp only [DQ.bubbleUpMin, IMap.getIndex, he, unwrapO, bind, Except.bind]
  exact hrun

/-- the parent comparison of `bubble_up` (everything between reading the priority and the final write) -/
def mid (s : Store P) (position mapPosition : Nat) (priority : P) : R (Store P × Nat) :=
  if position > 0 then do
    let par := parent position
    let pp ← s.prioAt par
    let parentIndex ← getU s.heap par 311
    let s := s.tick
    match decide (level position % 2 = 0), decide (pp < priority) with
    | true, true => do
      let heap ← setU s.heap position parentIndex 312
      let qp ← setU s.qp parentIndex position 313
      DQ.bubbleUpMax { s with heap := heap, qp := qp } par mapPosition
    | true, false => DQ.bubbleUpMin s position mapPosition
    | false, true => DQ.bubbleUpMax s position mapPosition
    | false, false => do
      let heap ← setU s.heap position parentIndex 314
      let qp ← setU s.qp parentIndex position 315
      DQ.bubbleUpMin { s with heap := heap, qp := qp } par mapPosition
  else pure (s, position)

theorem bubbleUp_eq (s : Store P) (i idx : Nat) : DQ.bubbleUp s i idx = (do
    let e ← unwrapO (s.map.getIndex idx) 310
    let (s, position) ← mid s i idx e.2
    let heap ← setU s.heap position idx 316
    let qp ← setU s.qp idx position 317
    pure ({ s with heap := heap, qp := qp }, position)) := by
  unfold DQ.bubbleUp mid
  cases unwrapO (s.map.getIndex idx) 310 with
  | error f => rfl
  | ok e =>
    simp only [bind, Except.bind]
    split
    · cases s.prioAt (parent i) with
      | error f => rfl
      | ok pp =>
        dsimp only
        cases getU s.heap (parent i) 311 with
        | error f => rfl
        | ok pi =>
          dsimp only
          cases decide (level i % 2 = 0) <;> cases decide (pp < e.2) <;> dsimp only
          · cases setU s.tick.heap i pi 314 with
            | error f => rfl
            | ok heap =>
              dsimp only
              cases setU s.tick.qp pi i 315 with
              | error f => rfl
              | ok qp => rfl
          · cases setU s.tick.heap i pi 312 with
            | error f => rfl
            | ok heap =>
              dsimp only
              cases setU s.tick.qp pi i 313 with
              | error f => rfl
              | ok qp => rfl
    · rfl

theorem mid_spec {n i idx : Nat} {e : Item × P} {s : Store P} (h : s.HoleTWF n i idx) (he : s.map[idx]? = some e) :
    ∃ s' pos, mid s i idx e.2 = .ok (s', pos) ∧ s'.HoleTWF n pos idx ∧ s'.map = s.map ∧ s'.size = s.size ∧
      (pos = i ∨ Anc pos i) ∧
      ((∀ a d, Anc a d → d < n → a ≠ i → d ≠ i → RelT (FH s i e.2) a d) → Final n i (FH s' pos e.2)) := by
  have hin := h.hole_lt
  by_cases h0 : i > 0
  · have hpi := parent_lt h0
    have hlp := level_parent h0
    have hanc : Anc (parent i) i := Anc.parent h0
    obtain ⟨ppi, ep, hppi, hppin, hmap, hpr, hprio⟩ := hole_read h (p := parent i) (by omega) (by omega)
    have hq1 : i < s.heap.size := by rw [h.heap_size]; exact hin
    have hq2 : ppi < s.qp.size := by rw [h.qp_size]; exact hppin
    have hstep := HoleTWF.step (h.tick (k := 1)) (pp := parent i) (by omega) (by omega) hppi
    have hFstep := FH_step (h.tick (k := 1)) (pp := parent i) (by omega) hppi e.2
    rw [FH_tick] at hFstep
    have hFp : FH s i e.2 (parent i) = ep.2 := FH_of_pr e.2 (by omega) hpr
    have hFi : FH s i e.2 i = e.2 := FH_hole s i e.2
    by_cases hl : level i % 2 = 0
    · by_cases hlt : ep.2 < e.2
      · -- min level, parent smaller: cross to the max chain
        obtain ⟨s', pos, hrun, hH, hm, hsz, hpos, hfin⟩ := bubbleUpMax_spec hstep (e := e) he
        refine ⟨s', pos, ?_, hH, hm, hsz, ?_, ?_⟩
        · simp only [mid]
          rw [if_pos h0]
          simp only [hprio, bind, Except.bind, getU_ok hppi, decide_eq_true hl, decide_eq_true hlt, tick_heap, tick_qp,
            setU_ok _ hq1, setU_ok _ hq2]
          exact hrun
        · rcases hpos with e' | e'
          · rw [e']; exact Or.inr hanc
          · exact Or.inr (e'.trans hanc)
        · intro hpre
          apply hfin i (by omega)
          rw [hFstep]
          apply ChainInv.init_cross hin h0 hpre
          rw [if_pos hl, hFp, hFi]; exact hlt
      · -- min level, parent not smaller: climb the min chain
        obtain ⟨s', pos, hrun, hH, hm, hsz, hpos, hfin⟩ := bubbleUpMin_spec (h.tick (k := 1)) (e := e) he
        refine ⟨s', pos, ?_, hH, hm, hsz, hpos, ?_⟩
        · simp only [mid]
          rw [if_pos h0]
          simp only [hprio, bind, Except.bind, getU_ok hppi, decide_eq_true hl, decide_eq_false hlt]
          exact hrun
        · intro hpre
          apply hfin i hl
          rw [FH_tick]
          apply ChainInv.init_same hin hpre
          intro _
          simp only [RelT]
          rw [if_neg (by omega), hFp, hFi]; exact hlt
    · by_cases hlt : ep.2 < e.2
      · -- max level, parent smaller: climb the max chain
        obtain ⟨s', pos, hrun, hH, hm, hsz, hpos, hfin⟩ := bubbleUpMax_spec (h.tick (k := 1)) (e := e) he
        refine ⟨s', pos, ?_, hH, hm, hsz, hpos, ?_⟩
        · simp only [mid]
          rw [if_pos h0]
          simp only [hprio, bind, Except.bind, getU_ok hppi, decide_eq_false hl, decide_eq_true hlt]
          exact hrun
        · intro hpre
          apply hfin i (by omega)
          rw [FH_tick]
          apply ChainInv.init_same hin hpre
          intro _
          simp only [RelT]
          rw [if_pos (by omega), hFp, hFi]; grind
      · -- max level, parent not smaller: cross to the min chain
        obtain ⟨s', pos, hrun, hH, hm, hsz, hpos, hfin⟩ := bubbleUpMin_spec hstep (e := e) he
        refine ⟨s', pos, ?_, hH, hm, hsz, ?_, ?_⟩
        · simp only [mid]
          rw [if_pos h0]
          simp only [hprio, bind, Except.bind, getU_ok hppi, decide_eq_false hl, decide_eq_false hlt, tick_heap, tick_qp,
            setU_ok _ hq1, setU_ok _ hq2]
          exact hrun
        · rcases hpos with e' | e'
          · rw [e']; exact Or.inr hanc
          · exact Or.inr (e'.trans hanc)
        · intro hpre
          apply hfin i (by omega)
          rw [hFstep]
          apply ChainInv.init_cross hin h0 hpre
          rw [if_neg hl, hFp, hFi]; exact hlt
  · refine ⟨s, i, ?_, h, rfl, rfl, Or.inl rfl, ?_⟩
    · simp only [mid]; rw [if_neg h0]; rfl
    · intro hpre
      apply (ChainInv.init_same hin hpre (fun h => absurd h h0)).final
      intro h1; exact absurd h1 h0

/-- reading the order off the filled store -/
theorem rel_of_fill {s : Store P} {n pos idx i : Nat} {e : Item × P} (h : s.HoleTWF n pos idx) (he : s.map[idx]? = some e)
    (hfin : Final n i (FH s pos e.2)) (a d : Nat) (had : Anc a d) (hd : d < n) (hai : a ≠ i) :
    ({ s with heap := s.heap.setIfInBounds pos idx, qp := s.qp.setIfInBounds idx pos } : Store P).Rel a d := by
  intro x y hx hy
  rw [pr_fill h e he] at hx hy
  have r := hfin a d had hd hai
  have e1 : FH s pos e.2 a = x := by simp [FH, hx]
  have e2 : FH s pos e.2 d = y := by simp [FH, hy]
  simp only [RelT, e1, e2] at r
  exact r

/-- **`bubble_up`**, tables and order in one statement -/
theorem bubbleUp_full {s : Store P} {n i idx : Nat} (h : s.TWF n) (hi : s.heap[i]? = some idx) :
    ∃ s' pos, DQ.bubbleUp s i idx = .ok (s', pos) ∧ s'.TWF n ∧ s'.map = s.map ∧ s'.size = s.size ∧ pos ≤ i ∧
      (pos = i ∨ Anc pos i) ∧
      ((∀ a d, Anc a d → d < n → a ≠ i → d ≠ i → s.Rel a d) → ∀ a d, Anc a d → d < n → a ≠ i → s'.Rel a d) := by
  have hH := h.toHole hi
  obtain ⟨e, he⟩ := h.map_some (h.heap_lt hi)
  obtain ⟨s2, pos, hrun, hH2, hm, hsz, hpos, hfin⟩ := mid_spec hH he
  have he2 : s2.map[idx]? = some e := by rw [hm]; exact he
  have hq1 : pos < s2.heap.size := by rw [hH2.heap_size]; exact hH2.hole_lt
  have hq2 : idx < s2.qp.size := by rw [hH2.qp_size]; exact hH2.idx_lt
  refine ⟨{ s2 with heap := s2.heap.setIfInBounds pos idx, qp := s2.qp.setIfInBounds idx pos }, pos, ?_, hH2.fill, hm, hsz, ?_,
    hpos, ?_⟩
  · rw [bubbleUp_eq]
    simp only [IMap.getIndex, he, unwrapO, bind, Except.bind, hrun, setU_ok _ hq1, setU_ok _ hq2, pure, Except.pure]
  · rcases hpos with e' | e'
    · omega
    · exact Nat.le_of_lt e'.lt
  · intro hpre
    apply rel_of_fill hH2 he2
    apply hfin
    intro a d had hd hai hdi
    have hlt := had.lt
    obtain ⟨x, hx⟩ := h.pr_some (p := a) (by omega)
    obtain ⟨y, hy⟩ := h.pr_some hd
    have r := hpre a d had hd hai hdi x y hx hy
    simp only [RelT, FH_of_pr e.2 hai hx, FH_of_pr e.2 hdi hy]
    exact r

/-! ## C. Decidable checkers (for the non-vacuity examples on concrete stores) -/

/-- a computable over-approximation of `Anc` with fuel -/
def ancB : Nat → Nat → Nat → Bool
  | 0, _, _ => false
  | fuel + 1, a, d => decide (0 < d) && (a == parent d || ancB fuel a (parent d))

theorem ancB_of_anc {a d : Nat} (h : Anc a d) : ∀ fuel, d ≤ fuel → ancB fuel a d = true := by
  induction h with
  | parent hd =>
    intro fuel hf
    cases fuel with
    | zero => omega
    | succ f => simp [ancB, hd]
  | step hd _ ih =>
    intro fuel hf
    cases fuel with
    | zero => omega
    | succ f =>
      have := ih f (by have := parent_lt hd; omega)
      simp [ancB, hd, this]

/-- a computable form of `Store.Rel` -/
def relB (s : Store P) (a d : Nat) : Bool :=
  match s.pr a, s.pr d with
  | some x, some y => if level a % 2 = 0 then !decide (y < x) else !decide (x < y)
  | _, _ => true

theorem rel_of_relB {s : Store P} {a d : Nat} (h : relB s a d = true) : s.Rel a d := by
  intro x y hx hy
  simp only [relB, hx, hy] at h
  split at h <;> rename_i hl
  · rw [if_pos hl]; simpa using h
  · rw [if_neg hl]; simpa using h

/-- all pairs `(a, d)`, `d < n`, selected by `Q` are in order, by a bounded check -/
theorem rel_of_check (s : Store P) (n : Nat) (Q : Nat → Nat → Bool)
    (h : ∀ d, d < n → ∀ a, a < d → (ancB n a d && Q a d) = true → relB s a d = true) :
    ∀ a d, Anc a d → d < n → Q a d = true → s.Rel a d := by
  intro a d had hd hq
  apply rel_of_relB
  apply h d hd a had.lt
  rw [ancB_of_anc had n (by omega), hq]; rfl

theorem twf_of_check {s : Store P} {n : Nat} (h1 : s.map.size = n) (h2 : s.heap.size = n) (h3 : s.qp.size = n)
    (h4 : ∀ p, p < n → (s.heap[p]?).bind (fun i => s.qp[i]?) = some p)
    (h5 : ∀ i, i < n → (s.qp[i]?).bind (fun p => s.heap[p]?) = some i)
    (h6 : ∀ i, i < n → ∀ j, j < n → (s.map[i]?).map (·.1.key) = (s.map[j]?).map (·.1.key) → i = j) : s.TWF n := by
  refine ⟨h1, h2, h3, ?_, ?_, ?_⟩
  · intro p hp
    have := h4 p hp
    rw [Option.bind_eq_some_iff] at this
    exact this
  · intro i hi
    have := h5 i hi
    rw [Option.bind_eq_some_iff] at this
    exact this
  · intro i j a b hi hj hab
    have hi' : i < n := by rw [← h1]; exact lt_size_of_getElem? hi
    have hj' : j < n := by rw [← h1]; exact lt_size_of_getElem? hj
    exact h6 i hi' j hj' (by rw [hi, hj]; simp [hab])

/-- eleven positions, identity tables; priorities by position `[10, 90, 80, 95, 30, 40, 50, 60, 70, 35, 36]`: a min-max
heap in which the priority at position `3` (min level) was raised from `20` to `95` -/
def exU : Store Nat :=
  { map := #[(⟨0, 0⟩, 10), (⟨1, 0⟩, 90), (⟨2, 0⟩, 80), (⟨3, 0⟩, 95), (⟨4, 0⟩, 30), (⟨5, 0⟩, 40), (⟨6, 0⟩, 50),
             (⟨7, 0⟩, 60), (⟨8, 0⟩, 70), (⟨9, 0⟩, 35), (⟨10, 0⟩, 36)],
    heap := #[0, 1, 2, 3, 4, 5, 6, 7, 8, 9, 10], qp := #[0, 1, 2, 3, 4, 5, 6, 7, 8, 9, 10], size := 11 }

theorem exU_WF : exU.WF :=
  twf_of_check rfl rfl rfl (by decide) (by decide) (by decide)

/-- every pair not involving position `3` is in order -/
theorem exU_pre : ∀ a d, Anc a d → d < exU.size → a ≠ 3 → d ≠ 3 → exU.Rel a d := by
  intro a d had hd ha hd3
  exact rel_of_check exU 11 (fun a d => a != 3 && d != 3) (by decide) a d had hd (by simp [ha, hd3])

/-- but `exU` is not a min-max heap: the pair `(1, 3)` is out of order -/
theorem exU_not_heap : ¬ exU.MinMaxHeap := by
  intro hm
  have := hm 1 3 (Anc.of_left 1) (by decide) 90 95 (by decide) (by decide)
  revert this; decide

/-- `push` in flight: seven ordered positions `[10, 90, 80, 20, 30, 40, 50]`, the tables already extended by the new slot
`7` (priority `5`) at position `7`, `size` still `7` -/
def exPush : Store Nat :=
  { map := #[(⟨0, 0⟩, 10), (⟨1, 0⟩, 90), (⟨2, 0⟩, 80), (⟨3, 0⟩, 20), (⟨4, 0⟩, 30), (⟨5, 0⟩, 40), (⟨6, 0⟩, 50), (⟨7, 0⟩, 5)],
    heap := #[0, 1, 2, 3, 4, 5, 6, 7], qp := #[0, 1, 2, 3, 4, 5, 6, 7], size := 7 }

theorem exPush_TWF : exPush.TWF 8 :=
  twf_of_check rfl rfl rfl (by decide) (by decide) (by decide)

theorem exPush_ord : ∀ a d, Anc a d → d < 7 → exPush.Rel a d := by
  intro a d had hd
  exact rel_of_check exPush 7 (fun _ _ => true) (by decide) a d had hd rfl

end Up

namespace DQ
open Up

/-- **U1** `bubble_up` on tables of length `n`: never faults, keeps the tables well-formed, leaves map and size alone and
ends at `i` or at an ancestor of `i`. -/
theorem bubbleUp_tables {s : Store P} {n i idx : Nat} (h : s.TWF n) (hi : s.heap[i]? = some idx) :
    ∃ s' pos, bubbleUp s i idx = .ok (s', pos) ∧ s'.TWF n ∧ s'.map = s.map ∧ s'.size = s.size ∧ pos ≤ i ∧
      (pos = i ∨ Anc pos i) := by
  obtain ⟨s', pos, h1, h2, h3, h4, h5, h6, _⟩ := bubbleUp_full h hi
  exact ⟨s', pos, h1, h2, h3, h4, h5, h6⟩

/-- **U2** `bubble_up`, order: if every ancestor/descendant pair not involving position `i` is in order (the value at
`i` is arbitrary), then afterwards the only pairs that can be out of order are those whose ANCESTOR is `i`. -/
theorem bubbleUp_order {s : Store P} {n i idx : Nat} (h : s.TWF n) (hi : s.heap[i]? = some idx)
    (hpre : ∀ a d, Anc a d → d < n → a ≠ i → d ≠ i → s.Rel a d) :
    ∃ s' pos, bubbleUp s i idx = .ok (s', pos) ∧ s'.TWF n ∧ s'.map = s.map ∧ s'.size = s.size ∧ pos ≤ i ∧
      (pos = i ∨ Anc pos i) ∧ (∀ a d, Anc a d → d < n → a ≠ i → s'.Rel a d) := by
  obtain ⟨s', pos, h1, h2, h3, h4, h5, h6, h7⟩ := bubbleUp_full h hi
  exact ⟨s', pos, h1, h2, h3, h4, h5, h6, h7 hpre⟩

/-- **U2'** leaf case: if `i` has no descendant below `n`, the whole order holds afterwards. -/
theorem bubbleUp_order_leaf {s : Store P} {n i idx : Nat} (h : s.TWF n) (hi : s.heap[i]? = some idx) (hleaf : n ≤ left i)
    (hpre : ∀ a d, Anc a d → d < n → a ≠ i → d ≠ i → s.Rel a d) :
    ∃ s' pos, bubbleUp s i idx = .ok (s', pos) ∧ s'.TWF n ∧ s'.map = s.map ∧ s'.size = s.size ∧ pos ≤ i ∧
      (pos = i ∨ Anc pos i) ∧ (∀ a d, Anc a d → d < n → s'.Rel a d) := by
  obtain ⟨s', pos, h1, h2, h3, h4, h5, h6, h7⟩ := bubbleUp_order h hi hpre
  refine ⟨s', pos, h1, h2, h3, h4, h5, h6, ?_⟩
  intro a d had hd
  by_cases hai : a = i
  · subst hai
    exfalso
    rcases had.cases_top with e | e | e | e
    · omega
    · have := right_eq a; omega
    · have := e.lt; omega
    · have := e.lt; have := right_eq a; omega
  · exact h7 a d had hd hai

/-- **U4** the sift-up of `push`: the tables are one longer than the ordered part, the new slot `n` sits at the new last
position `n`. -/
theorem bubbleUp_push_spec {s : Store P} (n : Nat) (h : s.TWF (n + 1)) (hlast : s.heap[n]? = some n)
    (hord : ∀ a d, Anc a d → d < n → s.Rel a d) :
    ∃ s' pos, bubbleUp s n n = .ok (s', pos) ∧ s'.TWF (n + 1) ∧ s'.map = s.map ∧ s'.size = s.size ∧
      (∀ a d, Anc a d → d < n + 1 → s'.Rel a d) := by
  obtain ⟨s', pos, h1, h2, h3, h4, _, _, h7⟩ := bubbleUp_order_leaf h hlast (by have := left_gt n; omega)
    (fun a d had hd _ hdn => hord a d had (by omega))
  exact ⟨s', pos, h1, h2, h3, h4, h7⟩

/-! ## Non-vacuity -/

/-- the hypotheses of U1/U2 hold for `exU` at `i = 3`, a store that is not a min-max heap -/
example : ∃ (s : Store Nat) (n i idx : Nat), s.TWF n ∧ s.heap[i]? = some idx ∧
    (∀ a d, Anc a d → d < n → a ≠ i → d ≠ i → s.Rel a d) ∧ ¬ s.MinMaxHeap :=
  ⟨exU, 11, 3, 3, exU_WF, by decide, exU_pre, exU_not_heap⟩

/-- the model on `exU`: the parent's `90` moves down into position `3`, the `95` ends at position `1`; afterwards the pair
`(3, 7)` — ancestor `3 = i` — is out of order (`90` on a min level above `60`): the exception in U2 is really needed, and
so is the re-sift of the vacated position in `up_heapify`. -/
example : (bubbleUp exU 3 3).toOption.map (fun r => (r.2, r.1.pr 1, r.1.pr 3, r.1.pr 7)) =
    some (1, some 95, some 90, some 60) := by decide

example : ∃ s' pos, bubbleUp exU 3 3 = .ok (s', pos) ∧ s'.TWF 11 ∧ (∀ a d, Anc a d → d < 11 → a ≠ 3 → s'.Rel a d) := by
  obtain ⟨s', pos, h1, h2, _, _, _, _, h7⟩ := bubbleUp_order exU_WF (i := 3) (idx := 3) (by decide) exU_pre
  exact ⟨s', pos, h1, h2, h7⟩

/-- the hypotheses of U4 hold for `exPush` (`n = 7`) -/
example : ∃ (s : Store Nat) (n : Nat), s.TWF (n + 1) ∧ s.heap[n]? = some n ∧ (∀ a d, Anc a d → d < n → s.Rel a d) ∧ 0 < n :=
  ⟨exPush, 7, exPush_TWF, by decide, exPush_ord, by decide⟩

/-- the model on `exPush`: the new `5` crosses to the min chain and reaches the root -/
example : (bubbleUp exPush 7 7).toOption.map (fun r => (r.2, r.1.pr 0, r.1.pr 3, r.1.pr 7)) =
    some (0, some 5, some 10, some 20) := by decide

example : ∃ s' pos, bubbleUp exPush 7 7 = .ok (s', pos) ∧ s'.TWF 8 ∧ (∀ a d, Anc a d → d < 8 → s'.Rel a d) := by
  obtain ⟨s', pos, h1, h2, _, _, h5⟩ := bubbleUp_push_spec 7 exPush_TWF (by decide) exPush_ord
  exact ⟨s', pos, h1, h2, h5⟩

end DQ
end PQ
