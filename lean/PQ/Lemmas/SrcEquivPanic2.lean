import PQ.Lemmas.SrcEquivPanic
import PQ.Lemmas.SrcEquivExtend
set_option linter.unusedSimpArgs false
set_option linter.unusedSectionVars false
namespace PQ.SrcEquivF
open PQ PQ.Src PQ.SrcGen PQ.SrcF PQ.Crash PQ.SrcEquiv
variable {P : Type} [LT P] [DecidableLT P]

/-! ## statements without panic points run as in the plain interpreter -/

/-- no comparison of priorities -/
def NoCmpB : BExpr → Bool
  | .ltP _ _ | .gtP _ _ | .prioMapOrGt _ _ | .prioMapOrLt _ _ => false
  | .and a b => NoCmpB a && NoCmpB b
  | .not a => NoCmpB a
  | _ => true

theorem evalBF_noCmp (fuse : Nat) (callf : CallF P) : ∀ (b : BExpr) (st : St P), NoCmpB b = true →
    evalBF fuse callf st b = liftF (evalB callf st b) := by
  intro b
  induction b with
  | and a b iha ihb =>
    intro st h
    simp only [NoCmpB, Bool.and_eq_true] at h
    simp only [evalBF, evalB, iha st h.1, liftF_bind]
    refine bind_congr fun r => ?_
    split
    · exact ihb _ h.2
    · rfl
  | not a iha =>
    intro st h
    simp only [NoCmpB] at h
    simp only [evalBF, evalB, iha st h, liftF_bind, liftF_pure]
  | ltP _ _ | gtP _ _ | prioMapOrGt _ _ | prioMapOrLt _ _ => intro st h; simp [NoCmpB] at h
  | _ => intro st _; rfl

/-- no panic point and no `while`/`for … rev` loop: leaves, `seq`, conditionals on comparison-free conditions, the IndexMap
look-ups, `for` over entries, and calls of functions in the set `PF` -/
def NoPanic (PF : FnId → Bool) : Stmt → Bool
  | .seq a b => NoPanic PF a && NoPanic PF b
  | .ite c t e => NoCmpB c && NoPanic PF t && NoPanic PF e
  | .match2 c1 c2 a b c d => NoCmpB c1 && NoCmpB c2 && NoPanic PF a && NoPanic PF b && NoPanic PF c && NoPanic PF d
  | .ifHeapGet _ _ t f => NoPanic PF t && NoPanic PF f
  | .entryMatch _ _ o v => NoPanic PF o && NoPanic PF v
  | .getFullMutThen _ _ b n => NoPanic PF b && NoPanic PF n
  | .removeFullThen _ _ b _ => NoPanic PF b
  | .forEntries _ _ _ b => NoPanic PF b
  | .callN _ f _ _ | .call f _ _ | .callV _ f _ | .callX _ f _ _ _ => PF f
  | .while _ _ | .forRev _ _ _ | .optCallN _ _ _ _ _ | .whileSomeCall _ _ _
  | .firstMinBy _ _ _ _ | .lastMaxBy _ _ _ _ | .lastMaxByPos _ _ _ | .mapRemoved _ _ _
  | .mapChanged _ _ _ _ | .mapChangedBy _ _ _ _ => false
  | _ => true

/-- a plain call result in the vocabulary of fused calls -/
def liftCall {α : Type} : R α → Except (CallStop P) α
  | .ok a => .ok a
  | .error f => .error (.fault f)

theorem fromCall_liftCall {α : Type} (st : St P) (wb : Option Var) (x : R α) :
    fromCall st wb (liftCall x) = liftF x := by
  cases x <;> rfl

theorem forListF_lift (bodyF : Item × P → St P → CF P (St P × Flow P)) (body : Item × P → St P → R (St P × Flow P))
    (h : ∀ e st, bodyF e st = liftF (body e st)) : ∀ (l : List (Item × P)) (st : St P),
    forListF bodyF l st = liftF (forList body l st) := by
  intro l
  induction l with
  | nil => intro st; rfl
  | cons e es ih =>
    intro st
    rw [forListF, forList, h, liftF_bind]
    refine bind_congr fun r => ?_
    obtain ⟨st', fl⟩ := r
    cases fl with
    | normal => exact ih st'
    | brk => rfl
    | ret v => rfl

/-! the plain interpreter on the compound statements -/
theorem exec_seq (prog : Prog) (n : Nat) (a b : Stmt) (st : St P) :
    exec prog (n + 1) (.seq a b) st = (exec prog (n + 1) a st >>= fun r => match r.2 with
      | .normal => exec prog (n + 1) b r.1
      | fl => pure (r.1, fl)) := rfl
theorem exec_ite (prog : Prog) (n : Nat) (c : BExpr) (t e : Stmt) (st : St P) :
    exec prog (n + 1) (.ite c t e) st = (evalB (callWith (exec prog n) prog) st c >>= fun r =>
      if r.2 then exec prog (n + 1) t (st.setS r.1) else exec prog (n + 1) e (st.setS r.1)) := rfl
theorem exec_match2 (prog : Prog) (n : Nat) (c1 c2 : BExpr) (tt tf ft ff : Stmt) (st : St P) :
    exec prog (n + 1) (.match2 c1 c2 tt tf ft ff) st = (evalB (callWith (exec prog n) prog) st c1 >>= fun r1 =>
      evalB (callWith (exec prog n) prog) (st.setS r1.1) c2 >>= fun r2 =>
        match r1.2, r2.2 with
        | true, true => exec prog (n + 1) tt (st.setS r2.1)
        | true, false => exec prog (n + 1) tf (st.setS r2.1)
        | false, true => exec prog (n + 1) ft (st.setS r2.1)
        | false, false => exec prog (n + 1) ff (st.setS r2.1)) := rfl
theorem exec_ifHeapGet (prog : Prog) (n : Nat) (v : Var) (e : NExpr) (t f : Stmt) (st : St P) :
    exec prog (n + 1) (.ifHeapGet v e t f) st = (evalN st e >>= fun i =>
      match st.s.heap[i]? with
      | some x => exec prog (n + 1) t (st.setN v x)
      | none => exec prog (n + 1) f st) := rfl
theorem exec_entryMatch (prog : Prog) (n : Nat) (iv eidx : Var) (occ vac : Stmt) (st : St P) :
    exec prog (n + 1) (.entryMatch iv eidx occ vac) st = (match st.v iv with
      | some (.item it) =>
        match st.s.map.find? it.key with
        | some i => exec prog (n + 1) occ (st.setN eidx i)
        | none => exec prog (n + 1) vac st
      | _ => .error stuck) := rfl
theorem exec_getFullMutThen (prog : Prog) (n : Nat) (key vidx : Var) (body onNone : Stmt) (st : St P) :
    exec prog (n + 1) (.getFullMutThen key vidx body onNone) st = (match st.s.map.getFull (st.n key) with
      | some (index, _, _) => exec prog (n + 1) body (st.setN vidx index)
      | none => exec prog (n + 1) onNone st) := rfl
theorem exec_removeFullThen (prog : Prog) (n : Nat) (key vi : Var) (body : Stmt) (res : NExpr) (st : St P) :
    exec prog (n + 1) (.removeFullThen key vi body res) st = (match st.s.map.swapRemoveFull (st.n key) with
      | none => pure (st, .ret (.optRemoved none))
      | some (i, e, map) =>
        exec prog (n + 1) body ((st.setS { st.s with map := map }).setN vi i) >>= fun r =>
          match r.2 with
          | .normal => evalN r.1 res >>= fun p => pure (r.1, .ret (.optRemoved (some (e.1, e.2, p))))
          | _ => .error stuck) := rfl

theorem exec_callN (prog : Prog) (n : Nat) (v : Var) (f : FnId) (nargs : List NExpr) (pargs : List PExpr) (st : St P) :
    exec prog (n + 1) (.callN v f nargs pargs) st = (evalNs st nargs >>= fun xs =>
      evalPs (callWith (exec prog n) prog) st pargs >>= fun r =>
        callWith (exec prog n) prog f r.1 xs r.2 [] >>= fun c =>
          match c.2 with
          | .nat x => pure ((st.setS c.1).setN v x, Flow.normal)
          | _ => .error stuck) := rfl
theorem exec_call (prog : Prog) (n : Nat) (f : FnId) (nargs : List NExpr) (pargs : List PExpr) (st : St P) :
    exec prog (n + 1) (.call f nargs pargs) st = (evalNs st nargs >>= fun xs =>
      evalPs (callWith (exec prog n) prog) st pargs >>= fun r =>
        callWith (exec prog n) prog f r.1 xs r.2 [] >>= fun c => pure (st.setS c.1, Flow.normal)) := rfl
theorem exec_callV (prog : Prog) (n : Nat) (v : Var) (f : FnId) (nargs : List NExpr) (st : St P) :
    exec prog (n + 1) (.callV v f nargs) st = (evalNs st nargs >>= fun xs =>
      callWith (exec prog n) prog f st.s xs [] [] >>= fun c => pure ((st.setS c.1).setV v c.2, Flow.normal)) := rfl
theorem exec_callX (prog : Prog) (n : Nat) (v : Var) (f : FnId) (nargs : List NExpr) (pargs : List PExpr)
    (vargs : List Var) (st : St P) :
    exec prog (n + 1) (.callX v f nargs pargs vargs) st = (evalNs st nargs >>= fun xs =>
      evalPs (callWith (exec prog n) prog) st pargs >>= fun r => evalVs st vargs >>= fun vs =>
        callWith (exec prog n) prog f r.1 xs r.2 vs >>= fun c => pure ((st.setS c.1).setV v c.2, Flow.normal)) := rfl
theorem exec_forEntries (prog : Prog) (n : Nat) (src iv pv : Var) (body : Stmt) (st : St P) :
    exec prog (n + 1) (.forEntries src iv pv body) st = (match st.v src with
      | some (.entries a) =>
        forList (fun e st => exec prog (n + 1) body ((st.setV iv (.item e.1)).setP pv e.2)) a.toList st
      | some (.iter _ a) =>
        forList (fun e st => exec prog (n + 1) body ((st.setV iv (.item e.1)).setP pv e.2)) a.toList st
      | some (.seq _ a) =>
        forList (fun e st => exec prog (n + 1) body ((st.setV iv (.item e.1)).setP pv e.2)) a.toList st
      | _ => .error stuck) := rfl

section
variable (fuse : Nat) (dropFuse : Bool) (plain : Stmt → St P → R (St P × Flow P)) (callf : CallF P)
  (recF : Stmt → St P → CF P (St P × Flow P)) (callfF : CallFF P) (byRef : FnId → Bool) (st : St P)
theorem esF_call (f : FnId) (nargs : List NExpr) (pargs : List PExpr) :
    execStepF fuse dropFuse plain callf recF callfF byRef (.call f nargs pargs) st =
      (liftF (evalNs st nargs) >>= fun xs => liftF (evalPs callf st pargs) >>= fun r =>
        fromCall (st.setS r.1) none (callfF f r.1 xs r.2 []) >>= fun c => pure (st.setS c.1, Flow.normal)) := rfl
theorem esF_callV (v : Var) (f : FnId) (nargs : List NExpr) :
    execStepF fuse dropFuse plain callf recF callfF byRef (.callV v f nargs) st =
      (liftF (evalNs st nargs) >>= fun xs =>
        fromCall st none (callfF f st.s xs [] []) >>= fun c => pure ((st.setS c.1).setV v c.2, Flow.normal)) := rfl
theorem esF_callX (v : Var) (f : FnId) (nargs : List NExpr) (pargs : List PExpr) (vargs : List Var) :
    execStepF fuse dropFuse plain callf recF callfF byRef (.callX v f nargs pargs vargs) st =
      (liftF (evalNs st nargs) >>= fun xs => liftF (evalPs callf st pargs) >>= fun r => liftF (evalVs st vargs) >>= fun vs =>
        fromCall (st.setS r.1) none (callfF f r.1 xs r.2 vs) >>= fun c =>
          pure ((st.setS c.1).setV v c.2, Flow.normal)) := rfl
theorem esF_forEntries (src iv pv : Var) (body : Stmt) :
    execStepF fuse dropFuse plain callf recF callfF byRef (.forEntries src iv pv body) st = (match st.v src with
      | some (.entries a) =>
        forListF (fun e st => execStepF fuse dropFuse plain callf recF callfF byRef body
          ((st.setV iv (.item e.1)).setP pv e.2)) a.toList st
      | some (.iter _ a) =>
        forListF (fun e st => execStepF fuse dropFuse plain callf recF callfF byRef body
          ((st.setV iv (.item e.1)).setP pv e.2)) a.toList st
      | some (.seq _ a) =>
        forListF (fun e st => execStepF fuse dropFuse plain callf recF callfF byRef body
          ((st.setV iv (.item e.1)).setP pv e.2)) a.toList st
      | _ => .error (.fault stuck)) := rfl
theorem esF_optCallN (v : Var) (f : FnId) (nargs : List NExpr) (tS tN : Stmt) :
    execStepF fuse dropFuse plain callf recF callfF byRef (.optCallN v f nargs tS tN) st =
      (liftF (evalNs st nargs) >>= fun xs => fromCall st none (callfF f st.s xs [] []) >>= fun c =>
        match c.2 with
        | .optNat (some x) => execStepF fuse dropFuse plain callf recF callfF byRef tS ((st.setS c.1).setN v x)
        | .optNat none => execStepF fuse dropFuse plain callf recF callfF byRef tN (st.setS c.1)
        | _ => .error (.fault stuck)) := rfl
theorem esF_forRev (v : Var) (hi : NExpr) (body : Stmt) :
    execStepF fuse dropFuse plain callf recF callfF byRef (.forRev v hi body) st =
      (liftF (evalN st hi) >>= fun h =>
        forDownF (fun k st => execStepF fuse dropFuse plain callf recF callfF byRef body (st.setN v k)) h st) := rfl
theorem esF_mapRemoved (key vpos : Var) (body : Stmt) :
    execStepF fuse dropFuse plain callf recF callfF byRef (.mapRemoved key vpos body) st =
      (fromCall st none (callfF .storeRemove st.s [st.n key] [] []) >>= fun c =>
        match c.2 with
        | .optRemoved none => pure (st.setS c.1, .ret (.optEntry none))
        | .optRemoved (some (it, p, pos)) =>
          execStepF fuse dropFuse plain callf recF callfF byRef body ((st.setS c.1).setN vpos pos) >>= fun r =>
            match r.2 with
            | .normal => pure (r.1, .ret (.optEntry (some (it, p))))
            | _ => .error (.fault stuck)
        | _ => .error (.fault stuck)) := rfl
theorem esF_mapChanged (key : Var) (p : PExpr) (vpos : Var) (body : Stmt) :
    execStepF fuse dropFuse plain callf recF callfF byRef (.mapChanged key p vpos body) st =
      (liftF (evalP callf st p) >>= fun x =>
        fromCall (st.setS x.1) none (callfF .storeChangePriority x.1 [st.n key] [x.2] []) >>= fun c =>
        match c.2 with
        | .optPPos none => pure (st.setS c.1, .ret (.optP none))
        | .optPPos (some (old, pos)) =>
          execStepF fuse dropFuse plain callf recF callfF byRef body ((st.setS c.1).setN vpos pos) >>= fun r =>
            match r.2 with
            | .normal => pure (r.1, .ret (.optP (some old)))
            | _ => .error (.fault stuck)
        | _ => .error (.fault stuck)) := rfl
theorem esF_mapChangedBy (key fv vpos : Var) (body : Stmt) :
    execStepF fuse dropFuse plain callf recF callfF byRef (.mapChangedBy key fv vpos body) st =
      (match st.v fv with
      | some g =>
        fromCall st none (callfF .storeChangePriorityBy st.s [st.n key] [] [g]) >>= fun c =>
        match c.2 with
        | .optNat none => pure (st.setS c.1, .ret (.bool false))
        | .optNat (some pos) =>
          execStepF fuse dropFuse plain callf recF callfF byRef body ((st.setS c.1).setN vpos pos) >>= fun r =>
            match r.2 with
            | .normal => pure (r.1, .ret (.bool true))
            | _ => .error (.fault stuck)
        | _ => .error (.fault stuck)
      | none => .error (.fault stuck)) := rfl
theorem esF_ifHeapGet (v : Var) (e : NExpr) (t f : Stmt) :
    execStepF fuse dropFuse plain callf recF callfF byRef (.ifHeapGet v e t f) st = (liftF (evalN st e) >>= fun i =>
      match st.s.heap[i]? with
      | some x => execStepF fuse dropFuse plain callf recF callfF byRef t (st.setN v x)
      | none => execStepF fuse dropFuse plain callf recF callfF byRef f st) := rfl
theorem esF_getFullMutThen (key vidx : Var) (body onNone : Stmt) :
    execStepF fuse dropFuse plain callf recF callfF byRef (.getFullMutThen key vidx body onNone) st =
      (match st.s.map.getFull (st.n key) with
      | some (index, _, _) => execStepF fuse dropFuse plain callf recF callfF byRef body (st.setN vidx index)
      | none => execStepF fuse dropFuse plain callf recF callfF byRef onNone st) := rfl
theorem esF_removeFullThen (key vi : Var) (body : Stmt) (res : NExpr) :
    execStepF fuse dropFuse plain callf recF callfF byRef (.removeFullThen key vi body res) st =
      (match st.s.map.swapRemoveFull (st.n key) with
      | none => pure (st, .ret (.optRemoved none))
      | some (i, e, map) =>
        execStepF fuse dropFuse plain callf recF callfF byRef body ((st.setS { st.s with map := map }).setN vi i) >>= fun r =>
          match r.2 with
          | .normal => liftF (evalN r.1 res) >>= fun p => pure (r.1, .ret (.optRemoved (some (e.1, e.2, p))))
          | _ => .error (.fault stuck)) := rfl
end

theorem execStepF_noPanic (PF : FnId → Bool) (prog : Prog) (n : Nat) (fuse : Nat) (recF : Stmt → St P → CF P (St P × Flow P))
    (callfF : CallFF P) (byRef : FnId → Bool)
    (hcall : ∀ f s na pa va, PF f = true → callfF f s na pa va = liftCall (callWith (exec prog n) prog f s na pa va)) :
    ∀ (c : Stmt) (st : St P), NoPanic PF c = true →
    execStepF fuse false (exec prog (n + 1)) (callWith (exec prog n) prog) recF callfF byRef c st
      = liftF (exec prog (n + 1) c st) := by
  intro c
  induction c with
  | seq a b iha ihb =>
    intro st h
    simp only [NoPanic, Bool.and_eq_true] at h
    rw [esF_seq, iha st h.1, exec_seq, liftF_bind]
    refine bind_congr fun r => ?_
    obtain ⟨st', fl⟩ := r
    cases fl with
    | normal => exact ihb _ h.2
    | brk => rfl
    | ret v => rfl
  | ite c t e iht ihe =>
    intro st h
    simp only [NoPanic, Bool.and_eq_true] at h
    rw [esF_ite, evalBF_noCmp _ _ _ _ h.1.1, exec_ite, liftF_bind]
    refine bind_congr fun r => ?_
    obtain ⟨s', b⟩ := r
    cases b with
    | true => exact iht _ h.1.2
    | false => exact ihe _ h.2
  | match2 c1 c2 tt tf ft ff i1 i2 i3 i4 =>
    intro st h
    simp only [NoPanic, Bool.and_eq_true] at h
    obtain ⟨⟨⟨⟨⟨h1, h2⟩, h3⟩, h4⟩, h5⟩, h6⟩ := h
    rw [esF_match2, evalBF_noCmp _ _ _ _ h1, exec_match2, liftF_bind]
    refine bind_congr fun r1 => ?_
    rw [evalBF_noCmp _ _ _ _ h2, liftF_bind]
    refine bind_congr fun r2 => ?_
    obtain ⟨s1, b1⟩ := r1
    obtain ⟨s2, b2⟩ := r2
    cases b1 <;> cases b2
    · exact i4 _ h6
    · exact i3 _ h5
    · exact i2 _ h4
    · exact i1 _ h3
  | ifHeapGet v e t f iht ihf =>
    intro st h
    simp only [NoPanic, Bool.and_eq_true] at h
    rw [esF_ifHeapGet, exec_ifHeapGet, liftF_bind]
    refine bind_congr fun i => ?_
    cases st.s.heap[i]? with
    | some x => exact iht _ h.1
    | none => exact ihf _ h.2
  | entryMatch iv eidx occ vac iho ihv =>
    intro st h
    simp only [NoPanic, Bool.and_eq_true] at h
    rw [esF_entryMatch, exec_entryMatch]
    cases st.v iv with
    | none => rfl
    | some val =>
      cases val with
      | item it =>
        simp only
        cases st.s.map.find? it.key with
        | some i => exact iho _ h.1
        | none => exact ihv _ h.2
      | _ => rfl
  | getFullMutThen key vidx body onNone ihb ihn =>
    intro st h
    simp only [NoPanic, Bool.and_eq_true] at h
    rw [esF_getFullMutThen, exec_getFullMutThen]
    cases st.s.map.getFull (st.n key) with
    | some r => exact ihb _ h.1
    | none => exact ihn _ h.2
  | removeFullThen key vi body res ihb =>
    intro st h
    simp only [NoPanic] at h
    rw [esF_removeFullThen, exec_removeFullThen]
    cases st.s.map.swapRemoveFull (st.n key) with
    | none => rfl
    | some r =>
      obtain ⟨i, e, map⟩ := r
      simp only
      rw [ihb _ h, liftF_bind]
      refine bind_congr fun r => ?_
      obtain ⟨st', fl⟩ := r
      cases fl with
      | normal => simp only [liftF_bind]; rfl
      | brk => rfl
      | ret v => rfl
  | forEntries src iv pv body ihb =>
    intro st h
    simp only [NoPanic] at h
    rw [esF_forEntries, exec_forEntries]
    cases st.v src with
    | none => rfl
    | some val =>
      cases val with
      | entries a => exact forListF_lift _ _ (fun e st => ihb _ h) _ _
      | iter _ a => exact forListF_lift _ _ (fun e st => ihb _ h) _ _
      | seq _ a => exact forListF_lift _ _ (fun e st => ihb _ h) _ _
      | _ => rfl
  | callN v f nargs pargs =>
    intro st h
    simp only [NoPanic] at h
    rw [esF_callN, exec_callN, liftF_bind]
    refine bind_congr fun xs => ?_
    rw [liftF_bind]
    refine bind_congr fun r => ?_
    rw [hcall _ _ _ _ _ h, fromCall_liftCall, liftF_bind]
    refine bind_congr fun c => ?_
    obtain ⟨s', val⟩ := c
    cases val <;> rfl
  | call f nargs pargs =>
    intro st h
    simp only [NoPanic] at h
    rw [esF_call, exec_call, liftF_bind]
    refine bind_congr fun xs => ?_
    rw [liftF_bind]
    refine bind_congr fun r => ?_
    rw [hcall _ _ _ _ _ h, fromCall_liftCall, liftF_bind]
    rfl
  | callV v f nargs =>
    intro st h
    simp only [NoPanic] at h
    rw [esF_callV, exec_callV, liftF_bind]
    refine bind_congr fun xs => ?_
    rw [hcall _ _ _ _ _ h, fromCall_liftCall, liftF_bind]
    rfl
  | callX v f nargs pargs vargs =>
    intro st h
    simp only [NoPanic] at h
    rw [esF_callX, exec_callX, liftF_bind]
    refine bind_congr fun xs => ?_
    rw [liftF_bind]
    refine bind_congr fun r => ?_
    rw [liftF_bind]
    refine bind_congr fun vs => ?_
    rw [hcall _ _ _ _ _ h, fromCall_liftCall, liftF_bind]
    rfl
  | «while» _ _ | forRev _ _ _ | optCallN _ _ _ _ _ | whileSomeCall _ _ _
  | firstMinBy _ _ _ _ | lastMaxBy _ _ _ _ | lastMaxByPos _ _ _ | mapRemoved _ _ _
  | mapChanged _ _ _ _ | mapChangedBy _ _ _ _ => intro st h; simp [NoPanic] at h
  | _ => intro st _; rfl

/-- the whole fused interpreter on code that can only reach functions of a comparison-free set `PF` -/
theorem execF_noPanic (PF : FnId → Bool) (prog : Prog) (uw : Unwind) (fuse : Nat)
    (hPF : ∀ f fn, PF f = true → prog f = some fn → NoPanic PF fn.body = true) :
    ∀ (n : Nat) (c : Stmt) (st : St P), NoPanic PF c = true →
      execF prog uw fuse false n c st = liftF (exec prog n c st) := by
  intro n
  induction n with
  | zero => intro c st _; rfl
  | succ n ih =>
    intro c st h
    rw [execF]
    refine execStepF_noPanic PF prog n fuse _ _ _ ?_ c st h
    intro f s na pa va hf
    unfold callWithF
    rw [callWith_eq]
    cases hp : prog f with
    | none => rfl
    | some fn =>
      simp only
      rw [ih _ _ (hPF f fn hf hp)]
      cases exec prog n fn.body
          { s := s, n := bindN fn.nparams na, p := bindP fn.pparams pa, v := bindV fn.vparams va } with
      | ok r => obtain ⟨st', fl⟩ := r; cases fl <;> rfl
      | error e => rfl

/-- a call of a function of a comparison-free set behaves under the fused interpreter as under the plain one -/
theorem callF_plain (PF : FnId → Bool) (prog : Prog) (uw : Unwind) (fuse : Nat)
    (hPF : ∀ f fn, PF f = true → prog f = some fn → NoPanic PF fn.body = true)
    (n : Nat) (f : FnId) (s : Store P) (na : List Nat) (pa : List P) (va : List (Val P)) (hf : PF f = true) :
    toCRcall (callWithF (execF prog uw fuse false n) (exec prog n) prog uw f s na pa va)
      = liftR (callWith (exec prog n) prog f s na pa va) := by
  unfold callWithF
  rw [callWith_eq]
  cases hp : prog f with
  | none => rfl
  | some fn =>
    simp only
    rw [execF_noPanic PF prog uw fuse hPF _ _ _ (hPF f fn hf hp)]
    cases exec prog n fn.body
        { s := s, n := bindN fn.nparams na, p := bindP fn.pparams pa, v := bindV fn.vparams va } with
    | ok r => obtain ⟨st', fl⟩ := r; cases fl <;> rfl
    | error e => rfl

/-- the comparison-free functions of the translated crate -/
def pfSet : FnId → Bool
  | .storeSwap | .storePrioAt | .storeSwapRemove | .storeRemove | .storeClear | .storeDrain | .storeRetainMut
  | .storeAppend | .storeSwapRemoveIf | .storeChangePriority | .storeChangePriorityBy | .storeFromVec | .storeFromIter
  | .storeExtend | .storeVisitSeq | .storeRetain | .dqFindMin | .pqPeek | .pqPeekMut => true
  | _ => false

theorem pfSet_ok : ∀ f fn, pfSet f = true → SrcGen.prog f = some fn → NoPanic pfSet fn.body = true := by
  intro f fn hf hp
  cases f <;> first
    | (exact absurd hf (by decide))
    | (obtain rfl : _ = fn := Option.some.inj hp; decide)

/-- the rewrite rule used at call sites: a fused call of a comparison-free function is the plain call -/
theorem callF_pf (fuse : Nat) (n : Nat) (f : FnId) (s : Store P) (na : List Nat) (pa : List P) (va : List (Val P))
    (hf : pfSet f = true) :
    toCRcall (callWithF (execF prog unwind fuse false n) (exec prog n) prog unwind f s na pa va)
      = liftR (callWith (exec prog n) prog f s na pa va) :=
  callF_plain pfSet prog unwind fuse pfSet_ok n f s na pa va hf

/-! the instances (rewrite rules without side condition) -/
theorem callF_pf_storeSwap (fuse n : Nat) (s : Store P) (na : List Nat) (pa : List P) (va : List (Val P)) :
    toCRcall (callWithF (execF prog unwind fuse false n) (exec prog n) prog unwind .storeSwap s na pa va)
      = liftR (callWith (exec prog n) prog .storeSwap s na pa va) := callF_pf fuse n _ s na pa va rfl
theorem callF_pf_storePrioAt (fuse n : Nat) (s : Store P) (na : List Nat) (pa : List P) (va : List (Val P)) :
    toCRcall (callWithF (execF prog unwind fuse false n) (exec prog n) prog unwind .storePrioAt s na pa va)
      = liftR (callWith (exec prog n) prog .storePrioAt s na pa va) := callF_pf fuse n _ s na pa va rfl
theorem callF_pf_storeSwapRemove (fuse n : Nat) (s : Store P) (na : List Nat) (pa : List P) (va : List (Val P)) :
    toCRcall (callWithF (execF prog unwind fuse false n) (exec prog n) prog unwind .storeSwapRemove s na pa va)
      = liftR (callWith (exec prog n) prog .storeSwapRemove s na pa va) := callF_pf fuse n _ s na pa va rfl
theorem callF_pf_storeRemove (fuse n : Nat) (s : Store P) (na : List Nat) (pa : List P) (va : List (Val P)) :
    toCRcall (callWithF (execF prog unwind fuse false n) (exec prog n) prog unwind .storeRemove s na pa va)
      = liftR (callWith (exec prog n) prog .storeRemove s na pa va) := callF_pf fuse n _ s na pa va rfl
theorem callF_pf_storeClear (fuse n : Nat) (s : Store P) (na : List Nat) (pa : List P) (va : List (Val P)) :
    toCRcall (callWithF (execF prog unwind fuse false n) (exec prog n) prog unwind .storeClear s na pa va)
      = liftR (callWith (exec prog n) prog .storeClear s na pa va) := callF_pf fuse n _ s na pa va rfl
theorem callF_pf_storeDrain (fuse n : Nat) (s : Store P) (na : List Nat) (pa : List P) (va : List (Val P)) :
    toCRcall (callWithF (execF prog unwind fuse false n) (exec prog n) prog unwind .storeDrain s na pa va)
      = liftR (callWith (exec prog n) prog .storeDrain s na pa va) := callF_pf fuse n _ s na pa va rfl
theorem callF_pf_storeRetainMut (fuse n : Nat) (s : Store P) (na : List Nat) (pa : List P) (va : List (Val P)) :
    toCRcall (callWithF (execF prog unwind fuse false n) (exec prog n) prog unwind .storeRetainMut s na pa va)
      = liftR (callWith (exec prog n) prog .storeRetainMut s na pa va) := callF_pf fuse n _ s na pa va rfl
theorem callF_pf_storeAppend (fuse n : Nat) (s : Store P) (na : List Nat) (pa : List P) (va : List (Val P)) :
    toCRcall (callWithF (execF prog unwind fuse false n) (exec prog n) prog unwind .storeAppend s na pa va)
      = liftR (callWith (exec prog n) prog .storeAppend s na pa va) := callF_pf fuse n _ s na pa va rfl
theorem callF_pf_storeSwapRemoveIf (fuse n : Nat) (s : Store P) (na : List Nat) (pa : List P) (va : List (Val P)) :
    toCRcall (callWithF (execF prog unwind fuse false n) (exec prog n) prog unwind .storeSwapRemoveIf s na pa va)
      = liftR (callWith (exec prog n) prog .storeSwapRemoveIf s na pa va) := callF_pf fuse n _ s na pa va rfl
theorem callF_pf_storeChangePriority (fuse n : Nat) (s : Store P) (na : List Nat) (pa : List P) (va : List (Val P)) :
    toCRcall (callWithF (execF prog unwind fuse false n) (exec prog n) prog unwind .storeChangePriority s na pa va)
      = liftR (callWith (exec prog n) prog .storeChangePriority s na pa va) := callF_pf fuse n _ s na pa va rfl
theorem callF_pf_storeChangePriorityBy (fuse n : Nat) (s : Store P) (na : List Nat) (pa : List P) (va : List (Val P)) :
    toCRcall (callWithF (execF prog unwind fuse false n) (exec prog n) prog unwind .storeChangePriorityBy s na pa va)
      = liftR (callWith (exec prog n) prog .storeChangePriorityBy s na pa va) := callF_pf fuse n _ s na pa va rfl
theorem callF_pf_storeFromVec (fuse n : Nat) (s : Store P) (na : List Nat) (pa : List P) (va : List (Val P)) :
    toCRcall (callWithF (execF prog unwind fuse false n) (exec prog n) prog unwind .storeFromVec s na pa va)
      = liftR (callWith (exec prog n) prog .storeFromVec s na pa va) := callF_pf fuse n _ s na pa va rfl
theorem callF_pf_storeFromIter (fuse n : Nat) (s : Store P) (na : List Nat) (pa : List P) (va : List (Val P)) :
    toCRcall (callWithF (execF prog unwind fuse false n) (exec prog n) prog unwind .storeFromIter s na pa va)
      = liftR (callWith (exec prog n) prog .storeFromIter s na pa va) := callF_pf fuse n _ s na pa va rfl
theorem callF_pf_storeExtend (fuse n : Nat) (s : Store P) (na : List Nat) (pa : List P) (va : List (Val P)) :
    toCRcall (callWithF (execF prog unwind fuse false n) (exec prog n) prog unwind .storeExtend s na pa va)
      = liftR (callWith (exec prog n) prog .storeExtend s na pa va) := callF_pf fuse n _ s na pa va rfl
theorem callF_pf_storeVisitSeq (fuse n : Nat) (s : Store P) (na : List Nat) (pa : List P) (va : List (Val P)) :
    toCRcall (callWithF (execF prog unwind fuse false n) (exec prog n) prog unwind .storeVisitSeq s na pa va)
      = liftR (callWith (exec prog n) prog .storeVisitSeq s na pa va) := callF_pf fuse n _ s na pa va rfl
theorem callF_pf_storeRetain (fuse n : Nat) (s : Store P) (na : List Nat) (pa : List P) (va : List (Val P)) :
    toCRcall (callWithF (execF prog unwind fuse false n) (exec prog n) prog unwind .storeRetain s na pa va)
      = liftR (callWith (exec prog n) prog .storeRetain s na pa va) := callF_pf fuse n _ s na pa va rfl
theorem callF_pf_dqFindMin (fuse n : Nat) (s : Store P) (na : List Nat) (pa : List P) (va : List (Val P)) :
    toCRcall (callWithF (execF prog unwind fuse false n) (exec prog n) prog unwind .dqFindMin s na pa va)
      = liftR (callWith (exec prog n) prog .dqFindMin s na pa va) := callF_pf fuse n _ s na pa va rfl
theorem callF_pf_pqPeek (fuse n : Nat) (s : Store P) (na : List Nat) (pa : List P) (va : List (Val P)) :
    toCRcall (callWithF (execF prog unwind fuse false n) (exec prog n) prog unwind .pqPeek s na pa va)
      = liftR (callWith (exec prog n) prog .pqPeek s na pa va) := callF_pf fuse n _ s na pa va rfl
theorem callF_pf_pqPeekMut (fuse n : Nat) (s : Store P) (na : List Nat) (pa : List P) (va : List (Val P)) :
    toCRcall (callWithF (execF prog unwind fuse false n) (exec prog n) prog unwind .pqPeekMut s na pa va)
      = liftR (callWith (exec prog n) prog .pqPeekMut s na pa va) := callF_pf fuse n _ s na pa va rfl

/-- leaf statements and comparison-free blocks inside a function that does compare -/
theorem execStepF_leaf (n : Nat) (fuse : Nat) (recF : Stmt → St P → CF P (St P × Flow P)) (byRef : FnId → Bool)
    (c : Stmt) (st : St P) (h : NoPanic pfSet c = true) :
    execStepF fuse false (exec prog (n + 1)) (callWith (exec prog n) prog) recF
        (callWithF (execF prog unwind fuse false n) (exec prog n) prog unwind) byRef c st
      = liftF (exec prog (n + 1) c st) := by
  refine execStepF_noPanic pfSet prog n fuse _ _ _ ?_ c st h
  intro f s na pa va hf
  have := callF_pf (P := P) fuse n f s na pa va hf
  generalize callWithF (execF prog unwind fuse false n) (exec prog n) prog unwind f s na pa va = x at this ⊢
  generalize callWith (exec prog n) prog f s na pa va = y at this ⊢
  cases x with
  | ok a => cases y <;> simp_all [toCRcall, liftR, liftCall]
  | error e => cases e <;> cases y <;> simp_all [toCRcall, liftR, liftCall]


/-! ## frames without a guard -/

/-- a frame that owns no guard, seen from outside: result, fault, or the store as it is when the panic strikes -/
def frame0 (x : CF P (St P × Flow P)) : CR P (Store P × Val P) :=
  match x with
  | .ok (st, fl) =>
    (match fl with
      | .ret v => .ok (st.s, v)
      | .normal => .ok (st.s, .unit)
      | .brk => .error (.fault stuck))
  | .error (.fault e) => .error (.fault e)
  | .error (.panic stp) => .error (.crashed stp.s)

theorem callF_frame0 (prog : Prog) (uw : Unwind) (fuse : Nat) (df : Bool) (n : Nat) (f : FnId) (fn : Fn) (s : Store P)
    (na : List Nat) (pa : List P) (va : List (Val P)) (hf : prog f = some fn) (huw : (uw f).1 = .skip) :
    toCRcall (callWithF (execF prog uw fuse df (n + 1)) (exec prog (n + 1)) prog uw f s na pa va)
      = frame0 (execF prog uw fuse df (n + 1) fn.body
          { s := s, n := bindN fn.nparams na, p := bindP fn.pparams pa, v := bindV fn.vparams va }) := by
  unfold callWithF
  simp only [hf, huw, exec_skip]
  cases execF prog uw fuse df (n + 1) fn.body
      { s := s, n := bindN fn.nparams na, p := bindP fn.pparams pa, v := bindV fn.vparams va } with
  | ok r => obtain ⟨st, fl⟩ := r; cases fl <;> rfl
  | error e => cases e <;> rfl

theorem runF_frame0 (prog : Prog) (uw : Unwind) (fuse : Nat) (df : Bool) (n : Nat) (f : FnId) (fn : Fn) (s : Store P)
    (na : List Nat) (pa : List P) (va : List (Val P)) (hf : prog f = some fn) (huw : (uw f).1 = .skip) :
    runF prog uw fuse df (n + 1) f s na pa va
      = frame0 (execF prog uw fuse df (n + 1) fn.body
          { s := s, n := bindN fn.nparams na, p := bindP fn.pparams pa, v := bindV fn.vparams va }) := by
  rw [runF_eq, callF_frame0 _ _ _ _ _ _ _ _ _ _ _ hf huw]

theorem frame0_liftF_bind {α : Type} (x : R α) (k : α → CF P (St P × Flow P)) :
    frame0 (liftF x >>= k) = liftR x >>= fun a => frame0 (k a) := by
  cases x <;> rfl

theorem frame0_cmpAt_bind (fuse : Nat) (st : St P) (a b : P) (k : Store P × Bool → CF P (St P × Flow P)) :
    frame0 (cmpAt fuse st a b >>= k) =
      if st.s.ticks + 1 = fuse then .error (.crashed st.s) else frame0 (k (st.s.tick, decide (a < b))) := by
  unfold cmpAt
  split <;> rfl

theorem frame0_ite (c : Prop) [Decidable c] (a b : CF P (St P × Flow P)) :
    frame0 (if c then a else b) = if c then frame0 a else frame0 b := by split <;> rfl

theorem frame0_fromCall_bind (st0 : St P) (c : Except (CallStop P) (Store P × Val P))
    (k : Store P × Val P → CF P (St P × Flow P)) :
    frame0 (fromCall st0 none c >>= k) = toCRcall c >>= fun r => frame0 (k r) := by
  cases c with
  | ok r => rfl
  | error e => cases e <;> rfl

@[simp] theorem frame0_pure_normal (st : St P) : frame0 (pure (st, Flow.normal)) = pure (st.s, Val.unit) := rfl
@[simp] theorem frame0_pure_ret (st : St P) (v : Val P) : frame0 (pure (st, Flow.ret v)) = pure (st.s, v) := rfl
theorem frame0_error (f : Fault) : frame0 (.error (.fault f) : CF P (St P × Flow P)) = .error (.fault f) := rfl

theorem cmpF_bind {α : Type} (fuse : Nat) (s : Store P) (a b : P) (g : Store P × Bool → CR P α) :
    cmpF fuse s a b >>= g = if s.ticks + 1 = fuse then .error (.crashed s) else g (s.tick, decide (a < b)) := by
  unfold cmpF
  split <;> rfl

/-- the crash store of a frame without guard is the store as it is -/
def fill0 (stp : St P) : R (Store P) := pure stp.s

theorem toCR_fill0_cmpAt_bind {β : Type} (proj : St P → β) (fuse : Nat) (st : St P) (a b : P)
    (k : Store P × Bool → CF P (St P × Flow P)) :
    toCR fill0 proj (cmpAt fuse st a b >>= k) =
      if st.s.ticks + 1 = fuse then .error (.crashed st.s) else toCR fill0 proj (k (st.s.tick, decide (a < b))) := by
  rw [toCR_cmpAt_bind]; rfl

theorem toCR_fill0_fromCall_bind {β : Type} (proj : St P → β) (st0 : St P) (c : Except (CallStop P) (Store P × Val P))
    (k : Store P × Val P → CF P (St P × Flow P)) :
    toCR fill0 proj (fromCall st0 none c >>= k) = toCRcall c >>= fun r => toCR fill0 proj (k r) := by
  cases c with
  | ok r => rfl
  | error e => cases e <;> rfl

/-- composition: a sub-computation that is known through `toCR`, followed by a continuation -/
theorem toCR_bind_of {β γ : Type} (fill : St P → R (Store P)) (projB : St P → β) (proj : St P → γ)
    (x : CF P (St P × Flow P)) (y : CR P β)
    (hxy : toCR fill projB x = (fun b => (b, Flow.normal)) <$> y)
    (k : St P × Flow P → CF P (St P × Flow P)) (K : β → CR P (γ × Flow P))
    (hk : ∀ st', x = .ok (st', .normal) → toCR fill proj (k (st', .normal)) = K (projB st')) :
    toCR fill proj (x >>= k) = y >>= K := by
  cases x with
  | ok r =>
    obtain ⟨st', fl⟩ := r
    cases y with
    | error e => simp [toCR, Functor.map, Except.map] at hxy
    | ok b =>
      simp only [toCR, Functor.map, Except.map, Except.ok.injEq, Prod.mk.injEq] at hxy
      obtain ⟨h1, h2⟩ := hxy
      subst h2
      subst h1
      exact hk st' rfl
  | error e =>
    cases e with
    | fault f =>
      cases y with
      | ok b => simp [toCR, Functor.map, Except.map] at hxy
      | error ey =>
        simp only [toCR, Functor.map, Except.map, Except.error.injEq] at hxy
        subst hxy; rfl
    | panic stp =>
      simp only [toCR] at hxy
      show (match fill stp with
        | .ok s' => (.error (.crashed s') : CR P (γ × Flow P))
        | .error f => .error (.fault f)) = y >>= K
      cases hf : fill stp with
      | ok s' =>
        rw [hf] at hxy
        cases y with
        | ok b => simp [Functor.map, Except.map] at hxy
        | error ey =>
          simp only [Functor.map, Except.map, Except.error.injEq] at hxy
          subst hxy; rfl
      | error f =>
        rw [hf] at hxy
        cases y with
        | ok b => simp [Functor.map, Except.map] at hxy
        | error ey =>
          simp only [Functor.map, Except.map, Except.error.injEq] at hxy
          subst hxy; rfl

/-- a loop that ends the function: from its `toCR` description to the frame -/
theorem frame0_of_toCR (x : CF P (St P × Flow P)) (y : CR P (Store P))
    (h : toCR fill0 (fun st' => st'.s) x = (fun s' => (s', Flow.normal)) <$> y) :
    frame0 x = (fun s' => (s', Val.unit)) <$> y := by
  cases x with
  | ok r =>
    obtain ⟨st', fl⟩ := r
    cases y with
    | error e => simp [toCR, Functor.map, Except.map] at h
    | ok b =>
      simp only [toCR, Functor.map, Except.map, Except.ok.injEq, Prod.mk.injEq] at h
      obtain ⟨h1, h2⟩ := h
      subst h2; subst h1; rfl
  | error e =>
    cases e with
    | fault f =>
      cases y with
      | ok b => simp [toCR, Functor.map, Except.map] at h
      | error ey => simp only [toCR, Functor.map, Except.map, Except.error.injEq] at h; subst h; rfl
    | panic stp =>
      cases y with
      | ok b => simp [toCR, fill0, Functor.map, Except.map, pure, Except.pure] at h
      | error ey =>
        simp only [toCR, fill0, Functor.map, Except.map, pure, Except.pure, Except.error.injEq] at h
        subst h; rfl

theorem exec_step (prog : Prog) (n : Nat) (c : Stmt) (st : St P) :
    exec prog (n + 1) c st = execStep (exec prog n) (callWith (exec prog n) prog) c st := rfl

theorem toCR_error_fault {β : Type} (fill : St P → R (Store P)) (proj : St P → β) (f : Fault) :
    toCR fill proj (Except.error (StopF.fault f)) = .error (.fault f) := rfl
theorem frame0_error_fault (f : Fault) : frame0 (Except.error (StopF.fault f) : CF P (St P × Flow P)) = .error (.fault f) := rfl

/-- symbolic evaluation of the fused interpreter on a function body: the compound statements by their equations,
comparison-free blocks through the plain interpreter -/
syntax "srcF_eval" (" [" Lean.Parser.Tactic.simpLemma,* "]")? : tactic
macro_rules
  | `(tactic| srcF_eval) => `(tactic| srcF_eval [])
  | `(tactic| srcF_eval [$ls,*]) => `(tactic|
      simp (disch := decide) only [PQ.SrcEquivF.esF_seq, PQ.SrcEquivF.esF_ite, PQ.SrcEquivF.esF_call, PQ.SrcEquivF.esF_callN,
        PQ.SrcEquivF.esF_callV, PQ.SrcEquivF.esF_callX, PQ.SrcEquivF.esF_optCallN, PQ.SrcEquivF.esF_entryMatch,
        PQ.SrcEquivF.esF_match2, PQ.SrcEquivF.esF_ifHeapGet, PQ.SrcEquivF.esF_getFullMutThen,
        PQ.SrcEquivF.esF_removeFullThen, PQ.SrcEquivF.esF_mapRemoved, PQ.SrcEquivF.esF_mapChanged,
        PQ.SrcEquivF.esF_mapChangedBy, PQ.SrcEquivF.esF_forRev, PQ.SrcEquivF.execStepF_leaf, PQ.SrcEquivF.exec_step,
        PQ.SrcEquiv.es1, PQ.SrcEquiv.es2, PQ.SrcEquiv.es3, PQ.SrcEquiv.es4, PQ.SrcEquiv.es5, PQ.SrcEquiv.es6, PQ.SrcEquiv.es7, PQ.SrcEquiv.es8, PQ.SrcEquiv.es10, PQ.SrcEquiv.es11, PQ.SrcEquiv.es12, PQ.SrcEquiv.es13, PQ.SrcEquiv.es14, PQ.SrcEquiv.es15, PQ.SrcEquiv.es16, PQ.SrcEquiv.es17, PQ.SrcEquiv.es18, PQ.SrcEquiv.es19, PQ.SrcEquiv.es20, PQ.SrcEquiv.es21, PQ.SrcEquiv.es22, PQ.SrcEquiv.es23, PQ.SrcEquiv.es24, PQ.SrcEquiv.es25, PQ.SrcEquiv.es26, PQ.SrcEquiv.es27, PQ.SrcEquiv.es28, PQ.SrcEquiv.es29, PQ.SrcEquiv.es30, PQ.SrcEquiv.es31, PQ.SrcEquiv.es32, PQ.SrcEquiv.es33, PQ.SrcEquiv.es34, PQ.SrcEquiv.es35, PQ.SrcEquiv.es36, PQ.SrcEquiv.es37, PQ.SrcEquiv.es38, PQ.SrcEquiv.es39, PQ.SrcEquiv.es40, PQ.SrcEquiv.es41, PQ.SrcEquiv.es42, PQ.SrcEquiv.es43, PQ.SrcEquiv.es44, PQ.SrcEquiv.es45, PQ.SrcEquiv.es46, PQ.SrcEquiv.es47, PQ.SrcEquiv.es48, PQ.SrcEquiv.es49, PQ.SrcEquiv.es50, PQ.SrcEquiv.es51, PQ.SrcEquiv.es52, PQ.SrcEquiv.es53, PQ.SrcEquiv.es54, PQ.SrcEquiv.es55, PQ.SrcEquiv.es56, PQ.SrcEquiv.es57, PQ.SrcEquiv.es58, PQ.SrcEquiv.es59, PQ.SrcEquiv.es60, PQ.SrcEquiv.es61, PQ.SrcEquiv.es62, PQ.SrcEquiv.es63, PQ.SrcEquiv.es64, PQ.SrcEquiv.es65, PQ.SrcEquiv.es66, PQ.SrcEquiv.es67, PQ.SrcEquiv.es68, PQ.SrcEquiv.es69, PQ.SrcEquiv.es70, PQ.SrcEquiv.es71, PQ.SrcEquiv.es72, PQ.SrcEquiv.es73, PQ.SrcEquiv.es74, PQ.SrcEquiv.es75, PQ.SrcEquiv.es76, PQ.SrcEquiv.es77, PQ.SrcEquiv.es78, PQ.SrcEquiv.es79, PQ.SrcEquiv.es80, PQ.SrcEquiv.es81, PQ.SrcEquiv.es82, PQ.SrcEquiv.es84, PQ.SrcEquiv.es85, PQ.SrcEquiv.es86, PQ.SrcEquiv.es87,
        Src.evalO, Src.evalN, Src.evalNs, Src.evalP, Src.evalPs, Src.evalVs, Src.evalB, SrcF.evalBF,
        Src.bindN, Src.bindP, Src.bindV, Src.upd, Src.St.setS, Src.St.setN, Src.St.setP, Src.St.setV,
        bind_assoc, pure_bind, map_eq_pure_bind, Function.comp,
        PQ.SrcEquivF.liftF_bind, PQ.SrcEquivF.liftF_pure, PQ.SrcEquivF.liftF_ok, PQ.SrcEquivF.liftF_error,
        PQ.SrcEquivF.liftF_ite, PQ.SrcEquivF.iteF_bind, PQ.SrcEquivF.errorF_bind, PQ.SrcEquivF.okF_bind,
        PQ.SrcEquiv.ite_bind, PQ.SrcEquiv.error_bind, PQ.SrcEquiv.ok_bind, SrcGen.unwind,
        ↓reduceIte, Nat.reduceEqDiff, Bool.false_eq_true, $ls,*])

/-- from the fused interpreter's monad to the crash monad: frames, `toCR`, calls of comparison-free functions -/
syntax "srcF_cr" (" [" Lean.Parser.Tactic.simpLemma,* "]")? : tactic
macro_rules
  | `(tactic| srcF_cr) => `(tactic| srcF_cr [])
  | `(tactic| srcF_cr [$ls,*]) => `(tactic|
      simp only [PQ.SrcEquivF.callF_pf_storeSwap, PQ.SrcEquivF.callF_pf_storePrioAt, PQ.SrcEquivF.callF_pf_storeSwapRemove, PQ.SrcEquivF.callF_pf_storeRemove, PQ.SrcEquivF.callF_pf_storeClear, PQ.SrcEquivF.callF_pf_storeDrain, PQ.SrcEquivF.callF_pf_storeRetainMut, PQ.SrcEquivF.callF_pf_storeAppend, PQ.SrcEquivF.callF_pf_storeSwapRemoveIf, PQ.SrcEquivF.callF_pf_storeChangePriority, PQ.SrcEquivF.callF_pf_storeChangePriorityBy, PQ.SrcEquivF.callF_pf_storeFromVec, PQ.SrcEquivF.callF_pf_storeFromIter, PQ.SrcEquivF.callF_pf_storeExtend, PQ.SrcEquivF.callF_pf_storeVisitSeq, PQ.SrcEquivF.callF_pf_storeRetain, PQ.SrcEquivF.callF_pf_dqFindMin, PQ.SrcEquivF.callF_pf_pqPeek, PQ.SrcEquivF.callF_pf_pqPeekMut, PQ.SrcEquivF.frame0_liftF_bind, PQ.SrcEquivF.frame0_cmpAt_bind, PQ.SrcEquivF.frame0_ite,
        PQ.SrcEquivF.frame0_fromCall_bind, PQ.SrcEquivF.frame0_pure_normal, PQ.SrcEquivF.frame0_pure_ret,
        PQ.SrcEquivF.frame0_error_fault,
        PQ.SrcEquivF.toCR_fill0_fromCall_bind, PQ.SrcEquivF.toCR_liftF_bind, PQ.SrcEquivF.toCR_fill0_cmpAt_bind,
        PQ.SrcEquivF.toCR_ite, PQ.SrcEquivF.toCR_pure, PQ.SrcEquivF.toCR_error_fault,
        PQ.SrcEquivF.cmpF_bind, PQ.Crash.liftR_bind, PQ.Crash.liftR_pure, PQ.Crash.liftR_ok, PQ.Crash.liftR_error,
        PQ.SrcEquivF.liftR_ite, map_eq_pure_bind, bind_assoc, pure_bind,
        PQ.SrcEquivF.iteC_bind, PQ.SrcEquivF.errorC_bind, PQ.SrcEquivF.okC_bind, Src.upd, ↓reduceIte, Nat.reduceEqDiff,
        decide_eq_true_eq, Bool.false_eq_true, $ls,*])

/-- closes `do … = do …` goals in the crash monad whose two sides do the same things in the same order -/
macro "srcF_close" : tactic => `(tactic|
  repeat' (first
    | rfl
    | (refine PQ.SrcEquivF.liftR_bind_congr_ok fun _ _ => ?_)
    | split
    | (exfalso; simp only [PQ.SrcEquiv.size_tick] at *; omega)
    | (simp_all; done)))
end PQ.SrcEquivF
