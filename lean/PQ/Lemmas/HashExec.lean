import PQ.Lemmas.LookupLemmas
import PQ.Lemmas.History
/-!
# A hasher-indexed EXECUTION of the queue operations (definitions and helper lemmas for C18_exec)

The model's `IMap` is searched linearly (`IMap.find?`); `step` / `run` therefore never consult a hash table.  This file defines
an execution that does: every search BY KEY that the crate performs through the IndexMap goes through a lookup function

    look : IMap P → Nat → Option Nat        -- map, key ↦ slot

which `HIndex.lookOf ix` instantiates with the hash-indexed lookup `(ix m).find? m k` of the index `ix m` that the hasher
(and the table's probe order) determine for the current map `m` (`HIndex` of `Lemmas/LookupLemmas.lean`: an arbitrary hash
function and, per hash value, the slots filed under it in an arbitrary probe order).

Everything that searches by key is RE-DEFINED here with `look` in place of `IMap.find?`; the text of each definition is the
text of the model function of the same name with that one replacement:

* IndexMap level (`IMapH`): `contains` (`contains_key`), `getFull` (`get_full` / `get_full_mut` / `get_full_mut2`),
  `insertFull` (`insert_full` / the `entry` API), `swapRemoveFull` (`swap_remove_full`);
* store level (`StoreH`): `changePriority`, `changePriorityBy`, `getPriority`, `getMutWrite`, `remove`, `pushIfAbsent`,
  `append` (AFTER the swap of the two stores the search runs on the map of whichever store is the destination),
  `fromVec`, `extendStep`, `extend`, `fromIterStep`, `fromIter`, `visitSeqStep`, `visitSeq`;
* both queue kinds (`MaxQH`, `DQH`): `push`, `pushIncrease`, `pushDecrease`, `changePriority`, `changePriorityBy`, `remove`,
  `append`, `fromVec`, `fromIter`, `deserialize`, `pushAll`, `extend`;
* `stepH`, `runH`.

NOT re-defined, because they reach entries by SLOT NUMBER or by heap position only and never search by key (`get_index`,
`get_index_mut2`, `swap_remove_index`, `retain2`, `drain`, `clear`): `pop*`, `pop*_if`, `peek*_mut`, `retain_mut`, `iter_mut`,
`From<the other kind>`, `clear`, `drain`, the capacity operations, and all the sifting (`heapify`, `bubble_up`, `up_heapify`,
`heap_build`).  `stepH` falls through to `step` for them.

How the table is MAINTAINED (insertions filing a new slot, `swap_remove` re-filing the moved slot, `retain2` rebuilding it) is
IndexMap's business and is not modelled: the execution is given, for every map, *some* index (`ix : IMap P → HIndex`), and the
theorems assume only that it is `Valid` for maps with unique keys (IndexMap's own invariant: the table files exactly the stored
slots, each under the hash of its key).
-/
namespace PQ

/-- a key lookup: map, key ↦ slot -/
abbrev Look (P : Type) := IMap P → Nat → Option Nat

/-- the lookup performed through a family of hash indices (one per map): hash the key, probe its bucket, compare keys -/
def HIndex.lookOf {P : Type} (ix : IMap P → HIndex) : Look P := fun m k => (ix m).find? m k

/-- the index family of a hasher `hash` (canonical probe order: ascending slots) -/
def HIndex.family {P : Type} (hash : Nat → Nat) : IMap P → HIndex := fun m => HIndex.ofHash hash m

/-- the index family of a hasher `hash` with the REVERSE probe order inside every bucket -/
def HIndex.familyRev {P : Type} (hash : Nat → Nat) : IMap P → HIndex := fun m =>
  { hash := hash, bucket := fun h => ((HIndex.ofHash hash m).bucket h).reverse }

/-! ## IndexMap level -/
namespace IMapH
variable {P : Type}

/-- `contains_key` -/
def contains (look : Look P) (m : IMap P) (k : Nat) : Bool := (look m k).isSome

/-- `get_full` -/
def getFull (look : Look P) (m : IMap P) (k : Nat) : Option (Nat × Item × P) :=
  match look m k with
  | some i => (match m[i]? with | some e => some (i, e.1, e.2) | none => none)
  | none => none

/-- `insert_full` / the `entry` API -/
def insertFull (look : Look P) (m : IMap P) (it : Item) (p : P) : IMap P × Nat × Option P :=
  match look m it.key with
  | some i =>
    (match m[i]? with
     | some e => (m.setIfInBounds i (e.1, p), i, some e.2)
     | none => (m, i, none))
  | none => (m.push (it, p), m.size, none)

/-- `swap_remove_full` -/
def swapRemoveFull (look : Look P) (m : IMap P) (k : Nat) : Option (Nat × (Item × P) × IMap P) :=
  match look m k with
  | some i => (match IMap.swapRemoveIndex m i with | some (e, m') => some (i, e, m') | none => none)
  | none => none

end IMapH

/-! ## store level -/
namespace StoreH
variable {P : Type}
open Store

def changePriority (look : Look P) (s : Store P) (k : Nat) (p : P) : R (Store P × Option (P × Nat)) :=
  match IMapH.getFull look s.map k with
  | some (index, _, old) => do
    let pos ← getU s.qp index 116
    pure ({ s with map := s.map.setPrio index p }, some (old, pos))
  | none => pure (s, none)

def changePriorityBy (look : Look P) (s : Store P) (k : Nat) (setter : P → P) : R (Store P × Option Nat) :=
  match IMapH.getFull look s.map k with
  | some (index, _, old) => do
    let pos ← getU s.qp index 117
    pure ({ s with map := s.map.setPrio index (setter old) }, some pos)
  | none => pure (s, none)

def getPriority (look : Look P) (s : Store P) (k : Nat) : Option P := (IMapH.getFull look s.map k).map (·.2.2)

def getMutWrite (look : Look P) (s : Store P) (k : Nat) (w : Item → Item) : Store P × Option (Item × P) :=
  match IMapH.getFull look s.map k with
  | some (index, it, p) => ({ s with map := s.map.setItem index (w it) }, some (it, p))
  | none => (s, none)

def remove (look : Look P) (s : Store P) (k : Nat) : R (Store P × Option (Item × P × Nat)) :=
  match IMapH.swapRemoveFull look s.map k with
  | none => pure (s, none)
  | some (i, e, map) => do
    let size ← decC s.size 118
    let (pos, qp) ← swapRemoveC s.qp i 119
    let (_, heap) ← swapRemoveC s.heap pos 120
    let (qp, heap) ←
      if i < size then do
        let qpi ← getU qp i 121
        if qpi = size then do
          let qp ← setU qp i pos 122
          pure (qp, heap)
        else do
          let heap ← setU heap qpi i 123
          pure (qp, heap)
      else pure (qp, heap)
    let (qp, heap) ←
      if pos < size then do
        let hp ← getU heap pos 124
        if hp = size then do
          let heap ← setU heap pos i 125
          pure (qp, heap)
        else do
          let qp ← setU qp hp pos 126
          pure (qp, heap)
      else pure (qp, heap)
    pure ({ s with map := map, heap := heap, qp := qp, size := size }, some (e.1, e.2, pos))

def pushIfAbsent (look : Look P) (s : Store P) (e : Item × P) : Store P :=
  if IMapH.contains look s.map e.1.key then s
  else
    { s with map := s.map.push e, heap := s.heap.push s.size, qp := s.qp.push s.size, size := s.size + 1 }

/-- `append(other)`: the two stores are swapped first when `other` is the larger one; the loop then searches the map of the
destination `s` — whichever of the two that is — through `look` -/
def append (look : Look P) (s o : Store P) : Store P × Store P :=
  let (s, o) := if o.size > s.size then (o, s) else (s, o)
  if o.size = 0 then (s, o)
  else
    let (entries, o) := o.drain
    (entries.foldl (pushIfAbsent look) s, o)

def fromVec (look : Look P) (v : Array (Item × P)) : Store P :=
  v.foldl (pushIfAbsent look) empty

def extendStep (look : Look P) (s : Store P) (e : Item × P) : Store P :=
  match look s.map e.1.key with
  | some i => { s with map := s.map.setPrio i e.2 }
  | none =>
    { s with map := s.map.push e, heap := s.heap.push s.size, qp := s.qp.push s.size, size := s.size + 1 }

def extend (look : Look P) (s : Store P) (xs : Array (Item × P)) : Store P := xs.foldl (extendStep look) s

def fromIterStep (look : Look P) (s : Store P) (e : Item × P) : Store P :=
  match look s.map e.1.key with
  | some i => { s with map := s.map.setIfInBounds i e }
  | none =>
    { s with map := s.map.push e, heap := s.heap.push s.size, qp := s.qp.push s.size, size := s.size + 1 }

def fromIter (look : Look P) (xs : Array (Item × P)) : Store P := xs.foldl (fromIterStep look) empty

def visitSeqStep (look : Look P) (s : Store P) (e : Item × P) : Store P :=
  let (map, _, old) := IMapH.insertFull look s.map e.1 e.2
  match old with
  | some _ => { s with map := map }
  | none => { s with map := map, heap := s.heap.push s.size, qp := s.qp.push s.size, size := s.size + 1 }

def visitSeq (look : Look P) (xs : Array (Item × P)) : Store P := xs.foldl (visitSeqStep look) empty

end StoreH

/-! ## `PriorityQueue` -/
namespace MaxQH
open PQ.Arith
variable {P : Type} [LT P] [DecidableLT P]

def push (look : Look P) (s : Store P) (it : Item) (p : P) : R (Store P × Option P) :=
  let (map, idx, old) := IMapH.insertFull look s.map it p
  let s := { s with map := map }
  match old with
  | some oldp => do
    let pos ← getU s.qp idx 210
    let s ← MaxQ.upHeapify s pos
    pure (s, some oldp)
  | none => do
    let i := s.size
    let s := { s with qp := s.qp.push i, heap := s.heap.push i }
    let (s, _) ← MaxQ.bubbleUp s i i
    pure ({ s with size := s.size + 1 }, none)

def pushIncrease (look : Look P) (s : Store P) (it : Item) (p : P) : R (Store P × Option P) :=
  match StoreH.getPriority look s it.key with
  | none => push look s it p
  | some q =>
    let s := s.tick
    if q < p then push look s it p else pure (s, some p)

def pushDecrease (look : Look P) (s : Store P) (it : Item) (p : P) : R (Store P × Option P) :=
  match StoreH.getPriority look s it.key with
  | none => push look s it p
  | some q =>
    let s := s.tick
    if p < q then push look s it p else pure (s, some p)

def changePriority (look : Look P) (s : Store P) (k : Nat) (p : P) : R (Store P × Option P) := do
  let (s, r) ← StoreH.changePriority look s k p
  match r with
  | some (old, pos) => do
    let s ← MaxQ.upHeapify s pos
    pure (s, some old)
  | none => pure (s, none)

def changePriorityBy (look : Look P) (s : Store P) (k : Nat) (setter : P → P) : R (Store P × Bool) := do
  let (s, r) ← StoreH.changePriorityBy look s k setter
  match r with
  | some pos => do
    let s ← MaxQ.upHeapify s pos
    pure (s, true)
  | none => pure (s, false)

def remove (look : Look P) (s : Store P) (k : Nat) : R (Store P × Option (Item × P)) := do
  let (s, r) ← StoreH.remove look s k
  match r with
  | some (it, p, pos) =>
    if pos < s.size then do
      let s ← MaxQ.upHeapify s pos
      pure (s, some (it, p))
    else pure (s, some (it, p))
  | none => pure (s, none)

def append (look : Look P) (s o : Store P) : R (Store P × Store P) := do
  let (s, o) := StoreH.append look s o
  let s ← MaxQ.heapBuild s
  pure (s, o)

def fromVec (look : Look P) (v : Array (Item × P)) : R (Store P) := MaxQ.heapBuild (StoreH.fromVec look v)

def fromIter (look : Look P) (lo : Nat) (xs : Array (Item × P)) : R (Store P) := do
  reserveC lo
  MaxQ.heapBuild (StoreH.fromIter look xs)

def deserialize (look : Look P) (hint : Option Nat) (xs : Array (Item × P)) : R (Store P) := do
  match hint with
  | some h => reserveC (min h 4096)
  | none => pure ()
  MaxQ.heapBuild (StoreH.visitSeq look xs)

def pushAll (look : Look P) : List (Item × P) → Store P → R (Store P)
  | [], s => pure s
  | e :: es, s => do
    let (s, _) ← push look s e.1 e.2
    pushAll look es s

def extend (look : Look P) (s : Store P) (lo : Nat) (xs : Array (Item × P)) : R (Store P) := do
  reserveC lo
  let rebuild := if lo ≠ 0 then betterToRebuild s.size lo else false
  if rebuild then MaxQ.heapBuild (StoreH.extend look s xs) else pushAll look xs.toList s

end MaxQH

/-! ## `DoublePriorityQueue` -/
namespace DQH
open PQ.Arith
variable {P : Type} [LT P] [DecidableLT P]

def push (look : Look P) (s : Store P) (it : Item) (p : P) : R (Store P × Option P) :=
  let (map, idx, old) := IMapH.insertFull look s.map it p
  let s := { s with map := map }
  match old with
  | some oldp => do
    let pos ← getU s.qp idx 331
    let s ← DQ.upHeapify s pos
    pure (s, some oldp)
  | none => do
    let i := s.size
    let s := { s with qp := s.qp.push i, heap := s.heap.push i }
    let (s, _) ← DQ.bubbleUp s i i
    pure ({ s with size := s.size + 1 }, none)

def pushIncrease (look : Look P) (s : Store P) (it : Item) (p : P) : R (Store P × Option P) :=
  match StoreH.getPriority look s it.key with
  | none => push look s it p
  | some q =>
    let s := s.tick
    if q < p then push look s it p else pure (s, some p)

def pushDecrease (look : Look P) (s : Store P) (it : Item) (p : P) : R (Store P × Option P) :=
  match StoreH.getPriority look s it.key with
  | none => push look s it p
  | some q =>
    let s := s.tick
    if p < q then push look s it p else pure (s, some p)

def changePriority (look : Look P) (s : Store P) (k : Nat) (p : P) : R (Store P × Option P) := do
  let (s, r) ← StoreH.changePriority look s k p
  match r with
  | some (old, pos) => do
    let s ← DQ.upHeapify s pos
    pure (s, some old)
  | none => pure (s, none)

def changePriorityBy (look : Look P) (s : Store P) (k : Nat) (setter : P → P) : R (Store P × Bool) := do
  let (s, r) ← StoreH.changePriorityBy look s k setter
  match r with
  | some pos => do
    let s ← DQ.upHeapify s pos
    pure (s, true)
  | none => pure (s, false)

def remove (look : Look P) (s : Store P) (k : Nat) : R (Store P × Option (Item × P)) := do
  let (s, r) ← StoreH.remove look s k
  match r with
  | some (it, p, pos) =>
    if pos < s.size then do
      let s ← DQ.upHeapify s pos
      pure (s, some (it, p))
    else pure (s, some (it, p))
  | none => pure (s, none)

def append (look : Look P) (s o : Store P) : R (Store P × Store P) := do
  let (s, o) := StoreH.append look s o
  let s ← DQ.heapBuild s
  pure (s, o)

def fromVec (look : Look P) (v : Array (Item × P)) : R (Store P) := DQ.heapBuild (StoreH.fromVec look v)

def fromIter (look : Look P) (lo : Nat) (xs : Array (Item × P)) : R (Store P) := do
  reserveC lo
  DQ.heapBuild (StoreH.fromIter look xs)

def deserialize (look : Look P) (hint : Option Nat) (xs : Array (Item × P)) : R (Store P) := do
  match hint with
  | some h => reserveC (min h 4096)
  | none => pure ()
  DQ.heapBuild (StoreH.visitSeq look xs)

def pushAll (look : Look P) : List (Item × P) → Store P → R (Store P)
  | [], s => pure s
  | e :: es, s => do
    let (s, _) ← push look s e.1 e.2
    pushAll look es s

def extend (look : Look P) (s : Store P) (lo : Nat) (xs : Array (Item × P)) : R (Store P) := do
  reserveC lo
  let rebuild := if lo ≠ 0 then betterToRebuild s.size lo else false
  if rebuild then DQ.heapBuild (StoreH.extend look s xs) else pushAll look xs.toList s

end DQH

/-! ## one public operation / a history, every key search through `look` -/
section exec
variable {P : Type} [LT P] [DecidableLT P]

/-- `step` with every key search through `look`; the operations that never search by key fall through to `step` -/
def stepL (look : Look P) (q : Q P) : Op P → R (Q P × Out P)
  | .push it p => do
    let (s, r) ← (match q.kind with | .pq => MaxQH.push look q.s it p | .dpq => DQH.push look q.s it p)
    pure ({ q with s := s }, .prio r)
  | .pushIncrease it p => do
    let (s, r) ← (match q.kind with | .pq => MaxQH.pushIncrease look q.s it p | .dpq => DQH.pushIncrease look q.s it p)
    pure ({ q with s := s }, .prio r)
  | .pushDecrease it p => do
    let (s, r) ← (match q.kind with | .pq => MaxQH.pushDecrease look q.s it p | .dpq => DQH.pushDecrease look q.s it p)
    pure ({ q with s := s }, .prio r)
  | .changePriority k p => do
    let (s, r) ← (match q.kind with | .pq => MaxQH.changePriority look q.s k p | .dpq => DQH.changePriority look q.s k p)
    pure ({ q with s := s }, .prio r)
  | .changePriorityBy k g => do
    let (s, r) ← (match q.kind with
      | .pq => MaxQH.changePriorityBy look q.s k g | .dpq => DQH.changePriorityBy look q.s k g)
    pure ({ q with s := s }, .bool r)
  | .remove k => do
    let (s, r) ← (match q.kind with | .pq => MaxQH.remove look q.s k | .dpq => DQH.remove look q.s k)
    pure ({ q with s := s }, .entry r)
  | .getMut k w =>
    let (s, r) := StoreH.getMutWrite look q.s k w
    pure ({ q with s := s }, .entry r)
  | .extend lo xs => do
    let s ← (match q.kind with | .pq => MaxQH.extend look q.s lo xs | .dpq => DQH.extend look q.s lo xs)
    pure ({ q with s := s }, .unit)
  | .append o => do
    let (s, o') ← (match q.kind with | .pq => MaxQH.append look q.s o | .dpq => DQH.append look q.s o)
    pure ({ q with s := s }, .other o'.size o'.map.size o'.heap.size o'.qp.size)
  | .fromVec xs => do
    let s ← (match q.kind with | .pq => MaxQH.fromVec look xs | .dpq => DQH.fromVec look xs)
    pure ({ q with s := s }, .unit)
  | .fromIter lo xs => do
    let s ← (match q.kind with | .pq => MaxQH.fromIter look lo xs | .dpq => DQH.fromIter look lo xs)
    pure ({ q with s := s }, .unit)
  | .deserialize hint xs => do
    let s ← (match q.kind with | .pq => MaxQH.deserialize look hint xs | .dpq => DQH.deserialize look hint xs)
    pure ({ q with s := s }, .unit)
  | op => step q op

/-- a history with every key search through `look`; stops at the first fault -/
def runL (look : Look P) (q : Q P) : List (Op P) → R (Q P × List (Out P))
  | [] => pure (q, [])
  | op :: ops => do
    let (q', o) ← stepL look q op
    let (q'', os) ← runL look q' ops
    pure (q'', o :: os)

/-- **the hasher-indexed execution of one public operation**: every key search goes through the hash index `ix m` of the
current map `m` -/
def stepH (ix : IMap P → HIndex) (q : Q P) (op : Op P) : R (Q P × Out P) := stepL (HIndex.lookOf ix) q op

/-- **the hasher-indexed execution of a history** -/
def runH (ix : IMap P → HIndex) (q : Q P) (ops : List (Op P)) : R (Q P × List (Out P)) := runL (HIndex.lookOf ix) q ops

/-- a history in which the index family may be a DIFFERENT one at every operation (`ix t` serves the `t`-th operation): the
hash table of a real IndexMap is a function of the whole past (probe order depends on insertion/removal order, on growth
and rehashing), not of the current entries alone -/
def runHv (ix : Nat → IMap P → HIndex) (t : Nat) (q : Q P) : List (Op P) → R (Q P × List (Out P))
  | [] => pure (q, [])
  | op :: ops => do
    let (q', o) ← stepH (ix t) q op
    let (q'', os) ← runHv ix (t + 1) q' ops
    pure (q'', o :: os)

end exec

/-! ## the indexed functions equal the model functions wherever the searched map has unique keys -/

/-- `look` finds what the linear search finds on every map with unique keys -/
def Look.Agrees {P : Type} (look : Look P) : Prop := ∀ m : IMap P, m.NoDupKeys → ∀ k, look m k = IMap.find? m k

theorem HIndex.lookOf_agrees {P : Type} (ix : IMap P → HIndex) (hv : ∀ m : IMap P, m.NoDupKeys → (ix m).Valid m) :
    (HIndex.lookOf ix).Agrees :=
  fun m hm k => HIndex.find?_eq_model hm (hv m hm) k

theorem HIndex.family_valid {P : Type} (hash : Nat → Nat) (m : IMap P) : (HIndex.family hash m).Valid m :=
  HIndex.ofHash_valid hash m

theorem HIndex.familyRev_valid {P : Type} (hash : Nat → Nat) (m : IMap P) : (HIndex.familyRev hash m).Valid m := by
  have h := HIndex.ofHash_valid hash m
  constructor
  · intro i e he
    have h1 : i ∈ (HIndex.ofHash hash m).bucket (hash e.1.key) := h.1 i e he
    simpa [HIndex.familyRev] using h1
  · intro b i hi
    have hi' : i ∈ (HIndex.ofHash hash m).bucket b := by simpa [HIndex.familyRev] using hi
    exact h.2 b i hi'

namespace IMapH
variable {P : Type} {look : Look P}

theorem contains_eq (hl : look.Agrees) {m : IMap P} (hm : m.NoDupKeys) (k : Nat) :
    contains look m k = IMap.contains m k := by
  simp only [contains, IMap.contains, hl m hm] <;> rfl

theorem getFull_eq (hl : look.Agrees) {m : IMap P} (hm : m.NoDupKeys) (k : Nat) :
    getFull look m k = IMap.getFull m k := by
  simp only [getFull, IMap.getFull, hl m hm] <;> rfl

theorem insertFull_eq (hl : look.Agrees) {m : IMap P} (hm : m.NoDupKeys) (it : Item) (p : P) :
    insertFull look m it p = IMap.insertFull m it p := by
  simp only [insertFull, IMap.insertFull, hl m hm] <;> rfl

theorem swapRemoveFull_eq (hl : look.Agrees) {m : IMap P} (hm : m.NoDupKeys) (k : Nat) :
    swapRemoveFull look m k = IMap.swapRemoveFull m k := by
  simp only [swapRemoveFull, IMap.swapRemoveFull, hl m hm] <;> rfl

end IMapH

/-- two folds agree when their steps agree on states satisfying an invariant the (second) step preserves -/
theorem hx_foldl_congr {α β : Type} {f g : β → α → β} (I : β → Prop)
    (hstep : ∀ b a, I b → f b a = g b a) (hinv : ∀ b a, I b → I (g b a)) :
    ∀ (l : List α) (b : β), I b → l.foldl f b = l.foldl g b
  | [], _, _ => rfl
  | a :: l, b, hb => by
    simp only [List.foldl_cons, hstep b a hb]
    exact hx_foldl_congr I hstep hinv l _ (hinv b a hb)

theorem hx_array_foldl_congr {α β : Type} {f g : β → α → β} (I : β → Prop)
    (hstep : ∀ b a, I b → f b a = g b a) (hinv : ∀ b a, I b → I (g b a))
    (xs : Array α) (b : β) (hb : I b) : xs.foldl f b = xs.foldl g b := by
  rw [← Array.foldl_toList, ← Array.foldl_toList]
  exact hx_foldl_congr I hstep hinv xs.toList b hb

namespace StoreH
variable {P : Type} {look : Look P}
open Store

theorem changePriority_eq (hl : look.Agrees) {s : Store P} (h : s.map.NoDupKeys) (k : Nat) (p : P) :
    changePriority look s k p = Store.changePriority s k p := by
  simp only [changePriority, Store.changePriority, IMapH.getFull_eq hl h] <;> rfl

theorem changePriorityBy_eq (hl : look.Agrees) {s : Store P} (h : s.map.NoDupKeys) (k : Nat) (g : P → P) :
    changePriorityBy look s k g = Store.changePriorityBy s k g := by
  simp only [changePriorityBy, Store.changePriorityBy, IMapH.getFull_eq hl h] <;> rfl

theorem getPriority_eq (hl : look.Agrees) {s : Store P} (h : s.map.NoDupKeys) (k : Nat) :
    getPriority look s k = Store.getPriority s k := by
  simp only [getPriority, Store.getPriority, IMapH.getFull_eq hl h] <;> rfl

theorem getMutWrite_eq (hl : look.Agrees) {s : Store P} (h : s.map.NoDupKeys) (k : Nat) (w : Item → Item) :
    getMutWrite look s k w = Store.getMutWrite s k w := by
  simp only [getMutWrite, Store.getMutWrite, IMapH.getFull_eq hl h] <;> rfl

theorem remove_eq (hl : look.Agrees) {s : Store P} (h : s.map.NoDupKeys) (k : Nat) :
    remove look s k = Store.remove s k := by
  simp only [remove, Store.remove, IMapH.swapRemoveFull_eq hl h] <;> rfl

theorem pushIfAbsent_eq (hl : look.Agrees) {s : Store P} (h : s.map.NoDupKeys) (e : Item × P) :
    pushIfAbsent look s e = Store.pushIfAbsent s e := by
  simp only [pushIfAbsent, Store.pushIfAbsent, IMapH.contains_eq hl h] <;> rfl

theorem extendStep_eq (hl : look.Agrees) {s : Store P} (h : s.map.NoDupKeys) (e : Item × P) :
    extendStep look s e = Store.extendStep s e := by
  simp only [extendStep, Store.extendStep, hl _ h] <;> rfl

theorem fromIterStep_eq (hl : look.Agrees) {s : Store P} (h : s.map.NoDupKeys) (e : Item × P) :
    fromIterStep look s e = Store.fromIterStep s e := by
  simp only [fromIterStep, Store.fromIterStep, hl _ h] <;> rfl

theorem visitSeqStep_eq (hl : look.Agrees) {s : Store P} (h : s.map.NoDupKeys) (e : Item × P) :
    visitSeqStep look s e = Store.visitSeqStep s e := by
  simp only [visitSeqStep, Store.visitSeqStep, IMapH.insertFull_eq hl h] <;> rfl

theorem foldl_pushIfAbsent_eq (hl : look.Agrees) (xs : Array (Item × P)) {s : Store P} (h : s.WF) :
    xs.foldl (pushIfAbsent look) s = xs.foldl Store.pushIfAbsent s :=
  hx_array_foldl_congr Store.WF (fun _ e hb => pushIfAbsent_eq hl hb.nodup e) (fun _ e hb => wf_pushIfAbsent hb e) xs s h

theorem fromVec_eq (hl : look.Agrees) (v : Array (Item × P)) : fromVec look v = Store.fromVec v :=
  foldl_pushIfAbsent_eq hl v wf_empty

theorem append_eq (hl : look.Agrees) {s o : Store P} (hs : s.WF) (ho : o.WF) :
    append look s o = Store.append s o := by
  unfold append Store.append
  by_cases hc : o.size > s.size
  · simp only [hc, if_true, drain, foldl_pushIfAbsent_eq hl _ ho]
  · simp only [hc, if_false, drain, foldl_pushIfAbsent_eq hl _ hs]

theorem extend_eq (hl : look.Agrees) {s : Store P} (h : s.WF) (xs : Array (Item × P)) :
    extend look s xs = Store.extend s xs :=
  hx_array_foldl_congr Store.WF (fun _ e hb => extendStep_eq hl hb.nodup e) (fun _ e hb => wf_extendStep hb e) xs s h

theorem fromIter_eq (hl : look.Agrees) (xs : Array (Item × P)) : fromIter look xs = Store.fromIter xs :=
  hx_array_foldl_congr Store.WF (fun _ e hb => fromIterStep_eq hl hb.nodup e) (fun _ e hb => wf_fromIterStep hb e)
    xs empty wf_empty

theorem visitSeq_eq (hl : look.Agrees) (xs : Array (Item × P)) : visitSeq look xs = Store.visitSeq xs :=
  hx_array_foldl_congr Store.WF (fun _ e hb => visitSeqStep_eq hl hb.nodup e) (fun _ e hb => wf_visitSeqStep hb e)
    xs empty wf_empty

end StoreH

namespace MaxQH
variable {P : Type} [LT P] [DecidableLT P] {look : Look P}

theorem push_eq (hl : look.Agrees) {s : Store P} (h : s.map.NoDupKeys) (it : Item) (p : P) :
    push look s it p = MaxQ.push s it p := by
  simp only [push, MaxQ.push, IMapH.insertFull_eq hl h] <;> rfl

theorem pushIncrease_eq (hl : look.Agrees) {s : Store P} (h : s.map.NoDupKeys) (it : Item) (p : P) :
    pushIncrease look s it p = MaxQ.pushIncrease s it p := by
  have ht : s.tick.map.NoDupKeys := h
  simp only [pushIncrease, MaxQ.pushIncrease, StoreH.getPriority_eq hl h, push_eq hl h, push_eq hl ht] <;> rfl

theorem pushDecrease_eq (hl : look.Agrees) {s : Store P} (h : s.map.NoDupKeys) (it : Item) (p : P) :
    pushDecrease look s it p = MaxQ.pushDecrease s it p := by
  have ht : s.tick.map.NoDupKeys := h
  simp only [pushDecrease, MaxQ.pushDecrease, StoreH.getPriority_eq hl h, push_eq hl h, push_eq hl ht] <;> rfl

theorem changePriority_eq (hl : look.Agrees) {s : Store P} (h : s.map.NoDupKeys) (k : Nat) (p : P) :
    changePriority look s k p = MaxQ.changePriority s k p := by
  simp only [changePriority, MaxQ.changePriority, StoreH.changePriority_eq hl h] <;> rfl

theorem changePriorityBy_eq (hl : look.Agrees) {s : Store P} (h : s.map.NoDupKeys) (k : Nat) (g : P → P) :
    changePriorityBy look s k g = MaxQ.changePriorityBy s k g := by
  simp only [changePriorityBy, MaxQ.changePriorityBy, StoreH.changePriorityBy_eq hl h] <;> rfl

theorem remove_eq (hl : look.Agrees) {s : Store P} (h : s.map.NoDupKeys) (k : Nat) :
    remove look s k = MaxQ.remove s k := by
  simp only [remove, MaxQ.remove, StoreH.remove_eq hl h] <;> rfl

theorem append_eq (hl : look.Agrees) {s o : Store P} (hs : s.WF) (ho : o.WF) :
    append look s o = MaxQ.append s o := by
  simp only [append, MaxQ.append, StoreH.append_eq hl hs ho] <;> rfl

theorem fromVec_eq (hl : look.Agrees) (v : Array (Item × P)) : fromVec look v = MaxQ.fromVec v := by
  simp only [fromVec, MaxQ.fromVec, StoreH.fromVec_eq hl] <;> rfl

theorem fromIter_eq (hl : look.Agrees) (lo : Nat) (xs : Array (Item × P)) : fromIter look lo xs = MaxQ.fromIter lo xs := by
  simp only [fromIter, MaxQ.fromIter, StoreH.fromIter_eq hl] <;> rfl

theorem deserialize_eq (hl : look.Agrees) (hint : Option Nat) (xs : Array (Item × P)) :
    deserialize look hint xs = MaxQ.deserialize hint xs := by
  simp only [deserialize, MaxQ.deserialize, StoreH.visitSeq_eq hl] <;> rfl

end MaxQH

namespace DQH
variable {P : Type} [LT P] [DecidableLT P] {look : Look P}

theorem push_eq (hl : look.Agrees) {s : Store P} (h : s.map.NoDupKeys) (it : Item) (p : P) :
    push look s it p = DQ.push s it p := by
  simp only [push, DQ.push, IMapH.insertFull_eq hl h] <;> rfl

theorem pushIncrease_eq (hl : look.Agrees) {s : Store P} (h : s.map.NoDupKeys) (it : Item) (p : P) :
    pushIncrease look s it p = DQ.pushIncrease s it p := by
  have ht : s.tick.map.NoDupKeys := h
  simp only [pushIncrease, DQ.pushIncrease, StoreH.getPriority_eq hl h, push_eq hl h, push_eq hl ht] <;> rfl

theorem pushDecrease_eq (hl : look.Agrees) {s : Store P} (h : s.map.NoDupKeys) (it : Item) (p : P) :
    pushDecrease look s it p = DQ.pushDecrease s it p := by
  have ht : s.tick.map.NoDupKeys := h
  simp only [pushDecrease, DQ.pushDecrease, StoreH.getPriority_eq hl h, push_eq hl h, push_eq hl ht] <;> rfl

theorem changePriority_eq (hl : look.Agrees) {s : Store P} (h : s.map.NoDupKeys) (k : Nat) (p : P) :
    changePriority look s k p = DQ.changePriority s k p := by
  simp only [changePriority, DQ.changePriority, StoreH.changePriority_eq hl h] <;> rfl

theorem changePriorityBy_eq (hl : look.Agrees) {s : Store P} (h : s.map.NoDupKeys) (k : Nat) (g : P → P) :
    changePriorityBy look s k g = DQ.changePriorityBy s k g := by
  simp only [changePriorityBy, DQ.changePriorityBy, StoreH.changePriorityBy_eq hl h] <;> rfl

theorem remove_eq (hl : look.Agrees) {s : Store P} (h : s.map.NoDupKeys) (k : Nat) :
    remove look s k = DQ.remove s k := by
  simp only [remove, DQ.remove, StoreH.remove_eq hl h] <;> rfl

theorem append_eq (hl : look.Agrees) {s o : Store P} (hs : s.WF) (ho : o.WF) :
    append look s o = DQ.append s o := by
  simp only [append, DQ.append, StoreH.append_eq hl hs ho] <;> rfl

theorem fromVec_eq (hl : look.Agrees) (v : Array (Item × P)) : fromVec look v = DQ.fromVec v := by
  simp only [fromVec, DQ.fromVec, StoreH.fromVec_eq hl] <;> rfl

theorem fromIter_eq (hl : look.Agrees) (lo : Nat) (xs : Array (Item × P)) : fromIter look lo xs = DQ.fromIter lo xs := by
  simp only [fromIter, DQ.fromIter, StoreH.fromIter_eq hl] <;> rfl

theorem deserialize_eq (hl : look.Agrees) (hint : Option Nat) (xs : Array (Item × P)) :
    deserialize look hint xs = DQ.deserialize hint xs := by
  simp only [deserialize, DQ.deserialize, StoreH.visitSeq_eq hl] <;> rfl

end DQH

/-! ### the per-element strategy of `extend` needs the order structure (it uses `push_safe`: every push keeps `WF`) -/
section pushAll
variable {P : Type} [LT P] [DecidableLT P] [LE P] [Std.IsLinearPreorder P] [Std.LawfulOrderLT P] {look : Look P}

theorem MaxQH.pushAll_eq (hl : look.Agrees) : ∀ (es : List (Item × P)) {s : Store P}, s.WF →
    MaxQH.pushAll look es s = MaxQ.pushAll es s
  | [], _, _ => rfl
  | e :: es, s, h => by
    obtain ⟨s', he, hwf, _⟩ := MaxQ.push_safe h e.1 e.2
    simp only [MaxQH.pushAll, MaxQ.pushAll, MaxQH.push_eq hl h.nodup, he, bind, Except.bind]
    exact MaxQH.pushAll_eq hl es hwf

theorem MaxQH.extend_eq (hl : look.Agrees) {s : Store P} (h : s.WF) (lo : Nat) (xs : Array (Item × P)) :
    MaxQH.extend look s lo xs = MaxQ.extend s lo xs := by
  simp only [MaxQH.extend, MaxQ.extend, StoreH.extend_eq hl h, MaxQH.pushAll_eq hl _ h] <;> rfl

theorem DQH.pushAll_eq (hl : look.Agrees) : ∀ (es : List (Item × P)) {s : Store P}, s.WF →
    DQH.pushAll look es s = DQ.pushAll es s
  | [], _, _ => rfl
  | e :: es, s, h => by
    obtain ⟨s', he, hwf, _⟩ := DQ.push_safe h e.1 e.2
    simp only [DQH.pushAll, DQ.pushAll, DQH.push_eq hl h.nodup, he, bind, Except.bind]
    exact DQH.pushAll_eq hl es hwf

theorem DQH.extend_eq (hl : look.Agrees) {s : Store P} (h : s.WF) (lo : Nat) (xs : Array (Item × P)) :
    DQH.extend look s lo xs = DQ.extend s lo xs := by
  simp only [DQH.extend, DQ.extend, StoreH.extend_eq hl h, DQH.pushAll_eq hl _ h] <;> rfl

end pushAll

end PQ
