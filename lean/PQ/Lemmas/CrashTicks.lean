import PQ.Lemmas.CrashLemmas
import PQ.Lemmas.Cost
/-!
# Comparison counts of INTERRUPTED calls (for `PQ/Props/C05_more.lean`)

For every fused twin `fF` of `PQ/Model/Crash.lean` we relate the run with an arbitrary fuse, `fF fuse …`, to the run of the
*same twin* with the fuse off, `fF 0 …` (which is the plain function: `cr_er_…`, `cr_stepF_zero`).  The relation is

  `TK fuse lo x x0`   (`lo` = the counter of the store the computation starts from):
  * (monotone) if `x0 = .ok r` then `lo ≤ ticks r`;
  * if `x = .ok a` then `x0 = .ok a` — the fuse did not fire: same result — and, if the fuse lay in the future
    (`lo < fuse`), it still does: `ticks a < fuse` (no comparison with ordinal `fuse` was performed);
  * if `x = .error (.crashed s')` then `s'.ticks + 1 = fuse` — the crash state has counted exactly the comparisons *before*
    the panicking one —, `lo ≤ s'.ticks` — the fuse lay in the future —, and `x0 = .ok r → fuse ≤ ticks r` — the completed
    run performs the panicking comparison too (and possibly more): the interrupted run has performed a *prefix* of the
    comparisons of the completed run;
  * if `x = .error .crashedNew` then `lo < fuse` and `x0 = .ok r → fuse ≤ ticks r`.

No hypothesis on the stores (well-formed or not) is needed: the statement is about the counter only.  The proofs follow the
text of the twins: one rule per primitive (`cmpF`, `cmpHoleF`, `liftR`, `pure`, `>>=`, `asNew`), loops by induction on the fuel.
-/
set_option linter.unusedSimpArgs false
set_option linter.unusedSectionVars false
set_option linter.unusedVariables false
namespace PQ.Crash
open PQ PQ.Arith PQ.Store

/-- the ghost counter carried by a result -/
class HasTk (α : Type) where
  tk : α → Nat

instance {P : Type} : HasTk (Store P) := ⟨fun s => s.ticks⟩
instance {P β : Type} : HasTk (Store P × β) := ⟨fun r => r.1.ticks⟩

section Rules
variable {P : Type} [LT P] [DecidableLT P]

/-- what the outcome `x` of a fused computation started at counter `lo` says about its counter, relative to the fuse-off
run `x0` -/
def TKPost {α : Type} [HasTk α] (fuse lo : Nat) (x x0 : CR P α) : Prop :=
  match x with
  | .ok a => x0 = .ok a ∧ (lo < fuse → HasTk.tk a < fuse)
  | .error (.crashed s') => s'.ticks + 1 = fuse ∧ lo ≤ s'.ticks ∧ ∀ r, x0 = .ok r → fuse ≤ HasTk.tk r
  | .error .crashedNew => lo < fuse ∧ ∀ r, x0 = .ok r → fuse ≤ HasTk.tk r
  | .error (.fault _) => True

/-- see the header of this file -/
def TK {α : Type} [HasTk α] (fuse lo : Nat) (x x0 : CR P α) : Prop :=
  (∀ r, x0 = .ok r → lo ≤ HasTk.tk r) ∧ TKPost fuse lo x x0

/-- the same outcome seen from an earlier starting point `lo ≤ lo1`, provided no comparison with ordinal `fuse` lies
between the two -/
theorem TKPost.rebase {α : Type} [HasTk α] {fuse lo lo1 : Nat} {x x0 : CR P α} (h : TKPost fuse lo1 x x0)
    (h1 : lo ≤ lo1) (h2 : lo < fuse → lo1 < fuse) : TKPost fuse lo x x0 := by
  cases x with
  | ok a =>
    obtain ⟨a1, a2⟩ : x0 = .ok a ∧ (lo1 < fuse → HasTk.tk a < fuse) := h
    exact ⟨a1, fun hl => a2 (h2 hl)⟩
  | error e =>
    cases e with
    | fault f => trivial
    | crashed s' =>
      obtain ⟨a1, a2, a3⟩ : s'.ticks + 1 = fuse ∧ lo1 ≤ s'.ticks ∧ ∀ r, x0 = .ok r → fuse ≤ HasTk.tk r := h
      exact ⟨a1, Nat.le_trans h1 a2, a3⟩
    | crashedNew =>
      obtain ⟨a1, a2⟩ : lo1 < fuse ∧ ∀ r, x0 = .ok r → fuse ≤ HasTk.tk r := h
      exact ⟨Nat.lt_of_le_of_lt h1 a1, a2⟩

theorem TK.cast {α : Type} [HasTk α] {fuse lo lo' : Nat} {x x0 : CR P α} (h : TK fuse lo x x0) (hl : lo' = lo) :
    TK fuse lo' x x0 := hl ▸ h

theorem TK.pure {α : Type} [HasTk α] {fuse lo : Nat} (a : α) (h : HasTk.tk a = lo) :
    TK fuse lo (Pure.pure a : CR P α) (Pure.pure a) :=
  ⟨fun r hr => (by cases hr; exact Nat.le_of_eq h.symm), rfl, fun hl => h ▸ hl⟩

theorem TK.ok {α : Type} [HasTk α] {fuse lo : Nat} (a : α) (h : HasTk.tk a = lo) :
    TK fuse lo (.ok a : CR P α) (.ok a) :=
  ⟨fun r hr => (by cases hr; exact Nat.le_of_eq h.symm), rfl, fun hl => h ▸ hl⟩

/-- the same plain computation (one that does not touch the counter) on both sides -/
theorem TK.lift {α : Type} [HasTk α] {fuse lo : Nat} (y : R α) (h : ∀ a, y = .ok a → HasTk.tk a = lo) :
    TK fuse lo (liftR y : CR P α) (liftR y) := by
  cases y with
  | ok a => exact TK.ok a (h a rfl)
  | error f => exact ⟨fun r hr => (by cases hr), trivial⟩

theorem TK.fault2 {α : Type} [HasTk α] {fuse lo : Nat} (f g : Fault) :
    TK fuse lo (.error (.fault f) : CR P α) (.error (.fault g)) := ⟨fun r hr => (by cases hr), trivial⟩

/-- sequencing -/
theorem TK.bind {α β : Type} [HasTk α] [HasTk β] {fuse lo : Nat} {x x0 : CR P α} {f f0 : α → CR P β}
    (h : TK fuse lo x x0) (hf : ∀ a, x0 = .ok a → TK fuse (HasTk.tk a) (f a) (f0 a)) :
    TK fuse lo (x >>= f) (x0 >>= f0) := by
  have hmono : ∀ r, (x0 >>= f0) = .ok r → ∃ a, x0 = .ok a ∧ f0 a = .ok r := by
    intro r hr
    cases x0 with
    | error e => cases hr
    | ok a => exact ⟨a, rfl, hr⟩
  refine ⟨fun r hr => ?_, ?_⟩
  · obtain ⟨a, ha, hr⟩ := hmono r hr
    exact Nat.le_trans (h.1 a ha) ((hf a ha).1 r hr)
  · cases x with
    | ok a =>
      obtain ⟨ha, hlt⟩ : x0 = .ok a ∧ (lo < fuse → HasTk.tk a < fuse) := h.2
      subst ha
      exact (hf a rfl).2.rebase (h.1 a rfl) hlt
    | error e =>
      cases e with
      | fault f => trivial
      | crashed s' =>
        obtain ⟨h1, h2, h3⟩ : s'.ticks + 1 = fuse ∧ lo ≤ s'.ticks ∧ ∀ r, x0 = .ok r → fuse ≤ HasTk.tk r := h.2
        refine ⟨h1, h2, fun r hr => ?_⟩
        obtain ⟨a, ha, hr⟩ := hmono r hr
        exact Nat.le_trans (h3 a ha) ((hf a ha).1 r hr)
      | crashedNew =>
        obtain ⟨h2, h3⟩ : lo < fuse ∧ ∀ r, x0 = .ok r → fuse ≤ HasTk.tk r := h.2
        refine ⟨h2, fun r hr => ?_⟩
        obtain ⟨a, ha, hr⟩ := hmono r hr
        exact Nat.le_trans (h3 a ha) ((hf a ha).1 r hr)

/-- a lifted plain step (it carries no counter): the continuation starts from the same `lo` -/
theorem TK.bind_lift {α β : Type} [HasTk β] {fuse lo : Nat} (y : R α) {f f0 : α → CR P β}
    (hf : ∀ a, y = .ok a → TK fuse lo (f a) (f0 a)) :
    TK fuse lo (liftR y >>= f) (liftR y >>= f0) := by
  cases y with
  | ok a => exact hf a rfl
  | error e => exact TK.fault2 e e

theorem TK.ite {α : Type} [HasTk α] {fuse lo : Nat} (c : Prop) [Decidable c] {a b a0 b0 : CR P α}
    (h1 : c → TK fuse lo a a0) (h2 : ¬ c → TK fuse lo b b0) :
    TK fuse lo (if c then a else b) (if c then a0 else b0) := by
  by_cases h : c
  · simp only [h, if_true]; exact h1 h
  · simp only [h, if_false]; exact h2 h

/-- a comparison site without a guard -/
theorem TK.cmp {β : Type} [HasTk β] {fuse lo : Nat} {s : Store P} {a b : P} {f f0 : Store P × Bool → CR P β}
    (hlo : s.ticks = lo) (h : TK fuse (s.ticks + 1) (f (s.tick, decide (a < b))) (f0 (s.tick, decide (a < b)))) :
    TK fuse lo (cmpF fuse s a b >>= f) (cmpF 0 s a b >>= f0) := by
  subst hlo
  rw [cmpF_zero, cr_ok_bind]
  refine ⟨fun r hr => Nat.le_trans (Nat.le_succ _) (h.1 r hr), ?_⟩
  unfold cmpF
  split
  · next hf => exact ⟨hf, Nat.le_refl _, fun r hr => hf ▸ h.1 r hr⟩
  · next hf =>
    rw [cr_ok_bind]
    exact h.2.rebase (Nat.le_succ _) (fun hl => by omega)

omit [LT P] [DecidableLT P] in
theorem fillHole_ticks {s s' : Store P} {pos mp sh sq : Nat} (h : fillHole s pos mp sh sq = .ok s') :
    s'.ticks = s.ticks := by
  unfold fillHole at h
  cases h1 : setU s.heap pos mp sh with
  | error e => rw [h1] at h; cases h
  | ok heap =>
    cases h2 : setU s.qp mp pos sq with
    | error e => rw [h1, h2] at h; cases h
    | ok qp => rw [h1, h2] at h; cases h; rfl

/-- a comparison site under a live `Hole` guard: the guard's writes do not touch the counter -/
theorem TK.cmpHole {β : Type} [HasTk β] {fuse lo : Nat} {s : Store P} {a b : P} {pos mp sh sq : Nat}
    {f f0 : Store P × Bool → CR P β}
    (hlo : s.ticks = lo) (h : TK fuse (s.ticks + 1) (f (s.tick, decide (a < b))) (f0 (s.tick, decide (a < b)))) :
    TK fuse lo (cmpHoleF fuse s a b pos mp sh sq >>= f) (cmpHoleF 0 s a b pos mp sh sq >>= f0) := by
  subst hlo
  rw [cmpHoleF_zero, cr_ok_bind]
  refine ⟨fun r hr => Nat.le_trans (Nat.le_succ _) (h.1 r hr), ?_⟩
  unfold cmpHoleF
  split
  · next hf =>
    cases hfill : fillHole s pos mp sh sq with
    | error e => trivial
    | ok s' =>
      have e := fillHole_ticks hfill
      exact ⟨by rw [e]; exact hf, Nat.le_of_eq e.symm, fun r hr => hf ▸ h.1 r hr⟩
  · next hf =>
    rw [cr_ok_bind]
    exact h.2.rebase (Nat.le_succ _) (fun hl => by omega)

/-- a constructor: the crashed fresh store is dropped -/
theorem TK.new {α : Type} [HasTk α] {fuse lo : Nat} {x x0 : CR P α} (h : TK fuse lo x x0)
    (h0 : ∀ s', x0 ≠ .error (.crashed s')) : TK fuse lo (Crash.asNew x) (Crash.asNew x0) := by
  have e0 : Crash.asNew x0 = x0 := by
    cases x0 with
    | ok a => rfl
    | error e =>
      cases e with
      | crashed s' => exact absurd rfl (h0 s')
      | fault f => rfl
      | crashedNew => rfl
  rw [e0]
  refine ⟨h.1, ?_⟩
  cases x with
  | ok a => exact h.2
  | error e =>
    cases e with
    | fault f => trivial
    | crashed s' =>
      obtain ⟨h1, h2, h3⟩ : s'.ticks + 1 = fuse ∧ lo ≤ s'.ticks ∧ ∀ r, x0 = .ok r → fuse ≤ HasTk.tk r := h.2
      exact ⟨by omega, h3⟩
    | crashedNew => exact h.2

/-- `TK.bind` for a fused step returning a store -/
theorem TK.bindS {β : Type} [HasTk β] {fuse lo : Nat} {x x0 : CR P (Store P)} {f f0 : Store P → CR P β}
    (h : TK fuse lo x x0) (hf : ∀ s1, x0 = .ok s1 → TK fuse s1.ticks (f s1) (f0 s1)) :
    TK fuse lo (x >>= f) (x0 >>= f0) := TK.bind h hf

/-- `TK.bind` for a fused step returning a store and a value (the continuation is presented applied to a pair, so that
the destructuring `let (s, r) ← …` of the twins reduces) -/
theorem TK.bind2 {β γ : Type} [HasTk β] {fuse lo : Nat} {x x0 : CR P (Store P × γ)} {f f0 : Store P × γ → CR P β}
    (h : TK fuse lo x x0) (hf : ∀ s1 c, x0 = .ok (s1, c) → TK fuse s1.ticks (f (s1, c)) (f0 (s1, c))) :
    TK fuse lo (x >>= f) (x0 >>= f0) := TK.bind h (fun a ha => hf a.1 a.2 ha)

/-- `TK.bind_lift` for a plain step returning a pair -/
theorem TK.bind_lift2 {α γ β : Type} [HasTk β] {fuse lo : Nat} (y : R (α × γ)) {f f0 : α × γ → CR P β}
    (hf : ∀ a c, y = .ok (a, c) → TK fuse lo (f (a, c)) (f0 (a, c))) :
    TK fuse lo (liftR y >>= f) (liftR y >>= f0) := TK.bind_lift y (fun a ha => hf a.1 a.2 ha)

omit [LT P] [DecidableLT P] in
theorem liftR_ne_crashed {α : Type} (y : R α) (s' : Store P) : (liftR y : CR P α) ≠ .error (.crashed s') := by
  cases y <;> intro h <;> cases h

end Rules


/-! ### the plain store functions that return a store do not touch the counter (`PQ/Lemmas/Cost.lean`) -/
section StoreSteps
variable {P : Type} [LT P] [DecidableLT P]

theorem tk_swap (fuse : Nat) (s : Store P) (a b : Nat) :
    TK fuse s.ticks (liftR (s.swap a b) : CR P (Store P)) (liftR (s.swap a b)) :=
  TK.lift _ fun _ h => (Store.swap_cost h).2.1

theorem tk_swapRemove (fuse : Nat) (s : Store P) (p : Nat) :
    TK fuse s.ticks (liftR (s.swapRemove p) : CR P _) (liftR (s.swapRemove p)) :=
  TK.lift _ fun a h => (Store.swapRemove_cost (s1 := a.1) (r := a.2) h).2

theorem tk_swapRemoveIf (fuse : Nat) (s : Store P) (p : Nat) (f : Item → P → Bool × Item × P) :
    TK fuse s.ticks (liftR (s.swapRemoveIf p f) : CR P _) (liftR (s.swapRemoveIf p f)) :=
  TK.lift _ fun a h => (Store.swapRemoveIf_cost (s1 := a.1) (r := a.2) h).2

theorem tk_changePriority (fuse : Nat) (s : Store P) (k : Nat) (p : P) :
    TK fuse s.ticks (liftR (s.changePriority k p) : CR P _) (liftR (s.changePriority k p)) :=
  TK.lift _ fun a h => (Store.changePriority_cost (s1 := a.1) (r := a.2) h).2.1

theorem tk_changePriorityBy (fuse : Nat) (s : Store P) (k : Nat) (g : P → P) :
    TK fuse s.ticks (liftR (s.changePriorityBy k g) : CR P _) (liftR (s.changePriorityBy k g)) :=
  TK.lift _ fun a h => (Store.changePriorityBy_cost (s1 := a.1) (r := a.2) h).2.1

theorem tk_remove (fuse : Nat) (s : Store P) (k : Nat) :
    TK fuse s.ticks (liftR (s.remove k) : CR P _) (liftR (s.remove k)) :=
  TK.lift _ fun a h => (Store.remove_cost (s1 := a.1) (r := a.2) h).2

end StoreSteps

/-- one routine step through the text of a twin -/
macro "tk_step" : tactic => `(tactic| first
  | exact TK.pure _ rfl
  | exact TK.fault2 _ _
  | refine TK.cmp rfl ?_
  | refine TK.cmpHole rfl ?_
  | refine TK.bindS (tk_swap _ _ _ _) (fun _ _ => ?_)
  | refine TK.bind2 (tk_swapRemove _ _ _) (fun _ _ _ => ?_)
  | refine TK.bind2 (tk_swapRemoveIf _ _ _ _) (fun _ _ _ => ?_)
  | refine TK.bind2 (tk_changePriority _ _ _ _) (fun _ _ _ => ?_)
  | refine TK.bind2 (tk_changePriorityBy _ _ _ _) (fun _ _ _ => ?_)
  | refine TK.bind2 (tk_remove _ _ _) (fun _ _ _ => ?_)
  | refine TK.bind_lift2 _ (fun _ _ _ => ?_)
  | refine TK.bind_lift _ (fun _ _ => ?_)
  | refine TK.ite _ (fun _ => ?_) (fun _ => ?_)
  | dsimp only
  | simp only [pure_bind])

/-- the routine steps, with the lemmas of the twins called along the way -/
syntax "tk_go" "[" term,* "]" : tactic
open Lean Parser Tactic in
macro_rules
  | `(tactic| tk_go [$ls,*]) => do
    let alts ← ls.getElems.mapM fun l =>
      `(tacticSeq|
        first | refine TK.bind2 $l (fun _ _ _ => ?_) | refine TK.bindS $l (fun _ _ => ?_) | exact $l)
    `(tactic| repeat' (first $[| $alts]* | tk_step))

/-! ## `priority_queue/mod.rs` -/
section PQ
variable {P : Type} [LT P] [DecidableLT P]

theorem tk_pq_pickLargestF (fuse : Nat) (s : Store P) (i : Nat) :
    TK fuse s.ticks (MaxQ.pickLargestF fuse s i) (MaxQ.pickLargestF 0 s i) := by
  unfold MaxQ.pickLargestF
  tk_go []

theorem tk_pq_heapifyLoopF (fuse fuel : Nat) : ∀ (s : Store P) (i : Nat),
    TK fuse s.ticks (MaxQ.heapifyLoopF fuse fuel s i) (MaxQ.heapifyLoopF 0 fuel s i) := by
  induction fuel with
  | zero => intro s i; exact TK.fault2 _ _
  | succ fuel ih =>
    intro s i
    simp only [MaxQ.heapifyLoopF]
    tk_go [tk_pq_pickLargestF fuse _ _, ih _ _]

theorem tk_pq_heapifyF (fuse : Nat) (s : Store P) (i : Nat) :
    TK fuse s.ticks (MaxQ.heapifyF fuse s i) (MaxQ.heapifyF 0 s i) := by
  unfold MaxQ.heapifyF
  tk_go [tk_pq_heapifyLoopF fuse _ _ _]

theorem tk_pq_bubbleUpLoopF (fuse mp fuel : Nat) : ∀ (s : Store P) (pos : Nat) (v : P),
    TK fuse s.ticks (MaxQ.bubbleUpLoopF fuse mp fuel s pos v) (MaxQ.bubbleUpLoopF 0 mp fuel s pos v) := by
  induction fuel with
  | zero => intro s pos v; exact TK.fault2 _ _
  | succ fuel ih =>
    intro s pos v
    simp only [MaxQ.bubbleUpLoopF]
    tk_go [ih _ _ _]

theorem tk_pq_bubbleUpF (fuse : Nat) (s : Store P) (pos mp : Nat) :
    TK fuse s.ticks (MaxQ.bubbleUpF fuse s pos mp) (MaxQ.bubbleUpF 0 s pos mp) := by
  unfold MaxQ.bubbleUpF
  tk_go [tk_pq_bubbleUpLoopF fuse _ _ _ _ _]

theorem tk_pq_upHeapifyF (fuse : Nat) (s : Store P) (i : Nat) :
    TK fuse s.ticks (MaxQ.upHeapifyF fuse s i) (MaxQ.upHeapifyF 0 s i) := by
  unfold MaxQ.upHeapifyF
  tk_go [tk_pq_bubbleUpF fuse _ _ _, tk_pq_heapifyF fuse _ _]

theorem tk_pq_heapBuildLoopF (fuse : Nat) : ∀ (k : Nat) (s : Store P),
    TK fuse s.ticks (MaxQ.heapBuildLoopF fuse s k) (MaxQ.heapBuildLoopF 0 s k) := by
  intro k
  induction k with
  | zero => intro s; simp only [MaxQ.heapBuildLoopF]; exact tk_pq_heapifyF fuse s 0
  | succ k ih =>
    intro s
    simp only [MaxQ.heapBuildLoopF]
    tk_go [tk_pq_heapifyF fuse _ _, ih _]

theorem tk_pq_heapBuildF (fuse : Nat) (s : Store P) :
    TK fuse s.ticks (MaxQ.heapBuildF fuse s) (MaxQ.heapBuildF 0 s) := by
  unfold MaxQ.heapBuildF
  tk_go [tk_pq_heapBuildLoopF fuse _ _]

/-! ### public operations -/

theorem tk_pq_popF (fuse : Nat) (s : Store P) : TK fuse s.ticks (MaxQ.popF fuse s) (MaxQ.popF 0 s) := by
  unfold MaxQ.popF
  generalize s.size = n
  match n with
  | 0 => exact TK.pure _ rfl
  | 1 => exact tk_swapRemove fuse s 0
  | n + 2 =>
    dsimp only
    tk_go [tk_pq_heapifyF fuse _ _]

theorem tk_pq_popIfF (fuse : Nat) (s : Store P) (f : Item → P → Bool × Item × P) :
    TK fuse s.ticks (MaxQ.popIfF fuse s f) (MaxQ.popIfF 0 s f) := by
  unfold MaxQ.popIfF
  generalize s.size = n
  match n with
  | 0 => exact TK.pure _ rfl
  | 1 => exact tk_swapRemoveIf fuse s 0 f
  | n + 2 =>
    dsimp only
    tk_go [tk_pq_heapifyF fuse _ _]

theorem tk_pq_pushF (fuse : Nat) (s : Store P) (it : Item) (p : P) :
    TK fuse s.ticks (MaxQ.pushF fuse s it p) (MaxQ.pushF 0 s it p) := by
  unfold MaxQ.pushF
  generalize s.map.insertFull it p = t
  obtain ⟨map, idx, old⟩ := t
  cases old with
  | some oldp =>
    dsimp only
    tk_go [tk_pq_upHeapifyF fuse _ _]
  | none =>
    dsimp only
    tk_go [tk_pq_bubbleUpF fuse _ _ _]

theorem tk_pq_pushIncreaseF (fuse : Nat) (s : Store P) (it : Item) (p : P) :
    TK fuse s.ticks (MaxQ.pushIncreaseF fuse s it p) (MaxQ.pushIncreaseF 0 s it p) := by
  unfold MaxQ.pushIncreaseF
  cases s.getPriority it.key with
  | none => exact tk_pq_pushF fuse s it p
  | some q =>
    dsimp only
    tk_go [tk_pq_pushF fuse _ _ _]

theorem tk_pq_pushDecreaseF (fuse : Nat) (s : Store P) (it : Item) (p : P) :
    TK fuse s.ticks (MaxQ.pushDecreaseF fuse s it p) (MaxQ.pushDecreaseF 0 s it p) := by
  unfold MaxQ.pushDecreaseF
  cases s.getPriority it.key with
  | none => exact tk_pq_pushF fuse s it p
  | some q =>
    dsimp only
    tk_go [tk_pq_pushF fuse _ _ _]

theorem tk_pq_changePriorityF (fuse : Nat) (s : Store P) (k : Nat) (p : P) :
    TK fuse s.ticks (MaxQ.changePriorityF fuse s k p) (MaxQ.changePriorityF 0 s k p) := by
  unfold MaxQ.changePriorityF
  refine TK.bind2 (tk_changePriority fuse s k p) fun s1 r _ => ?_
  cases r with
  | none => exact TK.pure _ rfl
  | some x =>
    dsimp only
    tk_go [tk_pq_upHeapifyF fuse _ _]

theorem tk_pq_changePriorityByF (fuse : Nat) (s : Store P) (k : Nat) (g : P → P) :
    TK fuse s.ticks (MaxQ.changePriorityByF fuse s k g) (MaxQ.changePriorityByF 0 s k g) := by
  unfold MaxQ.changePriorityByF
  refine TK.bind2 (tk_changePriorityBy fuse s k g) fun s1 r _ => ?_
  cases r with
  | none => exact TK.pure _ rfl
  | some x =>
    dsimp only
    tk_go [tk_pq_upHeapifyF fuse _ _]

theorem tk_pq_removeF (fuse : Nat) (s : Store P) (k : Nat) :
    TK fuse s.ticks (MaxQ.removeF fuse s k) (MaxQ.removeF 0 s k) := by
  unfold MaxQ.removeF
  refine TK.bind2 (tk_remove fuse s k) fun s1 r _ => ?_
  cases r with
  | none => exact TK.pure _ rfl
  | some x =>
    dsimp only
    tk_go [tk_pq_upHeapifyF fuse _ _]

theorem tk_pq_retainMutF (fuse : Nat) (s : Store P) (f : Item → P → Bool × Item × P) :
    TK fuse s.ticks (MaxQ.retainMutF fuse s f) (MaxQ.retainMutF 0 s f) :=
  (tk_pq_heapBuildF fuse (s.retainMut f)).cast (Store.retainMut_cost s f).symm

/-- `append`: the counter is that of the store that became the receiver -/
theorem tk_pq_appendF (fuse : Nat) (s o : Store P) :
    TK fuse (s.append o).1.ticks (MaxQ.appendF fuse s o) (MaxQ.appendF 0 s o) := by
  unfold MaxQ.appendF
  generalize s.append o = t
  obtain ⟨s1, o1⟩ := t
  dsimp only
  tk_go [tk_pq_heapBuildF fuse _]

theorem tk_pq_ofStoreF (fuse : Nat) (s : Store P) :
    TK fuse s.ticks (MaxQ.ofStoreF fuse s) (MaxQ.ofStoreF 0 s) := tk_pq_heapBuildF fuse s

theorem tk_pq_newF (fuse : Nat) (s : Store P) :
    TK fuse s.ticks (asNew (MaxQ.heapBuildF fuse s)) (asNew (MaxQ.heapBuildF 0 s)) :=
  (tk_pq_heapBuildF fuse s).new (by rw [cr_er_pq_heapBuildF]; exact liftR_ne_crashed _)

/-- the constructors start from a fresh store: counter `0` -/
theorem tk_pq_fromVecF (fuse : Nat) (v : Array (Item × P)) :
    TK fuse 0 (MaxQ.fromVecF fuse v) (MaxQ.fromVecF 0 v) :=
  (tk_pq_newF fuse _).cast (Store.fromVec_cost v).1.symm

theorem tk_pq_fromIterF (fuse : Nat) (lo : Nat) (xs : Array (Item × P)) :
    TK fuse 0 (MaxQ.fromIterF fuse lo xs) (MaxQ.fromIterF 0 lo xs) := by
  unfold MaxQ.fromIterF
  exact TK.bind_lift _ fun _ _ => (tk_pq_newF fuse _).cast (Store.fromIter_cost xs).1.symm

theorem tk_pq_deserializeF (fuse : Nat) (hint : Option Nat) (xs : Array (Item × P)) :
    TK fuse 0 (MaxQ.deserializeF fuse hint xs) (MaxQ.deserializeF 0 hint xs) := by
  unfold MaxQ.deserializeF
  exact TK.bind_lift _ fun _ _ => (tk_pq_newF fuse _).cast (Store.visitSeq_cost xs).1.symm

theorem tk_pq_pushAllF (fuse : Nat) : ∀ (l : List (Item × P)) (s : Store P),
    TK fuse s.ticks (MaxQ.pushAllF fuse l s) (MaxQ.pushAllF 0 l s) := by
  intro l
  induction l with
  | nil => intro s; exact TK.pure _ rfl
  | cons e l ih =>
    intro s
    simp only [MaxQ.pushAllF]
    tk_go [tk_pq_pushF fuse _ _ _, ih _]

theorem tk_pq_extendF (fuse : Nat) (s : Store P) (lo : Nat) (xs : Array (Item × P)) :
    TK fuse s.ticks (MaxQ.extendF fuse s lo xs) (MaxQ.extendF 0 s lo xs) := by
  unfold MaxQ.extendF
  refine TK.bind_lift _ fun _ _ => ?_
  dsimp only
  refine TK.ite _ (fun _ => ?_) (fun _ => tk_pq_pushAllF fuse _ s)
  exact (tk_pq_heapBuildF fuse (s.extend xs)).cast (Store.extend_cost s xs).1.symm

theorem tk_pq_iterMutDropF (fuse : Nat) (s : Store P) (prog : List (ICall × IMWrite P)) :
    TK fuse s.ticks (MaxQ.iterMutDropF fuse s prog) (MaxQ.iterMutDropF 0 s prog) := by
  unfold MaxQ.iterMutDropF
  tk_go [tk_pq_heapBuildF fuse _]

end PQ

/-! ## `double_priority_queue/mod.rs` -/
section DQ
variable {P : Type} [LT P] [DecidableLT P]

theorem tk_dq_minFoldF (fuse : Nat) : ∀ (ys : List (Nat × P)) (s : Store P) (acc : Nat × P),
    TK fuse s.ticks (DQ.minFoldF fuse ys s acc) (DQ.minFoldF 0 ys s acc) := by
  intro ys
  induction ys with
  | nil => intro s acc; exact TK.pure _ rfl
  | cons y ys ih =>
    intro s acc
    simp only [DQ.minFoldF]
    tk_go [ih _ _]

theorem tk_dq_maxFoldF (fuse : Nat) : ∀ (ys : List (Nat × P)) (s : Store P) (acc : Nat × P),
    TK fuse s.ticks (DQ.maxFoldF fuse ys s acc) (DQ.maxFoldF 0 ys s acc) := by
  intro ys
  induction ys with
  | nil => intro s acc; exact TK.pure _ rfl
  | cons y ys ih =>
    intro s acc
    simp only [DQ.maxFoldF]
    tk_go [ih _ _]

theorem tk_dq_minByKeyF (fuse : Nat) (s : Store P) (cs : List (Nat × P)) :
    TK fuse s.ticks (DQ.minByKeyF fuse s cs) (DQ.minByKeyF 0 s cs) := by
  cases cs with
  | nil => exact TK.pure _ rfl
  | cons x xs =>
    simp only [DQ.minByKeyF]
    tk_go [tk_dq_minFoldF fuse _ _ _]

theorem tk_dq_maxByKeyF (fuse : Nat) (s : Store P) (cs : List (Nat × P)) :
    TK fuse s.ticks (DQ.maxByKeyF fuse s cs) (DQ.maxByKeyF 0 s cs) := by
  cases cs with
  | nil => exact TK.pure _ rfl
  | cons x xs =>
    simp only [DQ.maxByKeyF]
    tk_go [tk_dq_maxFoldF fuse _ _ _]

theorem tk_dq_heapifyMinLoopF (fuse fuel : Nat) : ∀ (s : Store P) (i : Nat),
    TK fuse s.ticks (DQ.heapifyMinLoopF fuse fuel s i) (DQ.heapifyMinLoopF 0 fuel s i) := by
  induction fuel with
  | zero => intro s i; exact TK.fault2 _ _
  | succ fuel ih =>
    intro s i
    simp only [DQ.heapifyMinLoopF]
    tk_go [tk_dq_minByKeyF fuse _ _,
      TK.ite _ (fun _ => tk_swap fuse _ _ _) (fun _ => TK.pure _ rfl), ih _ _]

theorem tk_dq_heapifyMaxLoopF (fuse fuel : Nat) : ∀ (s : Store P) (i : Nat),
    TK fuse s.ticks (DQ.heapifyMaxLoopF fuse fuel s i) (DQ.heapifyMaxLoopF 0 fuel s i) := by
  induction fuel with
  | zero => intro s i; exact TK.fault2 _ _
  | succ fuel ih =>
    intro s i
    simp only [DQ.heapifyMaxLoopF]
    tk_go [tk_dq_maxByKeyF fuse _ _,
      TK.ite _ (fun _ => tk_swap fuse _ _ _) (fun _ => TK.pure _ rfl), ih _ _]

theorem tk_dq_heapifyF (fuse : Nat) (s : Store P) (i : Nat) :
    TK fuse s.ticks (DQ.heapifyF fuse s i) (DQ.heapifyF 0 s i) := by
  unfold DQ.heapifyF
  tk_go [tk_dq_heapifyMinLoopF fuse _ _ _, tk_dq_heapifyMaxLoopF fuse _ _ _]

theorem tk_dq_bubbleUpMinLoopF (fuse mp fuel : Nat) : ∀ (s : Store P) (pos : Nat) (v : P),
    TK fuse s.ticks (DQ.bubbleUpMinLoopF fuse mp fuel s pos v) (DQ.bubbleUpMinLoopF 0 mp fuel s pos v) := by
  induction fuel with
  | zero => intro s pos v; exact TK.fault2 _ _
  | succ fuel ih =>
    intro s pos v
    simp only [DQ.bubbleUpMinLoopF]
    tk_go [ih _ _ _]

theorem tk_dq_bubbleUpMaxLoopF (fuse mp fuel : Nat) : ∀ (s : Store P) (pos : Nat) (v : P),
    TK fuse s.ticks (DQ.bubbleUpMaxLoopF fuse mp fuel s pos v) (DQ.bubbleUpMaxLoopF 0 mp fuel s pos v) := by
  induction fuel with
  | zero => intro s pos v; exact TK.fault2 _ _
  | succ fuel ih =>
    intro s pos v
    simp only [DQ.bubbleUpMaxLoopF]
    tk_go [ih _ _ _]

theorem tk_dq_bubbleUpMinF (fuse : Nat) (s : Store P) (pos mp : Nat) :
    TK fuse s.ticks (DQ.bubbleUpMinF fuse s pos mp) (DQ.bubbleUpMinF 0 s pos mp) := by
  unfold DQ.bubbleUpMinF
  tk_go [tk_dq_bubbleUpMinLoopF fuse _ _ _ _ _]

theorem tk_dq_bubbleUpMaxF (fuse : Nat) (s : Store P) (pos mp : Nat) :
    TK fuse s.ticks (DQ.bubbleUpMaxF fuse s pos mp) (DQ.bubbleUpMaxF 0 s pos mp) := by
  unfold DQ.bubbleUpMaxF
  tk_go [tk_dq_bubbleUpMaxLoopF fuse _ _ _ _ _]

theorem tk_dq_bubbleUpF (fuse : Nat) (s : Store P) (pos mp : Nat) :
    TK fuse s.ticks (DQ.bubbleUpF fuse s pos mp) (DQ.bubbleUpF 0 s pos mp) := by
  unfold DQ.bubbleUpF
  refine TK.bind_lift2 _ fun e1 e2 _ => ?_
  dsimp only
  refine TK.ite _ (fun _ => ?_) (fun _ => ?_)
  · refine TK.bind_lift _ fun pp _ => ?_
    refine TK.bind_lift _ fun pi _ => ?_
    refine TK.cmpHole rfl ?_
    dsimp only
    cases decide (level pos % 2 = 0) <;> cases decide (pp < e2) <;> dsimp only <;>
      tk_go [tk_dq_bubbleUpMinF fuse _ _ _, tk_dq_bubbleUpMaxF fuse _ _ _]
  · tk_go []

theorem tk_dq_upHeapifyF (fuse : Nat) (s : Store P) (i : Nat) :
    TK fuse s.ticks (DQ.upHeapifyF fuse s i) (DQ.upHeapifyF 0 s i) := by
  unfold DQ.upHeapifyF
  cases s.heap[i]? with
  | none => exact TK.pure _ rfl
  | some tmp =>
    dsimp only
    tk_go [tk_dq_bubbleUpF fuse _ _ _,
      TK.ite _ (fun _ => tk_dq_heapifyF fuse _ _) (fun _ => TK.pure _ rfl), tk_dq_heapifyF fuse _ _]

theorem tk_dq_heapBuildLoopF (fuse : Nat) : ∀ (k : Nat) (s : Store P),
    TK fuse s.ticks (DQ.heapBuildLoopF fuse s k) (DQ.heapBuildLoopF 0 s k) := by
  intro k
  induction k with
  | zero => intro s; simp only [DQ.heapBuildLoopF]; exact tk_dq_heapifyF fuse s 0
  | succ k ih =>
    intro s
    simp only [DQ.heapBuildLoopF]
    tk_go [tk_dq_heapifyF fuse _ _, ih _]

theorem tk_dq_heapBuildF (fuse : Nat) (s : Store P) :
    TK fuse s.ticks (DQ.heapBuildF fuse s) (DQ.heapBuildF 0 s) := by
  unfold DQ.heapBuildF
  tk_go [tk_dq_heapBuildLoopF fuse _ _]

theorem tk_dq_findMaxF (fuse : Nat) (s : Store P) :
    TK fuse s.ticks (DQ.findMaxF fuse s) (DQ.findMaxF 0 s) := by
  unfold DQ.findMaxF
  generalize s.size = n
  match n with
  | 0 => exact TK.pure _ rfl
  | 1 => exact TK.pure _ rfl
  | 2 => exact TK.pure _ rfl
  | n + 3 =>
    dsimp only
    tk_go []

/-! ### public operations -/

theorem tk_dq_peekMaxF (fuse : Nat) (s : Store P) :
    TK fuse s.ticks (DQ.peekMaxF fuse s) (DQ.peekMaxF 0 s) := by
  unfold DQ.peekMaxF
  refine TK.bind2 (tk_dq_findMaxF fuse s) fun s1 r _ => ?_
  cases r with
  | none => exact TK.pure _ rfl
  | some i =>
    dsimp only
    tk_go []

theorem tk_dq_peekMaxMutWriteF (fuse : Nat) (s : Store P) (w : Item → Item) :
    TK fuse s.ticks (DQ.peekMaxMutWriteF fuse s w) (DQ.peekMaxMutWriteF 0 s w) := by
  unfold DQ.peekMaxMutWriteF
  refine TK.bind2 (tk_dq_findMaxF fuse s) fun s1 r _ => ?_
  cases r with
  | none => exact TK.pure _ rfl
  | some pos =>
    dsimp only
    refine TK.bind_lift _ fun i _ => ?_
    cases s1.map.getIndex i <;> exact TK.pure _ rfl

theorem tk_dq_popMinF (fuse : Nat) (s : Store P) : TK fuse s.ticks (DQ.popMinF fuse s) (DQ.popMinF 0 s) := by
  unfold DQ.popMinF
  cases PQ.DQ.findMin s with
  | none => exact TK.pure _ rfl
  | some i =>
    dsimp only
    tk_go [tk_dq_heapifyF fuse _ _]

theorem tk_dq_popMaxF (fuse : Nat) (s : Store P) : TK fuse s.ticks (DQ.popMaxF fuse s) (DQ.popMaxF 0 s) := by
  unfold DQ.popMaxF
  refine TK.bind2 (tk_dq_findMaxF fuse s) fun s1 r _ => ?_
  cases r with
  | none => exact TK.pure _ rfl
  | some i =>
    dsimp only
    tk_go [tk_dq_heapifyF fuse _ _]

theorem tk_dq_popMinIfF (fuse : Nat) (s : Store P) (f : Item → P → Bool × Item × P) :
    TK fuse s.ticks (DQ.popMinIfF fuse s f) (DQ.popMinIfF 0 s f) := by
  unfold DQ.popMinIfF
  cases PQ.DQ.findMin s with
  | none => exact TK.pure _ rfl
  | some i =>
    dsimp only
    tk_go [tk_dq_heapifyF fuse _ _]

theorem tk_dq_popMaxIfF (fuse : Nat) (s : Store P) (f : Item → P → Bool × Item × P) :
    TK fuse s.ticks (DQ.popMaxIfF fuse s f) (DQ.popMaxIfF 0 s f) := by
  unfold DQ.popMaxIfF
  refine TK.bind2 (tk_dq_findMaxF fuse s) fun s1 r _ => ?_
  cases r with
  | none => exact TK.pure _ rfl
  | some i =>
    dsimp only
    tk_go [tk_dq_upHeapifyF fuse _ _]

theorem tk_dq_pushF (fuse : Nat) (s : Store P) (it : Item) (p : P) :
    TK fuse s.ticks (DQ.pushF fuse s it p) (DQ.pushF 0 s it p) := by
  unfold DQ.pushF
  generalize s.map.insertFull it p = t
  obtain ⟨map, idx, old⟩ := t
  cases old with
  | some oldp =>
    dsimp only
    tk_go [tk_dq_upHeapifyF fuse _ _]
  | none =>
    dsimp only
    tk_go [tk_dq_bubbleUpF fuse _ _ _]

theorem tk_dq_pushIncreaseF (fuse : Nat) (s : Store P) (it : Item) (p : P) :
    TK fuse s.ticks (DQ.pushIncreaseF fuse s it p) (DQ.pushIncreaseF 0 s it p) := by
  unfold DQ.pushIncreaseF
  cases s.getPriority it.key with
  | none => exact tk_dq_pushF fuse s it p
  | some q =>
    dsimp only
    tk_go [tk_dq_pushF fuse _ _ _]

theorem tk_dq_pushDecreaseF (fuse : Nat) (s : Store P) (it : Item) (p : P) :
    TK fuse s.ticks (DQ.pushDecreaseF fuse s it p) (DQ.pushDecreaseF 0 s it p) := by
  unfold DQ.pushDecreaseF
  cases s.getPriority it.key with
  | none => exact tk_dq_pushF fuse s it p
  | some q =>
    dsimp only
    tk_go [tk_dq_pushF fuse _ _ _]

theorem tk_dq_changePriorityF (fuse : Nat) (s : Store P) (k : Nat) (p : P) :
    TK fuse s.ticks (DQ.changePriorityF fuse s k p) (DQ.changePriorityF 0 s k p) := by
  unfold DQ.changePriorityF
  refine TK.bind2 (tk_changePriority fuse s k p) fun s1 r _ => ?_
  cases r with
  | none => exact TK.pure _ rfl
  | some x =>
    dsimp only
    tk_go [tk_dq_upHeapifyF fuse _ _]

theorem tk_dq_changePriorityByF (fuse : Nat) (s : Store P) (k : Nat) (g : P → P) :
    TK fuse s.ticks (DQ.changePriorityByF fuse s k g) (DQ.changePriorityByF 0 s k g) := by
  unfold DQ.changePriorityByF
  refine TK.bind2 (tk_changePriorityBy fuse s k g) fun s1 r _ => ?_
  cases r with
  | none => exact TK.pure _ rfl
  | some x =>
    dsimp only
    tk_go [tk_dq_upHeapifyF fuse _ _]

theorem tk_dq_removeF (fuse : Nat) (s : Store P) (k : Nat) :
    TK fuse s.ticks (DQ.removeF fuse s k) (DQ.removeF 0 s k) := by
  unfold DQ.removeF
  refine TK.bind2 (tk_remove fuse s k) fun s1 r _ => ?_
  cases r with
  | none => exact TK.pure _ rfl
  | some x =>
    dsimp only
    tk_go [tk_dq_upHeapifyF fuse _ _]

theorem tk_dq_retainMutF (fuse : Nat) (s : Store P) (f : Item → P → Bool × Item × P) :
    TK fuse s.ticks (DQ.retainMutF fuse s f) (DQ.retainMutF 0 s f) :=
  (tk_dq_heapBuildF fuse (s.retainMut f)).cast (Store.retainMut_cost s f).symm

/-- `append`: the counter is that of the store that became the receiver -/
theorem tk_dq_appendF (fuse : Nat) (s o : Store P) :
    TK fuse (s.append o).1.ticks (DQ.appendF fuse s o) (DQ.appendF 0 s o) := by
  unfold DQ.appendF
  generalize s.append o = t
  obtain ⟨s1, o1⟩ := t
  dsimp only
  tk_go [tk_dq_heapBuildF fuse _]

theorem tk_dq_ofStoreF (fuse : Nat) (s : Store P) :
    TK fuse s.ticks (DQ.ofStoreF fuse s) (DQ.ofStoreF 0 s) := tk_dq_heapBuildF fuse s

theorem tk_dq_newF (fuse : Nat) (s : Store P) :
    TK fuse s.ticks (asNew (DQ.heapBuildF fuse s)) (asNew (DQ.heapBuildF 0 s)) :=
  (tk_dq_heapBuildF fuse s).new (by rw [cr_er_dq_heapBuildF]; exact liftR_ne_crashed _)

theorem tk_dq_fromVecF (fuse : Nat) (v : Array (Item × P)) :
    TK fuse 0 (DQ.fromVecF fuse v) (DQ.fromVecF 0 v) :=
  (tk_dq_newF fuse _).cast (Store.fromVec_cost v).1.symm

theorem tk_dq_fromIterF (fuse : Nat) (lo : Nat) (xs : Array (Item × P)) :
    TK fuse 0 (DQ.fromIterF fuse lo xs) (DQ.fromIterF 0 lo xs) := by
  unfold DQ.fromIterF
  exact TK.bind_lift _ fun _ _ => (tk_dq_newF fuse _).cast (Store.fromIter_cost xs).1.symm

theorem tk_dq_deserializeF (fuse : Nat) (hint : Option Nat) (xs : Array (Item × P)) :
    TK fuse 0 (DQ.deserializeF fuse hint xs) (DQ.deserializeF 0 hint xs) := by
  unfold DQ.deserializeF
  exact TK.bind_lift _ fun _ _ => (tk_dq_newF fuse _).cast (Store.visitSeq_cost xs).1.symm

theorem tk_dq_pushAllF (fuse : Nat) : ∀ (l : List (Item × P)) (s : Store P),
    TK fuse s.ticks (DQ.pushAllF fuse l s) (DQ.pushAllF 0 l s) := by
  intro l
  induction l with
  | nil => intro s; exact TK.pure _ rfl
  | cons e l ih =>
    intro s
    simp only [DQ.pushAllF]
    tk_go [tk_dq_pushF fuse _ _ _, ih _]

theorem tk_dq_extendF (fuse : Nat) (s : Store P) (lo : Nat) (xs : Array (Item × P)) :
    TK fuse s.ticks (DQ.extendF fuse s lo xs) (DQ.extendF 0 s lo xs) := by
  unfold DQ.extendF
  refine TK.bind_lift _ fun _ _ => ?_
  dsimp only
  refine TK.ite _ (fun _ => ?_) (fun _ => tk_dq_pushAllF fuse _ s)
  exact (tk_dq_heapBuildF fuse (s.extend xs)).cast (Store.extend_cost s xs).1.symm

theorem tk_dq_iterMutDropF (fuse : Nat) (s : Store P) (prog : List (ICall × IMWrite P)) :
    TK fuse s.ticks (DQ.iterMutDropF fuse s prog) (DQ.iterMutDropF 0 s prog) := by
  unfold DQ.iterMutDropF
  tk_go [tk_dq_heapBuildF fuse _]

end DQ


/-! ## Histories: one fused operation on a queue -/
section Step
variable {P : Type} [LT P] [DecidableLT P]

/-- the value of the ghost counter from which the comparisons of an operation are numbered: the counter of the queue, except
that `append` may exchange receiver and argument first (`mem::swap`; the counter travels with the store, so it is the counter of
the store that BECOMES the receiver) and that the constructors start from a fresh store (counter `0`) -/
def tkBase (q : Q P) : Op P → Nat
  | .append o => (q.s.append o).1.ticks
  | .fromVec _ => 0
  | .fromIter _ _ => 0
  | .deserialize _ _ => 0
  | _ => q.s.ticks

/-- the outcome of a fused operation on a queue whose comparisons are numbered from `lo`, relative to the fuse-off run: a
normal return is the fuse-off return (and a fuse in the future is still in the future); a crash state has counted exactly the
comparisons before the panicking one, the fuse lay in the future, and the fuse-off run ends at or beyond the fuse -/
def TKQ (fuse lo : Nat) (x x0 : CRQ P (Q P × Out P)) : Prop :=
  match x with
  | .ok a => x0 = .ok a ∧ (lo < fuse → a.1.s.ticks < fuse)
  | .error (.crashed q') => q'.s.ticks + 1 = fuse ∧ lo ≤ q'.s.ticks ∧ ∀ r, x0 = .ok r → fuse ≤ r.1.s.ticks
  | .error .crashedNew => lo < fuse ∧ ∀ r, x0 = .ok r → fuse ≤ r.1.s.ticks
  | .error (.fault _) => True

omit [LT P] [DecidableLT P] in
theorem tkq_refl (fuse lo : Nat) (x : CRQ P (Q P × Out P)) (h : ∃ a, x = .ok a ∧ a.1.s.ticks = lo) : TKQ fuse lo x x := by
  obtain ⟨a, rfl, e⟩ := h
  exact ⟨rfl, fun hl => e ▸ hl⟩

omit [LT P] [DecidableLT P] in
/-- a fused store-level computation followed by a pure repackaging that keeps the counter -/
theorem tkq_of {α : Type} [HasTk α] {fuse lo : Nat} (k : Kind) {x x0 : CR P α} (h : TK fuse lo x x0)
    {f : α → CRQ P (Q P × Out P)} (hf : ∀ a, ∃ r, f a = .ok r ∧ r.1.s.ticks = HasTk.tk a) :
    TKQ fuse lo (liftQ k x >>= f) (liftQ k x0 >>= f) := by
  have hinv : ∀ r, (liftQ k x0 >>= f) = .ok r → ∃ a, x0 = .ok a ∧ r.1.s.ticks = HasTk.tk a := by
    intro r hr
    cases x0 with
    | ok a =>
      obtain ⟨r', h1, h2⟩ := hf a
      have : f a = .ok r := hr
      rw [h1] at this; cases this
      exact ⟨a, rfl, h2⟩
    | error e => cases e <;> cases hr
  cases x with
  | ok a =>
    obtain ⟨ha, hlt⟩ : x0 = .ok a ∧ (lo < fuse → HasTk.tk a < fuse) := h.2
    subst ha
    obtain ⟨r, h1, h2⟩ := hf a
    show TKQ fuse lo (f a) (f a)
    rw [h1]
    exact ⟨rfl, fun hl => h2 ▸ hlt hl⟩
  | error e =>
    cases e with
    | fault f => trivial
    | crashed s' =>
      obtain ⟨h1, h2, h3⟩ : s'.ticks + 1 = fuse ∧ lo ≤ s'.ticks ∧ ∀ r, x0 = .ok r → fuse ≤ HasTk.tk r := h.2
      refine ⟨h1, h2, fun r hr => ?_⟩
      obtain ⟨a, ha, hr⟩ := hinv r hr
      rw [hr]; exact h3 a ha
    | crashedNew =>
      obtain ⟨h2, h3⟩ : lo < fuse ∧ ∀ r, x0 = .ok r → fuse ≤ HasTk.tk r := h.2
      refine ⟨h2, fun r hr => ?_⟩
      obtain ⟨a, ha, hr⟩ := hinv r hr
      rw [hr]; exact h3 a ha

theorem tk_heapBuildKF (fuse : Nat) (k : Kind) (s : Store P) :
    TK fuse s.ticks (heapBuildKF fuse k s) (heapBuildKF 0 k s) := by
  cases k
  · exact tk_pq_heapBuildF fuse s
  · exact tk_dq_heapBuildF fuse s

/-- **One fused operation, counter-wise.**  For EVERY queue (well-formed or not), EVERY operation (legal or not) and EVERY fuse. -/
theorem tkq_stepF (fuse : Nat) (q : Q P) (op : Op P) : TKQ fuse (tkBase q op) (stepF fuse q op) (stepF 0 q op) := by
  obtain ⟨k, s⟩ := q
  cases op with
  | push it p =>
    cases k
    · exact tkq_of .pq (tk_pq_pushF fuse s it p) (fun _ => ⟨_, rfl, rfl⟩)
    · exact tkq_of .dpq (tk_dq_pushF fuse s it p) (fun _ => ⟨_, rfl, rfl⟩)
  | pushIncrease it p =>
    cases k
    · exact tkq_of .pq (tk_pq_pushIncreaseF fuse s it p) (fun _ => ⟨_, rfl, rfl⟩)
    · exact tkq_of .dpq (tk_dq_pushIncreaseF fuse s it p) (fun _ => ⟨_, rfl, rfl⟩)
  | pushDecrease it p =>
    cases k
    · exact tkq_of .pq (tk_pq_pushDecreaseF fuse s it p) (fun _ => ⟨_, rfl, rfl⟩)
    · exact tkq_of .dpq (tk_dq_pushDecreaseF fuse s it p) (fun _ => ⟨_, rfl, rfl⟩)
  | changePriority key p =>
    cases k
    · exact tkq_of .pq (tk_pq_changePriorityF fuse s key p) (fun _ => ⟨_, rfl, rfl⟩)
    · exact tkq_of .dpq (tk_dq_changePriorityF fuse s key p) (fun _ => ⟨_, rfl, rfl⟩)
  | changePriorityBy key g =>
    cases k
    · exact tkq_of .pq (tk_pq_changePriorityByF fuse s key g) (fun _ => ⟨_, rfl, rfl⟩)
    · exact tkq_of .dpq (tk_dq_changePriorityByF fuse s key g) (fun _ => ⟨_, rfl, rfl⟩)
  | remove key =>
    cases k
    · exact tkq_of .pq (tk_pq_removeF fuse s key) (fun _ => ⟨_, rfl, rfl⟩)
    · exact tkq_of .dpq (tk_dq_removeF fuse s key) (fun _ => ⟨_, rfl, rfl⟩)
  | getMut key w =>
    refine tkq_refl fuse _ _ ⟨_, rfl, ?_⟩
    show (s.getMutWrite key w).1.ticks = s.ticks
    unfold Store.getMutWrite; split <;> rfl
  | popFront =>
    cases k
    · exact tkq_of .pq (tk_pq_popF fuse s) (fun _ => ⟨_, rfl, rfl⟩)
    · exact tkq_of .dpq (tk_dq_popMinF fuse s) (fun _ => ⟨_, rfl, rfl⟩)
  | popBack =>
    cases k
    · exact tkq_refl fuse _ _ ⟨_, rfl, rfl⟩
    · exact tkq_of .dpq (tk_dq_popMaxF fuse s) (fun _ => ⟨_, rfl, rfl⟩)
  | popFrontIf f =>
    cases k
    · exact tkq_of .pq (tk_pq_popIfF fuse s f) (fun _ => ⟨_, rfl, rfl⟩)
    · exact tkq_of .dpq (tk_dq_popMinIfF fuse s f) (fun _ => ⟨_, rfl, rfl⟩)
  | popBackIf f =>
    cases k
    · exact tkq_refl fuse _ _ ⟨_, rfl, rfl⟩
    · exact tkq_of .dpq (tk_dq_popMaxIfF fuse s f) (fun _ => ⟨_, rfl, rfl⟩)
  | peekFrontMut w =>
    cases k
    · exact tkq_of .pq (TK.lift (PQ.MaxQ.peekMutWrite s w)
        (fun a h => (PQ.MaxQ.peekMutWrite_cost (s' := a.1) (r := a.2) h).1)) (fun _ => ⟨_, rfl, rfl⟩)
    · exact tkq_of .dpq (TK.lift (PQ.DQ.peekMinMutWrite s w)
        (fun a h => (PQ.DQ.peekMinMutWrite_cost (s' := a.1) (r := a.2) h).1)) (fun _ => ⟨_, rfl, rfl⟩)
  | peekBackMut w =>
    cases k
    · exact tkq_refl fuse _ _ ⟨_, rfl, rfl⟩
    · exact tkq_of .dpq (tk_dq_peekMaxMutWriteF fuse s w) (fun _ => ⟨_, rfl, rfl⟩)
  | retainMut f =>
    cases k
    · exact tkq_of .pq (tk_pq_retainMutF fuse s f) (fun _ => ⟨_, rfl, rfl⟩)
    · exact tkq_of .dpq (tk_dq_retainMutF fuse s f) (fun _ => ⟨_, rfl, rfl⟩)
  | iterMut leak prog =>
    show TKQ fuse s.ticks
      (liftQ k (liftR (iterMutRun k s.map.size prog PIterMut.new (DIterMut.new s.map.size) s.map)) >>= _)
      (liftQ k (liftR (iterMutRun k s.map.size prog PIterMut.new (DIterMut.new s.map.size) s.map)) >>= _)
    cases iterMutRun k s.map.size prog PIterMut.new (DIterMut.new s.map.size) s.map with
    | error e => trivial
    | ok r =>
      obtain ⟨outs, m⟩ := r
      cases leak with
      | true => exact tkq_refl fuse _ _ ⟨_, rfl, rfl⟩
      | false => exact tkq_of k (tk_heapBuildKF fuse k { s with map := m }) (fun _ => ⟨_, rfl, rfl⟩)
  | extend lo xs =>
    cases k
    · exact tkq_of .pq (tk_pq_extendF fuse s lo xs) (fun _ => ⟨_, rfl, rfl⟩)
    · exact tkq_of .dpq (tk_dq_extendF fuse s lo xs) (fun _ => ⟨_, rfl, rfl⟩)
  | append o =>
    cases k
    · exact tkq_of .pq (tk_pq_appendF fuse s o) (fun _ => ⟨_, rfl, rfl⟩)
    · exact tkq_of .dpq (tk_dq_appendF fuse s o) (fun _ => ⟨_, rfl, rfl⟩)
  | fromVec xs =>
    cases k
    · exact tkq_of .pq (tk_pq_fromVecF fuse xs) (fun _ => ⟨_, rfl, rfl⟩)
    · exact tkq_of .dpq (tk_dq_fromVecF fuse xs) (fun _ => ⟨_, rfl, rfl⟩)
  | fromIter lo xs =>
    cases k
    · exact tkq_of .pq (tk_pq_fromIterF fuse lo xs) (fun _ => ⟨_, rfl, rfl⟩)
    · exact tkq_of .dpq (tk_dq_fromIterF fuse lo xs) (fun _ => ⟨_, rfl, rfl⟩)
  | deserialize hint xs =>
    cases k
    · exact tkq_of .pq (tk_pq_deserializeF fuse hint xs) (fun _ => ⟨_, rfl, rfl⟩)
    · exact tkq_of .dpq (tk_dq_deserializeF fuse hint xs) (fun _ => ⟨_, rfl, rfl⟩)
  | convert =>
    cases k
    · exact tkq_of .dpq (tk_dq_ofStoreF fuse s) (fun _ => ⟨_, rfl, rfl⟩)
    · exact tkq_of .pq (tk_pq_ofStoreF fuse s) (fun _ => ⟨_, rfl, rfl⟩)
  | clear => exact tkq_refl fuse _ _ ⟨_, rfl, rfl⟩
  | drain => exact tkq_refl fuse _ _ ⟨_, rfl, rfl⟩
  | capacityOp => exact tkq_refl fuse _ _ ⟨_, rfl, rfl⟩

omit [LT P] [DecidableLT P] in
theorem liftQ_liftR_eq_ok {α : Type} {k : Kind} {y : R α} {r : α} (h : y = .ok r) :
    (liftQ k (liftR y) : CRQ P α) = .ok r := by
  rw [h]; rfl

/-- **(A)** the crash state of ANY fused operation has counted exactly the comparisons before the panicking one, and the
fuse lay in the future of the counter the operation numbers its comparisons from -/
theorem tk_crash_exact {fuse : Nat} {q q' : Q P} {op : Op P} (h : stepF fuse q op = .error (.crashed q')) :
    q'.s.ticks + 1 = fuse ∧ tkBase q op ≤ q'.s.ticks := by
  have := tkq_stepF fuse q op
  rw [h] at this
  exact ⟨this.1, this.2.1⟩

/-- a constructor crashes only at a fuse in the future (`0 < fuse`) -/
theorem tk_crashNew_future {fuse : Nat} {q : Q P} {op : Op P} (h : stepF fuse q op = .error .crashedNew) :
    tkBase q op < fuse := by
  have := tkq_stepF fuse q op
  rw [h] at this
  exact this.1

/-- **(B)** if the fused operation crashes, the plain operation — when it returns — ends with a counter at or beyond the fuse -/
theorem tk_crash_prefix {fuse : Nat} {q : Q P} {op : Op P}
    (h : (∃ q', stepF fuse q op = .error (.crashed q')) ∨ stepF fuse q op = .error .crashedNew)
    {q2 : Q P} {out : Out P} (hp : step q op = .ok (q2, out)) : fuse ≤ q2.s.ticks := by
  have h0 : stepF 0 q op = .ok (q2, out) := by rw [cr_stepF_zero]; exact liftQ_liftR_eq_ok hp
  have := tkq_stepF fuse q op
  rcases h with ⟨q', h⟩ | h
  · rw [h] at this; exact this.2.2 _ h0
  · rw [h] at this; exact this.2 _ h0

/-- the converse: a fused operation that returns normally although the fuse lay in the future has not reached the fuse -/
theorem tk_ok_beyond {fuse : Nat} {q q2 : Q P} {op : Op P} {out : Out P} (h : stepF fuse q op = .ok (q2, out))
    (hf : tkBase q op < fuse) : q2.s.ticks < fuse := by
  have := tkq_stepF fuse q op
  rw [h] at this
  exact this.2 hf

end Step

end PQ.Crash
