import PQ.Lemmas.SrcEquivBase
/-!
# Source-translated tie, phase 1: store helpers and the binary heap

For each Rust function translated by `tools/gen_src.py` (`PQ.SrcGen.*`, regenerated from `/repo/src` on every run) a
theorem `PQ.SrcEquiv.<fn>`: with enough fuel the interpreter `PQ.Src.run` on the GENERATED term returns exactly what
the hand-written model function returns — the same store (including `ticks`), the same value, the same fault with
the same site.  These proofs are expected to FAIL when the Rust function is edited: that is the signal.
-/
set_option linter.unusedSimpArgs false
set_option linter.unusedSectionVars false
namespace PQ.SrcEquiv
open PQ PQ.Src PQ.SrcGen

variable {P : Type} [LT P] [DecidableLT P]

/-! ## `Store::swap`, `Store::get_priority_from_position` -/

/-- `Store::swap` = `Store.swap` -/
theorem storeSwap (s : Store P) (a b : Nat) (fuel : Nat) (h : fuel ≥ 1) :
    Src.run SrcGen.prog fuel .storeSwap s [a, b] = (fun s' => (s', Val.unit)) <$> s.swap a b := by
  obtain ⟨n, rfl⟩ : ∃ n, fuel = n + 1 := ⟨fuel - 1, by omega⟩
  src_enter [prog, SrcGen.storeSwap]
  src_eval [ storeSwap_body, Store.swap]

/-- `Store::get_priority_from_position` = `Store.prioAt` -/
theorem storePrioAt (s : Store P) (pos : Nat) (fuel : Nat) (h : fuel ≥ 1) :
    Src.run SrcGen.prog fuel .storePrioAt s [pos] = (fun p => (s, Val.prio p)) <$> s.prioAt pos := by
  obtain ⟨n, rfl⟩ : ∃ n, fuel = n + 1 := ⟨fuel - 1, by omega⟩
  src_enter [prog, SrcGen.storePrioAt]
  src_eval [ storePrioAt_body, Store.prioAt]

/-- the two theorems above as rewrite rules for call sites -/
theorem call_storeSwap (s : Store P) (a b n : Nat) :
    callWith (exec prog (n + 1)) prog .storeSwap s [a, b] [] = (fun s' => (s', Val.unit)) <$> s.swap a b :=
  storeSwap s a b (n + 1) (by omega)

theorem call_storePrioAt (s : Store P) (a n : Nat) :
    callWith (exec prog (n + 1)) prog .storePrioAt s [a] [] = (fun p => (s, Val.prio p)) <$> s.prioAt a :=
  storePrioAt s a (n + 1) (by omega)

/-! ## `PriorityQueue::heapify` -/

/-- the rest of `heapifyLoop` after a selection: stop, or swap and go on -/
def hK (f : Nat) (s : Store P) (i lg : Nat) : R (Store P) :=
  if lg = i then pure s else do let s ← s.swap i lg; MaxQ.heapifyLoop f s lg

/-- one iteration of the Rust loop in the hand model's terms: swap, then select again -/
def hStep (s : Store P) (i lg : Nat) : R (Store P × Nat × Nat) := do
  let s1 ← s.swap i lg
  let r ← MaxQ.pickLargest s1 lg
  pure (r.1, lg, r.2)

theorem hK_succ (f : Nat) (s : Store P) (i lg : Nat) (h : lg ≠ i) :
    hK (f + 1) s i lg = hStep s i lg >>= fun b => hK f b.1 b.2.1 b.2.2 := by
  simp only [hK, hStep, h, ↓reduceIte, MaxQ.heapifyLoop, bind_assoc, pure_bind]

/-- the selection before the Rust loop, in the hand model's terms -/
def hPick (s : Store P) (i : Nat) : R (Store P × Nat × Nat) := do
  let r ← MaxQ.pickLargest s i
  pure (r.1, i, r.2)

theorem heapifyLoop_succ (f : Nat) (s : Store P) (i : Nat) :
    MaxQ.heapifyLoop (f + 1) s i = hPick s i >>= fun b => hK f b.1 b.2.1 b.2.2 := by
  simp only [MaxQ.heapifyLoop, hK, hPick, bind_assoc, pure_bind]

def proj03 (st : St P) : Store P × Nat × Nat := (st.s, st.n 0, st.n 3)

theorem pqHeapify_loop_body (g : Nat) (st : St P) :
    (fun r => (proj03 r.1, r.2)) <$>
        execStep (exec prog (g + 1)) (callWith (exec prog (g + 1)) prog) pqHeapify_loop1_body st
      = (fun b => (b, Flow.normal)) <$> hStep st.s (st.n 0) (st.n 3) := by
  src_eval [pqHeapify_loop1_body, call_storeSwap, call_storePrioAt, MaxQ.pickLargest, proj03, hStep]
  src_close

theorem pqHeapify_loop_cond (callf : CallF P) (st : St P) :
    evalB callf st pqHeapify_loop1_cond = pure (st.s, decide (st.n 3 ≠ st.n 0)) := by
  src_eval [pqHeapify_loop1_cond]

theorem pqHeapify_loop (f : Nat) : ∀ (k : Nat) (st : St P), f ≤ k →
    hK f st.s (st.n 0) (st.n 3) ≠ .error .fuel →
    Agrees (exec prog (k + 2) (.while pqHeapify_loop1_cond pqHeapify_loop1_body) st)
      (hK f st.s (st.n 0) (st.n 3)) (fun st' s' => st'.s = s') := by
  induction f with
  | zero =>
    intro k st _ hne
    rw [exec, execStep_while, pqHeapify_loop_cond]
    have hb := agrees_of_map_eq proj03 _ _ (pqHeapify_loop_body k st)
    by_cases hc : st.n 3 = st.n 0
    · simp only [hK, hc, ↓reduceIte, ne_eq, not_true_eq_false, decide_false, pure_bind, Bool.false_eq_true]
      exact ⟨st, rfl, rfl⟩
    · unfold hK at hne ⊢
      simp only [hc, ↓reduceIte] at hne ⊢
      src_eval [hc, ne_eq, not_false_eq_true, decide_true]
      unfold hStep at hb
      cases hs : st.s.swap (st.n 0) (st.n 3) with
      | ok s1 => simp [hs, MaxQ.heapifyLoop, ok_bind] at hne
      | error e =>
        simp only [hs, error_bind] at hb ⊢
        rw [Agrees.error_iff] at hb ⊢
        simp only [hb, error_bind]
  | succ f ih =>
    intro k st hk hne
    obtain ⟨k, rfl⟩ : ∃ k', k = k' + 1 := ⟨k - 1, by omega⟩
    rw [exec, execStep_while, pqHeapify_loop_cond]
    have hb := agrees_of_map_eq proj03 _ _ (pqHeapify_loop_body (k + 1) st)
    by_cases hc : st.n 3 = st.n 0
    · simp only [hK, hc, ↓reduceIte, ne_eq, not_true_eq_false, decide_false, pure_bind, Bool.false_eq_true]
      exact ⟨st, rfl, rfl⟩
    · rw [hK_succ _ _ _ _ hc] at hne ⊢
      src_eval [hc, ne_eq, not_false_eq_true, decide_true]
      refine Agrees.bindW hb ?_
      intro st2 b hy hrel
      subst hrel
      refine ih k st2 (by omega) ?_
      simpa only [hy, ok_bind, proj03] using hne

theorem pqHeapify_part1_eq (g : Nat) (st : St P) (h : ¬ st.s.size ≤ 1) :
    (fun r => (proj03 r.1, r.2)) <$>
        execStep (exec prog (g + 1)) (callWith (exec prog (g + 1)) prog) pqHeapify_part1 st
      = (fun b => (b, Flow.normal)) <$>
        hPick st.s (st.n 0) := by
  src_eval [SrcGen.pqHeapify_part1, call_storePrioAt, MaxQ.pickLargest, proj03, hPick, h]
  src_close

/-! the hand model's loop never runs out of its fuel -/

theorem swap_post (s : Store P) (a b : Nat) : Post (s.swap a b) (fun s' => s'.size = s.size) := by
  unfold Store.swap
  exact Post.bind (Post.triv _) fun _ _ => Post.bind (Post.triv _) fun _ _ => Post.bind (Post.triv _) fun _ _ =>
    Post.bind (Post.triv _) fun _ _ => Post.pure rfl

theorem pickLargest_post (s : Store P) (i : Nat) :
    Post (MaxQ.pickLargest s i) (fun r => r.1.size = s.size ∧ (r.2 = i ∨ (i < r.2 ∧ r.2 < s.size))) := by
  unfold MaxQ.pickLargest
  refine Post.bind (Post.triv _) fun ip _ => Post.ite (fun hl => ?_) (fun _ => Post.pure ⟨rfl, Or.inl rfl⟩)
  refine Post.bind (Post.triv _) fun cp _ => Post.ite (fun hr => Post.bind (Post.triv _) fun rp _ => Post.pure ⟨rfl, ?_⟩)
    (fun _ => Post.pure ⟨rfl, ?_⟩)
  all_goals
    simp only [Arith.left, Arith.right, size_tick] at *
    repeat' split
    all_goals omega
theorem pickLargest_noFuel (s : Store P) (i : Nat) : NoFuel (MaxQ.pickLargest s i) := by
  unfold MaxQ.pickLargest
  have h := fun (s : Store P) i => NoFuel.prioAt s i
  no_fuel

theorem heapifyLoop_noFuel (f : Nat) : ∀ (s : Store P) (i : Nat), 1 ≤ f → s.size ≤ f + i →
    NoFuel (MaxQ.heapifyLoop f s i) := by
  induction f with
  | zero => intro s i h; omega
  | succ f ih =>
    intro s i _ hsz
    rw [MaxQ.heapifyLoop]
    refine NoFuel.bind (pickLargest_noFuel s i) fun r hr => ?_
    have hspec := pickLargest_post s i r hr
    obtain ⟨s', lg⟩ := r
    refine NoFuel.ite (fun _ => NoFuel.pure _) fun hne => NoFuel.bind (NoFuel.swap _ _ _) fun s'' hs => ?_
    have h2 := swap_post s' i lg s'' hs
    simp only at hspec h2
    exact ih s'' lg (by omega) (by omega)

/-- `PriorityQueue::heapify` = `MaxQ.heapify` -/
theorem pqHeapify (s : Store P) (i : Nat) (fuel : Nat) (h : fuel ≥ s.size + 2) :
    Src.run SrcGen.prog fuel .pqHeapify s [i] = (fun s' => (s', Val.unit)) <$> MaxQ.heapify s i := by
  obtain ⟨k, rfl⟩ : ∃ k, fuel = k + 2 := ⟨fuel - 2, by omega⟩
  src_enter [prog, SrcGen.pqHeapify]
  unfold MaxQ.heapify
  by_cases hsz : s.size ≤ 1
  · src_eval [pqHeapify_body, pqHeapify_part1, hsz]
  · simp only [hsz, ↓reduceIte]
    obtain ⟨n, hn⟩ : ∃ n, s.size = n + 1 := ⟨s.size - 1, by omega⟩
    have hne := heapifyLoop_noFuel s.size s i (by omega) (by omega)
    rw [hn, heapifyLoop_succ] at hne ⊢
    rw [pqHeapify_body, execStep_seq]
    have h1 := agrees_of_map_eq proj03 _ _ (pqHeapify_part1_eq k
      { s := s, n := bindN [0] [i], p := bindP [] [] } hsz)
    simp only [bindN, upd, ↓reduceIte] at h1
    refine Agrees.bindFin h1 ?_
    intro st' b hy hrel
    subst hrel
    rw [exec_succ]
    refine Agrees.fin_unit (pqHeapify_loop n k st' (by omega) ?_)
    have := hne
    unfold NoFuel at this
    simpa only [hy, ok_bind, proj03] using this

end PQ.SrcEquiv
