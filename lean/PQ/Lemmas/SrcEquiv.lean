import PQ.Lemmas.SrcEquivBase
/-!
# Source-translated tie, phase 1: store helpers and the binary heap

For each Rust function translated by `tools/gen_src.py` (`PQ.SrcGen.*`, regenerated from `/repo/src` on every run) a
theorem `PQ.SrcEquiv.<fn>`: with enough fuel the interpreter `PQ.Src.run` on the GENERATED term returns exactly what
the hand-written model function returns — the same store (including `ticks`), the same value, the same fault with
the same site.  These proofs are expected to FAIL when the Rust function is edited: that is the signal.
-/
set_option linter.unusedSimpArgs false
set_option linter.unusedSectionVars false
namespace PQ.SrcEquiv
open PQ PQ.Src PQ.SrcGen

variable {P : Type} [LT P] [DecidableLT P]

/-! ## `Store::swap`, `Store::get_priority_from_position` -/

/-- `Store::swap` = `Store.swap` -/
theorem storeSwap (s : Store P) (a b : Nat) (fuel : Nat) (h : fuel ≥ 1) :
    Src.run SrcGen.prog fuel .storeSwap s [a, b] = (fun s' => (s', Val.unit)) <$> s.swap a b := by
  obtain ⟨n, rfl⟩ : ∃ n, fuel = n + 1 := ⟨fuel - 1, by omega⟩
  src_enter [prog, SrcGen.storeSwap]
  src_eval [ storeSwap_body, Store.swap]

/-- `Store::get_priority_from_position` = `Store.prioAt` -/
theorem storePrioAt (s : Store P) (pos : Nat) (fuel : Nat) (h : fuel ≥ 1) :
    Src.run SrcGen.prog fuel .storePrioAt s [pos] = (fun p => (s, Val.prio p)) <$> s.prioAt pos := by
  obtain ⟨n, rfl⟩ : ∃ n, fuel = n + 1 := ⟨fuel - 1, by omega⟩
  src_enter [prog, SrcGen.storePrioAt]
  src_eval [ storePrioAt_body, Store.prioAt]

/-- the two theorems above as rewrite rules for call sites -/
theorem call_storeSwap (s : Store P) (a b n : Nat) :
    callWith (exec prog (n + 1)) prog .storeSwap s [a, b] [] [] = (fun s' => (s', Val.unit)) <$> s.swap a b :=
  storeSwap s a b (n + 1) (by omega)

theorem call_storePrioAt (s : Store P) (a n : Nat) :
    callWith (exec prog (n + 1)) prog .storePrioAt s [a] [] [] = (fun p => (s, Val.prio p)) <$> s.prioAt a :=
  storePrioAt s a (n + 1) (by omega)

/-! ## `PriorityQueue::heapify` -/

/-- the rest of `heapifyLoop` after a selection: stop, or swap and go on -/
def hK (f : Nat) (s : Store P) (i lg : Nat) : R (Store P) :=
  if lg = i then pure s else do let s ← s.swap i lg; MaxQ.heapifyLoop f s lg

/-- one iteration of the Rust loop in the hand model's terms: swap, then select again -/
def hStep (s : Store P) (i lg : Nat) : R (Store P × Nat × Nat) := do
  let s1 ← s.swap i lg
  let r ← MaxQ.pickLargest s1 lg
  pure (r.1, lg, r.2)

theorem hK_succ (f : Nat) (s : Store P) (i lg : Nat) (h : lg ≠ i) :
    hK (f + 1) s i lg = hStep s i lg >>= fun b => hK f b.1 b.2.1 b.2.2 := by
  simp only [hK, hStep, h, ↓reduceIte, MaxQ.heapifyLoop, bind_assoc, pure_bind]

/-- the selection before the Rust loop, in the hand model's terms -/
def hPick (s : Store P) (i : Nat) : R (Store P × Nat × Nat) := do
  let r ← MaxQ.pickLargest s i
  pure (r.1, i, r.2)

theorem heapifyLoop_succ (f : Nat) (s : Store P) (i : Nat) :
    MaxQ.heapifyLoop (f + 1) s i = hPick s i >>= fun b => hK f b.1 b.2.1 b.2.2 := by
  simp only [MaxQ.heapifyLoop, hK, hPick, bind_assoc, pure_bind]

def proj03 (st : St P) : Store P × Nat × Nat := (st.s, st.n 0, st.n 3)

theorem pqHeapify_loop_body (g : Nat) (st : St P) :
    (fun r => (proj03 r.1, r.2)) <$>
        execStep (exec prog (g + 1)) (callWith (exec prog (g + 1)) prog) pqHeapify_loop1_body st
      = (fun b => (b, Flow.normal)) <$> hStep st.s (st.n 0) (st.n 3) := by
  src_eval [pqHeapify_loop1_body, call_storeSwap, call_storePrioAt, MaxQ.pickLargest, proj03, hStep]
  src_close

theorem pqHeapify_loop_cond (callf : CallF P) (st : St P) :
    evalB callf st pqHeapify_loop1_cond = pure (st.s, decide (st.n 3 ≠ st.n 0)) := by
  src_eval [pqHeapify_loop1_cond]

theorem pqHeapify_loop (f : Nat) : ∀ (k : Nat) (st : St P), f ≤ k →
    hK f st.s (st.n 0) (st.n 3) ≠ .error .fuel →
    Agrees (exec prog (k + 2) (.while pqHeapify_loop1_cond pqHeapify_loop1_body) st)
      (hK f st.s (st.n 0) (st.n 3)) (fun st' s' => st'.s = s') := by
  induction f with
  | zero =>
    intro k st _ hne
    rw [exec, execStep_while, pqHeapify_loop_cond]
    have hb := agrees_of_map_eq proj03 _ _ (pqHeapify_loop_body k st)
    by_cases hc : st.n 3 = st.n 0
    · simp only [hK, hc, ↓reduceIte, ne_eq, not_true_eq_false, decide_false, pure_bind, Bool.false_eq_true]
      exact ⟨st, rfl, rfl⟩
    · unfold hK at hne ⊢
      simp only [hc, ↓reduceIte] at hne ⊢
      src_eval [hc, ne_eq, not_false_eq_true, decide_true]
      unfold hStep at hb
      cases hs : st.s.swap (st.n 0) (st.n 3) with
      | ok s1 => simp [hs, MaxQ.heapifyLoop, ok_bind] at hne
      | error e =>
        simp only [hs, error_bind] at hb ⊢
        rw [Agrees.error_iff] at hb ⊢
        simp only [hb, error_bind]
  | succ f ih =>
    intro k st hk hne
    obtain ⟨k, rfl⟩ : ∃ k', k = k' + 1 := ⟨k - 1, by omega⟩
    rw [exec, execStep_while, pqHeapify_loop_cond]
    have hb := agrees_of_map_eq proj03 _ _ (pqHeapify_loop_body (k + 1) st)
    by_cases hc : st.n 3 = st.n 0
    · simp only [hK, hc, ↓reduceIte, ne_eq, not_true_eq_false, decide_false, pure_bind, Bool.false_eq_true]
      exact ⟨st, rfl, rfl⟩
    · rw [hK_succ _ _ _ _ hc] at hne ⊢
      src_eval [hc, ne_eq, not_false_eq_true, decide_true]
      refine Agrees.bindW hb ?_
      intro st2 b hy hrel
      subst hrel
      refine ih k st2 (by omega) ?_
      simpa only [hy, ok_bind, proj03] using hne

theorem pqHeapify_part1_eq (g : Nat) (st : St P) (h : ¬ st.s.size ≤ 1) :
    (fun r => (proj03 r.1, r.2)) <$>
        execStep (exec prog (g + 1)) (callWith (exec prog (g + 1)) prog) pqHeapify_part1 st
      = (fun b => (b, Flow.normal)) <$>
        hPick st.s (st.n 0) := by
  src_eval [SrcGen.pqHeapify_part1, call_storePrioAt, MaxQ.pickLargest, proj03, hPick, h]
  src_close

/-! the hand model's loop never runs out of its fuel -/

theorem swap_post (s : Store P) (a b : Nat) : Post (s.swap a b) (fun s' => s'.size = s.size) := by
  unfold Store.swap
  exact Post.bind (Post.triv _) fun _ _ => Post.bind (Post.triv _) fun _ _ => Post.bind (Post.triv _) fun _ _ =>
    Post.bind (Post.triv _) fun _ _ => Post.pure rfl

theorem pickLargest_post (s : Store P) (i : Nat) :
    Post (MaxQ.pickLargest s i) (fun r => r.1.size = s.size ∧ (r.2 = i ∨ (i < r.2 ∧ r.2 < s.size))) := by
  unfold MaxQ.pickLargest
  refine Post.bind (Post.triv _) fun ip _ => Post.ite (fun hl => ?_) (fun _ => Post.pure ⟨rfl, Or.inl rfl⟩)
  refine Post.bind (Post.triv _) fun cp _ => Post.ite (fun hr => Post.bind (Post.triv _) fun rp _ => Post.pure ⟨rfl, ?_⟩)
    (fun _ => Post.pure ⟨rfl, ?_⟩)
  all_goals
    simp only [Arith.left, Arith.right, size_tick] at *
    repeat' split
    all_goals omega
theorem pickLargest_noFuel (s : Store P) (i : Nat) : NoFuel (MaxQ.pickLargest s i) := by
  unfold MaxQ.pickLargest
  have h := fun (s : Store P) i => NoFuel.prioAt s i
  no_fuel

theorem heapifyLoop_noFuel (f : Nat) : ∀ (s : Store P) (i : Nat), 1 ≤ f → s.size ≤ f + i →
    NoFuel (MaxQ.heapifyLoop f s i) := by
  induction f with
  | zero => intro s i h; omega
  | succ f ih =>
    intro s i _ hsz
    rw [MaxQ.heapifyLoop]
    refine NoFuel.bind (pickLargest_noFuel s i) fun r hr => ?_
    have hspec := pickLargest_post s i r hr
    obtain ⟨s', lg⟩ := r
    refine NoFuel.ite (fun _ => NoFuel.pure _) fun hne => NoFuel.bind (NoFuel.swap _ _ _) fun s'' hs => ?_
    have h2 := swap_post s' i lg s'' hs
    simp only at hspec h2
    exact ih s'' lg (by omega) (by omega)

/-- `PriorityQueue::heapify` = `MaxQ.heapify` -/
theorem pqHeapify (s : Store P) (i : Nat) (fuel : Nat) (h : fuel ≥ s.size + 2) :
    Src.run SrcGen.prog fuel .pqHeapify s [i] = (fun s' => (s', Val.unit)) <$> MaxQ.heapify s i := by
  obtain ⟨k, rfl⟩ : ∃ k, fuel = k + 2 := ⟨fuel - 2, by omega⟩
  src_enter [prog, SrcGen.pqHeapify]
  unfold MaxQ.heapify
  by_cases hsz : s.size ≤ 1
  · src_eval [pqHeapify_body, pqHeapify_part1, hsz]
  · simp only [hsz, ↓reduceIte]
    obtain ⟨n, hn⟩ : ∃ n, s.size = n + 1 := ⟨s.size - 1, by omega⟩
    have hne := heapifyLoop_noFuel s.size s i (by omega) (by omega)
    rw [hn, heapifyLoop_succ] at hne ⊢
    rw [pqHeapify_body, execStep_seq]
    simp only [map_eq_pure_bind, bind_assoc, Function.comp]
    have h1 := agrees_of_map_eq proj03 _ _ (pqHeapify_part1_eq k
      { s := s, n := bindN [0] [i], p := bindP [] [] } hsz)
    simp only [bindN, upd, ↓reduceIte] at h1
    refine Agrees.bindFin (kx := execStep (exec prog (k + 1)) (callWith (exec prog (k + 1)) prog)
      (.while pqHeapify_loop1_cond pqHeapify_loop1_body)) h1 ?_
    intro st' b hy hrel
    subst hrel
    rw [exec_succ]
    refine Agrees.fin_unit (pqHeapify_loop n k st' (by omega) ?_)
    have := hne
    unfold NoFuel at this
    simpa only [hy, ok_bind, proj03] using this

/-! ## `PriorityQueue::bubble_up` -/

/-- one iteration of the `while` of `bubble_up` in the hand model's terms; the flag says whether the hole moved -/
def bStep (s : Store P) (pos : Nat) (prio : P) : R ((Store P × Nat) × Bool) := do
  let pp ← s.prioAt (Arith.parent pos)
  let s := s.tick
  if pp < prio then do
    let parentIndex ← getU s.heap (Arith.parent pos) 201
    let heap ← setU s.heap pos parentIndex 202
    let qp ← setU s.qp parentIndex pos 203
    pure (({ s with heap := heap, qp := qp }, Arith.parent pos), true)
  else pure ((s, pos), false)

theorem bubbleUpLoop_succ (f : Nat) (s : Store P) (pos : Nat) (prio : P) :
    MaxQ.bubbleUpLoop (f + 1) s pos prio =
      if pos > 0 then bStep s pos prio >>= fun b => if b.2 then MaxQ.bubbleUpLoop f b.1.1 b.1.2 prio else pure b.1
      else pure (s, pos) := by
  simp only [MaxQ.bubbleUpLoop, bStep, bind_assoc, pure_bind]
  src_close

/-- what the rest of `bubble_up` looks at: the store, the hole (registers 3, 4) and the priority (register 2) -/
def projB (st : St P) : Store P × Nat × Nat × Option P := (st.s, st.n 3, st.n 4, st.p 2)

theorem pqBubbleUp_loop_body (rec : Stmt → St P → R (St P × Flow P)) (callf : CallF P) (st : St P) (prio : P)
    (hp : st.p 2 = some prio) (hpos : st.n 3 > 0) :
    (fun r => (projB r.1, r.2)) <$> execStep rec callf pqBubbleUp_loop1_body st
      = (fun b => ((b.1.1, b.1.2, st.n 4, some prio), if b.2 then Flow.normal else Flow.brk)) <$>
        bStep st.s (st.n 3) prio := by
  have hpos' : ¬ st.n 3 = 0 := by omega
  src_eval [pqBubbleUp_loop1_body, projB, bStep, Store.prioAt, hp, hpos']
  src_close

theorem pqBubbleUp_loop_cond (callf : CallF P) (st : St P) :
    evalB callf st pqBubbleUp_loop1_cond = pure (st.s, decide (st.n 3 > 0)) := by
  src_eval [pqBubbleUp_loop1_cond]

theorem pqBubbleUp_loop (f : Nat) : ∀ (k : Nat) (st : St P) (prio : P), f ≤ k → st.p 2 = some prio →
    NoFuel (MaxQ.bubbleUpLoop f st.s (st.n 3) prio) →
    Agrees (exec prog (k + 1) (.while pqBubbleUp_loop1_cond pqBubbleUp_loop1_body) st)
      (MaxQ.bubbleUpLoop f st.s (st.n 3) prio)
      (fun st' r => st'.s = r.1 ∧ st'.n 3 = r.2 ∧ st'.n 4 = st.n 4) := by
  induction f with
  | zero => intro k st prio _ _ hne; exact absurd rfl hne
  | succ f ih =>
    intro k st prio hk hp hne
    obtain ⟨k, rfl⟩ : ∃ k', k = k' + 1 := ⟨k - 1, by omega⟩
    rw [exec, execStep_while, pqBubbleUp_loop_cond, bubbleUpLoop_succ] at *
    by_cases hc : st.n 3 > 0
    · simp only [hc, ↓reduceIte, decide_true, pure_bind] at hne ⊢
      have hb := agreesB_of_map_eq' projB (fun (b : Store P × Nat) => (b.1, b.2, st.n 4, some prio)) _ _
        (pqBubbleUp_loop_body (exec prog (k + 1)) (callWith (exec prog (k + 1)) prog) st prio hp hc)
      refine AgreesB.bindW (kx := exec prog (k + 1) (.while pqBubbleUp_loop1_cond pqBubbleUp_loop1_body))
        (ky := fun b => MaxQ.bubbleUpLoop f b.1 b.2 prio) (kb := fun b => pure b) hb ?_ ?_
      · intro st2 b hy hrel
        simp only [projB, Prod.mk.injEq] at hrel
        obtain ⟨h1, h2, h3, h4⟩ := hrel
        have := ih k st2 prio (by omega) h4 (by
          have := hne
          unfold NoFuel at this ⊢
          simpa only [hy, ok_bind, h1, h2, ↓reduceIte] using this)
        rw [h1, h2, h3] at this
        exact this
      · intro st2 b hy hrel
        simp only [projB, Prod.mk.injEq] at hrel
        obtain ⟨h1, h2, h3, h4⟩ := hrel
        exact ⟨st2, rfl, h1, h2, h3⟩
    · simp only [hc, ↓reduceIte, decide_false, pure_bind, Bool.false_eq_true]
      exact ⟨_, rfl, rfl, rfl, rfl⟩

theorem bStep_noFuel (s : Store P) (pos : Nat) (prio : P) : NoFuel (bStep s pos prio) := by
  unfold bStep
  have h := fun (s : Store P) i => NoFuel.prioAt s i
  no_fuel

theorem bStep_post (s : Store P) (pos : Nat) (prio : P) :
    Post (bStep s pos prio) (fun b => b.2 = true → b.1.2 = Arith.parent pos) := by
  unfold bStep
  refine Post.bind (Post.triv _) fun pp _ => Post.ite (fun _ => ?_) (fun _ => Post.pure (by simp))
  exact Post.bind (Post.triv _) fun _ _ => Post.bind (Post.triv _) fun _ _ => Post.bind (Post.triv _) fun _ _ =>
    Post.pure (fun _ => rfl)

theorem bubbleUpLoop_noFuel (f : Nat) : ∀ (s : Store P) (pos : Nat) (prio : P), pos < f →
    NoFuel (MaxQ.bubbleUpLoop f s pos prio) := by
  induction f with
  | zero => intro s pos prio h; omega
  | succ f ih =>
    intro s pos prio h
    rw [bubbleUpLoop_succ]
    refine NoFuel.ite (fun hpos => NoFuel.bind (bStep_noFuel _ _ _) fun b hb => ?_) (fun _ => NoFuel.pure _)
    have hp := bStep_post s pos prio b hb
    refine NoFuel.ite (fun hb2 => ih _ _ _ ?_) (fun _ => NoFuel.pure _)
    rw [hp hb2]
    simp only [Arith.parent]
    omega

/-- `PriorityQueue::bubble_up` = `MaxQ.bubbleUp` -/
theorem pqBubbleUp (s : Store P) (position mapPosition : Nat) (fuel : Nat) (h : fuel ≥ position + 2) :
    Src.run SrcGen.prog fuel .pqBubbleUp s [position, mapPosition]
      = (fun r => (r.1, Val.nat r.2)) <$> MaxQ.bubbleUp s position mapPosition := by
  obtain ⟨k, rfl⟩ : ∃ k, fuel = k + 2 := ⟨fuel - 2, by omega⟩
  src_enter [prog, SrcGen.pqBubbleUp]
  unfold MaxQ.bubbleUp
  src_eval [pqBubbleUp_body, pqBubbleUp_part1]
  refine bind_congr_ok fun e he => ?_
  rw [exec_succ]
  have hl := pqBubbleUp_loop (position + 1) (k + 1)
    { s := s, n := upd (upd (upd (upd (fun _ => 0) 1 mapPosition) 0 position) 3 position) 4 mapPosition,
      p := upd (fun _ => none) 2 (some e.snd) } e.snd (by omega) (by simp [upd])
    (by simpa [upd] using bubbleUpLoop_noFuel (position + 1) s position e.snd (by omega))
  simp only [upd, ↓reduceIte, Nat.reduceEqDiff] at hl
  refine Agrees.bindFin (kx := execStep (exec prog (k + 1)) (callWith (exec prog (k + 1)) prog) pqBubbleUp_part2) hl ?_
  intro st' b hy hrel
  obtain ⟨h1, h2, h3⟩ := hrel
  src_eval [pqBubbleUp_part2, h1, h2, h3]

/-! ## `PriorityQueue::up_heapify` -/

theorem call_pqHeapify (s : Store P) (i n : Nat) (h : n ≥ s.size + 2) :
    callWith (exec prog n) prog .pqHeapify s [i] [] [] = (fun s' => (s', Val.unit)) <$> MaxQ.heapify s i :=
  pqHeapify s i n h

theorem call_pqBubbleUp (s : Store P) (pos mp n : Nat) (h : n ≥ pos + 2) :
    callWith (exec prog n) prog .pqBubbleUp s [pos, mp] [] [] = (fun r => (r.1, Val.nat r.2)) <$> MaxQ.bubbleUp s pos mp :=
  pqBubbleUp s pos mp n h

theorem bStep_post_size (s : Store P) (pos : Nat) (prio : P) :
    Post (bStep s pos prio) (fun b => b.1.1.size = s.size) := by
  unfold bStep
  refine Post.bind (Post.triv _) fun pp _ => Post.ite (fun _ => ?_) (fun _ => Post.pure rfl)
  exact Post.bind (Post.triv _) fun _ _ => Post.bind (Post.triv _) fun _ _ => Post.bind (Post.triv _) fun _ _ =>
    Post.pure rfl

theorem bubbleUpLoop_post_size (f : Nat) : ∀ (s : Store P) (pos : Nat) (prio : P),
    Post (MaxQ.bubbleUpLoop f s pos prio) (fun r => r.1.size = s.size) := by
  induction f with
  | zero => intro s pos prio r hr; cases hr
  | succ f ih =>
    intro s pos prio
    rw [bubbleUpLoop_succ]
    refine Post.ite (fun _ => Post.bind (bStep_post_size s pos prio) fun b hb => ?_) (fun _ => Post.pure rfl)
    refine Post.ite (fun _ => ?_) (fun _ => Post.pure hb)
    intro r hr
    rw [ih _ _ _ r hr, hb]

theorem bubbleUp_post_size (s : Store P) (pos mp : Nat) :
    Post (MaxQ.bubbleUp s pos mp) (fun r => r.1.size = s.size) := by
  unfold MaxQ.bubbleUp
  refine Post.bind (Post.triv _) fun e _ => Post.bind (bubbleUpLoop_post_size _ s pos e.2) fun r hr => ?_
  exact Post.bind (Post.triv _) fun _ _ => Post.bind (Post.triv _) fun _ _ => Post.pure hr

/-- `PriorityQueue::up_heapify` = `MaxQ.upHeapify` -/
theorem pqUpHeapify (s : Store P) (i : Nat) (fuel : Nat) (h : fuel ≥ s.size + min i s.heap.size + 3) :
    Src.run SrcGen.prog fuel .pqUpHeapify s [i] = (fun s' => (s', Val.unit)) <$> MaxQ.upHeapify s i := by
  obtain ⟨k, rfl⟩ : ∃ k, fuel = k + 1 := ⟨fuel - 1, by omega⟩
  src_enter [prog, SrcGen.pqUpHeapify]
  unfold MaxQ.upHeapify
  src_eval [pqUpHeapify_body]
  refine bind_congr_ok fun tmp htmp => ?_
  have hi : i < s.heap.size := getElem?_some_lt ((getU_ok_iff _ _ _ _).mp htmp)
  rw [call_pqBubbleUp _ _ _ _ (by omega)]
  src_eval
  refine bind_congr_ok fun r hr => ?_
  have hsz := bubbleUp_post_size s i tmp r hr
  rw [call_pqHeapify _ _ _ (by omega)]
  src_eval

/-! ## `PriorityQueue::heap_build` -/

theorem hK_post_size (f : Nat) : ∀ (s : Store P) (i lg : Nat), Post (hK f s i lg) (fun s' => s'.size = s.size) := by
  induction f with
  | zero =>
    intro s i lg
    unfold hK
    refine Post.ite (fun _ => Post.pure rfl) (fun _ => Post.bind (Post.triv _) fun _ _ => ?_)
    intro r hr; simp [MaxQ.heapifyLoop] at hr
  | succ f ih =>
    intro s i lg
    by_cases h : lg = i
    · simp only [hK, h, ↓reduceIte]; exact Post.pure rfl
    · rw [hK_succ _ _ _ _ h]
      unfold hStep
      refine Post.bind (Post.bind (swap_post s i lg) fun s1 h1 => Post.bind (pickLargest_post s1 lg) fun r hr =>
        Post.pure (Q := fun (b : Store P × Nat × Nat) => b.1.size = s.size) (by simp only; rw [hr.1, h1])) fun b hb => ?_
      intro r hr
      rw [ih _ _ _ r hr, hb]

theorem heapify_post_size (s : Store P) (i : Nat) : Post (MaxQ.heapify s i) (fun s' => s'.size = s.size) := by
  unfold MaxQ.heapify
  refine Post.ite (fun _ => Post.pure rfl) (fun h => ?_)
  obtain ⟨n, hn⟩ : ∃ n, s.size = n + 1 := ⟨s.size - 1, by omega⟩
  rw [hn, heapifyLoop_succ, ← hn]
  unfold hPick
  refine Post.bind (Post.bind (pickLargest_post s i) fun r hr => Post.pure (Q := fun (b : Store P × Nat × Nat) => b.1.size = s.size) hr.1) fun b hb => ?_
  intro r hr
  rw [hK_post_size _ _ _ _ r hr, hb]

/-- the `for` loop of `heap_build`, for any body that behaves like `heapify(j)` on stores of size `≤ n` -/
theorem pqHeapBuild_for (n : Nat) (body : Nat → St P → R (St P × Flow P))
    (hbody : ∀ j (st : St P), st.s.size = n → body j st =
      (fun s' => ({ st with s := s', n := upd st.n 0 j }, Flow.normal)) <$> MaxQ.heapify st.s j) :
    ∀ (h : Nat) (st : St P), st.s.size = n →
    Agrees (forDown body h st) (MaxQ.heapBuildLoop st.s h) (fun st' s' => st'.s = s') := by
  intro h
  induction h with
  | zero =>
    intro st hn
    rw [forDown, hbody 0 st hn, MaxQ.heapBuildLoop]
    cases hh : MaxQ.heapify st.s 0 with
    | error e => exact Agrees.error_iff _ _ _ |>.mpr rfl
    | ok s' => exact ⟨_, rfl, rfl⟩
  | succ h ih =>
    intro st hn
    rw [forDown, hbody (h + 1) st hn, MaxQ.heapBuildLoop]
    cases hh : MaxQ.heapify st.s (h + 1) with
    | error e => exact Agrees.error_iff _ _ _ |>.mpr rfl
    | ok s' =>
      have hs := heapify_post_size st.s (h + 1) s' hh
      exact ih _ (by simp only at hs ⊢; omega)

/-- `PriorityQueue::heap_build` = `MaxQ.heapBuild` -/
theorem pqHeapBuild (s : Store P) (fuel : Nat) (h : fuel ≥ s.size + 3) :
    Src.run SrcGen.prog fuel .pqHeapBuild s [] = (fun s' => (s', Val.unit)) <$> MaxQ.heapBuild s := by
  obtain ⟨k, rfl⟩ : ∃ k, fuel = k + 1 := ⟨fuel - 1, by omega⟩
  src_enter [prog, SrcGen.pqHeapBuild]
  unfold MaxQ.heapBuild
  by_cases hsz : s.size = 0
  · src_eval [pqHeapBuild_body, hsz]
  · rw [pqHeapBuild_body, execStep_seq]
    src_eval [hsz, MaxQ.parentC]
    refine Agrees.fin_unit (pqHeapBuild_for s.size _ ?_ _ _ rfl)
    intro j st hn
    rw [call_pqHeapify _ _ _ (by omega)]
    src_eval

end PQ.SrcEquiv
