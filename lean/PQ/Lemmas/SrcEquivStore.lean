import PQ.Lemmas.SrcEquivBase
/-!
# Source-translated tie, phase 2: `Store::swap_remove`, `Store::remove`

The map operations `IndexMap::swap_remove_index` / `swap_remove_full` are primitives of the IR (`IMap.swapRemoveIndex`,
`IMap.swapRemoveFull`: IndexMap is trusted base); everything the crate itself does to its two index tables and its size
counter — the order of the accesses, the four-case repair — is translated from the source text.
-/
set_option linter.unusedSimpArgs false
set_option linter.unusedSectionVars false
namespace PQ.SrcEquiv
open PQ PQ.Src PQ.SrcGen

variable {P : Type} [LT P] [DecidableLT P]

/-- `Store::swap_remove` = `Store.swapRemove` -/
theorem storeSwapRemove (s : Store P) (position : Nat) (fuel : Nat) (h : fuel ≥ 1) :
    Src.run SrcGen.prog fuel .storeSwapRemove s [position]
      = (fun r => (r.1, Val.optEntry r.2)) <$> s.swapRemove position := by
  obtain ⟨n, rfl⟩ : ∃ n, fuel = n + 1 := ⟨fuel - 1, by omega⟩
  src_enter [prog, SrcGen.storeSwapRemove]
  src_eval [storeSwapRemove_body, Store.swapRemove]
  src_close

/-- `Store::remove` = `Store.remove` -/
theorem storeRemove (s : Store P) (k : Nat) (fuel : Nat) (h : fuel ≥ 1) :
    Src.run SrcGen.prog fuel .storeRemove s [k]
      = (fun r => (r.1, Val.optRemoved r.2)) <$> s.remove k := by
  obtain ⟨n, rfl⟩ : ∃ n, fuel = n + 1 := ⟨fuel - 1, by omega⟩
  src_enter [prog, SrcGen.storeRemove]
  unfold Store.remove
  cases hm : s.map.swapRemoveFull k with
  | none => src_eval [storeRemove_body, hm]
  | some r =>
    obtain ⟨i, e, map⟩ := r
    src_eval [storeRemove_body, hm]
    src_close

end PQ.SrcEquiv
