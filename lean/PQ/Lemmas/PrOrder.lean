import PQ.Driver
import PQ.Props.C01
import PQ.Props.C02
/-!
# The driver's priority type is an instance of the order the theorems quantify over

The property theorems are stated for any `P` with `[LT P] [DecidableLT P] [LE P] [Std.IsLinearPreorder P]
[Std.LawfulOrderLT P]` — a total preorder, i.e. a well-behaved Rust `Ord` whose `Equal` does not imply identity.  The
correspondence check runs the model at `P := PQ.Driver.Pr` (integers ordered by `Pr.rank`: from `2^40` on the three low bits
are a tag that takes no part in the order, exactly the `Ord`/`Eq` of the harness's `Pri`).  This file shows that `Pr` IS such
an order (so every theorem applies verbatim to what the driver executes), that it is genuinely not antisymmetric (two
distinguishable priorities compare equal), and instantiates C01/C02 at it.
-/
namespace PQ.Driver

instance : LE Pr := ⟨fun a b => a.rank ≤ b.rank⟩

instance : Std.IsLinearPreorder Pr where
  le_refl a := Int.le_refl _
  le_trans a b c := Int.le_trans
  le_total a b := Int.le_total _ _

instance : Std.LawfulOrderLT Pr where
  lt_iff a b := by
    show a.rank < b.rank ↔ a.rank ≤ b.rank ∧ ¬ b.rank ≤ a.rank
    omega

/-- `rank` is monotone: the order of `Pr` coarsens the order of the integers it is printed as -/
theorem Pr.rank_mono {a b : Pr} (h : a.v ≤ b.v) : a.rank ≤ b.rank := by
  unfold Pr.rank tagBase
  split <;> split <;> omega

/-- not antisymmetric: two different priorities neither of which is below the other -/
example : (⟨tagBase + 1⟩ : Pr) ≠ ⟨tagBase + 2⟩ ∧ ¬ (⟨tagBase + 1⟩ : Pr) < ⟨tagBase + 2⟩ ∧ ¬ (⟨tagBase + 2⟩ : Pr) < ⟨tagBase + 1⟩ := by
  decide

/-- below `tagBase` the order is the usual one -/
example : (⟨3⟩ : Pr) < ⟨4⟩ ∧ (⟨-5⟩ : Pr) < ⟨3⟩ ∧ (⟨tagBase - 1⟩ : Pr) < ⟨tagBase⟩ ∧ (⟨tagBase + 7⟩ : Pr) < ⟨tagBase + 8⟩ := by
  decide

-- the reachability theorems of C01 / C02 at the driver's priority type
example (ops : List (Op Pr)) (hl : ∀ op ∈ ops, op.Legal) (hn : ∀ op ∈ ops, op.isLeak = false) :=
  C01_reach_new ops .pq hl hn
example (ops : List (Op Pr)) (hl : ∀ op ∈ ops, op.Legal) (hn : ∀ op ∈ ops, op.isLeak = false) :=
  C02_reach_new ops .dpq hl hn

-- three tied-but-distinguishable priorities: `pop` returns the very entry `peek` showed, tag included
example : hist_okR (run (Q.new .pq) [.push ⟨1, 0⟩ (⟨tagBase + 8 * 7 + 1⟩ : Pr), .push ⟨2, 0⟩ ⟨tagBase + 8 * 7 + 2⟩,
      .push ⟨3, 0⟩ ⟨tagBase + 8 * 7 + 3⟩])
    (fun r => hist_okR (MaxQ.pop r.1.s) (fun r' => r'.2 = MaxQ.peek r.1.s ∧ r'.2.isSome)) := by decide +kernel

end PQ.Driver
