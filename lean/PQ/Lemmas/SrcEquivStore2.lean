import PQ.Lemmas.SrcEquivOps
import PQ.Lemmas.IMapLemmas
/-!
# Source-translated tie, phase 5.1: the remaining `Store` functions

`clear`, `drain`, `retain_mut`, `swap_remove_if`, `change_priority`, `change_priority_by`, `append`.
User closures are opaque values of the IR (`Val.pred`, `Val.setter`), passed as value arguments.
-/
set_option linter.unusedSimpArgs false
set_option linter.unusedSectionVars false
namespace PQ.SrcEquiv
open PQ PQ.Src PQ.SrcGen

variable {P : Type} [LT P] [DecidableLT P]

/-! ## `Store::clear`, `Store::drain` -/

/-- `Store::clear` = `Store.clear` -/
theorem storeClear (s : Store P) (fuel : Nat) (h : fuel ≥ 1) :
    Src.run SrcGen.prog fuel .storeClear s [] = pure (s.clear, Val.unit) := by
  obtain ⟨n, rfl⟩ : ∃ n, fuel = n + 1 := ⟨fuel - 1, by omega⟩
  src_enter [prog, SrcGen.storeClear]
  src_eval [storeClear_body, Store.clear]

/-- the ORDER of the statements of `clear` (the big-step semantics cannot see it): the tables and the size counter are
reset before the entries are dropped (`self.map.clear()` runs user `Drop` code) -/
theorem storeClear_order :
    storeClear_body = .seq .heapClear (.seq .qpClear (.seq (.sizeSet (.lit 0)) .mapClear)) := rfl

/-- `Store::drain` = `Store.drain`; the ghost part of the value says that the tables are empty and the size is `0`
at the moment the draining iterator is handed out -/
theorem storeDrain (s : Store P) (fuel : Nat) (h : fuel ≥ 1) :
    Src.run SrcGen.prog fuel .storeDrain s [] = pure (s.drain.2, Val.drained s.drain.1 #[] #[] 0) := by
  obtain ⟨n, rfl⟩ : ∃ n, fuel = n + 1 := ⟨fuel - 1, by omega⟩
  src_enter [prog, SrcGen.storeDrain]
  src_eval [storeDrain_body, Store.drain]

/-! ## `Store::retain_mut` -/

/-- `Store::retain_mut` = `Store.retainMut` -/
theorem storeRetainMut (s : Store P) (f : Item → P → Bool × Item × P) (fuel : Nat) (h : fuel ≥ 1) :
    Src.run SrcGen.prog fuel .storeRetainMut s [] [] [Val.pred f] = pure (s.retainMut f, Val.unit) := by
  obtain ⟨n, rfl⟩ : ∃ n, fuel = n + 1 := ⟨fuel - 1, by omega⟩
  src_enter [prog, SrcGen.storeRetainMut]
  src_eval [storeRetainMut_body, Store.retainMut]
  by_cases hc : (s.map.retain f).size = s.size
  · simp [hc]
  · simp [hc]

/-! ## `Store::swap_remove_if` -/

/-- `Store::swap_remove_if` = `Store.swapRemoveIf` -/
theorem storeSwapRemoveIf (s : Store P) (pos : Nat) (f : Item → P → Bool × Item × P) (fuel : Nat) (h : fuel ≥ 2) :
    Src.run SrcGen.prog fuel .storeSwapRemoveIf s [pos] [] [Val.pred f]
      = (fun r => (r.1, Val.optEntry r.2)) <$> s.swapRemoveIf pos f := by
  obtain ⟨n, rfl⟩ : ∃ n, fuel = n + 2 := ⟨fuel - 2, by omega⟩
  src_enter [prog, SrcGen.storeSwapRemoveIf]
  src_eval [storeSwapRemoveIf_body, Store.swapRemoveIf, call_storeSwapRemove]
  refine bind_congr_ok fun head _ => bind_congr_ok fun e he => ?_
  have hm : s.map[head]? = some e := (unwrapO_ok_iff _ _ _).mp he
  simp only [hm, pure_bind]
  src_close

/-! ## `Store::change_priority`, `Store::change_priority_by` -/

theorem getFull_some_getElem {m : IMap P} {k i : Nat} {it : Item} {p : P} (h : m.getFull k = some (i, it, p)) :
    m[i]? = some (it, p) := by
  unfold IMap.getFull at h
  cases hf : IMap.find? m k with
  | none => simp [hf] at h
  | some j =>
    simp only [hf] at h
    cases hj : m[j]? with
    | none => simp [hj] at h
    | some e =>
      simp only [hj, Option.some.injEq, Prod.mk.injEq] at h
      obtain ⟨rfl, rfl, rfl⟩ := h
      exact hj

/-- `Store::change_priority` = `Store.changePriority` -/
theorem storeChangePriority (s : Store P) (k : Nat) (p : P) (fuel : Nat) (h : fuel ≥ 1) :
    Src.run SrcGen.prog fuel .storeChangePriority s [k] [p]
      = (fun r => (r.1, Val.optPPos r.2)) <$> s.changePriority k p := by
  obtain ⟨n, rfl⟩ : ∃ n, fuel = n + 1 := ⟨fuel - 1, by omega⟩
  src_enter [prog, SrcGen.storeChangePriority]
  unfold Store.changePriority
  cases hg : s.map.getFull k with
  | none => src_eval [storeChangePriority_body, hg]
  | some r =>
    obtain ⟨i, it, old⟩ := r
    have hm := getFull_some_getElem hg
    src_eval [storeChangePriority_body, hg, hm, IMap.setPrio]
    src_close

/-- `Store::change_priority_by` = `Store.changePriorityBy` -/
theorem storeChangePriorityBy (s : Store P) (k : Nat) (g : P → P) (fuel : Nat) (h : fuel ≥ 1) :
    Src.run SrcGen.prog fuel .storeChangePriorityBy s [k] [] [Val.setter g]
      = (fun r => (r.1, Val.optNat r.2)) <$> s.changePriorityBy k g := by
  obtain ⟨n, rfl⟩ : ∃ n, fuel = n + 1 := ⟨fuel - 1, by omega⟩
  src_enter [prog, SrcGen.storeChangePriorityBy]
  unfold Store.changePriorityBy
  cases hg : s.map.getFull k with
  | none => src_eval [storeChangePriorityBy_body, hg]
  | some r =>
    obtain ⟨i, it, old⟩ := r
    have hm := getFull_some_getElem hg
    src_eval [storeChangePriorityBy_body, hg, hm, IMap.setPrio]
    src_close

/-! ## `Store::append` -/

theorem call_storeDrain (o : Store P) (n : Nat) :
    callWith (exec prog (n + 1)) prog .storeDrain o [] [] [] = pure (o.drain.2, Val.drained o.drain.1 #[] #[] 0) :=
  storeDrain o (n + 1) (by omega)

/-- a `for` loop over a sequence whose body is a total state update that leaves `keep` alone -/
theorem forList_fold {α : Type} (body : Item × P → St P → R (St P × Flow P)) (step : Store P → Item × P → Store P)
    (keep : St P → α)
    (hbody : ∀ e st, ∃ st', body e st = .ok (st', .normal) ∧ st'.s = step st.s e ∧ keep st' = keep st) :
    ∀ (l : List (Item × P)) (st : St P),
      ∃ st', forList body l st = .ok (st', .normal) ∧ st'.s = l.foldl step st.s ∧ keep st' = keep st := by
  intro l
  induction l with
  | nil => intro st; exact ⟨st, rfl, rfl, rfl⟩
  | cons e l ih =>
    intro st
    obtain ⟨st1, h1, h2, h3⟩ := hbody e st
    obtain ⟨st2, h4, h5, h6⟩ := ih st1
    refine ⟨st2, ?_, ?_, ?_⟩
    · rw [forList, h1]; exact h4
    · rw [h5, h2]; rfl
    · rw [h6, h3]

theorem insertFull_fst_of_not_contains (m : IMap P) (e : Item × P) (h : m.contains e.1.key = false) :
    (m.insertFull e.1 e.2).1 = m.push e := by
  unfold IMap.contains at h
  unfold IMap.insertFull
  cases hf : IMap.find? m e.1.key with
  | some i => simp [hf] at h
  | none => rfl

/-- a `for` loop over a sequence followed by a continuation -/
theorem forList_bind {α β : Type} (body : Item × P → St P → R (St P × Flow P)) (l : List (Item × P)) (st0 : St P)
    (K : St P × Flow P → R β) (res : R β) (step : Store P → Item × P → Store P) (keep : St P → α)
    (hbody : ∀ e st, ∃ st', body e st = .ok (st', .normal) ∧ st'.s = step st.s e ∧ keep st' = keep st)
    (hK : ∀ st', st'.s = l.foldl step st0.s → keep st' = keep st0 → K (st', .normal) = res) :
    forList body l st0 >>= K = res := by
  obtain ⟨st', h1, h2, h3⟩ := forList_fold body step keep hbody l st0
  rw [h1]
  exact hK st' h2 h3

theorem append_body_ok (st : St P) (e : Item × P) :
    ∃ st', (if (!st.s.map.contains e.fst.key) = true then
        (pure ({ s := { map := (st.s.map.insertFull e.fst e.snd).fst, heap := st.s.heap.push st.s.size,
                        qp := st.s.qp.push st.s.size, size := st.s.size + 1, ticks := st.s.ticks },
                 n := upd st.n 4 st.s.size, p := upd st.p 3 (some e.snd),
                 v := upd st.v 2 (some (Val.item e.fst)) }, Flow.normal) : R (St P × Flow P))
      else
        pure ({ s := st.s, n := st.n, p := upd st.p 3 (some e.snd), v := upd st.v 2 (some (Val.item e.fst)) },
              Flow.normal)) = .ok (st', .normal) ∧ st'.s = Store.pushIfAbsent st.s e ∧ st'.v 0 = st.v 0 := by
  unfold Store.pushIfAbsent
  cases hc : st.s.map.contains e.fst.key with
  | true => exact ⟨_, by simp; rfl, by simp, by simp [upd]⟩
  | false =>
    refine ⟨_, by simp; rfl, ?_, by simp [upd]⟩
    simp [insertFull_fst_of_not_contains _ _ hc]

/-- `Store::append` = `Store.append`; the IR function hands back `other` -/
theorem storeAppend (s o : Store P) (fuel : Nat) (h : fuel ≥ 2) :
    Src.run SrcGen.prog fuel .storeAppend s [] [] [Val.store o]
      = pure ((s.append o).1, Val.store (s.append o).2) := by
  obtain ⟨n, rfl⟩ : ∃ n, fuel = n + 2 := ⟨fuel - 2, by omega⟩
  src_enter [prog, SrcGen.storeAppend]
  unfold Store.append
  src_eval [storeAppend_body, call_storeDrain]
  by_cases hgt : o.size > s.size
  · simp only [hgt, ↓reduceIte]
    by_cases h0 : s.size = 0
    · simp only [h0, ↓reduceIte]
    · simp only [h0, ↓reduceIte]
      refine forList_bind _ _ _ _ _ Store.pushIfAbsent (fun st => st.v 0) (fun e st => append_body_ok st e) ?_
      intro st' h1 h2
      simp only [upd, ↓reduceIte, Nat.reduceEqDiff] at h2
      simp only [h2, pure_bind, fin_ret, h1, Array.foldl_toList]
  · simp only [hgt, ↓reduceIte]
    by_cases h0 : o.size = 0
    · simp only [h0, ↓reduceIte]
    · simp only [h0, ↓reduceIte]
      refine forList_bind _ _ _ _ _ Store.pushIfAbsent (fun st => st.v 0) (fun e st => append_body_ok st e) ?_
      intro st' h1 h2
      simp only [upd, ↓reduceIte, Nat.reduceEqDiff] at h2
      simp only [h2, pure_bind, fin_ret, h1, Array.foldl_toList]
end PQ.SrcEquiv
