import PQ.Props.C09
/-!
# `double_priority_queue::IterMut`: once `None`, always `None` — the direct form (names carry the prefix `imf_`)

`C09_pq_none_forever` states for the `PriorityQueue` machine `PIterMut`: if the `j`-th answer is `None`, every later answer
is `None`.  For the two-cursor machine `DIterMut` C09 only has the counting form (`C09_dpq_exhaust` (b): once `n` slots have
been emitted …).  This file proves the direct form for `DIterMut`, for every `n` and every call list, with no hypothesis:
the run never faults (`C09_dpq_nofault`), and an answer `None` — to `next` or to `next_back` — is followed by `None` from
both ends, forever.
-/
namespace PQ

/-- the slice cursor: after an answer `None` (to either advancing call) every later advancing call, from either end,
answers `None` -/
theorem Cursor.imf_none_then_none (c : Cursor) (calls : List ICall) (j j' : Nat) (hj : j ≤ j')
    (h : (Cursor.run c calls)[j]? = some (.slot none)) :
    ((calls[j']? = some .next ∨ calls[j']? = some .nextBack) → (Cursor.run c calls)[j']? = some (.slot none)) ∧
    (∀ s, (Cursor.run c calls)[j']? = some (.slot s) → s = none) := by
  induction calls generalizing c j j' with
  | nil => simp at h
  | cons x xs ih =>
    cases j with
    | zero =>
      have hz : c.remaining = 0 := by
        rw [Cursor.run_cons] at h
        simp only [List.getElem?_cons_zero, Option.some.injEq] at h
        by_cases hlt : c.front < c.back
        · cases x <;> simp [Cursor.step, hlt] at h
        · simp only [Cursor.remaining]; omega
      exact Cursor.none_of_remaining_zero c hz _ _
    | succ j =>
      cases j' with
      | zero => omega
      | succ j' =>
        rw [Cursor.run_cons] at h ⊢
        simp only [List.getElem?_cons_succ] at h ⊢
        exact ih _ j j' (by omega) h

/-- **`double_priority_queue::IterMut` is fused, from both ends** — the direct form `C09_pq_none_forever` has for the
`PriorityQueue` machine.  For every number `n` of stored elements and EVERY call list (no hypothesis; the run never faults:
`C09_dpq_nofault`): if the `j`-th answer is `None` — whether `next` or `next_back` was asked — then every later `next` and
every later `next_back` answers `None`, and no later answer hands out a slot.  (So a `&mut` handed out earlier can never be
handed out again after the iterator reported exhaustion, and adaptors relying on `FusedIterator` are right.) -/
theorem imf_dpq_none_forever (n : Nat) (calls : List ICall) :
    ∃ outs, DIterMut.run n (DIterMut.new n) calls = .ok outs ∧
      ∀ j j' : Nat, j ≤ j' → outs[j]? = some (.slot none) →
        ((calls[j']? = some .next ∨ calls[j']? = some .nextBack) → outs[j']? = some (.slot none)) ∧
        (∀ s, outs[j']? = some (.slot s) → s = none) :=
  ⟨_, DIterMut.run_eq_cursor n calls, fun j j' hj h => Cursor.imf_none_then_none _ calls j j' hj h⟩

/-- the same in the shape of `C09_pq_none_forever` (for a run that is given as `.ok outs`) -/
theorem imf_dpq_none_forever' (n : Nat) (calls : List ICall) (outs : List IOut)
    (hrun : DIterMut.run n (DIterMut.new n) calls = .ok outs) (j j' : Nat) (hj : j ≤ j')
    (h : outs[j]? = some (.slot none)) : ∀ s, outs[j']? = some (.slot s) → s = none := by
  obtain ⟨outs', hrun', hall⟩ := imf_dpq_none_forever n calls
  rw [hrun] at hrun'; cases hrun'
  exact (hall j j' hj h).2

/-- the same facts for `iter()` / `into_iter()` / `drain()` (the slice cursor itself) -/
theorem imf_cursor_none_forever (n : Nat) (calls : List ICall) (j j' : Nat) (hj : j ≤ j')
    (h : (Cursor.run (Cursor.new n) calls)[j]? = some (.slot none)) :
    ∀ s, (Cursor.run (Cursor.new n) calls)[j']? = some (.slot s) → s = none :=
  (Cursor.imf_none_then_none _ calls j j' hj h).2

/-- three elements: both ends meet after three advancing calls; the fourth (a `next`) answers `None` at position 4, and
so do the `next_back` at position 6 and the `next` at position 7, while `len` in between answers `0` -/
example : DIterMut.run 3 (DIterMut.new 3) [.next, .nextBack, .len, .nextBack, .next, .len, .nextBack, .next]
    = .ok [.slot (some 0), .slot (some 2), .len 1, .slot (some 1), .slot none, .len 0, .slot none, .slot none] := by rfl

/-- the hypothesis of `imf_dpq_none_forever` is satisfiable (position 4 above) and its conclusion is not trivially true
(positions before the first `None` do hand out slots) -/
example : ∃ outs, DIterMut.run 3 (DIterMut.new 3) [.next, .nextBack, .len, .nextBack, .next, .len, .nextBack, .next]
      = .ok outs ∧ outs[4]? = some (.slot none) ∧ outs[3]? = some (.slot (some 1)) ∧
      outs[6]? = some (.slot none) ∧ outs[7]? = some (.slot none) :=
  ⟨[.slot (some 0), .slot (some 2), .len 1, .slot (some 1), .slot none, .len 0, .slot none, .slot none],
    by rfl, by decide, by decide, by decide, by decide⟩

/-- an empty queue: `None` from the first call on, from both ends -/
example : DIterMut.run 0 (DIterMut.new 0) [.nextBack, .next, .nextBack]
    = .ok [.slot none, .slot none, .slot none] := by rfl

end PQ

#print axioms PQ.imf_dpq_none_forever
#print axioms PQ.imf_dpq_none_forever'
#print axioms PQ.imf_cursor_none_forever
