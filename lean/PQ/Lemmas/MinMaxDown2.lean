import PQ.Lemmas.MinMaxDown1
/-!
# Min-max heap trickle-down, part 2: the loops of the model (`heapifyMinLoop`, `heapifyMaxLoop`) and `heapify`
-/
set_option linter.unusedSimpArgs false
set_option linter.unusedSectionVars false
namespace PQ
open Arith
variable {P : Type} [LT P] [DecidableLT P] [LE P] [Std.IsLinearPreorder P] [Std.LawfulOrderLT P]

namespace Store

/-- total valuation of the positions (default `x0` outside the heap) -/
def prD (s : Store P) (x0 : P) (q : Nat) : P := (s.pr q).getD x0

theorem prD_of_pr {s : Store P} {x0 x : P} {q : Nat} (h : s.pr q = some x) : s.prD x0 q = x := by
  simp [prD, h]

theorem TWF.pr_eq_prD {s : Store P} {n q : Nat} (h : s.TWF n) (x0 : P) (hq : q < n) : s.pr q = some (s.prD x0 q) := by
  obtain ⟨x, hx⟩ := h.pr_some hq
  rw [prD_of_pr hx]; exact hx

@[simp] theorem tick_prD (s : Store P) (k : Nat) (x0 : P) : (s.tick k).prD x0 = s.prD x0 := rfl

theorem tick_WF {s : Store P} {k : Nat} : (s.tick k).WF ↔ s.WF := tick_TWF

end Store

namespace DQ
open Store

/-- what one iteration of the trickle-down loop at `m` does, given the selected candidate `c` (direction `b`):
stop, exchange with a child and stop, or exchange with a grandchild (and possibly its parent) and continue at `c` -/
def StepOut (b : Bool) (res : R (Store P)) (next : Store P → Nat → R (Store P)) (s : Store P) (m c : Nat) (xc xm : P) : Prop :=
  (¬ Lt b xc xm ∧ ∃ k, res = .ok (s.tick k)) ∨
  (Lt b xc xm ∧ c ≤ right m ∧ ∃ s1, res = .ok s1 ∧ s1.WF ∧ s1.map = s.map ∧ s1.size = s.size ∧
      ∀ q, s1.heap[q]? = s.heap[swapPos c m q]?) ∨
  (Lt b xc xm ∧ right m < c ∧ ∃ xp s2, s.pr (parent c) = some xp ∧ res = next s2 c ∧ s2.WF ∧ s2.map = s.map ∧
      s2.size = s.size ∧
      ((¬ Lt b xp xm ∧ ∀ q, s2.heap[q]? = s.heap[swapPos c m q]?) ∨
       (Lt b xp xm ∧ ∀ q, s2.heap[q]? = s.heap[swapPos c m (swapPos c (parent c) q)]?)))

theorem IsCand.parent_of_gt {m c : Nat} (h : IsCand m c) (hc : right m < c) :
    (parent c = left m ∨ parent c = right m) ∧ (c = left (parent c) ∨ c = right (parent c)) := by
  simp only [IsCand, left, right, parent] at *; omega

theorem IsCand.child_of_le {m c : Nat} (h : IsCand m c) (hc : c ≤ right m) : c = left m ∨ c = right m := by
  simp only [IsCand, left, right] at *; omega

theorem heapifyMinLoop_leaf {s : Store P} {m : Nat} (fuel : Nat) (hn : 2 ≤ s.size) (hm : ¬ left m < s.size) :
    heapifyMinLoop (fuel + 1) s m = .ok s := by
  have h1 : s.size ≠ 0 := by omega
  have h2 : s.size - 1 ≠ 0 := by omega
  have h3 : ¬ m ≤ parent (s.size - 1) := fun h => hm ((left_lt_iff hn).mpr h)
  simp [heapifyMinLoop, decC, parentC, h1, h2, h3, bind, Except.bind, pure, Except.pure]

theorem heapifyMaxLoop_leaf {s : Store P} {m : Nat} (fuel : Nat) (hn : 2 ≤ s.size) (hm : ¬ left m < s.size) :
    heapifyMaxLoop (fuel + 1) s m = .ok s := by
  have h1 : s.size ≠ 0 := by omega
  have h2 : s.size - 1 ≠ 0 := by omega
  have h3 : ¬ m ≤ parent (s.size - 1) := fun h => hm ((left_lt_iff hn).mpr h)
  simp [heapifyMaxLoop, decC, parentC, h1, h2, h3, bind, Except.bind, pure, Except.pure]

theorem heapifyMinLoop_step {s : Store P} {m : Nat} (fuel : Nat) (h : s.WF) (hm : left m < s.size) :
    ∃ c xc xm, IsCand m c ∧ c < s.size ∧ s.pr c = some xc ∧ s.pr m = some xm ∧
      (∀ q y, IsCand m q → q < s.size → s.pr q = some y → Le true xc y) ∧
      StepOut true (heapifyMinLoop (fuel + 1) s m) (heapifyMinLoop fuel) s m c xc xm := by
  have hn : 2 ≤ s.size := by simp only [left] at hm; omega
  have hmn : m < s.size := lt_of_left_lt hm
  have h1 : s.size ≠ 0 := by omega
  have h2 : s.size - 1 ≠ 0 := by omega
  have h3 : m ≤ parent (s.size - 1) := (left_lt_iff hn).mp hm
  obtain ⟨cs, hcs, hcs1, hcs2⟩ := candidates_spec h m
  have hne : cs ≠ [] := by
    obtain ⟨x, hx⟩ := hcs2 (left m) (Or.inl rfl) hm
    intro e; rw [e] at hx; cases hx
  obtain ⟨⟨c, xc⟩, hmin, hmem, hle⟩ := minByKey_spec hne
  obtain ⟨hcand, hcn, hprc⟩ := hcs1 c xc hmem
  obtain ⟨xm, hprm⟩ := TWF.pr_some h hmn
  refine ⟨c, xc, xm, hcand, hcn, hprc, hprm, ?_, ?_⟩
  · intro q y hq hqn hy
    obtain ⟨y', hy'⟩ := hcs2 q hq hqn
    have := (hcs1 q y' hy').2.2
    rw [hy] at this; cases this
    exact hle _ hy'
  · have hpc : s.prioAt c = .ok xc := prioAt_eq_ok_iff.mpr hprc
    have hpm : s.prioAt m = .ok xm := prioAt_eq_ok_iff.mpr hprm
    -- the store after the two rounds of ticking
    have htt : (s.tick (cs.length - 1)).tick = s.tick (cs.length - 1 + 1) := tick_tick _ _ _
    generalize hk : cs.length - 1 + 1 = k at htt
    by_cases hlt : xc < xm
    · have hc0 : c ≠ 0 := by have := hcand.gt; omega
      have hwf0 : (s.tick k).TWF (s.tick k).size := tick_TWF.mpr h
      obtain ⟨s1, hsw, h1wf, h1map, h1size, _, h1heap⟩ := swap_spec hwf0 (a := c) (b := m) hcn hmn
      have h1wf' : s1.WF := by unfold Store.WF; rw [h1size]; exact h1wf
      by_cases hgt : right m < c
      · -- grandchild
        right; right
        obtain ⟨hp, hcp⟩ := hcand.parent_of_gt hgt
        have hpn : parent c < s.size := Nat.lt_trans (parent_lt (by omega)) hcn
        obtain ⟨xp, hprp⟩ := TWF.pr_some h hpn
        have hpr1 : ∀ q, s1.pr q = s.pr (swapPos c m q) := fun q => by
          rw [swap_pr h1map h1heap q]; rfl
        have hpne : parent c ≠ c := by have := parent_lt (Nat.pos_of_ne_zero hc0); omega
        have hpnm : parent c ≠ m := by rcases hp with e | e <;> rw [e] <;> simp only [left, right] <;> omega
        have h1c : s1.prioAt c = .ok xm := by
          apply prioAt_eq_ok_iff.mpr; rw [hpr1]; simpa [swapPos] using hprm
        have h1p : s1.prioAt (parent c) = .ok xp := by
          apply prioAt_eq_ok_iff.mpr; rw [hpr1]; simpa [swapPos, hpne, hpnm] using hprp
        by_cases hlt2 : xp < xm
        · have hwf1 : (s1.tick).TWF (s1.tick).size := tick_TWF.mpr h1wf'
          obtain ⟨s2, hsw2, h2wf, h2map, h2size, _, h2heap⟩ :=
            swap_spec hwf1 (a := c) (b := parent c) (by simpa [h1size] using hcn) (by simpa [h1size] using hpn)
          refine ⟨by simpa [Lt] using hlt, hgt, xp, s2, hprp, ?_, ?_, ?_, ?_, Or.inr ⟨by simpa [Lt] using hlt2, ?_⟩⟩
          · simp [heapifyMinLoop, decC, parentC, h1, h2, h3, hcs, hmin, unwrapO, hpc, hpm, htt, hlt, hsw, hgt, hc0,
              h1c, h1p, hlt2, hsw2, bind, Except.bind, pure, Except.pure]
          · unfold Store.WF; rw [h2size]; exact h2wf
          · rw [h2map]; exact h1map
          · rw [h2size]; simpa using h1size
          · intro q; rw [h2heap q]; exact h1heap _
        · refine ⟨by simpa [Lt] using hlt, hgt, xp, s1.tick, hprp, ?_, tick_WF.mpr h1wf', h1map, h1size,
            Or.inl ⟨by simpa [Lt] using hlt2, h1heap⟩⟩
          simp [heapifyMinLoop, decC, parentC, h1, h2, h3, hcs, hmin, unwrapO, hpc, hpm, htt, hlt, hsw, hgt, hc0,
            h1c, h1p, hlt2, bind, Except.bind, pure, Except.pure]
      · right; left
        refine ⟨by simpa [Lt] using hlt, by omega, s1, ?_, h1wf', h1map, h1size, h1heap⟩
        simp [heapifyMinLoop, decC, parentC, h1, h2, h3, hcs, hmin, unwrapO, hpc, hpm, htt, hlt, hsw, hgt,
          bind, Except.bind, pure, Except.pure]
    · left
      refine ⟨by simpa [Lt] using hlt, k, ?_⟩
      simp [heapifyMinLoop, decC, parentC, h1, h2, h3, hcs, hmin, unwrapO, hpc, hpm, htt, hlt,
        bind, Except.bind, pure, Except.pure]

theorem heapifyMaxLoop_step {s : Store P} {m : Nat} (fuel : Nat) (h : s.WF) (hm : left m < s.size) :
    ∃ c xc xm, IsCand m c ∧ c < s.size ∧ s.pr c = some xc ∧ s.pr m = some xm ∧
      (∀ q y, IsCand m q → q < s.size → s.pr q = some y → Le false xc y) ∧
      StepOut false (heapifyMaxLoop (fuel + 1) s m) (heapifyMaxLoop fuel) s m c xc xm := by
  have hn : 2 ≤ s.size := by simp only [left] at hm; omega
  have hmn : m < s.size := lt_of_left_lt hm
  have h1 : s.size ≠ 0 := by omega
  have h2 : s.size - 1 ≠ 0 := by omega
  have h3 : m ≤ parent (s.size - 1) := (left_lt_iff hn).mp hm
  obtain ⟨cs, hcs, hcs1, hcs2⟩ := candidates_spec h m
  have hne : cs ≠ [] := by
    obtain ⟨x, hx⟩ := hcs2 (left m) (Or.inl rfl) hm
    intro e; rw [e] at hx; cases hx
  obtain ⟨⟨c, xc⟩, hmin, hmem, hle⟩ := maxByKey_spec hne
  obtain ⟨hcand, hcn, hprc⟩ := hcs1 c xc hmem
  obtain ⟨xm, hprm⟩ := TWF.pr_some h hmn
  refine ⟨c, xc, xm, hcand, hcn, hprc, hprm, ?_, ?_⟩
  · intro q y hq hqn hy
    obtain ⟨y', hy'⟩ := hcs2 q hq hqn
    have := (hcs1 q y' hy').2.2
    rw [hy] at this; cases this
    exact hle _ hy'
  · have hpc : s.prioAt c = .ok xc := prioAt_eq_ok_iff.mpr hprc
    have hpm : s.prioAt m = .ok xm := prioAt_eq_ok_iff.mpr hprm
    -- the store after the two rounds of ticking
    have htt : (s.tick (cs.length - 1)).tick = s.tick (cs.length - 1 + 1) := tick_tick _ _ _
    generalize hk : cs.length - 1 + 1 = k at htt
    by_cases hlt : xm < xc
    · have hc0 : c ≠ 0 := by have := hcand.gt; omega
      have hwf0 : (s.tick k).TWF (s.tick k).size := tick_TWF.mpr h
      obtain ⟨s1, hsw, h1wf, h1map, h1size, _, h1heap⟩ := swap_spec hwf0 (a := c) (b := m) hcn hmn
      have h1wf' : s1.WF := by unfold Store.WF; rw [h1size]; exact h1wf
      by_cases hgt : right m < c
      · -- grandchild
        right; right
        obtain ⟨hp, hcp⟩ := hcand.parent_of_gt hgt
        have hpn : parent c < s.size := Nat.lt_trans (parent_lt (by omega)) hcn
        obtain ⟨xp, hprp⟩ := TWF.pr_some h hpn
        have hpr1 : ∀ q, s1.pr q = s.pr (swapPos c m q) := fun q => by
          rw [swap_pr h1map h1heap q]; rfl
        have hpne : parent c ≠ c := by have := parent_lt (Nat.pos_of_ne_zero hc0); omega
        have hpnm : parent c ≠ m := by rcases hp with e | e <;> rw [e] <;> simp only [left, right] <;> omega
        have h1c : s1.prioAt c = .ok xm := by
          apply prioAt_eq_ok_iff.mpr; rw [hpr1]; simpa [swapPos] using hprm
        have h1p : s1.prioAt (parent c) = .ok xp := by
          apply prioAt_eq_ok_iff.mpr; rw [hpr1]; simpa [swapPos, hpne, hpnm] using hprp
        by_cases hlt2 : xm < xp
        · have hwf1 : (s1.tick).TWF (s1.tick).size := tick_TWF.mpr h1wf'
          obtain ⟨s2, hsw2, h2wf, h2map, h2size, _, h2heap⟩ :=
            swap_spec hwf1 (a := c) (b := parent c) (by simpa [h1size] using hcn) (by simpa [h1size] using hpn)
          refine ⟨by simpa [Lt] using hlt, hgt, xp, s2, hprp, ?_, ?_, ?_, ?_, Or.inr ⟨by simpa [Lt] using hlt2, ?_⟩⟩
          · simp [heapifyMaxLoop, decC, parentC, h1, h2, h3, hcs, hmin, unwrapO, hpc, hpm, htt, hlt, hsw, hgt, hc0,
              h1c, h1p, hlt2, hsw2, bind, Except.bind, pure, Except.pure]
          · unfold Store.WF; rw [h2size]; exact h2wf
          · rw [h2map]; exact h1map
          · rw [h2size]; simpa using h1size
          · intro q; rw [h2heap q]; exact h1heap _
        · refine ⟨by simpa [Lt] using hlt, hgt, xp, s1.tick, hprp, ?_, tick_WF.mpr h1wf', h1map, h1size,
            Or.inl ⟨by simpa [Lt] using hlt2, h1heap⟩⟩
          simp [heapifyMaxLoop, decC, parentC, h1, h2, h3, hcs, hmin, unwrapO, hpc, hpm, htt, hlt, hsw, hgt, hc0,
            h1c, h1p, hlt2, bind, Except.bind, pure, Except.pure]
      · right; left
        refine ⟨by simpa [Lt] using hlt, by omega, s1, ?_, h1wf', h1map, h1size, h1heap⟩
        simp [heapifyMaxLoop, decC, parentC, h1, h2, h3, hcs, hmin, unwrapO, hpc, hpm, htt, hlt, hsw, hgt,
          bind, Except.bind, pure, Except.pure]
    · left
      refine ⟨by simpa [Lt] using hlt, k, ?_⟩
      simp [heapifyMaxLoop, decC, parentC, h1, h2, h3, hcs, hmin, unwrapO, hpc, hpm, htt, hlt,
        bind, Except.bind, pure, Except.pure]

/-- the two loops as one function of the direction -/
def hLoop (b : Bool) (fuel : Nat) (s : Store P) (i : Nat) : R (Store P) :=
  if b then heapifyMinLoop fuel s i else heapifyMaxLoop fuel s i

theorem hLoop_leaf (b : Bool) {s : Store P} {m : Nat} (fuel : Nat) (hn : 2 ≤ s.size) (hm : ¬ left m < s.size) :
    hLoop b (fuel + 1) s m = .ok s := by
  cases b
  · exact heapifyMaxLoop_leaf fuel hn hm
  · exact heapifyMinLoop_leaf fuel hn hm

theorem hLoop_step (b : Bool) {s : Store P} {m : Nat} (fuel : Nat) (h : s.WF) (hm : left m < s.size) :
    ∃ c xc xm, IsCand m c ∧ c < s.size ∧ s.pr c = some xc ∧ s.pr m = some xm ∧
      (∀ q y, IsCand m q → q < s.size → s.pr q = some y → Le b xc y) ∧
      StepOut b (hLoop b (fuel + 1) s m) (hLoop b fuel) s m c xc xm := by
  cases b
  · exact heapifyMaxLoop_step fuel h hm
  · exact heapifyMinLoop_step fuel h hm

theorem swap_prD {s s' : Store P} {a b : Nat} (x0 : P) (hm : s'.map = s.map)
    (hh : ∀ q, s'.heap[q]? = s.heap[swapPos a b q]?) (q : Nat) : s'.prD x0 q = s.prD x0 (swapPos a b q) := by
  unfold Store.prD; rw [swap_pr hm hh q]

theorem swap2_prD {s s' : Store P} {a b c d : Nat} (x0 : P) (hm : s'.map = s.map)
    (hh : ∀ q, s'.heap[q]? = s.heap[swapPos a b (swapPos c d q)]?) (q : Nat) :
    s'.prD x0 q = s.prD x0 (swapPos a b (swapPos c d q)) := by
  unfold Store.prD Store.pr; rw [hh q, hm]

/-- **the trickle-down loop** in direction `b` started at a position `m` of the matching level parity: if every pair
whose ancestor is not `m` is in order, the loop terminates without fault and puts every pair in order; it only touches
`m` and positions below `m`. -/
theorem hLoop_spec (b : Bool) (x0 : P) (fuel : Nat) : ∀ (s : Store P) (lo m : Nat), s.WF → 2 ≤ s.size → m < s.size →
    lo ≤ m → s.size - m ≤ fuel → evn m = b → VPre (s.prD x0) s.size lo m →
    ∃ s', hLoop b fuel s m = .ok s' ∧ s'.WF ∧ s'.map = s.map ∧ s'.size = s.size ∧ VFrom (s'.prD x0) s.size lo ∧
      (∀ q, q ≠ m → ¬ Anc m q → s'.heap[q]? = s.heap[q]?) := by
  induction fuel with
  | zero => intro s lo m _ _ hm _ hf; omega
  | succ fuel ih =>
    intro s lo m h hn hmn hlo hf hb hpre
    by_cases hl : left m < s.size
    · obtain ⟨c, xc, xm, hcand, hcn, hprc, hprm, hsel0, hout⟩ := hLoop_step b fuel h hl
      have hvc : s.prD x0 c = xc := prD_of_pr hprc
      have hvm : s.prD x0 m = xm := prD_of_pr hprm
      have hsel : ∀ q, IsCand m q → q < s.size → Le (evn m) (s.prD x0 c) (s.prD x0 q) := by
        intro q hq hqn
        rw [hb, hvc]
        exact hsel0 q _ hq hqn (TWF.pr_eq_prD h x0 hqn)
      have hmc : m < c := hcand.gt
      have hcm : c ≠ m := by omega
      rcases hout with ⟨hnlt, k, hres⟩ | ⟨hlt, hle, s1, hres, h1wf, h1map, h1size, h1heap⟩ |
          ⟨hlt, hgt, xp, s2, hprp, hres, h2wf, h2map, h2size, hcase⟩
      · -- stop
        refine ⟨s.tick k, hres, tick_WF.mpr h, rfl, rfl, ?_, fun _ _ _ => rfl⟩
        rw [tick_prD]
        apply from_stop hpre hlo
        intro q hq hqn
        have := hsel q hq hqn
        rw [hvc] at this
        rw [hvm]
        exact (Le.of_not_lt (hb ▸ hnlt)).trans this
      · -- child
        have hv' := swap_prD x0 h1map h1heap
        have hc := hcand.child_of_le hle
        refine ⟨s1, hres, h1wf, h1map, h1size, ?_, ?_⟩
        · apply from_child (v := s.prD x0) (c := c) hpre hlo hc hcn hsel
          · rw [hb, hvc, hvm]; exact hlt
          · rw [hv']; simp [swapPos, Ne.symm hcm]
          · rw [hv']; simp [swapPos]
          · intro q h1 h2; rw [hv']; simp [swapPos, h1, h2]
        · intro q h1 h2
          have hamc : Anc m c := by rcases hc with rfl | rfl; exact Anc.of_left m; exact Anc.of_right m
          have h3 : q ≠ c := fun e => h2 (e ▸ hamc)
          rw [h1heap q]; simp [swapPos, h1, h3]
      · -- grandchild
        obtain ⟨hp, hcp⟩ := hcand.parent_of_gt hgt
        have hvp : s.prD x0 (parent c) = xp := prD_of_pr hprp
        have hamp : Anc m (parent c) := by
          rcases hp with e | e <;> rw [e]
          · exact Anc.of_left m
          · exact Anc.of_right m
        have hapc : Anc (parent c) c := Anc.parent (by omega)
        have hamc : Anc m c := hamp.trans hapc
        have hpm : parent c ≠ m := Ne.symm hamp.ne
        have hpc : parent c ≠ c := hapc.ne
        have hec : evn c = b := by
          rw [← hb]
          rcases hcp with e | e <;> rw [e] <;> rcases hp with e' | e' <;> rw [e'] <;> simp [evn_left, evn_right]
        have hpre2 : VPre (s2.prD x0) s2.size lo c := by
          rw [h2size]
          rcases hcase with ⟨hnlt2, h2heap⟩ | ⟨hlt2, h2heap⟩
          · have hv' := swap_prD x0 h2map h2heap
            apply pre_grand (v := s.prD x0) (p := parent c) hpre hlo hp hcp hcn hsel
            · rw [hb, hvc, hvm]; exact hlt
            · rw [hv']; simp [swapPos, Ne.symm hcm]
            · intro q h1 h2 h3; rw [hv']; simp [swapPos, h1, h3]
            · left
              refine ⟨?_, ?_, ?_⟩
              · rw [hv']; simp [swapPos]
              · rw [hv']; simp [swapPos, hpm, hpc]
              · rw [hb, hvm, hvp]; exact Le.of_not_lt hnlt2
          · have hv' := swap2_prD x0 h2map h2heap
            apply pre_grand (v := s.prD x0) (p := parent c) hpre hlo hp hcp hcn hsel
            · rw [hb, hvc, hvm]; exact hlt
            · rw [hv']; simp [swapPos, Ne.symm hcm, Ne.symm hpm]
            · intro q h1 h2 h3; rw [hv']; simp [swapPos, h1, h2, h3]
            · right
              refine ⟨?_, ?_, ?_⟩
              · rw [hv']; simp [swapPos, hpm, hpc]
              · rw [hv']; simp [swapPos, hpc]
              · rw [hb, hvm, hvp]; exact hlt2.le
        obtain ⟨s', hrun, hwf', hmap', hsize', hfrom, hframe⟩ :=
          ih s2 lo c h2wf (by omega) (by omega) (by omega) (by omega) hec hpre2
        refine ⟨s', by rw [hres]; exact hrun, hwf', by rw [hmap', h2map], by rw [hsize', h2size],
          by rw [← h2size]; exact hfrom, ?_⟩
        intro q h1 h2
        have h3 : q ≠ c := fun e => h2 (e ▸ hamc)
        have h4 : q ≠ parent c := fun e => h2 (e ▸ hamp)
        have h5 : ¬ Anc c q := fun e => h2 (hamc.trans e)
        rw [hframe q h3 h5]
        rcases hcase with ⟨_, h2heap⟩ | ⟨_, h2heap⟩
        · rw [h2heap q]; simp [swapPos, h1, h3]
        · rw [h2heap q]; simp [swapPos, h1, h3, h4]
    · exact ⟨s, hLoop_leaf b fuel hn hl, h, rfl, rfl, from_leaf hpre (by omega), fun _ _ _ => rfl⟩

theorem rel_iff_vrel {s : Store P} {n a d : Nat} (h : s.TWF n) (x0 : P) (ha : a < n) (hd : d < n) :
    s.Rel a d ↔ VRel (s.prD x0) a d := by
  have ea := h.pr_eq_prD x0 ha
  have ed := h.pr_eq_prD x0 hd
  unfold Store.Rel VRel Le evn
  constructor
  · intro hr
    have := hr _ _ ea ed
    by_cases hl : level a % 2 = 0 <;> simp_all
  · intro hv x y hx hy
    rw [ea] at hx; rw [ed] at hy; cases hx; cases hy
    by_cases hl : level a % 2 = 0 <;> simp_all

theorem heapify_eq_hLoop {s : Store P} (i : Nat) (hn : 2 ≤ s.size) : heapify s i = hLoop (evn i) s.size s i := by
  have : ¬ s.size ≤ 1 := by omega
  unfold heapify hLoop evn
  by_cases hl : level i % 2 = 0 <;> simp [this, hl]

/-- `heapify` at a position outside the heap does nothing (used after removing the last element) -/
theorem heapify_noop {s : Store P} {i : Nat} (hi : s.size ≤ i) : heapify s i = .ok s := by
  by_cases hn : s.size ≤ 1
  · simp [heapify, hn, pure, Except.pure]
  · have hn2 : 2 ≤ s.size := by omega
    have hl : ¬ left i < s.size := by have := left_gt i; omega
    rw [heapify_eq_hLoop i hn2]
    obtain ⟨f, hf⟩ : ∃ f, s.size = f + 1 := ⟨s.size - 1, by omega⟩
    rw [hf]; rw [hf] at hn2 hl
    exact hLoop_leaf _ f (by omega) (by omega)

/-- **T1: sift-down restores the order at and below `i`.**  If every ancestor/descendant pair (with ancestor `≥ lo`)
whose ancestor is not `i` is in min-max order, `heapify s i` runs without fault, keeps the tables well-formed, keeps
the map and the size, establishes the order for all pairs with ancestor `≥ lo`, and changes the heap table only at `i`
and below `i`. -/
theorem heapify_spec {s : Store P} {lo i : Nat} (h : s.WF) (hi : i < s.size) (hlo : lo ≤ i)
    (hpre : ∀ a d, Anc a d → d < s.size → lo ≤ a → a ≠ i → s.Rel a d) :
    ∃ s', heapify s i = .ok s' ∧ s'.WF ∧ s'.map = s.map ∧ s'.size = s.size ∧ s'.MinMaxFrom lo ∧
      (∀ p, p ≠ i → ¬ Anc i p → s'.heap[p]? = s.heap[p]?) := by
  by_cases hn : s.size ≤ 1
  · refine ⟨s, by simp [heapify, hn, pure, Except.pure], h, rfl, rfl, ?_, fun _ _ _ => rfl⟩
    intro a d had hd
    have := had.pos; omega
  · have hn2 : 2 ≤ s.size := by omega
    obtain ⟨x0, _⟩ := TWF.pr_some h hi
    have hvpre : VPre (s.prD x0) s.size lo i := by
      intro a d had hd hloa hai
      exact (rel_iff_vrel h x0 (Nat.lt_trans had.lt hd) hd).mp (hpre a d had hd hloa hai)
    obtain ⟨s', hrun, hwf', hmap', hsize', hfrom, hframe⟩ :=
      hLoop_spec (evn i) x0 s.size s lo i h hn2 hi hlo (by omega) rfl hvpre
    refine ⟨s', by rw [heapify_eq_hLoop i hn2]; exact hrun, hwf', hmap', hsize', ?_, hframe⟩
    intro a d had hd hloa
    rw [hsize'] at hd
    have hwf'' : s'.TWF s.size := by have := hwf'; unfold Store.WF at this; rwa [hsize'] at this
    exact (rel_iff_vrel hwf'' x0 (Nat.lt_trans had.lt hd) hd).mpr (hfrom a d had hd hloa)

/-- the loop never faults on a well-formed store, whatever the priorities are (no order hypothesis) -/
theorem hLoop_safe (b : Bool) (fuel : Nat) : ∀ (s : Store P) (m : Nat), s.WF → 2 ≤ s.size → m < s.size →
    s.size - m ≤ fuel →
    ∃ s', hLoop b fuel s m = .ok s' ∧ s'.WF ∧ s'.map = s.map ∧ s'.size = s.size ∧
      (∀ q, q ≠ m → ¬ Anc m q → s'.heap[q]? = s.heap[q]?) := by
  induction fuel with
  | zero => intro s m _ _ hm hf; omega
  | succ fuel ih =>
    intro s m h hn hmn hf
    by_cases hl : left m < s.size
    · obtain ⟨c, xc, xm, hcand, hcn, _, _, _, hout⟩ := hLoop_step b fuel h hl
      have hmc : m < c := hcand.gt
      rcases hout with ⟨_, k, hres⟩ | ⟨_, hle, s1, hres, h1wf, h1map, h1size, h1heap⟩ |
          ⟨_, hgt, xp, s2, _, hres, h2wf, h2map, h2size, hcase⟩
      · exact ⟨s.tick k, hres, tick_WF.mpr h, rfl, rfl, fun _ _ _ => rfl⟩
      · refine ⟨s1, hres, h1wf, h1map, h1size, ?_⟩
        intro q h1 h2
        have hc := hcand.child_of_le hle
        have hamc : Anc m c := by rcases hc with rfl | rfl; exact Anc.of_left m; exact Anc.of_right m
        have h3 : q ≠ c := fun e => h2 (e ▸ hamc)
        rw [h1heap q]; simp [swapPos, h1, h3]
      · obtain ⟨hp, hcp⟩ := hcand.parent_of_gt hgt
        have hamp : Anc m (parent c) := by
          rcases hp with e | e <;> rw [e]
          · exact Anc.of_left m
          · exact Anc.of_right m
        have hamc : Anc m c := hamp.trans (Anc.parent (by omega))
        obtain ⟨s', hrun, hwf', hmap', hsize', hframe⟩ := ih s2 c h2wf (by omega) (by omega) (by omega)
        refine ⟨s', by rw [hres]; exact hrun, hwf', by rw [hmap', h2map], by rw [hsize', h2size], ?_⟩
        intro q h1 h2
        have h3 : q ≠ c := fun e => h2 (e ▸ hamc)
        have h4 : q ≠ parent c := fun e => h2 (e ▸ hamp)
        have h5 : ¬ Anc c q := fun e => h2 (hamc.trans e)
        rw [hframe q h3 h5]
        rcases hcase with ⟨_, h2heap⟩ | ⟨_, h2heap⟩
        · rw [h2heap q]; simp [swapPos, h1, h3]
        · rw [h2heap q]; simp [swapPos, h1, h3, h4]
    · exact ⟨s, hLoop_leaf b fuel hn hl, h, rfl, rfl, fun _ _ _ => rfl⟩

/-- `heapify` never faults on a well-formed store (any position, any priorities), keeps the tables well-formed, the
map and the size, and touches the heap table only at `i` and below -/
theorem heapify_safe {s : Store P} (h : s.WF) (i : Nat) :
    ∃ s', heapify s i = .ok s' ∧ s'.WF ∧ s'.map = s.map ∧ s'.size = s.size ∧
      (∀ p, p ≠ i → ¬ Anc i p → s'.heap[p]? = s.heap[p]?) := by
  by_cases hi : s.size ≤ i
  · exact ⟨s, heapify_noop hi, h, rfl, rfl, fun _ _ _ => rfl⟩
  · by_cases hn : s.size ≤ 1
    · exact ⟨s, by simp [heapify, hn, pure, Except.pure], h, rfl, rfl, fun _ _ _ => rfl⟩
    · rw [heapify_eq_hLoop i (by omega)]
      exact hLoop_safe (evn i) s.size s i h (by omega) (by omega) (by omega)

theorem heapify_map {s s' : Store P} {i : Nat} (h : s.WF) (hr : heapify s i = .ok s') : s'.map = s.map := by
  obtain ⟨s'', h1, _, h2, _⟩ := heapify_safe h i
  rw [hr] at h1; cases h1; exact h2

theorem heapify_size {s s' : Store P} {i : Nat} (h : s.WF) (hr : heapify s i = .ok s') : s'.size = s.size := by
  obtain ⟨s'', h1, _, _, h2, _⟩ := heapify_safe h i
  rw [hr] at h1; cases h1; exact h2

theorem heapify_WF {s s' : Store P} {i : Nat} (h : s.WF) (hr : heapify s i = .ok s') : s'.WF := by
  obtain ⟨s'', h1, h2, _⟩ := heapify_safe h i
  rw [hr] at h1; cases h1; exact h2

end DQ
end PQ
