import PQ.Model.SrcGen
/-! # Source-translated tie: the capacity forwards of `src/store.rs` against `PQ/Model/Capacity.lean` -/
namespace PQ.SrcEquivCap
open PQ PQ.Cap PQ.SrcCap PQ.SrcGen

/-- the result of a capacity forward in the vocabulary of `Cap.stepC` -/
def toCOut {P : Type} : CapOut → COut P
  | .unit => .unit
  | .tryOk => .tryOk
  | .tryErr => .tryErr
  | .cap n => .cap n

variable {P : Type} [LT P] [DecidableLT P]

/-- run the generated term `t` as the capacity operation of a queue-with-capacities -/
def runCap (a : Alloc) (x : QC P) (n : Nat) (t : Option (List CapStmt)) : R (QC P × COut P) :=
  match t with
  | none => .error (.unwrapNone 9999)
  | some l => (fun r => ({ x with caps := r.1 }, toCOut r.2)) <$> execCap a x.q.s.size n l x.caps

/-! token-exactness: every forward goes to `map`, `heap`, `qp` in that order (`shrink_to_fit`: `heap`, `qp`, `map`), to the
method of the same name, with `?` exactly in the `try_` variants -/
example : capReserve = some [.call .map .reserve false, .call .heap .reserve false, .call .qp .reserve false] := by decide
example : capReserveExact
    = some [.call .map .reserveExact false, .call .heap .reserveExact false, .call .qp .reserveExact false] := by decide
example : capTryReserve
    = some [.call .map .tryReserve true, .call .heap .tryReserve true, .call .qp .tryReserve true, .retOk] := by decide
example : capTryReserveExact = some [.call .map .tryReserveExact true, .call .heap .tryReserveExact true,
    .call .qp .tryReserveExact true, .retOk] := by decide
example : capShrinkToFit
    = some [.call .heap .shrinkToFit false, .call .qp .shrinkToFit false, .call .map .shrinkToFit false] := by decide
example : capCapacity = some [.retCall .map .capacity] := by decide

/-- `Store::reserve` = `Cap.stepC … (.reserve n)` for every allocator -/
theorem capReserve_eq (a : Alloc) (x : QC P) (n : Nat) : runCap a x n capReserve = stepC a x (.reserve n) := by
  simp only [runCap, capReserve, execCap, stepC, Cap.tryReserve, Caps.get, Caps.set]
  cases a.grant .map x.caps.map x.q.s.size n with
  | none => rfl
  | some m =>
    simp only
    cases a.grant .heap x.caps.heap x.q.s.size n with
    | none => rfl
    | some h =>
      simp only
      cases a.grant .qp x.caps.qp x.q.s.size n <;> rfl

/-- `Store::reserve_exact` = `Cap.stepC … (.reserveExact n)` -/
theorem capReserveExact_eq (a : Alloc) (x : QC P) (n : Nat) :
    runCap a x n capReserveExact = stepC a x (.reserveExact n) := by
  simp only [runCap, capReserveExact, execCap, stepC, Cap.tryReserve, Caps.get, Caps.set]
  cases a.grant .map x.caps.map x.q.s.size n with
  | none => rfl
  | some m =>
    simp only
    cases a.grant .heap x.caps.heap x.q.s.size n with
    | none => rfl
    | some h =>
      simp only
      cases a.grant .qp x.caps.qp x.q.s.size n <;> rfl

/-- `Store::try_reserve` = `Cap.stepC … (.tryReserve n)`: the first refusal is returned, what was grown stays grown -/
theorem capTryReserve_eq (a : Alloc) (x : QC P) (n : Nat) : runCap a x n capTryReserve = stepC a x (.tryReserve n) := by
  simp only [runCap, capTryReserve, execCap, stepC, Cap.tryReserve, Caps.get, Caps.set]
  cases a.grant .map x.caps.map x.q.s.size n with
  | none => rfl
  | some m =>
    simp only
    cases a.grant .heap x.caps.heap x.q.s.size n with
    | none => rfl
    | some h =>
      simp only
      cases a.grant .qp x.caps.qp x.q.s.size n <;> rfl

/-- `Store::try_reserve_exact` = `Cap.stepC … (.tryReserveExact n)` -/
theorem capTryReserveExact_eq (a : Alloc) (x : QC P) (n : Nat) :
    runCap a x n capTryReserveExact = stepC a x (.tryReserveExact n) := by
  simp only [runCap, capTryReserveExact, execCap, stepC, Cap.tryReserve, Caps.get, Caps.set]
  cases a.grant .map x.caps.map x.q.s.size n with
  | none => rfl
  | some m =>
    simp only
    cases a.grant .heap x.caps.heap x.q.s.size n with
    | none => rfl
    | some h =>
      simp only
      cases a.grant .qp x.caps.qp x.q.s.size n <;> rfl

/-- `Store::shrink_to_fit` = `Cap.stepC … .shrinkToFit` (the source shrinks `heap`, `qp`, `map` in this order; the three
collections are independent) -/
theorem capShrinkToFit_eq (a : Alloc) (x : QC P) (n : Nat) : runCap a x n capShrinkToFit = stepC a x .shrinkToFit := by
  simp only [runCap, capShrinkToFit, execCap, stepC, Caps.get, Caps.set]
  rfl

/-- `Store::capacity` = `Cap.stepC … .capacity`: the map's capacity -/
theorem capCapacity_eq (a : Alloc) (x : QC P) (n : Nat) : runCap a x n capCapacity = stepC a x .capacity := by
  simp only [runCap, capCapacity, execCap, stepC, Caps.get]
  rfl
end PQ.SrcEquivCap
