import PQ.Lemmas.IMapLemmas
/-!
# A hash-indexed lookup finds the slot the hasher-free model finds — for every hasher (helper lemmas for C18)

`IndexMap` keeps its entries in a vector and, next to it, a hash table of slot indices.  A lookup hashes the key with the
queue's `BuildHasher`, probes the slots filed under that hash value and compares keys with `Eq`.  Abstractly: an index is a
hash function `hash : key → hash value` (the hasher: arbitrary, also constant) and, for every hash value, the list of slots
filed under it (`bucket`; the order inside a bucket is the probe order, also arbitrary).  `Valid` says the table files
exactly the stored slots, each under the hash of its key — IndexMap's own invariant, trusted.  The model (`IMap.find?`) is a
linear search by key.  Under unique keys the two agree, whatever `hash` and whatever the bucket order.
-/
namespace PQ
variable {P : Type}

structure HIndex where
  /-- the hasher: key ↦ hash value -/
  hash : Nat → Nat
  /-- the table: hash value ↦ slots filed under it, in probe order -/
  bucket : Nat → List Nat

namespace HIndex

/-- the table files exactly the stored slots, each under the hash of its key -/
def Valid (ix : HIndex) (m : IMap P) : Prop :=
  (∀ (i : Nat) (e : Item × P), m[i]? = some e → i ∈ ix.bucket (ix.hash e.1.key)) ∧
  (∀ (h i : Nat), i ∈ ix.bucket h → ∃ e : Item × P, m[i]? = some e ∧ ix.hash e.1.key = h)

/-- lookup through the index: probe the bucket of the key's hash, compare keys -/
def find? (ix : HIndex) (m : IMap P) (k : Nat) : Option Nat :=
  (ix.bucket (ix.hash k)).find? fun i =>
    match m[i]? with
    | some e => e.1.key == k
    | none => false

/-- the canonical index of a map for a given hasher -/
def ofHash (hash : Nat → Nat) (m : IMap P) : HIndex where
  hash := hash
  bucket := fun h => (List.range m.size).filter fun i =>
    match m[i]? with
    | some e => hash e.1.key == h
    | none => false

theorem ofHash_valid (hash : Nat → Nat) (m : IMap P) : (ofHash hash m).Valid m := by
  constructor
  · intro i e he
    obtain ⟨hi, rfl⟩ := Array.getElem?_eq_some_iff.1 he
    simp [ofHash, List.mem_filter, hi]
  · intro h i hi
    simp only [ofHash, List.mem_filter, List.mem_range] at hi
    obtain ⟨hlt, hm⟩ := hi
    cases he : m[i]? with
    | none => simp [he] at hm
    | some e => exact ⟨e, rfl, by simpa [he, ofHash] using hm⟩

/-- **any hasher, any probe order**: a valid index finds exactly the slot the model's linear search finds -/
theorem find?_eq_model {ix : HIndex} {m : IMap P} (hm : m.NoDupKeys) (hv : ix.Valid m) (k : Nat) :
    ix.find? m k = IMap.find? m k := by
  cases hf : IMap.find? m k with
  | none =>
    rw [IMap.find?_eq_none_iff] at hf
    unfold find?
    rw [List.find?_eq_none]
    intro i hi
    obtain ⟨e, he, _⟩ := hv.2 _ i hi
    have := hf i e he
    simp [he, this]
  | some i =>
    obtain ⟨e, he, hk⟩ := (IMap.find?_eq_some_iff_of_noDup hm).1 hf
    have hmem : i ∈ ix.bucket (ix.hash k) := hk ▸ hv.1 i e he
    unfold find?
    -- the first slot of the bucket that passes the key comparison is `i`, because no other slot holds key `k`
    cases hg : (ix.bucket (ix.hash k)).find? (fun i => match m[i]? with | some e => e.1.key == k | none => false) with
    | none =>
      rw [List.find?_eq_none] at hg
      have := hg i hmem
      simp [he, hk] at this
    | some j =>
      have hj := List.find?_some hg
      cases hej : m[j]? with
      | none => simp [hej] at hj
      | some e' =>
        have hk' : e'.1.key = k := by simpa [hej] using hj
        have : i = j := hm i j e e' he hej (hk.trans hk'.symm)
        rw [this]

/-- two hashers (two valid indices, whatever their hash functions and probe orders) find the same slot -/
theorem find?_hasher_independent {ix₁ ix₂ : HIndex} {m : IMap P} (hm : m.NoDupKeys)
    (h₁ : ix₁.Valid m) (h₂ : ix₂.Valid m) (k : Nat) : ix₁.find? m k = ix₂.find? m k := by
  rw [find?_eq_model hm h₁, find?_eq_model hm h₂]

end HIndex
end PQ
