import PQ.Lemmas.SiftUp
import PQ.Lemmas.Arith
/-!
# `PriorityQueue::bubble_up`, `up_heapify`, `heap_build`: order and well-formedness
-/
set_option linter.unusedSimpArgs false
set_option linter.unusedSectionVars false
namespace PQ
open Arith
variable {P : Type} [LT P] [DecidableLT P] [LE P] [Std.IsLinearPreorder P] [Std.LawfulOrderLT P]

namespace Store

theorem HoleTWF.prioAt_ok {s : Store P} {n hole idx p : Nat} (h : s.HoleTWF n hole idx) (hp : p < n) (hne : p ≠ hole) :
    ∃ i x, s.heap[p]? = some i ∧ s.prioAt p = .ok x ∧ s.pr p = some x := by
  obtain ⟨i, _, h1, h2⟩ := h.heap_qp p hp hne
  have hi : i < s.map.size := by have := lt_size_of_getElem? h2; rw [h.qp_size] at this; rw [h.map_size]; exact this
  have hm : s.map[i]? = some s.map[i] := by simp [hi]
  have hpr : s.pr p = some (s.map[i]).2 := by simp [pr, h1, hm]
  exact ⟨i, _, h1, prioAt_eq_ok_iff.mpr hpr, hpr⟩

/-- `a` dominates `b` under an option-valued priority function -/
def GeW (w : Nat → Option P) (a b : Nat) : Prop := ∀ x y, w a = some x → w b = some y → ¬ x < y

/-- loop invariant of the sift-up (order part), over the virtual priority function `w` with the travelling
priority `v` in the hole; `i0` is where the walk started -/
structure UpInv (w : Nat → Option P) (v : P) (n hole i0 : Nat) : Prop where
  edges : ∀ p, 0 < p → p < n → p ≠ hole → parent p ≠ hole → GeW w (parent p) p
  bridge : 0 < hole → ∀ c, 0 < c → c < n → parent c = hole → GeW w (parent hole) c
  below : hole ≠ i0 → ∀ c, 0 < c → c < n → parent c = hole → ∀ y, w c = some y → ¬ v < y

end Store

namespace MaxQ
open Store

theorem bubbleUpLoop_spec (v : P) (n idx i0 : Nat) (fuel : Nat) : ∀ (s : Store P) (hole : Nat), s.HoleTWF n hole idx → hole + 1 ≤ fuel →
    UpInv (prH s hole v) v n hole i0 →
    ∃ s' pos, bubbleUpLoop fuel s hole v = .ok (s', pos) ∧ s'.HoleTWF n pos idx ∧ s'.map = s.map ∧ s'.size = s.size ∧
      pos ≤ hole ∧ UpInv (prH s' pos v) v n pos i0 ∧
      (0 < pos → ∀ x, prH s' pos v (parent pos) = some x → ¬ x < v) ∧
      (∀ p, hole < p → s'.heap[p]? = s.heap[p]?) := by
  induction fuel with
  | zero => intro s hole _ hf; omega
  | succ fuel ih =>
    intro s hole h hf inv
    by_cases h0 : hole > 0
    · have hppn : parent hole < n := by have := h.hole_lt; simp only [parent]; omega
      have hppne : parent hole ≠ hole := by simp only [parent]; omega
      obtain ⟨pi, x, hpi, hx, hxp⟩ := h.prioAt_ok hppn hppne
      by_cases hlt : x < v
      · -- the parent moves down, the hole moves up
        have hstep := (h.tick (k := 1)).step hppn hppne (by simpa using hpi)
        have hpiN : pi < s.qp.size := by
          obtain ⟨_, _, h2, h3⟩ := h.heap_qp _ hppn hppne
          rw [hpi] at h2; cases h2; exact lt_size_of_getElem? h3
        have hholeN : hole < s.heap.size := by rw [h.heap_size]; exact h.hole_lt
        obtain ⟨s1, hs1⟩ : ∃ s1 : Store P, s1 = { s.tick with heap := (s.tick).heap.setIfInBounds hole pi, qp := (s.tick).qp.setIfInBounds pi hole } := ⟨_, rfl⟩
        rw [← hs1] at hstep
        have hpl : parent hole < hole := by simp only [parent]; omega
        have hw : ∀ p, prH s1 (parent hole) v p = prH s hole v (swapPos hole (parent hole) p) := by
          intro p
          have := prH_step (h.tick (k := 1)) hppne (by simpa using hpi) v p
          rw [hs1]; simpa [prH, pr] using this
        have inv1 : UpInv (prH s1 (parent hole) v) v n (parent hole) i0 := by
          have hwpp : prH s hole v (parent hole) = some x := by simp [prH, hppne, hxp]
          have hwh : prH s hole v hole = some v := by simp [prH]
          refine ⟨?_, ?_, ?_⟩
          · intro p hp hpn hpne hppne2 a b ha hb
            rw [hw] at ha hb
            by_cases hph : p = hole
            · -- edge (new hole, old hole): v above x
              subst hph
              simp [swapPos] at ha
              simp [swapPos, hppne] at hb
              exact absurd rfl hppne2
            · by_cases hpph : parent p = hole
              · -- children of the old hole now sit under the parent's old value
                rw [hpph] at ha
                simp [swapPos] at ha
                simp [swapPos, hph, hpne] at hb
                exact inv.bridge h0 p hp hpn hpph a b ha hb
              · simp [swapPos, hpph, hppne2] at ha
                simp [swapPos, hph, hpne] at hb
                exact inv.edges p hp hpn hph hpph a b ha hb
          · intro hpp0 c hc hcn hcp a b ha hb
            rw [hw] at ha hb
            have h1 : parent (parent hole) ≠ hole := by simp only [parent]; omega
            have h2 : parent (parent hole) ≠ parent hole := by simp only [parent] at hpp0 ⊢; omega
            simp [swapPos, h1, h2] at ha
            by_cases hch : c = hole
            · subst hch
              simp [swapPos] at hb
              -- a ≥ x (old edge) and we need ¬ a < x
              rw [hwpp] at hb; cases hb
              exact inv.edges (parent c) hpp0 hppn hppne (by simp only [parent] at hpp0 ⊢; omega) a _ ha hwpp
            · -- the sibling of the old hole
              have hcne : c ≠ parent hole := by simp only [parent] at hcp ⊢; omega
              simp [swapPos, hch, hcne] at hb
              have e1 := inv.edges (parent hole) hpp0 hppn hppne (by simp only [parent] at hpp0 ⊢; omega) a x ha hwpp
              have e2 := inv.edges c hc hcn hch (by rw [hcp]; exact hppne) x b (by rw [hcp]; exact hwpp) hb
              grind
          · intro _ c hc hcn hcp y hy
            rw [hw] at hy
            by_cases hch : c = hole
            · subst hch
              simp [swapPos] at hy
              rw [hwpp] at hy; cases hy; grind
            · have hcne : c ≠ parent hole := by simp only [parent] at hcp ⊢; omega
              simp [swapPos, hch, hcne] at hy
              have e2 := inv.edges c hc hcn hch (by rw [hcp]; exact hppne) x y (by rw [hcp]; exact hwpp) hy
              grind
        obtain ⟨s', pos, hrun, hh', hm', hsz', hle, inv', hexit, hfr⟩ := ih s1 (parent hole) hstep (by omega) inv1
        refine ⟨s', pos, ?_, hh', by rw [hm', hs1]; rfl, by rw [hsz', hs1]; rfl, by omega, inv', hexit, ?_⟩
        · simp [bubbleUpLoop, h0, hx, hlt, getU_ok hpi, setU_ok pi hholeN, setU_ok hole hpiN, bind, Except.bind, pure, Except.pure]
          rw [hs1] at hrun; exact hrun
        · intro p hp
          rw [hfr p (by omega), hs1]
          simp [Array.getElem?_setIfInBounds]
          intro e; omega
      · refine ⟨s.tick, hole, ?_, h.tick, rfl, rfl, Nat.le_refl _, ?_, ?_, fun _ _ => rfl⟩
        · simp [bubbleUpLoop, h0, hx, hlt, bind, Except.bind, pure, Except.pure]
        · exact inv
        · intro _ y hy
          have : prH (s.tick) hole v (parent hole) = some x := by simp [prH, hppne, hxp]
          rw [this] at hy; cases hy; exact hlt
    · refine ⟨s, hole, ?_, h, rfl, rfl, Nat.le_refl _, inv, ?_, fun _ _ => rfl⟩
      · simp [bubbleUpLoop, h0]; rfl
      · intro hp; omega

end MaxQ
end PQ

namespace PQ
open Arith
variable {P : Type} [LT P] [DecidableLT P] [LE P] [Std.IsLinearPreorder P] [Std.LawfulOrderLT P]
namespace MaxQ
open Store

/-- **`bubble_up`** from position `i` holding slot `idx`, on tables of length `n` (which may differ from `s.size`:
`push` sifts up before bumping `size`).  If every edge not incident to `i` is in order and the parent of `i`
dominates the children of `i`, the result has well-formed tables, every edge not leaving the final position `pos` in
order, the bridge property at `pos`, and full order below `pos` if the element moved. -/
theorem bubbleUp_spec {s : Store P} {n i idx : Nat} (h : s.TWF n) (hi : s.heap[i]? = some idx)
    (hE : ∀ p, 0 < p → p < n → p ≠ i → parent p ≠ i → s.Ge (parent p) p)
    (hB : 0 < i → ∀ c, 0 < c → c < n → parent c = i → s.Ge (parent i) c) :
    ∃ s' pos, bubbleUp s i idx = .ok (s', pos) ∧ s'.TWF n ∧ s'.map = s.map ∧ s'.size = s.size ∧ pos ≤ i ∧
      (∀ p, 0 < p → p < n → parent p ≠ pos → s'.Ge (parent p) p) ∧
      (0 < pos → ∀ c, 0 < c → c < n → parent c = pos → s'.Ge (parent pos) c) ∧
      (pos ≠ i → ∀ c, 0 < c → c < n → parent c = pos → s'.Ge pos c) ∧
      (∀ p, i < p → s'.heap[p]? = s.heap[p]?) := by
  have hidx : idx < n := h.heap_lt hi
  obtain ⟨e, he⟩ := h.map_some hidx
  have hpri : s.pr i = some e.2 := by simp [pr, hi, he]
  have hw0 : ∀ p, prH s i e.2 p = s.pr p := by
    intro p; unfold prH; split
    · next hp => subst hp; exact hpri.symm
    · rfl
  have inv0 : UpInv (prH s i e.2) e.2 n i i := by
    refine ⟨?_, ?_, fun hne => absurd rfl hne⟩
    · intro p hp hpn hpi hppi a b ha hb
      rw [hw0] at ha hb; exact hE p hp hpn hpi hppi a b ha hb
    · intro h0 c hc hcn hcp a b ha hb
      rw [hw0] at ha hb; exact hB h0 c hc hcn hcp a b ha hb
  obtain ⟨s1, pos, hrun, hh1, hm1, hsz1, hle, inv1, hexit, hfr⟩ :=
    bubbleUpLoop_spec e.2 n idx i (i + 1) s i (h.toHole hi) (Nat.le_refl _) inv0
  have hposN : pos < s1.heap.size := by rw [hh1.heap_size]; exact hh1.hole_lt
  have hidxN : idx < s1.qp.size := by rw [hh1.qp_size]; exact hidx
  have he1 : s1.map[idx]? = some e := by rw [hm1]; exact he
  have hfill := hh1.fill
  have hprf := pr_fill hh1 e he1
  refine ⟨{ s1 with heap := s1.heap.setIfInBounds pos idx, qp := s1.qp.setIfInBounds idx pos }, pos, ?_, hfill, hm1, hsz1, hle, ?_, ?_, ?_, ?_⟩
  · simp [bubbleUp, IMap.getIndex, unwrapO, he, hrun, setU_ok idx hposN, setU_ok pos hidxN, bind, Except.bind, pure, Except.pure]
  · intro p hp hpn hpp a b ha hb
    rw [hprf] at ha hb
    by_cases hpe : p = pos
    · subst hpe
      have : prH s1 p e.2 p = some e.2 := by simp [prH]
      rw [this] at hb; cases hb
      exact hexit hp a ha
    · exact inv1.edges p hp hpn hpe hpp a b ha hb
  · intro h0 c hc hcn hcp a b ha hb
    rw [hprf] at ha hb
    exact inv1.bridge h0 c hc hcn hcp a b ha hb
  · intro hne c hc hcn hcp a b ha hb
    rw [hprf] at ha hb
    have : prH s1 pos e.2 pos = some e.2 := by simp [prH]
    rw [this] at ha; cases ha
    exact inv1.below hne c hc hcn hcp b hb
  · intro p hp
    have hne : pos ≠ p := by omega
    simp [Array.getElem?_setIfInBounds, hne]
    exact hfr p hp

/-- `heapify` in the form used by the callers -/
theorem heapify_spec {s : Store P} {lo i : Nat} (h : s.WF) (hi : i < s.size) (hlo : lo ≤ i) (hpre : s.SiftPre lo i) :
    ∃ s', heapify s i = .ok s' ∧ s'.WF ∧ s'.map = s.map ∧ s'.size = s.size ∧ s'.EdgesFrom lo ∧
      (∀ p, p < i → s'.heap[p]? = s.heap[p]?) := by
  unfold heapify
  by_cases h1 : s.size ≤ 1
  · refine ⟨s, by simp [h1]; rfl, h, rfl, rfl, ?_, fun _ _ => rfl⟩
    intro p hp hps; omega
  · simp only [h1, if_false]
    exact heapifyLoop_spec s.size s lo i h hi hlo (by omega) hpre

/-- **`up_heapify(i)`** restores the max-heap after an arbitrary change of the priority at position `i`. -/
theorem upHeapify_spec {s : Store P} {i : Nat} (h : s.WF) (hi : i < s.size)
    (hE : ∀ p, 0 < p → p < s.size → p ≠ i → parent p ≠ i → s.Ge (parent p) p)
    (hB : 0 < i → ∀ c, 0 < c → c < s.size → parent c = i → s.Ge (parent i) c) :
    ∃ s', upHeapify s i = .ok s' ∧ s'.WF ∧ s'.map = s.map ∧ s'.size = s.size ∧ s'.MaxHeap := by
  obtain ⟨idx, hidx, _⟩ := TWF.heap_some h hi
  obtain ⟨s1, pos, hb, h1, hm1, hsz1, hle, e1, b1, _, _⟩ := bubbleUp_spec h hidx hE hB
  have h1wf : s1.WF := by unfold Store.WF; rw [hsz1]; exact h1
  have hpre : s1.SiftPre 0 pos := by
    constructor
    · intro p hp hps _ hpp; rw [hsz1] at hps; exact e1 p hp hps hpp
    · intro h0 _ c hc hcs hcp; rw [hsz1] at hcs; exact b1 h0 c hc hcs hcp
  obtain ⟨s', hh, hwf, hm, hsz, hed, _⟩ := heapify_spec h1wf (by rw [hsz1]; omega) (Nat.zero_le _) hpre
  refine ⟨s', ?_, hwf, by rw [hm, hm1], by rw [hsz, hsz1], (maxHeap_iff_edgesFrom s').mpr hed⟩
  simp [upHeapify, getU_ok hidx, hb, hh, bind, Except.bind]

/-- **`heap_build`** (Floyd) turns any well-formed store into a max-heap. -/
theorem heapBuildLoop_spec : ∀ (k : Nat) (s : Store P), s.WF → k < s.size → s.EdgesFrom (k + 1) →
    ∃ s', heapBuildLoop s k = .ok s' ∧ s'.WF ∧ s'.map = s.map ∧ s'.size = s.size ∧ s'.MaxHeap := by
  intro k
  induction k with
  | zero =>
    intro s h hk hed
    have hpre : s.SiftPre 0 0 := by
      constructor
      · intro p hp hps _ hpp; exact hed p hp hps (by omega)
      · intro h0; omega
    obtain ⟨s', hh, hwf, hm, hsz, hed', _⟩ := heapify_spec h hk (Nat.le_refl _) hpre
    exact ⟨s', by simpa [heapBuildLoop] using hh, hwf, hm, hsz, (maxHeap_iff_edgesFrom s').mpr hed'⟩
  | succ k ih =>
    intro s h hk hed
    have hpre : s.SiftPre (k + 1) (k + 1) := by
      constructor
      · intro p hp hps hlo hpp; exact hed p hp hps (by omega)
      · intro _ hlo; have := parent_lt (i := k + 1) (by omega); omega
    obtain ⟨s1, hh, hwf, hm, hsz, hed', _⟩ := heapify_spec h hk (Nat.le_refl _) hpre
    obtain ⟨s', hh', hwf', hm', hsz', hmax⟩ := ih s1 hwf (by rw [hsz]; omega) hed'
    exact ⟨s', by simp [heapBuildLoop, hh, hh', bind, Except.bind], hwf', by rw [hm', hm], by rw [hsz', hsz], hmax⟩

theorem heapBuild_spec {s : Store P} (h : s.WF) :
    ∃ s', heapBuild s = .ok s' ∧ s'.WF ∧ s'.map = s.map ∧ s'.size = s.size ∧ s'.MaxHeap := by
  unfold heapBuild
  by_cases h0 : s.size = 0
  · refine ⟨s, by simp [h0]; rfl, h, rfl, rfl, ?_⟩
    intro p hp hps; omega
  · have hpl : parent s.size < s.size := parent_lt (by omega)
    have hed : s.EdgesFrom (parent s.size + 1) := by
      intro p hp hps hlo
      have : parent p ≤ parent s.size := parent_mono (by omega)
      omega
    obtain ⟨s', hh, rest⟩ := heapBuildLoop_spec (parent s.size) s h hpl hed
    exact ⟨s', by simp [h0, parentC, hh, bind, Except.bind], rest⟩

end MaxQ
end PQ
