import PQ.Lemmas.SrcEquiv
/-!
# Source-translated tie, phase 3: the min-max heap (`src/double_priority_queue/mod.rs`)

Same method as `SrcEquiv.lean`.  `bubble_up_min` / `bubble_up_max` take `hole: &mut Hole`: the IR functions receive the
hole as its two `usize` fields plus the priority and return the new `hole.position` (see `PQ/Model/SRC_README.md`).
-/
set_option linter.unusedSimpArgs false
set_option linter.unusedSectionVars false
namespace PQ.SrcEquiv
open PQ PQ.Src PQ.SrcGen

variable {P : Type} [LT P] [DecidableLT P]

/-! ## `DoublePriorityQueue::bubble_up_min` -/

/-- one iteration of the loop of `bubble_up_min` in the hand model's terms; the flag says whether the hole moved -/
def dStepMin (s : Store P) (pos : Nat) (prio : P) : R ((Store P × Nat) × Bool) := do
  let gpp ← s.prioAt (Arith.parent (Arith.parent pos))
  let s := s.tick
  if prio < gpp then do
    let gpi ← getU s.heap (Arith.parent (Arith.parent pos)) 320
    let heap ← setU s.heap pos gpi 321
    let qp ← setU s.qp gpi pos 322
    pure (({ s with heap := heap, qp := qp }, Arith.parent (Arith.parent pos)), true)
  else pure ((s, pos), false)

theorem bubbleUpMinLoop_succ (f : Nat) (s : Store P) (pos : Nat) (prio : P) :
    DQ.bubbleUpMinLoop (f + 1) s pos prio =
      if pos > 0 ∧ Arith.parent pos > 0 then
        dStepMin s pos prio >>= fun b => if b.2 then DQ.bubbleUpMinLoop f b.1.1 b.1.2 prio else pure b.1
      else pure (s, pos) := by
  simp only [DQ.bubbleUpMinLoop, dStepMin, bind_assoc, pure_bind]
  src_close

/-- what the loop and its caller look at: the store, the hole position (register 0), the priority (register 2) -/
def projD (st : St P) : Store P × Nat × Option P := (st.s, st.n 0, st.p 2)

theorem dqBubbleUpMin_loop_body (rec : Stmt → St P → R (St P × Flow P)) (callf : CallF P) (st : St P) (prio : P)
    (hp : st.p 2 = some prio) (hpos : st.n 0 > 0 ∧ Arith.parent (st.n 0) > 0) :
    (fun r => (projD r.1, r.2)) <$> execStep rec callf dqBubbleUpMin_loop1_body st
      = (fun b => ((b.1.1, b.1.2, some prio), if b.2 then Flow.normal else Flow.brk)) <$>
        dStepMin st.s (st.n 0) prio := by
  have h1 : ¬ st.n 0 = 0 := by omega
  have h2 : ¬ Arith.parent (st.n 0) = 0 := by omega
  src_eval [dqBubbleUpMin_loop1_body, projD, dStepMin, Store.prioAt, hp, h1, h2]
  src_close

theorem dqBubbleUpMin_loop_cond (callf : CallF P) (st : St P) :
    evalB callf st dqBubbleUpMin_loop1_cond = pure (st.s, decide (st.n 0 > 0 ∧ Arith.parent (st.n 0) > 0)) := by
  src_eval [dqBubbleUpMin_loop1_cond]
  by_cases h : st.n 0 > 0
  · have h1 : ¬ st.n 0 = 0 := by omega
    simp [h, h1]
  · simp [h]

theorem dqBubbleUpMin_loop (f : Nat) : ∀ (k : Nat) (st : St P) (prio : P), f ≤ k → st.p 2 = some prio →
    NoFuel (DQ.bubbleUpMinLoop f st.s (st.n 0) prio) →
    Agrees (exec prog (k + 1) (.while dqBubbleUpMin_loop1_cond dqBubbleUpMin_loop1_body) st)
      (DQ.bubbleUpMinLoop f st.s (st.n 0) prio)
      (fun st' r => st'.s = r.1 ∧ st'.n 0 = r.2) := by
  induction f with
  | zero => intro k st prio _ _ hne; exact absurd rfl hne
  | succ f ih =>
    intro k st prio hk hp hne
    obtain ⟨k, rfl⟩ : ∃ k', k = k' + 1 := ⟨k - 1, by omega⟩
    rw [exec, execStep_while, dqBubbleUpMin_loop_cond, bubbleUpMinLoop_succ] at *
    by_cases hc : st.n 0 > 0 ∧ Arith.parent (st.n 0) > 0
    · simp only [hc, and_self, ↓reduceIte, decide_true, pure_bind] at hne ⊢
      have hb := agreesB_of_map_eq' projD (fun (b : Store P × Nat) => (b.1, b.2, some prio)) _ _
        (dqBubbleUpMin_loop_body (exec prog (k + 1)) (callWith (exec prog (k + 1)) prog) st prio hp hc)
      refine AgreesB.bindW (kx := exec prog (k + 1) (.while dqBubbleUpMin_loop1_cond dqBubbleUpMin_loop1_body))
        (ky := fun b => DQ.bubbleUpMinLoop f b.1 b.2 prio) (kb := fun b => pure b) hb ?_ ?_
      · intro st2 b hy hrel
        simp only [projD, Prod.mk.injEq] at hrel
        obtain ⟨h1, h2, h4⟩ := hrel
        have := ih k st2 prio (by omega) h4 (by
          have := hne
          unfold NoFuel at this ⊢
          simpa only [hy, ok_bind, h1, h2, ↓reduceIte] using this)
        rw [h1, h2] at this
        exact this
      · intro st2 b hy hrel
        simp only [projD, Prod.mk.injEq] at hrel
        obtain ⟨h1, h2, h4⟩ := hrel
        exact ⟨st2, rfl, h1, h2⟩
    · simp only [hc, ↓reduceIte, decide_false, pure_bind, Bool.false_eq_true]
      exact ⟨_, rfl, rfl, rfl⟩

theorem dStepMin_noFuel (s : Store P) (pos : Nat) (prio : P) : NoFuel (dStepMin s pos prio) := by
  unfold dStepMin
  have h := fun (s : Store P) i => NoFuel.prioAt s i
  no_fuel

theorem dStepMin_post (s : Store P) (pos : Nat) (prio : P) :
    Post (dStepMin s pos prio) (fun b => b.1.1.size = s.size ∧ b.1.1.map = s.map ∧
      (b.2 = true → b.1.2 = Arith.parent (Arith.parent pos))) := by
  unfold dStepMin
  refine Post.bind (Post.triv _) fun pp _ => Post.ite (fun _ => ?_) (fun _ => Post.pure ⟨rfl, rfl, by simp⟩)
  exact Post.bind (Post.triv _) fun _ _ => Post.bind (Post.triv _) fun _ _ => Post.bind (Post.triv _) fun _ _ =>
    Post.pure ⟨rfl, rfl, fun _ => rfl⟩

theorem bubbleUpMinLoop_noFuel (f : Nat) : ∀ (s : Store P) (pos : Nat) (prio : P), pos < f →
    NoFuel (DQ.bubbleUpMinLoop f s pos prio) := by
  induction f with
  | zero => intro s pos prio h; omega
  | succ f ih =>
    intro s pos prio h
    rw [bubbleUpMinLoop_succ]
    refine NoFuel.ite (fun hpos => NoFuel.bind (dStepMin_noFuel _ _ _) fun b hb => ?_) (fun _ => NoFuel.pure _)
    have hp := (dStepMin_post s pos prio b hb).2.2
    refine NoFuel.ite (fun hb2 => ih _ _ _ ?_) (fun _ => NoFuel.pure _)
    rw [hp hb2]
    simp only [Arith.parent] at hpos ⊢
    omega

theorem bubbleUpMinLoop_post (f : Nat) : ∀ (s : Store P) (pos : Nat) (prio : P),
    Post (DQ.bubbleUpMinLoop f s pos prio) (fun r => r.1.size = s.size ∧ r.1.map = s.map) := by
  induction f with
  | zero => intro s pos prio r hr; cases hr
  | succ f ih =>
    intro s pos prio
    rw [bubbleUpMinLoop_succ]
    refine Post.ite (fun _ => Post.bind (dStepMin_post s pos prio) fun b hb => ?_) (fun _ => Post.pure ⟨rfl, rfl⟩)
    refine Post.ite (fun _ => ?_) (fun _ => Post.pure ⟨hb.1, hb.2.1⟩)
    intro r hr
    have := ih _ _ _ r hr
    exact ⟨by rw [this.1, hb.1], by rw [this.2, hb.2.1]⟩

/-- `DoublePriorityQueue::bubble_up_min(map, hole, priority)` = the loop of `DQ.bubbleUpMin`; the hole is passed as its
two fields, the new `hole.position` is returned -/
theorem dqBubbleUpMin (s : Store P) (pos mp : Nat) (prio : P) (fuel : Nat) (h : fuel ≥ pos + 2) :
    Src.run SrcGen.prog fuel .dqBubbleUpMin s [pos, mp] [prio]
      = (fun r => (r.1, Val.nat r.2)) <$> DQ.bubbleUpMinLoop (pos + 1) s pos prio := by
  obtain ⟨k, rfl⟩ : ∃ k, fuel = k + 2 := ⟨fuel - 2, by omega⟩
  src_enter [prog, SrcGen.dqBubbleUpMin]
  src_eval [dqBubbleUpMin_body]
  rw [exec_succ]
  have hl := dqBubbleUpMin_loop (pos + 1) (k + 1)
    { s := s, n := upd (upd (fun _ => 0) 1 mp) 0 pos, p := upd (fun _ => none) 2 (some prio) } prio (by omega)
    (by simp [upd]) (by simpa [upd] using bubbleUpMinLoop_noFuel (pos + 1) s pos prio (by omega))
  simp only [upd, ↓reduceIte, Nat.reduceEqDiff] at hl
  refine Agrees.bindFin (kx := execStep (exec prog (k + 1)) (callWith (exec prog (k + 1)) prog) dqBubbleUpMin_part1) hl ?_
  intro st' b hy hrel
  obtain ⟨h1, h2⟩ := hrel
  src_eval [dqBubbleUpMin_part1, h1, h2]
/-! ## `DoublePriorityQueue::bubble_up_max` -/

/-- one iteration of the loop of `bubble_up_max` in the hand model's terms; the flag says whether the hole moved -/
def dStepMax (s : Store P) (pos : Nat) (prio : P) : R ((Store P × Nat) × Bool) := do
  let gpp ← s.prioAt (Arith.parent (Arith.parent pos))
  let s := s.tick
  if gpp < prio then do
    let gpi ← getU s.heap (Arith.parent (Arith.parent pos)) 323
    let heap ← setU s.heap pos gpi 324
    let qp ← setU s.qp gpi pos 325
    pure (({ s with heap := heap, qp := qp }, Arith.parent (Arith.parent pos)), true)
  else pure ((s, pos), false)

theorem bubbleUpMaxLoop_succ (f : Nat) (s : Store P) (pos : Nat) (prio : P) :
    DQ.bubbleUpMaxLoop (f + 1) s pos prio =
      if pos > 0 ∧ Arith.parent pos > 0 then
        dStepMax s pos prio >>= fun b => if b.2 then DQ.bubbleUpMaxLoop f b.1.1 b.1.2 prio else pure b.1
      else pure (s, pos) := by
  simp only [DQ.bubbleUpMaxLoop, dStepMax, bind_assoc, pure_bind]
  src_close

theorem dqBubbleUpMax_loop_body (rec : Stmt → St P → R (St P × Flow P)) (callf : CallF P) (st : St P) (prio : P)
    (hp : st.p 2 = some prio) (hpos : st.n 0 > 0 ∧ Arith.parent (st.n 0) > 0) :
    (fun r => (projD r.1, r.2)) <$> execStep rec callf dqBubbleUpMax_loop1_body st
      = (fun b => ((b.1.1, b.1.2, some prio), if b.2 then Flow.normal else Flow.brk)) <$>
        dStepMax st.s (st.n 0) prio := by
  have h1 : ¬ st.n 0 = 0 := by omega
  have h2 : ¬ Arith.parent (st.n 0) = 0 := by omega
  src_eval [dqBubbleUpMax_loop1_body, projD, dStepMax, Store.prioAt, hp, h1, h2]
  src_close

theorem dqBubbleUpMax_loop_cond (callf : CallF P) (st : St P) :
    evalB callf st dqBubbleUpMax_loop1_cond = pure (st.s, decide (st.n 0 > 0 ∧ Arith.parent (st.n 0) > 0)) := by
  src_eval [dqBubbleUpMax_loop1_cond]
  by_cases h : st.n 0 > 0
  · have h1 : ¬ st.n 0 = 0 := by omega
    simp [h, h1]
  · simp [h]

theorem dqBubbleUpMax_loop (f : Nat) : ∀ (k : Nat) (st : St P) (prio : P), f ≤ k → st.p 2 = some prio →
    NoFuel (DQ.bubbleUpMaxLoop f st.s (st.n 0) prio) →
    Agrees (exec prog (k + 1) (.while dqBubbleUpMax_loop1_cond dqBubbleUpMax_loop1_body) st)
      (DQ.bubbleUpMaxLoop f st.s (st.n 0) prio)
      (fun st' r => st'.s = r.1 ∧ st'.n 0 = r.2) := by
  induction f with
  | zero => intro k st prio _ _ hne; exact absurd rfl hne
  | succ f ih =>
    intro k st prio hk hp hne
    obtain ⟨k, rfl⟩ : ∃ k', k = k' + 1 := ⟨k - 1, by omega⟩
    rw [exec, execStep_while, dqBubbleUpMax_loop_cond, bubbleUpMaxLoop_succ] at *
    by_cases hc : st.n 0 > 0 ∧ Arith.parent (st.n 0) > 0
    · simp only [hc, and_self, ↓reduceIte, decide_true, pure_bind] at hne ⊢
      have hb := agreesB_of_map_eq' projD (fun (b : Store P × Nat) => (b.1, b.2, some prio)) _ _
        (dqBubbleUpMax_loop_body (exec prog (k + 1)) (callWith (exec prog (k + 1)) prog) st prio hp hc)
      refine AgreesB.bindW (kx := exec prog (k + 1) (.while dqBubbleUpMax_loop1_cond dqBubbleUpMax_loop1_body))
        (ky := fun b => DQ.bubbleUpMaxLoop f b.1 b.2 prio) (kb := fun b => pure b) hb ?_ ?_
      · intro st2 b hy hrel
        simp only [projD, Prod.mk.injEq] at hrel
        obtain ⟨h1, h2, h4⟩ := hrel
        have := ih k st2 prio (by omega) h4 (by
          have := hne
          unfold NoFuel at this ⊢
          simpa only [hy, ok_bind, h1, h2, ↓reduceIte] using this)
        rw [h1, h2] at this
        exact this
      · intro st2 b hy hrel
        simp only [projD, Prod.mk.injEq] at hrel
        obtain ⟨h1, h2, h4⟩ := hrel
        exact ⟨st2, rfl, h1, h2⟩
    · simp only [hc, ↓reduceIte, decide_false, pure_bind, Bool.false_eq_true]
      exact ⟨_, rfl, rfl, rfl⟩

theorem dStepMax_noFuel (s : Store P) (pos : Nat) (prio : P) : NoFuel (dStepMax s pos prio) := by
  unfold dStepMax
  have h := fun (s : Store P) i => NoFuel.prioAt s i
  no_fuel

theorem dStepMax_post (s : Store P) (pos : Nat) (prio : P) :
    Post (dStepMax s pos prio) (fun b => b.1.1.size = s.size ∧ b.1.1.map = s.map ∧
      (b.2 = true → b.1.2 = Arith.parent (Arith.parent pos))) := by
  unfold dStepMax
  refine Post.bind (Post.triv _) fun pp _ => Post.ite (fun _ => ?_) (fun _ => Post.pure ⟨rfl, rfl, by simp⟩)
  exact Post.bind (Post.triv _) fun _ _ => Post.bind (Post.triv _) fun _ _ => Post.bind (Post.triv _) fun _ _ =>
    Post.pure ⟨rfl, rfl, fun _ => rfl⟩

theorem bubbleUpMaxLoop_noFuel (f : Nat) : ∀ (s : Store P) (pos : Nat) (prio : P), pos < f →
    NoFuel (DQ.bubbleUpMaxLoop f s pos prio) := by
  induction f with
  | zero => intro s pos prio h; omega
  | succ f ih =>
    intro s pos prio h
    rw [bubbleUpMaxLoop_succ]
    refine NoFuel.ite (fun hpos => NoFuel.bind (dStepMax_noFuel _ _ _) fun b hb => ?_) (fun _ => NoFuel.pure _)
    have hp := (dStepMax_post s pos prio b hb).2.2
    refine NoFuel.ite (fun hb2 => ih _ _ _ ?_) (fun _ => NoFuel.pure _)
    rw [hp hb2]
    simp only [Arith.parent] at hpos ⊢
    omega

theorem bubbleUpMaxLoop_post (f : Nat) : ∀ (s : Store P) (pos : Nat) (prio : P),
    Post (DQ.bubbleUpMaxLoop f s pos prio) (fun r => r.1.size = s.size ∧ r.1.map = s.map) := by
  induction f with
  | zero => intro s pos prio r hr; cases hr
  | succ f ih =>
    intro s pos prio
    rw [bubbleUpMaxLoop_succ]
    refine Post.ite (fun _ => Post.bind (dStepMax_post s pos prio) fun b hb => ?_) (fun _ => Post.pure ⟨rfl, rfl⟩)
    refine Post.ite (fun _ => ?_) (fun _ => Post.pure ⟨hb.1, hb.2.1⟩)
    intro r hr
    have := ih _ _ _ r hr
    exact ⟨by rw [this.1, hb.1], by rw [this.2, hb.2.1]⟩

/-- `DoublePriorityQueue::bubble_up_max(map, hole, priority)` = the loop of `DQ.bubbleUpMax`; the hole is passed as its
two fields, the new `hole.position` is returned -/
theorem dqBubbleUpMax (s : Store P) (pos mp : Nat) (prio : P) (fuel : Nat) (h : fuel ≥ pos + 2) :
    Src.run SrcGen.prog fuel .dqBubbleUpMax s [pos, mp] [prio]
      = (fun r => (r.1, Val.nat r.2)) <$> DQ.bubbleUpMaxLoop (pos + 1) s pos prio := by
  obtain ⟨k, rfl⟩ : ∃ k, fuel = k + 2 := ⟨fuel - 2, by omega⟩
  src_enter [prog, SrcGen.dqBubbleUpMax]
  src_eval [dqBubbleUpMax_body]
  rw [exec_succ]
  have hl := dqBubbleUpMax_loop (pos + 1) (k + 1)
    { s := s, n := upd (upd (fun _ => 0) 1 mp) 0 pos, p := upd (fun _ => none) 2 (some prio) } prio (by omega)
    (by simp [upd]) (by simpa [upd] using bubbleUpMaxLoop_noFuel (pos + 1) s pos prio (by omega))
  simp only [upd, ↓reduceIte, Nat.reduceEqDiff] at hl
  refine Agrees.bindFin (kx := execStep (exec prog (k + 1)) (callWith (exec prog (k + 1)) prog) dqBubbleUpMax_part1) hl ?_
  intro st' b hy hrel
  obtain ⟨h1, h2⟩ := hrel
  src_eval [dqBubbleUpMax_part1, h1, h2]
/-! ## `DoublePriorityQueue::bubble_up` -/

theorem call_dqBubbleUpMin (s : Store P) (pos mp : Nat) (prio : P) (n : Nat) (h : n ≥ pos + 2) :
    callWith (exec prog n) prog .dqBubbleUpMin s [pos, mp] [prio] []
      = (fun r => (r.1, Val.nat r.2)) <$> DQ.bubbleUpMinLoop (pos + 1) s pos prio :=
  dqBubbleUpMin s pos mp prio n h

theorem call_dqBubbleUpMax (s : Store P) (pos mp : Nat) (prio : P) (n : Nat) (h : n ≥ pos + 2) :
    callWith (exec prog n) prog .dqBubbleUpMax s [pos, mp] [prio] []
      = (fun r => (r.1, Val.nat r.2)) <$> DQ.bubbleUpMaxLoop (pos + 1) s pos prio :=
  dqBubbleUpMax s pos mp prio n h

/-- `DoublePriorityQueue::bubble_up` = `DQ.bubbleUp` -/
theorem dqBubbleUp (s : Store P) (position mapPosition : Nat) (fuel : Nat) (h : fuel ≥ position + 3) :
    Src.run SrcGen.prog fuel .dqBubbleUp s [position, mapPosition]
      = (fun r => (r.1, Val.nat r.2)) <$> DQ.bubbleUp s position mapPosition := by
  obtain ⟨k, rfl⟩ : ∃ k, fuel = k + 2 := ⟨fuel - 2, by omega⟩
  have hpar : k + 1 ≥ Arith.parent position + 2 := by simp only [Arith.parent]; omega
  src_enter [prog, SrcGen.dqBubbleUp]
  unfold DQ.bubbleUp
  src_eval [dqBubbleUp_body, call_dqBubbleUpMin _ position mapPosition _ (k + 1) (by omega),
    call_dqBubbleUpMax _ position mapPosition _ (k + 1) (by omega),
    call_dqBubbleUpMin _ (Arith.parent position) mapPosition _ (k + 1) hpar,
    call_dqBubbleUpMax _ (Arith.parent position) mapPosition _ (k + 1) hpar]
  refine bind_congr_ok fun e he => ?_
  have hmap : s.map.getIndex mapPosition = some e := (unwrapO_ok_iff _ _ _).mp he
  by_cases hpos : position > 0
  · have h0 : ¬ position = 0 := by omega
    simp only [hpos, h0, ↓reduceIte, Store.prioAt, DQ.bubbleUpMin, DQ.bubbleUpMax, map_tick, hmap, unwrapO_some,
      bind_assoc, pure_bind, ok_bind]
    src_close
  · simp only [hpos, ↓reduceIte]
/-! ## `DoublePriorityQueue::heapify_min` -/

theorem candList_eq (s : Store P) (cs : List Nat) : candList s 303 cs = DQ.candidates.go s cs := by
  induction cs with
  | nil => rfl
  | cons c cs ih =>
    simp only [candList, DQ.candidates.go, ih]
    cases s.heap[c]? <;> rfl

theorem firstMin_eq (l : List (Nat × P)) : firstMin l = DQ.minByKey l := by
  cases l <;> rfl

theorem lastMax_eq (l : List (Nat × P)) : lastMax l = DQ.maxByKey l := by
  cases l <;> rfl

/-- the loop condition `i <= parent(Position(self.len() - 1))` in the hand model's terms -/
def dCondMin (s : Store P) (i : Nat) : R Bool := do
  let last ← decC s.size 301
  let bound ← DQ.parentC last 302
  pure (decide (i ≤ bound))

/-- one iteration of the loop of `heapify_min` in the hand model's terms; the flag says whether the loop goes on -/
def dDownMin (s : Store P) (i : Nat) : R ((Store P × Nat) × Bool) := do
  let cs ← DQ.candidates s i
  let c ← unwrapO (DQ.minByKey cs) 304
  let c := c.1
  let s := s.tick (cs.length - 1)
  let pc ← s.prioAt c
  let pm ← s.prioAt i
  let s := s.tick
  if pc < pm then do
    let s ← s.swap c i
    if c > Arith.right i then do
      let p ← DQ.parentC c 305
      let pc ← s.prioAt c
      let pp ← s.prioAt p
      let s := s.tick
      let s ← if pp < pc then s.swap c p else pure s
      pure ((s, c), true)
    else pure ((s, c), false)
  else pure ((s, c), false)

theorem heapifyMinLoop_succ (f : Nat) (s : Store P) (i : Nat) :
    DQ.heapifyMinLoop (f + 1) s i =
      dCondMin s i >>= fun b => if b then
        dDownMin s i >>= fun r => if r.2 then DQ.heapifyMinLoop f r.1.1 r.1.2 else pure r.1.1
      else pure s := by
  simp only [DQ.heapifyMinLoop, dCondMin, dDownMin, bind_assoc, pure_bind, decide_eq_true_eq]
  src_close

def proj0 (st : St P) : Store P × Nat := (st.s, st.n 0)

theorem dqHeapifyMin_loop_body (g : Nat) (st : St P) :
    (fun r => (proj0 r.1, r.2)) <$>
        execStep (exec prog (g + 1)) (callWith (exec prog (g + 1)) prog) dqHeapifyMin_loop1_body st
      = (fun b => (b.1, if b.2 then Flow.normal else Flow.brk)) <$> dDownMin st.s (st.n 0) := by
  src_eval [dqHeapifyMin_loop1_body, call_storeSwap, call_storePrioAt, candList_eq, firstMin_eq, proj0, dDownMin,
    DQ.candidates, DQ.parentC]
  src_close

theorem dqHeapifyMin_loop_cond (callf : CallF P) (st : St P) :
    evalB callf st dqHeapifyMin_loop1_cond = (fun b => (st.s, b)) <$> dCondMin st.s (st.n 0) := by
  src_eval [dqHeapifyMin_loop1_cond, dCondMin, decC, DQ.parentC]
  by_cases h0 : st.s.size = 0
  · simp [h0]
  · have h1 : ¬ st.s.size < 1 := by omega
    simp only [h0, h1, ↓reduceIte]
    src_close

theorem dqHeapifyMin_loop (f : Nat) : ∀ (k : Nat) (st : St P), f ≤ k →
    NoFuel (DQ.heapifyMinLoop f st.s (st.n 0)) →
    Agrees (exec prog (k + 2) (.while dqHeapifyMin_loop1_cond dqHeapifyMin_loop1_body) st)
      (DQ.heapifyMinLoop f st.s (st.n 0)) (fun st' s' => st'.s = s') := by
  induction f with
  | zero => intro k st _ hne; exact absurd rfl hne
  | succ f ih =>
    intro k st hk hne
    obtain ⟨k, rfl⟩ : ∃ k', k = k' + 1 := ⟨k - 1, by omega⟩
    rw [exec, execStep_while, dqHeapifyMin_loop_cond, heapifyMinLoop_succ] at *
    cases hcnd : dCondMin st.s (st.n 0) with
    | error e => exact Agrees.error_iff _ _ _ |>.mpr rfl
    | ok b =>
      cases b with
      | false => exact ⟨_, rfl, rfl⟩
      | true =>
        rw [hcnd] at hne
        simp only [map_eq_pure_bind, ok_bind, pure_bind, ↓reduceIte] at hne ⊢
        have hb := agreesB_of_map_eq proj0 _ _ (dqHeapifyMin_loop_body (k + 1) st)
        refine AgreesB.bindW (kx := exec prog (k + 2) (.while dqHeapifyMin_loop1_cond dqHeapifyMin_loop1_body))
          (ky := fun b => DQ.heapifyMinLoop f b.1 b.2) (kb := fun b => pure b.1) hb ?_ ?_
        · intro st2 b hy hrel
          subst hrel
          refine ih k st2 (by omega) ?_
          have := hne
          unfold NoFuel at this ⊢
          simpa only [hy, ok_bind, proj0, ↓reduceIte] using this
        · intro st2 b hy hrel
          subst hrel
          exact ⟨st2, rfl, rfl⟩

theorem NoFuel.parentC (i site : Nat) : NoFuel (DQ.parentC i site) := by
  unfold DQ.parentC; split <;> (intro h; cases h)

theorem candidates_go_noFuel (s : Store P) (cs : List Nat) : NoFuel (DQ.candidates.go s cs) := by
  induction cs with
  | nil => exact NoFuel.pure _
  | cons c cs ih =>
    rw [DQ.candidates.go]
    cases s.heap[c]? with
    | none => exact NoFuel.pure _
    | some idx => simp only; no_fuel

theorem dCondMin_noFuel (s : Store P) (i : Nat) : NoFuel (dCondMin s i) := by
  unfold dCondMin
  no_fuel

theorem dCondMin_post (s : Store P) (i : Nat) : Post (dCondMin s i) (fun b => b = true → i + 1 < s.size) := by
  unfold dCondMin decC DQ.parentC
  split
  · intro b hb; cases hb
  · simp only [ok_bind]
    split
    · intro b hb; cases hb
    · simp only [ok_bind, Arith.parent]
      refine Post.pure ?_
      simp only [decide_eq_true_eq]
      omega

theorem dDownMin_noFuel (s : Store P) (i : Nat) : NoFuel (dDownMin s i) := by
  unfold dDownMin DQ.candidates
  refine NoFuel.bind (candidates_go_noFuel _ _) fun _ _ => ?_
  no_fuel

theorem dDownMin_post (s : Store P) (i : Nat) :
    Post (dDownMin s i) (fun r => r.1.1.size = s.size ∧ (r.2 = true → r.1.2 > i)) := by
  unfold dDownMin
  refine Post.bind (Post.triv _) fun cs _ => Post.bind (Post.triv _) fun c _ => Post.bind (Post.triv _) fun pc _ =>
    Post.bind (Post.triv _) fun pm _ => Post.ite (fun _ => ?_) (fun _ => Post.pure ⟨rfl, by simp⟩)
  refine Post.bind (swap_post _ _ _) fun s1 h1 => Post.ite (fun hgt => ?_) (fun _ => Post.pure ⟨h1, by simp⟩)
  refine Post.bind (Post.triv _) fun p _ => Post.bind (Post.triv _) fun _ _ => Post.bind (Post.triv _) fun _ _ => ?_
  dsimp only
  have hgt' : c.1 > i := by simp only [Arith.right] at hgt; omega
  refine Post.ite (fun _ => Post.bind (swap_post _ _ _) fun s2 h2 => Post.pure ⟨?_, fun _ => hgt'⟩)
    (fun _ => Post.bind (Post.pure (Q := fun (s2 : Store P) => s2.size = s.size) h1) fun s2 h2 => Post.pure ⟨h2, fun _ => hgt'⟩)
  simp only [size_tick] at h2 h1
  rw [h2, h1]

theorem heapifyMinLoop_noFuel (f : Nat) : ∀ (s : Store P) (i : Nat), 1 ≤ f → s.size ≤ f + i →
    NoFuel (DQ.heapifyMinLoop f s i) := by
  induction f with
  | zero => intro s i h; omega
  | succ f ih =>
    intro s i _ hsz
    rw [heapifyMinLoop_succ]
    refine NoFuel.bind (dCondMin_noFuel s i) fun b hb => NoFuel.ite (fun hbt => ?_) (fun _ => NoFuel.pure _)
    have hlt := dCondMin_post s i b hb hbt
    refine NoFuel.bind (dDownMin_noFuel s i) fun r hr => NoFuel.ite (fun hr2 => ?_) (fun _ => NoFuel.pure _)
    have hp := dDownMin_post s i r hr
    refine ih _ _ (by omega) ?_
    have := hp.2 hr2
    omega

/-- `DoublePriorityQueue::heapify_min` = the loop of `DQ.heapify` on min levels (the model runs it with fuel `size`) -/
theorem dqHeapifyMin (s : Store P) (i : Nat) (fuel : Nat) (hs : 1 ≤ s.size) (h : fuel ≥ s.size + 2) :
    Src.run SrcGen.prog fuel .dqHeapifyMin s [i]
      = (fun s' => (s', Val.unit)) <$> DQ.heapifyMinLoop s.size s i := by
  obtain ⟨k, rfl⟩ : ∃ k, fuel = k + 2 := ⟨fuel - 2, by omega⟩
  src_enter [prog, SrcGen.dqHeapifyMin]
  rw [dqHeapifyMin_body, exec_succ]
  simp only [map_eq_pure_bind, Function.comp]
  exact Agrees.fin_unit (dqHeapifyMin_loop s.size k _ (by omega)
    (heapifyMinLoop_noFuel s.size s i hs (by omega)))
/-! ## `DoublePriorityQueue::heapify_max` -/

/-- the loop condition `i <= parent(Position(self.len() - 1))` in the hand model's terms -/
def dCondMax (s : Store P) (i : Nat) : R Bool := do
  let last ← decC s.size 306
  let bound ← DQ.parentC last 307
  pure (decide (i ≤ bound))

/-- one iteration of the loop of `heapify_max` in the hand model's terms; the flag says whether the loop goes on -/
def dDownMax (s : Store P) (i : Nat) : R ((Store P × Nat) × Bool) := do
  let cs ← DQ.candidates s i
  let c ← unwrapO (DQ.maxByKey cs) 308
  let c := c.1
  let s := s.tick (cs.length - 1)
  let pc ← s.prioAt c
  let pm ← s.prioAt i
  let s := s.tick
  if pm < pc then do
    let s ← s.swap c i
    if c > Arith.right i then do
      let p ← DQ.parentC c 309
      let pc ← s.prioAt c
      let pp ← s.prioAt p
      let s := s.tick
      let s ← if pc < pp then s.swap c p else pure s
      pure ((s, c), true)
    else pure ((s, c), false)
  else pure ((s, c), false)

theorem heapifyMaxLoop_succ (f : Nat) (s : Store P) (i : Nat) :
    DQ.heapifyMaxLoop (f + 1) s i =
      dCondMax s i >>= fun b => if b then
        dDownMax s i >>= fun r => if r.2 then DQ.heapifyMaxLoop f r.1.1 r.1.2 else pure r.1.1
      else pure s := by
  simp only [DQ.heapifyMaxLoop, dCondMax, dDownMax, bind_assoc, pure_bind, decide_eq_true_eq]
  src_close

theorem dqHeapifyMax_loop_body (g : Nat) (st : St P) :
    (fun r => (proj0 r.1, r.2)) <$>
        execStep (exec prog (g + 1)) (callWith (exec prog (g + 1)) prog) dqHeapifyMax_loop1_body st
      = (fun b => (b.1, if b.2 then Flow.normal else Flow.brk)) <$> dDownMax st.s (st.n 0) := by
  src_eval [dqHeapifyMax_loop1_body, call_storeSwap, call_storePrioAt, candList_eq, lastMax_eq, proj0, dDownMax,
    DQ.candidates, DQ.parentC]
  src_close

theorem dqHeapifyMax_loop_cond (callf : CallF P) (st : St P) :
    evalB callf st dqHeapifyMax_loop1_cond = (fun b => (st.s, b)) <$> dCondMax st.s (st.n 0) := by
  src_eval [dqHeapifyMax_loop1_cond, dCondMax, decC, DQ.parentC]
  by_cases h0 : st.s.size = 0
  · simp [h0]
  · have h1 : ¬ st.s.size < 1 := by omega
    simp only [h0, h1, ↓reduceIte]
    src_close

theorem dqHeapifyMax_loop (f : Nat) : ∀ (k : Nat) (st : St P), f ≤ k →
    NoFuel (DQ.heapifyMaxLoop f st.s (st.n 0)) →
    Agrees (exec prog (k + 2) (.while dqHeapifyMax_loop1_cond dqHeapifyMax_loop1_body) st)
      (DQ.heapifyMaxLoop f st.s (st.n 0)) (fun st' s' => st'.s = s') := by
  induction f with
  | zero => intro k st _ hne; exact absurd rfl hne
  | succ f ih =>
    intro k st hk hne
    obtain ⟨k, rfl⟩ : ∃ k', k = k' + 1 := ⟨k - 1, by omega⟩
    rw [exec, execStep_while, dqHeapifyMax_loop_cond, heapifyMaxLoop_succ] at *
    cases hcnd : dCondMax st.s (st.n 0) with
    | error e => exact Agrees.error_iff _ _ _ |>.mpr rfl
    | ok b =>
      cases b with
      | false => exact ⟨_, rfl, rfl⟩
      | true =>
        rw [hcnd] at hne
        simp only [map_eq_pure_bind, ok_bind, pure_bind, ↓reduceIte] at hne ⊢
        have hb := agreesB_of_map_eq proj0 _ _ (dqHeapifyMax_loop_body (k + 1) st)
        refine AgreesB.bindW (kx := exec prog (k + 2) (.while dqHeapifyMax_loop1_cond dqHeapifyMax_loop1_body))
          (ky := fun b => DQ.heapifyMaxLoop f b.1 b.2) (kb := fun b => pure b.1) hb ?_ ?_
        · intro st2 b hy hrel
          subst hrel
          refine ih k st2 (by omega) ?_
          have := hne
          unfold NoFuel at this ⊢
          simpa only [hy, ok_bind, proj0, ↓reduceIte] using this
        · intro st2 b hy hrel
          subst hrel
          exact ⟨st2, rfl, rfl⟩

theorem dCondMax_noFuel (s : Store P) (i : Nat) : NoFuel (dCondMax s i) := by
  unfold dCondMax
  no_fuel

theorem dCondMax_post (s : Store P) (i : Nat) : Post (dCondMax s i) (fun b => b = true → i + 1 < s.size) := by
  unfold dCondMax decC DQ.parentC
  split
  · intro b hb; cases hb
  · simp only [ok_bind]
    split
    · intro b hb; cases hb
    · simp only [ok_bind, Arith.parent]
      refine Post.pure ?_
      simp only [decide_eq_true_eq]
      omega

theorem dDownMax_noFuel (s : Store P) (i : Nat) : NoFuel (dDownMax s i) := by
  unfold dDownMax DQ.candidates
  refine NoFuel.bind (candidates_go_noFuel _ _) fun _ _ => ?_
  no_fuel

theorem dDownMax_post (s : Store P) (i : Nat) :
    Post (dDownMax s i) (fun r => r.1.1.size = s.size ∧ (r.2 = true → r.1.2 > i)) := by
  unfold dDownMax
  refine Post.bind (Post.triv _) fun cs _ => Post.bind (Post.triv _) fun c _ => Post.bind (Post.triv _) fun pc _ =>
    Post.bind (Post.triv _) fun pm _ => Post.ite (fun _ => ?_) (fun _ => Post.pure ⟨rfl, by simp⟩)
  refine Post.bind (swap_post _ _ _) fun s1 h1 => Post.ite (fun hgt => ?_) (fun _ => Post.pure ⟨h1, by simp⟩)
  refine Post.bind (Post.triv _) fun p _ => Post.bind (Post.triv _) fun _ _ => Post.bind (Post.triv _) fun _ _ => ?_
  dsimp only
  have hgt' : c.1 > i := by simp only [Arith.right] at hgt; omega
  refine Post.ite (fun _ => Post.bind (swap_post _ _ _) fun s2 h2 => Post.pure ⟨?_, fun _ => hgt'⟩)
    (fun _ => Post.bind (Post.pure (Q := fun (s2 : Store P) => s2.size = s.size) h1) fun s2 h2 => Post.pure ⟨h2, fun _ => hgt'⟩)
  simp only [size_tick] at h2 h1
  rw [h2, h1]

theorem heapifyMaxLoop_noFuel (f : Nat) : ∀ (s : Store P) (i : Nat), 1 ≤ f → s.size ≤ f + i →
    NoFuel (DQ.heapifyMaxLoop f s i) := by
  induction f with
  | zero => intro s i h; omega
  | succ f ih =>
    intro s i _ hsz
    rw [heapifyMaxLoop_succ]
    refine NoFuel.bind (dCondMax_noFuel s i) fun b hb => NoFuel.ite (fun hbt => ?_) (fun _ => NoFuel.pure _)
    have hlt := dCondMax_post s i b hb hbt
    refine NoFuel.bind (dDownMax_noFuel s i) fun r hr => NoFuel.ite (fun hr2 => ?_) (fun _ => NoFuel.pure _)
    have hp := dDownMax_post s i r hr
    refine ih _ _ (by omega) ?_
    have := hp.2 hr2
    omega

/-- `DoublePriorityQueue::heapify_max` = the loop of `DQ.heapify` on max levels (the model runs it with fuel `size`) -/
theorem dqHeapifyMax (s : Store P) (i : Nat) (fuel : Nat) (hs : 1 ≤ s.size) (h : fuel ≥ s.size + 2) :
    Src.run SrcGen.prog fuel .dqHeapifyMax s [i]
      = (fun s' => (s', Val.unit)) <$> DQ.heapifyMaxLoop s.size s i := by
  obtain ⟨k, rfl⟩ : ∃ k, fuel = k + 2 := ⟨fuel - 2, by omega⟩
  src_enter [prog, SrcGen.dqHeapifyMax]
  rw [dqHeapifyMax_body, exec_succ]
  simp only [map_eq_pure_bind, Function.comp]
  exact Agrees.fin_unit (dqHeapifyMax_loop s.size k _ (by omega)
    (heapifyMaxLoop_noFuel s.size s i hs (by omega)))
/-! ## `DoublePriorityQueue::heapify` -/

theorem call_dqHeapifyMin (s : Store P) (i n : Nat) (hs : 1 ≤ s.size) (h : n ≥ s.size + 2) :
    callWith (exec prog n) prog .dqHeapifyMin s [i] [] [] = (fun s' => (s', Val.unit)) <$> DQ.heapifyMinLoop s.size s i :=
  dqHeapifyMin s i n hs h

theorem call_dqHeapifyMax (s : Store P) (i n : Nat) (hs : 1 ≤ s.size) (h : n ≥ s.size + 2) :
    callWith (exec prog n) prog .dqHeapifyMax s [i] [] [] = (fun s' => (s', Val.unit)) <$> DQ.heapifyMaxLoop s.size s i :=
  dqHeapifyMax s i n hs h

/-- `DoublePriorityQueue::heapify` = `DQ.heapify` -/
theorem dqHeapify (s : Store P) (i : Nat) (fuel : Nat) (h : fuel ≥ s.size + 3) :
    Src.run SrcGen.prog fuel .dqHeapify s [i] = (fun s' => (s', Val.unit)) <$> DQ.heapify s i := by
  obtain ⟨k, rfl⟩ : ∃ k, fuel = k + 1 := ⟨fuel - 1, by omega⟩
  src_enter [prog, SrcGen.dqHeapify]
  unfold DQ.heapify
  by_cases hsz : s.size ≤ 1
  · src_eval [dqHeapify_body, hsz]
  · src_eval [dqHeapify_body, hsz, call_dqHeapifyMin s i k (by omega) (by omega),
      call_dqHeapifyMax s i k (by omega) (by omega)]
    src_close

/-! ## `DoublePriorityQueue::find_max` -/

/-- `DoublePriorityQueue::find_max` = `DQ.findMax` -/
theorem dqFindMax (s : Store P) (fuel : Nat) (h : fuel ≥ 2) :
    Src.run SrcGen.prog fuel .dqFindMax s [] = (fun r => (r.1, Val.optNat r.2)) <$> DQ.findMax s := by
  obtain ⟨k, rfl⟩ : ∃ k, fuel = k + 2 := ⟨fuel - 2, by omega⟩
  src_enter [prog, SrcGen.dqFindMax]
  unfold DQ.findMax
  obtain h0 | h1 | h2 | ⟨n, hn⟩ : s.size = 0 ∨ s.size = 1 ∨ s.size = 2 ∨ ∃ n, s.size = n + 3 := by
    by_cases h0 : s.size = 0
    · exact Or.inl h0
    by_cases h1 : s.size = 1
    · exact Or.inr (Or.inl h1)
    by_cases h2 : s.size = 2
    · exact Or.inr (Or.inr (Or.inl h2))
    exact Or.inr (Or.inr (Or.inr ⟨s.size - 3, by omega⟩))
  · src_eval [dqFindMax_body, h0]
  · src_eval [dqFindMax_body, h1]
  · src_eval [dqFindMax_body, h2]
  · src_eval [dqFindMax_body, hn, keysByPrioAt, call_storePrioAt, lastMax, unwrapO_some, List.foldl_cons, List.foldl_nil,
      List.length_cons, List.length_nil]
    src_close

/-! ## `DoublePriorityQueue::up_heapify`, `heap_build` -/

theorem heapifyMinLoop_post_size (f : Nat) : ∀ (s : Store P) (i : Nat),
    Post (DQ.heapifyMinLoop f s i) (fun s' => s'.size = s.size) := by
  induction f with
  | zero => intro s i r hr; cases hr
  | succ f ih =>
    intro s i
    rw [heapifyMinLoop_succ]
    refine Post.bind (Post.triv _) fun b _ => Post.ite (fun _ => ?_) (fun _ => Post.pure rfl)
    refine Post.bind (dDownMin_post s i) fun r hr => Post.ite (fun _ => ?_) (fun _ => Post.pure hr.1)
    intro s' hs'
    rw [ih _ _ s' hs', hr.1]

theorem heapifyMaxLoop_post_size (f : Nat) : ∀ (s : Store P) (i : Nat),
    Post (DQ.heapifyMaxLoop f s i) (fun s' => s'.size = s.size) := by
  induction f with
  | zero => intro s i r hr; cases hr
  | succ f ih =>
    intro s i
    rw [heapifyMaxLoop_succ]
    refine Post.bind (Post.triv _) fun b _ => Post.ite (fun _ => ?_) (fun _ => Post.pure rfl)
    refine Post.bind (dDownMax_post s i) fun r hr => Post.ite (fun _ => ?_) (fun _ => Post.pure hr.1)
    intro s' hs'
    rw [ih _ _ s' hs', hr.1]

theorem dq_heapify_post_size (s : Store P) (i : Nat) : Post (DQ.heapify s i) (fun s' => s'.size = s.size) := by
  unfold DQ.heapify
  exact Post.ite (fun _ => Post.pure rfl) fun _ =>
    Post.ite (fun _ => heapifyMinLoop_post_size _ _ _) (fun _ => heapifyMaxLoop_post_size _ _ _)

theorem dq_bubbleUp_post_size (s : Store P) (pos mp : Nat) :
    Post (DQ.bubbleUp s pos mp) (fun r => r.1.size = s.size) := by
  unfold DQ.bubbleUp
  refine Post.bind (Post.triv _) fun e _ => ?_
  dsimp only
  have tail : ∀ (x : Store P × Nat), x.1.size = s.size → Post (do
      let heap ← setU x.1.heap x.2 mp 316
      let qp ← setU x.1.qp mp x.2 317
      pure (({ x.1 with heap := heap, qp := qp } : Store P), x.2)) (fun r => r.1.size = s.size) := fun x hx =>
    Post.bind (Post.triv _) fun _ _ => Post.bind (Post.triv _) fun _ _ => Post.pure hx
  have hmin : ∀ (s' : Store P) p, s'.size = s.size → Post (DQ.bubbleUpMin s' p mp) (fun r => r.1.size = s.size) := by
    intro s' p hs'
    unfold DQ.bubbleUpMin
    refine Post.bind (Post.triv _) fun e _ => ?_
    intro r hr
    rw [(bubbleUpMinLoop_post _ _ _ _ r hr).1, hs']
  have hmax : ∀ (s' : Store P) p, s'.size = s.size → Post (DQ.bubbleUpMax s' p mp) (fun r => r.1.size = s.size) := by
    intro s' p hs'
    unfold DQ.bubbleUpMax
    refine Post.bind (Post.triv _) fun e _ => ?_
    intro r hr
    rw [(bubbleUpMaxLoop_post _ _ _ _ r hr).1, hs']
  refine Post.ite (fun _ => ?_) (fun _ => Post.bind (Post.pure (Q := fun (r : Store P × Nat) => r.1.size = s.size) rfl) tail)
  refine Post.bind (Post.triv _) fun pp _ => Post.bind (Post.triv _) fun pi _ => ?_
  split
  · exact Post.bind (Post.triv _) fun _ _ => Post.bind (Post.triv _) fun _ _ => Post.bind (hmax _ _ rfl) tail
  · exact Post.bind (hmin _ _ rfl) tail
  · exact Post.bind (hmax _ _ rfl) tail
  · exact Post.bind (Post.triv _) fun _ _ => Post.bind (Post.triv _) fun _ _ => Post.bind (hmin _ _ rfl) tail

theorem call_dqHeapify (s : Store P) (i n : Nat) (h : n ≥ s.size + 3) :
    callWith (exec prog n) prog .dqHeapify s [i] [] [] = (fun s' => (s', Val.unit)) <$> DQ.heapify s i :=
  dqHeapify s i n h

theorem call_dqBubbleUp (s : Store P) (pos mp n : Nat) (h : n ≥ pos + 3) :
    callWith (exec prog n) prog .dqBubbleUp s [pos, mp] [] [] = (fun r => (r.1, Val.nat r.2)) <$> DQ.bubbleUp s pos mp :=
  dqBubbleUp s pos mp n h

/-- `DoublePriorityQueue::up_heapify` = `DQ.upHeapify` -/
theorem dqUpHeapify (s : Store P) (i : Nat) (fuel : Nat) (h : fuel ≥ s.size + min i s.heap.size + 4) :
    Src.run SrcGen.prog fuel .dqUpHeapify s [i] = (fun s' => (s', Val.unit)) <$> DQ.upHeapify s i := by
  obtain ⟨k, rfl⟩ : ∃ k, fuel = k + 1 := ⟨fuel - 1, by omega⟩
  src_enter [prog, SrcGen.dqUpHeapify]
  unfold DQ.upHeapify
  src_eval [dqUpHeapify_body]
  cases hget : s.heap[i]? with
  | none => src_eval
  | some tmp =>
    have hi : i < s.heap.size := getElem?_some_lt hget
    src_eval
    rw [call_dqBubbleUp _ _ _ _ (by omega)]
    src_eval
    refine bind_congr_ok fun r hr => ?_
    have hsz := dq_bubbleUp_post_size s i tmp r hr
    by_cases hne : i = r.2
    · simp only [hne, ne_eq, not_true_eq_false, ↓reduceIte, decide_false, Bool.false_eq_true, pure_bind]
      rw [call_dqHeapify _ _ _ (by omega)]
      src_eval
    · simp only [hne, ne_eq, not_false_eq_true, ↓reduceIte, decide_true]
      rw [call_dqHeapify _ _ _ (by omega)]
      src_eval
      refine bind_congr_ok fun s2 hs2 => ?_
      have hsz2 := dq_heapify_post_size r.1 i s2 hs2
      rw [call_dqHeapify _ _ _ (by simp only at hsz hsz2; omega)]
      src_eval

/-- the `for` loop of `heap_build`, for any body that behaves like `heapify(j)` on stores of size `n` -/
theorem dqHeapBuild_for (n : Nat) (body : Nat → St P → R (St P × Flow P))
    (hbody : ∀ j (st : St P), st.s.size = n → body j st =
      (fun s' => ({ st with s := s', n := upd st.n 0 j }, Flow.normal)) <$> DQ.heapify st.s j) :
    ∀ (h : Nat) (st : St P), st.s.size = n →
    Agrees (forDown body h st) (DQ.heapBuildLoop st.s h) (fun st' s' => st'.s = s') := by
  intro h
  induction h with
  | zero =>
    intro st hn
    rw [forDown, hbody 0 st hn, DQ.heapBuildLoop]
    cases hh : DQ.heapify st.s 0 with
    | error e => exact Agrees.error_iff _ _ _ |>.mpr rfl
    | ok s' => exact ⟨_, rfl, rfl⟩
  | succ h ih =>
    intro st hn
    rw [forDown, hbody (h + 1) st hn, DQ.heapBuildLoop]
    cases hh : DQ.heapify st.s (h + 1) with
    | error e => exact Agrees.error_iff _ _ _ |>.mpr rfl
    | ok s' =>
      have hs := dq_heapify_post_size st.s (h + 1) s' hh
      exact ih _ (by simp only at hs ⊢; omega)

/-- `DoublePriorityQueue::heap_build` = `DQ.heapBuild` -/
theorem dqHeapBuild (s : Store P) (fuel : Nat) (h : fuel ≥ s.size + 4) :
    Src.run SrcGen.prog fuel .dqHeapBuild s [] = (fun s' => (s', Val.unit)) <$> DQ.heapBuild s := by
  obtain ⟨k, rfl⟩ : ∃ k, fuel = k + 1 := ⟨fuel - 1, by omega⟩
  src_enter [prog, SrcGen.dqHeapBuild]
  unfold DQ.heapBuild
  by_cases hsz : s.size = 0
  · src_eval [dqHeapBuild_body, hsz]
  · rw [dqHeapBuild_body, execStep_seq]
    src_eval [hsz, DQ.parentC]
    refine Agrees.fin_unit (dqHeapBuild_for s.size _ ?_ _ _ rfl)
    intro j st hn
    rw [call_dqHeapify _ _ _ (by omega)]
    src_eval
end PQ.SrcEquiv
