import PQ.Model.Iter
/-!
# Lemmas about the iterator machines (`Cursor`, `PIterMut`, `DIterMut`)

Vocabulary used by `PQ/Props/C09.lean` and `PQ/Props/C13.lean`:

* `slots outs`      – the slot indices emitted (`.slot (some i)`) in `outs`, in order;
* `adv calls`       – number of advancing calls (`.next` / `.nextBack`) in `calls`;
* `slotsOf w calls outs` – the slots emitted in answer to the calls equal to `w`;
* `Cursor.exec`, `DIterMut.exec` – the machine state after a call list.

The main technical facts are proved for `Cursor` started in an *arbitrary* state and then
transferred to `DIterMut` by the simulation lemma `DIterMut.run_eq_cursor`
(under `pos ≤ back ≤ n` the two machines produce the same outputs and `DIterMut` never faults).
-/
namespace PQ

/-! ## `slots`, `adv`, `slotsOf` -/

/-- the slot indices emitted, in order -/
def slots : List IOut → List Nat
  | [] => []
  | .slot (some i) :: r => i :: slots r
  | _ :: r => slots r

@[simp] theorem slots_nil : slots [] = [] := rfl
@[simp] theorem slots_cons_some (i : Nat) (r : List IOut) : slots (.slot (some i) :: r) = i :: slots r := rfl
@[simp] theorem slots_cons_none (r : List IOut) : slots (.slot none :: r) = slots r := rfl
@[simp] theorem slots_cons_len (k : Nat) (r : List IOut) : slots (.len k :: r) = slots r := rfl
@[simp] theorem slots_cons_hint (lo : Nat) (hi : Option Nat) (r : List IOut) : slots (.hint lo hi :: r) = slots r := rfl
@[simp] theorem slots_cons_unsupported (r : List IOut) : slots (.unsupported :: r) = slots r := rfl

theorem slots_append (a b : List IOut) : slots (a ++ b) = slots a ++ slots b := by
  induction a with
  | nil => rfl
  | cons o a ih =>
    cases o with
    | slot i => cases i <;> simp [ih]
    | len k => simp [ih]
    | hint lo hi => simp [ih]
    | unsupported => simp [ih]

theorem slots_map_some (l : List Nat) : slots (l.map fun i => IOut.slot (some i)) = l := by
  induction l with
  | nil => rfl
  | cons a l ih => simp [ih]

theorem slots_replicate_none (k : Nat) : slots (List.replicate k (IOut.slot none)) = [] := by
  induction k with
  | zero => rfl
  | succ k ih => simp [List.replicate_succ, ih]

/-- number of advancing calls -/
def adv (calls : List ICall) : Nat := calls.count .next + calls.count .nextBack

@[simp] theorem adv_nil : adv [] = 0 := rfl
@[simp] theorem adv_cons_next (r : List ICall) : adv (.next :: r) = adv r + 1 := by
  simp [adv]; omega
@[simp] theorem adv_cons_nextBack (r : List ICall) : adv (.nextBack :: r) = adv r + 1 := by
  simp [adv]; omega
@[simp] theorem adv_cons_len (r : List ICall) : adv (.len :: r) = adv r := by
  simp [adv]
@[simp] theorem adv_cons_sizeHint (r : List ICall) : adv (.sizeHint :: r) = adv r := by
  simp [adv]

theorem adv_append (a b : List ICall) : adv (a ++ b) = adv a + adv b := by
  simp only [adv, List.count_append]; omega

/-- the slots emitted in answer to the calls equal to `w` (calls and outputs paired positionally) -/
def slotsOf (w : ICall) (calls : List ICall) (outs : List IOut) : List Nat :=
  slots (((calls.zip outs).filter (fun p => p.1 = w)).map (·.2))

@[simp] theorem slotsOf_nil (w : ICall) : slotsOf w [] [] = [] := rfl
theorem slotsOf_cons_self (w : ICall) (cs : List ICall) (o : IOut) (os : List IOut) :
    slotsOf w (w :: cs) (o :: os) = slots [o] ++ slotsOf w cs os := by
  simp [slotsOf, ← slots_append]
theorem slotsOf_cons_ne (w x : ICall) (h : x ≠ w) (cs : List ICall) (o : IOut) (os : List IOut) :
    slotsOf w (x :: cs) (o :: os) = slotsOf w cs os := by
  simp [slotsOf, h]

/-! ## `Cursor` -/

namespace Cursor

/-- the state after a call list -/
def exec (c : Cursor) : List ICall → Cursor
  | [] => c
  | x :: xs => exec (c.step x).1 xs

theorem run_cons (c : Cursor) (x : ICall) (xs : List ICall) :
    Cursor.run c (x :: xs) = (c.step x).2 :: Cursor.run (c.step x).1 xs := rfl

@[simp] theorem run_nil (c : Cursor) : Cursor.run c [] = [] := rfl

theorem run_length (c : Cursor) (calls : List ICall) : (Cursor.run c calls).length = calls.length := by
  induction calls generalizing c with
  | nil => rfl
  | cons x xs ih => simp [run_cons, ih]

theorem run_append (c : Cursor) (a b : List ICall) :
    Cursor.run c (a ++ b) = Cursor.run c a ++ Cursor.run (c.exec a) b := by
  induction a generalizing c with
  | nil => rfl
  | cons x xs ih => simp [run_cons, exec, ih]

theorem run_take (c : Cursor) (calls : List ICall) (j : Nat) :
    (Cursor.run c calls).take j = Cursor.run c (calls.take j) := by
  induction calls generalizing c j with
  | nil => simp
  | cons x xs ih =>
    cases j with
    | zero => simp
    | succ j => simp [run_cons, ih]

/-- every emitted slot lies in the remaining window -/
theorem slots_bounds (c : Cursor) (calls : List ICall) :
    ∀ i ∈ slots (Cursor.run c calls), c.front ≤ i ∧ i < c.back := by
  induction calls generalizing c with
  | nil => simp
  | cons x xs ih =>
    intro i hi
    rw [run_cons] at hi
    cases x <;> simp only [Cursor.step] at hi
    · split at hi
      · simp only [slots_cons_some, List.mem_cons] at hi
        rcases hi with rfl | hi
        · omega
        · have := ih _ _ hi; simp only at this; omega
      · exact ih _ _ hi
    · split at hi
      · simp only [slots_cons_some, List.mem_cons] at hi
        rcases hi with rfl | hi
        · omega
        · have := ih _ _ hi; simp only at this; omega
      · exact ih _ _ hi
    · exact ih _ _ hi
    · exact ih _ _ hi

/-- no slot is emitted twice -/
theorem slots_nodup (c : Cursor) (calls : List ICall) : (slots (Cursor.run c calls)).Nodup := by
  induction calls generalizing c with
  | nil => simp
  | cons x xs ih =>
    rw [run_cons]
    cases x <;> simp only [Cursor.step]
    · split
      · simp only [slots_cons_some, List.nodup_cons]
        refine ⟨fun h => ?_, ih _⟩
        have := slots_bounds _ _ _ h; simp only at this; omega
      · exact ih _
    · split
      · simp only [slots_cons_some, List.nodup_cons]
        refine ⟨fun h => ?_, ih _⟩
        have := slots_bounds _ _ _ h; simp only at this; omega
      · exact ih _
    · exact ih _
    · exact ih _

/-- the number of slots emitted is `min remaining (#advancing calls)` -/
theorem slots_length (c : Cursor) (calls : List ICall) :
    (slots (Cursor.run c calls)).length = min c.remaining (adv calls) := by
  induction calls generalizing c with
  | nil => simp
  | cons x xs ih =>
    rw [run_cons]
    cases x <;> simp only [Cursor.step]
    · split
      · simp only [slots_cons_some, List.length_cons, ih, adv_cons_next, remaining]; omega
      · simp only [slots_cons_none, ih, adv_cons_next, remaining]; omega
    · split
      · simp only [slots_cons_some, List.length_cons, ih, adv_cons_nextBack, remaining]; omega
      · simp only [slots_cons_none, ih, adv_cons_nextBack, remaining]; omega
    · simp only [slots_cons_len, ih, adv_cons_len]
    · simp only [slots_cons_hint, ih, adv_cons_sizeHint]

/-- with enough advancing calls every remaining element is emitted exactly once -/
theorem slots_perm (c : Cursor) (calls : List ICall) (h : c.remaining ≤ adv calls) :
    (slots (Cursor.run c calls)).Perm (List.range' c.front c.remaining) := by
  induction calls generalizing c with
  | nil =>
    simp only [adv_nil, Nat.le_zero] at h
    simp [h]
  | cons x xs ih =>
    rw [run_cons]
    cases x <;> simp only [Cursor.step]
    · split
      · next hlt =>
        simp only [adv_cons_next, remaining] at h
        have e : c.remaining = ({ c with front := c.front + 1 } : Cursor).remaining + 1 := by
          simp only [remaining]; omega
        rw [e, List.range'_succ, slots_cons_some]
        exact List.Perm.cons _ (ih _ (by simp only [remaining]; omega))
      · next hlt =>
        have e : c.remaining = 0 := by simp only [remaining]; omega
        simp only [slots_cons_none]
        exact ih _ (by omega)
    · split
      · next hlt =>
        simp only [adv_cons_nextBack, remaining] at h
        have e : c.remaining = ({ c with back := c.back - 1 } : Cursor).remaining + 1 := by
          simp only [remaining]; omega
        have e2 : c.back - 1 = c.front + 1 * ({ c with back := c.back - 1 } : Cursor).remaining := by
          simp only [remaining]; omega
        rw [e, List.range'_concat, slots_cons_some, ← e2]
        exact (List.Perm.cons _ (ih _ (by simp only [remaining]; omega))).trans
          (List.perm_append_singleton _ _).symm
      · next hlt =>
        have e : c.remaining = 0 := by simp only [remaining]; omega
        simp only [slots_cons_none]
        exact ih _ (by omega)
    · simp only [slots_cons_len]
      exact ih _ (by simpa using h)
    · simp only [slots_cons_hint]
      exact ih _ (by simpa using h)

/-- the value reported by `len` / `size_hint` at position `j` is the initial remaining count minus
the number of slots emitted before position `j` -/
theorem exact_at (c : Cursor) (calls : List ICall) (j : Nat) (o : IOut)
    (h : (Cursor.run c calls)[j]? = some o) :
    (∀ k, o = .len k → k = c.remaining - (slots ((Cursor.run c calls).take j)).length) ∧
    (∀ lo hi, o = .hint lo hi → lo = c.remaining - (slots ((Cursor.run c calls).take j)).length ∧
      hi = some (c.remaining - (slots ((Cursor.run c calls).take j)).length)) := by
  induction calls generalizing c j with
  | nil => simp at h
  | cons x xs ih =>
    rw [run_cons] at h ⊢
    cases j with
    | zero =>
      simp only [List.getElem?_cons_zero, Option.some.injEq] at h
      subst h
      cases x <;> simp only [Cursor.step]
      · split <;> simp
      · split <;> simp
      · simp
      · simp
    | succ j =>
      simp only [List.getElem?_cons_succ] at h
      have := ih _ _ h
      simp only [List.take_succ_cons]
      cases x <;> simp only [Cursor.step] at this ⊢
      · by_cases hlt : c.front < c.back
        · simp only [hlt, ↓reduceIte, slots_cons_some, List.length_cons, remaining] at this ⊢
          refine ⟨fun k hk => ?_, fun lo hi hk => ?_⟩
          · have := this.1 k hk; omega
          · have := this.2 lo hi hk
            refine ⟨by omega, ?_⟩
            rw [this.2]; congr 1; omega
        · simpa [hlt] using this
      · by_cases hlt : c.front < c.back
        · simp only [hlt, ↓reduceIte, slots_cons_some, List.length_cons, remaining] at this ⊢
          refine ⟨fun k hk => ?_, fun lo hi hk => ?_⟩
          · have := this.1 k hk; omega
          · have := this.2 lo hi hk
            refine ⟨by omega, ?_⟩
            rw [this.2]; congr 1; omega
        · simpa [hlt] using this
      · simpa using this
      · simpa using this

/-- the value reported at position `j` is exactly the number of slots that the rest of the run
(position `j` onwards) yields when it contains enough advancing calls, and in general
`min value (#advancing calls from j on)` -/
theorem still_yield (c : Cursor) (calls : List ICall) (j : Nat) (o : IOut)
    (h : (Cursor.run c calls)[j]? = some o) :
    (∀ k, o = .len k → (slots ((Cursor.run c calls).drop j)).length = min k (adv (calls.drop j))) ∧
    (∀ lo hi, o = .hint lo hi →
      (slots ((Cursor.run c calls).drop j)).length = min lo (adv (calls.drop j))) := by
  have hx := exact_at c calls j o h
  have h1 : (slots (Cursor.run c calls)).length
      = (slots ((Cursor.run c calls).take j)).length + (slots ((Cursor.run c calls).drop j)).length := by
    rw [← List.length_append, ← slots_append, List.take_append_drop]
  have h2 := slots_length c calls
  have h3 : (slots ((Cursor.run c calls).take j)).length = min c.remaining (adv (calls.take j)) := by
    rw [run_take, slots_length]
  have h4 : adv calls = adv (calls.take j) + adv (calls.drop j) := by
    rw [← adv_append, List.take_append_drop]
  refine ⟨fun k hk => ?_, fun lo hi hk => ?_⟩
  · have := hx.1 k hk; omega
  · have := (hx.2 lo hi hk).1; omega

/-- a cursor with nothing remaining answers `none` to every advancing call -/
theorem none_of_remaining_zero (c : Cursor) (h : c.remaining = 0) (calls : List ICall) (j : Nat) :
    ((calls[j]? = some .next ∨ calls[j]? = some .nextBack) → (Cursor.run c calls)[j]? = some (.slot none)) ∧
    (∀ s, (Cursor.run c calls)[j]? = some (.slot s) → s = none) := by
  induction calls generalizing c j with
  | nil => simp
  | cons x xs ih =>
    have hnot : ¬ c.front < c.back := by simp only [remaining] at h; omega
    rw [run_cons]
    cases j with
    | zero =>
      cases x <;> simp [Cursor.step, hnot]
    | succ j =>
      simp only [List.getElem?_cons_succ]
      have e : (c.step x).1 = c := by cases x <;> simp [Cursor.step, hnot]
      rw [e]
      exact ih c h j

/-- once as many slots as were remaining have been emitted, every later advancing call answers `none` -/
theorem none_forever (c : Cursor) (calls : List ICall) (j : Nat)
    (h : (slots ((Cursor.run c calls).take j)).length = c.remaining) (j' : Nat) (hj : j ≤ j') :
    ((calls[j']? = some .next ∨ calls[j']? = some .nextBack) → (Cursor.run c calls)[j']? = some (.slot none)) ∧
    (∀ s, (Cursor.run c calls)[j']? = some (.slot s) → s = none) := by
  induction calls generalizing c j j' with
  | nil => simp
  | cons x xs ih =>
    cases j with
    | zero =>
      simp only [List.take_zero, slots_nil, List.length_nil] at h
      exact none_of_remaining_zero c h.symm _ _
    | succ j =>
      cases j' with
      | zero => omega
      | succ j' =>
        rw [run_cons] at h ⊢
        simp only [List.take_succ_cons] at h
        simp only [List.getElem?_cons_succ]
        refine ih _ j ?_ j' (by omega)
        cases x <;> simp only [Cursor.step] at h ⊢
        · by_cases hlt : c.front < c.back
          · simp only [hlt, ↓reduceIte, slots_cons_some, List.length_cons, remaining] at h ⊢; omega
          · simpa [hlt] using h
        · by_cases hlt : c.front < c.back
          · simp only [hlt, ↓reduceIte, slots_cons_some, List.length_cons, remaining] at h ⊢; omega
          · simpa [hlt] using h
        · simpa using h
        · simpa using h

/-- front calls emit `front, front+1, …` ascending, back calls `back-1, back-2, …` descending -/
theorem front_back_order (c : Cursor) (calls : List ICall) :
    ∃ m1 m2, m1 + m2 = (slots (Cursor.run c calls)).length ∧
      slotsOf .next calls (Cursor.run c calls) = List.range' c.front m1 ∧
      slotsOf .nextBack calls (Cursor.run c calls) = (List.range m2).map (fun j => c.back - 1 - j) := by
  induction calls generalizing c with
  | nil => exact ⟨0, 0, by simp⟩
  | cons x xs ih =>
    rw [run_cons]
    cases x <;> simp only [Cursor.step]
    · split
      · obtain ⟨m1, m2, h0, h1, h2⟩ := ih ({ c with front := c.front + 1 } : Cursor)
        refine ⟨m1 + 1, m2, ?_, ?_, ?_⟩
        · simp only [slots_cons_some, List.length_cons]; omega
        · rw [slotsOf_cons_self, h1, List.range'_succ]; rfl
        · rw [slotsOf_cons_ne _ _ (by decide), h2]
      · obtain ⟨m1, m2, h0, h1, h2⟩ := ih c
        refine ⟨m1, m2, ?_, ?_, ?_⟩
        · simpa using h0
        · rw [slotsOf_cons_self, h1]; rfl
        · rw [slotsOf_cons_ne _ _ (by decide), h2]
    · split
      · obtain ⟨m1, m2, h0, h1, h2⟩ := ih ({ c with back := c.back - 1 } : Cursor)
        refine ⟨m1, m2 + 1, ?_, ?_, ?_⟩
        · simp only [slots_cons_some, List.length_cons]; omega
        · rw [slotsOf_cons_ne _ _ (by decide), h1]
        · rw [slotsOf_cons_self, h2, List.range_succ_eq_map]
          simp only [slots_cons_some, slots_nil, List.cons_append, List.nil_append, List.map_cons,
            List.map_map, Nat.sub_zero, List.cons.injEq, true_and]
          apply List.map_congr_left
          intro a _
          simp only [Function.comp, Nat.succ_eq_add_one]; omega
      · obtain ⟨m1, m2, h0, h1, h2⟩ := ih c
        refine ⟨m1, m2, ?_, ?_, ?_⟩
        · simpa using h0
        · rw [slotsOf_cons_ne _ _ (by decide), h1]
        · rw [slotsOf_cons_self, h2]; rfl
    · obtain ⟨m1, m2, h0, h1, h2⟩ := ih c
      exact ⟨m1, m2, by simpa using h0, by rw [slotsOf_cons_ne _ _ (by decide), h1],
        by rw [slotsOf_cons_ne _ _ (by decide), h2]⟩
    · obtain ⟨m1, m2, h0, h1, h2⟩ := ih c
      exact ⟨m1, m2, by simpa using h0, by rw [slotsOf_cons_ne _ _ (by decide), h1],
        by rw [slotsOf_cons_ne _ _ (by decide), h2]⟩

/-- **state invariant**: after any call list started in a state with `front ≤ back`, the new state
`c'` satisfies `front ≤ front' ≤ back' ≤ back`, `remaining' = remaining - #emitted`, and the emitted
set is exactly `{i | front ≤ i < front' ∨ back' ≤ i < back}`. -/
theorem inv (c : Cursor) (hc : c.front ≤ c.back) (calls : List ICall) :
    c.front ≤ (c.exec calls).front ∧ (c.exec calls).front ≤ (c.exec calls).back ∧
    (c.exec calls).back ≤ c.back ∧
    (c.exec calls).back - (c.exec calls).front = (c.back - c.front) - (slots (Cursor.run c calls)).length ∧
    (∀ i, i ∈ slots (Cursor.run c calls) ↔
      (c.front ≤ i ∧ i < (c.exec calls).front) ∨ ((c.exec calls).back ≤ i ∧ i < c.back)) := by
  induction calls generalizing c with
  | nil => simp [exec]; omega
  | cons x xs ih =>
    rw [run_cons]
    simp only [exec]
    cases x <;> simp only [Cursor.step]
    · split
      · next hlt =>
        obtain ⟨h1, h2, h3, h4, h5⟩ := ih ({ c with front := c.front + 1 } : Cursor) (by simp only; omega)
        simp only at h1 h2 h3 h4 h5
        dsimp only
        refine ⟨by omega, h2, h3, by simp only [slots_cons_some, List.length_cons]; omega, fun i => ?_⟩
        simp only [slots_cons_some, List.mem_cons, h5]; omega
      · simpa using ih c hc
    · split
      · next hlt =>
        obtain ⟨h1, h2, h3, h4, h5⟩ := ih ({ c with back := c.back - 1 } : Cursor) (by simp only; omega)
        simp only at h1 h2 h3 h4 h5
        dsimp only
        refine ⟨h1, h2, by omega, by simp only [slots_cons_some, List.length_cons]; omega, fun i => ?_⟩
        simp only [slots_cons_some, List.mem_cons, h5]; omega
      · simpa using ih c hc
    · simpa using ih c hc
    · simpa using ih c hc

end Cursor

/-! ## `PIterMut` -/

namespace PIterMut

theorem run_cons (n : Nat) (it : PIterMut) (x : ICall) (xs : List ICall) :
    PIterMut.run n it (x :: xs) = (it.step n x).2 :: PIterMut.run n (it.step n x).1 xs := rfl

@[simp] theorem run_nil (n : Nat) (it : PIterMut) : PIterMut.run n it [] = [] := rfl

/-- the emitted slots are exactly `pos, pos+1, …`, as many as there are `.next` calls, capped at `n` -/
theorem slots_eq (n : Nat) (it : PIterMut) (calls : List ICall) :
    slots (PIterMut.run n it calls) = List.range' it.pos (min (n - it.pos) (calls.count .next)) := by
  induction calls generalizing it with
  | nil => simp
  | cons x xs ih =>
    rw [run_cons]
    cases x <;> simp only [PIterMut.step]
    · split
      · next hlt =>
        have e : min (n - it.pos) (List.count ICall.next (ICall.next :: xs))
            = min (n - (it.pos + 1)) (List.count ICall.next xs) + 1 := by
          simp only [List.count_cons_self]; omega
        rw [slots_cons_some, ih, e, List.range'_succ]
      · next hlt =>
        have e : n - it.pos = 0 := by omega
        have e' : n - (it.pos + 1) = 0 := by omega
        rw [slots_cons_none, ih]
        simp [e, e']
    · simp [ih]
    · simp [ih]
    · simp [ih]

/-- once `pos ≥ n`, `.next` answers `none` forever -/
theorem none_of_pos_ge (n : Nat) (it : PIterMut) (h : n ≤ it.pos) (calls : List ICall) (j : Nat) :
    ∀ s, (PIterMut.run n it calls)[j]? = some (.slot s) → s = none := by
  induction calls generalizing it j with
  | nil => simp
  | cons x xs ih =>
    rw [run_cons]
    cases j with
    | zero =>
      have hn : ¬ it.pos < n := by omega
      cases x <;> simp [PIterMut.step, hn]
    | succ j =>
      simp only [List.getElem?_cons_succ]
      apply ih
      cases x <;> simp only [PIterMut.step] <;> omega

/-- after a `.next` has answered `none`, every later slot answer is `none` -/
theorem none_forever (n : Nat) (it : PIterMut) (calls : List ICall) (j j' : Nat) (hj : j ≤ j')
    (h : (PIterMut.run n it calls)[j]? = some (.slot none)) :
    ∀ s, (PIterMut.run n it calls)[j']? = some (.slot s) → s = none := by
  induction calls generalizing it j j' with
  | nil => simp
  | cons x xs ih =>
    rw [run_cons] at h ⊢
    cases j with
    | zero =>
      simp only [List.getElem?_cons_zero, Option.some.injEq] at h
      have hn : n ≤ it.pos := by
        cases x <;> simp only [PIterMut.step, IOut.slot.injEq, reduceCtorEq] at h
        split at h
        · simp at h
        · omega
      have := none_of_pos_ge n it hn (x :: xs) j'
      rwa [run_cons] at this
    | succ j =>
      cases j' with
      | zero => omega
      | succ j' =>
        simp only [List.getElem?_cons_succ] at h ⊢
        exact ih _ j j' (by omega) h

/-- `PIterMut` declares no exact size: it never answers `.len`, and `size_hint` is `(0, None)` -/
theorem no_exact_size (n : Nat) (it : PIterMut) (calls : List ICall) (j : Nat) :
    (∀ k, (PIterMut.run n it calls)[j]? ≠ some (.len k)) ∧
    (∀ lo hi, (PIterMut.run n it calls)[j]? = some (.hint lo hi) → lo = 0 ∧ hi = none) := by
  induction calls generalizing it j with
  | nil => simp
  | cons x xs ih =>
    rw [run_cons]
    cases j with
    | zero => cases x <;> simp [PIterMut.step]
    | succ j => simpa using ih _ j

/-- `n + k` consecutive `.next` calls from position `p ≤ n` -/
theorem run_replicate_next (n p d k : Nat) (hd : p + d = n) :
    PIterMut.run n ⟨p⟩ (List.replicate (d + k) .next)
      = (List.range' p d).map (fun i => IOut.slot (some i)) ++ List.replicate k (IOut.slot none) := by
  induction d generalizing p with
  | zero =>
    simp only [Nat.zero_add, List.range'_zero, List.map_nil, List.nil_append]
    induction k generalizing p with
    | zero => rfl
    | succ k ih =>
      rw [List.replicate_succ, run_cons]
      have hn : ¬ p < n := by omega
      simp only [PIterMut.step, hn, if_false, List.replicate_succ, List.cons.injEq, true_and]
      -- the position keeps growing; generalise
      have : ∀ (q : Nat), n ≤ q → PIterMut.run n ⟨q⟩ (List.replicate k .next) = List.replicate k (IOut.slot none) := by
        clear ih
        induction k with
        | zero => intro q _; rfl
        | succ k ihk =>
          intro q hq
          rw [List.replicate_succ, run_cons]
          have hq' : ¬ q < n := by omega
          simp only [PIterMut.step, hq', if_false, List.replicate_succ, List.cons.injEq, true_and]
          exact ihk (q + 1) (by omega)
      exact this (p + 1) (by omega)
  | succ d ih =>
    have hlt : p < n := by omega
    rw [show d + 1 + k = (d + k) + 1 by omega, List.replicate_succ, run_cons]
    simp only [PIterMut.step, hlt, if_true, List.range'_succ, List.map_cons, List.cons_append,
      List.cons.injEq, true_and]
    exact ih (p + 1) (by omega)

end PIterMut

/-! ## `DIterMut` -/

namespace DIterMut

/-- the state after a call list (faults propagate) -/
def exec (n : Nat) (it : DIterMut) : List ICall → R DIterMut
  | [] => pure it
  | x :: xs => do
    let (it', _) ← it.step n x
    exec n it' xs

/-- `exec` really is the state reached by `run`: a run over `a ++ b` is the run over `a` followed by the
run over `b` started in `exec a` -/
theorem run_append_ok (n : Nat) (it it' : DIterMut) (a b : List ICall) (o1 : List IOut)
    (he : DIterMut.exec n it a = .ok it') (hr : DIterMut.run n it a = .ok o1) :
    DIterMut.run n it (a ++ b) = (o1 ++ ·) <$> DIterMut.run n it' b := by
  induction a generalizing it o1 with
  | nil =>
    simp only [DIterMut.exec, DIterMut.run, pure, Except.pure, Except.ok.injEq] at he hr
    subst he; subst hr
    cases hb : DIterMut.run n it b <;> simp [Functor.map, Except.map, hb]
  | cons x xs ih =>
    simp only [DIterMut.exec, DIterMut.run, List.cons_append, bind, Except.bind] at he hr ⊢
    cases hs : it.step n x with
    | error f => simp [hs] at he
    | ok v =>
      obtain ⟨it1, o⟩ := v
      simp only [hs] at he hr ⊢
      cases hr1 : DIterMut.run n it1 xs with
      | error f => simp [hr1] at hr
      | ok r =>
        simp only [hr1, pure, Except.pure, Except.ok.injEq] at hr
        subst hr
        rw [ih it1 r he hr1]
        cases hb : DIterMut.run n it' b <;> simp [Functor.map, Except.map, pure, Except.pure]

/-- the cursor that a well-formed `DIterMut` state simulates -/
def toCursor (it : DIterMut) : Cursor := ⟨it.pos, it.back⟩

/-- one step of `DIterMut` in a state with `pos ≤ back ≤ n` is one step of `Cursor` -/
theorem step_eq_cursor (n : Nat) (it : DIterMut) (h1 : it.pos ≤ it.back) (h2 : it.back ≤ n) (x : ICall) :
    it.step n x = .ok (⟨(it.toCursor.step x).1.front, (it.toCursor.step x).1.back⟩, (it.toCursor.step x).2) := by
  cases x <;> simp only [DIterMut.step, Cursor.step, toCursor, Cursor.remaining, pure, Except.pure]
  · by_cases h : it.pos < it.back
    · have h' : ¬ it.pos ≥ it.back := by omega
      have h'' : it.pos < n := by omega
      simp [h, h', h'']
    · have h' : it.pos ≥ it.back := by omega
      simp [h, h']
  · by_cases h : it.pos < it.back
    · have h' : ¬ it.pos ≥ it.back := by omega
      have h'' : it.back - 1 < n := by omega
      simp [h, h', h'']
    · have h' : it.pos ≥ it.back := by omega
      simp [h, h']
  · have h' : ¬ it.back < it.pos := by omega
    simp [h']
  · have h' : ¬ it.back < it.pos := by omega
    simp [h']

theorem cursor_step_wf (c : Cursor) (n : Nat) (h1 : c.front ≤ c.back) (h2 : c.back ≤ n) (x : ICall) :
    (c.step x).1.front ≤ (c.step x).1.back ∧ (c.step x).1.back ≤ n := by
  cases x <;> simp only [Cursor.step]
  · split <;> simp only <;> omega
  · split <;> simp only <;> omega
  · omega
  · omega

/-- **simulation**: from a state with `pos ≤ back ≤ n`, `DIterMut` never faults and produces exactly the
outputs of the `Cursor` machine; its final state is the cursor's final state. -/
theorem run_exec_eq_cursor (n : Nat) (it : DIterMut) (h1 : it.pos ≤ it.back) (h2 : it.back ≤ n)
    (calls : List ICall) :
    DIterMut.run n it calls = .ok (Cursor.run it.toCursor calls) ∧
    DIterMut.exec n it calls = .ok ⟨(it.toCursor.exec calls).front, (it.toCursor.exec calls).back⟩ := by
  induction calls generalizing it with
  | nil => exact ⟨rfl, rfl⟩
  | cons x xs ih =>
    have hw := cursor_step_wf it.toCursor n h1 h2 x
    have := ih ⟨(it.toCursor.step x).1.front, (it.toCursor.step x).1.back⟩ hw.1 hw.2
    constructor
    · simp only [DIterMut.run, step_eq_cursor n it h1 h2 x, bind, Except.bind, pure, Except.pure]
      rw [this.1]
      rfl
    · simp only [DIterMut.exec, step_eq_cursor n it h1 h2 x, bind, Except.bind]
      rw [this.2]
      rfl

theorem run_eq_cursor (n : Nat) (calls : List ICall) :
    DIterMut.run n (DIterMut.new n) calls = .ok (Cursor.run (Cursor.new n) calls) :=
  (run_exec_eq_cursor n (DIterMut.new n) (Nat.zero_le _) (Nat.le_refl _) calls).1

theorem exec_eq_cursor (n : Nat) (calls : List ICall) :
    DIterMut.exec n (DIterMut.new n) calls
      = .ok ⟨((Cursor.new n).exec calls).front, ((Cursor.new n).exec calls).back⟩ :=
  (run_exec_eq_cursor n (DIterMut.new n) (Nat.zero_le _) (Nat.le_refl _) calls).2

end DIterMut

end PQ
